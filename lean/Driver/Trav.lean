import I2N.Model.TravStep
import I2N.Model.TravMon
/-! Line-protocol driver for engine E6 (traversal model).  See harness/travlib.py `spec_lines`. -/
open I2N.Trav

structure DSt where
  workers : List Worker := []
  nodes : List Node := []
  root : Nat := 0
  pool : List (String × List (String × String)) := []
  st : Option State := none
  ncls : Nat := 0
  hidden : List Nat := []
  trace : List MEv := []

def kv (toks : List String) (k : String) : String :=
  match toks.find? (fun t => t.startsWith (k ++ "=")) with
  | some t => (t.drop (k.length + 1)).toString
  | none => ""

def splitList (s : String) : List String := if s == "" || s == "-" then [] else s.splitOn ","

def pairs (s : String) : List (String × String) :=
  (splitList s).filterMap (fun t => match t.splitOn ":" with | [a, b] => some (a, b) | _ => none)

def optInt (s : String) : Option Int := if s == "" || s == "-" then none else s.toInt?

def parseNode (toks : List String) : Node :=
  let flags := kv toks "flags"
  { cls := (kv toks "cls").toNat!, owner := (kv toks "owner").toNat?, name := kv toks "name", pfx := kv toks "pfx",
    flat := flags.contains 'f', sharedRoot := flags.contains 's', objectRoot := flags.contains 'o',
    cloneSource := flags.contains 'c', dryRun := flags.contains 'd',
    sets := pairs (kv toks "sets"), gets := pairs (kv toks "gets"), unsetMode := pairs (kv toks "unset"),
    maxTries := optInt (kv toks "maxtries"), mct := optInt (kv toks "mct"), timeout := (kv toks "timeout").toNat!,
    shape := match kv toks "shape" with | "own" => .own | "swarm" => .swarm | _ => .global,
    scope := splitList (kv toks "scope"), poolFilter := kv toks "filter",
    rerunStatus := if kv toks "rerun" == "-" || kv toks "rerun" == "" then none else some (splitList (kv toks "rerun")),
    stopStatus := splitList (kv toks "stop"), rank := (kv toks "rank").toNat!, objs := splitList (kv toks "objs"),
    setless := kv toks "setless" }

def showEvent : Event → String
  | .start w c uid locs unk =>
    s!"start {w} {c} {uid} locs={",".intercalate (locs.map (fun (a, b) => a ++ "=" ++ b.replace " " "+"))} unknown={unk}"
  | .finish w c uid st => s!"end {w} {c} {uid} {st}"
  | .door w a reqs scope ok =>
    s!"door {w} {a} reqs={",".intercalate (reqs.map (fun (a, b) => a ++ ":" ++ b))} scope={",".intercalate scope} ok={ok}"
  | .sleep w q => s!"sleep {w} {q}"
  | .exit w => s!"exit {w}"
  | .raise w what => s!"raise {w} {what}"

def step (d : DSt) (line : String) : DSt × String :=
  let toks := (line.trimAscii.toString.splitOn " ").filter (· != "")
  match toks with
  | ["reset"] => ({}, "ok")
  | "worker" :: id :: swarm :: r :: _ =>
    ({ d with workers := d.workers ++ [{ id := id, swarm := swarm, restricted := r == "1" }] }, "ok")
  | "node" :: rest =>
    let n := parseNode rest
    ({ d with nodes := d.nodes ++ [n], ncls := max d.ncls (n.cls + 1) }, "ok")
  | ["edge", c, p, vms] =>
    match c.toNat?, p.toNat? with
    | some c, some p =>
      let vl := splitList vms
      ({ d with nodes := (d.nodes.modify c (fun n => { n with setup := n.setup ++ [(p, vl)] })).modify p
                  (fun n => { n with cleanup := n.cleanup ++ [(c, vl)] }) }, "ok")
    | _, _ => (d, "bad-op")
  | ["root", r] => ({ d with root := r.toNat! }, "ok")
  | ["hidden", i] => ({ d with hidden := d.hidden ++ [i.toNat!] }, "ok")
  | ["pool", loc, sts] => ({ d with pool := d.pool ++ [(loc, pairs sts)] }, "ok")
  | ["pool", loc] => ({ d with pool := d.pool ++ [(loc, [])] }, "ok")
  | ["init"] =>
    let g : Graph := { workers := d.workers, nodes := d.nodes, root := d.root }
    ({ d with st := some (initState g d.ncls d.pool d.hidden) }, "ok")
  | "resume" :: w :: rest =>
    match d.st, w.toNat? with
    | some s, some w =>
      let g : Graph := { workers := d.workers, nodes := d.nodes, root := d.root }
      let out : Outcome := match rest with
        | [st, dur] => { status := if st == "NONE" then none else some st, dur := dur.toNat! }
        | _ => { status := none }
      let (s', evs) := resume g s w out
      ({ d with st := some s' }, " | ".intercalate (evs.map showEvent))
    | _, _ => (d, "bad-op")
  | ["dump"] =>
    match d.st with
    | some s => (d, ((reprStr (s.nodes.map (fun n => (n.started, n.finished, n.results.length))) ++ " W " ++ reprStr (s.workers.map (fun w => (w.path, w.occAt)))).replace "\n" " "))
    | none => (d, "bad-op")
  | "ev" :: kind :: w :: rest =>
    let wi := w.toNat!
    let clsOf := fun (c : String) => if c.startsWith "pre:" then ((c.drop 4).toString.toNat!, true) else (c.toNat!, false)
    let e : MEv :=
      match kind, rest with
      | "start", c :: uid :: more =>
        let (ci, pre) := clsOf c
        let locs := (splitList (kv more "locs")).filterMap (fun it =>
          match it.splitOn "=" with
          | [vm, toks] => some (vm, (toks.splitOn "+").map (fun x => if x == "S" then "" else x))
          | _ => none)
        { kind := kind, w := wi, cls := ci, pre := pre, uid := uid, locs := locs,
          nodeWorker := (kv more "nw").toNat!, netsOk := kv more "nets" == "1",
          access := if kv more "access" == "" || kv more "access" == "-" then [] else (kv more "access").splitOn "+" }
      | "end", [c, uid, st, dur] =>
        let (ci, pre) := clsOf c
        { kind := kind, w := wi, cls := ci, pre := pre, uid := uid, status := st, dur := dur.toNat! }
      | "door", action :: more =>
        { kind := kind, w := wi, action := action, reqs := pairs (kv more "reqs"), ok := kv more "ok" == "true" }
      | _, more => { kind := kind, w := wi, status := " ".intercalate more }
    ({ d with trace := e :: d.trace }, "ok")
  | ["mon", which] =>
    let g : Graph := { workers := d.workers, nodes := d.nodes, root := d.root }
    let t := d.trace.reverse
    let out :=
      match which with
      | "overlap" => (overlapViolations g t).map (fun (w, c) => s!"{(g.worker w).id}/class{c}")
      | "count" => (countViolations g t).map (fun (w, c, k) => s!"{(g.worker w).id}/class{c}/{k}")
      | "attempt" => (attemptViolations g t).map (fun (w, c, k) => s!"{(g.worker w).id}/class{c}/{k}")
      | "present" => (presentNotRunViolations g t).map (fun (w, c) => s!"{(g.worker w).id}/class{c}")
      | "owner" => (ownerViolations g t).map (fun (w, c, what) => s!"{(g.worker w).id}/class{c}/{what}")
      | "states" => (statesViolations g d.pool t).map (fun (w, c, vm, st) => s!"{(g.worker w).id}/class{c}/{vm}:{st}")
      | "cleanup" => (cleanupViolations g t).map (fun (w, what, x) => s!"{(g.worker w).id}/{what}/{x}")
      | "result" => resultViolations g t false
      | "result-dry" => resultViolations g t true
      | "uid" => (uidViolations g t).map (fun (w, u) => s!"{(g.worker w).id}/{u}")
      | "intervals" => (intervals t).map (fun i => s!"{i.w}:{i.cls}:{i.s}-{i.e}:{i.dur}:{i.main}")
      | _ => ["bad-monitor"]
    (d, if out.isEmpty then "ok" else " ; ".intercalate out)
  | ["store"] =>
    match d.st with
    | some s => (d, " ; ".intercalate (s.store.map (fun (l, sts) => l ++ "=" ++ ",".intercalate (sts.map (fun (a, b) => a ++ ":" ++ b)))))
    | none => (d, "bad-op")
  | ["results"] =>
    match d.st with
    | some s => (d, " ; ".intercalate (s.jobResults.map (fun (n, u, st, _) => n ++ "#" ++ u ++ "#" ++ st)))
    | none => (d, "bad-op")
  | _ => (d, "bad-op")

partial def loop (h : IO.FS.Stream) (out : IO.FS.Stream) (s : DSt) : IO Unit := do
  let line ← h.getLine
  if line.isEmpty then return ()
  let (s', o) := step s line
  out.putStrLn o
  loop h out s'

def main : IO Unit := do
  let out ← IO.getStdout
  loop (← IO.getStdin) out {}
