import I2N.Model.Graph
/-! Line-protocol driver for engine E5 (graph family).  One operation per line, one answer per line.
    Empty strings are written `-`, lists are comma separated.

    g-new
    node <id> <worker> <flat01><sharedRoot01><cloneSource01> <objectRoot> <paramNets> <paramVms>
    obj <key> <suffix> <oid> <get> <getState> <setState>          (object of the last node)
    regs <r1> <r2> <r3> <r4>                                      (registers of the last node)
    setup <child> <parent> <obj> | cleanup <child> <parent> <obj> | bridge <a> <b> | clone <src> <clone>
    check            -> ok | fail <clause> <witness…>
    wf               -> true | false
    rank             -> the topological rank the checker used
-/
open I2N.Graph

structure St where
  nodes   : Array Node := #[]
  setup   : Array Edge := #[]
  cleanup : Array Edge := #[]
  bridged : Array (Nat × Nat) := #[]
  clones  : Array (Nat × Nat) := #[]
  regs    : Array (List Nat) := #[]

def St.graph (s : St) : Graph :=
  { nodes := s.nodes.toList, setup := s.setup.toList, cleanup := s.cleanup.toList,
    bridged := s.bridged.toList, clones := s.clones.toList, regs := s.regs.toList }

def un (s : String) : String := if s == "-" then "" else s
def unl (s : String) : List String := if s == "-" then [] else s.splitOn ","
def flag (s : String) (i : Nat) : Bool := (s.toList.getD i '0') == '1'

def step (s : St) (line : String) : St × String :=
  match (line.trimAscii.toString.splitOn " ") with
  | ["g-new"] => ({}, "ok")
  | ["node", id, w, fl, oroot, pn, pv] =>
    let n : Node :=
      { id := id, worker := un w, flat := flag fl 0, sharedRoot := flag fl 1, cloneSource := flag fl 2,
        objectRoot := un oroot, paramNets := unl pn, paramVms := unl pv, objs := [] }
    ({ s with nodes := s.nodes.push n, regs := s.regs.push [] }, "ok")
  | ["obj", key, sfx, oid, get, gs, ss] =>
    match s.nodes.back? with
    | some n =>
      let o : Obj := { key := key, suffix := sfx, oid := oid, get := un get, getState := un gs, setState := un ss }
      let n' : Node := { n with objs := n.objs ++ [o] }
      ({ s with nodes := s.nodes.pop.push n' }, "ok")
    | none => (s, "bad-op")
  | ["regs", a, b, c, d] =>
    match a.toNat?, b.toNat?, c.toNat?, d.toNat? with
    | some a, some b, some c, some d => ({ s with regs := s.regs.pop.push [a, b, c, d] }, "ok")
    | _, _, _, _ => (s, "bad-op")
  | ["setup", c, p, o] =>
    match c.toNat?, p.toNat? with
    | some c, some p => ({ s with setup := s.setup.push ⟨c, p, o⟩ }, "ok")
    | _, _ => (s, "bad-op")
  | ["cleanup", c, p, o] =>
    match c.toNat?, p.toNat? with
    | some c, some p => ({ s with cleanup := s.cleanup.push ⟨c, p, o⟩ }, "ok")
    | _, _ => (s, "bad-op")
  | ["bridge", a, b] =>
    match a.toNat?, b.toNat? with
    | some a, some b => ({ s with bridged := s.bridged.push (a, b) }, "ok")
    | _, _ => (s, "bad-op")
  | ["clone", a, b] =>
    match a.toNat?, b.toNat? with
    | some a, some b => ({ s with clones := s.clones.push (a, b) }, "ok")
    | _, _ => (s, "bad-op")
  | ["check"] => (s, s.graph.diagnose)
  | ["wf"] => (s, toString s.graph.wellFormed)
  | ["rank"] => (s, " ".intercalate (s.graph.rank.map toString))
  | _ => (s, "bad-op")

partial def loop (h : IO.FS.Stream) (out : IO.FS.Stream) (s : St) : IO Unit := do
  let line ← h.getLine
  if line.isEmpty then return ()
  let (s', o) := step s line
  out.putStrLn o
  loop h out s'

def main : IO Unit := do
  let out ← IO.getStdout
  loop (← IO.getStdin) out {}
