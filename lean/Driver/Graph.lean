import I2N.Model.Graph
import I2N.Model.GraphResolve
/-! Line-protocol driver for engine E5 (graph family).  One operation per line, one answer per line.
    Empty strings are written `-`, lists are comma separated.

    g-new
    node <id> <worker> <flat01><sharedRoot01><cloneSource01> <objectRoot> <paramNets> <paramVms>
    obj <key> <suffix> <oid> <get> <getState> <setState>          (object of the last node)
    regs <r1> <r2> <r3> <r4>                                      (registers of the last node)
    cls <class>                                                   (bridging class of the last node)
    check-bridges    -> true | false
    setup <child> <parent> <obj> | cleanup <child> <parent> <obj> | bridge <a> <b> | clone <src> <clone>
    check            -> ok | fail <clause> <witness…>
    wf               -> true | false
    rank             -> the topological rank the checker used

    abstract suites (resolver):
    s-new | s-vm <vm> <variants> | s-main <vm>
    s-test <dotted name> <vms> <creation01> <set prefixes ; separated, dotted>
    s-slot <vm|-> <kind> <get dotted|-> <getState> <setState>      (of the last test)
    s-only <vm> <variants>                                           (of the last test)
    s-user <vm> <only|no> <names>            one user vm restriction line
    s-sel <only|no> <a..b,c.d>               one line of the tests restriction
    s-worker <name> [<vm>:<only|no>:<names> …]
    r-nodes -> sorted `key;root01;vm:kind:get:getState:setState,…` joined by blanks
    r-edges -> sorted `childkey>vm:kind>parentkey` joined by blanks
    r-lazy-nodes <worker>=<test>,… / r-lazy-edges … -> the same after only these flat nodes were expanded
    with key = <test and clone labels, dotted>|<vm=variant,…>|<worker>
-/
open I2N.Graph
open I2N.Resolve

structure St where
  nodes   : Array Node := #[]
  setup   : Array Edge := #[]
  cleanup : Array Edge := #[]
  bridged : Array (Nat × Nat) := #[]
  clones  : Array (Nat × Nat) := #[]
  regs    : Array (List Nat) := #[]
  suite   : Suite := { variants := [], mainVm := "vm1", tests := [] }
  user    : List (String × VLine) := []
  sel     : List RLine := []
  workers : List Worker := []

def St.graph (s : St) : Graph :=
  { nodes := s.nodes.toList, setup := s.setup.toList, cleanup := s.cleanup.toList,
    bridged := s.bridged.toList, clones := s.clones.toList, regs := s.regs.toList }

def un (s : String) : String := if s == "-" then "" else s
def unl (s : String) : List String := if s == "-" then [] else s.splitOn ","
def flag (s : String) (i : Nat) : Bool := (s.toList.getD i '0') == '1'

def dots (s : String) : Name := if s == "-" then [] else s.splitOn "."

def sortStr (l : List String) : List String := (l.toArray.qsort (· < ·)).toList

def keyStr (w : String) (k : Key) : String :=
  ".".intercalate (k.test ++ k.labels) ++ "|" ++ ",".intercalate (k.asg.map (fun e => e.1 ++ "=" ++ e.2)) ++ "|" ++ w

def nodeStr (n : GNode) : String :=
  let slots := n.inst.slots.filter (fun x => !x.get.isEmpty || x.setState != "")
  keyStr n.worker n.inst.key ++ ";" ++ (if n.inst.root then "1" else "0") ++ ";" ++
    ",".intercalate (sortStr <| slots.map (fun x => x.vm ++ ":" ++ x.kind ++ ":" ++ ".".intercalate x.get ++ ":" ++ x.getState ++ ":" ++ x.setState))

def edgeStr (e : GEdge) : String := keyStr e.worker e.child ++ ">" ++ e.vm ++ ":" ++ e.kind ++ ">" ++ keyStr e.worker e.parent

def parseVLine (kind names : String) : VLine := (kind == "no", unl names)

def parseWorkerRestr (toks : List String) : List (String × VLine) :=
  toks.filterMap (fun t => match t.splitOn ":" with
    | [vm, kind, names] => some (vm, parseVLine kind names)
    | _ => none)

def St.updLastTest (s : St) (f : Test → Test) : St :=
  match s.suite.tests.reverse with
  | t :: rest =>
    let su : Suite := { s.suite with tests := (f t :: rest).reverse }
    { s with suite := su }
  | [] => s

def St.resolved (s : St) : RGraph := resolve s.suite s.user s.sel s.workers

def stepSuite (s : St) (toks : List String) : Option (St × String) :=
  match toks with
  | ["s-new"] =>
    let su : Suite := { variants := [], mainVm := "vm1", tests := [] }
    some ({ s with suite := su, user := [], sel := [], workers := [] }, "ok")
  | ["s-vm", vm, vs] =>
    let su : Suite := { s.suite with variants := s.suite.variants ++ [(vm, unl vs)] }
    some ({ s with suite := su }, "ok")
  | ["s-main", vm] =>
    let su : Suite := { s.suite with mainVm := vm }
    some ({ s with suite := su }, "ok")
  | ["s-test", name, vms, cr, sets] =>
    let t : Test := { name := dots name, vms := unl vms, creation := cr == "1",
                      sets := if sets == "-" then [] else (sets.splitOn ";").map dots, slots := [], only := [] }
    let su : Suite := { s.suite with tests := s.suite.tests ++ [t] }
    some ({ s with suite := su }, "ok")
  | ["s-slot", vm, kind, get, gs, ss] =>
    let sl : Slot := { vm := un vm, kind := kind, get := dots get, getState := un gs, setState := un ss }
    some (s.updLastTest (fun t => { t with slots := t.slots ++ [sl] }), "ok")
  | ["s-only", vm, vs] => some (s.updLastTest (fun t => { t with only := t.only ++ [(vm, unl vs)] }), "ok")
  | ["s-user", vm, kind, names] => some ({ s with user := s.user ++ [(vm, parseVLine kind names)] }, "ok")
  | ["s-sel", kind, alts] =>
    let l : RLine := { neg := kind == "no", alts := (alts.splitOn ",").map (fun a => (a.splitOn "..").map dots) }
    some ({ s with sel := s.sel ++ [l] }, "ok")
  | "s-worker" :: name :: rest =>
    let w : Worker := { name := name, restr := parseWorkerRestr rest }
    some ({ s with workers := s.workers ++ [w] }, "ok")
  | ["r-nodes"] => some (s, " ".intercalate (sortStr (s.resolved.nodes.map nodeStr)))
  | ["r-edges"] => some (s, " ".intercalate (sortStr (s.resolved.edges.map edgeStr)))
  | ["r-lazy-nodes", steps] =>
    let st := (unl steps).filterMap (fun x => match x.splitOn "=" with | [w, t] => some (w, dots t) | _ => none)
    some (s, " ".intercalate (sortStr ((resolveLazy s.suite s.user s.workers st).nodes.map nodeStr)))
  | ["r-lazy-edges", steps] =>
    let st := (unl steps).filterMap (fun x => match x.splitOn "=" with | [w, t] => some (w, dots t) | _ => none)
    some (s, " ".intercalate (sortStr ((resolveLazy s.suite s.user s.workers st).edges.map edgeStr)))
  | _ => none

def step (s : St) (line : String) : St × String :=
  match stepSuite s (line.trimAscii.toString.splitOn " ") with
  | some r => r
  | none =>
  match (line.trimAscii.toString.splitOn " ") with
  | ["g-new"] => ({}, "ok")
  | ["node", id, w, fl, oroot, pn, pv] =>
    let n : Node :=
      { id := id, worker := un w, flat := flag fl 0, sharedRoot := flag fl 1, cloneSource := flag fl 2,
        objectRoot := un oroot, paramNets := unl pn, paramVms := unl pv, objs := [] }
    ({ s with nodes := s.nodes.push n, regs := s.regs.push [] }, "ok")
  | ["obj", key, sfx, oid, get, gs, ss] =>
    match s.nodes.back? with
    | some n =>
      let o : Obj := { key := key, suffix := sfx, oid := oid, get := un get, getState := un gs, setState := un ss }
      let n' : Node := { n with objs := n.objs ++ [o] }
      ({ s with nodes := s.nodes.pop.push n' }, "ok")
    | none => (s, "bad-op")
  | ["cls", c] =>
    match s.nodes.back? with
    | some n =>
      let n' : Node := { n with cls := c }
      ({ s with nodes := s.nodes.pop.push n' }, "ok")
    | none => (s, "bad-op")
  | ["check-bridges"] => (s, toString s.graph.checkBridges)
  | ["regs", a, b, c, d] =>
    match a.toNat?, b.toNat?, c.toNat?, d.toNat? with
    | some a, some b, some c, some d => ({ s with regs := s.regs.pop.push [a, b, c, d] }, "ok")
    | _, _, _, _ => (s, "bad-op")
  | ["setup", c, p, o] =>
    match c.toNat?, p.toNat? with
    | some c, some p => ({ s with setup := s.setup.push ⟨c, p, o⟩ }, "ok")
    | _, _ => (s, "bad-op")
  | ["cleanup", c, p, o] =>
    match c.toNat?, p.toNat? with
    | some c, some p => ({ s with cleanup := s.cleanup.push ⟨c, p, o⟩ }, "ok")
    | _, _ => (s, "bad-op")
  | ["bridge", a, b] =>
    match a.toNat?, b.toNat? with
    | some a, some b => ({ s with bridged := s.bridged.push (a, b) }, "ok")
    | _, _ => (s, "bad-op")
  | ["clone", a, b] =>
    match a.toNat?, b.toNat? with
    | some a, some b => ({ s with clones := s.clones.push (a, b) }, "ok")
    | _, _ => (s, "bad-op")
  | ["check"] => (s, s.graph.diagnose)
  | ["wf"] => (s, toString s.graph.wellFormed)
  | ["rank"] => (s, " ".intercalate (s.graph.rank.map toString))
  | _ => (s, "bad-op")

partial def loop (h : IO.FS.Stream) (out : IO.FS.Stream) (s : St) : IO Unit := do
  let line ← h.getLine
  if line.isEmpty then return ()
  let (s', o) := step s line
  out.putStrLn o
  loop h out s'

def main : IO Unit := do
  let out ← IO.getStdout
  loop (← IO.getStdin) out {}
