import I2N.Model.Index
/-! Line-protocol driver for engine E1 (see DESIGN.md Appendix B).
    trie-new | trie-insert <name> <id> | trie-get <q> | trie-has <q>
    reg-new | reg <R> <nodeKey> <worker> | cnt <R> <nodeKey|*> <worker|*> | wrk <R> <nodeKey|*>
    Registers are addressed through nodes: `nreg <node> <childKey> <worker>` registers in the
    register object node currently references; `ncnt`/`nwrk` likewise; `bridge <a> <c>`. -/
open I2N.Index

structure St where
  trie : Trie := []
  regs : List (Nat × Register) := []      -- register object id ↦ contents
  br   : Bridging := { regOf := [], bridged := [] }

def St.getReg (s : St) (r : Nat) : Register :=
  match s.regs.find? (·.1 == r) with | some (_, x) => x | none => []
def St.setReg (s : St) (r : Nat) (x : Register) : St :=
  { s with regs := (r, x) :: s.regs.filter (·.1 != r) }

def opt (s : String) : Option String := if s == "*" then none else some s

def sortNat (l : List Nat) : List Nat := (l.toArray.qsort (· < ·)).toList
def sortStr (l : List String) : List String := (l.toArray.qsort (· < ·)).toList

def step (s : St) (line : String) : St × String :=
  match (line.trimAscii.toString.splitOn " ") with
  | ["trie-new"] => ({ s with trie := [] }, "ok")
  | ["trie-insert", name, id] =>
    match id.toNat? with
    | some k => ({ s with trie := insert s.trie (name.splitOn ".") k }, "ok")
    | none => (s, "bad-op")
  | ["trie-get", q] => (s, " ".intercalate ((sortNat (get s.trie (q.splitOn "."))).map toString))
  | ["trie-has", q] => (s, toString (contains s.trie (q.splitOn ".")))
  | ["reset"] => ({}, "ok")
  | ["nreg", n, key, w] =>
    match n.toNat? with
    | some k => let r := s.br.reg k; (s.setReg r (register (s.getReg r) key w), "ok")
    | none => (s, "bad-op")
  | ["ncnt", n, key, w] =>
    match n.toNat? with
    | some k => (s, toString (getCounters (s.getReg (s.br.reg k)) (opt key) (opt w)))
    | none => (s, "bad-op")
  | ["nwrk", n, key] =>
    match n.toNat? with
    | some k => (s, " ".intercalate (sortStr (getWorkers (s.getReg (s.br.reg k)) (opt key))))
    | none => (s, "bad-op")
  | ["bridge", a, c] =>
    match a.toNat?, c.toNat? with
    | some x, some y => ({ s with br := s.br.bridge x y }, "ok")
    | _, _ => (s, "bad-op")
  | ["same", a, c] =>
    match a.toNat?, c.toNat? with
    | some x, some y => (s, toString (s.br.reg x == s.br.reg y))
    | _, _ => (s, "bad-op")
  | _ => (s, "bad-op")

partial def loop (h : IO.FS.Stream) (out : IO.FS.Stream) (s : St) : IO Unit := do
  let line ← h.getLine
  if line.isEmpty then return ()
  let (s', o) := step s line
  out.putStrLn o
  loop h out s'

def main : IO Unit := do
  let out ← IO.getStdout
  loop (← IO.getStdin) out {}
