import I2N.Model.Net
/-! Line-protocol driver for engine E4 `net` (C18).  Addresses and masks are decimal numbers.
    reset | iface <ip> <mask> <host|-> <lo> <hi> | build | dump | alloc <regkey> | reattach <c> <r> <p|->
    maskbit <mask> | netmask <bits> | netip <ip> <bits> | translate <ip0> <mask> <ip> <nat>
    allocn <ip0> <mask> <lo> <hi> <k>
    One answer line per operation. -/
open I2N.Net

structure St where
  inp : List Iface := []
  net : Option Net := none

def natList (l : List Nat) : String := ",".intercalate (l.map toString)

def dumpNc (s : Net) (k n : Nat) : String :=
  let c := s.nc n
  let taken := (c.range.filter (·.2)).map (·.1)
  s!"{k}:{c.netIp}/{c.netmask}/{c.bits}:{natList taken}:" ++
    ",".intercalate (c.ifs.map (fun p => s!"{p.1}={p.2}"))

def dumpIf (s : Net) (i : Nat) : String :=
  let f := s.iface i
  match f.nc with
  | none => s!"{i}:{f.ip}:none"
  | some n =>
    let c := s.nc n
    let reg := s.reg.any (fun p => p.2 == n)
    let listed := alookup f.ip c.ifs == some i
    s!"{i}:{f.ip}:{c.netIp}/{c.netmask}:{if reg then 1 else 0}:{if listed then 1 else 0}"

def dump (s : Net) : String :=
  ";".intercalate (s.reg.map (fun p => dumpNc s p.1 p.2)) ++ " | " ++
    ";".intercalate ((List.range s.nIf).map (dumpIf s))

def err (e : Err) : String := "error:" ++ e.toString

def mkNc (ip mask lo hi : Nat) : Netconfig :=
  fromInterface { ip := ip, netmask := mask, host := none, lo := lo, hi := hi, nc := none }

def step (s : St) (line : String) : St × String :=
  match (line.trimAscii.toString.splitOn " ") with
  | ["reset"] => ({}, "ok")
  | ["iface", ip, mask, host, lo, hi] =>
    match ip.toNat?, mask.toNat?, lo.toNat?, hi.toNat? with
    | some ip, some mask, some lo, some hi =>
      let h := if host == "-" then none else host.toNat?
      ({ s with inp := s.inp ++ [{ ip := ip, netmask := mask, host := h, lo := lo, hi := hi, nc := none }] }, "ok")
    | _, _, _, _ => (s, "bad-op")
  | ["build"] =>
    match build s.inp with
    | .ok n => ({ s with net := some n }, "ok " ++ dump n)
    | .error e => ({ s with net := none }, err e)
  | ["dump"] =>
    match s.net with
    | some n => (s, dump n)
    | none => (s, "none")
  | ["alloc", key] =>
    match s.net, key.toNat? with
    | some n, some k =>
      match alookup k n.reg with
      | none => (s, err .keyError)
      | some id =>
        match allocAt n id with
        | .ok (a, n') => ({ s with net := some n' }, toString a)
        | .error e => (s, err e)
    | _, _ => (s, "bad-op")
  | ["reattach", c, r, p] =>
    match s.net, c.toNat?, r.toNat? with
    | some n, some c, some r =>
      match reattach n c r (if p == "-" then none else p.toNat?) with
      | .ok n' => ({ s with net := some n' }, "ok " ++ dump n')
      | .error e => (s, err e)
    | _, _, _ => (s, "bad-op")
  | ["maskbit", m] =>
    match m.toNat? with
    | some m => (s, toString (maskBit m))
    | none => (s, "bad-op")
  | ["netmask", b] =>
    match b.toNat? with
    | some b => (s, toString (netmaskOfBits b))
    | none => (s, "bad-op")
  | ["netip", ip, b] =>
    match ip.toNat?, b.toNat? with
    | some ip, some b => (s, toString (networkIp ip b))
    | _, _ => (s, "bad-op")
  | ["translate", ip0, mask, ip, nat] =>
    match ip0.toNat?, mask.toNat?, ip.toNat?, nat.toNat? with
    | some ip0, some mask, some ip, some nat =>
      match translate (mkNc ip0 mask 0 0) ip nat with
      | .ok a => (s, toString a)
      | .error e => (s, err e)
    | _, _, _, _ => (s, "bad-op")
  | ["allocn", ip0, mask, lo, hi, k] =>
    match ip0.toNat?, mask.toNat?, lo.toNat?, hi.toNat?, k.toNat? with
    | some ip0, some mask, some lo, some hi, some k =>
      let r := allocateN (mkNc ip0 mask lo hi) k
      let last := match allocate r.2 with
        | .ok (a, _) => toString a
        | .error e => err e
      (s, natList r.1 ++ " then " ++ last)
    | _, _, _, _, _ => (s, "bad-op")
  | _ => (s, "bad-op")

partial def loop (h : IO.FS.Stream) (out : IO.FS.Stream) (s : St) : IO Unit := do
  let line ← h.getLine
  if line.isEmpty then return ()
  let (s', o) := step s line
  out.putStrLn o
  loop h out s'

def main : IO Unit := do
  let out ← IO.getStdout
  loop (← IO.getStdin) out {}
