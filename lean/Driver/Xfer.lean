import I2N.Model.Transfer
/-! Line-protocol driver for the transfer half of engine E3 (C14).  Run as a script:
      cd lean && lake env lean --run Driver/script/Xfer.lean < ops.txt
    (the lakefile's `drv_pool` belongs to C13).  One answer line per operation line.

    limit <n>                         set the hashed prefix length (in content symbols)
    reset                             empty file system, no machine
    fs <path> absent|file:<syms>|link:<target>
    dl|ul|dll|ull <cache> <pool>      the five TransferOps (big step);   del <pool>
    download|upload <cache> <spec>    the dispatchers (`hosts:path`, `;` = link mode);  delete <spec>
    cmp|cmpl <cache> <pool>           compare_local / compare_link
    show <path> ...                   canonical node of every path
    job <pid> <op> <cache> <pool> <timeout>
    init                              protocol machine over the current file system
    act <pid> <start|tryLock|step|unlock|raise|crash>     -> ok pc=<..> owner=<..> | disabled
    actto <pid> <i>                   `step` through steps < i of the body, then perform step i  -> as act | skipped pc=..
    untilfail <pid>                   `step` until the process left the critical section (max 6)  -> as act
    runcs <op> <cache> <pool>         the body run step by step without interference (updates fs)
    hist                              history of the machine, chronological
    trace <ev> ...                    mutexTrace on  a,<pid>,<path> r,<pid>,<path> f,<pid>,<path> c,<pid> t,<pid>
-/
open I2N.Transfer

structure St where
  limit : Nat := 1048576
  fs : FS := fun _ => .absent
  jobs : List (Nat × Job) := []
  m : Option State := none

def St.job (s : St) (p : Nat) : Job :=
  match s.jobs.find? (·.1 == p) with
  | some (_, j) => j
  | none => { op := .del, cache := "", pool := "", timeout := 0 }

def encData (d : Data) : String := String.ofList (d.map Char.ofNat)
def decData (s : String) : Data := s.toList.map Char.toNat

def showNode : Node → String
  | .absent => "absent"
  | .file d => "file:" ++ encData d
  | .link t => "link:" ++ t

def parseNode (s : String) : Option Node :=
  if s == "absent" then some .absent
  else if s.startsWith "file:" then some (.file (decData (s.drop 5).toString))
  else if s.startsWith "link:" then some (.link (s.drop 5).toString)
  else none

def showErr : Err → String
  | .fileNotFound => "fileNotFound" | .fileExists => "fileExists" | .sameFile => "sameFile"
  | .runtimeError => "runtimeError" | .valueError => "valueError" | .notModelled => "notModelled"
  | .injected => "injected"

def showPC : PC → String
  | .idle => "idle" | .trying k => s!"trying:{k}" | .inCS i => s!"inCS:{i}" | .done => "done"
  | .failed e => "failed:" ++ showErr e | .dead => "dead"

def parseOp : String → Option Op
  | "dl" => some .dl | "ul" => some .ul | "dll" => some .dll | "ull" => some .ull | "del" => some .del
  | _ => none

def parseAct : String → Option Act
  | "start" => some .start | "tryLock" => some .tryLock | "step" => some .step | "unlock" => some .unlock
  | "raise" => some .raise | "crash" => some .crash | _ => none

def showEvent : Event → String
  | .acq p x => s!"a,{p},{x}" | .rel p x => s!"r,{p},{x}" | .fsop p x => s!"f,{p},{x}"
  | .crash p => s!"c,{p}" | .timeout p => s!"t,{p}"

def parseEvent (s : String) : Option Event :=
  match s.splitOn "," with
  | ["a", p, x] => p.toNat?.map (Event.acq · x)
  | ["r", p, x] => p.toNat?.map (Event.rel · x)
  | ["f", p, x] => p.toNat?.map (Event.fsop · x)
  | ["c", p] => p.toNat?.map Event.crash
  | ["t", p] => p.toNat?.map Event.timeout
  | _ => none

def fin (s : St) (r : Except Err FS) : St × String :=
  match r with
  | .ok fs' => ({ s with fs := fs' }, "ok")
  | .error e => (s, "error:" ++ showErr e)

def ownerStr (s : St) (m : State) (k : Nat) : String :=
  match m.owner (s.job k).pool with | some q => toString q | none => "-"

def answer (s : St) (m : State) (k : Nat) : String := s!"ok pc={showPC (m.pc k)} owner={ownerStr s m k}"

/-- `step` through the steps before `target` (they have no real call), then perform step `target` -/
def actTo (s : St) (m : State) (k target : Nat) : Nat → State × String
  | 0 => (m, "disabled")
  | fuel + 1 =>
    match m.pc k with
    | .inCS i =>
      if i > target then (m, s!"skipped pc={showPC (m.pc k)}")
      else match stepAct s.limit s.job m k .step with
        | none => (m, "disabled")
        | some m' => if i = target then (m', answer s m' k) else actTo s m' k target fuel
    | _ => (m, answer s m k)

def untilFail (s : St) (m : State) (k : Nat) : Nat → State × String
  | 0 => (m, answer s m k)
  | fuel + 1 =>
    match m.pc k with
    | .inCS _ =>
      match stepAct s.limit s.job m k .step with
      | none => (m, answer s m k)
      | some m' => untilFail s m' k fuel
    | _ => (m, answer s m k)

def step (s : St) (line : String) : St × String :=
  match (line.trimAscii.toString.splitOn " ") with
  | ["limit", n] => match n.toNat? with
    | some k => ({ s with limit := k }, "ok")
    | none => (s, "bad-op")
  | ["reset"] => ({ limit := s.limit }, "ok")
  | ["fs", p, n] => match parseNode n with
    | some nd => ({ s with fs := write s.fs p nd }, "ok")
    | none => (s, "bad-op")
  | ["dl", c, p] => fin s (downloadLocal s.limit s.fs c p)
  | ["ul", c, p] => fin s (uploadLocal s.limit s.fs c p)
  | ["dll", c, p] => fin s (downloadLink s.limit s.fs c p)
  | ["ull", c, p] => fin s (uploadLink s.limit s.fs c p)
  | ["del", p] => fin s (deleteLocal s.fs p)
  | ["download", c, spec] => fin s (download s.limit s.fs c spec)
  | ["upload", c, spec] => fin s (upload s.limit s.fs c spec)
  | ["delete", spec] => fin s (delete s.fs spec)
  | ["cmp", c, p] => (s, toString (compareLocal s.limit s.fs c p))
  | ["cmpl", c, p] => (s, toString (compareLink s.limit s.fs c p))
  | "show" :: ps => (s, " ".intercalate (ps.map (fun p => p ++ "=" ++ showNode (s.fs p))))
  | ["job", pid, op, c, p, t] =>
    match pid.toNat?, parseOp op, t.toNat? with
    | some k, some o, some tm =>
      ({ s with jobs := (k, { op := o, cache := c, pool := p, timeout := tm }) :: s.jobs.filter (·.1 != k) }, "ok")
    | _, _, _ => (s, "bad-op")
  | ["init"] => ({ s with m := some (State.init s.fs) }, "ok")
  | ["act", pid, a] =>
    match pid.toNat?, parseAct a, s.m with
    | some k, some act, some m =>
      match stepAct s.limit s.job m k act with
      | some m' => ({ s with m := some m', fs := m'.fs }, answer s m' k)
      | none => (s, "disabled")
    | _, _, _ => (s, "bad-op")
  | ["actto", pid, tgt] =>
    match pid.toNat?, tgt.toNat?, s.m with
    | some k, some t, some m =>
      let (m', a) := actTo s m k t 8
      ({ s with m := some m', fs := m'.fs }, a)
    | _, _, _ => (s, "bad-op")
  | ["untilfail", pid] =>
    match pid.toNat?, s.m with
    | some k, some m =>
      let (m', a) := untilFail s m k 6
      ({ s with m := some m', fs := m'.fs }, a)
    | _, _ => (s, "bad-op")
  | ["runcs", op, c, p] =>
    match parseOp op with
    | some o => fin s (runCS s.limit o c p 8 0 s.fs)
    | none => (s, "bad-op")
  | ["hist"] => match s.m with
    | some m => (s, " ".intercalate (m.hist.reverse.map showEvent))
    | none => (s, "bad-op")
  | "trace" :: evs =>
    match (evs.filter (· != "")).mapM parseEvent with
    | some t => (s, toString (mutexTrace t))
    | none => (s, "bad-op")
  | _ => (s, "bad-op")

partial def loop (h : IO.FS.Stream) (out : IO.FS.Stream) (s : St) : IO Unit := do
  let line ← h.getLine
  if line.isEmpty then return ()
  let (s', o) := step s line
  out.putStrLn o
  loop h out s'

def main : IO Unit := do
  let out ← IO.getStdout
  loop (← IO.getStdin) out {}
