import I2N.Model.Tools
/-! Line-protocol driver for the tools part of engine E6 (C15, C20).  Run as a script:
      lake env lean --run Driver/Tools.lean < ops.txt
    (or as the compiled exe `drv_tools` once the lakefile declares it).

    Fields of a line are separated by TAB (values may contain spaces).
      reset
      worker <id>                          -- in the order of graph.workers
      vm <name> <k>                        -- selected vms, sorted; k = number of vm objects (variants) of that vm
      pd <key> <value>                     -- config["param_dict"], later lines shadow earlier ones
      parse <w> <vm vm …> <name> <key> <rank> <name> <key> <rank> …   -- parser oracle: nodes (name, bridged form) for worker index `w` and this vm list
      tool <name> <policy> <k1,k2,…> <w w w …>  -- build the step's star graph and run the schedule of worker slices
            answer: `err <Class>` | `done=<bool>` then per execution TAB `<worker>|<name>|<vms>|k=v;k=v`
      nodes <name>                         -- the nodes the step creates: per node TAB `<worker>|<name>|<vms>`
      chain <known,…> <step,…> <behaviour> <probe,…>  -- behaviour: one char per executed step: r raises, f bad
            test results, o fine; the environment is the `pd` dictionary
            answer: `ret=<n|Class>` TAB `exec=step:i,…` TAB `fails=<0/1 per step>` TAB `env=<probe values at the entry
            of each step>`
      outcome <name> <raised 0/1> <allOk 0/1>  -- what the step returns to Manu.run: N | R | <int>
      manu0 <step,…>                       -- `Manu.run` with a command line that does not parse
    C15 (update):
      ureset                               -- empty remove-set graph
      unode <name> <setless> <vm …> <worker> <compForm …> <objectRoot|-> <s|c|sc|-> <vm:state,…|-> <child …>
                                           -- nodes in index order (children by index)
      update <vm> <worker> <compForm …> <from> <to> <hasClean 0/1> <runName …> <skipName …>
            answer: `err <Class>` | `skip` | `ok` TAB `run=<d|T|F per node>` TAB `clean=<d|T|F per node>`
                    (run T: notFinishedOrRerun; clean T: cloneFree on a node that is no clone source) -/
open I2N.Tools

structure St where
  workers : List String := []
  vms : List String := []
  vmObjs : List String := []
  pd : Dict := []
  oracle : List ((Nat × List String) × List PNode) := []

  ug : UGraph := {}

def St.parser (s : St) : Parser := fun w vms =>
  match s.oracle.find? (fun e => e.1.1 == w && e.1.2 == vms) with
  | some e => e.2
  | none => []

def pairUp : List String → List PNode
  | a :: b :: c :: rest => { name := a, key := b, rank := c.toNat?.getD 0 } :: pairUp rest
  | _ => []

def words (s : String) : List String := (s.splitOn " ").filter (· != "")
def commas (s : String) : List String := (s.splitOn ",").filter (· != "")

def showExec (g : Star) (keys : List String) (e : Nat × Nat) : String :=
  let (w, nm, vms, params) := describe g e
  let kv := keys.map (fun k => k ++ "=" ++ (match dget params k with | some v => v | none => "<unset>"))
  w ++ "|" ++ nm ++ "|" ++ " ".intercalate vms ++ "|" ++ ";".intercalate kv

def parsePolicy (s : String) : Policy := if s == "noFinishedCheck" then .noFinishedCheck else .star

def parseOutcome (s : String) : Outcome :=
  if s == "N" then .retNone else if s == "R" then .raised else
  match s.toInt? with | some n => .ret n | none => .raised

def showRet (r : Except Err Nat) : String :=
  match r with | .ok n => toString n | .error e => e.name

/-- behaviour per position: `r` raises, `f` bad test results, anything else fine -/
def behOf (b : List Char) : Nat → Bool × Bool := fun i =>
  match b.getD i 'o' with | 'r' => (true, true) | 'f' => (false, false) | _ => (false, true)

def showChain {σ : Type} (r : ChainResult σ) : String :=
  "ret=" ++ showRet r.ret ++ "\texec=" ++ ",".intercalate (r.executed.map (fun e => e.1 ++ ":" ++ toString e.2))
    ++ "\tfails=" ++ String.join (r.outcomes.map (fun o => if o.fails then "1" else "0"))

def natList (s : String) : List Nat := (words s).filterMap String.toNat?

def showSet (l : List Nat) : String := " ".intercalate ((l.toArray.qsort (· < ·)).toList.map toString)

def step (s : St) (line : String) : St × String :=
  let line := if line.endsWith "\n" then (line.dropEnd 1).toString else line
  match line.splitOn "\t" with
  | ["reset"] => ({}, "ok")
  | ["worker", id] => ({ s with workers := s.workers ++ [id] }, "ok")
  | ["vm", v, k] => ({ s with vms := s.vms ++ [v], vmObjs := s.vmObjs ++ List.replicate (k.toNat?.getD 1) v }, "ok")
  | ["pd", k, v] => ({ s with pd := (k, v) :: s.pd }, "ok")
  | "parse" :: w :: vms :: names =>
    match w.toNat? with
    | some w => ({ s with oracle := ((w, words vms), pairUp names) :: s.oracle }, "ok")
    | none => (s, "bad-op")
  | ["nodes", name] =>
    match toolSpec name with
    | none => (s, "err AttributeError")
    | some t =>
      match buildTool t s.workers.length s.vms s.vmObjs s.parser s.pd with
      | .error e => (s, "err " ++ e.name)
      | .ok nodes =>
        (s, "\t".intercalate ("ok" :: nodes.map (fun nd =>
          s.workers.getD nd.owner "?" ++ "|" ++ nd.name ++ "|" ++ " ".intercalate nd.vms)))
  | ["tool", name, pol, keys, sched] =>
    match toolSpec name with
    | none => (s, "err AttributeError")
    | some t =>
      match buildTool t s.workers.length s.vms s.vmObjs s.parser s.pd with
      | .error e => (s, "err " ++ e.name)
      | .ok nodes =>
        let g : Star := { workers := s.workers, nodes := nodes }
        let fin := runSched g (parsePolicy pol) (natList sched) {}
        (s, "\t".intercalate (("done=" ++ toString (allDone g fin)) :: fin.execs.map (showExec g (commas keys))))
  | ["chain", known, steps, beh, probes] =>
    let kn := commas known
    let f := builtinStep (behOf beh.toList)
    let envs := envTrace (fun st => kn.contains st) f s.pd 0 (commas steps)
    let showEnv := fun (d : Dict) => ",".intercalate ((commas probes).map (fun k =>
      k ++ "=" ++ (match dget d k with | some v => v | none => "<unset>")))
    (s, showChain (runChain (fun st => kn.contains st) f s.pd (commas steps)) ++ "\tenv=" ++ "|".intercalate (envs.map showEnv))
  | ["outcome", name, raised, allOk] =>
    match toolSpec name with
    | none => (s, "err AttributeError")
    | some t => (s, match stepOutcome t (raised == "1") (allOk == "1") with
                    | .raised => "R" | .retNone => "N" | .ret n => toString n)
  | ["ureset"] => ({ s with ug := {} }, "ok")
  | ["unode", name, setless, vms, worker, cfs, oroot, fl, sets, children] =>
    let nd : UNode := { name := name, setless := setless, variants := name.splitOn ".", vms := words vms, worker := worker,
                        compForms := words cfs,
                        objectRoot := if oroot == "-" then [] else (oroot.splitOn "-").flatMap (·.splitOn "."),
                        sharedRoot := fl.contains 's', cloned := fl.contains 'c',
                        sets := (commas (if sets == "-" then "" else sets)).map (fun x =>
                          match x.splitOn ":" with | [a, b] => (a, b) | _ => (x, "")),
                        children := natList children }
    ({ s with ug := { nodes := s.ug.nodes ++ [nd] } }, "ok")
  | ["update", vm, worker, cfs, frm, to, hasClean, runNames, skipNames] =>
    let u : UpdateIn := { vm := vm, worker := worker, compForms := words cfs, fromState := frm, toState := to,
                          fromVars := frm.splitOn ".", toVars := to.splitOn ".",
                          clean := if hasClean == "1" then some s.ug else none,
                          runNames := words runNames, skipNames := words skipNames }
    match updateFlags u with
    | .error e => (s, "err " ++ e.name)
    | .ok none => (s, "skip")
    | .ok (some fl) =>
      let idx := List.range s.ug.nodes.length
      let r := String.join (idx.map (fun n => match fl.run n with
        | .dflt => "d" | .notFinishedOrRerun => "T" | _ => "F"))
      let c := String.join (idx.map (fun n => match fl.clean n with
        | .dflt => "d" | _ => if willClean s.ug fl n then "T" else "F"))
      (s, "ok\trun=" ++ r ++ "\tclean=" ++ c)
  | ["manu0", steps] =>
    (s, showChain (manuRun false (fun _ => true) (builtinStep (behOf [])) s.pd (commas steps)))
  | _ => (s, "bad-op")

partial def loop (h : IO.FS.Stream) (out : IO.FS.Stream) (s : St) : IO Unit := do
  let line ← h.getLine
  if line.isEmpty then return ()
  let (s', o) := step s line
  out.putStrLn o
  loop h out s'

def main : IO Unit := do
  let out ← IO.getStdout
  loop (← IO.getStdin) out {}
