import I2N.Model.Cmd
/-! Line-protocol driver for the command line model (C11).  Fields are TAB separated; inside a
    field `\\`, `\t`, `\n` escape backslash, TAB and newline.

    reset | vms <vm>* | restr <r>* | default [<d>] | vmdefault <vm> <d> | test <dotted>
    | net <dotted> <short> | vmobj <vm> <dotted>                       -> ok
    cmd <arg>*      -> ok <tests_str> <vms> <vm_strs> <available_vms> <param_dict> <selected names>
                     | err <class>
    filter <tests|nets|vm:NAME> (<word> <value>)*  -> ok <names> | err <class>
    Dictionaries: key US value, entries separated by RS (0x1f / 0x1e); name lists: space separated. -/
open I2N.Cmd

def unesc : Str → Str
  | [] => []
  | ['\\'] => ['\\']
  | '\\' :: c :: cs =>
    (if c == 't' then '\t' else if c == 'n' then '\n' else c) :: unesc cs
  | c :: cs => c :: unesc cs

def esc : Str → Str
  | [] => []
  | c :: cs =>
    if c == '\\' then '\\' :: '\\' :: esc cs
    else if c == '\t' then '\\' :: 't' :: esc cs
    else if c == '\n' then '\\' :: 'n' :: esc cs
    else c :: esc cs

def emptyAvail : Avail :=
  { vms := [], restrictions := [], defaultOnly := none, defaultVm := [], tests := [], nets := [], vmObjs := [] }

def dotted (s : Str) : Name := splitBy (· == '.') s

def undot : Name → Str
  | [] => []
  | [a] => a
  | a :: rest => a ++ '.' :: undot rest

def errName : Err → String
  | .valueError => "valueError"
  | .emptyProduct => "emptyProduct"
  | .parserError => "parserError"

def US : Char := Char.ofNat 0x1f
def RS : Char := Char.ofNat 0x1e

def joinWith (sep : Char) : List Str → Str
  | [] => []
  | [a] => a
  | a :: rest => a ++ sep :: joinWith sep rest

def showDict (d : List (Str × Str)) : Str := joinWith RS (d.map (fun p => p.1 ++ US :: p.2))

def showVmStrs (d : List (Str × List (Str × Str))) : Str :=
  showDict (d.map (fun p => (p.1, renderLines p.2)))

def addVmObj (l : List (Str × List Name)) (vm : Str) (n : Name) : List (Str × List Name) :=
  match l with
  | [] => [(vm, [n])]
  | (v, ns) :: rest => if v == vm then (v, ns ++ [n]) :: rest else (v, ns) :: addVmObj rest vm n

def pairs : List Str → List (Str × Str)
  | a :: b :: rest => (a, b) :: pairs rest
  | _ => []

def out (fields : List Str) : String := String.ofList (joinWith '\t' (fields.map esc))

def step' (av : Avail) (line : String) : Avail × String :=
  let cs := line.toList
  let cs := if cs.getLast? == some '\n' then cs.dropLast else cs
  match (splitBy (· == '\t') cs).map unesc with
  | op :: fs =>
    match String.ofList op, fs with
    | "reset", _ => (emptyAvail, "ok")
    | "vms", fs => ({ av with vms := fs }, "ok")
    | "restr", fs => ({ av with restrictions := fs }, "ok")
    | "default", [] => ({ av with defaultOnly := none }, "ok")
    | "default", d :: _ => ({ av with defaultOnly := some d }, "ok")
    | "vmdefault", [vm, d] => ({ av with defaultVm := av.defaultVm ++ [(vm, d)] }, "ok")
    | "test", [n] => ({ av with tests := av.tests ++ [dotted n] }, "ok")
    | "net", [n, s] => ({ av with nets := av.nets ++ [(dotted n, s)] }, "ok")
    | "vmobj", [vm, n] => ({ av with vmObjs := addVmObj av.vmObjs vm (dotted n) }, "ok")
    | "cmd", args =>
      match paramsFromCmd av args with
      | .error e => (av, "err\t" ++ errName e)
      | .ok c =>
        let sel := match selectedTests av c with
          | .ok ns => joinWith ' ' (ns.map undot)
          | .error e => (errName e).toList
        (av, out ["ok".toList, renderLines c.testsLines, joinWith ' ' c.vms, showVmStrs c.vmStrs,
                  showVmStrs c.availableVms, showDict c.paramDict, sel])
    | "filter", u :: rest =>
      match parseLines (pairs rest) with
      | .error e => (av, "err\t" ++ errName e)
      | .ok ls =>
        let names : List Str :=
          if u == "tests".toList then (select av.tests ls).map undot
          else if u == "nets".toList then ((av.nets.filter (fun n => keep ls n.1)).map (·.2))
          else
            (select (vmUniverse av (u.drop 3)) ls).map undot
        (av, out ["ok".toList, joinWith ' ' names])
    | _, _ => (av, "bad-op")
  | [] => (av, "bad-op")

partial def loop' (h : IO.FS.Stream) (o : IO.FS.Stream) (av : Avail) : IO Unit := do
  let line ← h.getLine
  if line.isEmpty then return ()
  let (av', a) := step' av line
  o.putStrLn a
  loop' h o av'

def main : IO Unit := do
  let o ← IO.getStdout
  loop' (← IO.getStdin) o emptyAvail
