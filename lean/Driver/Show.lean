import I2N.Model.Show
/-! Line-protocol driver for engine E3 `show` (property C17).  Run as a script:
      lake env lean --run Driver/Show.lean < ops.txt
    One answer line per operation line.  Names/file names are `[\w.+-]*`; lists of names are
    joined by `,` (`#` = empty list), lists of lists by `|`; free text is hex encoded (`#` = empty).

    vt   <n> <img|img|…>            QCOW2VTBackend.show over per-image state lists
    old  <n> <img|img|…>            the combination before commit 8bdd936 (regression witness)
    ram  <n> <files> <img|img|…>    RamfileBackend._show (files = os.listdir(vm_dir))
    ext  <files>                    QCOW2ExtBackend._show (files = os.listdir(image_dir))
    ramext <n> <files> <files|…>    RamfileBackend._show over QCOW2ExtBackend._show per image
    on   <hexdump>                  QCOW2Backend.show, _require_running_object = True
    off  <hexdump>                  QCOW2Backend.show, _require_running_object = False
    vtl  <n> <hexdump|hexdump|…>    QCOW2VTBackend.show over snapshot listings
    cls  <code>                     character classes of chr(code): d s w t f g e
    print <line;line;…>             printListing; line = O:<hex> |
                                    R:id:pad1:tag:pad2:digits:e:sign:frac:unit:pad3:yyyymmdd:<hextail>
                                    (e is 0 or 1; sign is n, + or minus sign; empty field = #) → hex of the listing
    partition <line;…>              <off tags>/<on tags> expected by `on_off_partition`
                                    (filter on `Size.isZero` over `recsOf`)
-/
open I2N.Show

def hexVal (c : Char) : Nat :=
  if '0' ≤ c ∧ c ≤ '9' then c.toNat - 48
  else if 'a' ≤ c ∧ c ≤ 'f' then c.toNat - 87
  else if 'A' ≤ c ∧ c ≤ 'F' then c.toNat - 55 else 0

def unhexL : List Char → List Char
  | a :: b :: rest => Char.ofNat (hexVal a * 16 + hexVal b) :: unhexL rest
  | _ => []

def unhex (s : String) : List Char := if s == "#" then [] else unhexL s.toList

def hexDigit (n : Nat) : Char := if n < 10 then Char.ofNat (48 + n) else Char.ofNat (87 + n)

def hex (l : List Char) : String :=
  if l.isEmpty then "#" else String.ofList (l.flatMap (fun c => [hexDigit (c.toNat / 16), hexDigit (c.toNat % 16)]))

def names (s : String) : List Name := if s == "#" then [] else (s.splitOn ",").map String.toList
def imgs (n : Nat) (s : String) : List (List Name) := if n == 0 then [] else (s.splitOn "|").map names
def dumps (n : Nat) (s : String) : List (List Char) := if n == 0 then [] else (s.splitOn "|").map unhex
def showNames (l : List Name) : String := if l.isEmpty then "#" else ",".intercalate (l.map String.ofList)
def fld (s : String) : List Char := if s == "#" then [] else s.toList

def parseLine (s : String) : Option Line :=
  match s.splitOn ":" with
  | ["O", h] => some (.other (unhex h))
  | ["R", id, p1, tag, p2, dg, e, sg, fr, un, p3, date, tl] =>
    match p1.toNat?, p2.toNat?, p3.toNat?, date.toList with
    | some a, some b, some c, [y1, y2, y3, y4, m1, m2, d1, d2] =>
      some (.snap {
        id := fld id, pad1 := a, tag := fld tag, pad2 := b,
        size := { digits := fld dg, e := e == "1",
                  sign := if sg == "+" then some true else if sg == "-" then some false else none,
                  frac := fld fr, unit := fld un },
        pad3 := c, y1 := y1, y2 := y2, y3 := y3, y4 := y4, m1 := m1, m2 := m2, d1 := d1, d2 := d2,
        tail := unhex tl })
    | _, _, _, _ => none
  | _ => none

def parseLines (s : String) : Option (List Line) :=
  if s == "#" then some [] else (s.splitOn ";").mapM parseLine

def flag (b : Bool) (c : String) : String := if b then c else "-"

def step (line : String) : String :=
  let l := if line.endsWith "\n" then (line.dropEnd 1).toString else line
  match l.splitOn " " with
  | ["vt", n, a] => match n.toNat? with
    | some k => showNames (vtShow (imgs k a))
    | none => "bad-op"
  | ["old", n, a] => match n.toNat? with
    | some k => match oldShow (imgs k a) with
      | .ok r => showNames r
      | .error .attributeError => "attributeError"
    | none => "bad-op"
  | ["ram", n, f, a] => match n.toNat? with
    | some k => showNames (ramShow (names f) (imgs k a))
    | none => "bad-op"
  | ["ext", f] => showNames (extShow (names f))
  | ["ramext", n, f, a] => match n.toNat? with
    | some k => showNames (ramShow (names f) ((imgs k a).map extShow))
    | none => "bad-op"
  | ["on", h] => showNames (qcowShow true (unhex h))
  | ["off", h] => showNames (qcowShow false (unhex h))
  | ["vtl", n, a] => match n.toNat? with
    | some k => showNames (vtShowDumps (dumps k a))
    | none => "bad-op"
  | ["cls", n] => match n.toNat? with
    | some k =>
      let c := Char.ofNat k
      flag (isDigit c) "d" ++ flag (isSpace c) "s" ++ flag (isWord c) "w" ++ flag (isTagCh c) "t"
        ++ flag (isFracCh c) "f" ++ flag (isSign c) "g" ++ flag (isE c) "e"
    | none => "bad-op"
  | ["print", a] => match parseLines a with
    | some ls => hex (printListing ls)
    | none => "bad-op"
  | ["partition", a] => match parseLines a with
    | some ls => showNames (((recsOf ls).filter (fun r => r.size.isZero)).map (·.tag)) ++ "/" ++
                 showNames (((recsOf ls).filter (fun r => !r.size.isZero)).map (·.tag))
    | none => "bad-op"
  | _ => "bad-op"

partial def loop (h : IO.FS.Stream) (out : IO.FS.Stream) : IO Unit := do
  let line ← h.getLine
  if line.isEmpty then return ()
  out.putStrLn (step line)
  loop h out

def main : IO Unit := do
  let out ← IO.getStdout
  loop (← IO.getStdin) out
