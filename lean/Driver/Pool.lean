import I2N.Model.Pool
/-! Line-protocol driver for engine E3, C13 part (one case per line, fields separated by `|`).

    state|<op>|<scopes>|<gw>,<host>,<swarm_pool>,<shared_pool>|<net>=<gw|~>,<host|~>;…|<locations>|<cache>|<loc>=<name>,…;…|<loc>=<0|1>;…|<state>
        op ∈ show get set unset; blank separated lists; `~` = parameter not set for that net
    root|<op>|<scopes>|<local 0|1>|<pool 0|1>|<valid bits>|<isVm 0|1>
        op ∈ check_root get_root set_root unset_root

    chain|<images>|<isVm 0|1>|<state and its backing chain>|<differing files>      (compare_chain)
    cmp|<cache path>|<pool path>                                                   (TransferOps.compare routing)

    answer: `<result> # <contacts>`; result = ok | ok:<sorted names> | true | false | valueError | noLocalState | invalidScope -/
open I2N.Pool

def words (s : String) : List String := (s.splitOn " ").filter (· != "")
def sortStr (l : List String) : List String := (l.toArray.qsort (· < ·)).toList
def dedupStr : List String → List String
  | [] => []
  | x :: xs => x :: (dedupStr xs).filter (· != x)

def kv (s : String) : List (String × String) :=
  ((s.splitOn ";").filter (· != "")).filterMap fun item =>
    match item.splitOn "=" with
    | [k, v] => some (k, v)
    | _ => none

def showContact : Contact → String
  | .localShow => "local.show" | .localGet => "local.get" | .localSet => "local.set" | .localUnset => "local.unset"
  | .poolShow s => "show@" ++ s.str | .poolCompare s => "compare@" ++ s.str | .poolGet s => "get@" ++ s.str
  | .poolSet s => "set@" ++ s.str | .poolUnset s => "unset@" ++ s.str

def showRContact : RContact → String
  | .localCheck => "local.check_root" | .localGet => "local.get_root" | .localSet => "local.set_root"
  | .localUnset => "local.unset_root" | .poolCheck => "pool.check_root" | .poolCompare i => s!"pool.compare#{i}"
  | .poolGet => "pool.get_root" | .poolSet => "pool.set_root" | .poolUnset => "pool.unset_root"

def showErr : Err → String
  | .valueError => "valueError" | .noLocalState => "noLocalState" | .invalidScope => "invalidScope"

def answer (res : String) (cs : List String) : String := res ++ " # " ++ " ".intercalate cs

def unitRes : Except Err Unit → String
  | .ok _ => "ok" | .error e => showErr e

def step (line : String) : String :=
  match line.trimAscii.toString.splitOn "|" with
  | ["state", op, scopes, own, nets, locs, cache, mirrors, valids, state] =>
    match own.splitOn "," with
    | [gw, host, swarm, shared] =>
      let ov := (kv nets).map fun (n, v) =>
        match v.splitOn "," with
        | [g, h] => (n, g, h)
        | _ => (n, "~", "~")
      let e : Env := { gateway := gw, host := host, swarmPool := swarm, sharedPool := shared,
                       netGateway := ov.filterMap (fun (n, g, _) => if g == "~" then none else some (n, g)),
                       netHost := ov.filterMap (fun (n, _, h) => if h == "~" then none else some (n, h)) }
      let mt := (kv mirrors).map fun (k, v) => (k, (v.splitOn ",").filter (· != ""))
      let vt := kv valids
      let w : World := { cache := words cache,
                         mirror := fun s => (mt.lookup s.str).getD [],
                         valid := fun s => (vt.lookup s.str) == some "1" }
      let sc := words scopes
      let ls := words locs
      match op with
      | "show" =>
        let r := showRaw e w sc ls
        answer (match r.1 with
                | .ok names => "ok:" ++ ",".intercalate (sortStr (dedupStr names))
                | .error er => showErr er) (r.2.map showContact)
      | "get" => let r := getRaw e w sc state ls; answer (unitRes r.1) (r.2.map showContact)
      | "set" => let r := setRaw e w sc state ls; answer (unitRes r.1) (r.2.map showContact)
      | "unset" => let r := unsetRaw e sc ls; answer (unitRes r.1) (r.2.map showContact)
      | _ => "bad-op"
    | _ => "bad-op"
  | ["root", op, scopes, loc, pool, valids, isVm] =>
    let rw : RootWorld := { localRoot := loc == "1", poolRoot := pool == "1",
                            valid := valids.toList.map (· == '1'), isVm := isVm == "1" }
    let sc := words scopes
    match op with
    | "check_root" => let r := checkRoot rw sc; answer (toString r.1) (r.2.map showRContact)
    | "get_root" => answer "ok" ((getRoot rw sc).map showRContact)
    | "set_root" => let r := setRoot rw sc; answer (unitRes r.1) (r.2.map showRContact)
    | "unset_root" => let r := unsetRoot sc; answer (unitRes r.1) (r.2.map showRContact)
    | _ => "bad-op"
  | ["e2e", isImage, op, scopes, own, nets, locs, cache, listings, valids, state] =>
    -- the whole stack: `listings` are the raw directory listings of the mirrors, mapped by `transferShow`
    match own.splitOn "," with
    | [gw, host, swarm, shared] =>
      let ov := (kv nets).map fun (n, v) =>
        match v.splitOn "," with
        | [g, h] => (n, g, h)
        | _ => (n, "~", "~")
      let e : Env := { gateway := gw, host := host, swarmPool := swarm, sharedPool := shared,
                       netGateway := ov.filterMap (fun (n, g, _) => if g == "~" then none else some (n, g)),
                       netHost := ov.filterMap (fun (n, _, h) => if h == "~" then none else some (n, h)) }
      let mt := (kv listings).map fun (k, v) => (k, transferShow (isImage == "1") ((v.splitOn ",").filter (· != "")))
      let vt := kv valids
      let w : World := { cache := words cache,
                         mirror := fun s => (mt.lookup s.str).getD [],
                         valid := fun s => (vt.lookup s.str) == some "1" }
      let sc := words scopes
      let ls := words locs
      match op with
      | "show" =>
        let r := showRaw e w sc ls
        answer (match r.1 with
                | .ok names => "ok:" ++ ",".intercalate (sortStr (dedupStr names))
                | .error er => showErr er) (r.2.map showContact)
      | "get" => let r := getRaw e w sc state ls; answer (unitRes r.1) (r.2.map showContact)
      | "set" => let r := setRaw e w sc state ls; answer (unitRes r.1) (r.2.map showContact)
      | "unset" => let r := unsetRaw e sc ls; answer (unitRes r.1) (r.2.map showContact)
      | _ => "bad-op"
    | _ => "bad-op"
  | ["chain", images, isVm, chain, differing] =>
    let diff := words differing
    let r := compareChain (words images) (isVm == "1") (fun f => !diff.contains f) (words chain)
    answer (toString r.1) r.2
  | ["cmp", cache, pool] =>
    match compareRoute cache pool with
    | .ok (.remote c p) => answer s!"remote {c} {p}" []
    | .ok (.link c p) => answer s!"link {c} {p}" []
    | .ok (.plain c p) => answer s!"local {c} {p}" []
    | .error e => answer (showErr e) []
  | _ => "bad-op"

partial def loop (h : IO.FS.Stream) (out : IO.FS.Stream) : IO Unit := do
  let line ← h.getLine
  if line.isEmpty then return ()
  out.putStrLn (step line)
  loop h out

def main : IO Unit := do
  let out ← IO.getStdout
  loop (← IO.getStdin) out
