import I2N.Model.Tunnel
/-! Line-protocol driver for the tunnel part of engine E4 (C19).  Run as a script:
      lake env lean --run Driver/Tunnel.lean < ops.txt
    (or as the compiled exe `drv_tunnel` once the lakefile declares it).

    Tokens are separated by one space.  A string token is `=` followed by the string (so `=` is the empty
    string); the harness never sends strings containing spaces, newlines, `;` or `=`.
    A dictionary is `N` (Python `None`) or `D <n> =k1 =v1 … =kn =vn`.

      reset
      node <id> =name
      param <id> <nquals> =stem =q1 … =qn =value          -- node.params[render key] = value
      iface <id> =nic <ifid> =ip =netmask =ncNetIp =ncNetmask <nmembers> =ip1 <id1> …
      tunnel <id1> <id2> =name <local> <remote> <peer> <auth>     -- structured object_params
      tunnelstr <id1> <id2> =name <local> <remote> <peer> <auth>  -- string object_params (any names)
      connects <ida> <idb>                                 -- on the tunnel built last
      sides <ida>                                          -- on_the_left / on_the_right of one node
      variant <local> <remote> <peer>
    Answers: `ok …` / `err <PythonExceptionClass>` / `true` / `false` / `bad-op`. -/
open I2N.Tunnel

structure St where
  nodes  : List Node := []
  tunnel : Option Tunnel := none

def St.node? (s : St) (id : Nat) : Option Node := s.nodes.find? (·.id == id)
def St.putNode (s : St) (n : Node) : St := { s with nodes := n :: s.nodes.filter (·.id != n.id) }

def str? (t : String) : Option String := if t.startsWith "=" then some (t.drop 1).toString else none

/-- parse `k` string tokens -/
def strs : Nat → List String → Option (List String × List String)
  | 0, ts => some ([], ts)
  | k + 1, t :: ts => do
    let s ← str? t
    let (r, rest) ← strs k ts
    pure (s :: r, rest)
  | _, [] => none

def pairs : List String → List (String × String)
  | a :: b :: r => (a, b) :: pairs r
  | _ => []

/-- parse a dictionary (`none` = Python `None`) -/
def dict (ts : List String) : Option (Option SDict × List String) :=
  match ts with
  | "N" :: r => some (none, r)
  | "D" :: n :: r => do
    let k ← n.toNat?
    let (l, rest) ← strs (2 * k) r
    pure (some ((pairs l).foldl (fun d p => d.set p.1 p.2) []), rest)
  | _ => none

def members : Nat → List String → Option (List (String × Nat) × List String)
  | 0, ts => some ([], ts)
  | k + 1, t :: i :: ts => do
    let s ← str? t
    let id ← i.toNat?
    let (r, rest) ← members k ts
    pure ((s, id) :: r, rest)
  | _, _ => none

def sortStr (l : List String) : List String := (l.toArray.qsort (· < ·)).toList

def showSDict (d : SDict) : String := ";".intercalate (sortStr (d.map (fun p => p.1 ++ "=" ++ p.2)))
def showDict (d : Dict) : String := showSDict (renderDict d)
def showNet : Option Netconfig → String
  | none => "none"
  | some nc => nc.netIp ++ "/" ++ nc.netmask
def showRes : Except Err Bool → String
  | .ok b => toString b
  | .error e => "err " ++ e.name

def sUpdate (d e : SDict) : SDict := e.foldl (fun acc p => acc.set p.1 p.2) d

def showTunnel (t : Tunnel) (n1 n2 : Node) (strmode : Bool) : String :=
  let (l, r) :=
    if strmode then
      let p := renderDict t.params
      let p1 := sUpdate (objectParamsStr p n1.name) (renderDict n1.params)
      let p2 := sUpdate (objectParamsStr p n2.name) (renderDict n2.params)
      (showSDict (objectParamsStr p1 t.name), showSDict (objectParamsStr p2 t.name))
    else (showDict t.leftParams, showDict t.rightParams)
  s!"ok params={showDict t.params} left={l} right={r} lnet={showNet t.leftNet} rnet={showNet t.rightNet} liface={t.leftIface.ip} riface={t.rightIface.ip}"

def doTunnel (s : St) (strmode : Bool) (ts : List String) : Option (St × String) := do
  match ts with
  | a :: b :: nm :: rest =>
    let n1 ← s.node? (← a.toNat?)
    let n2 ← s.node? (← b.toNat?)
    let name ← str? nm
    let (l, rest) ← dict rest
    let (r, rest) ← dict rest
    let (p, rest) ← dict rest
    let (au, rest) ← dict rest
    if !rest.isEmpty then none
    match mkTunnel name n1 n2 l r p au with
    | .ok t => pure ({ s with tunnel := some t }, showTunnel t n1 n2 strmode)
    | .error e => pure ({ s with tunnel := none }, "err " ++ e.name)
  | _ => none

def step (s : St) (line : String) : St × String :=
  let bad := (s, "bad-op")
  match (line.trimAscii.toString.splitOn " ") with
  | ["reset"] => ({}, "ok")
  | ["node", id, nm] =>
    match id.toNat?, str? nm with
    | some i, some n => (s.putNode { id := i, name := n, params := [], ifaces := [] }, "ok")
    | _, _ => bad
  | "param" :: id :: nq :: rest =>
    match id.toNat?, nq.toNat? with
    | some i, some q =>
      match s.node? i, strs (q + 2) rest with
      | some n, some (stem :: l, []) =>
        match l.getLast? with
        | some v => (s.putNode { n with params := n.params.set ⟨stem, l.dropLast⟩ v }, "ok")
        | none => bad
      | _, _ => bad
    | _, _ => bad
  | "iface" :: id :: nic :: ifid :: ip :: mask :: nip :: nmask :: nm :: rest =>
    match id.toNat?, str? nic, ifid.toNat?, str? ip, str? mask, str? nip, str? nmask, nm.toNat? with
    | some i, some nic, some ifid, some ip, some mask, some nip, some nmask, some k =>
      match s.node? i, members k rest with
      | some n, some (ms, []) =>
        let ifc : Iface := { id := ifid, ip := ip, netmask := mask, netconfig := ⟨nip, nmask, ms⟩ }
        (s.putNode { n with ifaces := n.ifaces.filter (·.1 != nic) ++ [(nic, ifc)] }, "ok")
      | _, _ => bad
    | _, _, _, _, _, _, _, _ => bad
  | "tunnel" :: rest => (doTunnel s false rest).getD bad
  | "tunnelstr" :: rest => (doTunnel s true rest).getD bad
  | ["connects", a, b] =>
    match s.tunnel, a.toNat? >>= s.node?, b.toNat? >>= s.node? with
    | some t, some x, some y => (s, showRes (t.connects x y))
    | _, _, _ => bad
  | ["sides", a] =>
    match s.tunnel, a.toNat? >>= s.node? with
    | some t, some x => (s, showRes (t.onLeft x) ++ " | " ++ showRes (t.onRight x))
    | _, _ => bad
  | "variant" :: rest =>
    match dict rest with
    | some (some l, rest) =>
      match dict rest with
      | some (some r, rest) =>
        match dict rest with
        | some (some p, []) =>
          match peerVariant l r p with
          | .ok (rl, rr, rp) => (s, s!"ok L[{showSDict rl}] R[{showSDict rr}] P[{showSDict rp}]")
          | .error e => (s, "err " ++ e.name)
        | _ => bad
      | _ => bad
    | _ => bad
  | _ => bad

partial def loop (h : IO.FS.Stream) (out : IO.FS.Stream) (s : St) : IO Unit := do
  let line ← h.getLine
  if line.isEmpty then return ()
  let (s', o) := step s line
  out.putStrLn o
  loop h out s'

def main : IO Unit := do
  let out ← IO.getStdout
  loop (← IO.getStdin) out {}
