import I2N.Model.Policy
/-! Line-protocol driver for engine E2 `policy`.  Fields are TAB separated.
    reset
    backends <TAB> name:0|1 ...                       (1 = subclass of SourcedStateBackend)
    obj <TAB> typ,net,vm,image <TAB> 0|1 <TAB> name name ...   (put an object into the store)
    op <TAB> check|get|set|unset|push|pop <TAB> key=value <TAB> key=value ...
  Answer of `op`:  result | calls of this op | canonical store
    result = ok:true | ok:false | err:<kind>
    call   = kind:backend:typ,net,vm,image:arg            joined by ;
    store  = typ,net,vm,image:root:sorted names           joined by ;  (objects differing from the empty one) -/
open I2N.Policy

structure DSt where
  B : Backends := []
  st : St := {}

def sortStr (l : List String) : List String := (l.toArray.qsort (· < ·)).toList

def keyStr (k : Key) : String := s!"{k.typ},{k.net},{k.vm},{k.image}"

def kindStr : CallKind → String
  | .show => "show" | .get => "get" | .set => "set" | .unset => "unset" | .checkRoot => "check_root"
  | .getRoot => "get_root" | .setRoot => "set_root" | .unsetRoot => "unset_root" | .destroy => "destroy"

def errStr : Err → String
  | .abort => "abort" | .invalidPolicy => "invalidPolicy" | .valueError => "valueError"
  | .keyError => "keyError" | .indexError => "indexError" | .paramNotFound => "paramNotFound"

def callStr (c : Call) : String := s!"{kindStr c.kind}:{c.backend}:{keyStr c.key}:{c.arg}"

def storeStr (s : Store) : String :=
  let keys := s.map (·.1)
  let uniq := keys.foldl (fun acc k => if acc.contains k then acc else acc ++ [k]) ([] : List Key)
  let lines := uniq.filterMap fun k =>
    let o := s.obj k
    let names := sortStr (dedup o.names)
    if !o.root && names.isEmpty then none
    else some s!"{keyStr k}:{if o.root then 1 else 0}:{" ".intercalate names}"
  ";".intercalate (sortStr lines)

def parseKey (s : String) : Option Key :=
  match s.splitOn "," with
  | [a, b, c, d] => some ⟨a, b, c, d⟩
  | _ => none

def parseKV (s : String) : String × String :=
  match s.splitOn "=" with
  | [] => (s, "")
  | k :: rest => (k, "=".intercalate rest)

def parseOp : String → Option Op
  | "check" => some .check | "get" => some .get | "set" => some .set | "unset" => some .unset
  | "push" => some .push | "pop" => some .pop | _ => none

def stripNl (s : String) : String :=
  String.ofList (s.toList.filter (fun c => c != '\n' && c != '\r'))

def step (d : DSt) (line : String) : DSt × String :=
  match (stripNl line).splitOn "\t" with
  | ["reset"] => ({}, "ok")
  | "backends" :: bs =>
    ({ d with B := bs.filterMap fun b => match b.splitOn ":" with
        | [n, f] => some (n, f == "1")
        | _ => none }, "ok")
  | ["obj", k, r, names] =>
    match parseKey k with
    | some key => ({ d with st := { d.st with store := d.st.store.put key ⟨r == "1", words names⟩ } }, "ok")
    | none => (d, "bad-op")
  | "op" :: o :: kvs =>
    match parseOp o with
    | none => (d, "bad-op")
    | some op =>
      let p : Params := kvs.foldl (fun acc kv => let (k, v) := parseKV kv; acc.set k v) []
      let st0 : St := { d.st with calls := [] }
      let (r, st) := runOp d.B op p st0
      let rs := match r with
        | .ok true => "ok:true" | .ok false => "ok:false" | .error e => "err:" ++ errStr e
      ({ d with st := st }, s!"{rs} | {";".intercalate (st.calls.map callStr)} | {storeStr st.store}")
  | _ => (d, "bad-op")

partial def loop (h : IO.FS.Stream) (out : IO.FS.Stream) (d : DSt) : IO Unit := do
  let line ← h.getLine
  if line.isEmpty then return ()
  let (d', o) := step d line
  out.putStrLn o
  loop h out d'

def main : IO Unit := do
  let out ← IO.getStdout
  loop (← IO.getStdin) out {}
