import I2N.Model.Rules
/-! Line-protocol driver for engine `rules` (C10).  Fields are separated by `;`, list items by `|`,
    item components by `:`; `~` = absent (Python `None` / key not set); booleans are `1`/`0`.

    cfg     := name;dry_run;flat;clone;replay;rerun_status;stop_status;max_tries;stateful;pool_scope;nets_spawner;started
    worker  := swarm/id | ~
    results := name:STATUS:time|…           (time `~` = no time_elapsed key)

    rerun;<cfg>;<worker>;<results>                              -> true | false | error:<kind>
    decide;<cfg>;<worker>;<results>;<finished>;<scan>;<disabled> -> <run> <disabled'> | error:<kind>
    verdict;name:uid:STATUS|…                                    -> true | false | error:keyError
    m-new;name:pfx:preName:prePfx|…   m-start;i   m-finish;j;<outcome>   m-replay;i;<results>
    m-create;i;<outcome>   m-preold;i;<outcome>   suite;<job>;<task results ,>   m-dump   m-verdict   m-issued
    outcome := STATUS:time:delay | never
    splitws;<s>  splitcomma;<s>  int;<s>  substr;<a>;<b>  lower;<s>   (helper cross-checks) -/
open I2N.Rules

def fields (d : Char) (s : String) : List String := splitChar d s

def optS (s : String) : Option String := if s == "~" then none else some s
def boolS (s : String) : Bool := s == "1"

def parseWorker (s : String) : Option Worker :=
  if s == "~" then none else
  match fields '/' s with
  | [a, b] => some { swarmId := a, id := b }
  | _ => none

def parseResults (s : String) : List Result :=
  if s == "" then [] else
  (fields '|' s).filterMap (fun it =>
    match fields ':' it with
    | [n, st, t] => some { name := n, status := st, time := if t == "~" then none else t.toNat? }
    | _ => none)

def parseJob (s : String) : List JobRes :=
  if s == "" then [] else
  (fields '|' s).filterMap (fun it =>
    match fields ':' it with
    | [n, u, st] => some { name := n, uid := u, status := st, time := 0 }
    | [n, u, st, t] => some { name := n, uid := u, status := st, time := t.toNat?.getD 0 }
    | _ => none)

def parseOutcome (s : String) : Outcome :=
  match fields ':' s with
  | [st, t, d] => .reported st (t.toNat?.getD 0) (d.toNat?.getD 0)
  | _ => .never

def parseCfg : List String → Option (Cfg × List String)
  | name :: dry :: flat :: clone :: replay :: rerun :: stop :: mx :: stateful :: pool :: spawner :: started :: rest =>
    some ({ name := name, dryRun := optS dry, flat := boolS flat, cloneSource := boolS clone, replay := optS replay,
            rerunStatus := optS rerun, stopStatus := optS stop, maxTries := optS mx, stateful := boolS stateful,
            poolScope := pool, netsSpawner := optS spawner, startedWorker := parseWorker started }, rest)
  | _ => none

def errS : Err → String
  | .runtimeError => "error:runtimeError"
  | .badRerunStatus => "error:badRerunStatus"
  | .badStopStatus => "error:badStopStatus"
  | .badTries => "error:badTries"
  | .negativeTries => "error:negativeTries"
  | .removeMissing => "error:removeMissing"
  | .keyError => "error:keyError"

def showBool (b : Bool) : String := if b then "true" else "false"

def showExceptBool : Except Err Bool → String
  | .ok b => showBool b
  | .error e => errS e

def showResult (r : Result) : String :=
  r.name ++ ":" ++ r.status ++ ":" ++ (match r.time with | some t => toString t | none => "~")

def showJob (x : JobRes) : String := x.name ++ ":" ++ x.uid ++ ":" ++ x.status ++ ":" ++ toString x.time

def showFound : Option JobRes → String
  | some x => x.uid ++ ":" ++ x.status
  | none => "none"

def showObs : Obs → String
  | .started e => "started " ++ e.name ++ " " ++ e.uid
  | .finished e _ f st => "finished " ++ e.name ++ " " ++ e.uid ++ " " ++ st ++ " " ++ showFound f
  | .created p _ f st m =>
    "pre " ++ p.name ++ " " ++ p.uid ++ " " ++ st ++ " " ++ showFound f ++ " " ++
      (match m with | some e => "started:" ++ e.name ++ ":" ++ e.uid | none => "-")
  | .replayed n => "replayed " ++ toString n
  | .noop => "noop"
  | .failed e => errS e

def dump (s : St) : String :=
  "|".intercalate (s.copies.map (fun c => ",".intercalate (c.results.map showResult)))
    ++ " # " ++ ",".intercalate (s.job.map showJob)
    ++ " # " ++ ",".intercalate (s.pending.map (fun e => e.name ++ ":" ++ e.uid))

def parseCopies (s : String) : List Copy :=
  (fields '|' s).filterMap (fun it =>
    match fields ':' it with
    | [n, p, pn, pp] => some { name := n, pfx := p, preName := pn, prePfx := pp }
    | _ => none)

def stepLine (s : St) (line : String) : St × String :=
  match fields ';' line with
  | "rerun" :: rest =>
    match parseCfg rest with
    | some (c, [w, rs]) => (s, showExceptBool (shouldRerun c (parseWorker w) (parseResults rs)))
    | _ => (s, "bad-op")
  | "decide" :: rest =>
    match parseCfg rest with
    | some (c, [w, rs, fin, scan, dis]) =>
      match parseWorker w with
      | some wk =>
        (s, match defaultRunDecision c wk (parseResults rs) (boolS fin) (boolS scan) (boolS dis) with
            | .ok (b, d) => showBool b ++ " " ++ showBool d
            | .error e => errS e)
      | none => (s, "bad-op")
    | _ => (s, "bad-op")
  | ["verdict", js] => (s, showExceptBool (allResultsOk (parseJob js)))
  | ["suite", js, trs] =>
    (s, match suiteSummary (parseJob js) (if trs == "" then [] else fields ',' trs) with
        | .ok sm => ",".intercalate sm ++ " " ++ showBool (reportedSuccessful sm)
        | .error e => errS e)
  | ["m-new", cs] => ({ copies := parseCopies cs }, "ok")
  | ["m-start", i] =>
    match i.toNat? with
    | some i => let (s', o) := step s (.start i); (s', showObs o)
    | none => (s, "bad-op")
  | ["m-finish", j, o] =>
    match j.toNat? with
    | some j => let (s', ob) := step s (.finish j (parseOutcome o)); (s', showObs ob)
    | none => (s, "bad-op")
  | ["m-replay", i, rs] =>
    match i.toNat? with
    | some i => let (s', ob) := step s (.replay i (parseResults rs)); (s', showObs ob)
    | none => (s, "bad-op")
  | ["m-create", i, o] =>
    match i.toNat? with
    | some i => let (s', ob) := step s (.create i (parseOutcome o)); (s', showObs ob)
    | none => (s, "bad-op")
  | ["m-preold", i, o] =>
    match i.toNat? with
    | some i => let (s', ob) := preStepOld s i (parseOutcome o); (s', showObs ob)
    | none => (s, "bad-op")
  | ["m-dump"] => (s, dump s)
  | ["m-verdict"] => (s, showExceptBool (allResultsOk s.job))
  | ["m-issued"] => (s, ",".intercalate (s.issued.reverse.map (fun e => e.name ++ ":" ++ e.uid)))
  | ["splitws", x] => (s, "|".intercalate (splitWs x))
  | ["splitcomma", x] => (s, "|".intercalate (splitChar ',' x))
  | ["int", x] => (s, match parseInt x with | some n => toString n | none => "error")
  | ["substr", a, b] => (s, showBool (isSubstr a b))
  | ["lower", x] => (s, lower x)
  | _ => (s, "bad-op")

def chomp (s : String) : String :=
  String.ofList ((s.toList.reverse.dropWhile (fun c => c == '\n')).reverse)

partial def loop (h : IO.FS.Stream) (out : IO.FS.Stream) (s : St) : IO Unit := do
  let line ← h.getLine
  if line.isEmpty then return ()
  let (s', o) := stepLine s (chomp line)
  out.putStrLn o
  loop h out s'

def main : IO Unit := do
  let out ← IO.getStdout
  loop (← IO.getStdin) out { copies := [] }
