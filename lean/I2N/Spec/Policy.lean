import I2N.Model.Policy
/-!
The documented policy table of avocado-i2n (README.md, section on `get_mode` / `set_mode` / `unset_mode`)

    ----------------------------------------
    -            - existing - non-existing -
    ----------------------------------------
    - get_mode   - ari      - ai           -
    - set_mode   - arf      - af           -
    - unset_mode - rf       - ai           -
    ----------------------------------------

and what each documented action means in terms of backend calls.  This file is the *specification side*:
it does not mention the `if/elif` chains of the code.
-/
namespace I2N.Policy
open I2N.Extracted.Policy

inductive Action | reuse | ignore | force | abort | invalid
deriving DecidableEq, Repr

/-- one cell of the table: the action a letter stands for; every letter not listed is invalid -/
def docLetter (d : Do) (present : Bool) (c : Char) : Action :=
  match d, present with
  | .get, true => if c = 'a' then .abort else if c = 'r' then .reuse else if c = 'i' then .ignore else .invalid
  | .get, false => if c = 'a' then .abort else if c = 'i' then .ignore else .invalid
  | .set, true => if c = 'a' then .abort else if c = 'r' then .reuse else if c = 'f' then .force else .invalid
  | .set, false => if c = 'a' then .abort else if c = 'f' then .force else .invalid
  | .unset, true => if c = 'r' then .reuse else if c = 'f' then .force else .invalid
  | .unset, false => if c = 'a' then .abort else if c = 'i' then .ignore else .invalid

/-- "the first position determines the action if the setup is present and the second if it is missing" -/
def docAction (d : Do) (present : Bool) (c1 c2 : Char) : Action :=
  docLetter d present (if present then c1 else c2)

/-- creating a state: `set_root` for the root keywords, `set` otherwise -/
def create (b : String) (cp : Params) (state : String) (st : St) : St :=
  if roots.contains state then bSetRoot b cp st else bSet b cp st

/-- removing a state: `unset_root` for the root keywords, `unset` otherwise -/
def remove (b : String) (cp : Params) (state : String) (st : St) : St :=
  if roots.contains state then bUnsetRoot b cp st else bUnset b cp st

/-- what performing a documented action means for one object.
  * abort / invalid raise and do nothing else; ignore does nothing;
  * reuse: `get` fetches the state, `set` and `unset` leave it alone;
  * force: `unset` removes the state; `set` creates it — an existing one is removed first (except for a
    backend deriving from `SourcedStateBackend`, which keeps the old state: "overwrite dependency coupling"),
    a missing ordinary state needs the root ("Cannot force set state without a root state"). -/
def perform (d : Do) (a : Action) (b : String) (sourced : Bool) (cp : Params) (state : String)
    (present : Bool) (st : St) : Except Err Unit × St :=
  match a with
  | .abort => (.error .abort, st)
  | .invalid => (.error .invalidPolicy, st)
  | .ignore => (.ok (), st)
  | .reuse =>
    match d with
    | .get => (.ok (), if roots.contains state then bGetRoot b cp st else bGet b cp st)
    | _ => (.ok (), st)
  | .force =>
    match d with
    | .get => (.error .invalidPolicy, st)      -- not a cell of the table
    | .unset => (.ok (), remove b cp state st)
    | .set =>
      if present then
        let cp := cp.set "unset_state" state
        let st := if !roots.contains state && sourced then st else remove b cp state st
        (.ok (), create b cp state st)
      else if roots.contains state then (.ok (), create b cp state st)
      else
        let (r, st) := bCheckRoot b cp st
        if r then (.ok (), create b cp state st) else (.error .invalidPolicy, st)

end I2N.Policy
