/-
E4 `net`, tunnel part: model of `avocado_i2n/vmnet/tunnel.py`
  `VMTunnel._get_peer_variant`, `VMTunnel.__init__`, `left_params`/`right_params`,
  `VMTunnel.connects_nodes`
and of the pieces of `virttest.utils_params.Params` / `vmnet/netconfig.py` they call
  (`object_params`, `dict.update`, `has_interface`, `can_add_interface`, `mask_bit`, `_get_network_ip`).

Import-free on purpose: the driver (`Driver/Tunnel.lean`) runs exactly these definitions.

Modelling decisions (see design.d/C19.md):
  * The four configuration dictionaries (`local1`, `remote1`, `peer1`, `auth`) are plain Python
    dictionaries `SDict`; a missing key is a `keyError`, exactly as `d[k]` / `d.get(k, dflt)`.
  * Parameter keys are *structured*: `vpnconn_lan_net_<tunnel>_<node>` is
    `⟨"vpnconn_lan_net", [tunnel, node]⟩`; `render` joins with `_`.  `object_params(obj)` on structured keys
    ("last qualifier is obj → copy to the key without it") coincides with the string version
    (`endswith("_"+obj)`, `split("_"+obj)[0]`) for well-formed names (no `_` inside a name, no name that is a
    prefix of a word of a key or of another name); the string version is `objectParamsStr` below and is run
    by the driver on the malformed-names stream.
  * `params[k] = v` statements are modelled as the *sequence of assignments* executed (in program order);
    the resulting dictionary is `assign [] assignments` (`Dict.set` = Python item assignment: overwrite in place
    or append).
  * Node identity (`node == self.left`, no `__eq__` on VMNode) is an explicit `id`.
-/
namespace I2N.Tunnel

inductive Err where
  | valueError | keyError | paramNotFound | attributeError | indexError
deriving DecidableEq, Repr

def Err.name : Err → String
  | .valueError => "ValueError" | .keyError => "KeyError" | .paramNotFound => "ParamNotFound"
  | .attributeError => "AttributeError" | .indexError => "IndexError"

/-! ## plain dictionaries `dict[str, str]` -/

abbrev SDict := List (String × String)

def SDict.get? (d : SDict) (k : String) : Option String :=
  match d with
  | [] => none
  | (k', v) :: r => if k' = k then some v else SDict.get? r k

/-- `d[k]` -/
def SDict.getItem (d : SDict) (k : String) : Except Err String :=
  match d.get? k with
  | some v => .ok v
  | none => .error .keyError

/-- `d.get(k, dflt)` -/
def SDict.getD (d : SDict) (k dflt : String) : String := (d.get? k).getD dflt

/-- `d[k] = v` -/
def SDict.set (d : SDict) (k v : String) : SDict :=
  match d with
  | [] => [(k, v)]
  | (k', v') :: r => if k' = k then (k, v) :: r else (k', v') :: SDict.set r k v

/-! ## structured parameter keys and `Params` -/

structure Key where
  stem  : String
  quals : List String := []
deriving DecidableEq, Repr

def Key.render (k : Key) : String := "_".intercalate (k.stem :: k.quals)

abbrev Dict := List (Key × String)

def Dict.get? (d : Dict) (k : Key) : Option String :=
  match d with
  | [] => none
  | (k', v) :: r => if k' = k then some v else Dict.get? r k

/-- `params[k]` of a `virttest.utils_params.Params` (raises `ParamNotFound`, which is *not* a `KeyError`) -/
def Dict.getItem (d : Dict) (k : Key) : Except Err String :=
  match d.get? k with
  | some v => .ok v
  | none => .error .paramNotFound

/-- `d[k] = v`: overwrite in place, else append (Python dict insertion order) -/
def Dict.set (d : Dict) (k : Key) (v : String) : Dict :=
  match d with
  | [] => [(k, v)]
  | (k', v') :: r => if k' = k then (k, v) :: r else (k', v') :: Dict.set r k v

/-- a sequence of `params[k] = v` statements -/
def assign (d : Dict) (l : List (Key × String)) : Dict := l.foldl (fun acc p => acc.set p.1 p.2) d

/-- `d.update(e)` -/
def Dict.update (d e : Dict) : Dict := assign d e

/-- the key ends with `"_" + obj` -/
def Key.endsWith (k : Key) (obj : String) : Bool := k.quals.getLast? == some obj

/-- `key.split(suffix)[0]` for a key that ends with the suffix -/
def Key.dropLast (k : Key) : Key := ⟨k.stem, k.quals.dropLast⟩

/-- one iteration of the loop of `Params.object_params`; `new_dict[key]` is read from the dictionary as it
is *now* (it may have been overwritten by an earlier iteration) -/
def objStep (obj : String) (acc : Dict) (p : Key × String) : Dict :=
  if p.1.endsWith obj then acc.set p.1.dropLast ((acc.get? p.1).getD p.2) else acc

/-- `Params.object_params(obj)`: the suffixed keys stay, their values are copied to the suffixless keys -/
def objectParams (d : Dict) (obj : String) : Dict := d.foldl (objStep obj) d

/-! ### the string version of `object_params` (for names that are not well formed) -/

def objStepStr (suffix : String) (acc : SDict) (p : String × String) : SDict :=
  if p.1.endsWith suffix then acc.set ((p.1.splitOn suffix).headD p.1) ((acc.get? p.1).getD p.2) else acc

def objectParamsStr (d : SDict) (obj : String) : SDict := d.foldl (objStepStr ("_" ++ obj)) d

/-- Python dict built from the rendered keys (later duplicates overwrite) -/
def renderDict (d : Dict) : SDict := d.foldl (fun acc p => acc.set p.1.render p.2) []

/-! ## nodes, interfaces, netconfigs -/

structure Netconfig where
  netIp   : String
  netmask : String
  /-- `self.interfaces`: ip ↦ identity of the interface object -/
  members : List (String × Nat) := []
deriving DecidableEq, Repr

structure Iface where
  id        : Nat
  ip        : String
  /-- `interface.params["netmask"]` -/
  netmask   : String
  netconfig : Netconfig
deriving DecidableEq, Repr

structure Node where
  id     : Nat
  name   : String
  /-- `node.params` (the platform's params) -/
  params : Dict
  /-- `node.interfaces`: nic name ↦ interface -/
  ifaces : List (String × Iface)
deriving Repr

def lookupIface (l : List (String × Iface)) (nic : String) : Option Iface :=
  match l with
  | [] => none
  | (n, i) :: r => if n = nic then some i else lookupIface r nic

/-- `node.interfaces[node.params[role]]` -/
def Node.iface (n : Node) (role : String) : Except Err Iface := do
  let nic ← n.params.getItem ⟨role, []⟩
  match lookupIface n.ifaces nic with
  | some i => pure i
  | none => throw .keyError

/-! ## `_get_peer_variant` -/

/-- the `right_remote` dictionary (first `if` of `_get_peer_variant`) -/
def variantRemote (ll : SDict) (llt : String) : Except Err SDict :=
  let rr : SDict := [("type", "custom")]
  if llt = "nic" then do
    let nic ← ll.getItem "nic"
    pure ((rr.set "type" "custom").set "nic" nic)
  else if llt = "internetip" then pure (rr.set "type" "externalip")
  else pure rr

/-- the `right_local` dictionary (second `if`) -/
def variantLocal (lr : SDict) (llt lrt : String) : Except Err SDict :=
  let rl : SDict := [("type", "nic")]
  if lrt = "custom" then
    (if llt = "custom" then pure (rl.set "type" "custom")
     else do
       let nic ← lr.getItem "nic"
       pure ((rl.set "type" "nic").set "nic" nic))
  else if lrt = "externalip" then pure (rl.set "type" "internetip")
  else pure rl

/-- the `right_peer` dictionary (third `if`; "road warriors are always assumed to be on the left side") -/
def variantPeer (lp : SDict) (lpt : String) : Except Err SDict :=
  let rp : SDict := [("type", "ip")]
  if lpt = "dynip" then do
    let nic ← lp.getItem "nic"
    pure ((rp.set "type" "ip").set "nic" nic)
  else if lpt = "ip" then do
    let nic ← lp.getItem "nic"
    pure ((rp.set "type" "ip").set "nic" nic)
  else pure rp

/-- `_get_peer_variant`: returns `(right_local, right_remote, right_peer)`; statements in program order -/
def peerVariant (ll lr lp : SDict) : Except Err (SDict × SDict × SDict) := do
  let llt ← ll.getItem "type"
  let rr ← variantRemote ll llt
  let lrt ← lr.getItem "type"
  let rl ← variantLocal lr llt lrt
  let lpt ← lp.getItem "type"
  let rp ← variantPeer lp lpt
  pure (rl, rr, rp)

/-! ## `VMTunnel.__init__` -/

/-- `str.upper()`; the table is what proofs unfold, the fallback is what Python does on any other string -/
def upper (s : String) : String :=
  if s = "nic" then "NIC" else if s = "internetip" then "INTERNETIP" else if s = "custom" then "CUSTOM"
  else if s = "externalip" then "EXTERNALIP" else if s = "modeconfig" then "MODECONFIG"
  else if s = "ip" then "IP" else if s = "dynip" then "DYNIP" else s.toUpper

def k1 (stem name : String) : Key := ⟨stem, [name]⟩
def k2 (stem name node : String) : Key := ⟨stem, [name, node]⟩

abbrev Assignments := List (Key × String)

/-- "main parameters" -/
def mainPart (name n1 n2 : String) (local1 remote1 local2 remote2 : SDict) : Except Err Assignments := do
  let l1 ← local1.getItem "type"
  let l2 ← local2.getItem "type"
  let r1 ← remote1.getItem "type"
  let r2 ← remote2.getItem "type"
  pure [(k2 "vpnconn" name n1, name), (k2 "vpnconn" name n2, name),
        (k2 "vpn_side" name n1, "left"), (k2 "vpn_side" name n2, "right"),
        (k2 "vpnconn_lan_type" name n1, upper l1), (k2 "vpnconn_lan_type" name n2, upper l2),
        (k2 "vpnconn_remote_type" name n1, upper r1), (k2 "vpnconn_remote_type" name n2, upper r2)]

/-- `if local1["type"] == "nic": … elif "internetip": … elif "custom": … else: raise ValueError` -/
def localPart (name : String) (node1 node2 : Node) (local1 : SDict) :
    Except Err (Assignments × Option Netconfig) := do
  let t ← local1.getItem "type"
  if t = "nic" then do
    let i ← node1.iface (local1.getD "nic" "lan_nic")
    let nc := i.netconfig
    pure ([(k2 "vpnconn_lan_net" name node1.name, nc.netIp),
           (k2 "vpnconn_lan_netmask" name node1.name, nc.netmask),
           (k2 "vpnconn_remote_net" name node2.name, nc.netIp),
           (k2 "vpnconn_remote_netmask" name node2.name, nc.netmask)], some nc)
  else if t = "internetip" then pure ([], none)
  else if t = "custom" then do
    let lnet ← local1.getItem "lnet"
    let lmask ← local1.getItem "lmask"
    pure ([(k2 "vpnconn_lan_net" name node1.name, lnet),
           (k2 "vpnconn_lan_netmask" name node1.name, lmask)], some ⟨lnet, lmask, []⟩)
  else throw .valueError

/-- `if remote1["type"] == "custom": … elif "externalip": … elif "modeconfig": … else: raise ValueError` -/
def remotePart (name : String) (node1 node2 : Node) (local1 remote1 : SDict) :
    Except Err (Assignments × Option Netconfig) := do
  let t ← remote1.getItem "type"
  if t = "custom" then do
    let lt ← local1.getItem "type"
    let (a, nc) ← (if lt = "custom" then do
        let rnet ← local1.getItem "rnet"
        let rmask ← local1.getItem "rmask"
        pure ([(k2 "vpnconn_lan_net" name node2.name, rnet),
               (k2 "vpnconn_lan_netmask" name node2.name, rmask)], (⟨rnet, rmask, []⟩ : Netconfig))
      else do
        let i ← node2.iface (remote1.getD "nic" "lan_nic")
        let nc := i.netconfig
        pure ([(k2 "vpnconn_lan_net" name node2.name, nc.netIp),
               (k2 "vpnconn_lan_netmask" name node2.name, nc.netmask)], nc)
      : Except Err (Assignments × Netconfig))
    pure (a ++ [(k2 "vpnconn_remote_net" name node1.name, nc.netIp),
                (k2 "vpnconn_remote_netmask" name node1.name, nc.netmask)], some nc)
  else if t = "externalip" then pure ([], none)
  else if t = "modeconfig" then do
    let ip ← remote1.getItem "modeconfig_ip"
    pure ([(k2 "vpnconn_remote_modeconfig_ip" name node1.name, ip)], none)
  else throw .valueError

/-- "road warrior parameters"; returns the assignments, `interface1` and `interface2` -/
def peerPart (name : String) (node1 node2 : Node) (peer1 peer2 : SDict) :
    Except Err (Assignments × Iface × Iface) := do
  let t ← peer1.getItem "type"
  let (a, i2) ← (if t = "ip" then do
      let i2 ← node2.iface (peer1.getD "nic" "internet_nic")
      pure ([(k2 "vpnconn_peer_type" name node1.name, upper t),
             (k2 "vpnconn_peer_ip" name node1.name, i2.ip),
             (k2 "vpnconn_activation" name node1.name, "ALWAYS")], i2)
    else if t = "dynip" then do
      let i2 ← node2.iface (peer1.getD "nic" "internet_nic")
      pure ([(k2 "vpnconn_peer_type" name node1.name, upper t),
             (k2 "vpnconn_activation" name node1.name, "PASSIVE")], i2)
    else throw .valueError : Except Err (Assignments × Iface))
  let t2 ← peer2.getItem "type"
  let i1 ← node1.iface (peer2.getD "nic" "internet_nic")
  pure (a ++ [(k2 "vpnconn_peer_type" name node2.name, upper t2),
              (k2 "vpnconn_peer_ip" name node2.name, i1.ip),
              (k2 "vpnconn_activation" name node2.name, "ALWAYS")], i1, i2)

/-- "authentication parameters" -/
def authPart (name n1 n2 : String) (auth : Option SDict) : Except Err Assignments :=
  match auth with
  | none => pure [(k1 "vpnconn_key_type" name, "NONE")]
  | some a => do
    let t ← a.getItem "type"
    if t = "pubkey" then pure [(k1 "vpnconn_key_type" name, "PUBLIC")]
    else if t = "psk" then do
      let psk ← a.getItem "psk"
      let leftId ← a.getItem "left_id"
      let leftIdType := if leftId = "" then "IP" else "CUSTOM"
      let rightId ← a.getItem "right_id"
      let rightIdType := if rightId = "" then "IP" else "CUSTOM"
      pure [(k1 "vpnconn_key_type" name, "PSK"),
            (k1 "vpnconn_psk" name, psk),
            (k2 "vpnconn_psk_foreign_id" name n1, rightId),
            (k2 "vpnconn_psk_foreign_id_type" name n1, rightIdType),
            (k2 "vpnconn_psk_own_id" name n1, leftId),
            (k2 "vpnconn_psk_own_id_type" name n1, leftIdType),
            (k2 "vpnconn_psk_foreign_id" name n2, leftId),
            (k2 "vpnconn_psk_foreign_id_type" name n2, leftIdType),
            (k2 "vpnconn_psk_own_id" name n2, rightId),
            (k2 "vpnconn_psk_own_id_type" name n2, rightIdType)]
    else throw .valueError

structure Tunnel where
  name       : String
  /-- `self._params` -/
  params     : Dict
  /-- the end nodes with their params as left by the constructor -/
  left       : Node
  right      : Node
  leftIface  : Iface
  rightIface : Iface
  leftNet    : Option Netconfig
  rightNet   : Option Netconfig
deriving Repr

/-- the default arguments of `__init__` -/
def defaultLocal : SDict := [("type", "nic"), ("nic", "lan_nic")]
def defaultRemote : SDict := [("type", "custom"), ("nic", "lan_nic")]
def defaultPeer : SDict := [("type", "ip"), ("nic", "internet_nic")]

/-- the sequence of `params[...] = ...` statements `__init__` executes, with the objects it keeps -/
def tunnelAssignments (name : String) (node1 node2 : Node) (local1 remote1 peer1 : SDict)
    (auth : Option SDict) :
    Except Err (Assignments × Option Netconfig × Option Netconfig × Iface × Iface) := do
  let (local2, remote2, peer2) ← peerVariant local1 remote1 peer1
  let a0 ← mainPart name node1.name node2.name local1 remote1 local2 remote2
  let (a1, nc1) ← localPart name node1 node2 local1
  let (a2, nc2) ← remotePart name node1 node2 local1 remote1
  let (a3, i1, i2) ← peerPart name node1 node2 peer1 peer2
  let a4 ← authPart name node1.name node2.name auth
  pure (a0 ++ a1 ++ a2 ++ a3 ++ a4, nc1, nc2, i1, i2)

/-- `VMTunnel.__init__` (arguments that are `None` are replaced by the defaults by the caller `mkTunnel`) -/
def tunnelParams (name : String) (node1 node2 : Node) (local1 remote1 peer1 : SDict)
    (auth : Option SDict) : Except Err Tunnel := do
  let (a, nc1, nc2, i1, i2) ← tunnelAssignments name node1 node2 local1 remote1 peer1 auth
  let params := assign [] a
  -- overwrite the base vpn parameters with other already defined tunnel parameters
  let params1 := (objectParams params node1.name).update node1.params
  let params2 := (objectParams params node2.name).update node2.params
  -- node.params.clear(); node.params.update(paramsN)
  pure { name := name, params := params,
         left := { node1 with params := params1 }, right := { node2 with params := params2 },
         leftIface := i1, rightIface := i2, leftNet := nc1, rightNet := nc2 }

def mkTunnel (name : String) (node1 node2 : Node) (local1 remote1 peer1 auth : Option SDict) :
    Except Err Tunnel :=
  tunnelParams name node1 node2 (local1.getD defaultLocal) (remote1.getD defaultRemote)
    (peer1.getD defaultPeer) auth

/-- `tunnel.left_params` -/
def Tunnel.leftParams (t : Tunnel) : Dict := objectParams t.left.params t.name
/-- `tunnel.right_params` -/
def Tunnel.rightParams (t : Tunnel) : Dict := objectParams t.right.params t.name

/-! ## IPv4 pieces used by `can_add_interface` -/

def parseOctet (s : String) : Option Nat :=
  if s.isEmpty || !(s.all Char.isDigit) || (s.length > 1 && s.front == '0') then none
  else match s.toNat? with
    | some n => if n ≤ 255 then some n else none
    | none => none

def parseIp (s : String) : Option Nat :=
  match (s.splitOn ".").map parseOctet with
  | [some a, some b, some c, some d] => some (((a * 256 + b) * 256 + c) * 256 + d)
  | _ => none

def renderIp (n : Nat) : String :=
  s!"{n / 16777216 % 256}.{n / 65536 % 256}.{n / 256 % 256}.{n % 256}"

/-- number of trailing zero bits of `m`, at most `fuel` -/
def trailingZeros (m : Nat) : Nat → Nat
  | 0 => 0
  | fuel + 1 => if m % 2 = 0 then trailingZeros (m / 2) fuel + 1 else 0

/-- `VMNetconfig.mask_bit` getter: length of the 32 character binary expansion with the trailing zeros stripped -/
def maskBit (netmask : String) : Except Err Nat :=
  match parseIp netmask with
  | some m => .ok (32 - trailingZeros m 32)
  | none => .error .valueError

/-- `_get_network_ip(ip, bit)` -/
def networkIp (ip : String) (bits : Nat) : Except Err String :=
  match parseIp ip with
  | some a => .ok (renderIp (a / 2 ^ (32 - bits) * 2 ^ (32 - bits)))
  | none => .error .valueError

/-- `VMNetconfig.has_interface` -/
def Netconfig.hasInterface (nc : Netconfig) (i : Iface) : Bool :=
  match nc.members.find? (·.1 == i.ip) with
  | some (_, id) => id == i.id
  | none => false

/-- `VMNetconfig.can_add_interface` -/
def Netconfig.canAddInterface (nc : Netconfig) (i : Iface) : Except Err Bool := do
  if nc.hasInterface i then throw .indexError
  let bits ← maskBit nc.netmask
  let inet ← networkIp i.ip bits
  if inet = nc.netIp ∧ i.netmask ≠ nc.netmask then throw .indexError
  pure (inet = nc.netIp)

/-- `node.check_interface(condition) is not None` for a condition that may raise -/
def anyIface (cond : Iface → Except Err Bool) : List (String × Iface) → Except Err Bool
  | [] => pure false
  | (_, i) :: r => do
    if (← cond i) then pure true else anyIface cond r

/-! ## `connects_nodes` -/

/-- the common body of `on_the_left` / `on_the_right`: `endNode` is `self.left`/`self.right`, `net` is
`self.left_net`/`self.right_net`, `sideParams` is `self.left_params`/`self.right_params` -/
def onSide (endNode : Node) (net : Option Netconfig) (sideParams : Dict) (node : Node) : Except Err Bool := do
  if node.id = endNode.id then return true
  let inNet := match net with
    | some nc => node.ifaces.any (fun p => nc.hasInterface p.2)
    | none => false
  if inNet then return true
  let lanType ← sideParams.getItem ⟨"vpnconn_lan_type", []⟩
  if lanType = "CUSTOM" then
    match net with
    | none => throw .attributeError
    | some nc => if (← anyIface nc.canAddInterface node.ifaces) then return true
  return false

def Tunnel.onLeft (t : Tunnel) (node : Node) : Except Err Bool := onSide t.left t.leftNet t.leftParams node
def Tunnel.onRight (t : Tunnel) (node : Node) : Except Err Bool := onSide t.right t.rightNet t.rightParams node

/-- Python `A() and B()` on calls that may raise -/
def andThen (a b : Except Err Bool) : Except Err Bool := do
  if (← a) then b else pure false

/-- the final `if … and …: True elif … and …: True else: False` of `connects_nodes`, on the four side tests -/
def connectsOf (l1 r2 r1 l2 : Except Err Bool) : Except Err Bool := do
  if (← andThen l1 r2) then pure true
  else if (← andThen r1 l2) then pure true
  else pure false

/-- `VMTunnel.connects_nodes` -/
def Tunnel.connects (t : Tunnel) (node1 node2 : Node) : Except Err Bool :=
  connectsOf (t.onLeft node1) (t.onRight node2) (t.onRight node1) (t.onLeft node2)

end I2N.Tunnel
