import I2N.Model.Trav
/-
E6 `traverse`, tools part: executable model of the manual tools of avocado-i2n
(`avocado_i2n/intertest_setup.py`: the built-in steps, `_parse_and_iterate_for_objects_and_workers`,
`_parse_one_node_for_all_objects_per_worker`, `_reuse_tool_with_param_dict`, `update`;
`avocado_i2n/plugins/manu.py`: `Manu.run`; `avocado_i2n/cartgraph/graph.py`: `flag_children`,
`flag_intersection`).

Imports only the (import-free) traversal model, for `strIn` (Python's `a in b` on strings).

The traversal model `I2N.Trav` hard-codes `default_run_decision`/`default_clean_decision` and has no hook
for the custom `should_run`/`should_clean` policies the tools install with `flag_children` /
`flag_intersection`.  Therefore the traversal of the *star graphs* of the manual steps (C20) and the
effect of the flags of `update` (C15) are modelled here directly.

The Cartesian parser is a parameter (`Parser`): which test nodes exist for a worker and a vm selection.
-/
namespace I2N.Tools
open I2N.Trav (strIn)

/-! ## dictionaries (association lists, first binding wins) -/

abbrev Dict := List (String × String)

/-- `d.get(k)` -/
def dget (d : Dict) (k : String) : Option String := (d.find? (·.1 == k)).map (·.2)
/-- `k in d` -/
def dhas (d : Dict) (k : String) : Bool := d.any (·.1 == k)
/-- `d.update(u)`: the bindings of `u` shadow those of `d` -/
def dupdate (d u : Dict) : Dict := u ++ d

inductive Err | runtimeError | indexError | attributeError | valueError | assertionError
deriving Repr, DecidableEq, BEq

def Err.name : Err → String
  | .runtimeError => "RuntimeError" | .indexError => "IndexError" | .attributeError => "AttributeError"
  | .valueError => "ValueError" | .assertionError => "AssertionError"

/-! ## the table of built-in steps (`intertest_setup.check … clean`) -/

inductive Kind
  | perVm     -- `_parse_and_iterate_for_objects_and_workers`: one node per vm and worker
  | oneNode   -- `_parse_one_node_for_all_objects_per_worker`: one node for all vms per worker
deriving Repr, DecidableEq, BEq

structure ToolSpec where
  kind : Kind
  /-- the restriction handed to `parse_composite_nodes` -/
  restriction : String
  /-- the dictionary that overwrites the command line parameters for the step -/
  step : Dict
  /-- temporary update of `config["param_dict"]` (`_reuse_tool_with_param_dict`) -/
  reuse : Dict := []
  /-- `unset`: default `unset_mode_<vm>=fi` unless the user chose an unset mode -/
  unsetDefaults : Bool := false
deriving Repr

def stateStep (op : String) : Dict := [("vm_action", op), ("skip_image_processing", "yes")]
/-- `f"all..internal.stateful.{operation}"` with `operation = "state " + op` -/
def stateRestr (op : String) : String := "all..internal.stateful.state " ++ op
def manageRestr (variant : String) : String := "all..internal.stateless.manage." ++ variant

def collectDict : Dict :=
  [("get_state_images", "root"), ("get_mode_images", "ii"), ("check_mode_images", "rr"),
   ("pool_scope", "swarm cluster shared")]
def createDict : Dict :=
  [("set_state_images", "root"), ("set_mode_images", "af"), ("check_mode_images", "rr"), ("pool_scope", "own")]
def cleanDict : Dict :=
  [("unset_state_images", "root"), ("unset_mode_images", "fa"), ("check_mode_images", "rf"), ("pool_scope", "own")]

def toolSpec : String → Option ToolSpec
  | "check" => some { kind := .perVm, restriction := stateRestr "check", step := stateStep "check" }
  | "pop" => some { kind := .perVm, restriction := stateRestr "pop", step := stateStep "pop" }
  | "push" => some { kind := .perVm, restriction := stateRestr "push", step := stateStep "push" }
  | "get" => some { kind := .perVm, restriction := stateRestr "get", step := stateStep "get" }
  | "set" => some { kind := .perVm, restriction := stateRestr "set", step := stateStep "set" }
  | "unset" => some { kind := .perVm, restriction := stateRestr "unset", step := stateStep "unset", unsetDefaults := true }
  | "collect" => some { kind := .perVm, restriction := stateRestr "get", step := stateStep "get", reuse := collectDict }
  | "create" => some { kind := .perVm, restriction := stateRestr "set", step := stateStep "set", reuse := createDict }
  | "clean" => some { kind := .perVm, restriction := stateRestr "unset", step := stateStep "unset", reuse := cleanDict,
                      unsetDefaults := true }
  | "boot" => some { kind := .oneNode, restriction := manageRestr "start", step := [] }
  | "download" => some { kind := .oneNode, restriction := manageRestr "download", step := [] }
  | "control" => some { kind := .oneNode, restriction := manageRestr "run", step := [] }
  | "upload" => some { kind := .oneNode, restriction := manageRestr "upload", step := [] }
  | "shutdown" => some { kind := .oneNode, restriction := manageRestr "stop", step := [] }
  | _ => none

/-- the loop of `unset` over the selected vms: `unset_mode_<vm> = fi` unless `unset_mode_<vm>` or `unset_mode` is set -/
def unsetDefaults (d : Dict) (vms : List String) : Dict :=
  vms.foldl (fun acc vm =>
    if dhas acc ("unset_mode_" ++ vm) || dhas acc "unset_mode" then acc else ("unset_mode_" ++ vm, "fi") :: acc) d

/-- the dictionary a step hands to `_parse_and_iterate…` as `param_dict` (for `unset` it is a whole copy of the
command line dictionary with the defaults and the step keys) -/
def stepDict (t : ToolSpec) (paramDict : Dict) (vms : List String) : Dict :=
  if t.unsetDefaults then dupdate (unsetDefaults paramDict vms) t.step else t.step

/-! ## the star graph of one step -/

/-- a parsed node as far as the tools care: `params["name"]`, `bridged_form` (the set-less, worker-less form of the
name that keys the edge registers) and the rank of its prefix under `TestNode.prefix_priority` -/
structure PNode where
  name : String
  key : String
  rank : Nat := 0
deriving Repr

/-- Which nodes the Cartesian parser yields for (worker index, vms of the node). -/
abbrev Parser := Nat → List String → List PNode

structure SNode where
  owner : Nat              -- index of the worker the node was parsed for
  vms : List String
  name : String            -- `params["name"]` (contains the id of the worker's net)
  key : String             -- `bridged_form`: nodes that differ only in the test set (`all.` / `nonleaves.`) share it
  rank : Nat := 0          -- rank of `long_prefix` under `prefix_priority` (lower is picked first)
  params : Dict            -- the overwrite dictionary the node was parsed with (+ `object_suffix`)
deriving Repr

structure Star where
  workers : List String    -- worker ids, in the order of `graph.workers`
  nodes : List SNode       -- children of the shared root in creation order
deriving Repr

/-- `setup_dict` of `_parse_and_iterate_for_objects_and_workers` for one vm -/
def perVmDict (paramDict step : Dict) (vm : String) : Dict := ("vms", vm) :: dupdate paramDict step

/-- node creation loop of `_parse_and_iterate_for_objects_and_workers`.  `vmObjs` are the suffixes of the vm objects
of the graph: one per *variant* of every selected vm (`parse_composite_objects`), so a vm selected with two variants
occurs twice and is parsed twice (each time for all its variants). -/
def buildPerVm (nw : Nat) (vmObjs : List String) (parse : Parser) (paramDict step : Dict) : List SNode :=
  (List.range nw).flatMap fun w => vmObjs.flatMap fun vm =>
    (parse w [vm]).map fun nm =>
      { owner := w, vms := [vm], name := nm.name, key := nm.key, rank := nm.rank,
        params := ("object_suffix", vm) :: perVmDict paramDict step vm }

/-- `setup_dict` of `_parse_one_node_for_all_objects_per_worker` -/
def oneNodeDict (paramDict : Dict) (vms : List String) (first : String) : Dict :=
  dupdate paramDict [("vms", " ".intercalate vms), ("main_vm", first)]

/-- the worker loop of `_parse_one_node_for_all_objects_per_worker`: no node → worker skipped,
several → `RuntimeError` -/
def oneNodeLoop (vms : List String) (parse : Parser) (d : Dict) : List Nat → Except Err (List SNode)
  | [] => .ok []
  | w :: ws =>
    match parse w vms with
    | [] => oneNodeLoop vms parse d ws
    | [nm] => (oneNodeLoop vms parse d ws).map ({ owner := w, vms := vms, name := nm.name, key := nm.key, rank := nm.rank, params := d } :: ·)
    | _ :: _ :: _ => .error .runtimeError

def buildOneNode (nw : Nat) (vms : List String) (parse : Parser) (paramDict : Dict) : Except Err (List SNode) :=
  match vms with
  | [] => .error .indexError          -- `selected_vms[0]`
  | first :: _ => oneNodeLoop vms parse (oneNodeDict paramDict vms first) (List.range nw)

/-- the nodes a step creates (`vms` = `sorted(config["vm_strs"])`, `vmObjs` = the vm objects of the graph) -/
def buildTool (t : ToolSpec) (nw : Nat) (vms vmObjs : List String) (parse : Parser) (paramDict : Dict) :
    Except Err (List SNode) :=
  let pd := dupdate paramDict t.reuse
  match t.kind with
  | .perVm => .ok (buildPerVm nw vmObjs parse pd (stepDict t pd vms))
  | .oneNode => buildOneNode nw vms parse pd

/-! ## traversal of a star graph with the custom run policy -/

def upd {α : Type} (f : Nat → α) (k : Nat) (v : α) : Nat → α := fun x => if x = k then v else f x

structure SState where
  finished : Nat → Option Nat := fun _ => none   -- node ↦ `finished_worker`
  dropped : String → Nat → Bool := fun _ _ => false  -- the root's dropped-children register: (bridged form, worker)
  pc : Nat → Option Nat := fun _ => none         -- worker ↦ node whose test it is awaiting
  execs : List (Nat × Nat) := []                  -- executions (worker, node) in start order

inductive Policy
  | star              -- `not self.is_shared_root() and slot not in self.shared_finished_workers`
  | noFinishedCheck   -- (mutant, for contrast) `not self.is_shared_root()`
deriving Repr, DecidableEq, BEq

/-- the run flag of a child of the shared root (children are never bridged here: `shared_finished_workers`
is the node's own `finished_worker`) -/
def runFlag (p : Policy) (s : SState) (n w : Nat) : Bool :=
  match p with
  | .star => s.finished n != some w
  | .noFinishedCheck => true

/-- `worker.id in node.params["name"]` -/
def relevant (g : Star) (w n : Nat) : Bool :=
  match g.workers[w]?, g.nodes[n]? with
  | some id, some nd => strIn id nd.name
  | _, _ => false

def keyOf (g : Star) (n : Nat) : String := match g.nodes[n]? with | some nd => nd.key | none => ""

def rankOf (g : Star) (n : Nat) : Nat := match g.nodes[n]? with | some nd => nd.rank | none => 0

/-- the children of the root the worker may still pick: relevant and not dropped.  The register is keyed by the
bridged form: twins of one test in two test sets are dropped together. -/
def candidates (g : Star) (s : SState) (w : Nat) : List Nat :=
  (List.range g.nodes.length).filter (fun n => relevant g w n && !s.dropped (keyOf g n) w)

/-- stable minimum by prefix rank (`sorted(..., key=cmp_to_key(prefix_priority))[0]`; the pick counters of the
candidates are all zero here and none of them is flat) -/
def minByRank (g : Star) : List Nat → Option Nat
  | [] => none
  | n :: rest =>
    match minByRank g rest with
    | none => some n
    | some m => if rankOf g m < rankOf g n then some m else some n

/-- `root.pick_child(worker)` -/
def pickChild (g : Star) (s : SState) (w : Nat) : Option Nat := minByRank g (candidates g s w)

/-- end of `traverse_node` and the rest of the loop body: mark finished; a node that should run again is left for
another visit, otherwise it is dropped (and reversed) -/
def finish (g : Star) (p : Policy) (s : SState) (n w : Nat) : SState :=
  let s2 := { s with finished := upd s.finished n (some w), pc := upd s.pc w none }
  if runFlag p s2 n w then s2
  else { s2 with dropped := fun k w' => (k == keyOf g n && w' == w) || s2.dropped k w' }

/-- one scheduling slice of worker `w`: either up to the start of its next test or from the end of the awaited
test to the next suspension -/
def micro (g : Star) (p : Policy) (s : SState) (w : Nat) : SState :=
  match s.pc w with
  | some n => finish g p s n w
  | none =>
    match pickChild g s w with
    | none => s
    | some n =>
      if runFlag p s n w then { s with pc := upd s.pc w (some n), execs := s.execs ++ [(w, n)] }
      else finish g p s n w

/-- any interleaving of the workers: a list of worker indices -/
def runSched (g : Star) (p : Policy) (sched : List Nat) (s : SState) : SState := sched.foldl (micro g p) s

def workerDone (g : Star) (s : SState) (w : Nat) : Bool := (s.pc w).isNone && (pickChild g s w).isNone
def allDone (g : Star) (s : SState) : Bool := (List.range g.workers.length).all (workerDone g s)

/-- what is observable of an execution: worker id, node name, vms, parameters -/
def describe (g : Star) (e : Nat × Nat) : String × String × List String × Dict :=
  match g.nodes[e.2]? with
  | some nd => (g.workers.getD e.1 "?", nd.name, nd.vms, nd.params)
  | none => ("?", "?", [], [])

/-! ## C15: `flag_children`, `flag_intersection` and the flagging passes of `intertest_setup.update` -/

/-- a node of a parsed graph as far as the flagging cares -/
structure UNode where
  name : String                 -- `params["name"]`
  setless : String              -- `setless_form` (name without the main restriction)
  variants : List String        -- `name.split(".")` (what the prefix tree indexes)
  vms : List String             -- `params["vms"].split()`
  worker : String               -- id of the worker whose net the node was parsed for
  compForms : List String       -- `component_form` of the node's vm objects
  objectRoot : List String := []  -- `params["object_root"]` split at `-` and `.` ([] when absent)
  sharedRoot : Bool := false
  cloned : Bool := false        -- `len(cloned_nodes) > 0`
  sets : List (String × String) := []   -- states the node produces: (vm, state)
  children : List Nat := []     -- `cleanup_nodes`
deriving Repr

structure UGraph where
  nodes : List UNode := []
deriving Repr

def UGraph.node (g : UGraph) (n : Nat) : UNode :=
  g.nodes.getD n { name := "", setless := "", variants := [], vms := [], worker := "", compForms := [] }

/-- the policies `update` installs (`dflt`: the node keeps `default_run_decision` / `default_clean_decision`) -/
inductive Pol
  | dflt
  | never                 -- `lambda self, slot: False`
  | notFinishedOrRerun    -- `lambda self, slot: not self.is_finished(slot) or self.should_rerun(slot)`
  | cloneFree             -- `lambda self, slot: len(self.cloned_nodes) == 0`
deriving Repr, DecidableEq, BEq

inductive FlagType | run | clean
deriving Repr, DecidableEq, BEq

structure Flags where
  run : Nat → Pol := fun _ => .dflt
  clean : Nat → Pol := fun _ => .dflt

def Flags.set (fl : Flags) (ty : FlagType) (p : Pol) (n : Nat) : Flags :=
  match ty with
  | .run => { fl with run := upd fl.run n p }
  | .clean => { fl with clean := upd fl.clean n p }

def Flags.get (fl : Flags) (ty : FlagType) (n : Nat) : Pol :=
  match ty with | .run => fl.run n | .clean => fl.clean n

/-- contiguous sub-list (what `PrefixTree.get` answers for parser-shaped names, C16) -/
def isInfix (q : List String) : List String → Bool
  | [] => q.isEmpty
  | x :: xs => q.isPrefixOf (x :: xs) || isInfix q xs

/-- the root selection of `flag_children`.  `workerSel = none`: no worker filter; `some (cf, wid)`: the name must match
`(?:^|\.)<cf>.*<wid>(?:$|\.)`, which for parser-shaped names says: `cf` is the component form of one of the node's vms
and the node belongs to worker `wid`.  `nodeName` is the name split at the dots (`[]` for the empty name). -/
def selectRoots (g : UGraph) (nodeName : List String) (objectName : String) (workerSel : Option (String × String)) :
    List Nat :=
  (List.range g.nodes.length).filter fun i =>
    let nd := g.node i
    (if nodeName.isEmpty && objectName == "" then nd.sharedRoot
     else if nodeName.isEmpty then nd.objectRoot.contains objectName
     else isInfix nodeName nd.variants && (objectName == "" || nd.vms.contains objectName)) &&
    (match workerSel with
     | none => true
     | some (cf, wid) => nd.compForms.contains cf && nd.worker == wid)

/-- everything reachable from `cur` in at most `k` steps along the cleanup edges (including `cur`) -/
def reachWithin (g : UGraph) : Nat → List Nat → List Nat
  | 0, cur => cur
  | k + 1, cur => cur ++ reachWithin g k (cur.flatMap (fun n => (g.node n).children))

/-- `flag_children`: exactly one root or `AssertionError`; then the root (unless `skip_parents`) and, unless
`skip_children`, everything below it get the policy.  (The Python worklist visits the same nodes in another order and
possibly several times; the assignment is idempotent.) -/
def flagChildren (g : UGraph) (fl : Flags) (nodeName : List String) (objectName : String)
    (workerSel : Option (String × String))
    (ty : FlagType) (p : Pol) (skipParents skipChildren : Bool) : Except Err Flags :=
  match selectRoots g nodeName objectName workerSel with
  | [r] =>
    let start := if skipParents then (g.node r).children else [r]
    let all := if skipChildren then start else reachWithin g g.nodes.length start
    .ok (all.foldl (fun f n => f.set ty p n) fl)
  | _ => .error .assertionError

/-- `re.search(setless + "$", name)` for names without regex specials other than `.` -/
def endsWithStr (name suffix : String) : Bool := suffix.toList.isSuffixOf name.toList

/-- `flag_intersection`: every node of the graph that maps to exactly one node of the other graph (by set-less name as
a suffix of the other's name) gets the policy; several matches are a `ValueError` -/
def flagIntersection (g : UGraph) (fl : Flags) (otherNames : List String) (ty : FlagType) (p : Pol)
    (skipObjectRoots skipSharedRoot : Bool) : Except Err Flags :=
  (List.range g.nodes.length).foldlM (fun f i =>
    let nd := g.node i
    match otherNames.filter (fun nm => endsWithStr nm nd.setless) with
    | [] => .ok f
    | [_] => if (nd.sharedRoot && skipSharedRoot) || (!nd.objectRoot.isEmpty && skipObjectRoots) then .ok f
             else .ok (f.set ty p i)
    | _ :: _ :: _ => .error .valueError) fl

/-- one (vm, worker) iteration of `update` -/
structure UpdateIn where
  vm : String
  worker : String
  compForms : List String        -- component forms of the vm's objects (one per selected variant)
  fromState : String := "install"
  toState : String := "customize"
  fromVars : List String := ["install"]   -- `from_state.split(".")`
  toVars : List String := ["customize"]   -- `to_state.split(".")`
  clean : Option UGraph          -- the remove-set graph (`none`: `EmptyCartesianProduct`, worker skipped)
  runNames : List String         -- names of the nodes of the graph parsed for `all..<to_state>` (install: the install nodes)
  skipNames : List String := []  -- names of the nodes of the graph parsed for `all..<from_state>`
deriving Repr

def mapAssertion (r : Except Err Flags) : Except Err Flags :=
  match r with | .error .assertionError => .error .valueError | x => x

/-- the flagging passes of `update` for one vm and one worker, in program order -/
def updateFlags (u : UpdateIn) : Except Err (Option Flags) :=
  match u.clean with
  | none => .ok none
  | some g => do
    let names := g.nodes.map (·.name)
    let f ← flagIntersection g {} names .run .never false false
    let f ← flagIntersection g f names .clean .never false false
    let flagState := if u.toState == "install" then [] else u.toVars
    let f ← u.compForms.foldlM (fun f cf =>
      mapAssertion (flagChildren g f flagState u.vm (some (cf, u.worker)) .clean .cloneFree true false)) f
    let f ← flagIntersection g f u.runNames .run .notFinishedOrRerun false true
    let f ← if u.fromState != "install" then do
        let f ← flagIntersection g f u.skipNames .run .never false false
        u.compForms.foldlM (fun f cf =>
          mapAssertion (flagChildren g f u.fromVars u.vm (some (cf, u.worker)) .run .notFinishedOrRerun false true)) f
      else pure f
    pure (some f)

/-- what the traversal then does with a node: it is (re)run iff its run policy is `notFinishedOrRerun` -/
def willRun (fl : Flags) (n : Nat) : Bool := fl.run n == .notFinishedOrRerun
/-- … and its states are removed iff its clean policy is `cloneFree` and it is no clone source -/
def willClean (g : UGraph) (fl : Flags) (n : Nat) : Bool := fl.clean n == .cloneFree && !(g.node n).cloned

/-! ## `Manu.run`: the setup chain loop -/

/-- what a step function does: returns `None`, returns an integer, or raises -/
inductive Outcome | retNone | ret (n : Int) | raised
deriving Repr, DecidableEq

/-- what a built-in step hands back to `Manu.run`: an exception passes through; otherwise
`0 if runner.all_results_ok() else 1` — directly for the `@with_cartesian_graph` steps, and passed on by
`_reuse_tool_with_param_dict` for `collect`, `create`, `clean` (since 5f9a82c) -/
def stepOutcome (_t : ToolSpec) (raised allOk : Bool) : Outcome :=
  if raised then .raised else .ret (if allOk then 0 else 1)

/-- (regression, before 5f9a82c) the reusing steps dropped the status of the tool they reuse and returned `None` -/
def stepOutcomePreFix (t : ToolSpec) (raised allOk : Bool) : Outcome :=
  if raised then .raised else if t.reuse.isEmpty then .ret (if allOk then 0 else 1) else .retNone

/-- `setup_func(...) not in [None, 0]`, or an exception -/
def Outcome.fails : Outcome → Bool
  | .retNone => false
  | .ret n => n != 0
  | .raised => true

structure ChainResult (σ : Type) where
  ret : Except Err Nat                -- return code, or the exception that escaped `Manu.run`
  executed : List (String × Nat)      -- (step, i): called as `step(config, "0m<i>")`
  outcomes : List Outcome             -- what each executed step did
  env : σ

/-- the `for i, setup_step in enumerate(setup_chain)` loop.  `known` = `hasattr(intertest, step)` (the `getattr`
is outside the `try`), `f` = the step function acting on an environment. -/
def runChainFrom {σ : Type} (known : String → Bool) (f : σ → String → Nat → Outcome × σ) (env : σ) (i rc : Nat) :
    List String → ChainResult σ
  | [] => { ret := .ok rc, executed := [], outcomes := [], env := env }
  | st :: rest =>
    if !known st then { ret := .error .attributeError, executed := [], outcomes := [], env := env }
    else
      let r := runChainFrom known f (f env st i).2 (i + 1) (if (f env st i).1.fails then 1 else rc) rest
      { r with executed := (st, i) :: r.executed, outcomes := (f env st i).1 :: r.outcomes }

/-- `setup_chain = run_params.get("setup", "").split()` followed by the loop: the chain as given, repeated steps
included (since 3361dd0) -/
def runChain {σ : Type} (known : String → Bool) (f : σ → String → Nat → Outcome × σ) (env : σ)
    (chain : List String) : ChainResult σ :=
  runChainFrom known f env 0 0 chain

/-- (regression, before 3361dd0) `Params.objects(key)` of virttest: the words of the value with *duplicates removed*
(first occurrence kept); `Manu.run` used to take the chain from it -/
def objects : List String → List String
  | [] => []
  | x :: xs => x :: (objects xs).filter (· != x)

/-- `_reuse_tool_with_param_dict`: `config["param_dict"]` is updated, the tool is called and the old dictionary is
put back in a `finally` (since 79572ad): whether the tool returns or raises, the chain goes on with the dictionary it
had -/
def reuseEnvAfter (_t : ToolSpec) (pd : Dict) (_raised : Bool) : Dict := pd

/-- (regression, before 79572ad) the dictionary was put back only when the tool returned -/
def reuseEnvAfterPreFix (t : ToolSpec) (pd : Dict) (raised : Bool) : Dict :=
  if raised && !t.reuse.isEmpty then dupdate pd t.reuse else pd

/-- a built-in step as `Manu.run` sees it: the environment is `config["param_dict"]`; `beh i` says whether the `i`-th
step raises and whether all its test results are ok.  Steps outside the table (`noop`, …) return `None`. -/
def builtinStep (beh : Nat → Bool × Bool) (pd : Dict) (st : String) (i : Nat) : Outcome × Dict :=
  match toolSpec st with
  | none => (if (beh i).1 then .raised else .retNone, pd)
  | some t => (stepOutcome t (beh i).1 (beh i).2, reuseEnvAfter t pd (beh i).1)

/-- (regression) the built-in step before 5f9a82c and 79572ad -/
def builtinStepPreFix (beh : Nat → Bool × Bool) (pd : Dict) (st : String) (i : Nat) : Outcome × Dict :=
  match toolSpec st with
  | none => (if (beh i).1 then .raised else .retNone, pd)
  | some t => (stepOutcomePreFix t (beh i).1 (beh i).2, reuseEnvAfterPreFix t pd (beh i).1)

/-- the `config["param_dict"]` each executed step starts with -/
def envTrace {σ : Type} (known : String → Bool) (f : σ → String → Nat → Outcome × σ) (env : σ) (i : Nat) :
    List String → List σ
  | [] => []
  | st :: rest => if !known st then [] else env :: envTrace known f (f env st i).2 (i + 1) rest

/-- `Manu.run`: a command line that does not parse gives 1 without running anything -/
def manuRun {σ : Type} (cmdOk : Bool) (known : String → Bool) (f : σ → String → Nat → Outcome × σ) (env : σ)
    (chain : List String) : ChainResult σ :=
  if cmdOk then runChain known f env chain else { ret := .ok 1, executed := [], outcomes := [], env := env }

end I2N.Tools
