import I2N.Model.Trav
/-
Trace monitors for the traversal family (C01–C05, C08, C10, C02): decidable predicates over the
observable event stream of ONE run (of the implementation or of the model) and the static graph.
They are the executable form of the properties' sentences; `I2N/Props/Cxx.lean` states what each
`…Ok = true` means as a proposition and proves the equivalence.
-/
namespace I2N.Trav

/-- a monitor-level event (parsed from the harness' event lines) -/
structure MEv where
  kind : String              -- start | end | door | exit | raise | timeout | sleep
  w : Nat                    -- worker index
  cls : Nat := 0             -- class index (start/end)
  pre : Bool := false        -- the creation pre-step of an object root
  uid : String := ""
  status : String := ""      -- end: scheduled status or NONE
  dur : Nat := 0             -- end: duration
  action : String := ""      -- door: check | get | unset
  reqs : List (String × String) := []
  ok : Bool := true
  locs : List (String × List String) := []   -- start: vm ↦ location tokens ("" = shared pool, else worker id)
  nodeWorker : Nat := 0      -- start: worker the executed node copy was parsed for
  netsOk : Bool := true      -- start: the connection parameters of the node equal those of the executing worker
  access : List String := [] -- start: worker ids whose access parameters are present
deriving Repr

/-- the copy of class `c` owned by worker `w` -/
def Graph.copyOf (g : Graph) (c w : Nat) : Option Nat :=
  (g.classNodes c).find? (fun n => (g.node n).owner == some w)

def limitOf (g : Graph) (c w : Nat) : Nat :=
  match g.copyOf c w with
  | none => 1
  | some n =>
    let nd := g.node n
    let m : Int := nd.mct.getD (nd.maxTries.getD 1)
    (max m 1).toNat

def budgetOf (g : Graph) (c w : Nat) : Nat :=
  match g.copyOf c w with
  | none => 0
  | some n => let nd := g.node n; nd.timeout * (max (nd.maxTries.getD 1) 1).toNat

def triesOf (g : Graph) (c w : Nat) : Nat :=
  match g.copyOf c w with
  | none => 1
  | some n => (max ((g.node n).maxTries.getD 1) 1).toNat

def shapeOf (g : Graph) (c w : Nat) : Shape :=
  match g.copyOf c w with
  | none => .global
  | some n => (g.node n).shape

/-- is worker `v` in the reuse scope of worker `w` for class `c` -/
def inScope (g : Graph) (c w v : Nat) : Bool :=
  match shapeOf g c w with
  | .own => v == w
  | .swarm => (g.worker v).swarm == (g.worker w).swarm
  | .global => true

/-! ### execution intervals

An execution of class `c` by worker `w` is the span from its `start` (of the creation pre-step, if
any) to the `end` of the test proper (or of a failed pre-step).  `intervals` returns
(worker, class, start position, end position, total duration). -/

structure Interval where
  w : Nat
  cls : Nat
  s : Nat
  e : Nat
  dur : Nat
  main : Bool       -- the test proper was started (not only the pre-step)
deriving Repr

def closeInterval (t : List MEv) (i : Nat) (w c : Nat) : Nat × Nat × Bool :=
  -- scan forward from position i (exclusive): ends of this worker until the interval is over
  let rest := (t.zipIdx).drop (i + 1)
  let mine := rest.filter (fun (e, _) => e.w == w && (e.kind == "end" || e.kind == "start") && e.cls == c)
  let rec go (l : List (MEv × Nat)) (dur : Nat) (main : Bool) (last : Nat) (fuel : Nat) : Nat × Nat × Bool :=
    match fuel, l with
    | 0, _ => (last, dur, main)
    | _, [] => (last, dur, main)
    | fuel + 1, (e, j) :: r =>
      if e.kind == "end" then
        let e := { e with dur := e.dur + (if e.status == "NONE" then 300 else 0) }   -- 10 x 30 s of result waiting
        if e.pre then
          -- pre-step over: the interval continues iff the next own event is the start of the main test
          match r with
          | (e2, j2) :: r2 => if e2.kind == "start" && !e2.pre then go r2 (dur + e.dur) true j2 fuel else (j, dur + e.dur, main)
          | [] => (j, dur + e.dur, main)
        else (j, dur + e.dur, true)
      else (last, dur, main)
  go mine 0 false i (t.length + 1)

def intervals (t : List MEv) : List Interval :=
  (t.zipIdx).filterMap (fun (e, i) =>
    if e.kind == "start" then
      -- a main start directly continuing a pre-step is not a new interval
      let prevOwn := ((t.take i).reverse.find? (fun p => p.w == e.w && (p.kind == "start" || p.kind == "end")))
      let continuing := !e.pre && (match prevOwn with | some p => p.kind == "end" && p.pre && p.cls == e.cls | none => false)
      if continuing then none
      else
        let (j, d, m) := closeInterval t i e.w e.cls
        some { w := e.w, cls := e.cls, s := i, e := j, dur := d, main := m || !e.pre }
    else none)

/-! ### C04: no more than `limit` concurrent executions of one class within a reuse scope, as long as
no execution overran its budget -/

/-- some execution of `j`'s class that started before `j` (in any scope) ran longer than its budget
(after that the code deliberately allows re-entrancy: the guarantee is void for this class) -/
def overran (g : Graph) (ivs : List Interval) (j : Interval) : Bool :=
  ivs.any (fun i => i.cls == j.cls && i.s < j.s && i.dur > budgetOf g i.cls i.w)

def overlapViolations (g : Graph) (t : List MEv) : List (Nat × Nat) :=
  let ivs := intervals t
  ivs.filterMap (fun j =>
    -- executions of the same class, in the scope of j's worker, open when j starts
    let openI := ivs.filter (fun i => i.cls == j.cls && i.s < j.s && j.s < i.e && inScope g j.cls j.w i.w)
    if openI.length + 1 > limitOf g j.cls j.w && !overran g ivs j then some (j.w, j.cls) else none)

def overlapOk (g : Graph) (t : List MEv) : Bool := (overlapViolations g t).isEmpty

/-! ### C03: executions per class and scope within the retry budget -/

def countViolations (g : Graph) (t : List MEv) : List (Nat × Nat × Nat) :=
  let ivs := (intervals t).filter (·.main)
  ivs.filterMap (fun j =>
    let same := ivs.filter (fun i => i.cls == j.cls && inScope g j.cls j.w i.w)
    if same.length > triesOf g j.cls j.w && !(same.any (fun i => overran g (intervals t) i)) then some (j.w, j.cls, same.length) else none)

def countOk (g : Graph) (t : List MEv) : Bool := (countViolations g t).isEmpty

/-- C03, creation attempts: EVERY execution interval counts, also a creation of an object that ended with a failed
pre-step (the two-step creation is one execution whether or not the test proper was reached).  For classes without
an object root this is `countViolations`. -/
def attemptViolations (g : Graph) (t : List MEv) : List (Nat × Nat × Nat) :=
  let ivs := intervals t
  ivs.filterMap (fun j =>
    let same := ivs.filter (fun i => i.cls == j.cls && inScope g j.cls j.w i.w)
    if same.length > triesOf g j.cls j.w && !(same.any (fun i => overran g ivs i)) then some (j.w, j.cls, same.length) else none)

def attemptOk (g : Graph) (t : List MEv) : Bool := (attemptViolations g t).isEmpty

/-- a stateful class whose states were all found at the first examination within a scope is not executed there -/
def presentNotRunViolations (g : Graph) (t : List MEv) : List (Nat × Nat) :=
  (t.zipIdx).filterMap (fun (e, i) =>
    if e.kind == "door" && e.action == "check" && e.ok then
      -- the class examined: the copy of this worker whose set states are exactly the requested ones
      let cs := (List.range g.nodes.length).filter (fun n =>
        (g.node n).owner == some e.w && !(g.node n).sets.isEmpty && (g.node n).sets.all e.reqs.contains && e.reqs.all (g.node n).sets.contains)
      match cs with
      | [n] =>
        let c := (g.node n).cls
        let first := !((t.take i).any (fun p => (p.kind == "door" && p.action == "check" && inScope g c e.w p.w &&
                          p.reqs.all e.reqs.contains && e.reqs.all p.reqs.contains) ||
                        (p.kind == "start" && p.cls == c && inScope g c e.w p.w)))
        let later := (t.drop (i + 1)).any (fun p => p.kind == "start" && !p.pre && p.cls == c && inScope g c e.w p.w)
        if first && later then some (e.w, c) else none
      | _ => none
    else none)

/-! ### C08: a test runs on its own worker, with that worker's connection parameters, and its listed
sources are the shared pool plus exactly the workers with a passing result of the producing class -/

def passersBefore (t : List MEv) (i c : Nat) : List Nat :=
  dedupNat (((t.take i).filter (fun e => e.kind == "end" && !e.pre && e.cls == c && e.status == "PASS")).map (·.w))

def ownerViolations (g : Graph) (t : List MEv) : List (Nat × Nat × String) :=
  (t.zipIdx).flatMap (fun (e, i) =>
    if e.kind != "start" then [] else
    let a := if e.nodeWorker != e.w then [(e.w, e.cls, "foreign-worker")] else []
    let b := if !e.netsOk then [(e.w, e.cls, "connection-parameters")] else []
    let c :=
      if e.pre then [] else
      match g.copyOf e.cls e.w with
      | none => []
      | some n =>
        (g.node n).setup.flatMap (fun (p, vms) =>
          if (g.node p).flat then [] else
          let want := (passersBefore t i (g.node p).cls).map (fun v => (g.worker v).id)
          vms.flatMap (fun vm =>
            match e.locs.find? (·.1 == vm) with
            | none => [(e.w, e.cls, "no-location-for-" ++ vm)]
            | some (_, toks) =>
              let others := toks.filter (· != "")
              (if !toks.contains "" then [(e.w, e.cls, "shared-pool-not-listed")] else []) ++
              (others.filter (fun x => !want.contains x)).map (fun x => (e.w, e.cls, "non-producer-listed:" ++ x)) ++
              (want.filter (fun x => !others.contains x)).map (fun x => (e.w, e.cls, "producer-missing:" ++ x)) ++
              (others.filter (fun x => !e.access.contains x)).map (fun x => (e.w, e.cls, "access-missing:" ++ x))))
    a ++ b ++ c)

def ownerOk (g : Graph) (t : List MEv) : Bool := (ownerViolations g t).isEmpty

/-! ### the store as the run's own door/produce events imply it -/

abbrev Store := List (String × List (String × String))

def replayStore (g : Graph) (init : Store) (t : List MEv) : Store :=
  t.foldl (fun st e =>
    let wid := (g.worker e.w).id
    if e.kind == "end" && !e.pre && (e.status == "PASS" || e.status == "WARN") then
      match g.copyOf e.cls e.w with
      | none => st
      | some n => let own := storeGet st wid
                  storeSet st wid (own ++ (g.node n).sets.filter (fun x => !own.contains x))
    else if e.kind == "door" && e.action == "unset" then
      storeSet st wid ((storeGet st wid).filter (fun x => !e.reqs.contains x))
    else if e.kind == "door" && e.action == "get" then
      let sh := storeGet st "shared"
      let own := storeGet st wid
      storeSet st wid (own ++ e.reqs.filter (fun x => sh.contains x && !own.contains x))
    else st) init

/-- may worker `w` (running the copy `n`) fetch from location token `loc` under the node's pool scope -/
def allowedLoc (g : Graph) (n w : Nat) (loc : String) : Bool :=
  let sc := (g.node n).scope
  if loc == "" then sc.contains "shared"
  else if loc == (g.worker w).id then sc.contains "own"
  else match (List.range g.workers.length).find? (fun v => (g.worker v).id == loc) with
    | none => false
    | some v => if (g.worker v).swarm == (g.worker w).swarm then sc.contains "swarm" else sc.contains "cluster"

/-- has the producing class of (vm) for node `n`, or the creation of vm, an attempt that did not pass before `i` -/
def excepted (g : Graph) (t : List MEv) (i n : Nat) (vm : String) : Bool :=
  let producers := ((g.node n).setup.filter (fun (_, vms) => vms.contains vm)).map (fun (p, _) => (g.node p).cls)
  let roots := ((List.range g.nodes.length).filter (fun m => (g.node m).objectRoot && (g.node m).objs.contains vm)).map
    (fun m => (g.node m).cls)
  (t.take i).any (fun e => e.kind == "end" && e.status != "PASS" && (producers.contains e.cls || roots.contains e.cls))

/-! ### C01: every required state is available where the worker is allowed and instructed to fetch it -/

/-- is the state `vs` at hand for the test `e` (copy `n`) starting at position `i` of the trace -/
def stateAvailable (g : Graph) (init : Store) (t : List MEv) (i : Nat) (e : MEv) (n : Nat) (vs : String × String) : Bool :=
  let st := replayStore g init (t.take i)
  let toks := match e.locs.find? (·.1 == vs.1) with | some (_, l) => l | none => []
  -- the worker's own images are always at hand
  -- a required state nobody in the graph produces for this test is externally provided (permanent objects): taken as given
  !((g.node n).setup.any (fun (_, vms) => vms.contains vs.1)) ||
  (storeGet st (g.worker e.w).id).contains vs ||
  toks.any (fun loc => allowedLoc g n e.w loc && (storeGet st (if loc == "" then "shared" else loc)).contains vs) ||
  excepted g t i n vs.1

/-- the starts of tests proper, with their position and the copy they execute -/
def mainStarts (g : Graph) (t : List MEv) : List (MEv × Nat × Nat) :=
  (t.zipIdx).filterMap (fun (e, i) =>
    if e.kind == "start" && !e.pre then (g.copyOf e.cls e.w).map (fun n => (e, i, n)) else none)

def statesViolations (g : Graph) (init : Store) (t : List MEv) : List (Nat × Nat × String × String) :=
  (mainStarts g t).flatMap (fun (e, i, n) =>
    ((g.node n).gets.filter (fun vs => !stateAvailable g init t i e n vs)).map (fun vs => (e.w, e.cls, vs.1, vs.2)))

def statesOk (g : Graph) (init : Store) (t : List MEv) : Bool := (statesViolations g init t).isEmpty

/-! ### C05: removal only if marked, only when no dependant is running; no copy with the default filter -/

def cleanupViolations (g : Graph) (t : List MEv) : List (Nat × String × String) :=
  let ivs := intervals t
  (t.zipIdx).flatMap (fun (e, i) =>
    if e.kind != "door" then [] else
    if e.action == "unset" then
      e.reqs.flatMap (fun (vm, state) =>
        -- the producing copies of this worker for that state
        let prods := (List.range g.nodes.length).filter (fun n => (g.node n).owner == some e.w && (g.node n).sets.contains (vm, state))
        let marked := prods.any (fun n => (unsetModeOf (g.node n) vm).toList.head? == some 'f')
        let a := if !marked then [(e.w, "unset-of-unmarked-state:" ++ vm ++ ":" ++ state, "")] else []
        -- dependants (any worker's copy of a child class through vm) running at this moment
        let childCls := prods.flatMap (fun n => ((g.node n).cleanup.filter (fun (_, vms) => vms.contains vm)).map (fun (c, _) => (g.node c).cls))
        -- … and reading the copy that is being removed: the remover's own dependant, or one that was told this pool
        let reads := fun (iv : Interval) =>
          iv.w == e.w || (match t[iv.s]? with
            | some st => (match st.locs.find? (·.1 == vm) with | some (_, toks) => toks.contains (g.worker e.w).id | none => false)
            | none => false)
        let running := ivs.filter (fun iv => iv.s < i && i < iv.e && childCls.contains iv.cls && reads iv)
        let b := running.map (fun iv => (e.w, "unset-while-dependant-runs:" ++ vm ++ ":" ++ state, (g.worker iv.w).id))
        a ++ b)
    else if e.action == "get" then
      let n? := (List.range g.nodes.length).find? (fun n => (g.node n).owner == some e.w && e.reqs.all (g.node n).sets.contains)
      match n? with
      | some n => if (g.node n).poolFilter == "reuse" || (g.node n).poolFilter == "block"
                  then [(e.w, "copy-with-default-filter", "")] else []
      | none => []
    else [])

def cleanupOk (g : Graph) (t : List MEv) : Bool := (cleanupViolations g t).isEmpty

/-! ### C02: clean exit of every worker, every selected (leaf) class executed, definite statuses;
C10: distinct identifiers -/

def resultViolations (g : Graph) (t : List MEv) (dry : Bool) : List String :=
  let ws := List.range g.workers.length
  let a := (ws.filter (fun w => !(t.any (fun e => e.kind == "exit" && e.w == w)))).map (fun w => "no-exit:" ++ (g.worker w).id)
  let b := ((t.filter (fun e => e.kind == "raise" || e.kind == "timeout")).map (fun e => e.kind ++ ":" ++ (g.worker e.w).id ++ ":" ++ e.status))
  let c :=
    if dry then (t.filter (fun e => e.kind == "start" || e.kind == "door")).map (fun e => "dry-run-acts:" ++ e.kind)
    else
      let leaves := dedupNat (((List.range g.nodes.length).filter (fun n => !(g.node n).flat && !(g.node n).cloneSource && (g.node n).cleanup.isEmpty && (g.node n).sets.isEmpty)).map (fun n => (g.node n).cls))
      (leaves.filter (fun c => !(t.any (fun e => e.kind == "start" && !e.pre && e.cls == c)))).map (fun c => "never-executed:class" ++ toString c)
  let d := ((t.zipIdx).filter (fun (e, i) => e.kind == "start" &&
      !((t.drop (i + 1)).any (fun f => f.kind == "end" && f.w == e.w && f.cls == e.cls && f.uid == e.uid)))).map
      (fun (e, _) => "start-without-end:" ++ e.uid)
  a ++ b ++ c ++ d

def uidViolations (g : Graph) (t : List MEv) : List (Nat × String) :=
  let starts := (t.zipIdx).filter (fun (e, _) => e.kind == "start")
  starts.filterMap (fun (e, i) =>
    -- same result name (= same node copy, or the pre-node of that worker) and same uid started earlier
    if (t.take i).any (fun p => p.kind == "start" && p.w == e.w && p.cls == e.cls && p.pre == e.pre && p.uid == e.uid)
    then some (e.w, e.uid) else none)

end I2N.Trav
