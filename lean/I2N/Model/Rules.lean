/-
Engine `rules` (property C10): the retry / stop / replay / verdict rules of avocado-i2n.

Mirrors, function by function,
  * `avocado_i2n/cartgraph/node.py`   `TestNode.shared_filtered_results`, `TestNode.should_rerun`,
                                       `TestNode.default_run_decision`
  * `avocado_i2n/plugins/runner.py`   `TestRunner.run_test_node` (uid scheme + result bookkeeping),
                                       `TestRunner.all_results_ok`
  * `avocado_i2n/cartgraph/graph.py`  the "previous results" step of `TestGraph.traverse_node` and the
                                       result copy of the creation pre-step of `traverse_terminal_node`.

Imports only the constants extracted from /repo on every run.  The compiled driver
(`Driver/Rules.lean`) runs exactly these definitions.
-/
import I2N.Extracted.Rules
namespace I2N.Rules
open I2N.Extracted.Rules

/-- Python exceptions, refined by call site so that a disagreement localises:
`runtimeError` wrong worker; `badRerunStatus`/`badStopStatus` "Value of … status must be a valid test
status" (ValueError); `badTries` `int()` of a non-integer (ValueError); `negativeTries` (ValueError);
`removeMissing` `list.remove` of an absent placeholder (ValueError); `keyError` status outside
`STATUSES_MAPPING`. -/
inductive Err where
  | runtimeError | badRerunStatus | badStopStatus | badTries | negativeTries | removeMissing | keyError
deriving DecidableEq, Repr

/-! ### Python string helpers (ASCII) -/

def isWs (c : Char) : Bool :=
  c == ' ' || c == '\t' || c == '\n' || c == '\r' || c == '\x0b' || c == '\x0c'

/-- `str.split()` (runs of whitespace, no empty tokens); `cur` is the current token reversed -/
def splitWsAux : List Char → List Char → List (List Char)
  | [], cur => if cur.isEmpty then [] else [cur.reverse]
  | c :: cs, cur =>
    if isWs c then (if cur.isEmpty then splitWsAux cs [] else cur.reverse :: splitWsAux cs [])
    else splitWsAux cs (c :: cur)

def splitWs (s : String) : List String := (splitWsAux s.toList []).map String.ofList

/-- `str.split(d)` (every delimiter splits, empty tokens kept) -/
def splitOnAux (d : Char) : List Char → List Char → List (List Char)
  | [], cur => [cur.reverse]
  | c :: cs, cur => if c == d then cur.reverse :: splitOnAux d cs [] else splitOnAux d cs (c :: cur)

def splitChar (d : Char) (s : String) : List String := (splitOnAux d s.toList []).map String.ofList

def isPrefixL : List Char → List Char → Bool
  | [], _ => true
  | _ :: _, [] => false
  | a :: as, b :: bs => a == b && isPrefixL as bs

def isInfixL (a : List Char) : List Char → Bool
  | [] => a.isEmpty
  | b :: bs => isPrefixL a (b :: bs) || isInfixL a bs

/-- Python `a in b` on strings -/
def isSubstr (a b : String) : Bool := isInfixL a.toList b.toList

/-- `str.lower()` (ASCII) -/
def lower (s : String) : String := String.ofList (s.toList.map Char.toLower)

/-- digits with single underscores between digits (Python integer literals accepted by `int()`) -/
def parseDigitsAux : List Char → Nat → Bool → Option Nat
  | [], acc, lastDigit => if lastDigit then some acc else none
  | c :: cs, acc, lastDigit =>
    if c.isDigit then parseDigitsAux cs (acc * 10 + (c.toNat - 48)) true
    else if c == '_' && lastDigit then parseDigitsAux cs acc false
    else none

def stripL (cs : List Char) : List Char := ((cs.dropWhile isWs).reverse.dropWhile isWs).reverse

/-- Python `int(s)` for a string: `none` = ValueError -/
def parseInt (s : String) : Option Int :=
  match stripL s.toList with
  | '-' :: r => (parseDigitsAux r 0 false).map (fun n => - (n : Int))
  | '+' :: r => (parseDigitsAux r 0 false).map (fun n => (n : Int))
  | r => (parseDigitsAux r 0 false).map (fun n => (n : Int))

/-! ### Static and dynamic data the decisions read -/

structure Worker where
  swarmId : String
  id : String
deriving DecidableEq, Repr

/-- one entry of `node.results`; `time = none` only for the in-flight placeholder
`{"name": …, "status": "UNKNOWN"}` which has no `time_elapsed` key -/
structure Result where
  name : String
  status : String
  time : Option Nat := none
deriving DecidableEq, Repr

/-- what `should_rerun` / `default_run_decision` read of one node copy -/
structure Cfg where
  name : String
  dryRun : Option String := none        -- params.get("dry_run")
  flat : Bool := false                  -- len(objects) == 0
  cloneSource : Bool := false           -- len(cloned_nodes) > 0
  replay : Option String := none        -- params.get("replay")
  rerunStatus : Option String := none
  stopStatus : Option String := none
  maxTries : Option String := none
  stateful : Bool := false              -- len(get_stateful_objects()) > 0
  poolScope : String := ""
  netsSpawner : Option String := none
  startedWorker : Option Worker := none
deriving Repr

/-- Python truthiness of `params.get(key)` -/
def truthy : Option String → Bool
  | some s => s != ""
  | none => false

/-- `params.get_list(key, [])` (whitespace delimiter) -/
def getListWs : Option String → List String
  | none => []
  | some s => if s == "" then [] else splitWs s

/-- `params.get_list(key, default, delimiter=d)` -/
def getListChar (d : Char) (dflt : String) (o : Option String) : List String :=
  let s := o.getD dflt
  if s == "" then [] else splitChar d s

/-- the `rerun_status` list `should_rerun` works with -/
def rerunList (c : Cfg) : List String :=
  if truthy c.replay then getListChar replayRerunDelimiter replayRerunDefault c.rerunStatus
  else
    let l := getListWs c.rerunStatus
    if l.isEmpty then allStatuses else l

def stopList (c : Cfg) : List String := getListWs c.stopStatus

/-- `params.get_numeric("max_tries", 2 if replay else 1)`; `none` = ValueError of `int()` -/
def maxTriesOf (c : Cfg) : Option Int :=
  match c.maxTries with
  | none => some (if truthy c.replay then maxTriesReplayDefault else maxTriesDefault)
  | some s => parseInt s

/-- the scope filter string of `shared_filtered_results` for a given `started_worker` -/
def scopeFilter (c : Cfg) : Option Worker → String
  | none => ""
  | some w =>
    if !(isSubstr scopeSwarm c.poolScope) && c.netsSpawner == some spawnerLxc then
      w.swarmId ++ "." ++ w.id
    else if !(isSubstr scopeCluster c.poolScope) && c.netsSpawner == some spawnerRemote then
      w.swarmId
    else ""

/-- `TestNode.shared_filtered_results` given `shared_results` and the current `started_worker` -/
def filteredResults (c : Cfg) (started : Option Worker) (shared : List Result) : List Result :=
  shared.filter (fun r => isSubstr (scopeFilter c started) r.name)

/-- the `test_statuses` list of `should_rerun` -/
def statusesOf (c : Cfg) (w : Option Worker) (shared : List Result) : List String :=
  if !c.stateful then shared.map (fun r => lower r.status)
  else (filteredResults c (c.startedWorker <|> w) shared).map (fun r => lower r.status)

/-- `worker and worker.id not in self.params["name"]` -/
def wrongWorker (c : Cfg) : Option Worker → Bool
  | some x => !(isSubstr x.id c.name)
  | none => false

/-- `TestNode.should_rerun(worker)` with `shared` = `self.shared_results` -/
def shouldRerun (c : Cfg) (w : Option Worker) (shared : List Result) : Except Err Bool :=
  if c.dryRun.getD dryRunDefault == dryRunYes then .ok false
  else if c.flat then .ok false
  else if c.cloneSource then .ok false
  else if wrongWorker c w then .error .runtimeError
  else
    let rerun := rerunList c
    let stop := stopList c
    if !(rerun.all (fun s => allStatuses.contains s)) then .error .badRerunStatus
    else if !(stop.all (fun s => allStatuses.contains s)) then .error .badStopStatus
    else
      match maxTriesOf c with
      | none => .error .badTries
      | some m =>
        if m < 0 then .error .negativeTries
        else
          let sts := statusesOf c w shared
          if !(sts.all (fun s => rerun.contains s)) then .ok false
          else if stop.any (fun s => sts.contains s) then .ok false
          else
            let left : Int := if m == maxTriesNoRerun then 0 else m - (sts.length : Int)
            .ok (decide (left > 0))

/-- `TestNode.default_run_decision(worker)`.  `finished` = `is_finished(worker, 1)`, `scanRun` = outcome
of `scan_states()` (only consulted when the node is not finished), `disabled` = the instance attribute
`should_rerun` was replaced by `lambda _: False` earlier.  Returns (decision, disabled afterwards). -/
def defaultRunDecision (c : Cfg) (w : Worker) (shared : List Result) (finished scanRun disabled : Bool) :
    Except Err (Bool × Bool) :=
  if c.dryRun.getD dryRunDefault == dryRunYes then .ok (false, disabled)
  else if c.flat then .ok (false, disabled)
  else if c.cloneSource then .ok (false, disabled)
  else if !(isSubstr w.id c.name) then .error .runtimeError
  else
    let rerun (dis : Bool) : Except Err Bool := if dis then .ok false else shouldRerun c (some w) shared
    if !c.stateful then
      if shared.isEmpty then .ok (true, disabled)
      else (rerun disabled).map (fun b => (b, disabled))
    else
      let fromScan := if !finished then scanRun else false
      let dis := disabled || ((filteredResults c c.startedWorker shared).isEmpty && !fromScan)
      if fromScan then .ok (true, dis) else (rerun dis).map (fun b => (b, dis))

/-! ### `TestRunner.all_results_ok` -/

structure JobRes where
  name : String
  uid : String
  status : String
  time : Nat := 0
deriving DecidableEq, Repr

/-- `STATUSES_MAPPING[status]`; `none` = KeyError -/
def statusOk (s : String) : Option Bool := statusesMapping.lookup s

/-- `any(STATUSES_MAPPING[t["status"]] for t in tests if t.name == name)` with its short circuit -/
def anyOk (name : String) : List JobRes → Except Err Bool
  | [] => .ok false
  | t :: ts =>
    if t.name == name then
      match statusOk t.status with
      | none => .error .keyError
      | some true => .ok true
      | some false => anyOk name ts
    else anyOk name ts

/-- the loop of `all_results_ok` over the remaining tests `rest`, `all` = `self.job.result.tests` -/
def allOkLoop (all : List JobRes) : List JobRes → Except Err Bool
  | [] => .ok true
  | t :: ts =>
    match anyOk t.name all with
    | .error e => .error e
    | .ok false => .ok false
    | .ok true => allOkLoop all ts

def allResultsOk (tests : List JobRes) : Except Err Bool := allOkLoop tests tests

/-! ### the verdict part of `TestRunner.run_suite` -/

def upper (s : String) : String := String.ofList (s.toList.map Char.toUpper)

/-- `summary` of `run_suite` (without the interrupt branch): `"FAIL"` if `not all_results_ok()`, then
`summary.update(status.upper() for status in status_repo.get_result_set_for_tasks(test_ids))` where
`taskResults` are the results the status repository holds for the test tasks of this runner -/
def suiteSummary (tests : List JobRes) (taskResults : List String) : Except Err (List String) :=
  match allResultsOk tests with
  | .error e => .error e
  | .ok ok => .ok ((if ok then [] else [suiteFailWord]) ++ taskResults.map upper)

/-- `avocado.core.job.Job.run_tests`: the exit code gets a failure bit iff `INTERRUPTED`, `FAIL` or
`ERROR` is in the summary (avocado code, outside /repo: trusted) -/
def reportedSuccessful (summary : List String) : Bool :=
  !(summary.contains "INTERRUPTED") && !(summary.contains "FAIL") && !(summary.contains "ERROR")

/-! ### `TestRunner.run_test_node`: uid scheme and result bookkeeping as a state machine -/

/-- one node copy of a class of mutually bridged nodes (one copy per worker); `preName`/`prePfx` are the
name and prefix of the creation pre-node `traverse_terminal_node` builds for it -/
structure Copy where
  name : String
  pfx : String
  preName : String := ""
  prePfx : String := prePrefix
  results : List Result := []
deriving Repr

/-- a started execution: copy index, the retry counter it was started with, and its test id -/
structure Exec where
  copy : Nat
  k : Nat
  name : String
  uid : String
deriving DecidableEq, Repr

/-- what `run_test_task` does to `job.result.tests`: the result arrives before the first lookup
(`delay = 0`), during the `delay`-th sleep of the polling loop, or never -/
inductive Outcome where
  | reported (status : String) (time : Nat) (delay : Nat)
  | never
deriving DecidableEq, Repr

structure St where
  copies : List Copy
  job : List JobRes := []          -- `job.result.tests`
  pending : List Exec := []        -- started, not yet finished
  issued : List Exec := []         -- ghost: every execution started so far (newest first)
  preIssued : List Exec := []      -- ghost: the creation pre-steps run so far (newest first); `k` = own results then
deriving Repr

/-- `original_prefix + f"r{run_times}"` if `run_times > 0` -/
def uidOf (pfx : String) (k : Nat) : String :=
  if k > 0 then pfx ++ retryInfix ++ toString k else pfx

/-- `len(node.shared_results)` for any copy of a fully bridged class -/
def sharedLen (cs : List Copy) : Nat := (cs.map (fun c => c.results.length)).sum

def sharedResults (cs : List Copy) (i : Nat) : List Result :=
  match cs[i]? with
  | none => []
  | some c => c.results ++ ((cs.eraseIdx i).map (·.results)).flatten

def updCopy (cs : List Copy) (i : Nat) (f : Copy → Copy) : List Copy :=
  match cs, i with
  | [], _ => []
  | c :: rest, 0 => f c :: rest
  | c :: rest, i + 1 => c :: updCopy rest i f

def unknownOf (name : String) : Result := { name := name, status := unknownStatus, time := none }

def lookupJob (job : List JobRes) (name uid : String) : Option JobRes :=
  job.find? (fun x => x.name == name && x.uid == uid)

/-- `test_result["status"] = "WARN"` on the looked-up (= first matching) record -/
def warnFirst (name uid : String) : List JobRes → List JobRes
  | [] => []
  | x :: xs =>
    if x.name == name && x.uid == uid then { x with status := warnStatus } :: xs
    else x :: warnFirst name uid xs

def arrive (job : List JobRes) (name uid : String) : Outcome → List JobRes
  | .reported st t _ => job ++ [{ name := name, uid := uid, status := st, time := t }]
  | .never => job

def Outcome.delay : Outcome → Nat
  | .reported _ _ d => d
  | .never => 0

/-- the largest `time_elapsed` of the PASS results of `node.results` (`default=duration`) -/
def maxAllowed (results : List Result) (dflt : Nat) : Nat :=
  match (results.filter (fun r => r.status == passStatus)).map (fun r => r.time.getD 0) with
  | [] => dflt
  | t :: ts => ts.foldl max t

/-- the status the duration rule leaves on a found record -/
def durationStatus (results : List Result) (x : JobRes) : String :=
  if results.isEmpty then x.status
  else if x.status == passStatus && durationFactorDen * x.time > durationFactorNum * maxAllowed results x.time
  then warnStatus else x.status

/-- result of the polling part of `run_test_node` -/
structure Settled where
  results : List Result
  job : List JobRes
  status : String                 -- `test_status` (lower case)
  found : Option JobRes           -- the record the lookup returned (before the duration rule)
deriving Repr

/-- record a found job result `x`: duration rule, append to `node.results`, remove the placeholder -/
def record (results : List Result) (job : List JobRes) (name uid : String) (x : JobRes) :
    Except Err Settled :=
  let st := durationStatus results x
  let job' := if st != x.status then warnFirst name uid job else job
  let results' := results ++ [{ name := name, status := st, time := some x.time }]
  if results'.contains (unknownOf name) then
    .ok { results := results'.erase (unknownOf name), job := job', status := lower st, found := some x }
  else .error .removeMissing

/-- everything of `run_test_node` after `await self.run_test_task(node)`; `results` = `node.results` -/
def settle (results : List Result) (job : List JobRes) (name uid : String) (o : Outcome) :
    Except Err Settled :=
  let job0 := if o.delay == 0 then arrive job name uid o else job
  match lookupJob job0 name uid with
  | some x =>
    -- found at the first lookup (own result, or a stale record with the same id)
    (record results job0 name uid x).map
      (fun s => if o.delay == 0 then s else { s with job := arrive s.job name uid o })
  | none =>
    let job1 := arrive job name uid o
    if 0 < o.delay && o.delay < statusTimeout then
      match lookupJob job1 name uid with
      | some x => record results job1 name uid x
      | none => .ok { results := results, job := job1, status := "error", found := none }
    else .ok { results := results, job := job1, status := "error", found := none }

/-- return value of `run_test_node` -/
def statusBool (st : String) : Bool := !(failingStatuses.contains st)

inductive Event where
  | start (i : Nat)                          -- `run_test_node(copy i)` up to `await run_test_task`
  | finish (j : Nat) (o : Outcome)           -- the j-th pending execution resumes and completes
  | replay (i : Nat) (prev : List Result)    -- `traverse_node`: previous results matching the bridged form
  | create (i : Nat) (o : Outcome)           -- `traverse_terminal_node` of object root copy i: pre-step, then
                                             --   the main execution is started (success) or the failure is recorded
deriving Repr

inductive Obs where
  | started (e : Exec)
  | finished (e : Exec) (o : Outcome) (found : Option JobRes) (status : String)
  | created (pre : Exec) (o : Outcome) (found : Option JobRes) (status : String) (main : Option Exec)
  | replayed (n : Nat)
  | noop
  | failed (e : Err)
deriving Repr

/-- the part of `run_test_node(copy i)` before the suspension: retry counter = number of shared results,
placeholder appended, execution pending -/
def beginExec (s : St) (i : Nat) (c : Copy) : St × Exec :=
  let k := sharedLen s.copies
  let e : Exec := { copy := i, k := k, name := c.name, uid := uidOf c.pfx k }
  ({ s with copies := updCopy s.copies i (fun c => { c with results := c.results ++ [unknownOf c.name] })
            pending := s.pending ++ [e], issued := e :: s.issued }, e)

/-- `run_test_node(copy i)` up to the suspension.  A copy belongs to one worker and a worker awaits the
execution it started, so a copy with an execution in flight cannot be started again: that event is not
enabled (this is an assumption on the environment, not on `run_test_node`, which would derive the
retry prefix from the temporarily modified `node.prefix`). -/
def start (s : St) (i : Nat) : St × Obs :=
  match s.copies[i]? with
  | none => (s, .noop)
  | some c =>
    if s.pending.any (fun e => e.copy == i) then (s, .noop) else
    let r := beginExec s i c
    (r.1, .started r.2)

/-- resumption of the j-th pending execution -/
def finish (s : St) (j : Nat) (o : Outcome) : St × Obs :=
  match s.pending[j]? with
  | none => (s, .noop)
  | some e =>
    match s.copies[e.copy]? with
    | none => (s, .noop)
    | some c =>
      match settle c.results s.job e.name e.uid o with
      | .error err => (s, .failed err)
      | .ok r =>
        ({ s with copies := updCopy s.copies e.copy (fun c => { c with results := r.results })
                  job := r.job, pending := s.pending.eraseIdx j }, .finished e o r.found r.status)

/-- `traverse_node`: `if len(test_node.results) == 0: test_node.results += previous_results` -/
def replayStep (s : St) (i : Nat) (prev : List Result) : St × Obs :=
  match s.copies[i]? with
  | none => (s, .noop)
  | some c =>
    if c.results.isEmpty then
      ({ s with copies := updCopy s.copies i (fun c => { c with results := c.results ++ prev }) },
       .replayed prev.length)
    else (s, .replayed 0)

/-- `traverse_terminal_node` BEFORE /repo commit 7ba7970 (kept for the regression witness only, not an
event of the machine): `pre_node.results = list(test_node.results)`; `run_test_node(pre_node)`; the pre-node
is private (not bridged) and dropped afterwards, only `job.result.tests` keeps its trace — a failed
pre-step left the root node's results unchanged. -/
def preStepOld (s : St) (i : Nat) (o : Outcome) : St × Obs :=
  match s.copies[i]? with
  | none => (s, .noop)
  | some c =>
    let uid := uidOf c.prePfx c.results.length
    let pe : Exec := { copy := i, k := c.results.length, name := c.preName, uid := uid }
    match settle (c.results ++ [unknownOf c.preName]) s.job c.preName uid o with
    | .error err => (s, .failed err)
    | .ok r => ({ s with job := r.job, preIssued := pe :: s.preIssued }, .created pe o r.found r.status none)

/-- `traverse_terminal_node(object root copy i)` as the traversal performs it (lines after the pre-node is
parsed): `pre_node.results = list(test_node.results)`; `status = await run_test_node(pre_node)` (the pre-node
is private, so its retry counter is the number of the root copy's OWN results and its prefix is `"0"`);
on failure `test_node.results += pre_node.results[len(test_node.results):]` and return; on success
`return await run_test_node(test_node)`, i.e. the main execution is started right away.  The pre-step is
taken as one event: while it is suspended only `job.result.tests` can change, by records of other
identifiers.  Like `start`, not enabled while the copy has an execution in flight. -/
def createStep (s : St) (i : Nat) (o : Outcome) : St × Obs :=
  match s.copies[i]? with
  | none => (s, .noop)
  | some c =>
    if s.pending.any (fun e => e.copy == i) then (s, .noop) else
    let uid := uidOf c.prePfx c.results.length
    let pe : Exec := { copy := i, k := c.results.length, name := c.preName, uid := uid }
    match settle (c.results ++ [unknownOf c.preName]) s.job c.preName uid o with
    | .error err => (s, .failed err)
    | .ok r =>
      let s1 : St := { s with job := r.job, preIssued := pe :: s.preIssued }
      if statusBool r.status then
        let b := beginExec s1 i c
        (b.1, .created pe o r.found r.status (some b.2))
      else
        ({ s1 with copies := updCopy s1.copies i
                     (fun c => { c with results := c.results ++ r.results.drop c.results.length }) },
         .created pe o r.found r.status none)

def step (s : St) : Event → St × Obs
  | .start i => start s i
  | .finish j o => finish s j o
  | .replay i prev => replayStep s i prev
  | .create i o => createStep s i o

/-- run a list of events, collecting the observations (oldest first) -/
def run (s : St) : List Event → St × List Obs
  | [] => (s, [])
  | e :: es =>
    let (s1, o) := step s e
    let (s2, os) := run s1 es
    (s2, o :: os)

/-- `execute : NodeState → Outcome → NodeState`: one uninterrupted `run_test_node` of copy `i` -/
def execute (s : St) (i : Nat) (o : Outcome) : St × List Obs :=
  run s [.start i, .finish s.pending.length o]

end I2N.Rules
