/-
E5 `graphparse`, part 1: the *extracted* dependency graph of `avocado_i2n/cartgraph/graph.py` (`TestGraph`) and the
verified well-formedness checker of property C06.

A `Graph` is what the harness reads off a real `TestGraph` after parsing (`harness/graphlib.py:extract`):
  * one `Node` per `TestNode` in `graph.nodes` (position = index), with `node.id` (= prefix-name, the identity),
    the worker the node belongs to (from its own name), the flags `is_flat()`, `is_shared_root()`,
    `params["object_root"]`, `len(cloned_nodes) > 0`, the `nets`/`vms` parameters, and per `TestObject` of
    `node.objects` its key (nets/vms/images), suffix, identity (`object.id`, variant specific) and the object
    typed parameters `get`, `get_state`, `set_state` (`TestObject.object_typed_params(node.params)`);
  * `setup`   : one `Edge` per (child, parent, object) of every `child._setup_nodes[parent]`;
  * `cleanup` : one `Edge` per (child, parent, object) of every `parent._cleanup_nodes[child]` — recorded by the
                *other* end of the dependency (`TestNode.descend_from_node` writes both);
  * `bridged`, `clones`, `regs` : `_bridged_nodes`, `_cloned_nodes`, identities of the four `EdgeRegister`s (C09).

Import-free on purpose: the compiled driver `drv_graph` runs exactly these definitions.
-/
namespace I2N.Graph

structure Obj where
  key      : String        -- "nets" | "vms" | "images"
  suffix   : String        -- `long_suffix`, e.g. net1, vm1, image1_vm1
  oid      : String        -- `TestObject.id` (nets: suffix only), identifies the object *variant*
  get      : String        -- restriction naming the required setup test(s); "" = no dependency
  getState : String        -- required state ("0root" = default / none)
  setState : String        -- provided state ("" = none)
deriving Repr, DecidableEq

structure Node where
  id          : String
  worker      : String     -- "" for flat nodes
  flat        : Bool
  sharedRoot  : Bool
  objectRoot  : String     -- `params["object_root"]` or ""
  cloneSource : Bool       -- `len(cloned_nodes) > 0`
  paramNets   : List String
  paramVms    : List String   -- sorted
  objs        : List Obj
  cls         : String := ""   -- bridging class: the node's name with the worker specific part removed (C09)
deriving Repr, DecidableEq

structure Edge where
  child  : Nat
  parent : Nat
  obj    : String
deriving Repr, DecidableEq

structure Graph where
  nodes   : List Node
  setup   : List Edge
  cleanup : List Edge
  bridged : List (Nat × Nat) := []
  clones  : List (Nat × Nat) := []
  regs    : List (List Nat)  := []      -- per node: ids of its four register objects
deriving Repr

def Graph.size (g : Graph) : Nat := g.nodes.length

/-- all (child, parent) pairs with a setup dependency -/
def Graph.isEdge (g : Graph) (c p : Nat) : Bool := g.setup.any (fun e => e.child == c && e.parent == p)

/-- `child.setup_nodes.keys()` (with repetitions, one per object) -/
def Graph.parents (g : Graph) (c : Nat) : List Nat := (g.setup.filter (fun e => e.child == c)).map (·.parent)

/-- the parents through which object `o` of node `c` is provided -/
def Graph.parentsVia (g : Graph) (c : Nat) (o : String) : List Nat :=
  (g.setup.filter (fun e => e.child == c && e.obj == o)).map (·.parent)

/-! ## The checker clauses (each a `Bool` function; soundness in `I2N/Lemmas/Graph.lean`) -/

/-- no two nodes with the same identity -/
def idsNodup : List String → Bool
  | [] => true
  | x :: xs => !xs.contains x && idsNodup xs

def Graph.checkIds (g : Graph) : Bool := idsNodup (g.nodes.map (·.id))

/-- every edge end is a node of the graph (an edge to a `TestNode` that is not in `graph.nodes` is exported with
an index ≥ size) and no node depends on itself (`TestNode.validate`: reflexive dependency) -/
def Graph.checkRange (g : Graph) : Bool :=
  g.setup.all (fun e => decide (e.child < g.size) && decide (e.parent < g.size) && e.child != e.parent) &&
  g.cleanup.all (fun e => decide (e.child < g.size) && decide (e.parent < g.size))

/-- every dependency is recorded on both of its ends -/
def Graph.checkSymmetric (g : Graph) : Bool :=
  g.setup.all (fun e => g.cleanup.contains e) && g.cleanup.all (fun e => g.setup.contains e)

/-! ### acyclicity through a topological rank -/

/-- one relaxation round: `rank c := 1 + max rank (parents c)` (0 without parents) -/
def Graph.relax (g : Graph) (rank : List Nat) : List Nat :=
  (List.range g.size).map (fun c => ((g.parents c).map (fun p => rank.getD p 0 + 1)).foldl max 0)

def Graph.relaxN (g : Graph) : Nat → List Nat → List Nat
  | 0, r => r
  | k + 1, r => g.relaxN k (g.relax r)

/-- the candidate rank: `size` relaxation rounds from all-zero (the longest setup path on an acyclic graph) -/
def Graph.rank (g : Graph) : List Nat := g.relaxN g.size (List.replicate g.size 0)

/-- the *checked* part: the rank strictly decreases along every setup edge.  Soundness needs nothing about how
`rank` was computed. -/
def Graph.rankOK (g : Graph) (rank : List Nat) : Bool :=
  g.setup.all (fun e => decide (rank.getD e.parent 0 < rank.getD e.child 0))

def Graph.checkAcyclic (g : Graph) : Bool := g.rankOK g.rank

/-! ### exactly one starting node -/

def Graph.roots (g : Graph) : List Nat := (List.range g.size).filter (fun i => (g.parents i).isEmpty)

/-- exactly one node without setup, and it is the shared root -/
def Graph.checkRoot (g : Graph) : Bool :=
  match g.roots with
  | [r] => (g.nodes[r]?.map (·.sharedRoot)).getD false &&
           (List.range g.size).all (fun i => i == r || !((g.nodes[i]?.map (·.sharedRoot)).getD false))
  | _ => false

/-! ### producers -/

def Node.obj? (n : Node) (oid : String) : Option Obj := n.objs.find? (fun o => o.oid == oid)

/-- `p` is an acceptable producer of the state object `o` of a node of worker `w` requires: same worker, has the
very same object variant, and provides exactly the required state — or is the object's creation node.  (A
required state "0root" is the parser's default for "whatever the one producer provides": `TestNode.validate`
exempts it, and so do we; the parent must still provide *a* state.) -/
def producerOK (w : String) (o : Obj) (p : Node) : Bool :=
  !p.flat && p.worker == w &&
  match p.obj? o.oid with
  | none => false
  | some po => po.setState != "" && (po.setState == o.getState || o.getState == "0root" || p.objectRoot == o.oid)

/-- for each object state a (runnable, composite) test requires there is exactly one parent producing it -/
def Graph.checkProducersOf (g : Graph) (c : Nat) (n : Node) : Bool :=
  n.flat || n.cloneSource ||
  n.objs.all (fun o =>
    o.get == "" ||
    match g.parentsVia c o.oid with
    | [p] => (g.nodes[p]?.map (producerOK n.worker o)).getD false
    | _ => false)

def allIdx {α : Type} (f : Nat → α → Bool) : Nat → List α → Bool
  | _, [] => true
  | i, x :: xs => f i x && allIdx f (i + 1) xs

def Graph.checkProducers (g : Graph) : Bool := allIdx g.checkProducersOf 0 g.nodes

/-- every setup edge to a composite parent goes through an object of the child which the parent has too and
provides a state for, within one worker (`TestNode.validate`: spurious objects, stateless dependency) -/
def Graph.checkEdgeObjects (g : Graph) : Bool :=
  g.setup.all (fun e =>
    match g.nodes[e.child]?, g.nodes[e.parent]? with
    | some c, some p =>
      p.flat || (!c.flat && c.worker == p.worker && (c.obj? e.obj).isSome &&
                 ((p.obj? e.obj).map (fun po => po.setState != "")).getD false)
    | _, _ => false)

/-! ### one net, the vms of the parameters -/

def insertSorted (x : String) : List String → List String
  | [] => [x]
  | y :: ys => if x < y then x :: y :: ys else y :: insertSorted x ys

def sortStrings (l : List String) : List String := l.foldr insertSorted []

def Node.nets (n : Node) : List String := (n.objs.filter (fun o => o.key == "nets")).map (·.suffix)
def Node.vms (n : Node) : List String := (n.objs.filter (fun o => o.key == "vms")).map (·.suffix)

/-- `TestNode.validate`: exactly one net, first among the objects, equal to the `nets` parameter; the vm objects
are exactly the `vms` parameter; the node's worker is that net -/
def Node.checkObjects (n : Node) : Bool :=
  n.flat ||
  (match n.nets with
   | [net] => n.paramNets == [net] && (n.objs.head?.map (·.key == "nets")).getD false
   | _ => false) &&
  sortStrings n.vms == n.paramVms

def Graph.checkObjects (g : Graph) : Bool := g.nodes.all Node.checkObjects

/-! ### clone sources -/

/-- the common guard of `default_run_decision`, `default_clean_decision` and `should_rerun`
(`elif self.is_flat(): return False` / `elif len(self.cloned_nodes) > 0: return False`) -/
def Node.mayRun (n : Node) : Bool := !n.flat && !n.cloneSource

/-- the `clones` relation and the `cloneSource` flag agree; clones are composite nodes of the source's worker -/
def Graph.checkClones (g : Graph) : Bool :=
  g.clones.all (fun sc =>
    match g.nodes[sc.1]?, g.nodes[sc.2]? with
    | some s, some c => s.cloneSource && !s.mayRun && !c.flat && c.worker == s.worker && sc.1 != sc.2
    | _, _ => false) &&
  allIdx (fun i n => !n.cloneSource || g.clones.any (fun sc => sc.1 == i)) 0 g.nodes

/-! ### bridging (C09): equivalent tests of different workers are linked symmetrically and share their registers -/

def Graph.regsOf (g : Graph) (i : Nat) : List Nat := (g.regs[i]?).getD []

def Graph.isBridged (g : Graph) (a b : Nat) : Bool := g.bridged.contains (a, b)

/-- every recorded bridge joins two different composite nodes of one class and of different workers, is recorded
on both ends, and the two ends reference the very same four register objects -/
def Graph.checkBridgePairs (g : Graph) : Bool :=
  g.bridged.all (fun ab =>
    match g.nodes[ab.1]?, g.nodes[ab.2]? with
    | some a, some b =>
      ab.1 != ab.2 && !a.flat && !b.flat && a.cls == b.cls && a.worker != b.worker &&
      g.isBridged ab.2 ab.1 && g.regsOf ab.1 == g.regsOf ab.2 && (g.regsOf ab.1).length == 4
    | _, _ => false)

/-- every two composite nodes of one class and of different workers are bridged (nobody is left out), and
registers are shared by nobody else: equal register objects imply equal class -/
def Graph.checkBridgeClasses (g : Graph) : Bool :=
  allIdx (fun i a => allIdx (fun j b =>
      i == j || a.flat || b.flat ||
      ((!(a.cls == b.cls && a.worker != b.worker) || g.isBridged i j) &&
       (!(g.regsOf i).any (fun r => (g.regsOf j).contains r) || a.cls == b.cls))) 0 g.nodes) 0 g.nodes

def Graph.checkBridges (g : Graph) : Bool := g.checkBridgePairs && g.checkBridgeClasses

/-! ### the checker -/

def Graph.wellFormed (g : Graph) : Bool :=
  g.checkIds && g.checkRange && g.checkSymmetric && g.checkAcyclic && g.checkRoot &&
  g.checkProducers && g.checkEdgeObjects && g.checkObjects && g.checkClones

/-! ## Witness producing variants for the failing direction (their outputs are checkable on their own) -/

def findDuplicateId : List String → Option String
  | [] => none
  | x :: xs => if xs.contains x then some x else findDuplicateId xs

def Graph.findAsymmetricEdge (g : Graph) : Option (String × Edge) :=
  match g.setup.find? (fun e => !g.cleanup.contains e) with
  | some e => some ("setup-only", e)
  | none => (g.cleanup.find? (fun e => !g.setup.contains e)).map (fun e => ("cleanup-only", e))

/-- depth-first search for a setup path `src → … → dst` (at least one edge), bounded by the number of nodes -/
def Graph.pathTo (g : Graph) (dst : Nat) : Nat → List Nat → Nat → Option (List Nat)
  | 0, _, _ => none
  | fuel + 1, seen, cur =>
    let ps := g.parents cur
    if ps.contains dst then some [cur, dst]
    else
      let rec go (l : List Nat) : Option (List Nat) :=
        match l with
        | [] => none
        | p :: rest =>
          if seen.contains p then go rest
          else match g.pathTo dst fuel (p :: seen) p with
            | some path => some (cur :: path)
            | none => go rest
      go ps

/-- `isCycle g c` : `c` is a closed walk along setup edges (first = last, every step an edge) -/
def Graph.isWalk (g : Graph) : List Nat → Bool
  | a :: b :: rest => g.isEdge a b && g.isWalk (b :: rest)
  | _ => true

def Graph.isCycle (g : Graph) (c : List Nat) : Bool :=
  decide (2 ≤ c.length) && c.head? == c.getLast? && g.isWalk c

def Graph.findCycle (g : Graph) : Option (List Nat) :=
  (List.range g.size).findSome? (fun n => g.pathTo n g.size [n] n)

/-- a node that is neither the unique root nor has any parent cannot exist; what can: several or no roots -/
def Graph.findRootProblem (g : Graph) : Option String :=
  match g.roots with
  | [r] => if (g.nodes[r]?.map (·.sharedRoot)).getD false then
             ((List.range g.size).find? (fun i => i != r && (g.nodes[i]?.map (·.sharedRoot)).getD false)).map
               (fun i => s!"second-shared-root {i}")
           else some s!"root-not-shared {r}"
  | [] => some "no-root"
  | rs => some ("several-roots " ++ " ".intercalate (rs.map toString))

def findIdx {α : Type} (f : Nat → α → Bool) : Nat → List α → Option Nat
  | _, [] => none
  | i, x :: xs => if f i x then some i else findIdx f (i + 1) xs

/-- is the producer clause violated for object `o` of node `c`? -/
def Graph.producerBad (g : Graph) (c : Nat) (n : Node) (o : Obj) : Bool :=
  !(o.get == "" ||
    match g.parentsVia c o.oid with
    | [p] => (g.nodes[p]?.map (producerOK n.worker o)).getD false
    | _ => false)

def mapIdx' {α β : Type} (f : Nat → α → β) : Nat → List α → List β
  | _, [] => []
  | i, x :: xs => f i x :: mapIdx' f (i + 1) xs

/-- every (child, object, observed parents) violating the producer clause -/
def Graph.findProducerMismatches (g : Graph) : List (Nat × String × List Nat) :=
  (mapIdx' (fun c n =>
    if n.flat || n.cloneSource then []
    else (n.objs.filter (g.producerBad c n)).map (fun o => (c, o.oid, g.parentsVia c o.oid))) 0 g.nodes).flatten

/-- every failing clause with its witness(es), as one canonical line; `ok` iff `wellFormed` -/
def Graph.diagnose (g : Graph) : String :=
  let msgs : List String :=
    (if !g.checkIds then ["ids " ++ (findDuplicateId (g.nodes.map (·.id))).getD "?"] else []) ++
    (if !g.checkRange then ["range"] else []) ++
    (if !g.checkSymmetric then
      [match g.findAsymmetricEdge with
       | some (k, e) => s!"symmetric {k} {e.child} {e.parent} {e.obj}"
       | none => "symmetric ?"] else []) ++
    (if !g.checkAcyclic then
      [match g.findCycle with
       | some c => "cycle " ++ " ".intercalate (c.map toString) ++ (if g.isCycle c then "" else " (unchecked)")
       | none => "cycle ?"] else []) ++
    (if !g.checkRoot then ["root " ++ (g.findRootProblem.getD "?")] else []) ++
    (if !g.checkProducers then
      (match g.findProducerMismatches with
       | [] => ["producer ?"]
       | l => l.map (fun (c, o, ps) => s!"producer {c} {o} [" ++ " ".intercalate (ps.map toString) ++ "]")) else []) ++
    (if !g.checkEdgeObjects then
      [match g.setup.find? (fun e => !({ g with setup := [e] }).checkEdgeObjects) with
       | some e => s!"edge-object {e.child} {e.parent} {e.obj}"
       | none => "edge-object ?"] else []) ++
    (if !g.checkObjects then
      [match findIdx (fun _ n => !n.checkObjects) 0 g.nodes with
       | some i => s!"objects {i}"
       | none => "objects ?"] else []) ++
    (if !g.checkClones then ["clones"] else [])
  if g.wellFormed then "ok" else "fail " ++ " ; ".intercalate msgs

end I2N.Graph
