/-
E4 `net`: model of `avocado_i2n/vmnet/netconfig.py` (`VMNetconfig`), `interface.py`, and of the
registry part of `network.py` (`VMNetwork.__init__`, `integrate_node`, `reattach_interface`).

Import-free on purpose: the compiled driver (`Driver/Net.lean`) runs exactly these definitions.

Conventions
  * an IPv4 address / netmask is a `Nat` (`< 2^32`), the dotted form is only parsed/printed by the driver;
  * Python object references become ids: interfaces are numbered in creation order (`vm1.nic1, vm1.nic2,
    vm2.nic1 …`), netconfigs are numbered in creation order.  The two object heaps are total functions
    `Nat → _` plus a counter (an id `≥` the counter is an object that does not exist yet);
  * Python `dict`s whose order or key collisions matter are association lists with Python semantics:
    assignment to an existing key replaces the value *in place*, a new key is appended
    (`VMNetwork.netconfigs : net_ip ↦ netconfig`, `VMNetconfig.interfaces : ip ↦ interface`,
    `VMNetconfig.range : offset ↦ taken`);
  * exceptions are `Except Err`.
-/
namespace I2N.Net

inductive Err where
  | indexError | keyError | valueError | testError | assertion
deriving Repr, DecidableEq, Inhabited

def Err.toString : Err → String
  | .indexError => "indexError" | .keyError => "keyError" | .valueError => "valueError"
  | .testError => "testError" | .assertion => "assertion"

/-! ### Pure IPv4 arithmetic -/

/-- number of IPv4 addresses -/
def ipSpace : Nat := 2 ^ 32

/-- `str(ipaddress.ip_interface("x/b").network.netmask)` as a number -/
def netmaskOfBits (b : Nat) : Nat := 2 ^ 32 - 2 ^ (32 - b)

/-- number of trailing zero bits among the lowest `w` bits of `m` (`w` if they are all zero):
    what `binary_str.rstrip("0")` removes from the `w`-character expansion -/
def tz : Nat → Nat → Nat
  | 0, _ => 0
  | w + 1, m => if m % 2 = 0 then tz w (m / 2) + 1 else 0

/-- `VMNetconfig.mask_bit` (getter): the four octets are expanded to a 32 character bit string,
    trailing `"0"`s are stripped and the remaining length is the prefix length. -/
def maskBit (m : Nat) : Nat := 32 - tz 32 m

/-- `VMNetconfig._get_network_ip(ip, bit)` = `ip_interface("ip/bit").network.network_address` -/
def networkIp (ip bits : Nat) : Nat := ip - ip % 2 ^ (32 - bits)

/-! ### Association lists with `dict` semantics -/

def alookup {α : Type} (k : Nat) : List (Nat × α) → Option α
  | [] => none
  | (k', v) :: r => if k' = k then some v else alookup k r

def hasKey {α : Type} (k : Nat) (l : List (Nat × α)) : Bool := l.any (fun p => p.1 == k)

/-- `d[k] = v` -/
def aset {α : Type} (k : Nat) (v : α) (l : List (Nat × α)) : List (Nat × α) :=
  if hasKey k l then l.map (fun p => if p.1 = k then (k, v) else p) else l ++ [(k, v)]

/-- `del d[k]` (presence is checked by the caller) -/
def adel {α : Type} (k : Nat) (l : List (Nat × α)) : List (Nat × α) := l.filter (fun p => p.1 != k)

/-! ### Objects -/

/-- `VMInterface` with the interface parameters the netconfig code reads
    (`ip`, `netmask`, `host`, `range = "lo-hi"`) and the `netconfig` reference. -/
structure Iface where
  ip : Nat
  netmask : Nat
  host : Option Nat      -- `params.get("host")`; `None` and `""` are both `none`
  lo : Nat
  hi : Nat
  nc : Option Nat        -- `interface.netconfig` (id of a netconfig object)
deriving Repr, Inhabited

/-- `VMNetconfig`, reduced to what the property is about -/
structure Netconfig where
  netIp : Nat
  netmask : Nat
  host : Option Nat
  range : List (Nat × Bool)     -- offset ↦ already handed out
  ifs : List (Nat × Nat)        -- ip ↦ interface id
deriving Repr, Inhabited

def Netconfig.bits (c : Netconfig) : Nat := maskBit c.netmask

/-- `VMNetwork`: `interfaces`, all netconfig objects ever created, and the `netconfigs` registry -/
structure Net where
  nIf : Nat
  iface : Nat → Iface
  nNc : Nat
  nc : Nat → Netconfig
  reg : List (Nat × Nat)        -- `self.netconfigs`: net_ip ↦ netconfig id
deriving Inhabited

def Net.setNc (s : Net) (n : Nat) (f : Netconfig → Netconfig) : Net :=
  { s with nc := fun m => if m = n then f (s.nc m) else s.nc m }

def Net.setIface (s : Net) (i : Nat) (f : Iface → Iface) : Net :=
  { s with iface := fun j => if j = i then f (s.iface j) else s.iface j }

/-! ### `VMNetconfig` -/

/-- `{i: False for i in range(lo, hi + 1)}` -/
def mkRange (lo hi : Nat) : List (Nat × Bool) := (List.range' lo (hi + 1 - lo)).map (fun o => (o, false))

/-- `VMNetconfig.from_interface` -/
def fromInterface (f : Iface) : Netconfig :=
  { netIp := networkIp f.ip (maskBit f.netmask), netmask := f.netmask, host := f.host,
    range := mkRange f.lo f.hi, ifs := [] }

/-- `VMNetconfig.has_interface` (`interfaces[ip] == interface` is object identity) -/
def hasInterface (c : Netconfig) (i : Nat) (f : Iface) : Bool := alookup f.ip c.ifs == some i

/-- `VMNetconfig.can_add_interface` -/
def canAdd (c : Netconfig) (i : Nat) (f : Iface) : Except Err Bool :=
  if hasInterface c i f then .error .indexError
  else if networkIp f.ip c.bits = c.netIp ∧ f.netmask ≠ c.netmask then .error .indexError
  else .ok (decide (networkIp f.ip c.bits = c.netIp))

/-- `min(self.range.keys())`, `0` for the empty range -/
def minOff : List (Nat × Bool) → Nat
  | [] => 0
  | (o, _) :: r => r.foldl (fun m p => min m p.1) o

def maxOff : List (Nat × Bool) → Nat
  | [] => 0
  | (o, _) :: r => r.foldl (fun m p => max m p.1) o

/-- `x in ip_interface("net_ip/mask_bit").network` -/
def inNet (c : Netconfig) (x : Nat) : Bool := networkIp x c.bits == networkIp c.netIp c.bits

/-- the interface loop of `VMNetconfig.validate` -/
def validateIfs (s : Net) (n : Nat) (c : Netconfig) : List (Nat × Nat) → Except Err Unit
  | [] => .ok ()
  | (_, i) :: r =>
    if (s.iface i).nc ≠ some n then .error .assertion
    else match alookup (s.iface i).ip c.ifs with
      | none => .error .keyError
      | some j =>
        if j ≠ i then .error .assertion
        else if !inNet c (s.iface i).ip then .error .testError
        else validateIfs s n c r

/-- `addresses["host"] not in own.network` (the host is only checked when it is defined and non-empty) -/
def hostOutside (c : Netconfig) : Bool :=
  match c.host with
  | some h => !inNet c h
  | none => false

/-- `VMNetconfig.validate` of netconfig `n` -/
def validate (s : Net) (n : Nat) : Except Err Unit :=
  let c := s.nc n
  let ipStart := c.netIp + minOff c.range
  let ipEnd := c.netIp + maxOff c.range
  if ipStart ≥ ipSpace ∨ ipEnd ≥ ipSpace then .error .valueError        -- AddressValueError
  else if hostOutside c then .error .testError
  else if !inNet c ipStart then .error .testError
  else if !inNet c ipEnd then .error .testError
  else validateIfs s n c c.ifs

/-- first free offset of the insertion-ordered range map, marked as taken -/
def allocRange : List (Nat × Bool) → Option (Nat × List (Nat × Bool))
  | [] => none
  | (o, t) :: r =>
    if t then (allocRange r).map (fun p => (p.1, (o, t) :: p.2)) else some (o, (o, true) :: r)

/-- `VMNetconfig.get_allocatable_address` -/
def allocate (c : Netconfig) : Except Err (Nat × Netconfig) :=
  match allocRange c.range with
  | none => .error .indexError
  | some (o, r) =>
    if c.netIp + o ≥ ipSpace then .error .valueError else .ok (c.netIp + o, { c with range := r })

/-- `allocate` repeated `k` times: the addresses handed out and the final netconfig
    (stops at the first error) -/
def allocateN (c : Netconfig) : Nat → List Nat × Netconfig
  | 0 => ([], c)
  | k + 1 =>
    match allocate c with
    | .error _ => ([], c)
    | .ok (a, c') => let r := allocateN c' k; (a :: r.1, r.2)

/-- `VMNetconfig.translate_address(ip, nat_ip)` -/
def translate (c : Netconfig) (ip nat : Nat) : Except Err Nat :=
  let target := networkIp nat c.bits
  if ip + target < c.netIp ∨ ip + target - c.netIp ≥ ipSpace then .error .valueError
  else .ok (ip + target - c.netIp)

/-- `VMNetconfig.add_interface` of interface `i` to netconfig `n` -/
def addInterface (s : Net) (n i : Nat) : Except Err Net :=
  let ip := (s.iface i).ip
  let s1 := (s.setNc n (fun c => { c with ifs := aset ip i c.ifs })).setIface i (fun f => { f with nc := some n })
  match validate s1 n with
  | .error e => .error e
  | .ok () => .ok s1

/-! ### `VMNetwork` -/

/-- the `for netconfig in self.netconfigs.values(): if netconfig.can_add_interface(interface)` loop -/
def findNc (s : Net) (i : Nat) : List (Nat × Nat) → Except Err (Option Nat)
  | [] => .ok none
  | (_, n) :: r =>
    match canAdd (s.nc n) i (s.iface i) with
    | .error e => .error e
    | .ok true => .ok (some n)
    | .ok false => findNc s i r

/-- the body of the second loop of `integrate_node` for one interface -/
def place (s : Net) (i : Nat) : Except Err Net :=
  match findNc s i s.reg with
  | .error e => .error e
  | .ok (some n) => addInterface s n i
  | .ok none =>
    let n := s.nNc
    let c := fromInterface (s.iface i)
    let s1 : Net := { s with nNc := n + 1, nc := fun m => if m = n then c else s.nc m }
    match addInterface s1 n i with
    | .error e => .error e
    | .ok s2 => .ok { s2 with reg := aset c.netIp n s2.reg }

def placeAll (s : Net) : List Nat → Except Err Net
  | [] => .ok s
  | i :: r => match place s i with
    | .error e => .error e
    | .ok s' => placeAll s' r

/-- all interface objects, not yet attached.  (`integrate_node` creates the interfaces of a vm just
    before attaching them; interfaces of later vms are not read before, so creating all first is
    unobservable.) -/
def init (inp : List Iface) : Net :=
  { nIf := inp.length, iface := fun i => { inp.getD i default with nc := none }, nNc := 0,
    nc := fun _ => default, reg := [] }

/-- `integrate_node` for a vm whose interfaces have ids `first … first+count-1` -/
def integrateNode (s : Net) (first count : Nat) : Except Err Net := placeAll s (List.range' first count)

/-- `VMNetwork.__init__`: every vm in order, every nic in order -/
def build (inp : List Iface) : Except Err Net := placeAll (init inp) (List.range inp.length)

/-- `VMNetwork.reattach_interface` with the interfaces already looked up:
    `c` = client interface, `r` = reference (server) interface, `p` = proxy interface of the server
    (`none` for `proxy_nic = ""`; `proxy_nic = server_nic` also means none). -/
def reattach (s : Net) (c r : Nat) (p : Option Nat) : Except Err Net :=
  let p := if p = some r then none else p
  match (s.iface r).nc, (s.iface c).nc with
  | some tn, some on =>
    let ip := (s.iface c).ip
    -- del interface.netconfig.interfaces[interface.ip]
    if !hasKey ip (s.nc on).ifs then .error .keyError else
    let s1 := s.setNc on (fun k => { k with ifs := adel ip k.ifs })
    -- interface.ip = netconfig.get_allocatable_address()
    match allocate (s1.nc tn) with
    | .error e => .error e
    | .ok (a, k') =>
      let s2 := (s1.setNc tn (fun _ => k')).setIface c (fun f => { f with ip := a })
      -- netconfig.add_interface(interface)
      match addInterface s2 tn c with
      | .error e => .error e
      | .ok s3 =>
        match p with
        | none => .ok s3
        | some pi =>
          -- del netconfig.interfaces[interface.ip]; ref_interface.ip = proxy_interface.ip
          let s4 := s3.setNc tn (fun k => { k with ifs := adel a k.ifs })
          let s5 := s4.setIface r (fun f => { f with ip := (s4.iface pi).ip })
          -- interface.ip = proxy_interface.netconfig.get_allocatable_address()
          match (s5.iface pi).nc with
          | none => .error .assertion
          | some pn =>
            match allocate (s5.nc pn) with
            | .error e => .error e
            | .ok (a2, k2) =>
              -- interface.netconfig = proxy_interface.netconfig
              .ok ((s5.setNc pn (fun _ => k2)).setIface c (fun f => { f with ip := a2, nc := some pn }))
  | _, _ => .error .assertion

/-- direct `netconfig.get_allocatable_address()` on netconfig object `n` -/
def allocAt (s : Net) (n : Nat) : Except Err (Nat × Net) :=
  match allocate (s.nc n) with
  | .error e => .error e
  | .ok (a, k) => .ok (a, s.setNc n (fun _ => k))

end I2N.Net
