import I2N.Model.Trav
/-
E6: the worker loop (`traverse_object_trees`), `traverse_node`, `reverse_node`, `traverse_terminal_node`
and `run_test_node`, as a resumable state machine.  A worker runs atomically between two real
suspensions (test execution, bounce sleep, result-wait sleep); `resume` runs worker `w` from its
current suspension point to the next one and returns the events emitted on the way.
-/
namespace I2N.Trav

def uidOf (pfx : String) (k : Nat) : String := if k > 0 then pfx ++ "r" ++ toString k else pfx

/-- what `resume` was given: the outcome of the awaited test (`none` = never reported) -/
structure Outcome where
  status : Option String
  dur : Nat := 0
deriving Repr

inductive Flow
  | cont          -- iteration finished without suspension
  | suspend
  | exit
  | raise (what : String)
deriving Repr

abbrev Step := State × List Event × Flow

def clsName (g : Graph) (n : Nat) (phase : Phase) : String :=
  (if phase == .pre then "pre:" else "") ++ toString (g.node n).cls

/-- first half of `run_test_node`: uid, UNKNOWN placeholder, start of the task (suspension) -/
def startTest (g : Graph) (s : State) (n w : Nat) (phase : Phase) (dir : Dir) : Step :=
  let wid := (g.worker w).id
  let tag := s.nextTag
  if phase == .pre then
    let wd := s.wd w
    let k := wd.preResults.length
    let uid := uidOf "0" k
    let ph : Result := { name := wd.preName, status := "UNKNOWN", uid := "", tag := tag }
    let s := { s with nextTag := tag + 1 }
    let s := s.setWd w (fun d => { d with preResults := d.preResults ++ [ph], pc := .test n phase dir uid tag 0 })
    let unknown := ((s.wd w).preResults.filter (·.status == "UNKNOWN")).length
    (s, [Event.start wid (clsName g n phase) uid (s.nd n).getLoc unknown], .suspend)
  else
    let k := (sharedResults g s n).length
    let uid := uidOf (g.node n).pfx k
    let ph : Result := { name := (g.node n).name, status := "UNKNOWN", uid := "", tag := tag }
    let s := { s with nextTag := tag + 1 }
    let s := s.setNd n (fun d => { d with results := d.results ++ [ph] })
    let s := s.setWd w (fun d => { d with pc := .test n phase dir uid tag 0 })
    let unknown := (((s.nd n).results).filter (·.status == "UNKNOWN")).length
    (s, [Event.start wid (clsName g n phase) uid (s.nd n).getLoc unknown], .suspend)

/-- produce-on-PASS (DESIGN.md A.5): the set states of a passed test appear in the worker's own pool -/
def produce (g : Graph) (s : State) (n w : Nat) : State :=
  let wid := (g.worker (g.netOf n w)).id
  let own := storeGet s.store wid
  let add := (g.node n).sets.filter (fun x => !own.contains x)
  { s with store := storeSet s.store wid (own ++ add) }

/-- end of `traverse_node` (after the optional run) -/
def finishTraverse (s : State) (n w : Nat) : State :=
  s.setNd n (fun d => { d with finished := some w, started := none })

/-- `reverse_node` -/
def reverseNode (g : Graph) (s : State) (n w : Nat) : Except String (State × List Event) :=
  if isOccupied g s n w then .ok (s, []) else
  let s := s.setNd n (fun d => { d with started := some w })
  let nd := g.node n
  let dec : Except String Bool := if nd.sharedRoot then cleanDecision g s n w else cleanDecision g s n w
  match dec with
  | .error e => .error e
  | .ok clean =>
    let (s, evs) := if clean && !nd.sets.isEmpty then syncStates g s n w none else (s, [])
    .ok (s.setNd n (fun d => { d with started := none }), evs)

def popPath (s : State) (w : Nat) : State := s.setWd w (fun d => { d with path := d.path.dropLast })
def pushPath (s : State) (w m : Nat) : State := s.setWd w (fun d => { d with path := d.path ++ [m] })

/-- the rest of the loop body after `traverse_node(next)` returned, for the two directions -/
def afterTraverse (g : Graph) (s : State) (w next prev : Nat) (dir : Dir) : Step :=
  match runDecision g s next w with
  | .error e => (s, [], .raise e)
  | .ok (run, s, evs) =>
    match dir with
    | .up =>
      let s := if !run then dropParent g s prev next w else s
      (popPath s w, evs, .cont)
    | .down =>
      if run then (popPath s w, evs, .cont) else
      if isCleanupReady g s next w then
        -- postpone the cleanup of a composite node while unexpanded tests remain (it might get new children)
        if !(g.node next).flat && (s.wd w).unexplored then (s.setWd w (fun d => { d with path := [g.root] }), evs, .cont) else
        let s := (g.node next).setup.foldl (fun s (p, _) => dropChild g s p next w) s
        match reverseNode g s next w with
        | .error e => (s, evs, .raise e)
        | .ok (s, evs2) => (popPath s w, evs ++ evs2, .cont)
      else
        match pickChild g s next w with
        | none => (s, evs, .raise "RuntimeError")
        | some (c, s) => (pushPath s w c, evs, .cont)

/-- `traverse_node` up to its first suspension (or to its end when nothing is run) followed by the
rest of the loop body -/
def traverseNode (g : Graph) (s : State) (w next prev : Nat) (dir : Dir) : Step :=
  if isOccupied g s next w then afterTraverse g s w next prev dir else
  let s := s.setNd next (fun d => { d with started := some w })
  let s := pullLocations g s next
  match runDecision g s next w with
  | .error e => (s, [], .raise e)
  | .ok (run, s, evs) =>
    if run then
      if (g.node next).objectRoot then
        -- traverse_terminal_node: the creation pre-step runs on a copy of the node's results
        let s := s.setWd w (fun d => { d with preResults := (s.nd next).results,
                                               preName := "all.internal.stateless.noop.vms." ++
                                                 " ".intercalate (g.node next).objs ++ ".nets." ++
                                                 (g.worker w).swarm ++ "." ++ ((g.worker w).id.splitOn ".").getLast! })
        let (s, evs2, f) := startTest g s next w .pre dir
        (s, evs ++ evs2, f)
      else
        let (s, evs2, f) := startTest g s next w .plain dir
        (s, evs ++ evs2, f)
    else
      let (s, evs2, f) := afterTraverse g (finishTraverse s next w) w next prev dir
      (s, evs ++ evs2, f)

/-- one iteration of the `while` loop of `traverse_object_trees` -/
def iter (g : Graph) (s : State) (w : Nat) : Step :=
  let wid := (g.worker w).id
  let wd := s.wd w
  if isCleanupReady g s g.root w then
    if wd.path == [g.root] then (s.setWd w (fun d => { d with pc := .done, path := [] }), [Event.exit wid], .exit)
    else (s, [], .raise "AssertionError")
  else
  match wd.path.getLast? with
  | none => (s, [], .raise "IndexError")
  | some next =>
    if wd.path.length == 1 then
      match pickChild g s next w with
      | none => (s, [], .raise "RuntimeError")
      | some (c, s) => (pushPath s w c, [], .cont)
    else
    let prev := wd.path.getD (wd.path.length - 2) 0
    if isOccupied g s next w then
      let nd := g.node next
      let mt : Int := max (nd.maxTries.getD 1) 1        -- `max(max_tries, 1)`: max_tries=0 still waits one timeout
      let dur : Int := nd.timeout * mt                 -- seconds
      let q : Nat := max (dur.toNat / 10) 10           -- hundredths: round(max(dur/1000, 0.1), 2)
      let qf : Float := Float.ofNat q / 100.0          -- the double Python's round(…, 2) yields
      let s :=
        if wd.occAt.contains next then
          let s := if wd.occWait > Float.ofInt dur then s.setNd next (fun d => { d with bump := d.bump + 1 }) else s
          s.setWd w (fun d => { d with occWait := d.occWait + qf })
        else s.setWd w (fun d => { d with occWait := 0.0 })
      let s := s.setWd w (fun d => { d with occAt := if d.occAt.contains next then d.occAt else d.occAt ++ [next],
                                            path := [g.root], pc := .bounce })
      (s, [Event.sleep wid q], .suspend)
    else
    if ((g.node next).cleanup.map (·.1)).contains prev then
      if isSetupReady g s next w then traverseNode g s w next prev .up
      else match pickParent g s next w with
        | none => (s, [], .raise "RuntimeError")
        | some (p, s) => (pushPath s w p, [], .cont)
    else if ((g.node next).setup.map (·.1)).contains prev then
      if !isSetupReady g s next w then
        match pickParent g s next w with
        | none => (s, [], .raise "RuntimeError")
        | some (p, s) => (pushPath s w p, [], .cont)
      else traverseNode g s w next prev .down
    else (s, [], .raise "AssertionError")

/-- one iteration including the lazy expansion step (on pre-parsed graphs `prepare` only records that no flat node is
unexplored and `vis g s = g`) -/
def iterL (g : Graph) (s : State) (w : Nat) : Step :=
  if isCleanupReady (vis g s) s g.root w || (s.wd w).path.length ≤ 1 then iter (vis g s) s w
  else
    let s1 := prepare g s w
    iter (vis g s1) s1 w

/-- run loop iterations until the next suspension (fuel bounds the number of iterations in the driver
only; the theorems are about single steps and arbitrary sequences of steps) -/
def runLoop (g : Graph) (w : Nat) : Nat → State → List Event → State × List Event
  | 0, s, evs => (s, evs ++ [Event.raise (g.worker w).id "fuel"])
  | fuel + 1, s, evs =>
    let s := s.setWd w (fun d => { d with pc := .loop })
    match iterL g s w with
    | (s, e, .cont) => runLoop g w fuel s (evs ++ e)
    | (s, e, .suspend) => (s, evs ++ e)
    | (s, e, .exit) => (s, evs ++ e)
    | (s, e, .raise what) =>
      (s.setWd w (fun d => { d with pc := .failed }), evs ++ e ++ [Event.raise (g.worker w).id what])

/-- second half of `run_test_node` after the task returned, then the continuation of the loop -/
def resumeTest (g : Graph) (s : State) (w n : Nat) (phase : Phase) (dir : Dir) (uid : String) (tag wait : Nat)
    (out : Outcome) (fuel : Nat) : State × List Event :=
  let wid := (g.worker w).id
  let name := if phase == .pre then (s.wd w).preName else (g.node n).name
  -- the stub reports the result (if any) when the task ends; afterwards the result is looked up by (name, uid)
  let (s, evs) :=
    if wait == 0 then
      match out.status with
      | some st =>
        let s := { s with jobResults := s.jobResults ++ [(name, uid, st, out.dur)] }
        let s := if (st == "PASS" || st == "WARN") && phase != .pre then produce g s n w else s
        (s, [Event.finish wid (clsName g n phase) uid st])
      | none => (s, [Event.finish wid (clsName g n phase) uid "NONE"])
    else (s, [])
  match s.jobResults.find? (fun r => r.1 == name && r.2.1 == uid) with
  | some (_, _, st0, dur) =>
    -- found: a PASS slower than 1.25 x the slowest earlier PASS of this copy becomes WARN (also in the job result)
    let prior := if phase == .pre then (s.wd w).preResults else (s.nd n).results
    let maxAllowed := ((prior.filter (·.status == "PASS")).map (·.dur)).foldl max 0
    let maxAllowed := if (prior.filter (·.status == "PASS")).isEmpty then dur else maxAllowed
    let st := if st0 == "PASS" && 4 * dur > 5 * maxAllowed then "WARN" else st0
    let s := if st != st0 then
        { s with jobResults := s.jobResults.map (fun r => if r.1 == name && r.2.1 == uid then (r.1, r.2.1, st, r.2.2.2) else r) }
      else s
    -- the result replaces the placeholder
    let res : Result := { name := name, status := st, uid := uid, dur := dur }
    let s :=
      if phase == .pre then
        s.setWd w (fun d => { d with preResults := (d.preResults ++ [res]).filter (fun r => !(r.status == "UNKNOWN" && r.tag == tag)) })
      else
        s.setNd n (fun d => { d with results := (d.results ++ [res]).filter (fun r => !(r.status == "UNKNOWN" && r.tag == tag)) })
    let ok := !(lower st == "error" || lower st == "fail")
    continueAfter s ok evs
  | none =>
    if wait + 1 < 10 then
      (s.setWd w (fun d => { d with pc := .test n phase dir uid tag (wait + 1) }), evs ++ [Event.sleep wid 3000])
    else if wait + 1 == 10 then
      -- the tenth miss still sleeps; the loop then ends with the default ERROR
      (s.setWd w (fun d => { d with pc := .test n phase dir uid tag (wait + 1) }), evs ++ [Event.sleep wid 3000])
    else continueAfter s false evs
where
  continueAfter (s : State) (ok : Bool) (evs : List Event) : State × List Event :=
    let path := (s.wd w).path
    let prev := path.getD (path.length - 2) 0
    if phase == .pre && ok then
      let (s, e2, _) := startTest g s n w .main dir
      (s, evs ++ e2)
    else
      -- a failed creation pre-step is accounted to the object root (its new results are appended)
      let s := if phase == .pre then
          s.setNd n (fun d => { d with results := d.results ++ (s.wd w).preResults.drop d.results.length })
        else s
      let s := finishTraverse s n w
      match afterTraverse (vis g s) s w n prev dir with
      | (s, e2, .raise what) =>
        (s.setWd w (fun d => { d with pc := .failed }), evs ++ e2 ++ [Event.raise (g.worker w).id what])
      | (s, e2, _) => runLoop g w fuel s (evs ++ e2)

def resume (g : Graph) (s : State) (w : Nat) (out : Outcome) (fuel : Nat := 100000) : State × List Event :=
  match (s.wd w).pc with
  | .loop => runLoop g w fuel s []
  | .bounce => runLoop g w fuel s []
  | .test n phase dir uid tag wait => resumeTest g s w n phase dir uid tag wait out fuel
  | .done => (s, [])
  | .failed => (s, [])

def initState (g : Graph) (ncls : Nat) (store : List (String × List (String × String))) (hidden : List Nat := []) : State :=
  { hidden := hidden,
    nodes := g.nodes.map (fun _ => {}),
    regs := (List.range ncls).map (fun _ => {}),
    workers := g.workers.map (fun _ => { path := [g.root] }),
    store := store }

end I2N.Trav
