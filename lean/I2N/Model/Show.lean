/-
E3 `show`: model of the vm-level state listing of avocado-i2n (property C17).

  * `avocado_i2n/states/qcow2.py`   `QCOW2Backend.show`       → `qcowShow`  (`parseOn` / `parseOff`)
                                     `QEMU_OFF_STATES_REGEX`   → `matchAt offBody`
                                     `QEMU_ON_STATES_REGEX`    → `matchAt onBody`
                                     `re.findall(pattern, dump)` with `re.MULTILINE` → `scan`
                                     `QCOW2VTBackend.show`     → `vtShow` (over lists), `vtShowDumps`
                                     `QCOW2ExtBackend._show`   → `extShow`
  * `avocado_i2n/states/ramfile.py` `RamfileBackend._show`    → `ramShow`

Import-free on purpose: the driver (`Driver/Show.lean`) runs exactly these definitions.

All text is `List Char` (names, file names, listings); the driver converts from/to `String`.
The character classes are the ASCII part of Python's `\d`, `\s`, `\w` (str patterns); non-ASCII
input is outside the model (trusted base: qemu-img prints ASCII).
-/
namespace I2N.Show

abbrev Name := List Char

/-! ## Part A — combining the per-image state lists of a vm -/

/-- body of the loop of `QCOW2VTBackend.show` (after commit 8bdd936):
`states = list(image_states) if states is None else [s for s in states if s in image_states]` -/
def vtStep (acc : Option (List Name)) (img : List Name) : Option (List Name) :=
  match acc with
  | none => some img
  | some st => some (st.filter (fun s => img.contains s))

/-- `QCOW2VTBackend.show` given the per-image results of `super().show`:
`states = None; for …: …; return states if states is not None else []` -/
def vtShow (imgs : List (List Name)) : List Name :=
  match imgs.foldl vtStep none with
  | some st => st
  | none => []

/-- strip a literal suffix: `x.endswith(suf)` and then `x[:-len(suf)]` -/
def stripSuffix (suf : List Char) (x : List Char) : Option (List Char) :=
  if suf.isSuffixOf x then some (x.take (x.length - suf.length)) else none

/-- `".state"` as in `snapshot.endswith(".state")` / `snapshot[:-6]` -/
def stateSuffix : List Char := ['.', 's', 't', 'a', 't', 'e']
/-- `".qcow2"` as in `snapshot.endswith(".qcow2")` / `snapshot[:-6]` -/
def qcow2Suffix : List Char := ['.', 'q', 'c', 'o', 'w', '2']

/-- `QCOW2ExtBackend._show` given `os.listdir(image_dir)` (the directory exists) -/
def extShow (files : List (List Char)) : List Name := files.filterMap (stripSuffix qcow2Suffix)

/-- body of the loop of `RamfileBackend._show`: `set(x)` / `acc.intersection(x)`; a Python set is
modelled by a list of which only membership is ever observed -/
def ramStep (acc : Option (List Name)) (img : List Name) : Option (List Name) :=
  match acc with
  | none => some img
  | some st => some (st.filter (fun s => img.contains s))

/-- `images_states` after the loop (`None` → `set()`) -/
def ramImagesStates (imgs : List (List Name)) : List Name :=
  match imgs.foldl ramStep none with
  | some st => st
  | none => []

/-- `RamfileBackend._show` given `os.listdir(vm_dir)` and the per-image results of
`image_state_backend.show`; result in `os.listdir` order -/
def ramShow (files : List (List Char)) (imgs : List (List Name)) : List Name :=
  (files.filterMap (stripSuffix stateSuffix)).filter (fun s => (ramImagesStates imgs).contains s)

/-! ### The defective combination before commit 8bdd936 (F1) — kept as the regression witness.
`states = set(); for …: if len(states) == 0: states = image_states else: states = states.intersect(image_states)`
(`image_states` is a `list`: no attribute `intersect`). -/
inductive Err | attributeError
deriving Repr, DecidableEq

def oldStep (acc : Except Err (List Name)) (img : List Name) : Except Err (List Name) :=
  match acc with
  | .error e => .error e
  | .ok st => if st.isEmpty then .ok img else .error .attributeError

def oldShow (imgs : List (List Name)) : Except Err (List Name) := imgs.foldl oldStep (.ok [])

/-! ## Part B — the on/off regexes on `qemu-img snapshot -l` listings -/

/-- the regex sources the recognisers below were written for (compared with the strings extracted
from /repo on every run: `I2N.Props.C17.off_regex_pinned`, `on_regex_pinned`) -/
def offRegexFor : String := "^\\d+\\s+([\\w\\.-]+)\\s*(0 B)\\s+\\d{4}-\\d\\d-\\d\\d"
def onRegexFor : String := "^\\d+\\s+([\\w\\.-]+)\\s*(?!0 B)(\\d+e?[\\-\\+]?[\\.\\d]* \\w+)\\s+\\d{4}-\\d\\d-\\d\\d"
/-- flags both patterns are compiled with -/
def regexFlagsFor : String := "re.MULTILINE"

/-- `\d` (ASCII) -/
def isDigit (c : Char) : Bool := decide (48 ≤ c.toNat) && decide (c.toNat ≤ 57)
/-- `\s` (ASCII): space, `\t \n \v \f \r`, and the separators 0x1c–0x1f -/
def isSpace (c : Char) : Bool :=
  decide (c.toNat = 32) || (decide (9 ≤ c.toNat) && decide (c.toNat ≤ 13))
    || (decide (28 ≤ c.toNat) && decide (c.toNat ≤ 31))
/-- `\w` (ASCII) -/
def isWord (c : Char) : Bool :=
  isDigit c || (decide (65 ≤ c.toNat) && decide (c.toNat ≤ 90))
    || (decide (97 ≤ c.toNat) && decide (c.toNat ≤ 122)) || decide (c.toNat = 95)
/-- `[\w\.-]` -/
def isTagCh (c : Char) : Bool := isWord c || decide (c.toNat = 46) || decide (c.toNat = 45)
/-- `[\.\d]` -/
def isFracCh (c : Char) : Bool := isDigit c || decide (c.toNat = 46)
/-- `[\-\+]` -/
def isSign (c : Char) : Bool := decide (c.toNat = 45) || decide (c.toNat = 43)
/-- `e` -/
def isE (c : Char) : Bool := decide (c.toNat = 101)
def isNl (c : Char) : Bool := decide (c.toNat = 10)

/-- match a literal prefix, return the rest -/
def lit : List Char → List Char → Option (List Char)
  | [], s => some s
  | _ :: _, [] => none
  | c :: cs, d :: s => if c = d then lit cs s else none

/-- `x?` for a one-character class (greedy; giving the character back never helps in the two
patterns because the next item cannot match it) -/
def optCh (p : Char → Bool) : List Char → List Char
  | [] => []
  | c :: s => if p c then s else c :: s

def zeroB : List Char := ['0', ' ', 'B']

/-- one character of a class -/
def one (p : Char → Bool) : List Char → Option (List Char)
  | [] => none
  | c :: s => if p c then some s else none

def isDash (c : Char) : Bool := decide (c.toNat = 45)

/-- `\d{4}-\d\d-\d\d` — returns what follows the date -/
def dateAt (s : List Char) : Option (List Char) :=
  (one isDigit s).bind fun s => (one isDigit s).bind fun s => (one isDigit s).bind fun s =>
  (one isDigit s).bind fun s => (one isDash s).bind fun s => (one isDigit s).bind fun s =>
  (one isDigit s).bind fun s => (one isDash s).bind fun s => (one isDigit s).bind fun s => one isDigit s

/-- `\s+\d{4}-\d\d-\d\d` (`\s+` is maximal: a date starts with a digit) -/
def dateAfterWs (s : List Char) : Option (List Char) :=
  if (s.takeWhile isSpace).isEmpty then none else dateAt (s.dropWhile isSpace)

/-- position after `\d+e?[\-\+]?[\.\d]*` once `\d+` matched (maximal munch is exact here: every item is
followed by an item that cannot start with a character the item itself accepts, or giving
characters back leads to the same end position) -/
def numEnd (s : List Char) : List Char :=
  (optCh isSign (optCh isE (s.dropWhile isDigit))).dropWhile isFracCh

/-- `\w+` — returns what follows -/
def wordThen (s : List Char) : Option (List Char) :=
  if (s.takeWhile isWord).isEmpty then none else some (s.dropWhile isWord)

/-- `\d+e?[\-\+]?[\.\d]* \w+` — returns what follows the unit -/
def sizeTok (s : List Char) : Option (List Char) :=
  if (s.takeWhile isDigit).isEmpty then none else
  match numEnd s with
  | sp :: s5 => if sp.toNat = 32 then wordThen s5 else none
  | [] => none

/-- what follows the tag in the off pattern: `(0 B)\s+\d{4}-\d\d-\d\d` -/
def offBody (p : List Char) : Option (List Char) := (lit zeroB p).bind dateAfterWs

/-- what follows the tag in the on pattern: `(?!0 B)(\d+e?[\-\+]?[\.\d]* \w+)\s+\d{4}-\d\d-\d\d` -/
def onBody (p : List Char) : Option (List Char) :=
  if (lit zeroB p).isSome then none else (sizeTok p).bind dateAfterWs

/-- all ways to cut a greedy run `t` into a non-empty proper prefix and the non-empty remainder,
longest prefix first (the order in which a backtracking matcher gives characters back) -/
def properSplits : List Char → List (List Char × List Char)
  | [] => []
  | c :: cs =>
    (properSplits cs).map (fun ab => (c :: ab.1, ab.2)) ++ (if cs.isEmpty then [] else [([c], cs)])

/-- candidates (tag, position where the body has to match) in backtracking order: the whole run
followed by `\s*` (which must be maximal: both bodies start with a digit), then shorter tags with
an empty `\s*` -/
def tagAlts (t s3 : List Char) : List (Name × List Char) :=
  (t, s3.dropWhile isSpace) :: (properSplits t).map (fun ab => (ab.1, ab.2 ++ s3))

/-- one match attempt of `^\d+\s+([\w\.-]+)\s*<body>` at a line start: the captured tag and the
text after the match -/
def matchAt (body : List Char → Option (List Char)) (s : List Char) : Option (Name × List Char) :=
  if (s.takeWhile isDigit).isEmpty then none else
  let s1 := s.dropWhile isDigit
  if (s1.takeWhile isSpace).isEmpty then none else
  let s2 := s1.dropWhile isSpace
  let t := s2.takeWhile isTagCh
  if t.isEmpty then none else
  (tagAlts t (s2.dropWhile isTagCh)).findSome? (fun a => (body a.2).map (fun r => (a.1, r)))

/-- `re.findall` with `re.MULTILINE` for a pattern starting with `^`: match attempts happen at
line starts only (start of text or after `\n`), a successful match is skipped over.
`skip` = characters of the current match still to be skipped, `atStart` = the previous character
was `\n` (or there is none). -/
def scan (m : List Char → Option (Name × List Char)) : List Char → Nat → Bool → List Name
  | [], _, _ => []
  | c :: cs, skip + 1, _ => scan m cs skip (isNl c)
  | c :: cs, 0, false => scan m cs 0 (isNl c)
  | c :: cs, 0, true =>
    match m (c :: cs) with
    | some (tag, rest) => tag :: scan m cs (cs.length - rest.length) (isNl c)
    | none => scan m cs 0 (isNl c)

/-- `re.findall(QEMU_OFF_STATES_REGEX, dump)` projected on group 1 -/
def parseOff (dump : List Char) : List Name := scan (matchAt offBody) dump 0 true
/-- `re.findall(QEMU_ON_STATES_REGEX, dump)` projected on group 1 -/
def parseOn (dump : List Char) : List Name := scan (matchAt onBody) dump 0 true

/-- `QCOW2Backend.show` given `qemu_img.snapshot_list(force_share=True)`;
`on` = `cls._require_running_object` -/
def qcowShow (on : Bool) (dump : List Char) : List Name := if on then parseOn dump else parseOff dump

/-- `QCOW2VTBackend.show` given the snapshot listing of every image -/
def vtShowDumps (dumps : List (List Char)) : List Name := vtShow (dumps.map (qcowShow true))

/-! ### The listing printer (inverse direction, `qemu-img snapshot -l` layout)
`ID TAG VM_SIZE DATE TIME VM_CLOCK [ICOUNT]` -/

/-- a vm-state size as printed by qemu (`0 B`, `10 B`, `1.5 GiB`, `2e+03 MiB`) -/
structure Size where
  digits : List Char          -- `\d+`
  e      : Bool               -- `e?`
  sign   : Option Bool        -- `[\-\+]?`  (some true = '+')
  frac   : List Char          -- `[\.\d]*`
  unit   : List Char          -- `\w+`
deriving Repr, DecidableEq

def Size.isZero (z : Size) : Bool :=
  z.digits == ['0'] && !z.e && z.sign.isNone && z.frac.isEmpty && z.unit == ['B']

def eChars : Bool → List Char
  | true => ['e']
  | false => []

def signChars : Option Bool → List Char
  | none => []
  | some true => ['+']
  | some false => ['-']

def printSize (z : Size) : List Char :=
  z.digits ++ (eChars z.e ++ (signChars z.sign ++ (z.frac ++ ' ' :: z.unit)))

structure Rec where
  id   : List Char            -- digits
  pad1 : Nat                  -- extra spaces (one is always printed)
  tag  : Name
  pad2 : Nat
  size : Size
  pad3 : Nat
  y1 : Char
  y2 : Char
  y3 : Char
  y4 : Char
  m1 : Char
  m2 : Char
  d1 : Char
  d2 : Char
  tail : List Char            -- ` TIME VM_CLOCK [ICOUNT]`: anything without a newline
deriving Repr

def spaces (n : Nat) : List Char := List.replicate n ' '

def printDate (r : Rec) : List Char := [r.y1, r.y2, r.y3, r.y4, '-', r.m1, r.m2, '-', r.d1, r.d2]

def printRec (r : Rec) : List Char :=
  r.id ++ (' ' :: spaces r.pad1 ++ (r.tag ++ (' ' :: spaces r.pad2 ++ (printSize r.size ++
    (' ' :: spaces r.pad3 ++ (printDate r ++ r.tail))))))

/-- a line of a listing: a snapshot record or any other line (`Snapshot list:`, the column header) -/
inductive Line
  | snap (r : Rec)
  | other (txt : List Char)
deriving Repr

def printLine : Line → List Char
  | .snap r => printRec r
  | .other t => t

/-- lines separated by `\n` (no trailing newline; the theorems cover both) -/
def printListing : List Line → List Char
  | [] => []
  | [l] => printLine l
  | l :: ls => printLine l ++ '\n' :: printListing ls

def recsOf : List Line → List Rec
  | [] => []
  | .snap r :: ls => r :: recsOf ls
  | .other _ :: ls => recsOf ls

/-! ### Well-formed listings (what the printer is asked to print) -/

def noNl (t : List Char) : Prop := ∀ c ∈ t, isNl c = false

/-- a size column: `\d+ e? [-+]? [.\d]* ' ' \w+`, and only the zero size starts with `0 B` -/
structure Size.WF (z : Size) : Prop where
  digits_ne : z.digits ≠ []
  digits_ok : ∀ c ∈ z.digits, isDigit c = true
  frac_ok : ∀ c ∈ z.frac, isFracCh c = true
  unit_ne : z.unit ≠ []
  unit_ok : ∀ c ∈ z.unit, isWord c = true
  zero_only : z.isZero = false → ¬ zeroB <+: printSize z

/-- a snapshot record: numeric id, tag over `[\w.-]`, well-formed size, a date, no newline in the rest -/
structure Rec.WF (r : Rec) : Prop where
  id_ne : r.id ≠ []
  id_ok : ∀ c ∈ r.id, isDigit c = true
  tag_ne : r.tag ≠ []
  tag_ok : ∀ c ∈ r.tag, isTagCh c = true
  size_ok : r.size.WF
  date_ok : isDigit r.y1 = true ∧ isDigit r.y2 = true ∧ isDigit r.y3 = true ∧ isDigit r.y4 = true ∧
            isDigit r.m1 = true ∧ isDigit r.m2 = true ∧ isDigit r.d1 = true ∧ isDigit r.d2 = true
  tail_ok : noNl r.tail

/-- other lines (headers, blank lines) have no newline and do not start with a digit -/
def Line.WF : Line → Prop
  | .snap r => r.WF
  | .other t => noNl t ∧ ∀ c ∈ t.head?, isDigit c = false

end I2N.Show
