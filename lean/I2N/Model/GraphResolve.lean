/-
E5 `graphparse`, part 2: the *independent resolver* of properties C07 / C06 / C09.

`resolve` maps an abstract suite (tests with per-object `get` restrictions, `get_state`, `set_state`, own vm
restrictions; vm variants; workers = nets with vm restrictions), user vm restrictions and a selection of tests to
the dependency graph the properties ask for: the selected tests composed with every compatible vm variant
combination, their setup tests obtained by following the `get` declarations object by object, transitively down
to object creation, shared setup represented once, and a dependant cloned once per producer where a dependency
resolves to several producers (with branch specific state names).

It does NOT mirror the control flow of `graph.py` (worklists, name index, caches, prefixes): it is the
specification the implementation's graph is compared with.  The Cartesian parser is not modelled: restrictions
are matched by the small matcher `sat` below on names the harness enumerates.

Import-free: the compiled driver runs exactly these definitions.
-/
namespace I2N.Resolve

abbrev Name := List String      -- a dotted name as the list of its variants

/-! ## restriction matcher: `,` OR, `..` (unordered) AND, `.` immediately followed by -/

/-- `q` occurs contiguously in `n` -/
def contig (q : Name) : Name → Bool
  | [] => q.isEmpty
  | x :: xs => q.isPrefixOf (x :: xs) || contig q xs

/-- one `only`/`no` line: alternatives (`,`) of conjunctions (`..`) of dotted sequences -/
structure RLine where
  neg  : Bool
  alts : List (List Name)
deriving Repr, DecidableEq

def satLine (l : RLine) (n : Name) : Bool :=
  let hit := l.alts.any (fun conj => conj.all (fun q => contig q n))
  if l.neg then !hit else hit

def sat (ls : List RLine) (n : Name) : Bool := ls.all (fun l => satLine l n)

/-! ## abstract suites -/

/-- what a test declares for one of its objects (`get_images_vm1 = …`, `get_state_images_vm1 = …`, …) -/
structure Slot where
  vm       : String      -- "" in a singleton test: the vm the test is composed with
  kind     : String      -- "images" | "vms"
  get      : Name        -- [] = no dependency
  getState : String
  setState : String
deriving Repr, DecidableEq

structure Test where
  name     : Name
  vms      : List String                     -- [] = singleton test (no `vms` parameter)
  creation : Bool                            -- the object creation test (`original`)
  sets     : List Name                       -- set prefixes under which the test is listed (all, leaves, normal.nongui, …)
  slots    : List Slot
  only     : List (String × List String)     -- own `only_vmX` restrictions
deriving Repr, DecidableEq

/-- a vm restriction line: `only a, b` / `no a` on variant names -/
abbrev VLine := Bool × List String           -- (neg, names)

structure Suite where
  variants : List (String × List String)     -- vm ↦ variants
  mainVm   : String
  tests    : List Test
deriving Repr

structure Worker where
  name  : String
  restr : List (String × VLine)              -- the net's `only_vmX` / `no_vmX`
deriving Repr, DecidableEq

def lookupD {β : Type} (l : List (String × β)) (k : String) (d : β) : β :=
  match l.find? (fun e => e.1 == k) with
  | some e => e.2
  | none => d

def applyV (l : VLine) (vs : List String) : List String :=
  vs.filter (fun v => if l.1 then !l.2.contains v else l.2.contains v)

/-- the variants of `vm` a worker may use: the suite's, filtered by the user's and by the net's restrictions -/
def allowed (S : Suite) (user : List (String × VLine)) (w : Worker) (vm : String) : List String :=
  let vs := lookupD S.variants vm []
  let vs := (user.filter (fun e => e.1 == vm)).foldl (fun acc e => applyV e.2 acc) vs
  (w.restr.filter (fun e => e.1 == vm)).foldl (fun acc e => applyV e.2 acc) vs

/-- … and that the test itself supports -/
def allowedFor (allow : String → List String) (t : Test) (vm : String) : List String :=
  match t.only.find? (fun e => e.1 == vm) with
  | some e => (allow vm).filter (fun v => e.2.contains v)
  | none => allow vm

/-! ## nodes -/

abbrev Asg := List (String × String)         -- vm ↦ variant, in the order of the test's vms

/-- identity of a node within one worker: test, vm variants, and the producer states its clones were made for -/
structure Key where
  test   : Name
  asg    : Asg
  labels : List String
deriving Repr, DecidableEq

structure Inst where
  key     : Key
  root    : Bool                              -- object creation node
  slots   : List Slot                         -- effective declarations (vm filled in, clone specific states)
  parents : List (String × String × Key)      -- (vm, kind, parent)
deriving Repr, DecidableEq

def Inst.setOf (i : Inst) (vm kind : String) : String :=
  match i.slots.find? (fun s => s.vm == vm && s.kind == kind) with
  | some s => s.setState
  | none => ""

/-- all combinations of one choice per position -/
def product : List (String × List String) → List Asg
  | [] => [[]]
  | (vm, vs) :: rest => vs.flatMap (fun v => (product rest).map (fun a => (vm, v) :: a))

/-- the vm variants a test is composed with when it is needed by a child with assignment `casg`: a vm the child
has too keeps the child's variant (the parent is parsed on the child's own net), any other vm ranges over
everything the worker and the test allow -/
def choices (allow : String → List String) (casg : Asg) (t : Test) (vm : String) : List String :=
  match casg.find? (fun e => e.1 == vm) with
  | some e => if (allowedFor allow t vm).contains e.2 then [e.2] else []
  | none => allowedFor allow t vm

def asgs (allow : String → List String) (casg : Asg) (t : Test) (vms : List String) : List Asg :=
  product (vms.map (fun vm => (vm, choices allow casg t vm)))

/-- the tests declared as producers for slot `s` and the variant combinations they are instantiated with -/
def cands (S : Suite) (allow : String → List String) (casg : Asg) (s : Slot) : List (Test × Asg) :=
  (S.tests.filter (fun t => !s.get.isEmpty && contig s.get t.name && (t.vms.isEmpty || t.vms.contains s.vm))).flatMap
    (fun t => (asgs allow casg t (if t.vms.isEmpty then [s.vm] else t.vms)).map (fun a => (t, a)))

/-- the declarations of a test composed with `asg` (a singleton's slots refer to its one vm) -/
def instSlots (t : Test) (asg : Asg) : List Slot :=
  if t.vms.isEmpty then
    match asg with
    | (vm, _) :: _ => t.slots.map (fun s => { s with vm := vm })
    | [] => t.slots
  else t.slots

/-- attach the producers `ps` of slot `s` to the partial instances: none → nothing; one → one more parent;
several → one clone per producer, named after and requiring exactly that producer's state, and providing a
branch specific state itself -/
def addSlot (acc : List Inst) (s : Slot) (ps : List Inst) : List Inst :=
  match ps with
  | [] => acc
  | [p] => acc.map (fun i => { i with parents := i.parents ++ [(s.vm, s.kind, p.key)] })
  | _ => acc.flatMap (fun i => ps.map (fun p =>
      let st := p.setOf s.vm s.kind
      { key := { i.key with labels := i.key.labels ++ [st] },
        root := i.root,
        slots := i.slots.map (fun x =>
          if x.vm == s.vm && x.kind == s.kind then
            { x with getState := st, setState := if x.setState == "" then "" else x.setState ++ "." ++ st }
          else x),
        parents := i.parents ++ [(s.vm, s.kind, p.key)] }))

/-- the node(s) a test composed with `asg` becomes (several = its clones), with their parents -/
def insts (S : Suite) (allow : String → List String) : Nat → Test → Asg → List Inst
  | 0, _, _ => []
  | f + 1, t, asg =>
    let slots := instSlots t asg
    slots.foldl
      (fun acc s => addSlot acc s ((cands S allow asg s).flatMap (fun ta => insts S allow f ta.1 ta.2)))
      [{ key := { test := t.name, asg := asg, labels := [] }, root := t.creation, slots := slots, parents := [] }]

/-- a test's nodes together with all the setup they need, transitively down to object creation -/
def anc (S : Suite) (allow : String → List String) : Nat → Test → Asg → List Inst
  | 0, _, _ => []
  | f + 1, t, asg =>
    insts S allow (f + 1) t asg ++
    (instSlots t asg).flatMap (fun s => (cands S allow asg s).flatMap (fun ta => anc S allow f ta.1 ta.2))

def dedup {α : Type} [DecidableEq α] : List α → List α
  | [] => []
  | x :: xs => let r := dedup xs; if x ∈ r then r else x :: r

/-- the flat test universe selected by the tests restriction: (set prefix, test) -/
def selected (S : Suite) (sel : List RLine) : List Test :=
  S.tests.filter (fun t => t.sets.any (fun p => sat sel (p ++ t.name)))

def leafAsgs (S : Suite) (allow : String → List String) (t : Test) : List Asg :=
  asgs allow [] t (if t.vms.isEmpty then [S.mainVm] else t.vms)

/-- enough fuel for every suite whose producer relation is acyclic -/
def Suite.fuel (S : Suite) : Nat := S.tests.length + 1

/-- what lazy parsing reveals when worker `w` expands the flat node of test `t` -/
def reveal (S : Suite) (allow : String → List String) (t : Test) : List Inst :=
  (leafAsgs S allow t).flatMap (fun a => anc S allow S.fuel t a)

/-- the dependency graph of one worker: its nodes (each once) -/
def workerNodes (S : Suite) (allow : String → List String) (sel : List RLine) : List Inst :=
  dedup ((selected S sel).flatMap (reveal S allow))

/-- lazy parsing: the nodes present after the flat nodes in `order` have been expanded (for one worker) -/
def lazyNodes (S : Suite) (allow : String → List String) (order : List Test) : List Inst :=
  dedup (order.flatMap (reveal S allow))

structure GEdge where
  worker : String
  child  : Key
  vm     : String
  kind   : String
  parent : Key
deriving Repr, DecidableEq

structure GNode where
  worker : String
  inst   : Inst
deriving Repr, DecidableEq

structure RGraph where
  nodes : List GNode
  edges : List GEdge        -- setup and cleanup records are this one list (`descend_from_node` writes both)
deriving Repr

def edgesOf (w : String) (i : Inst) : List GEdge :=
  i.parents.map (fun p => { worker := w, child := i.key, vm := p.1, kind := p.2.1, parent := p.2.2 })

def resolveWorker (S : Suite) (user : List (String × VLine)) (sel : List RLine) (w : Worker) : RGraph :=
  let ns := workerNodes S (allowed S user w) sel
  { nodes := ns.map (fun i => { worker := w.name, inst := i }), edges := ns.flatMap (edgesOf w.name) }

/-- every worker gets its own copy; the shared root (not represented) is the parent of every parentless node -/
def resolve (S : Suite) (user : List (String × VLine)) (sel : List RLine) (ws : List Worker) : RGraph :=
  let gs := ws.map (resolveWorker S user sel)
  { nodes := gs.flatMap (·.nodes), edges := gs.flatMap (·.edges) }

/-- the lazily built graph after the expansions `steps` = (worker name, test name) in any order -/
def resolveLazy (S : Suite) (user : List (String × VLine)) (ws : List Worker) (steps : List (String × Name)) : RGraph :=
  let gs := ws.map (fun w =>
    let order := S.tests.filter (fun t => steps.contains (w.name, t.name))
    let ns := lazyNodes S (allowed S user w) order
    ({ nodes := ns.map (fun i => { worker := w.name, inst := i }), edges := ns.flatMap (edgesOf w.name) } : RGraph))
  { nodes := gs.flatMap (·.nodes), edges := gs.flatMap (·.edges) }

end I2N.Resolve
