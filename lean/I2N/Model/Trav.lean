/-
E6 `traverse`: executable model of the multi-worker graph traversal of avocado-i2n
(`cartgraph/graph.py: traverse_object_trees, traverse_node, reverse_node, traverse_terminal_node`,
`cartgraph/node.py: is_*, default_run_decision, should_rerun, default_clean_decision, pick_*, drop_*,
pull_locations, scan_states, sync_states`, `plugins/runner.py: run_test_node`).

Import-free.  One Lean function per Python function, so that a disagreement localises.
Scope of this version: pre-parsed graphs (no lazy expansion of flat leaves, no replay of previous
jobs, no permanent objects); everything else of DESIGN.md Appendix A is mirrored, including the
substring tests used as identity and the bump of `max_concurrent_tries`.
-/
namespace I2N.Trav

/-! ## strings -/

def isPrefixChars : List Char → List Char → Bool
  | [], _ => true
  | _ :: _, [] => false
  | a :: as, b :: bs => a == b && isPrefixChars as bs

def containsChars (hay needle : List Char) : Bool :=
  match hay with
  | [] => needle.isEmpty
  | _ :: rest => isPrefixChars needle hay || containsChars rest needle

/-- Python's `needle in hay` on strings -/
def strIn (needle hay : String) : Bool := containsChars hay.toList needle.toList

/-! ## static description -/

inductive Shape | own | swarm | global
deriving Repr, DecidableEq, BEq

structure Worker where
  id : String
  swarm : String
  restricted : Bool := false
deriving Repr

structure Node where
  cls : Nat                          -- bridged class (index into the class table)
  owner : Option Nat                 -- worker index the copy was parsed for (`none`: flat)
  name : String                      -- params["name"]
  pfx : String                       -- prefix (uid stem)
  flat : Bool := false
  sharedRoot : Bool := false
  objectRoot : Bool := false
  cloneSource : Bool := false
  dryRun : Bool := false
  sets : List (String × String) := []     -- (vm, state) in object order
  gets : List (String × String) := []
  unsetMode : List (String × String) := []  -- vm ↦ unset_mode of its image (default "ri")
  maxTries : Option Int := none
  mct : Option Int := none
  timeout : Nat := 100
  shape : Shape := .global
  scope : List String := ["own", "swarm", "cluster", "shared"]
  poolFilter : String := "reuse"
  rerunStatus : Option (List String) := none
  stopStatus : List String := []
  rank : Nat := 0
  setup : List (Nat × List String) := []    -- parents (node index, vms of the edge) in dict order
  cleanup : List (Nat × List String) := []  -- children
  objs : List String := []                  -- vms in object order
  setless : String := ""                    -- setless_form (used for flat nodes: `self.setless_form in node.id`)
deriving Repr

structure Graph where
  workers : List Worker
  nodes : List Node
  root : Nat
deriving Repr

def Graph.node (g : Graph) (n : Nat) : Node := g.nodes.getD n { cls := 0, owner := none, name := "", pfx := "" }
def Graph.worker (g : Graph) (w : Nat) : Worker := g.workers.getD w { id := "?", swarm := "?" }

/-- Python's `worker.id in node.params["name"]` -/
def Graph.idIn (g : Graph) (w n : Nat) : Bool := strIn (g.worker w).id (g.node n).name

/-- the worker whose net a copy was parsed for (`node.params["nets"]`): state requests and the states a test produces
go to THAT worker's pool, whoever acts on the copy (the acting worker `w` for flat nodes, which have no net) -/
def Graph.netOf (g : Graph) (n w : Nat) : Nat := ((g.node n).owner).getD w

/-! ## dynamic state -/

structure Result where
  name : String
  status : String          -- upper case, "UNKNOWN" for the placeholder
  uid : String
  tag : Nat := 0           -- identity of the placeholder object (Python removes by equality of dicts)
  dur : Nat := 0           -- time_elapsed
deriving Repr, DecidableEq, BEq

abbrev Reg := List ((Nat × Nat) × Nat)    -- (key class, worker) ↦ count

def regAdd (r : Reg) (k : Nat × Nat) : Reg :=
  match r with
  | [] => [(k, 1)]
  | (k', c) :: rest => if k' == k then (k', c + 1) :: rest else (k', c) :: regAdd rest k

def regWorkers (r : Reg) (key : Option Nat) : List Nat :=
  (r.filter (fun e => match key with | some k => e.1.1 == k | none => true)).map (·.1.2)

def regTotal (r : Reg) : Nat := (r.map (·.2)).sum

structure ClassRegs where
  pickedBySetup : Reg := []
  pickedByCleanup : Reg := []
  droppedSetup : Reg := []
  droppedCleanup : Reg := []
deriving Repr

structure NodeD where
  started : Option Nat := none
  finished : Option Nat := none
  results : List Result := []
  rerunDisabled : Bool := false
  bump : Nat := 0                     -- how often `max_concurrent_tries` was incremented on this copy
  getLoc : List (String × String) := []   -- vm ↦ get_location string
deriving Repr

inductive Phase | plain | pre | main
deriving Repr, DecidableEq, BEq
inductive Dir | up | down
deriving Repr, DecidableEq, BEq

inductive Pc
  | loop
  | bounce
  | test (n : Nat) (phase : Phase) (dir : Dir) (uid : String) (tag : Nat) (wait : Nat)
  | done
  | failed
deriving Repr

structure WorkerD where
  path : List Nat := []
  occAt : List Nat := []
  occWait : Float := 0.0      -- seconds, accumulated exactly like Python's float
  pc : Pc := .loop
  preResults : List Result := []
  preName : String := ""
  unexplored : Bool := false   -- `len(unexplored_nodes) > 0` as computed at the start of the current iteration
deriving Repr

structure State where
  nodes : List NodeD
  regs : List ClassRegs        -- per class
  workers : List WorkerD
  store : List (String × List (String × String))   -- location ("shared" | worker id) ↦ states (vm, state)
  jobResults : List (String × String × String × Nat) := []   -- (name, uid, status, duration) as reported to the job
  nextTag : Nat := 1
  hidden : List Nat := []                  -- composite nodes not parsed yet (lazy expansion) and, as `edgeCode`s, single edges that
                                           -- do not exist yet between parsed nodes; [] for pre-parsed graphs
  incompatible : List (Nat × Nat) := []    -- (flat node, worker): composition failed (`incompatible_workers`)
deriving Repr

def State.nd (s : State) (n : Nat) : NodeD := s.nodes.getD n {}
def State.wd (s : State) (w : Nat) : WorkerD := s.workers.getD w {}
def State.cr (s : State) (c : Nat) : ClassRegs := s.regs.getD c {}

def State.setNd (s : State) (n : Nat) (f : NodeD → NodeD) : State :=
  { s with nodes := s.nodes.modify n f }
def State.setWd (s : State) (w : Nat) (f : WorkerD → WorkerD) : State :=
  { s with workers := s.workers.modify w f }
def State.setCr (s : State) (c : Nat) (f : ClassRegs → ClassRegs) : State :=
  { s with regs := s.regs.modify c f }

def storeGet (st : List (String × List (String × String))) (loc : String) : List (String × String) :=
  match st.find? (·.1 == loc) with | some (_, l) => l | none => []

def storeSet (st : List (String × List (String × String))) (loc : String) (l : List (String × String)) :=
  if st.any (·.1 == loc) then st.map (fun e => if e.1 == loc then (loc, l) else e) else st ++ [(loc, l)]

/-! ## events (the observable stream) -/

inductive Event
  | start (w : String) (cls : String) (uid : String) (locs : List (String × String)) (unknown : Nat)
  | finish (w : String) (cls : String) (uid : String) (status : String)
  | door (w : String) (action : String) (reqs : List (String × String)) (scope : List String) (ok : Bool)
  | sleep (w : String) (q : Nat)
  | exit (w : String)
  | raise (w : String) (what : String)
deriving Repr, DecidableEq

/-! ## class-level views (`shared_*` properties) -/

def Graph.classNodes (g : Graph) (c : Nat) : List Nat :=
  (List.range g.nodes.length).filter (fun i => (g.node i).cls == c)

/-- `[self] + self.bridged_nodes` : all copies of the class (a flat node has no bridged copies) -/
def Graph.copies (g : Graph) (n : Nat) : List Nat :=
  if (g.node n).flat then [n] else n :: (g.classNodes (g.node n).cls).filter (· != n)

def dedupNat : List Nat → List Nat
  | [] => []
  | a :: l => if l.contains a then dedupNat l else a :: dedupNat l

def sharedStarted (g : Graph) (s : State) (n : Nat) : List Nat :=
  dedupNat ((g.copies n).filterMap (fun i => (s.nd i).started))

def sharedFinished (g : Graph) (s : State) (n : Nat) : List Nat :=
  dedupNat ((g.copies n).filterMap (fun i => (s.nd i).finished))

def sharedResults (g : Graph) (s : State) (n : Nat) : List Result :=
  (g.copies n).flatMap (fun i => (s.nd i).results)

/-- `shared_involved_workers`: workers (of `TestSwarm.run_swarms`, i.e. all) whose id is a key in one
of the two `picked_by` registers of the class -/
def involved (g : Graph) (s : State) (n : Nat) : List Nat :=
  let r := s.cr (g.node n).cls
  let ids := regWorkers r.pickedBySetup none ++ regWorkers r.pickedByCleanup none
  (List.range g.workers.length).filter (fun w => ids.contains w)

/-- `shared_filtered_results` with `started_worker` temporarily `sw` -/
def sharedFilteredResults (g : Graph) (s : State) (n : Nat) (sw : Option Nat) : List Result :=
  let all := sharedResults g s n
  let filt : String :=
    match sw with
    | none => ""
    | some w =>
      match (g.node n).shape with
      | .own => (g.worker w).swarm ++ "." ++ (g.worker w).id
      | .swarm => (g.worker w).swarm
      | .global => ""
  all.filter (fun r => strIn filt r.name)

/-- `shared_result_worker_ids` -/
def sharedResultWorkerIds (g : Graph) (s : State) (n : Nat) : List Nat :=
  dedupNat ((sharedResults g s n).filterMap (fun r =>
    if r.status != "PASS" then none
    else (List.range g.workers.length).find? (fun w => strIn (g.worker w).id r.name)))

/-! ## `is_*` -/

def sameList (a b : List Nat) : Bool := a.all b.contains && b.all a.contains

/-- common body of `is_started` / `is_finished` over the respective worker set -/
def scopeCount (g : Graph) (s : State) (n : Nat) (set : List Nat) (w : Nat) (thr : Int) : Bool :=
  match (g.node n).shape with
  | .own => set.contains w
  | .swarm =>
    let own := set.filter (fun v => (g.worker v).swarm == (g.worker w).swarm)
    if thr == -1 then
      sameList own ((involved g s n).filter (fun v => (g.worker v).swarm == (g.worker w).swarm))
    else decide ((own.length : Int) ≥ thr)
  | .global =>
    if thr == -1 then sameList set (involved g s n) else decide ((set.length : Int) ≥ thr)

def isStarted (g : Graph) (s : State) (n w : Nat) (thr : Int) : Bool :=
  if (g.node n).flat then false else scopeCount g s n (sharedStarted g s n) w thr

def isFinished (g : Graph) (s : State) (n w : Nat) (thr : Int) : Bool :=
  if (g.node n).flat then true else scopeCount g s n (sharedFinished g s n) w thr

def mctOf (g : Graph) (s : State) (n : Nat) : Int :=
  let nd := g.node n
  let b : Int := (s.nd n).bump
  if b > 0 then (nd.mct.getD 0) + b           -- after a bump the parameter exists: get_numeric(mct, 0) + 1
  else nd.mct.getD (nd.maxTries.getD 1)

def isOccupied (g : Graph) (s : State) (n w : Nat) : Bool :=
  isStarted g s n w (max (mctOf g s n) 1)

/-- the neighbours a worker has to care about: own copies and flat nodes -/
def relevant (g : Graph) (w : Nat) (m : Nat) : Bool := (g.node m).flat || g.idIn w m

def isSetupReady (g : Graph) (s : State) (n w : Nat) : Bool :=
  (g.node n).setup.all (fun (p, _) =>
    !relevant g w p || (regWorkers (s.cr (g.node n).cls).droppedSetup (some (g.node p).cls)).contains w)

def isCleanupReady (g : Graph) (s : State) (n w : Nat) : Bool :=
  (g.node n).cleanup.all (fun (c, _) =>
    !relevant g w c || (regWorkers (s.cr (g.node n).cls).droppedCleanup (some (g.node c).cls)).contains w)

/-! ## lazy expansion: the visible graph, `is_unrolled`, `should_parse`, the reveal step -/

/-- `State.hidden` also holds EDGES that do not exist yet although both ends are parsed: the entry `edgeCode g p c`
(above every node index) stands for the edge from parent `p` to child `c`.  The lazy parser hangs a composite node below a
flat node only when THAT flat node is expanded for the node's worker (`parse_branches_for_node_and_object`:
`child.descend_from_node(test_node, test_object)` for reused and newly parsed children alike) — a composite node that
exists already because it was parsed as a dependency of another test (one node serving flat nodes of two test sets) is not
yet a child of its own flat node. -/
def edgeCode (g : Graph) (p c : Nat) : Nat := g.nodes.length * (p + 1) + c

/-- the graph as parsed so far: edges from and to nodes that are not parsed yet do not exist, nor do hidden edges -/
def vis (g : Graph) (s : State) : Graph :=
  if s.hidden.isEmpty then g else
  { g with nodes := (g.nodes.zipIdx).map (fun (nd, i) =>
      if s.hidden.contains i then { nd with setup := [], cleanup := [] }
      else { nd with setup := nd.setup.filter (fun e => !s.hidden.contains e.1 && !s.hidden.contains (edgeCode g e.1 i)),
                     cleanup := nd.cleanup.filter (fun e => !s.hidden.contains e.1 && !s.hidden.contains (edgeCode g i e.1)) }) }

def Graph.nodeId (g : Graph) (n : Nat) : String := (g.node n).pfx ++ "-" ++ (g.node n).name

/-- `is_unrolled(worker)` of a flat node (`w = none`: for any worker) on the visible graph `gv` -/
def isUnrolled (gv : Graph) (s : State) (f : Nat) (w : Option Nat) : Bool :=
  if (gv.node f).sharedRoot then true else
  let kids := ((gv.node f).cleanup.map (·.1)).filter (fun c => strIn (gv.node f).setless (gv.nodeId c))
  match w with
  | some w => s.incompatible.contains (f, w) || kids.any (fun c => strIn (gv.worker w).id (gv.nodeId c))
  | none => s.incompatible.any (·.1 == f) || !kids.isEmpty

/-- `should_parse(worker)` of a flat node -/
def shouldParse (gv : Graph) (s : State) (f : Nat) : Bool :=
  !(involved gv s f).any (fun v => isUnrolled gv s f (some v) && isCleanupReady gv s f v && !(gv.worker v).restricted)

/-- `unexplored_nodes`: flat nodes nobody has unrolled yet -/
def unexploredNodes (gv : Graph) (s : State) : List Nat :=
  (List.range gv.nodes.length).filter (fun n => (gv.node n).flat && !isUnrolled gv s n none)

def closeUp (g : Graph) : Nat → List Nat → List Nat
  | 0, acc => acc
  | fuel + 1, acc =>
    let more := (acc.flatMap (fun n => (g.node n).setup.map (·.1))).filter (fun p => !acc.contains p)
    if more.isEmpty then acc else closeUp g fuel (acc ++ dedupNat more)

/-- `parse_paths_to_object_roots(flat, worker.net)`: the composite leaves of the flat node for this worker and all
their ancestors become visible, and so do the edges from the flat node to these leaves (reused or new); no leaf for this
worker = incompatible -/
def reveal (g : Graph) (s : State) (f w : Nat) : State :=
  let leaves := ((g.node f).cleanup.map (·.1)).filter (fun c => (g.node c).owner == some w)
  if leaves.isEmpty then { s with incompatible := s.incompatible ++ [(f, w)] }
  else
    let all := closeUp g g.nodes.length leaves
    { s with hidden := s.hidden.filter (fun h => !all.contains h && !(leaves.map (edgeCode g f)).contains h) }

/-- start of a loop iteration with a path longer than one: remember whether unexplored flat nodes exist and expand
the flat node at hand when it is not unrolled for this worker -/
def prepare (g : Graph) (s : State) (w : Nat) : State :=
  let gv := vis g s
  match (s.wd w).path.getLast? with
  | none => s
  | some next =>
    let unexp := !(unexploredNodes gv s).isEmpty
    let s := s.setWd w (fun d => { d with unexplored := unexp })
    if (gv.node next).flat && !isUnrolled gv s next (some w) && (unexp || shouldParse gv s next) then reveal g s next w else s

/-! ## picking and dropping -/

def insertBy (le : Nat → Nat → Bool) (a : Nat) : List Nat → List Nat
  | [] => [a]
  | b :: l => if le a b then a :: b :: l else b :: insertBy le a l

/-- stable sort (Python's `sorted` is stable; the three sorts of the code compose into one
lexicographic key: flat first, then fewest picks, then prefix priority) -/
def stableSort (le : Nat → Nat → Bool) (l : List Nat) : List Nat :=
  l.foldr (fun a acc => insertBy le a acc) []

def pickKey (g : Graph) (s : State) (parent : Bool) (m : Nat) : Nat × Nat × Nat :=
  let r := s.cr (g.node m).cls
  (if (g.node m).flat then 0 else 1,
   regTotal (if parent then r.pickedByCleanup else r.pickedBySetup),
   (g.node m).rank)

def keyLe (a b : Nat × Nat × Nat) : Bool :=
  a.1 < b.1 || (a.1 == b.1 && (a.2.1 < b.2.1 || (a.2.1 == b.2.1 && a.2.2 ≤ b.2.2)))

/-- `pick_parent` : `none` = RuntimeError (pick from an exhausted node) -/
def pickParent (g : Graph) (s : State) (n w : Nat) : Option (Nat × State) :=
  let avail := ((g.node n).setup.map (·.1)).filter (fun p =>
    relevant g w p && !(regWorkers (s.cr (g.node n).cls).droppedSetup (some (g.node p).cls)).contains w)
  match stableSort (fun a b => keyLe (pickKey g s true a) (pickKey g s true b)) avail with
  | [] => none
  | p :: _ =>
    some (p, s.setCr (g.node p).cls (fun r => { r with pickedByCleanup := regAdd r.pickedByCleanup ((g.node n).cls, w) }))

def pickChild (g : Graph) (s : State) (n w : Nat) : Option (Nat × State) :=
  let avail := ((g.node n).cleanup.map (·.1)).filter (fun c =>
    relevant g w c && !(regWorkers (s.cr (g.node n).cls).droppedCleanup (some (g.node c).cls)).contains w)
  match stableSort (fun a b => keyLe (pickKey g s false a) (pickKey g s false b)) avail with
  | [] => none
  | c :: _ =>
    some (c, s.setCr (g.node c).cls (fun r => { r with pickedBySetup := regAdd r.pickedBySetup ((g.node n).cls, w) }))

/-- `child.drop_parent(parent, w)` -/
def dropParent (g : Graph) (s : State) (child parent w : Nat) : State :=
  s.setCr (g.node child).cls (fun r => { r with droppedSetup := regAdd r.droppedSetup ((g.node parent).cls, w) })

/-- `parent.drop_child(child, w)` -/
def dropChild (g : Graph) (s : State) (parent child w : Nat) : State :=
  s.setCr (g.node parent).cls (fun r => { r with droppedCleanup := regAdd r.droppedCleanup ((g.node child).cls, w) })

/-! ## locations -/

def sharedLoc : String := ":/pool/shared"
def workerLoc (g : Graph) (v : Nat) : String := (g.worker v).id ++ ":/pool/swarm"

def locAdd (cur : List (String × String)) (vm loc : String) : List (String × String) :=
  match cur.find? (·.1 == vm) with
  | none => cur ++ [(vm, loc)]
  | some (_, old) =>
    if strIn loc old then cur
    else cur.map (fun e => if e.1 == vm then (vm, if old == "" then loc else old ++ " " ++ loc) else e)

/-- `pull_locations` -/
def pullLocations (g : Graph) (s : State) (n : Nat) : State :=
  if (g.node n).flat then s else
  (g.node n).setup.foldl (fun s (p, vms) =>
    let locs := sharedLoc :: (sharedResultWorkerIds g s p).map (workerLoc g)
    locs.foldl (fun s loc =>
      vms.foldl (fun s vm => s.setNd n (fun d => { d with getLoc := locAdd d.getLoc vm loc })) s) s) s

/-! ## state control (the store behind the door) -/

def lower (s : String) : String := s.toLower

/-- `scan_states`: returns (should_run, state', events) -/
def scanStates (g : Graph) (s : State) (n w : Nat) : Bool × List Event :=
  let nd := g.node n
  if nd.sets.isEmpty then (true, []) else
  let own := storeGet s.store (g.worker (g.netOf n w)).id
  let shared := storeGet s.store "shared"
  let ok := nd.sets.all (fun vs =>
    (nd.scope.contains "own" && own.contains vs) || (nd.scope.contains "shared" && shared.contains vs))
  (!ok, [Event.door (g.worker (g.netOf n w)).id "check" nd.sets nd.scope ok])

def unsetModeOf (nd : Node) (vm : String) : String :=
  match nd.unsetMode.find? (·.1 == vm) with | some (_, m) => m | none => "ri"

/-- is some object's unset mode starting with `f` (`is_reversible` of `default_clean_decision`) -/
def isReversible (nd : Node) : Bool :=
  nd.objs.any (fun vm => (unsetModeOf nd vm).toList.head? == some 'f')

/-- accumulator of the loop of `sync_states`: (should_clean, action of the last object, states to
unset, states to get, loop left by `break`) -/
abbrev SyncAcc := Bool × String × List (String × String) × List (String × String) × Bool

/-- `vm_name in params.get("vms", all_objects("vms"))` of `sync_states` -/
def vmSelected (runVms : Option (List String)) (vm : String) : Bool :=
  match runVms with | none => true | some l => l.contains vm

/-- one round of the loop of `sync_states` for an object with a set state -/
def syncStep (nd : Node) (runVms : Option (List String)) (acc : SyncAcc) (vs : String × String) : SyncAcc :=
  if acc.2.2.2.2 then acc else
  let c := (unsetModeOf nd vs.1).toList.head?
  if c != some 'f' && c != some 'r' then acc else
  if !(vmSelected runVms vs.1) then acc else
  if c == some 'f' then (true, "unset", acc.2.2.1 ++ [vs], acc.2.2.2.1, false)
  else if nd.poolFilter == "reuse" || nd.poolFilter == "block" then (false, acc.2.1, acc.2.2.1, acc.2.2.2.1, true)
  else (true, "get", acc.2.2.1, acc.2.2.2.1 ++ [vs], false)

def syncAcc (nd : Node) (runVms : Option (List String)) : SyncAcc :=
  nd.sets.foldl (syncStep nd runVms) (false, "", [], [], false)

/-- `sync_states`: one request at the end, decided by the objects with a set state in object order -/
def syncStates (g : Graph) (s : State) (n w : Nat) (runVms : Option (List String)) : State × List Event :=
  let nd := g.node n
  let acc := syncAcc nd runVms
  if !acc.1 then (s, []) else
  let wid := (g.worker (g.netOf n w)).id
  if acc.2.1 == "unset" then
    let own := (storeGet s.store wid).filter (fun x => !acc.2.2.1.contains x)
    ({ s with store := storeSet s.store wid own }, [Event.door wid "unset" acc.2.2.1 ["own"] true])
  else
    let shared := storeGet s.store "shared"
    let add := acc.2.2.2.1.filter (fun x => shared.contains x && !(storeGet s.store wid).contains x)
    ({ s with store := storeSet s.store wid (storeGet s.store wid ++ add) },
     [Event.door wid "get" acc.2.2.2.1 nd.scope true])

/-! ## decisions -/

def allStatuses : List String := ["fail", "error", "pass", "warn", "skip", "cancel", "interrupted", "unknown"]

/-- `should_rerun` (valid settings only; invalid settings are the subject of C10's rule model) -/
def shouldRerun (g : Graph) (s : State) (n w : Nat) : Except String Bool :=
  let nd := g.node n
  if (s.nd n).rerunDisabled then .ok false else
  if nd.dryRun then .ok false else
  if nd.flat then .ok false else
  if nd.cloneSource then .ok false else
  if !g.idIn w n then .error "RuntimeError" else
  let rerun := nd.rerunStatus.getD allStatuses
  let rerun := if rerun.isEmpty then allStatuses else rerun
  let maxTries : Int := nd.maxTries.getD 1
  if maxTries < 0 then .error "ValueError" else
  let results := if nd.sets.isEmpty then sharedResults g s n
                 else sharedFilteredResults g s n (match (s.nd n).started with | some v => some v | none => some w)
  let statuses := results.map (fun r => lower r.status)
  if statuses.any (fun st => !rerun.contains st) then .ok false else
  if nd.stopStatus.any statuses.contains then .ok false else
  let left : Int := if maxTries == 1 then 0 else maxTries - statuses.length
  .ok (decide (left > 0))

/-- `self.should_rerun = lambda _: False` on this copy -/
def disableRerun (s : State) (n : Nat) : State := s.setNd n (fun d => { d with rerunDisabled := true })

/-- the stateless branch of `default_run_decision` -/
def runDecisionStateless (g : Graph) (s : State) (n w : Nat) : Except String (Bool × State × List Event) :=
  if (sharedResults g s n).isEmpty then .ok (true, s, [])
  else (shouldRerun g s n w).map (fun b => (b, s, []))

/-- the stateful branch of `default_run_decision` once the scan has been done (`sc` = its verdict and events) -/
def runDecisionStatefulCore (g : Graph) (s : State) (n w : Nat) (scan : Bool) (sc : Bool × List Event) :
    Except String (Bool × State × List Event) :=
  if scan && sc.1 then
    .ok (true, if (sharedFilteredResults g s n (s.nd n).started).isEmpty && !sc.1 then disableRerun s n else s, sc.2)
  else
    (shouldRerun g (if (sharedFilteredResults g s n (s.nd n).started).isEmpty && !sc.1 then disableRerun s n else s) n w).map
      (fun b => (b, if (sharedFilteredResults g s n (s.nd n).started).isEmpty && !sc.1 then disableRerun s n else s, sc.2))

/-- the stateful branch of `default_run_decision`: one-time scan, switching reruns off, rerun rule -/
def runDecisionStateful (g : Graph) (s : State) (n w : Nat) : Except String (Bool × State × List Event) :=
  runDecisionStatefulCore g s n w (!isFinished g s n w 1)
    (if !isFinished g s n w 1 then scanStates g s n w else (false, []))

/-- `default_run_decision` : returns (decision, state', events); the state changes through the
`should_rerun = lambda _: False` replacement -/
def runDecision (g : Graph) (s : State) (n w : Nat) : Except String (Bool × State × List Event) :=
  let nd := g.node n
  if nd.sharedRoot then .ok (false, s, []) else
  if nd.dryRun then .ok (false, s, []) else
  if nd.flat then .ok (false, s, []) else
  if nd.cloneSource then .ok (false, s, []) else
  if !g.idIn w n then .error "RuntimeError" else
  if nd.sets.isEmpty then runDecisionStateless g s n w else runDecisionStateful g s n w

/-- `default_clean_decision` -/
def cleanDecision (g : Graph) (s : State) (n w : Nat) : Except String Bool :=
  let nd := g.node n
  if nd.dryRun then .ok false else
  if nd.flat then .ok false else
  if nd.cloneSource then .ok false else
  if !g.idIn w n then .error "RuntimeError" else
  if !isReversible nd then .ok true else
  let inv := (involved g s n).filter (fun v =>
    (g.worker w).swarm == "localhost" || strIn (g.worker w).swarm (g.worker v).id)
  -- the copy of the class for each involved worker
  let pickedOf := fun (v : Nat) =>
    if g.idIn v n then some n else (g.copies n).tail.find? (fun m => g.idIn v m)
  if inv.any (fun v => (pickedOf v).isNone) then .error "ValueError" else
  let okAll := inv.all (fun v =>
    match pickedOf v with
    | none => false
    | some m => isCleanupReady g s m v && !((s.nd m).results.any (fun r => lower r.status == "unknown")))
  if !okAll then .ok false else .ok (isFinished g s n w (-1))

end I2N.Trav
