/-
E5/C11 `cmd`: model of `avocado_i2n/cmd_parser.py` (`params_from_cmd`, `full_vm_params_and_strs`,
`full_tests_params_and_str`) and of the subset of the Cartesian filter language the command line
uses (`sat`, `select`).

Import-free on purpose: the compiled driver (`Driver/Cmd.lean`) runs exactly these definitions.

Strings are `List Char` (`Str`) so that every function is structurally recursive and every
theorem is a plain list theorem; the driver converts at the I/O boundary only.

What is *not* modelled (see design.d/C11.md): the Cartesian parser itself.  Its filter
semantics are *assumed* to be `sat` below (validated differentially on the universes used) and
its lexer is replaced by a strict grammar (`parseFilter`): identifiers of `[A-Za-z0-9_-]+`
joined by `,` (OR), `..` (AND), `.` (immediately followed by); anything else is a parser error
in the model.
-/
namespace I2N.Cmd

abbrev Str := List Char

/-- error classes of `params_from_cmd`: `ValueError`, `param.EmptyCartesianProduct`,
`cartesian_config.ParserError` -/
inductive Err where
  | valueError | emptyProduct | parserError
deriving DecidableEq, Repr

/-! ## constants -/
def kOnly : Str := ['o','n','l','y']
def kNo : Str := ['n','o']
def kOnlyU : Str := ['o','n','l','y','_']
def kNoU : Str := ['n','o','_']
def kOnlyNets : Str := ['o','n','l','y','_','n','e','t','s']
def kNoNets : Str := ['n','o','_','n','e','t','s']
def kUNets : Str := ['_','n','e','t','s']
def kVms : Str := ['v','m','s']
def kNets : Str := ['n','e','t','s']
def kAll : Str := ['a','l','l']
def kDefaultOnly : Str := ['d','e','f','a','u','l','t','_','o','n','l','y']
def kDefaultOnlyU : Str := ['d','e','f','a','u','l','t','_','o','n','l','y','_']

/-! ## small string functions (Python `str` methods used by the tokenizer) -/

/-- `\w` (ASCII part) -/
def isWord (c : Char) : Bool := c.isAlphanum || c == '_'

/-- `re.match(r"(\w+)=(.*)", arg)`: the key is the maximal run of word characters at the start
(non-empty, followed by `=`); `.` stops at a newline and `re.match` does not anchor at the end. -/
def splitArg (s : Str) : Option (Str × Str) :=
  match s.takeWhile isWord, s.dropWhile isWord with
  | k :: ks, '=' :: rest => some (k :: ks, rest.takeWhile (· != '\n'))
  | _, _ => none

/-- `str.split(sep)` for a one character separator class (never returns `[]`). -/
def splitBy (p : Char → Bool) : Str → List Str
  | [] => [[]]
  | x :: xs =>
    if p x then [] :: splitBy p xs
    else match splitBy p xs with
      | [] => [[x]]
      | h :: t => (x :: h) :: t

/-- `re.split(r",|\.|\.\.", value)`: the alternative `\.` wins over `\.\.`, so this splits at every
single `,` or `.` -/
def splitVariants (v : Str) : List Str := splitBy (fun c => c == ',' || c == '.') v

/-- `value.split(",")` -/
def splitComma (v : Str) : List Str := splitBy (· == ',') v

/-- `value.replace(",", " ")` -/
def commaToSpace (v : Str) : Str := v.map (fun c => if c == ',' then ' ' else c)

/-- `s.replace(p, "")` for non-empty `p` (left to right, non overlapping); `skip` = characters of
the current match still to be dropped -/
def removeAllAux (p : Str) : Nat → Str → Str
  | _, [] => []
  | skip + 1, _ :: cs => removeAllAux p skip cs
  | 0, c :: cs =>
    if p.isPrefixOf (c :: cs) then removeAllAux p (p.length - 1) cs
    else c :: removeAllAux p 0 cs

def removeAll (p s : Str) : Str := if p.isEmpty then s else removeAllAux p 0 s

def joinSp : List Str → Str
  | [] => []
  | [a] => a
  | a :: rest => a ++ ' ' :: joinSp rest

/-- Python `dict.__setitem__` on an insertion ordered dict -/
def dictSet (d : List (Str × Str)) (k v : Str) : List (Str × Str) :=
  match d with
  | [] => [(k, v)]
  | (k', v') :: rest => if k' == k then (k, v) :: rest else (k', v') :: dictSet rest k v

def dictGet (d : List (Str × Str)) (k : Str) : Option Str :=
  match d with
  | [] => none
  | (k', v') :: rest => if k' == k then some v' else dictGet rest k

/-! ## the Cartesian filter subset -/

/-- a variant context: the dotted name of a final variant, split -/
abbrev Name := List Str
/-- `.`-joined identifiers: must occur contiguously, in this order -/
abbrev Block := List Str
/-- `..`-joined blocks: all must occur (in any order) -/
abbrev Word := List Block
/-- `,`-joined words: one must hold -/
abbrev Filter := List Word

def isIdentChar (c : Char) : Bool := c.isAlphanum || c == '_' || c == '-'

def isIdent (s : Str) : Bool := !s.isEmpty && s.all isIdentChar

/-- split at every `..` (greedy from the left) -/
def splitDD : Str → List Str
  | [] => [[]]
  | [x] => [[x]]
  | x :: y :: xs =>
    if x == '.' && y == '.' then [] :: splitDD xs
    else match splitDD (y :: xs) with
      | [] => [[x]]
      | h :: t => (x :: h) :: t

def parseBlock (b : Str) : Option Block :=
  let ids := splitBy (· == '.') b
  if ids.all isIdent then some ids else none

def parseWord (w : Str) : Option Word := (splitDD w).mapM parseBlock

/-- strict grammar; `none` = `ParserError` -/
def parseFilter (v : Str) : Option Filter := (splitComma v).mapM parseWord

/-- contiguous occurrence (`_match_adjacent(block, ctx) == len(block)` on duplicate-free contexts) -/
def isInfix (b : Block) : Name → Bool
  | [] => b.isEmpty
  | c :: cs => b.isPrefixOf (c :: cs) || isInfix b cs

def satWord (w : Word) (n : Name) : Bool := w.all (isInfix · n)

/-- `Filter.match` -/
def sat (f : Filter) (n : Name) : Bool := f.any (satWord · n)

/-- a parsed restriction line: `(true, f)` = `only f`, `(false, f)` = `no f` -/
abbrev Line := Bool × Filter

def keepLine (l : Line) (n : Name) : Bool := sat l.2 n == l.1

def keep (ls : List Line) (n : Name) : Bool := ls.all (keepLine · n)

/-- the variants of an (ordered) universe that survive all restriction lines -/
def select (u : List Name) (ls : List Line) : List Name := u.filter (keep ls)

/-- one line `"<word> <value>\n"` of a restriction string; the word must be `only`/`no` and the
value must be in the strict grammar -/
def parseLine (l : Str × Str) : Except Err Line :=
  if l.1 == kOnly || l.1 == kNo then
    match parseFilter l.2 with
    | some f => .ok (l.1 == kOnly, f)
    | none => .error .parserError
  else .error .parserError

def parseLines : List (Str × Str) → Except Err (List Line)
  | [] => .ok []
  | l :: ls =>
    match parseLine l with
    | .error e => .error e
    | .ok x => match parseLines ls with
      | .error e => .error e
      | .ok xs => .ok (x :: xs)

def renderLine (l : Str × Str) : Str := l.1 ++ ' ' :: l.2 ++ ['\n']

def renderLines (ls : List (Str × Str)) : Str := (ls.map renderLine).flatten

/-! ## what the configuration provides -/

structure Avail where
  /-- `param.all_objects("vms")` -/
  vms : List Str
  /-- `param.all_restrictions()` -/
  restrictions : List Str
  /-- `default_only` of groups-base.cfg + overwrite file, if any -/
  defaultOnly : Option Str
  /-- `default_only_<vm>` of guest-base.cfg + overwrite file -/
  defaultVm : List (Str × Str)
  /-- flat test universe of sets.cfg, in parser order -/
  tests : List Name
  /-- net universe of nets.cfg with short names, in parser order -/
  nets : List (Name × Str)
  /-- per vm: variant universe of vms.cfg -/
  vmObjs : List (Str × List Name)

/-- loop state of `params_from_cmd` -/
structure St where
  useDef : Bool                          -- use_tests_default
  vmNoDef : List Str                     -- vms with use_vms_default[vm] = False
  selVms : List Str                      -- with_selected_vms
  pd : List (Str × Str)                  -- param_dict
  tests : List (Str × Str)               -- tests_str as lines (key, value)
  netsStr : Option (Str × Str)           -- nets_str: none = "", some (word, value)
  vmLines : List (Str × (Str × Str))     -- vm_strs: (vm, (word, value)) in order of appearance
  explicitNets : Bool                    -- explicit_nets is not None
deriving DecidableEq, Repr

def St.init (av : Avail) : St :=
  { useDef := true, vmNoDef := [], selVms := av.vms, pd := [], tests := [], netsStr := none, vmLines := [],
    explicitNets := false }

/-- `param.all_suffixes_by_restriction(nets_str)` -/
def netsBy (av : Avail) (ns : Option (Str × Str)) : Except Err (List Str) :=
  match ns with
  | none => .ok (av.nets.map (·.2))
  | some l =>
    match parseLine l with
    | .error e => .error e
    | .ok x =>
      let r := (av.nets.filter (fun n => keepLine x n.1)).map (·.2)
      if r.isEmpty then .error .emptyProduct else .ok r

/-- `re.fullmatch(f"(only|no)_{vm}", key)` (exact since /repo 6e359ac; a prefix match before) -/
def vmKey (key vm : Str) : Bool := key == kOnlyU ++ vm || key == kNoU ++ vm

/-- `re.fullmatch("(only|no)_nets", key)` (exact since /repo 6e359ac) -/
def netsKey (key : Str) : Bool := key == kOnlyNets || key == kNoNets

/-- one iteration of the main tokenizing loop -/
def step (av : Avail) (st : St) (arg : Str) : Except Err St :=
  match splitArg arg with
  | none => .error .valueError
  | some (key, value) =>
    if key == kOnly || key == kNo then
      .ok { st with
            useDef := st.useDef && !(splitVariants value).any (av.restrictions.contains ·)
            tests := st.tests ++ [(key, value)] }
    else if kOnlyU.isPrefixOf key || kNoU.isPrefixOf key then
      if netsKey key then
        let ns := if value.isEmpty then none else some (removeAll kUNets key, value)
        -- since /repo 893de05: a non-empty restriction after an explicit `nets=` is a conflict too
        if ns.isSome && st.explicitNets then .error .valueError
        else match netsBy av ns with
          | .error e => .error e
          | .ok names => .ok { st with netsStr := ns, pd := dictSet st.pd kNets (joinSp names) }
      else
        match av.vms.find? (vmKey key) with
        | some vm =>
          .ok { st with
                vmNoDef := vm :: st.vmNoDef
                vmLines := if value.isEmpty then st.vmLines
                           else st.vmLines ++ [(vm, (removeAll ('_' :: vm) key, value))] }
        | none => .error .valueError
    else if key == kVms then
      let sel := splitComma value
      if sel.all (av.vms.contains ·) then .ok { st with selVms := sel } else .error .valueError
    else if key == kNets then
      if st.netsStr.isSome then .error .valueError
      else .ok { st with pd := dictSet st.pd key (commaToSpace value), explicitNets := true }
    else
      .ok { st with pd := dictSet st.pd key (commaToSpace value) }

def loop (av : Avail) : St → List Str → Except Err St
  | st, [] => .ok st
  | st, a :: as =>
    match step av st a with
    | .error e => .error e
    | .ok st' => loop av st' as

/-- result of `params_from_cmd` (the keys of `config` the property speaks about) -/
structure Config where
  paramDict : List (Str × Str)
  testsLines : List (Str × Str)
  /-- `config["available_vms"]` (all vms) as lines -/
  availableVms : List (Str × List (Str × Str))
  /-- `config["vm_strs"]` (selected vms only) as lines -/
  vmStrs : List (Str × List (Str × Str))
  /-- `config["vms_params"]["vms"]` -/
  vms : List Str
deriving DecidableEq, Repr

/-- `vms_params.get("default_only_<vm>")`: the command line dictionary overrides the configuration -/
def vmDefault (av : Avail) (pd : List (Str × Str)) (vm : Str) : Option Str :=
  match dictGet pd (kDefaultOnlyU ++ vm) with
  | some d => some d
  | none => dictGet av.defaultVm vm

/-- `full_vm_params_and_strs`: the lines of one vm -/
def fullVmStr (av : Avail) (st : St) (vm : Str) : List (Str × Str) :=
  ((st.vmLines.filter (·.1 == vm)).map (·.2)) ++
    (if st.vmNoDef.contains vm then []
     else match vmDefault av st.pd vm with
       | some d => if d.isEmpty then [] else [(kOnly, d)]
       | none => [])

def fullVmStrs (av : Avail) (st : St) : List (Str × List (Str × Str)) :=
  av.vms.map (fun vm => (vm, fullVmStr av st vm))

/-- `tests_params.get("default_only", "all")` -/
def testsDefault (av : Avail) (pd : List (Str × Str)) : Str :=
  match dictGet pd kDefaultOnly with
  | some d => d
  | none => av.defaultOnly.getD kAll

/-- `full_tests_params_and_str` -/
def fullTestsStr (av : Avail) (st : St) : Except Err (List (Str × Str)) :=
  if st.useDef then
    let d := testsDefault av st.pd
    if av.restrictions.contains d then .ok (st.tests ++ [(kOnly, d)]) else .error .valueError
  else .ok st.tests

/-- everything after the loop, including the control parse that rejects empty selections -/
def finish (av : Avail) (st : St) : Except Err Config :=
  match fullTestsStr av st with
  | .error e => .error e
  | .ok tl =>
    match parseLines tl with
    | .error e => .error e
    | .ok ls =>
      if (select av.tests ls).isEmpty then .error .emptyProduct
      else
        let all := fullVmStrs av st
        .ok { paramDict := st.pd, testsLines := tl, availableVms := all,
              vmStrs := all.filter (fun p => st.selVms.contains p.1), vms := st.selVms }

/-- `params_from_cmd` -/
def paramsFromCmd (av : Avail) (args : List Str) : Except Err Config :=
  match loop av (St.init av) args with
  | .error e => .error e
  | .ok st => finish av st

/-- the flat tests a configuration selects (`TestGraph.parse_flat_nodes(tests_str, param_dict)`) -/
def selectedTests (av : Avail) (c : Config) : Except Err (List Name) :=
  match parseLines c.testsLines with
  | .error e => .error e
  | .ok ls => .ok (select av.tests ls)

/-- the variant universe of one vm -/
def vmUniverse (av : Avail) (vm : Str) : List Name :=
  match av.vmObjs.find? (·.1 == vm) with
  | some p => p.2
  | none => []

/-- the variants of one vm a restriction string selects (`parse_flat_objects(vm, "vms", vm_str)`) -/
def selectedVmObjs (av : Avail) (vm : Str) (lines : List (Str × Str)) : Except Err (List Name) :=
  match parseLines lines with
  | .error e => .error e
  | .ok ls =>
    if (select (vmUniverse av vm) ls).isEmpty then .error .emptyProduct
    else .ok (select (vmUniverse av vm) ls)

/-- value of parameter `k` in a parsed test whose configuration gives `base`: the command line
dictionary is parsed last -/
def testParam (c : Config) (base : List (Str × Str)) (k : Str) : Option Str :=
  match dictGet c.paramDict k with
  | some v => some v
  | none => dictGet base k

end I2N.Cmd
