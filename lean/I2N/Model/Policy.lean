import I2N.Extracted.Policy
/-
E2 `policy`: model of `avocado_i2n/states/setup.py`
  `_parametric_object_iteration`, `_state_check_chain`, `check_states`, `get_states`, `set_states`,
  `unset_states`, `push_states`, `pop_states`
over an in-memory backend (the backend the harness registers in `ss.BACKENDS`).

No Mathlib/Std import: the compiled driver runs exactly these definitions.  The only import is the
table of literals regenerated from /repo's AST on every run (`ROOTS`, default mode strings, ...).

The model consumes the *same parameter dictionary* as the real code (`Params` = insertion ordered
association list = a Python dict), including virttest's `Params.objects` and `Params.object_params`
(suffix resolution), so that scoping quirks (nested calls re-resolving `check_state_<obj>`, inner type
names in `skip_types`, push/pop not looking at read-only images) are reproduced, not assumed away.
-/
namespace I2N.Policy
open I2N.Extracted.Policy

/-! ### strings (all on `toList`, so that the kernel can evaluate closed examples) -/

def isWs (c : Char) : Bool := c == ' ' || c == '\t' || c == '\n' || c == '\r'

def wordsAux : List Char → List Char → List String
  | [], cur => if cur.isEmpty then [] else [String.ofList cur.reverse]
  | c :: cs, cur =>
    if isWs c then
      (if cur.isEmpty then wordsAux cs [] else String.ofList cur.reverse :: wordsAux cs [])
    else wordsAux cs (c :: cur)

/-- Python `str.split()` -/
def words (s : String) : List String := wordsAux s.toList []

/-- keep first occurrences (`list({}.fromkeys(lst))`) -/
def dedup : List String → List String
  | [] => []
  | x :: xs => x :: (dedup xs).filter (· != x)

def splitCharAux (sep : Char) : List Char → List Char → List String
  | [], cur => [String.ofList cur.reverse]
  | c :: cs, cur =>
    if c == sep then String.ofList cur.reverse :: splitCharAux sep cs [] else splitCharAux sep cs (c :: cur)

/-- Python `s.split("/")` -/
def splitSlash (s : String) : List String := splitCharAux '/' s.toList []

def joinSlash : List String → String
  | [] => ""
  | [x] => x
  | x :: xs => x ++ "/" ++ joinSlash xs

def endsWith (k suf : String) : Bool := suf.toList.isSuffixOf k.toList

/-- the part before the first occurrence of `suf` (Python `key.split(suf)[0]`) -/
def beforeFirst (suf : List Char) : List Char → List Char
  | [] => []
  | c :: cs => if suf.isPrefixOf (c :: cs) then [] else c :: beforeFirst suf cs

/-! ### `virttest.utils_params.Params` (a dict of strings) -/

abbrev Params := List (String × String)

def Params.get? (p : Params) (k : String) : Option String :=
  match p with
  | [] => none
  | (k', v) :: rest => if k' == k then some v else Params.get? rest k

def Params.getD (p : Params) (k d : String) : String := (p.get? k).getD d

/-- `params[k] = v` (dict semantics: position of an existing key is kept) -/
def Params.set (p : Params) (k v : String) : Params :=
  match p with
  | [] => [(k, v)]
  | (k', v') :: rest => if k' == k then (k', v) :: rest else (k', v') :: Params.set rest k v

/-- `params.get(k)` used as a truth value: `None` and `""` are false -/
def Params.truthy (p : Params) (k : String) : Option String :=
  match p.get? k with
  | none => none
  | some v => if v == "" then none else some v

/-- `Params.objects(key)` -/
def Params.objects (p : Params) (k : String) : List String := dedup (words (p.getD k ""))

/-- `Params.object_params(name)`: keys ending in `_name` overwrite the key before the first `_name` -/
def Params.objectParams (p : Params) (name : String) : Params :=
  let suf := "_" ++ name
  p.foldl (fun acc kv =>
    if endsWith kv.1 suf then acc.set (String.ofList (beforeFirst suf.toList kv.1.toList)) kv.2 else acc) p

/-! ### errors, store, backend -/

inductive Err
  | abort          -- exceptions.TestAbortError
  | invalidPolicy  -- exceptions.TestError
  | valueError | keyError | indexError
  | paramNotFound  -- virttest ParamNotFound (`params[k]` of a missing key)
deriving DecidableEq, Repr

/-- how the in-memory backend identifies an object: last component of `object_type` and the
`nets`/`vms`/`images` parameters it is handed (NOT `object_name`, which differs in nested calls) -/
structure Key where
  typ : String
  net : String
  vm : String
  image : String
deriving DecidableEq, Repr

structure Obj where
  root : Bool := false
  names : List String := []
deriving DecidableEq, Repr

/-- later entries are shadowed by earlier ones -/
abbrev Store := List (Key × Obj)

def Store.obj (s : Store) (k : Key) : Obj :=
  match s with
  | [] => {}
  | (k', o) :: rest => if k' = k then o else Store.obj rest k

def Store.put (s : Store) (k : Key) (o : Obj) : Store := (k, o) :: s

inductive CallKind
  | show | get | set | unset | checkRoot | getRoot | setRoot | unsetRoot | destroy
deriving DecidableEq, Repr

structure Call where
  kind : CallKind
  backend : String
  key : Key
  arg : String
deriving DecidableEq, Repr

structure St where
  store : Store := []
  calls : List Call := []

def typeOf (sp : Params) : String := sp.getD "object_type" ""

def lastType (sp : Params) : String := (splitSlash (typeOf sp)).getLast?.getD ""

def keyOf (sp : Params) : Key :=
  let t := lastType sp
  { typ := t, net := sp.getD "nets" "",
    vm := if t == "nets" then "" else sp.getD "vms" "",
    image := if t == "images" then sp.getD "images" "" else "" }

def St.log (st : St) (kind : CallKind) (b : String) (sp : Params) (arg : String) : St :=
  { st with calls := st.calls ++ [⟨kind, b, keyOf sp, arg⟩] }

def St.modify (st : St) (k : Key) (f : Obj → Obj) : St :=
  { st with store := st.store.put k (f (st.store.obj k)) }

def scopeArg (sp : Params) : String := sp.getD "pool_scope" "-"

/-- backend `show` -/
def bShow (b : String) (sp : Params) (st : St) : List String × St :=
  ((st.store.obj (keyOf sp)).names, st.log .show b sp "")
def bCheckRoot (b : String) (sp : Params) (st : St) : Bool × St :=
  ((st.store.obj (keyOf sp)).root, st.log .checkRoot b sp "")
def bGet (b : String) (sp : Params) (st : St) : St := st.log .get b sp (sp.getD "get_state" "")
def bSet (b : String) (sp : Params) (st : St) : St :=
  let n := sp.getD "set_state" ""
  (st.log .set b sp n).modify (keyOf sp) (fun o => { o with names := n :: o.names })
def bUnset (b : String) (sp : Params) (st : St) : St :=
  let n := sp.getD "unset_state" ""
  (st.log .unset b sp n).modify (keyOf sp) (fun o => { o with names := o.names.filter (· != n) })
def bGetRoot (b : String) (sp : Params) (st : St) : St := st.log .getRoot b sp (scopeArg sp)
def bSetRoot (b : String) (sp : Params) (st : St) : St :=
  (st.log .setRoot b sp (scopeArg sp)).modify (keyOf sp) (fun o => { o with root := true })
def bUnsetRoot (b : String) (sp : Params) (st : St) : St :=
  (st.log .unsetRoot b sp (scopeArg sp)).modify (keyOf sp) (fun o => { o with root := false })
/-- `vm.destroy(gracefully=…)` on the stub vm `env.get_vm(params["vms"])` of the stub env: logged (the vm
only knows its name, not the backend), no store effect -/
def bDestroy (sp : Params) (graceful : Bool) (st : St) : St :=
  { st with calls := st.calls ++
      [⟨.destroy, "", ⟨"vms", "", sp.getD "vms" "", ""⟩, if graceful then "true" else "false"⟩] }

/-- registered backends: name ↦ "is a subclass of SourcedStateBackend" -/
abbrev Backends := List (String × Bool)

def Backends.find (B : Backends) (n : String) : Option Bool :=
  match B with
  | [] => none
  | (n', s) :: rest => if n' == n then some s else Backends.find rest n

/-- `BACKENDS[state_params["states"]]` -/
def backendOf (B : Backends) (sp : Params) : Except Err (String × Bool) :=
  match sp.get? "states" with
  | none => .error .paramNotFound
  | some b => match B.find b with
    | none => .error .keyError
    | some s => .ok (b, s)

/-- `mode[0], mode[1]` -/
def letters (m : String) : Option (Char × Char) :=
  match m.toList with
  | c1 :: c2 :: _ => some (c1, c2)
  | _ => none

/-- `Params.get_boolean(key, False)` -/
def boolParam (v : Option String) : Except Err Bool :=
  match v with
  | none => .ok false
  | some s =>
    if s == "yes" || s == "on" || s == "true" then .ok true
    else if s == "no" || s == "off" || s == "false" then .ok false
    else .error .valueError

/-- `root_params.get_dict("check_opts").get("soft_boot", "yes") == "yes"` (last entry wins) -/
def softBoot (sp : Params) : Bool :=
  let es := (words (sp.getD "check_opts" "")).filter (fun w => "soft_boot=".toList.isPrefixOf w.toList)
  match es.getLast? with
  | none => true
  | some e => e == "soft_boot=yes"

/-! ### `_parametric_object_iteration` -/

/-- `chain` = the object types still to descend into, `comps` = the composites so far.
The types are read once from the top-level `states_chain` (the real code re-reads the key from the
object's parameters at every level; `states_chain_<object>` keys are outside the model). -/
def iterAux (last : String) : List String → List (String × String) → Params → List Params
  | [], _, _ => []
  | t :: rest, comps, p =>
    (p.objects t).flatMap fun n =>
      let comps' := comps ++ [(n, t)]
      let op := (((p.objectParams n).set t n).set "object_name" (joinSlash (comps'.map (·.1)))).set
        "object_type" (joinSlash (comps'.map (·.2)))
      -- composites are yielded after their components; type parameters do not propagate downwards
      (if t != last then iterAux last rest comps' op else []) ++ [op.objectParams t]

def iterObjects (p : Params) : Except Err (List Params) :=
  let chain := p.objects "states_chain"
  match chain.getLast? with
  | none => .error .valueError
  | some last => .ok (iterAux last chain [] p)

/-- the two `continue` guards shared by check/get/set/unset: `true` = skip this object -/
def guardSkip (sp : Params) : Except Err Bool :=
  if (sp.objects "skip_types").contains (typeOf sp) then .ok true
  else if typeOf sp == readonlyType then boolParam (sp.get? "image_readonly")
  else .ok false

/-- "restrict inner call parametric object types and names" -/
def restrict (sp : Params) : Params :=
  let tys := splitSlash (typeOf sp)
  let ns := splitSlash (sp.getD "object_name" "")
  ((tys.zip ns).foldl (fun acc tn => acc.set tn.1 tn.2) sp).set "states_chain" (tys.getLast?.getD "")

inductive Do | get | set | unset
deriving DecidableEq, Repr

/-- the `do` argument of `_state_check_chain` and the keys `f"{do}_state"`, `f"{do}_mode"`, `f"{do}_location"` -/
def Do.stateKey : Do → String
  | .get => "get_state" | .set => "set_state" | .unset => "unset_state"
def Do.modeKey : Do → String
  | .get => "get_mode" | .set => "set_mode" | .unset => "unset_mode"
def Do.locKey : Do → String
  | .get => "get_location" | .set => "set_location" | .unset => "unset_location"
def Do.dMode : Do → String
  | .get => dGetMode | .set => dSetMode | .unset => dUnsetMode

/-- the parameter rewriting of `_state_check_chain` (everything before its `check_states` call) -/
def chainParams (d : Do) (sp : Params) : Params :=
  let sp := sp.set "check_state" (sp.getD d.stateKey "")
  let sp := match sp.truthy d.locKey with
    | some l => sp.set "show_location" l
    | none => sp
  let sp := if d = .set then (sp.set "check_opts" "soft_boot=yes").set "soft_boot" "yes"
    else (sp.set "check_opts" "soft_boot=no").set "soft_boot" "no"
  restrict sp

/-! ### `check_states` -/

/-- the root prerequisite of `check_states`; `none` = `return False` -/
def rootPhase (b : String) (sp : Params) (c1 c2 : Char) (st : St) : Except Err (Option Unit) × St :=
  let (rootExists, st) := bCheckRoot b sp st
  if !rootExists then
    if c2 == 'f' then (.ok (some ()), bSetRoot b (sp.set "pool_scope" rootScope) st)
    else if c2 == 'r' then (.ok none, st)
    else (.error .invalidPolicy, st)
  else if c1 == 'f' then
    let rp := sp.set "pool_scope" rootScope
    let st := if typeOf sp == destroyType then bDestroy rp (softBoot rp) st else bUnsetRoot b rp st
    (.ok (some ()), bSetRoot b rp st)
  else (.ok (some ()), bGetRoot b sp st)

/-- `check_opts` and `check_mode` get their defaults written back into the parameters -/
def checkDefaults (sp : Params) : Params :=
  (sp.set "check_opts" (sp.getD "check_opts" dCheckOpts)).set "check_mode" (sp.getD "check_mode" dCheckMode)

/-- root prerequisite, then the lookup of the state itself -/
def checkCore (b : String) (sp : Params) (state : String) (c1 c2 : Char) (st : St) : Except Err Bool × St :=
  match rootPhase b sp c1 c2 st with
  | (.error e, st) => (.error e, st)
  | (.ok none, st) => (.ok false, st)
  | (.ok (some _), st) =>
    if roots.contains state then (.ok true, st)
    else
      let (names, st) := bShow b sp st
      (.ok (names.contains state), st)

/-- body of the loop of `check_states` for one yielded object; `.ok true` = go on with the next
object (state exists or object skipped), `.ok false` = `return False` -/
def checkOne (B : Backends) (sp : Params) (st : St) : Except Err Bool × St :=
  match guardSkip sp with
  | .error e => (.error e, st)
  | .ok true => (.ok true, st)
  | .ok false =>
  match sp.truthy "check_state" with
  | none => (.ok true, st)
  | some state =>
  let sp := checkDefaults sp
  match backendOf B sp with
  | .error e => (.error e, st)
  | .ok (b, _) =>
  match sp.get? "vms" with
  | none => (.error .paramNotFound, st)
  | some _ =>
  match letters (sp.getD "check_mode" "") with
  | none => (.error .indexError, st)
  | some (c1, c2) =>
  checkCore b sp state c1 c2 st

def checkLoop (B : Backends) : List Params → St → Except Err Bool × St
  | [], st => (.ok true, st)
  | sp :: rest, st =>
    match checkOne B sp st with
    | (.error e, st) => (.error e, st)
    | (.ok false, st) => (.ok false, st)
    | (.ok true, st) => checkLoop B rest st

def checkStates (B : Backends) (p : Params) (st : St) : Except Err Bool × St :=
  match iterObjects p with
  | .error e => (.error e, st)
  | .ok l => checkLoop B l st

/-! ### `get_states`, `set_states`, `unset_states` -/

/-- the `if/elif` chain of `get_states` and the final backend call (everything after the check) -/
def getAct (b : String) (cp : Params) (state : String) (c1 c2 : Char) (exist : Bool) (st : St) :
    Except Err Unit × St :=
  if !exist && c2 == 'a' then (.error .abort, st)
  else if !exist && c2 == 'i' then (.ok (), st)
  else if !exist then (.error .invalidPolicy, st)
  else if c1 == 'a' then (.error .abort, st)
  else if c1 == 'r' then
    (.ok (), if roots.contains state then bGetRoot b cp st else bGet b cp st)
  else if c1 == 'i' then (.ok (), st)
  else (.error .invalidPolicy, st)

/-- the `if/elif` chain of `set_states` and the final backend call -/
def setAct (b : String) (sourced : Bool) (cp : Params) (state : String) (c1 c2 : Char) (exist : Bool)
    (st : St) : Except Err Unit × St :=
  let fin (cp : Params) (st : St) : Except Err Unit × St :=
    (.ok (), if roots.contains state then bSetRoot b cp st else bSet b cp st)
  if exist && c1 == 'a' then (.error .abort, st)
  else if exist && c1 == 'r' then (.ok (), st)
  else if exist && c1 == 'f' then
    let cp := cp.set "unset_state" state
    let st := if roots.contains state then bUnsetRoot b cp st
      else if sourced then st else bUnset b cp st
    fin cp st
  else if exist then (.error .invalidPolicy, st)
  else if c2 == 'a' then (.error .abort, st)
  else if c2 == 'f' then
    if !roots.contains state then
      let (r, st) := bCheckRoot b cp st
      if !r then (.error .invalidPolicy, st) else fin cp st
    else fin cp st
  else (.error .invalidPolicy, st)

/-- the `if/elif` chain of `unset_states` and the final backend call -/
def unsetAct (b : String) (cp : Params) (state : String) (c1 c2 : Char) (exist : Bool) (st : St) :
    Except Err Unit × St :=
  if !exist && c2 == 'a' then (.error .abort, st)
  else if !exist && c2 == 'i' then (.ok (), st)
  else if !exist then (.error .invalidPolicy, st)
  else if c1 == 'r' then (.ok (), st)
  else if c1 == 'f' then
    (.ok (), if roots.contains state then bUnsetRoot b cp st else bUnset b cp st)
  else (.error .invalidPolicy, st)

def act (d : Do) (b : String) (sourced : Bool) (cp : Params) (state : String) (c1 c2 : Char)
    (exist : Bool) (st : St) : Except Err Unit × St :=
  match d with
  | .get => getAct b cp state c1 c2 exist st
  | .set => setAct b sourced cp state c1 c2 exist st
  | .unset => unsetAct b cp state c1 c2 exist st

/-- the parameters after the mode default is written back and `_state_check_chain` rewrote them; the nested
`check_states` and all later backend calls see these -/
def doParams (d : Do) (sp : Params) : Params :=
  chainParams d (sp.set d.modeKey (sp.getD d.modeKey d.dMode))

/-- body of the loop of `get_states` / `set_states` / `unset_states` for one yielded object -/
def doOne (B : Backends) (d : Do) (sp : Params) (st : St) : Except Err Unit × St :=
  match guardSkip sp with
  | .error e => (.error e, st)
  | .ok true => (.ok (), st)
  | .ok false =>
  match sp.truthy d.stateKey with
  | none => (.ok (), st)
  | some state =>
  let cp := doParams d sp
  match checkStates B cp st with
  | (.error e, st) => (.error e, st)
  | (.ok exist, st) =>
  match backendOf B cp with
  | .error e => (.error e, st)
  | .ok (b, sourced) =>
  match cp.get? "vms" with
  | none => (.error .paramNotFound, st)
  | some _ =>
  match letters (cp.getD d.modeKey "") with
  | none => (.error .indexError, st)
  | some (c1, c2) => act d b sourced cp state c1 c2 exist st

def loopM (f : Params → St → Except Err Unit × St) : List Params → St → Except Err Unit × St
  | [], st => (.ok (), st)
  | sp :: rest, st =>
    match f sp st with
    | (.error e, st) => (.error e, st)
    | (.ok _, st) => loopM f rest st

def doStates (B : Backends) (d : Do) (p : Params) (st : St) : Except Err Unit × St :=
  match iterObjects p with
  | .error e => (.error e, st)
  | .ok l => loopM (doOne B d) l st

/-! ### `push_states`, `pop_states` -/

/-- the parameters `push_states` hands to `set_states` for one object -/
def pushParams (sp : Params) (state : String) : Params :=
  let rp := (restrict sp).set "set_state" state
  rp.set "set_mode" (rp.getD "push_mode" dPushMode)

/-- the parameters `pop_states` hands to `get_states` … -/
def popGetParams (sp : Params) (state : String) : Params :=
  let rp := (restrict sp).set "get_state" state
  rp.set "get_mode" (rp.getD "pop_mode" dPopGetMode)

/-- … and then to `unset_states` (the same dictionary, further updated) -/
def popUnsetParams (sp : Params) (state : String) : Params :=
  let rp := (popGetParams sp state).set "unset_state" state
  rp.set "unset_mode" (rp.getD "pop_mode" dPopUnsetMode)

def pushOne (B : Backends) (sp : Params) (st : St) : Except Err Unit × St :=
  match sp.truthy "push_state" with
  | none => (.ok (), st)
  | some state =>
    if roots.contains state then (.ok (), st)
    else doStates B .set (pushParams sp state) st

def popOne (B : Backends) (sp : Params) (st : St) : Except Err Unit × St :=
  match sp.truthy "pop_state" with
  | none => (.ok (), st)
  | some state =>
    if roots.contains state then (.ok (), st)
    else
      match doStates B .get (popGetParams sp state) st with
      | (.error e, st) => (.error e, st)
      | (.ok _, st) => doStates B .unset (popUnsetParams sp state) st

inductive Op | check | get | set | unset | push | pop
deriving DecidableEq, Repr

/-- the functions other than `check_states` return nothing: `true` stands for "returned" -/
def liftUnit (r : Except Err Unit × St) : Except Err Bool × St :=
  match r with
  | (.error e, st) => (.error e, st)
  | (.ok _, st) => (.ok true, st)

/-- one call of a public function of `states/setup.py`; the Boolean is the result of `check_states`
(`true` for the others) -/
def runOp (B : Backends) (op : Op) (p : Params) (st : St) : Except Err Bool × St :=
  match op with
  | .check => checkStates B p st
  | .get => liftUnit (doStates B .get p st)
  | .set => liftUnit (doStates B .set p st)
  | .unset => liftUnit (doStates B .unset p st)
  | .push =>
    match iterObjects p with
    | .error e => (.error e, st)
    | .ok l => liftUnit (loopM (pushOne B) l st)
  | .pop =>
    match iterObjects p with
    | .error e => (.error e, st)
    | .ok l => liftUnit (loopM (popOne B) l st)

/-- a sequence of calls; a raised exception ends one call, not the sequence (the caller catches it) -/
def runSeq (B : Backends) : List (Op × Params) → St → St
  | [], st => st
  | (op, p) :: rest, st => runSeq B rest (runOp B op p st).2

end I2N.Policy
