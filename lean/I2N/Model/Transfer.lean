/-
E3 `pool`, transfer half (C14): model of `avocado_i2n/states/pool.py`
  * `TransferOps.compare_local / compare_link`
  * `TransferOps.download_local / upload_local / delete_local / download_link / upload_link`
  * the dispatchers `TransferOps.download / upload / delete` (`hosts:path`, `;` = link mode)
  * `image_lock` as a lock-protocol state machine over any number of processes
  * a trace monitor `mutexTrace` for traces recorded from real processes.

Import-free on purpose: the driver (`Driver/Xfer.lean`) runs exactly these definitions.

File system: `Path → absent | file bytes | link target`, directories are not modelled (every
directory the code needs exists: the real code calls `os.makedirs` for them).  Symbolic links are
followed ONE level (`resolve`): the model is faithful for *flat* file systems (no link points to a
link), which is what the code itself creates (`os.symlink(pool_path, cache_path)` with the pool
holding real files).

`crypto.hash_file(path, 1048576, "md5")` hashes only the FIRST `1048576` bytes of a file (the
second positional argument of avocado's `hash_file` is `size`, "limit to first size bytes").  The
model therefore compares `take limit` of the contents; md5 is assumed collision free on those
prefixes (trusted base).  `limit` is a parameter: the driver is told the value extracted from the
source (scaled by the block size the harness uses for its contents).
-/
namespace I2N.Transfer

abbrev Path := String
abbrev Data := List Nat

inductive Node where
  | absent
  | file (d : Data)
  | link (t : Path)
deriving DecidableEq, Repr

abbrev FS := Path → Node

/-- the error classes the real functions raise (`Err.other` = anything else, never produced by the model) -/
inductive Err where
  | fileNotFound   -- FileNotFoundError
  | fileExists     -- FileExistsError
  | sameFile       -- shutil.SameFileError
  | runtimeError   -- RuntimeError
  | valueError     -- ValueError
  | notModelled    -- remote transfers (`hosts != ""`) are outside the model
  | injected       -- an exception injected by the harness inside the critical section
deriving DecidableEq, Repr

/-! ## File-system primitives (the `os` / `shutil` calls the code makes) -/

/-- where an `open()` of `p` ends up: one level of symlink -/
def resolve (fs : FS) (p : Path) : Path :=
  match fs p with
  | .link t => t
  | _ => p

/-- content seen by `open(p, "rb")` (following a link); `none` = does not exist -/
def read (fs : FS) (p : Path) : Option Data :=
  match fs (resolve fs p) with
  | .file d => some d
  | _ => none

/-- `os.path.exists` (follows links; a dead link does not exist) -/
def pexists (fs : FS) (p : Path) : Bool := (read fs p).isSome

/-- `os.path.islink` -/
def islink (fs : FS) (p : Path) : Bool :=
  match fs p with
  | .link _ => true
  | _ => false

def write (fs : FS) (p : Path) (n : Node) : FS := fun q => if q = p then n else fs q

/-- `shutil.copy(src, dst)`: source opened first (missing → `FileNotFoundError`, nothing touched),
same file → `SameFileError`, otherwise the destination is written *through* a link. -/
def copy (fs : FS) (src dst : Path) : Except Err FS :=
  match read fs src with
  | none => .error .fileNotFound
  | some d =>
    if resolve fs src = resolve fs dst then .error .sameFile
    else .ok (write fs (resolve fs dst) (.file d))

/-- `os.unlink(p)` (removes the link itself, never its target) -/
def unlink (fs : FS) (p : Path) : Except Err FS :=
  match fs p with
  | .absent => .error .fileNotFound
  | _ => .ok (write fs p .absent)

/-- `os.symlink(target, p)` -/
def symlink (fs : FS) (target p : Path) : Except Err FS :=
  match fs p with
  | .absent => .ok (write fs p (.link target))
  | _ => .error .fileExists

/-! ## Comparison -/

/-- what `crypto.hash_file(p, limit, "md5")` depends on (md5 assumed injective on it);
    `""` for a missing file is `none` -/
def digest (limit : Nat) (fs : FS) (p : Path) : Option Data := (read fs p).map (·.take limit)

/-- `TransferOps.compare_local` -/
def compareLocal (limit : Nat) (fs : FS) (cache pool : Path) : Bool :=
  digest limit fs cache == digest limit fs pool

/-- `TransferOps.compare_link`: `os.path.realpath(cache) == pool` for a link -/
def compareLink (limit : Nat) (fs : FS) (cache pool : Path) : Bool :=
  if islink fs cache then resolve fs cache == pool else compareLocal limit fs cache pool

/-! ## The five operations, big step (what one undisturbed process does inside the lock) -/

/-- `TransferOps.download_local` -/
def downloadLocal (limit : Nat) (fs : FS) (cache pool : Path) : Except Err FS :=
  if compareLocal limit fs cache pool then .ok fs else copy fs pool cache

/-- `TransferOps.upload_local` -/
def uploadLocal (limit : Nat) (fs : FS) (cache pool : Path) : Except Err FS :=
  if compareLocal limit fs cache pool then .ok fs else copy fs cache pool

/-- `TransferOps.delete_local` -/
def deleteLocal (fs : FS) (pool : Path) : Except Err FS := unlink fs pool

/-- `TransferOps.download_link` -/
def downloadLink (limit : Nat) (fs : FS) (cache pool : Path) : Except Err FS :=
  if compareLink limit fs cache pool then .ok fs
  else if !islink fs cache && pexists fs cache then .error .runtimeError
  else
    match (if islink fs cache then unlink fs cache else .ok fs) with
    | .error e => .error e
    | .ok fs1 => symlink fs1 pool cache

/-- `TransferOps.upload_link` -/
def uploadLink (limit : Nat) (fs : FS) (cache pool : Path) : Except Err FS :=
  if islink fs cache then .error .valueError else uploadLocal limit fs cache pool

/-! ## Dispatch on the pool location string (`hosts:path`, `;` in the path = link mode) -/

inductive Mode where
  | loc | lnk | remote
deriving DecidableEq, Repr

/-- `s.split(":")` on characters (structural, so that the kernel can evaluate it) -/
def splitColon : List Char → List (List Char)
  | [] => [[]]
  | c :: cs =>
    if c = ':' then [] :: splitColon cs
    else match splitColon cs with
      | [] => [[c]]
      | w :: ws => (c :: w) :: ws

/-- `hosts, path = pool_path.split(":")` (anything but exactly two parts is Python's `ValueError` on
    unpacking) and the `if/elif/else` of every dispatcher; link mode returns `path.replace(";", "")` -/
def dispatch (spec : String) : Except Err (Mode × Path) :=
  match splitColon spec.toList with
  | [hosts, path] =>
    if hosts != [] then .ok (.remote, String.ofList path)
    else if path.contains ';' then .ok (.lnk, String.ofList (path.filter (· != ';')))
    else .ok (.loc, String.ofList path)
  | _ => .error .valueError

/-- `TransferOps.download` -/
def download (limit : Nat) (fs : FS) (cache : Path) (spec : String) : Except Err FS :=
  match dispatch spec with
  | .error e => .error e
  | .ok (.remote, _) => .error .notModelled
  | .ok (.lnk, p) => downloadLink limit fs cache p
  | .ok (.loc, p) => downloadLocal limit fs cache p

/-- `TransferOps.upload` -/
def upload (limit : Nat) (fs : FS) (cache : Path) (spec : String) : Except Err FS :=
  match dispatch spec with
  | .error e => .error e
  | .ok (.remote, _) => .error .notModelled
  | .ok (.lnk, p) => uploadLink limit fs cache p
  | .ok (.loc, p) => uploadLocal limit fs cache p

/-- `TransferOps.delete` (`delete_link` = `delete_local`) -/
def delete (fs : FS) (spec : String) : Except Err FS :=
  match dispatch spec with
  | .error e => .error e
  | .ok (.remote, _) => .error .notModelled
  | .ok (_, p) => deleteLocal fs p

/-- the decidable side condition under which "equal hash" means "equal content": both files fit
    into the hashed prefix or already differ inside it (see the finding in design.d/C14.md) -/
def prefixFaithful (limit : Nat) (fs : FS) (a b : Path) : Bool :=
  match read fs a, read fs b with
  | some x, some y => x.take limit != y.take limit || x == y
  | _, _ => true

/-! ## The critical sections, one file-system call at a time -/

inductive Op where
  | dl | ul | dll | ull | del
deriving DecidableEq, Repr

/-- result of one step of a critical section: continue at step `j` with a new file system, or raise -/
inductive CSRes where
  | next (fs : FS) (j : Nat)
  | raise (e : Err)

/-- number of steps of the `with image_lock(...)` body; reaching it = leaving the `with` normally -/
def csLen : Op → Nat
  | .dl => 2 | .ul => 2 | .ull => 2 | .del => 1 | .dll => 4

def liftCopy (r : Except Err FS) (j : Nat) : CSRes :=
  match r with
  | .ok fs' => .next fs' j
  | .error e => .raise e

/-- step `i` of the body of `op` under the lock (an early `return` jumps to `csLen op`) -/
def csStep (limit : Nat) (op : Op) (cache pool : Path) (i : Nat) (fs : FS) : CSRes :=
  match op, i with
  | .dl, 0 => .next fs (if compareLocal limit fs cache pool then 2 else 1)
  | .dl, _ => liftCopy (copy fs pool cache) 2
  | .ul, 0 => .next fs (if compareLocal limit fs cache pool then 2 else 1)
  | .ul, _ => liftCopy (copy fs cache pool) 2
  | .ull, 0 => .next fs (if compareLocal limit fs cache pool then 2 else 1)
  | .ull, _ => liftCopy (copy fs cache pool) 2
  | .del, _ => liftCopy (unlink fs pool) 1
  | .dll, 0 => .next fs (if compareLink limit fs cache pool then 4 else 1)
  | .dll, 1 => if !islink fs cache && pexists fs cache then .raise .runtimeError else .next fs 2
  | .dll, 2 => if islink fs cache then liftCopy (unlink fs cache) 3 else .next fs 3
  | .dll, _ => liftCopy (symlink fs pool cache) 4

/-- run the body from step `i` to its end without interference (fuel ≥ 4 suffices) -/
def runCS (limit : Nat) (op : Op) (cache pool : Path) : Nat → Nat → FS → Except Err FS
  | 0, _, fs => .ok fs
  | fuel + 1, i, fs =>
    if i ≥ csLen op then .ok fs
    else match csStep limit op cache pool i fs with
      | .next fs' j => runCS limit op cache pool fuel j fs'
      | .raise e => .error e

/-! ## The lock protocol (`image_lock`) for any number of processes -/

structure Job where
  op : Op
  cache : Path
  pool : Path        -- the lock file is `pool ++ ".lock"`: one lock cell per pool path
  timeout : Nat      -- `update_pool_timeout`: number of attempts (`for _ in range(timeout)`)
deriving Repr

inductive PC where
  | idle
  | trying (k : Nat)      -- `k` failed attempts so far
  | inCS (i : Nat)        -- holding the lock, about to do step `i` of the body
  | done
  | failed (e : Err)
  | dead
deriving DecidableEq, Repr

inductive Event where
  | acq (p : Nat) (path : Path)      -- `lockf(LOCK_EX|LOCK_NB)` succeeded
  | rel (p : Nat) (path : Path)      -- `lockf(LOCK_UN)` in the `finally`
  | fsop (p : Nat) (path : Path)     -- a file-system call of the body
  | crash (p : Nat)                  -- the process dies (its locks are dropped by the OS: assumption)
  | timeout (p : Nat)                -- the `for ... else: raise RuntimeError`
deriving DecidableEq, Repr

inductive Act where
  | start      -- enter the operation (`upload_link` checks `islink` before anything else)
  | tryLock    -- one iteration of the `for _ in range(timeout)` loop, or its `else`
  | step       -- one file-system call of the body
  | unlock     -- leave the `with` normally
  | raise      -- an exception inside the body (`finally` unlocks)
  | crash      -- SIGKILL at any point
deriving DecidableEq, Repr

structure State where
  pc : Nat → PC
  owner : Path → Option Nat
  fs : FS
  hist : List Event            -- newest first

def State.init (fs : FS) : State := { pc := fun _ => .idle, owner := fun _ => none, fs := fs, hist := [] }

def setPc (s : State) (p : Nat) (c : PC) : Nat → PC := fun q => if q = p then c else s.pc q
def setOwner (s : State) (path : Path) (o : Option Nat) : Path → Option Nat :=
  fun x => if x = path then o else s.owner x

/-- leave the critical section (normally, by exception, or by dying): the lock cell is cleared -/
def release (s : State) (p : Nat) (path : Path) (c : PC) (e : Event) : State :=
  { s with pc := setPc s p c, owner := setOwner s path none, hist := e :: s.hist }

/-- one transition of process `p`; `none` = the action is not enabled -/
def stepAct (limit : Nat) (jobs : Nat → Job) (s : State) (p : Nat) (a : Act) : Option State :=
  match a, s.pc p with
  | .start, .idle =>
    if (jobs p).op = .ull ∧ islink s.fs (jobs p).cache = true then some { s with pc := setPc s p (.failed .valueError) }
    else some { s with pc := setPc s p (.trying 0) }
  | .tryLock, .trying k =>
    if k < (jobs p).timeout then
      match s.owner (jobs p).pool with
      | none => some { s with pc := setPc s p (.inCS 0), owner := setOwner s (jobs p).pool (some p),
                              hist := .acq p (jobs p).pool :: s.hist }
      | some _ => some { s with pc := setPc s p (.trying (k + 1)) }
    else some { s with pc := setPc s p (.failed .runtimeError), hist := .timeout p :: s.hist }
  | .step, .inCS i =>
    if i < csLen (jobs p).op then
      match csStep limit (jobs p).op (jobs p).cache (jobs p).pool i s.fs with
      | .next fs' i' => some { s with pc := setPc s p (.inCS i'), fs := fs', hist := .fsop p (jobs p).pool :: s.hist }
      | .raise e => some (release s p (jobs p).pool (.failed e) (.rel p (jobs p).pool))
    else none
  | .unlock, .inCS i =>
    if i ≥ csLen (jobs p).op then some (release s p (jobs p).pool .done (.rel p (jobs p).pool)) else none
  | .raise, .inCS _ => some (release s p (jobs p).pool (.failed .injected) (.rel p (jobs p).pool))
  | .crash, .inCS _ => some (release s p (jobs p).pool .dead (.crash p))
  | .crash, .trying _ => some { s with pc := setPc s p .dead, hist := .crash p :: s.hist }
  | .crash, .idle => some { s with pc := setPc s p .dead, hist := .crash p :: s.hist }
  | _, _ => none

/-- run a schedule; `none` as soon as an action is not enabled -/
def runActs (limit : Nat) (jobs : Nat → Job) (s : State) : List (Nat × Act) → Option State
  | [] => some s
  | (p, a) :: rest =>
    match stepAct limit jobs s p a with
    | some s' => runActs limit jobs s' rest
    | none => none

inductive Reachable (limit : Nat) (jobs : Nat → Job) (fs0 : FS) : State → Prop where
  | init : Reachable limit jobs fs0 (State.init fs0)
  | step {s s' : State} (p : Nat) (a : Act) :
      Reachable limit jobs fs0 s → stepAct limit jobs s p a = some s' → Reachable limit jobs fs0 s'

/-! ## Trace monitor (fed with traces recorded from real processes) -/

abbrev Held := List (Nat × Path)

def holdsAny (h : Held) (path : Path) : Bool := h.any (fun x => x.2 == path)
def holdsBy (h : Held) (p : Nat) (path : Path) : Bool := h.any (fun x => x.1 == p && x.2 == path)
def holdsSome (h : Held) (p : Nat) : Bool := h.any (fun x => x.1 == p)

/-- is the event acceptable when `h` are the locks currently held? -/
def okEvent (h : Held) : Event → Bool
  | .acq _ path => !holdsAny h path
  | .rel p path => holdsBy h p path
  | .fsop p path => holdsBy h p path
  | .crash _ => true
  | .timeout p => !holdsSome h p

def heldAfter (h : Held) : Event → Held
  | .acq p path => (p, path) :: h
  | .rel p path => h.filter (fun x => !(x.1 == p && x.2 == path))
  | .crash p => h.filter (fun x => !(x.1 == p))
  | _ => h

def monitorFrom (h : Held) : List Event → Bool
  | [] => true
  | e :: rest => okEvent h e && monitorFrom (heldAfter h e) rest

/-- the monitor: events in chronological order -/
def mutexTrace (t : List Event) : Bool := monitorFrom [] t

end I2N.Transfer
