/-
E1 `index`: model of `avocado_i2n/cartgraph/node.py` `PrefixTree` (insert / get / __contains__)
and `EdgeRegister` (register / get_counters / get_workers), plus the aliasing of registers
done by `TestNode.bridge_with_node`.

Import-free on purpose: the compiled driver runs exactly these definitions.

The trie is *path indexed*: one entry per `PrefixTreeNode`, holding the node's path from its
root (root variant included) and its `end_test_node`.  Python notions:
  * `variant_nodes[v]`  = entries whose path ends in `v`            (`labelled`)
  * child `c` of node π = the entry with path `π ++ [c]`            (`hasPath`)
  * `node.traverse()`   = the entries whose path extends π          (`below`)
-/
namespace I2N.Index

structure Entry where
  path : List String
  fin  : Option Nat
deriving Repr, DecidableEq

abbrev Trie := List Entry

def endsWith (v : String) (p : List String) : Bool := p.getLast? == some v

/-- `self.variant_nodes[v]` as the list of the paths of those nodes. -/
def labelled (t : Trie) (v : String) : List (List String) :=
  (t.map (·.path)).filter (endsWith v)

def hasPath (t : Trie) (p : List String) : Bool := t.any (fun e => e.path == p)

def setEnd (t : Trie) (p : List String) (id : Nat) : Trie :=
  t.map (fun e => if e.path == p then { e with fin := some id } else e)

/-- the inner loop of `insert`: walk/create the remaining variants below `p`, then mark the end -/
def walk (t : Trie) (p : List String) : List String → Nat → Trie
  | [], id => setEnd t p id
  | v :: rs, id =>
    let p' := p ++ [v]
    walk (if hasPath t p' then t else t ++ [⟨p', none⟩]) p' rs id

/-- `PrefixTree.insert`.  Python iterates over `variant_nodes[variants[0]]` while the body may
append to that very list when `variants[0]` re-occurs later in the name (then the real loop
does not terminate); the model iterates over the list as it is before the loop.  The two agree
whenever the first variant does not re-occur, which is part of `WF`. -/
def insert (t : Trie) (name : List String) (id : Nat) : Trie :=
  match name with
  | [] => t
  | v0 :: rest =>
    let t1 := if (labelled t v0).isEmpty then t ++ [⟨[v0], none⟩] else t
    (labelled t1 v0).foldl (fun acc p => walk acc p rest id) t1

def insertAll (ns : List (List String × Nat)) : Trie :=
  ns.foldl (fun t n => insert t n.1 n.2) []

/-- follow the remaining variants of a query from node `p`; `none` = the `break` branch -/
def follow (t : Trie) (p : List String) : List String → Option (List String)
  | [] => some p
  | v :: rs => if hasPath t (p ++ [v]) then follow t (p ++ [v]) rs else none

/-- `current.traverse()` filtered on `end_test_node is not None` -/
def below (t : Trie) (p : List String) : List Nat :=
  t.filterMap (fun e => if p.isPrefixOf e.path then e.fin else none)

/-- `PrefixTree.get` (result order is not modelled: compare as sets/multisets) -/
def get (t : Trie) (q : List String) : List Nat :=
  match q with
  | [] => []
  | q0 :: qs =>
    (labelled t q0).flatMap (fun p =>
      match follow t p qs with
      | some p' => below t p'
      | none => [])

/-- `PrefixTree.__contains__` -/
def contains (t : Trie) (q : List String) : Bool :=
  match q with
  | [] => false
  | q0 :: qs => (labelled t q0).any (fun p => (follow t p qs).isSome)

/-! ## Edge registers -/

/-- `_registry`: node key (bridged form) ↦ worker id ↦ counter, as a history-free assoc list -/
abbrev Register := List ((String × String) × Nat)

def regGet (r : Register) (k : String × String) : Nat :=
  match r with
  | [] => 0
  | (k', c) :: rest => if k' == k then c else regGet rest k

def register (r : Register) (node worker : String) : Register :=
  match r with
  | [] => [((node, worker), 1)]
  | (k', c) :: rest =>
    if k' == (node, worker) then (k', c + 1) :: rest else (k', c) :: register rest node worker

def sumCounts (l : List ((String × String) × Nat)) : Nat := (l.map (·.2)).sum

/-- `get_counters(node, worker)` with both, one or no argument -/
def keyMatches (node worker : Option String) (k : String × String) : Bool :=
  (match node with | some n => k.1 == n | none => true) &&
  (match worker with | some w => k.2 == w | none => true)

def getCounters (r : Register) (node worker : Option String) : Nat :=
  sumCounts (r.filter (fun e => keyMatches node worker e.1))

/-- `get_workers(node)` (a set in Python: deduplicated here, order not modelled) -/
def dedup : List String → List String
  | [] => []
  | a :: l => if l.contains a then dedup l else a :: dedup l

def getWorkers (r : Register) (node : Option String) : List String :=
  dedup ((r.filter (fun e => match node with | some n => e.1.1 == n | none => true)).map (·.1.2))

/-! ## Bridging: which register object a node reads and writes

Every node starts with its own register object (id = the node's index).  `a.bridge_with_node(b)`
makes `a` adopt `b`'s register objects (all four registers move together, so one id stands for
the quadruple) — unless they are already bridged, then it is a no-op. -/

structure Bridging where
  regOf   : List (Nat × Nat)        -- node ↦ register id
  bridged : List (Nat × Nat)        -- `b in a._bridged_nodes`
deriving Repr

def lookupReg : List (Nat × Nat) → Nat → Nat
  | [], n => n
  | (k, r) :: rest, n => if k == n then r else lookupReg rest n

def Bridging.reg (b : Bridging) (n : Nat) : Nat := lookupReg b.regOf n

def Bridging.isBridged (b : Bridging) (x y : Nat) : Bool := b.bridged.contains (x, y)

def Bridging.setReg (b : Bridging) (n r : Nat) : Bridging :=
  { b with regOf := (n, r) :: b.regOf }

/-- `a.bridge_with_node(c)` for equivalent nodes (the `ValueError` for non-equivalent nodes is checked
by the harness directly): no-op when `c is a` or when already bridged, otherwise both are recorded
as bridged and `a` adopts the register objects of `c`. -/
def Bridging.bridge (b : Bridging) (a c : Nat) : Bridging :=
  if a == c || b.isBridged a c then b
  else { regOf := (a, b.reg c) :: b.regOf, bridged := (a, c) :: (c, a) :: b.bridged }

end I2N.Index
