/-
E3 `pool` (the C13 part): model of `avocado_i2n/states/pool.py`
  `SourcedStateBackend.get_sources / get_source_scope / show / get / set / unset` and
  `RootSourcedStateBackend.check_root / get_root / set_root / unset_root`.

What the model returns is what the property speaks about: the ordered list of *contacts* — which call went
to the local cache (`_show/_get/_set/_unset`, `_check_root/...`) and which transport call went to which
source — plus the value or error of the operation.

Imports only the literal tables regenerated from /repo on every run (scope names, proximity weights).
The compiled driver `drv_pool` runs exactly these definitions.
-/
import I2N.Extracted.Pool
namespace I2N.Pool
open I2N.Extracted.Pool

/-- Python exceptions seen at this seam.  `noLocalState` / `invalidScope` are both `RuntimeError`
("Updating state pool requires local (root) states" / "Invalid pool scope …"). -/
inductive Err | valueError | noLocalState | invalidScope
deriving DecidableEq, Repr

/-- one element of `<do>_location`: `"<net>:<path>"` (`net` empty = a path on this very host) -/
structure Src where
  net  : String
  path : String
deriving DecidableEq, Repr

def Src.str (s : Src) : String := s.net ++ ":" ++ s.path

/-- `str.split(":")` on the characters -/
def splitColon : List Char → List (List Char)
  | [] => [[]]
  | c :: cs =>
    match splitColon cs with
    | [] => [[]]
    | h :: t => if c == ':' then [] :: h :: t else (c :: h) :: t

/-- `source_net, source_path = source.split(":")` — anything but exactly one colon is a `ValueError` -/
def parseSrc (s : String) : Option Src :=
  match splitColon s.toList with
  | [n, p] => some ⟨String.ofList n, String.ofList p⟩
  | _ => none

def parseAll : List String → Option (List Src)
  | [] => some []
  | s :: rest =>
    match parseSrc s, parseAll rest with
    | some x, some xs => some (x :: xs)
    | _, _ => none

/-- the parameters of the acting worker that the code reads -/
structure Env where
  gateway    : String                      -- `nets_gateway`
  host       : String                      -- `nets_host`
  swarmPool  : String                      -- `swarm_pool`
  sharedPool : String                      -- `shared_pool`
  netGateway : List (String × String)      -- `nets_gateway_<net>` overrides
  netHost    : List (String × String)      -- `nets_host_<net>` overrides

/-- `source_params = params.object_params(source_net) if source_net else params`, key `nets_gateway` -/
def Env.srcGateway (e : Env) (s : Src) : String :=
  if s.net == "" then e.gateway else (e.netGateway.lookup s.net).getD e.gateway

def Env.srcHost (e : Env) (s : Src) : String :=
  if s.net == "" then e.host else (e.netHost.lookup s.net).getD e.host

/-- `get_sources.proximity` -/
def proximity (e : Env) (s : Src) : Nat :=
  (if e.gateway == e.srcGateway s then proxGateway else 0) +
  (if e.host == e.srcHost s then proxHost else 0) +
  (if e.swarmPool == s.path then proxSwarmPath else proxOtherPath)

/-- `Params.objects`: duplicates removed, first occurrence kept -/
def dedup : List Src → List Src
  | [] => []
  | x :: xs => x :: (dedup xs).filter (· != x)

/-- insertion used by `sortDesc`: after all strictly larger keys, before equal ones -/
def insertDesc (key : Src → Nat) (x : Src) : List Src → List Src
  | [] => [x]
  | y :: ys => if key x < key y then y :: insertDesc key x ys else x :: y :: ys

/-- `sorted(l, key=key, reverse=True)`: descending, stable (equal keys keep their original order) -/
def sortDesc (key : Src → Nat) : List Src → List Src
  | [] => []
  | x :: xs => insertDesc key x (sortDesc key xs)

/-- `get_sources(do, params)` on the parsed `<do>_location` list -/
def getSources (e : Env) (locs : List Src) : List Src := sortDesc (proximity e) (dedup locs)

/-- `str.lstrip(":")` -/
def lstripColon (s : String) : String := String.ofList (s.toList.dropWhile (· == ':'))

/-- `get_source_scope(source_path, source_params, own_params)` -/
def sourceScope (e : Env) (s : Src) : String :=
  if e.gateway != e.srcGateway s then scopeOtherGateway
  else if e.host != e.srcHost s then scopeOtherHost
  else if lstripColon e.sharedPool == s.path then scopeSharedPath
  else if e.swarmPool == s.path then scopeSwarmPath
  else scopeElse

/-- the filtering stage of all four loops, negated:
`if source_scope == "own" or source_scope not in scopes: continue` -/
def permitted (skip : String) (e : Env) (scopes : List String) (s : Src) : Bool :=
  !(sourceScope e s == skip) && scopes.contains (sourceScope e s)

/-- what the stubs answer: the local cache listing, each mirror's listing, and the outcome of
`transport.compare_chain` against each source -/
structure World where
  cache  : List String
  mirror : Src → List String
  valid  : Src → Bool

inductive Contact
  | localShow | localGet | localSet | localUnset                -- `_show / _get / _set / _unset`
  | poolShow (s : Src) | poolCompare (s : Src) | poolGet (s : Src) | poolSet (s : Src) | poolUnset (s : Src)
deriving DecidableEq, Repr

/-- the source a transport contact went to -/
def Contact.source : Contact → Option Src
  | .poolShow s | .poolCompare s | .poolGet s | .poolSet s | .poolUnset s => some s
  | _ => none

/-! ### `SourcedStateBackend.show` -/

/-- the accumulator update of `show`:
`pool_states = set(mirror_states) if not pool_states else pool_states.intersection(mirror_states)` -/
def accumulate (acc mirror : List String) : List String :=
  if acc.isEmpty then mirror else acc.filter (mirror.contains ·)

/-- the `for source in sources` loop of `show`: resulting `pool_states` and the contacts made -/
def showLoop (e : Env) (w : World) (scopes : List String) : List Src → List String → List String × List Contact
  | [], acc => (acc, [])
  | s :: rest, acc =>
    if permitted showSkip e scopes s then
      let r := showLoop e w scopes rest (accumulate acc (w.mirror s))
      (r.1, .poolShow s :: r.2)
    else showLoop e w scopes rest acc

/-- `show`: the listed states (as a list; Python returns `list(set(...))`) and the contacts -/
def showOp (e : Env) (w : World) (scopes : List String) (locs : List Src) : List String × List Contact :=
  let own := scopes.contains showLocal
  let r := showLoop e w scopes (getSources e locs) []
  ((if own then w.cache else []) ++ r.1, (if own then [Contact.localShow] else []) ++ r.2)

/-! ### `SourcedStateBackend.get` -/

/-- the body of the `get` loop for the chosen source (everything between the filter and `break`) -/
def getFrom (w : World) (state : String) (s : Src) : List Contact :=
  [.localShow, .poolShow s] ++
    (if (w.mirror s).contains state then
       (if w.cache.contains state then
          .poolCompare s :: (if w.valid s then [] else [.poolGet s])
        else [.poolGet s])
     else [])

/-- the `for source in sources: … break` loop of `get` -/
def getLoop (e : Env) (w : World) (scopes : List String) (state : String) : List Src → List Contact
  | [] => []
  | s :: rest => if permitted getSkip e scopes s then getFrom w state s else getLoop e w scopes state rest

def getOp (e : Env) (w : World) (scopes : List String) (state : String) (locs : List Src) : List Contact :=
  getLoop e w scopes state (getSources e locs) ++ (if scopes.contains getLocal then [.localGet] else [])

/-! ### `SourcedStateBackend.set` / `unset` -/

def setOp (e : Env) (w : World) (scopes : List String) (state : String) (locs : List Src) :
    Except Err Unit × List Contact :=
  let mirrors := ((getSources e locs).filter (permitted setSkip e scopes)).map Contact.poolSet
  if scopes.contains setLocal then (.ok (), .localSet :: mirrors)
  else if w.cache.contains state then (.ok (), .localShow :: mirrors)
  else (.error .noLocalState, [.localShow])

def unsetOp (e : Env) (scopes : List String) (locs : List Src) : List Contact :=
  (if scopes.contains unsetLocal then [Contact.localUnset] else []) ++
  ((getSources e locs).filter (permitted unsetSkip e scopes)).map Contact.poolUnset

/-! ### raw entry points (location strings as they stand in the parameters) -/

def showRaw (e : Env) (w : World) (scopes : List String) (locs : List String) :
    Except Err (List String) × List Contact :=
  match parseAll locs with
  | none => (.error .valueError, [])
  | some l => let r := showOp e w scopes l; (.ok r.1, r.2)

def getRaw (e : Env) (w : World) (scopes : List String) (state : String) (locs : List String) :
    Except Err Unit × List Contact :=
  match parseAll locs with
  | none => (.error .valueError, [])
  | some l => (.ok (), getOp e w scopes state l)

def setRaw (e : Env) (w : World) (scopes : List String) (state : String) (locs : List String) :
    Except Err Unit × List Contact :=
  match parseAll locs with
  | none => (.error .valueError, [])
  | some l => setOp e w scopes state l

def unsetRaw (e : Env) (scopes : List String) (locs : List String) : Except Err Unit × List Contact :=
  match parseAll locs with
  | none => (.error .valueError, [])
  | some l => (.ok (), unsetOp e scopes l)

/-! ### `RootSourcedStateBackend`

`params["pool_scope"]` is used as a raw string there (`== "own"`, `"own" not in …` — a *substring* test).
The model works on the token list `scopes` of a canonical string (names joined by single blanks):
`== "own"` is `scopes == ["own"]`, and since the needle contains no blank, it is a substring of the joined
string iff it is a substring of one of the tokens. -/

def isInfixChars (n : List Char) : List Char → Bool
  | [] => n.isEmpty
  | c :: cs => n.isPrefixOf (c :: cs) || isInfixChars n cs

/-- `needle in " ".join(scopes)` for a blank-free needle -/
def inScopeString (needle : String) (scopes : List String) : Bool :=
  scopes.any (fun t => isInfixChars needle.toList t.toList)

structure RootWorld where
  localRoot : Bool              -- `_check_root`
  poolRoot  : Bool              -- `transport.check_root`
  valid     : List Bool         -- `transport.ops.compare` per image of the vm, in `images` order
  isVm      : Bool              -- `params["object_type"] in ["vms", "nets/vms"]`

inductive RContact
  | localCheck | localGet | localSet | localUnset               -- `_check_root / _get_root / …`
  | poolCheck | poolCompare (image : Nat) | poolGet | poolSet | poolUnset   -- `transport.*` = the shared pool
deriving DecidableEq, Repr

def RContact.isPool : RContact → Bool
  | .poolCheck | .poolCompare _ | .poolGet | .poolSet | .poolUnset => true
  | _ => false

def checkRoot (rw : RootWorld) (scopes : List String) : Bool × List RContact :=
  if scopes == [checkRootLocal] then (rw.localRoot, [.localCheck])
  else (rw.localRoot || (rw.poolRoot && !rw.isVm), [.localCheck, .poolCheck])

/-- the `for image_name in params.objects("images")` loop of `get_root`: contacts and `cache_valid` -/
def compareLoop : List Bool → Nat → List RContact × Bool
  | [], _ => ([], true)
  | v :: vs, i =>
    if v then let r := compareLoop vs (i + 1); (.poolCompare i :: r.1, r.2)
    else ([.poolCompare i], false)

def getRoot (rw : RootWorld) (scopes : List String) : List RContact :=
  if !(inScopeString getRootNotIn scopes) then [.poolGet]
  else if scopes == [getRootLocal] then [.localGet]
  else
    [.localCheck, .poolCheck] ++
    (if rw.poolRoot then
       (if rw.localRoot then
          let r := compareLoop rw.valid 0
          r.1 ++ (if r.2 then [] else [.poolGet])
        else [.poolGet])
     else []) ++ [.localGet]

def setRoot (rw : RootWorld) (scopes : List String) : Except Err Unit × List RContact :=
  if scopes == [setRootLocal] then (.ok (), [.localSet])
  else if scopes == [setRootPool] then
    if rw.localRoot then (.ok (), [.localCheck, .poolSet]) else (.error .noLocalState, [.localCheck])
  else (.error .invalidScope, [])

def unsetRoot (scopes : List String) : Except Err Unit × List RContact :=
  if scopes == [unsetRootLocal] then (.ok (), [.localUnset])
  else if scopes == [unsetRootPool] then (.ok (), [.poolUnset])
  else (.error .invalidScope, [])

/-! ### cache validation: `QCOW2ImageTransfer.compare_chain` and the routing of `TransferOps.compare`

`chain` = the requested state followed by its backing dependencies (`get_dependency` until `""`). -/

/-- the files of one state, in the order the loop body visits them: every image's `<image>/<state>.qcow2`, then
`<state>.state` if asked for -/
def stateFiles (images : List String) (withVmState : Bool) (st : String) : List String :=
  images.map (fun i => i ++ "/" ++ st ++ chainImageSuffix) ++ (if withVmState then [st ++ chainStateSuffix] else [])

/-- all files backing a state, in visiting order; the vm state file only for the requested state itself
(`next_state == state and params["object_type"] in ["vms", "nets/vms"]`) -/
def chainFiles (images : List String) (isVm : Bool) (chain : List String) : List String :=
  match chain with
  | [] => []
  | first :: _ => chain.flatMap (fun st => stateFiles images (isVm && st == first) st)

/-- compare in order, stop at the first difference: verdict and the files compared -/
def compareFiles (same : String → Bool) : List String → Bool × List String
  | [] => (true, [])
  | f :: fs => if same f then let r := compareFiles same fs; (r.1, f :: r.2) else (false, [f])

/-- `compare_chain(state, cache_dir, pool_dir, params)`; `same f` = `ops.compare(cache_dir/vm/f, pool_dir/vm/f)` -/
def compareChain (images : List String) (isVm : Bool) (same : String → Bool) (chain : List String) :
    Bool × List String :=
  compareFiles same (chainFiles images isVm chain)

inductive CmpRoute
  | remote (cache pool : String)       -- `compare_remote(cache_path, pool_path)`
  | link (cache path : String)         -- `compare_link(cache_path, path.replace(";", ""))`
  | plain (cache path : String)        -- `compare_local(cache_path, path)`
deriving DecidableEq, Repr

/-- `TransferOps.compare`: `hosts, path = pool_path.split(":")`; remote if `hosts != ""`, link if `";" in path` -/
def compareRoute (cache pool : String) : Except Err CmpRoute :=
  match splitColon pool.toList with
  | [h, p] =>
    if !h.isEmpty then .ok (.remote cache pool)
    else if p.contains ';' then .ok (.link cache (String.ofList (p.filter (· != ';'))))
    else .ok (.plain cache (String.ofList p))
  | _ => .error .valueError

/-! ### `QCOW2ImageTransfer.show`: directory listing → state names

`states = [p.replace(format, "") for p in cls.ops.list_paths(path, params)]` with `format = ".qcow2"` for image states and
`".state"` for vm states.  `str.replace(fmt, "")` removes the leftmost non-overlapping occurrences of `fmt`; it is modelled on
character lists (the kernel cannot evaluate `String.replace`). -/

/-- `some rest` if `pat` is a prefix of the list -/
def dropPrefix? : List Char → List Char → Option (List Char)
  | [], s => some s
  | _ :: _, [] => none
  | a :: as, b :: bs => if a == b then dropPrefix? as bs else none

/-- remove the leftmost non-overlapping occurrences of a non-empty `pat` (`fuel` ≥ length of the input) -/
def removeAllF (pat : List Char) : Nat → List Char → List Char
  | 0, s => s
  | _, [] => []
  | fuel + 1, c :: cs =>
    match dropPrefix? pat (c :: cs) with
    | some rest => removeAllF pat fuel rest
    | none => c :: removeAllF pat fuel cs

def showFormat (isImage : Bool) : String := if isImage then ".qcow2" else ".state"

/-- `p.replace(fmt, "")` -/
def entryName (fmt p : String) : String :=
  if fmt.isEmpty then p else String.ofList (removeAllF fmt.toList p.length p.toList)

/-- what `QCOW2ImageTransfer.show` reports for a directory listing -/
def transferShow (isImage : Bool) (listing : List String) : List String :=
  listing.map (entryName (showFormat isImage))

/-- the listed directory: `os.path.join(pool_dir, vm_id[/image])` (`state_tag.replace(vm_name, vm_id)`) -/
def transferShowPath (poolDir vmId image : String) (isImage : Bool) : String :=
  if isImage then poolDir ++ "/" ++ vmId ++ "/" ++ image else poolDir ++ "/" ++ vmId

end I2N.Pool
