import I2N.Model.Index
/-! Helper lemmas for C16: edge registers and bridging. -/
namespace I2N.Index

def registerAll (ops : List (String × String)) : Register :=
  ops.foldl (fun r op => register r op.1 op.2) []

theorem getCounters_register (r : Register) (n w : String) (no wo : Option String) :
    getCounters (register r n w) no wo = getCounters r no wo + (if keyMatches no wo (n, w) then 1 else 0) := by
  induction r with
  | nil =>
    simp only [register, getCounters, sumCounts, List.filter]
    cases keyMatches no wo (n, w) <;> simp
  | cons e rest ih =>
    obtain ⟨k, c⟩ := e
    simp only [register]
    by_cases hk : (k == (n, w)) = true
    · have hk' : k = (n, w) := by simpa using hk
      subst hk'
      simp only [beq_self_eq_true, if_true]
      unfold getCounters sumCounts
      simp only [List.filter]
      by_cases hm : keyMatches no wo (n, w) = true
      · simp [hm]; omega
      · simp [hm]
    · simp only [hk]
      unfold getCounters sumCounts at ih ⊢
      simp only [List.filter, Bool.false_eq_true, if_false]
      by_cases hm : keyMatches no wo k = true
      · simp only [hm, List.map_cons, List.sum_cons]; rw [ih]; omega
      · simp only [hm]; exact ih

theorem getCounters_foldl (r : Register) (ops : List (String × String)) (no wo : Option String) :
    getCounters (ops.foldl (fun r op => register r op.1 op.2) r) no wo
      = getCounters r no wo + (ops.filter (keyMatches no wo)).length := by
  induction ops generalizing r with
  | nil => simp
  | cons op rest ih =>
    simp only [List.foldl_cons]
    rw [ih, getCounters_register]
    simp only [List.filter]
    split <;> simp_all <;> omega

theorem mem_dedup (l : List String) (a : String) : a ∈ dedup l ↔ a ∈ l := by
  induction l with
  | nil => simp [dedup]
  | cons b l ih =>
    simp only [dedup]
    split
    · rename_i h
      have : b ∈ l := by simpa using h
      rw [ih]; simp only [List.mem_cons]
      constructor
      · exact Or.inr
      · rintro (rfl | h') <;> assumption
    · simp [ih]

theorem nodup_dedup (l : List String) : (dedup l).Nodup := by
  induction l with
  | nil => simp [dedup]
  | cons b l ih =>
    simp only [dedup]
    split
    · exact ih
    · rename_i h
      rw [List.nodup_cons]
      refine ⟨?_, ih⟩
      rw [mem_dedup]; simpa using h

/-- the keys present in a register are exactly the registered (node, worker) pairs -/
theorem mem_keys_register (r : Register) (n w : String) (k : String × String) :
    k ∈ (register r n w).map (·.1) ↔ k ∈ r.map (·.1) ∨ k = (n, w) := by
  induction r with
  | nil => simp [register]
  | cons e rest ih =>
    obtain ⟨k', c⟩ := e
    simp only [register]
    by_cases hk : (k' == (n, w)) = true
    · have hk' : k' = (n, w) := by simpa using hk
      subst hk'
      simp only [beq_self_eq_true, if_true, List.map_cons, List.mem_cons]
      constructor
      · rintro (h | h)
        · exact Or.inl (Or.inl h)
        · exact Or.inl (Or.inr h)
      · rintro ((h | h) | h)
        · exact Or.inl h
        · exact Or.inr h
        · exact Or.inl h
    · simp only [hk, Bool.false_eq_true, if_false, List.map_cons, List.mem_cons]
      rw [ih]
      constructor
      · rintro (h | h | h)
        · exact Or.inl (Or.inl h)
        · exact Or.inl (Or.inr h)
        · exact Or.inr h
      · rintro ((h | h) | h)
        · exact Or.inl h
        · exact Or.inr (Or.inl h)
        · exact Or.inr (Or.inr h)

theorem mem_keys_foldl (r : Register) (ops : List (String × String)) (k : String × String) :
    k ∈ (ops.foldl (fun r op => register r op.1 op.2) r).map (·.1) ↔ k ∈ r.map (·.1) ∨ k ∈ ops := by
  induction ops generalizing r with
  | nil => simp
  | cons op rest ih =>
    simp only [List.foldl_cons]
    rw [ih, mem_keys_register]
    simp only [List.mem_cons]
    constructor
    · rintro ((h | h) | h)
      · exact Or.inl h
      · exact Or.inr (Or.inl h)
      · exact Or.inr (Or.inr h)
    · rintro (h | h | h)
      · exact Or.inl (Or.inl h)
      · exact Or.inl (Or.inr h)
      · exact Or.inr h

theorem mem_getWorkers (r : Register) (no : Option String) (w : String) :
    w ∈ getWorkers r no ↔ ∃ k ∈ r.map (·.1), keyMatches no none k = true ∧ k.2 = w := by
  unfold getWorkers
  rw [mem_dedup]
  simp only [List.mem_map, List.mem_filter]
  constructor
  · rintro ⟨e, ⟨he, hm⟩, rfl⟩
    exact ⟨e.1, ⟨e, he, rfl⟩, by simpa [keyMatches] using hm, rfl⟩
  · rintro ⟨k, ⟨e, he, rfl⟩, hm, rfl⟩
    exact ⟨e, ⟨he, by simpa [keyMatches] using hm⟩, rfl⟩

/-! ### bridging -/

theorem reg_bridge (b : Bridging) (a c m : Nat) :
    (b.bridge a c).reg m = if m = a ∧ a ≠ c ∧ b.isBridged a c = false then b.reg c else b.reg m := by
  unfold Bridging.bridge
  by_cases h1 : a = c
  · simp [h1]
  · cases h2 : b.isBridged a c
    · have : (a == c) = false := by simpa using h1
      simp only [this, Bool.or_self, Bool.false_eq_true, if_false, Bridging.reg, lookupReg]
      by_cases hm : m = a
      · subst hm; simp [h1]
      · have : (a == m) = false := by simpa using (fun h' => hm h'.symm)
        simp [this, hm]
    · simp

theorem isBridged_bridge (b : Bridging) (a c x y : Nat) :
    (b.bridge a c).isBridged x y =
      (b.isBridged x y || (a != c && !b.isBridged a c && ((x, y) == (a, c) || (x, y) == (c, a)))) := by
  unfold Bridging.bridge
  by_cases h1 : a = c
  · simp [h1]
  · cases h2 : b.isBridged a c
    · have : (a == c) = false := by simpa using h1
      simp only [this, Bool.or_self, Bool.false_eq_true, if_false, Bridging.isBridged, List.contains_cons]
      have h1' : (a != c) = true := by simpa using h1
      simp only [h1', Bool.not_false, Bool.and_self, Bool.true_and]
      cases hxy1 : ((x, y) == (a, c)) <;> cases hxy2 : ((x, y) == (c, a)) <;>
        cases List.contains b.bridged (x, y) <;> rfl
    · simp


/-- graph.py discipline: a newly parsed node bridges with every old equivalent node in turn -/
def bridgeWithAll (b : Bridging) (n : Nat) (olds : List Nat) : Bridging :=
  olds.foldl (fun b c => b.bridge n c) b

theorem bridgeWithAll_spec (b : Bridging) (n : Nat) (olds : List Nat) (hnd : olds.Nodup) (hn : n ∉ olds)
    (hfresh : ∀ c ∈ olds, b.isBridged n c = false) :
    (∀ m, m ≠ n → (bridgeWithAll b n olds).reg m = b.reg m) ∧
    ((bridgeWithAll b n olds).reg n = match olds.getLast? with | none => b.reg n | some c => b.reg c) ∧
    (∀ x y, (bridgeWithAll b n olds).isBridged x y =
        (b.isBridged x y || (x == n && olds.contains y) || (y == n && olds.contains x))) := by
  induction olds generalizing b with
  | nil => simp [bridgeWithAll]
  | cons c rest ih =>
    rw [List.nodup_cons] at hnd
    have hnc : n ≠ c := fun h => hn (by simp [h])
    have hnr : n ∉ rest := fun h => hn (by simp [h])
    have hbc : b.isBridged n c = false := hfresh c (by simp)
    have hfresh' : ∀ d ∈ rest, (b.bridge n c).isBridged n d = false := by
      intro d hd
      rw [isBridged_bridge]
      have hdc : d ≠ c := fun h => hnd.1 (h ▸ hd)
      have hdn : d ≠ n := fun h => hnr (h ▸ hd)
      have := hfresh d (by simp [hd])
      simp [this, hdc, hdn]
    obtain ⟨i1, i2, i3⟩ := ih (b.bridge n c) hnd.2 hnr hfresh'
    simp only [bridgeWithAll, List.foldl_cons] at i1 i2 i3 ⊢
    refine ⟨?_, ?_, ?_⟩
    · intro m hm
      rw [i1 m hm, reg_bridge]
      simp [hm]
    · rw [i2]
      cases hr : rest.getLast? with
      | none =>
        have : rest = [] := by simpa using hr
        subst this
        simp [reg_bridge, hnc, hbc]
      | some d =>
        have hd : d ∈ rest := List.mem_of_getLast? hr
        have hdn : d ≠ n := fun h => hnr (h ▸ hd)
        simp only [List.getLast?_cons, hr, Option.getD_some]
        rw [reg_bridge]; simp [hdn]
    · intro x y
      rw [i3, isBridged_bridge]
      have hnc' : (n != c) = true := by simpa using hnc
      simp only [hnc', hbc, Bool.not_false, Bool.and_self, Bool.true_and, List.contains_cons]
      have e1 : ((x, y) == (n, c)) = (x == n && y == c) := rfl
      have e2 : ((x, y) == (c, n)) = (x == c && y == n) := rfl
      rw [e1, e2]
      generalize b.isBridged x y = B
      generalize (x == n) = xn
      generalize (y == c) = yc
      generalize (x == c) = xc
      generalize (y == n) = yn
      generalize rest.contains y = ry
      generalize rest.contains x = rx
      cases B <;> cases xn <;> cases yc <;> cases xc <;> cases yn <;> cases ry <;> cases rx <;> rfl

/-- nodes of one equivalence class arriving one by one (parse order), each bridging with all earlier ones -/
def arrive (st : Bridging × List Nat) (n : Nat) : Bridging × List Nat :=
  (bridgeWithAll st.1 n st.2, st.2 ++ [n])

structure ClassInv (st : Bridging × List Nat) : Prop where
  seen_nodup : st.2.Nodup
  shared : ∀ x ∈ st.2, ∀ y ∈ st.2, st.1.reg x = st.1.reg y
  fresh : ∀ x, x ∉ st.2 → ∀ y, st.1.isBridged x y = false ∧ st.1.isBridged y x = false
  sym : ∀ x y, st.1.isBridged x y = st.1.isBridged y x
  linked : ∀ x ∈ st.2, ∀ y ∈ st.2, x ≠ y → st.1.isBridged x y = true

theorem classInv_init : ClassInv ({ regOf := [], bridged := [] }, []) := by
  refine ⟨by simp, by simp, ?_, ?_, by simp⟩
  · intro x _ y; simp [Bridging.isBridged]
  · intro x y; simp [Bridging.isBridged]

theorem classInv_arrive (st : Bridging × List Nat) (n : Nat) (h : ClassInv st) (hn : n ∉ st.2) :
    ClassInv (arrive st n) := by
  obtain ⟨b, seen⟩ := st
  simp only at h hn
  obtain ⟨s1, s2, s3⟩ := bridgeWithAll_spec b n seen h.seen_nodup hn (fun c _ => (h.fresh n hn c).1)
  refine ⟨?_, ?_, ?_, ?_, ?_⟩
  · simp only [arrive]
    rw [List.nodup_append]
    refine ⟨h.seen_nodup, by simp, ?_⟩
    intro a ha b' hb'; simp at hb'; subst hb'; intro hab; subst hab; exact hn ha
  · -- all seen nodes (old and new) share one register
    have key : ∀ x ∈ seen, (bridgeWithAll b n seen).reg x = (bridgeWithAll b n seen).reg n := by
      intro x hx
      have hxn : x ≠ n := fun hh => hn (hh ▸ hx)
      rw [s1 x hxn, s2]
      cases hl : seen.getLast? with
      | none => have : seen = [] := by simpa using hl
                subst this; simp at hx
      | some d => exact h.shared x hx d (List.mem_of_getLast? hl)
    intro x hx y hy
    simp only [arrive, List.mem_append, List.mem_singleton] at hx hy ⊢
    rcases hx with hx | rfl <;> rcases hy with hy | rfl
    · rw [key x hx, key y hy]
    · exact key x hx
    · exact (key y hy).symm
    · rfl
  · intro x hx y
    simp only [arrive, List.mem_append, List.mem_singleton, not_or] at hx ⊢
    have hxn : (x == n) = false := by simpa using hx.2
    have hxs : seen.contains x = false := by simpa using hx.1
    rw [s3, s3]
    simp [hxn, hx.1, (h.fresh x hx.1 y).1, (h.fresh x hx.1 y).2]
  · intro x y
    simp only [arrive]
    rw [s3, s3, h.sym x y]
    cases b.isBridged y x <;> cases (x == n) <;> cases (y == n) <;> cases seen.contains x <;>
      cases seen.contains y <;> rfl
  · intro x hx y hy hxy
    simp only [arrive, List.mem_append, List.mem_singleton] at hx hy ⊢
    rw [s3]
    rcases hx with hx | rfl <;> rcases hy with hy | rfl
    · simp [h.linked x hx y hy hxy]
    · simp [hx]
    · simp [hy]
    · exact absurd rfl hxy

theorem classInv_foldl (ms : List Nat) (st : Bridging × List Nat) (h : ClassInv st)
    (hnd : ms.Nodup) (hdisj : ∀ m ∈ ms, m ∉ st.2) : ClassInv (ms.foldl arrive st) := by
  induction ms generalizing st with
  | nil => exact h
  | cons m rest ih =>
    rw [List.nodup_cons] at hnd
    simp only [List.foldl_cons]
    apply ih _ (classInv_arrive st m h (hdisj m (by simp))) hnd.2
    intro x hx
    simp only [arrive, List.mem_append, List.mem_singleton, not_or]
    exact ⟨hdisj x (by simp [hx]), fun hh => hnd.1 (hh ▸ hx)⟩

end I2N.Index

namespace I2N.Index

/-! ### the all-pairs discipline of `intertest_setup.update`
`for node1 in nodes: for node2 in nodes: if equivalent and node1 != node2: node1.bridge_with_node(node2)` -/

theorem bridge_noop (b : Bridging) (a c : Nat) (h : a = c ∨ b.isBridged a c = true) : b.bridge a c = b := by
  unfold Bridging.bridge
  rcases h with h | h
  · simp [h]
  · simp [h]

theorem bridgeWithAll_noop (b : Bridging) (a : Nat) (l : List Nat) (h : ∀ c ∈ l, a = c ∨ b.isBridged a c = true) :
    bridgeWithAll b a l = b := by
  induction l with
  | nil => rfl
  | cons c r ih =>
    simp only [bridgeWithAll, List.foldl_cons]
    rw [bridge_noop b a c (h c (by simp))]
    exact ih (fun d hd => h d (by simp [hd]))

theorem bridgeWithAll_append (b : Bridging) (a : Nat) (l1 l2 : List Nat) :
    bridgeWithAll b a (l1 ++ l2) = bridgeWithAll (bridgeWithAll b a l1) a l2 := by
  simp [bridgeWithAll, List.foldl_append]

/-- one pass of the all-pairs loop for node `a` (inner loop over all nodes of the class) -/
def pairsStep (ms : List Nat) (b : Bridging) (a : Nat) : Bridging := bridgeWithAll b a ms

def allPairs (ms : List Nat) (b : Bridging) : Bridging := ms.foldl (pairsStep ms) b

/-- invariant of the outer loop after the nodes `done` were processed (`ms = done ++ rest`) -/
structure PairsInv (done rest : List Nat) (b : Bridging) : Prop where
  linked : ∀ x ∈ done, ∀ y ∈ done ++ rest, x ≠ y → b.isBridged x y = true ∧ b.isBridged y x = true
  only : ∀ x y, b.isBridged x y = true → (x ∈ done ∨ y ∈ done)
  regRest : ∀ y ∈ rest, b.reg y = y
  regDone : ∀ x ∈ done, b.reg x = (done ++ rest).getLast?.getD x

theorem pairsInv_step (done : List Nat) (a : Nat) (rest : List Nat) (b : Bridging)
    (hnd : (done ++ a :: rest).Nodup) (h : PairsInv done (a :: rest) b) :
    PairsInv (done ++ [a]) rest (pairsStep (done ++ a :: rest) b a) := by
  have hnd' := hnd
  rw [List.nodup_append] at hnd
  obtain ⟨hd, har, hdisj⟩ := hnd
  rw [List.nodup_cons] at har
  have ha_done : a ∉ done := fun hx => hdisj a hx a (by simp) rfl
  -- bridging with the processed nodes and with itself does nothing
  have hnoop : bridgeWithAll b a (done ++ [a]) = b := by
    apply bridgeWithAll_noop
    intro c hc
    simp only [List.mem_append, List.mem_singleton] at hc
    rcases hc with hc | hc
    · right
      have hca : c ≠ a := fun e => ha_done (e ▸ hc)
      exact (h.linked c hc a (by simp) hca).2
    · left; exact hc.symm
  have hsplit : pairsStep (done ++ a :: rest) b a = bridgeWithAll b a rest := by
    unfold pairsStep
    have : done ++ a :: rest = (done ++ [a]) ++ rest := by simp
    rw [this, bridgeWithAll_append, hnoop]
  rw [hsplit]
  have hfresh : ∀ c ∈ rest, b.isBridged a c = false := by
    intro c hc
    cases hb : b.isBridged a c
    · rfl
    · exfalso
      rcases h.only a c hb with h1 | h1
      · exact ha_done h1
      · exact hdisj c h1 c (by simp [hc]) rfl
  obtain ⟨s1, s2, s3⟩ := bridgeWithAll_spec b a rest har.2 har.1 hfresh
  refine ⟨?_, ?_, ?_, ?_⟩
  · intro x hx y hy hxy
    simp only [List.mem_append, List.mem_singleton] at hx
    have hy' : y ∈ done ++ a :: rest := by
      simp only [List.append_assoc, List.singleton_append] at hy; exact hy
    rw [s3, s3]
    rcases hx with hx | hx
    · have := h.linked x hx y hy' hxy
      simp [this.1, this.2]
    · subst hx
      -- y is processed earlier (linked by the invariant) or comes later (linked now)
      simp only [List.mem_append, List.mem_cons] at hy'
      rcases hy' with hy1 | hy1 | hy1
      · have := h.linked y hy1 x (by simp) (Ne.symm hxy)
        simp [this.1, this.2]
      · exact absurd hy1.symm hxy
      · simp [hy1]
  · intro x y hxy
    rw [s3] at hxy
    simp only [Bool.or_eq_true, Bool.and_eq_true, beq_iff_eq, List.contains_eq_mem, decide_eq_true_eq] at hxy
    simp only [List.mem_append, List.mem_singleton]
    rcases hxy with (hxy | hxy) | hxy
    · rcases h.only x y hxy with h1 | h1
      · exact Or.inl (Or.inl h1)
      · exact Or.inr (Or.inl h1)
    · exact Or.inl (Or.inr hxy.1)
    · exact Or.inr (Or.inr hxy.1)
  · intro y hy
    have hya : y ≠ a := fun e => har.1 (e ▸ hy)
    rw [s1 y hya]
    exact h.regRest y (by simp [hy])
  · intro x hx
    simp only [List.mem_append, List.mem_singleton] at hx
    have hlast : ((done ++ [a]) ++ rest).getLast? = (done ++ a :: rest).getLast? := by simp
    rw [hlast]
    rcases hx with hx | hx
    · have hxa : x ≠ a := fun e => ha_done (e ▸ hx)
      rw [s1 x hxa]
      exact h.regDone x hx
    · subst hx
      rw [s2]
      cases hr : rest.getLast? with
      | none =>
        have : rest = [] := by simpa using hr
        subst this
        simp only [List.getLast?_append, List.getLast?_singleton]
        simp [h.regRest x (by simp)]
      | some d =>
        have hdm : d ∈ rest := List.mem_of_getLast? hr
        simp only
        rw [h.regRest d (by simp [hdm])]
        have : (done ++ x :: rest).getLast? = some d := by
          rw [List.getLast?_append]
          simp [List.getLast?_cons, hr]
        simp [this]

theorem pairsInv_foldl (ms : List Nat) (hnd : ms.Nodup) (done rest : List Nat) (hms : ms = done ++ rest) (b : Bridging)
    (h : PairsInv done rest b) : PairsInv ms [] (rest.foldl (pairsStep ms) b) := by
  induction rest generalizing done b with
  | nil => simpa [hms] using h
  | cons a r ih =>
    simp only [List.foldl_cons]
    have hms' : ms = (done ++ [a]) ++ r := by simp [hms]
    apply ih (done ++ [a]) hms'
    have := pairsInv_step done a r b (hms ▸ hnd) h
    rw [hms]; exact this

end I2N.Index
