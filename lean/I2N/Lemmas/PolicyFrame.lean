import I2N.Lemmas.Policy
import I2N.Spec.Policy
/-! How the functions of the policy model move the store: frame (`Same`), no-change (`Eqv`) and
monotonicity (`Mono`) lemmas, lifted from the backend primitives to whole calls. -/
set_option linter.unusedSimpArgs false

namespace I2N.Policy
open I2N.Extracted.Policy

/-- names are kept and a root is never lost (what every state *check* guarantees) -/
def Mono (a b : St) : Prop :=
  ∀ k, (b.store.obj k).names = (a.store.obj k).names ∧ ((a.store.obj k).root = true → (b.store.obj k).root = true)

theorem Mono.refl (a : St) : Mono a a := fun _ => ⟨rfl, id⟩
theorem Mono.trans {a b c : St} (h1 : Mono a b) (h2 : Mono b c) : Mono a c := fun k =>
  ⟨(h2 k).1.trans (h1 k).1, fun h => (h2 k).2 ((h1 k).2 h)⟩
theorem Eqv.mono {a b : St} (h : Eqv a b) : Mono a b := fun k => by
  have := h k; unfold Same at this; rw [this]; exact ⟨rfl, id⟩

/-- the nested check does not create a root for this object: the root is there, or the second
letter of its `check_mode` is not `f` -/
def NoForceAt (ip : Params) (st : St) : Prop :=
  (st.store.obj (keyOf ip)).root = true ∨
    ∀ c1 c2, letters (ip.getD "check_mode" dCheckMode) = some (c1, c2) → c2 ≠ 'f'

theorem NoForceAt.of_eqv {ip : Params} {a b : St} (h : Eqv a b) (hn : NoForceAt ip a) : NoForceAt ip b := by
  cases hn with
  | inl hr => left; have := h (keyOf ip); unfold Same at this; rw [this]; exact hr
  | inr hc => right; exact hc

/-! ### the root prerequisite -/

theorem keyOf_scope (sp : Params) (v : String) : keyOf (sp.set "pool_scope" v) = keyOf sp :=
  keyOf_set _ _ _ (by decide)

theorem rootPhase_obj (b : String) (sp : Params) (c1 c2 : Char) (st : St) (k : Key) :
    (rootPhase b sp c1 c2 st).2.store.obj k =
      if keyOf sp = k ∧ (st.store.obj (keyOf sp)).root = false ∧ c2 = 'f'
      then { st.store.obj (keyOf sp) with root := true } else st.store.obj k := by
  unfold rootPhase
  simp only [bCheckRoot_val, bCheckRoot_store]
  cases hr : (st.store.obj (keyOf sp)).root
  · by_cases h2 : c2 = 'f'
    · simp [h2, bSetRoot_obj, keyOf_scope]
    · by_cases h3 : c2 = 'r' <;> simp [h2, h3]
  · by_cases h1 : c1 = 'f'
    · simp only [h1, Bool.not_true, Bool.false_eq_true, ↓reduceIte, beq_self_eq_true]
      have e : ∀ o : Obj, o.root = true → ({ o with root := true } : Obj) = o := by
        intro o h; cases o; simp_all
      split
      · simp only [bSetRoot_obj, keyOf_scope, bDestroy_store, bCheckRoot_store]
        split
        · rename_i hk; subst hk; simp [e _ hr]
        · simp
      · simp only [bSetRoot_obj, bUnsetRoot_obj, keyOf_scope, bCheckRoot_store]
        split
        · rename_i hk; subst hk; simp [e _ hr]
        · simp
    · simp [h1]

theorem rootPhase_same (b sp c1 c2 st k) (h : keyOf sp ≠ k) : Same k st (rootPhase b sp c1 c2 st).2 := by
  simp [Same, rootPhase_obj, h]

theorem rootPhase_eqv (b sp c1 c2 st)
    (h : (st.store.obj (keyOf sp)).root = true ∨ c2 ≠ 'f') : Eqv st (rootPhase b sp c1 c2 st).2 := by
  intro k; unfold Same; rw [rootPhase_obj]
  cases h with
  | inl h => simp [h]
  | inr h => simp [h]

theorem rootPhase_mono (b sp c1 c2 st) : Mono st (rootPhase b sp c1 c2 st).2 := by
  intro k; rw [rootPhase_obj]
  split
  · rename_i h; obtain ⟨hk, _, _⟩ := h; subst hk; simp
  · exact ⟨rfl, id⟩

/-- after a root phase that lets the check go on, the root exists -/
theorem rootPhase_root (b sp c1 c2 st u st') (h : rootPhase b sp c1 c2 st = (.ok (some u), st')) :
    (st'.store.obj (keyOf sp)).root = true := by
  have := rootPhase_obj b sp c1 c2 st (keyOf sp)
  rw [h] at this; simp only at this; rw [this]
  unfold rootPhase at h
  simp only [bCheckRoot_val, bCheckRoot_store] at h
  cases hr : (st.store.obj (keyOf sp)).root
  · by_cases h2 : c2 = 'f'
    · simp [h2]
    · by_cases h3 : c2 = 'r' <;> simp [hr, h2, h3] at h
  · simp [hr]

theorem checkCore_store (b sp state c1 c2 st) :
    (checkCore b sp state c1 c2 st).2.store = (rootPhase b sp c1 c2 st).2.store := by
  unfold checkCore
  split
  · rename_i h; rw [h]
  · rename_i h; rw [h]
  · rename_i h; rw [h]
    split <;> rfl

theorem checkOne_store (B : Backends) (sp : Params) (st : St) :
    (checkOne B sp st).2.store = st.store ∨
    ∃ b c1 c2, letters (sp.getD "check_mode" dCheckMode) = some (c1, c2) ∧
      (checkOne B sp st).2.store = (rootPhase b (checkDefaults sp) c1 c2 st).2.store := by
  rcases hg : guardSkip sp with e | g
  · left; simp [checkOne, hg]
  by_cases hgt : g = true
  · subst hgt; left; simp [checkOne, hg]
  have hgf : g = false := by cases g <;> simp_all
  subst hgf
  rcases ht : sp.truthy "check_state" with _ | state
  · left; simp [checkOne, hg, ht]
  rcases hb : backendOf B (checkDefaults sp) with e | ⟨b, s⟩
  · left; simp [checkOne, hg, ht, hb]
  rcases hv : (checkDefaults sp).get? "vms" with _ | v
  · left; simp [checkOne, hg, ht, hb, hv]
  rcases hl : letters ((checkDefaults sp).getD "check_mode" "") with _ | ⟨c1, c2⟩
  · left; simp [checkOne, hg, ht, hb, hv, hl]
  right
  refine ⟨b, c1, c2, by rwa [checkMode_checkDefaults] at hl, ?_⟩
  simp [checkOne, hg, ht, hb, hv, hl, checkCore_store]

theorem Same.of_store {k : Key} {a b c : St} (h : c.store = b.store) (hs : Same k a b) : Same k a c := by
  unfold Same at *; rw [h, hs]
theorem Eqv.of_store {a b c : St} (h : c.store = b.store) (hs : Eqv a b) : Eqv a c :=
  fun k => Same.of_store h (hs k)
theorem Mono.of_store {a b c : St} (h : c.store = b.store) (hs : Mono a b) : Mono a c := by
  intro k; rw [h]; exact hs k

theorem checkOne_same (B sp st k) (h : keyOf sp ≠ k) : Same k st (checkOne B sp st).2 := by
  rcases checkOne_store B sp st with h1 | ⟨b, c1, c2, _, h1⟩
  · exact Same.of_store h1 (Same.refl _ _)
  · exact Same.of_store h1 (rootPhase_same _ _ _ _ _ _ (by rwa [keyOf_checkDefaults]))

theorem checkOne_eqv (B sp st) (h : NoForceAt sp st) : Eqv st (checkOne B sp st).2 := by
  rcases checkOne_store B sp st with h1 | ⟨b, c1, c2, hl, h1⟩
  · exact Eqv.of_store h1 (Eqv.refl _)
  · refine Eqv.of_store h1 (rootPhase_eqv _ _ _ _ _ ?_)
    rw [keyOf_checkDefaults]
    cases h with
    | inl h => exact Or.inl h
    | inr h => exact Or.inr (h c1 c2 hl)

theorem checkOne_mono (B sp st) : Mono st (checkOne B sp st).2 := by
  rcases checkOne_store B sp st with h1 | ⟨b, c1, c2, _, h1⟩
  · exact Mono.of_store h1 (Mono.refl _)
  · exact Mono.of_store h1 (rootPhase_mono _ _ _ _ _)

/-! ### `check_states` -/

theorem checkLoop_same (B : Backends) (k : Key) (l : List Params) (st : St) (h : k ∉ l.map keyOf) :
    Same k st (checkLoop B l st).2 := by
  induction l generalizing st with
  | nil => exact Same.refl _ _
  | cons sp rest ih =>
    simp only [List.map_cons, List.mem_cons, not_or] at h
    have h1 := checkOne_same B sp st k (fun e => h.1 e.symm)
    unfold checkLoop
    rcases hc : checkOne B sp st with ⟨r, st1⟩
    rw [hc] at h1
    rcases r with e | v
    · exact h1
    · cases v
      · exact h1
      · exact h1.trans (ih st1 h.2)

theorem checkLoop_eqv (B : Backends) (l : List Params) (st : St) (h : ∀ ip ∈ l, NoForceAt ip st) :
    Eqv st (checkLoop B l st).2 := by
  induction l generalizing st with
  | nil => exact Eqv.refl _
  | cons sp rest ih =>
    have h1 := checkOne_eqv B sp st (h sp (by simp))
    unfold checkLoop
    rcases hc : checkOne B sp st with ⟨r, st1⟩
    rw [hc] at h1
    rcases r with e | v
    · exact h1
    · cases v
      · exact h1
      · exact h1.trans (ih st1 (fun ip hip => (h ip (by simp [hip])).of_eqv h1))

theorem checkLoop_mono (B : Backends) (l : List Params) (st : St) : Mono st (checkLoop B l st).2 := by
  induction l generalizing st with
  | nil => exact Mono.refl _
  | cons sp rest ih =>
    have h1 := checkOne_mono B sp st
    unfold checkLoop
    rcases hc : checkOne B sp st with ⟨r, st1⟩
    rw [hc] at h1
    rcases r with e | v
    · exact h1
    · cases v
      · exact h1
      · exact h1.trans (ih st1)

/-- the objects a (nested or direct) `check_states` call iterates over -/
def iterKeys (p : Params) : List Key :=
  match iterObjects p with
  | .ok l => l.map keyOf
  | .error _ => []

/-- no object of the iteration gets a root created by the check -/
def NoForce (p : Params) (st : St) : Prop :=
  ∀ l, iterObjects p = .ok l → ∀ ip ∈ l, NoForceAt ip st

theorem checkStates_same (B p st k) (h : k ∉ iterKeys p) : Same k st (checkStates B p st).2 := by
  unfold checkStates; unfold iterKeys at h
  rcases hi : iterObjects p with e | l
  · exact Same.refl _ _
  · rw [hi] at h; exact checkLoop_same B k l st h

theorem checkStates_eqv (B p st) (h : NoForce p st) : Eqv st (checkStates B p st).2 := by
  unfold checkStates
  rcases hi : iterObjects p with e | l
  · exact Eqv.refl _
  · exact checkLoop_eqv B l st (h l hi)

theorem checkStates_mono (B p st) : Mono st (checkStates B p st).2 := by
  unfold checkStates
  rcases hi : iterObjects p with e | l
  · exact Mono.refl _
  · exact checkLoop_mono B l st

/-! ### the policy chains are the documented table -/

theorem act_table (d : Do) (b : String) (sourced : Bool) (cp : Params) (state : String) (c1 c2 : Char)
    (exist : Bool) (st : St) :
    act d b sourced cp state c1 c2 exist st
      = perform d (docAction d exist c1 c2) b sourced cp state exist st := by
  cases d <;> cases exist
  · -- get, absent
    by_cases ha : c2 = 'a' <;> by_cases hi : c2 = 'i' <;>
      simp [act, getAct, docAction, docLetter, perform, ha, hi]
  · by_cases ha : c1 = 'a' <;> by_cases hr : c1 = 'r' <;> by_cases hi : c1 = 'i' <;>
      simp [act, getAct, docAction, docLetter, perform, ha, hr, hi]
  · by_cases ha : c2 = 'a' <;> by_cases hf : c2 = 'f' <;>
      simp [act, setAct, docAction, docLetter, perform, create, ha, hf]
    by_cases hroot : state ∈ roots <;> cases hrr : (st.store.obj (keyOf cp)).root <;> simp [hroot]
  · by_cases ha : c1 = 'a' <;> by_cases hr : c1 = 'r' <;> by_cases hf : c1 = 'f' <;>
      simp [act, setAct, docAction, docLetter, perform, create, remove, ha, hr, hf]
    by_cases hroot : state ∈ roots <;> cases sourced <;> simp [hroot]
  · by_cases ha : c2 = 'a' <;> by_cases hi : c2 = 'i' <;>
      simp [act, unsetAct, docAction, docLetter, perform, ha, hi]
  · by_cases hr : c1 = 'r' <;> by_cases hf : c1 = 'f' <;>
      simp [act, unsetAct, docAction, docLetter, perform, remove, hr, hf]

theorem keyOf_unsetState (cp : Params) (v : String) : keyOf (cp.set "unset_state" v) = keyOf cp :=
  keyOf_set _ _ _ (by decide)

theorem create_same (b cp state st k) (h : keyOf cp ≠ k) : Same k st (create b cp state st) := by
  unfold create; split
  · exact bSetRoot_same _ _ _ _ h
  · exact bSet_same _ _ _ _ h

theorem remove_same (b cp state st k) (h : keyOf cp ≠ k) : Same k st (remove b cp state st) := by
  unfold remove; split
  · exact bUnsetRoot_same _ _ _ _ h
  · exact bUnset_same _ _ _ _ h

theorem perform_same (d a b sourced cp state present st k) (h : keyOf cp ≠ k) :
    Same k st (perform d a b sourced cp state present st).2 := by
  have hu : keyOf (cp.set "unset_state" state) ≠ k := by rw [keyOf_unsetState]; exact h
  cases a <;> cases d <;> simp only [perform]
  all_goals try exact Same.refl _ _
  case reuse.get => split <;> exact Same.refl _ _
  case force.unset => exact remove_same _ _ _ _ _ h
  case force.set =>
    split
    · split
      · exact create_same _ _ _ _ _ hu
      · exact (remove_same _ _ _ _ _ hu).trans (create_same _ _ _ _ _ hu)
    · split
      · exact create_same _ _ _ _ _ h
      · simp only [bCheckRoot_val]
        by_cases hroot : (st.store.obj (keyOf cp)).root = true
        · simp only [hroot, if_true]
          exact Same.of_store rfl (create_same b cp state (bCheckRoot b cp st).2 k h)
        · simp only [hroot]
          exact Same.refl _ _

theorem perform_error (d a b sourced cp state present st e)
    (h : (perform d a b sourced cp state present st).1 = .error e) :
    (perform d a b sourced cp state present st).2.store = st.store := by
  cases a <;> cases d <;> simp only [perform] at h ⊢
  all_goals try rfl
  case reuse.get => simp at h
  case force.unset => simp at h
  case force.set =>
    split at h
    · simp at h
    · rename_i hp
      simp only [hp]
      split at h
      · simp at h
      · rename_i hr
        simp only [hr, bCheckRoot_val] at h ⊢
        by_cases hroot : (st.store.obj (keyOf cp)).root = true
        · simp [hroot] at h
        · simp [hroot]

/-- the three ways one object is processed by get/set/unset: skipped, failed in or right after the nested
check, or decided by the policy chain on the result of the nested check -/
theorem doOne_shape (B : Backends) (d : Do) (sp : Params) (st : St) :
    ((doOne B d sp st).2 = st ∧
      (guardSkip sp ≠ .ok false ∨ sp.truthy d.stateKey = none)) ∨
    (∃ state, guardSkip sp = .ok false ∧ sp.truthy d.stateKey = some state ∧
      ((∃ e, (doOne B d sp st).1 = .error e ∧ (doOne B d sp st).2 = (checkStates B (doParams d sp) st).2) ∨
       (∃ exist b sourced c1 c2, (checkStates B (doParams d sp) st).1 = .ok exist ∧
          backendOf B (doParams d sp) = .ok (b, sourced) ∧
          letters ((doParams d sp).getD d.modeKey "") = some (c1, c2) ∧
          doOne B d sp st = act d b sourced (doParams d sp) state c1 c2 exist
            (checkStates B (doParams d sp) st).2))) := by
  rcases hg : guardSkip sp with e | g
  · left; simp [doOne, hg]
  by_cases hgt : g = true
  · subst hgt; left; simp [doOne, hg]
  have hgf : g = false := by cases g <;> simp_all
  subst hgf
  rcases ht : sp.truthy d.stateKey with _ | state
  · left; simp [doOne, hg, ht]
  right
  refine ⟨state, rfl, rfl, ?_⟩
  rcases hc : checkStates B (doParams d sp) st with ⟨r, st1⟩
  rcases r with e | exist
  · left; exact ⟨e, by simp [doOne, hg, ht, hc], by simp [doOne, hg, ht, hc]⟩
  rcases hb : backendOf B (doParams d sp) with e | ⟨b, sourced⟩
  · left; exact ⟨e, by simp [doOne, hg, ht, hc, hb], by simp [doOne, hg, ht, hc, hb]⟩
  rcases hv : (doParams d sp).get? "vms" with _ | v
  · left; exact ⟨.paramNotFound, by simp [doOne, hg, ht, hc, hb, hv], by simp [doOne, hg, ht, hc, hb, hv]⟩
  rcases hl : letters ((doParams d sp).getD d.modeKey "") with _ | ⟨c1, c2⟩
  · left; exact ⟨.indexError, by simp [doOne, hg, ht, hc, hb, hv, hl], by simp [doOne, hg, ht, hc, hb, hv, hl]⟩
  right
  exact ⟨exist, b, sourced, c1, c2, rfl, rfl, rfl, by simp [doOne, hg, ht, hc, hb, hv, hl]⟩

/-- the objects one step of get/set/unset can touch: those the nested check iterates over and the one the
backend is finally called on; nothing when the object is skipped (`skip_types`, read-only image, no state) -/
def touchDo (d : Do) (sp : Params) : List Key :=
  match guardSkip sp, sp.truthy d.stateKey with
  | .ok false, some _ => iterKeys (doParams d sp) ++ [keyOf (doParams d sp)]
  | _, _ => []

theorem doOne_same (B d sp st k) (h : k ∉ touchDo d sp) : Same k st (doOne B d sp st).2 := by
  rcases doOne_shape B d sp st with ⟨h1, _⟩ | ⟨state, hg, ht, h2⟩
  · rw [h1]; exact Same.refl _ _
  · simp only [touchDo, hg, ht, List.mem_append, List.mem_singleton, not_or] at h
    have hc := checkStates_same B (doParams d sp) st k h.1
    rcases h2 with ⟨e, _, h3⟩ | ⟨exist, b, sourced, c1, c2, _, _, _, h3⟩
    · rw [h3]; exact hc
    · rw [h3, act_table]
      exact hc.trans (perform_same _ _ _ _ _ _ _ _ _ (fun e => h.2 e.symm))

/-- an exception out of one step of get/set/unset leaves every object as it was, provided the nested check
does not create a root (`NoForce`) -/
theorem doOne_error_eqv (B d sp st e) (hn : NoForce (doParams d sp) st)
    (h : (doOne B d sp st).1 = .error e) : Eqv st (doOne B d sp st).2 := by
  rcases doOne_shape B d sp st with ⟨h1, _⟩ | ⟨state, hg, ht, h2⟩
  · rw [h1]; exact Eqv.refl _
  · have hc := checkStates_eqv B (doParams d sp) st hn
    rcases h2 with ⟨e', _, h3⟩ | ⟨exist, b, sourced, c1, c2, _, _, _, h3⟩
    · rw [h3]; exact hc
    · rw [h3, act_table] at h ⊢
      exact Eqv.of_store (perform_error _ _ _ _ _ _ _ _ _ h) hc

/-! ### whole calls -/

theorem loopM_same (f : Params → St → Except Err Unit × St) (touch : Params → List Key) (k : Key)
    (hf : ∀ sp st, k ∉ touch sp → Same k st (f sp st).2) (l : List Params) (st : St)
    (h : k ∉ l.flatMap touch) : Same k st (loopM f l st).2 := by
  induction l generalizing st with
  | nil => exact Same.refl _ _
  | cons sp rest ih =>
    simp only [List.flatMap_cons, List.mem_append, not_or] at h
    have h1 := hf sp st h.1
    unfold loopM
    rcases hc : f sp st with ⟨r, st1⟩
    rw [hc] at h1
    rcases r with e | v
    · exact h1
    · exact h1.trans (ih st1 h.2)

/-- a raising loop stopped at one object: everything before went through, nothing after was looked at -/
theorem loopM_error_split (f : Params → St → Except Err Unit × St) (l : List Params) (st st' : St) (e : Err)
    (h : loopM f l st = (.error e, st')) :
    ∃ pre sp post st1, l = pre ++ sp :: post ∧ loopM f pre st = (.ok (), st1) ∧ f sp st1 = (.error e, st') := by
  induction l generalizing st with
  | nil => simp [loopM] at h
  | cons sp rest ih =>
    unfold loopM at h
    rcases hc : f sp st with ⟨r, st1⟩
    rw [hc] at h
    rcases r with e1 | v
    · simp only [Prod.mk.injEq, Except.error.injEq] at h
      obtain ⟨he, hs⟩ := h
      subst he; subst hs
      exact ⟨[], sp, rest, st, rfl, rfl, hc⟩
    · obtain ⟨pre, sp', post, st2, hl, hp, hf⟩ := ih st1 h
      refine ⟨sp :: pre, sp', post, st2, by simp [hl], ?_, hf⟩
      simp [loopM, hc, hp]

/-- the objects a whole `get_states` / `set_states` / `unset_states` call can touch -/
def addressedDo (d : Do) (p : Params) : List Key :=
  match iterObjects p with
  | .ok l => l.flatMap (touchDo d)
  | .error _ => []

theorem doStates_same (B d p st k) (h : k ∉ addressedDo d p) : Same k st (doStates B d p st).2 := by
  unfold doStates; unfold addressedDo at h
  rcases hi : iterObjects p with e | l
  · exact Same.refl _ _
  · rw [hi] at h
    exact loopM_same _ (touchDo d) k (fun sp st hk => doOne_same B d sp st k hk) l st h

theorem checkOne_skip (B sp st) (h : guardSkip sp ≠ .ok false ∨ sp.truthy "check_state" = none) :
    (checkOne B sp st).2 = st := by
  rcases hg : guardSkip sp with e | g
  · simp [checkOne, hg]
  by_cases hgt : g = true
  · subst hgt; simp [checkOne, hg]
  have hgf : g = false := by cases g <;> simp_all
  subst hgf
  rcases h with h | h
  · exact absurd hg h
  · simp [checkOne, hg, h]

/-- the object one step of `check_states` can touch -/
def touchCheck (sp : Params) : List Key :=
  match guardSkip sp, sp.truthy "check_state" with
  | .ok false, some _ => [keyOf sp]
  | _, _ => []

theorem checkOne_same' (B sp st k) (h : k ∉ touchCheck sp) : Same k st (checkOne B sp st).2 := by
  by_cases hs : guardSkip sp ≠ .ok false ∨ sp.truthy "check_state" = none
  · rw [checkOne_skip B sp st hs]; exact Same.refl _ _
  · simp only [not_or, Classical.not_not] at hs
    obtain ⟨hg, ht⟩ := hs
    rcases hv : sp.truthy "check_state" with _ | v
    · exact absurd hv ht
    · simp only [touchCheck, hg, hv, List.mem_singleton] at h
      exact checkOne_same B sp st k (fun e => h e.symm)

theorem checkLoop_same' (B : Backends) (k : Key) (l : List Params) (st : St) (h : k ∉ l.flatMap touchCheck) :
    Same k st (checkLoop B l st).2 := by
  induction l generalizing st with
  | nil => exact Same.refl _ _
  | cons sp rest ih =>
    simp only [List.flatMap_cons, List.mem_append, not_or] at h
    have h1 := checkOne_same' B sp st k h.1
    unfold checkLoop
    rcases hc : checkOne B sp st with ⟨r, st1⟩
    rw [hc] at h1
    rcases r with e | v
    · exact h1
    · cases v
      · exact h1
      · exact h1.trans (ih st1 h.2)

def touchPush (sp : Params) : List Key :=
  match sp.truthy "push_state" with
  | none => []
  | some state => if roots.contains state then [] else addressedDo .set (pushParams sp state)

def touchPop (sp : Params) : List Key :=
  match sp.truthy "pop_state" with
  | none => []
  | some state =>
    if roots.contains state then []
    else addressedDo .get (popGetParams sp state) ++ addressedDo .unset (popUnsetParams sp state)

theorem pushOne_same (B sp st k) (h : k ∉ touchPush sp) : Same k st (pushOne B sp st).2 := by
  unfold pushOne; unfold touchPush at h
  rcases ht : sp.truthy "push_state" with _ | state
  · exact Same.refl _ _
  · rw [ht] at h
    dsimp only at h ⊢
    by_cases hr : roots.contains state = true
    · rw [if_pos hr]; exact Same.refl _ _
    · rw [if_neg hr] at h ⊢
      exact doStates_same B .set _ st k h

theorem popOne_same (B sp st k) (h : k ∉ touchPop sp) : Same k st (popOne B sp st).2 := by
  unfold popOne; unfold touchPop at h
  rcases ht : sp.truthy "pop_state" with _ | state
  · exact Same.refl _ _
  · rw [ht] at h
    dsimp only at h ⊢
    by_cases hr : roots.contains state = true
    · rw [if_pos hr]; exact Same.refl _ _
    · rw [if_neg hr] at h ⊢
      simp only [List.mem_append, not_or] at h
      have h1 := doStates_same B .get (popGetParams sp state) st k h.1
      rcases hc : doStates B .get (popGetParams sp state) st with ⟨r, st1⟩
      rw [hc] at h1
      rcases r with e | v
      · exact h1
      · exact h1.trans (doStates_same B .unset _ st1 k h.2)

/-- the objects one public call can touch, computed from the parameters alone -/
def addressed (op : Op) (p : Params) : List Key :=
  match iterObjects p with
  | .error _ => []
  | .ok l =>
    match op with
    | .check => l.flatMap touchCheck
    | .get => l.flatMap (touchDo .get)
    | .set => l.flatMap (touchDo .set)
    | .unset => l.flatMap (touchDo .unset)
    | .push => l.flatMap touchPush
    | .pop => l.flatMap touchPop

theorem liftUnit_snd (r : Except Err Unit × St) : (liftUnit r).2 = r.2 := by
  rcases r with ⟨r, st⟩; cases r <;> rfl

theorem runOp_same (B op p st k) (h : k ∉ addressed op p) : Same k st (runOp B op p st).2 := by
  unfold addressed at h
  rcases hi : iterObjects p with e | l
  · cases op <;> simp only [runOp, checkStates, doStates, hi, liftUnit_snd] <;> exact Same.refl _ _
  · rw [hi] at h
    cases op <;> simp only [runOp, checkStates, doStates, hi, liftUnit_snd] at h ⊢
    · exact checkLoop_same' B k l st h
    · exact loopM_same _ (touchDo .get) k (fun sp st hk => doOne_same B .get sp st k hk) l st h
    · exact loopM_same _ (touchDo .set) k (fun sp st hk => doOne_same B .set sp st k hk) l st h
    · exact loopM_same _ (touchDo .unset) k (fun sp st hk => doOne_same B .unset sp st k hk) l st h
    · exact loopM_same _ touchPush k (fun sp st hk => pushOne_same B sp st k hk) l st h
    · exact loopM_same _ touchPop k (fun sp st hk => popOne_same B sp st k hk) l st h

theorem runSeq_same (B : Backends) (k : Key) (ops : List (Op × Params)) (st : St)
    (h : ∀ o ∈ ops, k ∉ addressed o.1 o.2) : Same k st (runSeq B ops st) := by
  induction ops generalizing st with
  | nil => exact Same.refl _ _
  | cons o rest ih =>
    obtain ⟨op, p⟩ := o
    unfold runSeq
    exact (runOp_same B op p st k (h (op, p) (by simp))).trans
      (ih _ (fun o ho => h o (by simp [ho])))

/-! ### check and get never alter ordinary states and never lose a root -/

theorem perform_get_store (a b sourced cp state present st) :
    (perform .get a b sourced cp state present st).2.store = st.store := by
  cases a <;> simp only [perform]
  split <;> rfl

theorem doOne_get_mono (B sp st) : Mono st (doOne B .get sp st).2 := by
  rcases doOne_shape B .get sp st with ⟨h1, _⟩ | ⟨state, hg, ht, h2⟩
  · rw [h1]; exact Mono.refl _
  · have hc := checkStates_mono B (doParams .get sp) st
    rcases h2 with ⟨e, _, h3⟩ | ⟨exist, b, sourced, c1, c2, _, _, _, h3⟩
    · rw [h3]; exact hc
    · rw [h3, act_table]
      exact Mono.of_store (perform_get_store _ _ _ _ _ _ _) hc

theorem loopM_mono (f : Params → St → Except Err Unit × St) (hf : ∀ sp st, Mono st (f sp st).2)
    (l : List Params) (st : St) : Mono st (loopM f l st).2 := by
  induction l generalizing st with
  | nil => exact Mono.refl _
  | cons sp rest ih =>
    have h1 := hf sp st
    unfold loopM
    rcases hc : f sp st with ⟨r, st1⟩
    rw [hc] at h1
    rcases r with e | v
    · exact h1
    · exact h1.trans (ih st1)

theorem doStates_get_mono (B p st) : Mono st (doStates B .get p st).2 := by
  unfold doStates
  rcases hi : iterObjects p with e | l
  · exact Mono.refl _
  · exact loopM_mono _ (fun sp st => doOne_get_mono B sp st) l st

end I2N.Policy
