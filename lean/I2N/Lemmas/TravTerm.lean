import I2N.Lemmas.TravProgress
/-!
Termination of the worker loop between two suspension points (property C02).

`runLoop g w fuel s evs` iterates `iterL` until an iteration suspends, exits or raises; the fuel only bounds the
number of consecutive `.cont` iterations.  This file shows that this number is bounded by a function of the static
graph (`bound g`), so that the `"fuel"` branch of `runLoop` is dead for `fuel ≥ bound g`.

Measure.  A `.cont` iteration either *pushes* a node picked among the not yet dropped parents/children of the last
node of the path, or *pops* the last node after dropping its incoming edge for the worker.  With `keys` the edge keys
(register, class, class) of the static graph, `m k` the number of path positions whose incoming edge has key `k` and
`C = 2·|nodes| + 3` (more than any path is long, see `Walk`):

    Φ = 2 · Σ_{k ∈ keys, k not dropped for w} (C − m k)  +  |path|

a push lowers one summand by one (the picked key is not dropped) and lengthens the path by one; a pop shortens the path
and drops the key of the popped position, so no summand grows.

Hypotheses: the edges are recorded at both ends (`EdgeSym`), the graph is acyclic (`Ranked`: a rank that decreases
towards the parents), the registers exist for every class (`ClsOK`), every node has a dynamic record (`nodes.length`),
no flat node is unexplored (`Explored`; otherwise the "postpone the cleanup" jump to the root is a `.cont` iteration
that drops nothing — its termination rests on the pick counters, see `design.d/C02.md`), and the path has the shape
the walk gives it (`Walk`: first down, then up, with strictly decreasing ranks).

Everything lives in the namespace `I2N.Trav.Term` so that no helper name clashes with the other lemma files.
-/
namespace I2N.Trav.Term
open I2N.Trav

/-- the equation part of `vis_node` (Lemmas/TravBasic.lean) -/
theorem vis_node_eq (g : Graph) (s : State) (n : Nat) :
    ∃ su cl, (vis g s).node n = { g.node n with setup := su, cleanup := cl } := by
  obtain ⟨su, cl, h, _⟩ := vis_node g s n
  exact ⟨su, cl, h⟩

/-! ## acyclicity -/

/-- a rank that strictly decreases from a node to its parents and is bounded by the number of nodes -/
structure Ranked (g : Graph) (d : Nat → Nat) : Prop where
  lt : ∀ n p, p ∈ (g.node n).setup.map (·.1) → d p < d n
  le : ∀ n, d n ≤ g.nodes.length

/-- is `b` a parent of `a` (the test of the loop: `previous in next.cleanup_nodes`) -/
def isUp (g : Graph) (a b : Nat) : Bool := ((g.node b).cleanup.map (·.1)).contains a

/-- rank of the path position `(a, b)` (`b` follows `a`): positions reached upwards rank by the depth of the node,
positions reached downwards rank above all of those, deeper nodes lower -/
def rk (g : Graph) (d : Nat → Nat) (a b : Nat) : Nat :=
  if isUp g a b then d b else 2 * g.nodes.length + 1 - d b

theorem rk_le (g : Graph) (d : Nat → Nat) (hr : Ranked g d) (a b : Nat) : rk g d a b ≤ 2 * g.nodes.length + 1 := by
  unfold rk
  have := hr.le b
  split <;> omega

/-! ## the shape of a path (on the reversed path: last node first) -/

def WalkR (g : Graph) (d : Nat → Nat) : List Nat → Prop
  | b :: a :: rest =>
    Adj g a b ∧ (match rest with | [] => True | a0 :: _ => rk g d a b < rk g d a0 a) ∧ WalkR g d (a :: rest)
  | _ => True

/-- consecutive entries are joined by an edge of the full graph and the ranks of the positions strictly decrease -/
def Walk (g : Graph) (d : Nat → Nat) (p : List Nat) : Prop := WalkR g d p.reverse

theorem walkR_len (g : Graph) (d : Nat → Nat) (hr : Ranked g d) (b a : Nat) (rest : List Nat)
    (h : WalkR g d (b :: a :: rest)) : (b :: a :: rest).length + rk g d a b ≤ 2 * g.nodes.length + 3 := by
  induction rest generalizing b a with
  | nil => have := rk_le g d hr a b; simp only [List.length_cons, List.length_nil]; omega
  | cons a0 r ih =>
    obtain ⟨_, h2, h3⟩ := h
    have := ih a a0 h3
    simp only [List.length_cons] at this ⊢
    simp only at h2
    omega

theorem walk_len (g : Graph) (d : Nat → Nat) (hr : Ranked g d) (p : List Nat) (h : Walk g d p) :
    p.length ≤ 2 * g.nodes.length + 3 := by
  unfold Walk at h
  rw [← List.length_reverse]
  match hq : p.reverse, h with
  | [], _ => simp
  | [_], _ => simp
  | b :: a :: rest, h => have := walkR_len g d hr b a rest h; omega

theorem walk_root (g : Graph) (d : Nat → Nat) (r : Nat) : Walk g d [r] := by
  unfold Walk; simp [WalkR]

theorem walk_nil (g : Graph) (d : Nat → Nat) : Walk g d [] := by
  unfold Walk; simp [WalkR]

/-- the last two entries of a path of length at least two -/
theorem rev_two (p : List Nat) (next : Nat) (hl : p.getLast? = some next) (hlen : 2 ≤ p.length) :
    ∃ rest, p.reverse = next :: p.getD (p.length - 2) 0 :: rest := by
  match hq : p.reverse with
  | [] => have : p.length = 0 := by rw [← List.length_reverse, hq]; rfl
          omega
  | [x] => have : p.length = 1 := by rw [← List.length_reverse, hq]; rfl
           omega
  | b :: a :: rest =>
    have hp : p = (rest.reverse ++ [a]) ++ [b] := by
      have := congrArg List.reverse hq
      simpa using this
    refine ⟨rest, ?_⟩
    subst hp
    simp only [List.getLast?_concat, Option.some.injEq] at hl
    subst hl
    congr 2
    simp [List.getD_eq_getElem?_getD]

theorem rev_one (p : List Nat) (h : p.length = 1) (next : Nat) (hl : p.getLast? = some next) : p = [next] := by
  match p, h with
  | [x], _ => simp at hl; rw [hl]

theorem walk_pop (g : Graph) (d : Nat → Nat) (p : List Nat) (h : Walk g d p) : Walk g d p.dropLast := by
  unfold Walk at h ⊢
  rw [← List.tail_reverse]
  match hq : p.reverse, h with
  | [], _ => simp [WalkR]
  | [_], _ => simp [WalkR]
  | b :: a :: rest, h => exact h.2.2

/-- a push upwards (to a parent of the last node) -/
theorem walk_pushUp (g : Graph) (d : Nat → Nat) (hr : Ranked g d) (hsym : EdgeSym g) (p : List Nat) (last c : Nat)
    (h : Walk g d p) (hl : p.getLast? = some last) (hc : c ∈ (g.node last).setup.map (·.1)) : Walk g d (p ++ [c]) := by
  have hup : isUp g last c = true := by
    unfold isUp; simp only [List.contains_iff_mem]; exact (hsym c last).mp hc
  have hlt := hr.lt last c hc
  unfold Walk at h ⊢
  rw [List.reverse_append, List.reverse_singleton, List.singleton_append]
  rw [List.getLast?_eq_head?_reverse] at hl
  match hq : p.reverse, h, hl with
  | [x], h, hl =>
    simp only [List.head?_cons, Option.some.injEq] at hl; subst hl
    exact ⟨Or.inr ((hsym c x).mp hc), trivial, trivial⟩
  | b :: a :: rest, h, hl =>
    simp only [List.head?_cons, Option.some.injEq] at hl; subst hl
    refine ⟨Or.inr ((hsym c b).mp hc), ?_, h⟩
    show rk g d b c < rk g d a b
    have hle := hr.le b
    unfold rk
    rw [hup]
    simp only [if_true]
    split <;> omega

/-- a push downwards (to a child of the last node) from the root or from a node that was itself reached downwards -/
theorem walk_pushDown (g : Graph) (d : Nat → Nat) (hr : Ranked g d) (hsym : EdgeSym g) (p : List Nat) (last c : Nat)
    (h : Walk g d p) (hl : p.getLast? = some last) (hc : c ∈ (g.node last).cleanup.map (·.1))
    (hmode : p.length = 1 ∨ isUp g (p.getD (p.length - 2) 0) last = false) : Walk g d (p ++ [c]) := by
  have hps : last ∈ (g.node c).setup.map (·.1) := (hsym last c).mpr hc
  have hlt := hr.lt c last hps
  have hdown : isUp g last c = false := by
    cases hu : isUp g last c
    · rfl
    · exfalso
      unfold isUp at hu
      simp only [List.contains_iff_mem] at hu
      have := hr.lt last c ((hsym c last).mpr hu)
      omega
  unfold Walk at h ⊢
  rw [List.reverse_append, List.reverse_singleton, List.singleton_append]
  have hl' := hl
  rw [List.getLast?_eq_head?_reverse] at hl
  match hq : p.reverse, h, hl with
  | [x], h, hl =>
    simp only [List.head?_cons, Option.some.injEq] at hl; subst hl
    exact ⟨Or.inl hps, trivial, trivial⟩
  | b :: a :: rest, h, hl =>
    simp only [List.head?_cons, Option.some.injEq] at hl; subst hl
    have hlen : 2 ≤ p.length := by
      have := congrArg List.length hq; simp at this; omega
    obtain ⟨rest', hr2⟩ := rev_two p b hl' hlen
    rw [hq] at hr2
    simp only [List.cons.injEq, true_and] at hr2
    have hm : isUp g a b = false := by
      rcases hmode with h1 | h1
      · omega
      · rw [hr2.1]; exact h1
    refine ⟨Or.inl hps, ?_, h⟩
    show rk g d b c < rk g d a b
    have hle := hr.le c
    unfold rk
    rw [hdown, hm]
    simp only [Bool.false_eq_true, if_false]
    omega

/-! ## edge keys, the measure -/

/-- (register: `true` = `dropped_setup`, `false` = `dropped_cleanup`; class owning the register; class dropped) -/
abbrev Key := Bool × Nat × Nat

/-- the key of the path position `(a, b)`: the edge that is dropped when `b` is popped with `a` below it -/
def posKey (g : Graph) (a b : Nat) : Key := (isUp g a b, (g.node a).cls, (g.node b).cls)

def keysR (g : Graph) : List Nat → List Key
  | b :: a :: rest => posKey g a b :: keysR g (a :: rest)
  | _ => []

theorem keysR_length (g : Graph) (q : List Nat) : (keysR g q).length = q.length - 1 := by
  match q with
  | [] => rfl
  | [_] => rfl
  | b :: a :: rest =>
    have := keysR_length g (a :: rest)
    simp only [keysR, List.length_cons] at this ⊢
    omega

/-- has worker `w` dropped the edge with key `k` -/
def dropped (s : State) (w : Nat) (k : Key) : Bool :=
  (regWorkers (if k.1 then (s.cr k.2.1).droppedSetup else (s.cr k.2.1).droppedCleanup) (some k.2.2)).contains w

/-- all edge keys of the static graph -/
def allKeys (g : Graph) : List Key :=
  (List.range g.nodes.length).flatMap (fun n =>
    (g.node n).setup.map (fun e => (true, (g.node n).cls, (g.node e.1).cls)) ++
    (g.node n).cleanup.map (fun e => (false, (g.node n).cls, (g.node e.1).cls)))

theorem node_edges_nil (g : Graph) (b : Nat) (h : ¬ b < g.nodes.length) : (g.node b).setup = [] ∧ (g.node b).cleanup = [] := by
  unfold Graph.node
  rw [List.getD_eq_getElem?_getD, List.getElem?_eq_none (by omega)]
  exact ⟨rfl, rfl⟩

theorem key_setup_mem (g : Graph) (n p : Nat) (h : p ∈ (g.node n).setup.map (·.1)) :
    (true, (g.node n).cls, (g.node p).cls) ∈ allKeys g := by
  have hn : n < g.nodes.length := by
    by_cases hn : n < g.nodes.length
    · exact hn
    · rw [(node_edges_nil g n hn).1] at h; simp at h
  obtain ⟨e, he, rfl⟩ := List.mem_map.mp h
  unfold allKeys
  rw [List.mem_flatMap]
  exact ⟨n, List.mem_range.mpr hn, List.mem_append_left _ (List.mem_map.mpr ⟨e, he, rfl⟩)⟩

theorem key_cleanup_mem (g : Graph) (n c : Nat) (h : c ∈ (g.node n).cleanup.map (·.1)) :
    (false, (g.node n).cls, (g.node c).cls) ∈ allKeys g := by
  have hn : n < g.nodes.length := by
    by_cases hn : n < g.nodes.length
    · exact hn
    · rw [(node_edges_nil g n hn).2] at h; simp at h
  obtain ⟨e, he, rfl⟩ := List.mem_map.mp h
  unfold allKeys
  rw [List.mem_flatMap]
  exact ⟨n, List.mem_range.mpr hn, List.mem_append_right _ (List.mem_map.mpr ⟨e, he, rfl⟩)⟩

/-- the weighted number of keys still to drop -/
def wsum (C : Nat) (D : Key → Bool) (ks : List Key) : List Key → Nat
  | [] => 0
  | k :: rest => (if D k then 0 else C - ks.count k) + wsum C D ks rest

theorem wsum_le (C : Nat) (D : Key → Bool) (ks all : List Key) : wsum C D ks all ≤ C * all.length := by
  induction all with
  | nil => simp [wsum]
  | cons k rest ih =>
    simp only [wsum, List.length_cons, Nat.mul_succ]
    split <;> omega

theorem wsum_push_le (C : Nat) (D : Key → Bool) (ks all : List Key) (k : Key) :
    wsum C D (k :: ks) all ≤ wsum C D ks all := by
  induction all with
  | nil => simp [wsum]
  | cons x rest ih =>
    simp only [wsum]
    have : ks.count x ≤ (k :: ks).count x := by rw [List.count_cons]; omega
    split <;> omega

theorem wsum_push (C : Nat) (D : Key → Bool) (ks all : List Key) (k : Key) (hk : k ∈ all) (hD : D k = false)
    (hC : ks.length < C) : wsum C D (k :: ks) all + 1 ≤ wsum C D ks all := by
  induction all with
  | nil => simp at hk
  | cons x rest ih =>
    simp only [wsum]
    by_cases hx : x = k
    · subst hx
      have h1 := wsum_push_le C D ks rest x
      have h2 : ks.count x ≤ ks.length := List.count_le_length
      simp only [hD, Bool.false_eq_true, if_false, List.count_cons_self]
      omega
    · have hk' : k ∈ rest := by
        rcases List.mem_cons.mp hk with h | h
        · exact absurd h.symm hx
        · exact h
      have h1 := ih hk'
      have : ks.count x ≤ (k :: ks).count x := by rw [List.count_cons]; omega
      split <;> omega

theorem wsum_pop (C : Nat) (D D' : Key → Bool) (ks all : List Key) (k : Key) (hmono : ∀ x, D x = true → D' x = true)
    (hk : D' k = true) : wsum C D' ks all ≤ wsum C D (k :: ks) all := by
  induction all with
  | nil => simp [wsum]
  | cons x rest ih =>
    simp only [wsum]
    cases hx' : D' x
    · have hx : D x = false := by
        cases h : D x
        · rfl
        · rw [hmono x h] at hx'; cases hx'
      have hne : (k == x) = false := by
        cases h : k == x
        · rfl
        · have : k = x := by simpa using h
          rw [this, hx'] at hk; cases hk
      simp only [hx, Bool.false_eq_true, if_false, List.count_cons, hne]
      omega
    · simp only [if_true]
      omega

/-- more than any path of the walk is long -/
def cap (g : Graph) : Nat := 2 * g.nodes.length + 3

/-- the measure of worker `w` in state `s` -/
def phi (g : Graph) (s : State) (w : Nat) : Nat :=
  2 * wsum (cap g) (dropped s w) (keysR g (s.wd w).path.reverse) (allKeys g) + (s.wd w).path.length

/-- the explicit bound on the number of consecutive iterations without suspension -/
def bound (g : Graph) : Nat := 2 * (cap g * (allKeys g).length) + cap g + 1

theorem phi_lt_bound (g : Graph) (d : Nat → Nat) (hr : Ranked g d) (s : State) (w : Nat) (h : Walk g d (s.wd w).path) :
    phi g s w < bound g := by
  unfold phi bound
  have h1 := wsum_le (cap g) (dropped s w) (keysR g (s.wd w).path.reverse) (allKeys g)
  have h2 := walk_len g d hr _ h
  unfold cap at *
  omega

/-- the measure decreases with a push along a key that is not dropped -/
theorem phi_push (g : Graph) (d : Nat → Nat) (hr : Ranked g d) (s s' : State) (w last c : Nat)
    (hwalk : Walk g d (s.wd w).path) (hl : (s.wd w).path.getLast? = some last)
    (hp : (s'.wd w).path = (s.wd w).path ++ [c]) (hD : ∀ k, dropped s' w k = dropped s w k)
    (hk : posKey g last c ∈ allKeys g) (hnd : dropped s w (posKey g last c) = false) : phi g s' w < phi g s w := by
  unfold phi
  rw [hp, List.reverse_append, List.reverse_singleton, List.singleton_append, List.length_append, List.length_singleton]
  have hfun : dropped s' w = dropped s w := funext hD
  rw [hfun]
  have hlen := walk_len g d hr _ hwalk
  rw [List.getLast?_eq_head?_reverse] at hl
  match hq : (s.wd w).path.reverse, hl with
  | x :: rest, hl =>
    simp only [List.head?_cons, Option.some.injEq] at hl; subst hl
    have hks : (keysR g (x :: rest)).length < cap g := by
      rw [keysR_length, ← hq, List.length_reverse]; unfold cap; omega
    have := wsum_push (cap g) (dropped s w) (keysR g (x :: rest)) (allKeys g) (posKey g x c) hk hnd hks
    simp only [keysR]
    omega

/-- the measure decreases with a pop that leaves the key of the popped position dropped -/
theorem phi_pop (g : Graph) (s s' : State) (w next : Nat)
    (hl : (s.wd w).path.getLast? = some next) (hlen : 2 ≤ (s.wd w).path.length)
    (hp : (s'.wd w).path = (s.wd w).path.dropLast) (hD : ∀ k, dropped s w k = true → dropped s' w k = true)
    (hk : dropped s' w (posKey g ((s.wd w).path.getD ((s.wd w).path.length - 2) 0) next) = true) :
    phi g s' w < phi g s w := by
  unfold phi
  obtain ⟨rest, hq⟩ := rev_two _ next hl hlen
  rw [hp, ← List.tail_reverse, List.length_dropLast, hq]
  simp only [List.tail_cons, keysR]
  have := wsum_pop (cap g) (dropped s w) (dropped s' w) (keysR g ((s.wd w).path.getD ((s.wd w).path.length - 2) 0 :: rest))
    (allKeys g) _ hD hk
  omega

/-! ## registers (the first four lemmas are copies of those of `TravReady.lean`, which cannot be imported here) -/

theorem mem_regWorkers_some (r : Reg) (c v : Nat) : v ∈ regWorkers r (some c) ↔ ∃ n, ((c, v), n) ∈ r := by
  unfold regWorkers
  simp only [List.mem_map, List.mem_filter, beq_iff_eq]
  constructor
  · rintro ⟨⟨⟨a, b⟩, n⟩, ⟨hm, ha⟩, hb⟩
    simp only at ha hb
    subst ha hb
    exact ⟨n, hm⟩
  · rintro ⟨n, hm⟩
    exact ⟨((c, v), n), ⟨hm, rfl⟩, rfl⟩

theorem exists_mem_regAdd (r : Reg) (k k' : Nat × Nat) :
    (∃ n, (k', n) ∈ regAdd r k) ↔ (∃ n, (k', n) ∈ r) ∨ k' = k := by
  induction r with
  | nil =>
    simp only [regAdd, List.mem_singleton, Prod.mk.injEq, List.not_mem_nil, exists_false, false_or]
    constructor
    · rintro ⟨n, h, _⟩; exact h
    · intro h; exact ⟨1, h, rfl⟩
  | cons e r ih =>
    obtain ⟨k0, c0⟩ := e
    unfold regAdd
    by_cases h : k0 = k
    · subst h
      simp only [BEq.rfl, if_true, List.mem_cons, Prod.mk.injEq]
      constructor
      · rintro ⟨n, ⟨h1, _⟩ | h1⟩
        · exact Or.inr h1
        · exact Or.inl ⟨n, Or.inr h1⟩
      · rintro (⟨n, ⟨h1, h2⟩ | h1⟩ | h1)
        · exact ⟨c0 + 1, Or.inl ⟨h1, rfl⟩⟩
        · exact ⟨n, Or.inr h1⟩
        · exact ⟨c0 + 1, Or.inl ⟨h1, rfl⟩⟩
    · have hb : (k0 == k) = false := by simpa using h
      simp only [hb, Bool.false_eq_true, if_false, List.mem_cons, Prod.mk.injEq]
      constructor
      · rintro ⟨n, ⟨h1, h2⟩ | h1⟩
        · exact Or.inl ⟨n, Or.inl ⟨h1, h2⟩⟩
        · rcases ih.mp ⟨n, h1⟩ with ⟨m, hm⟩ | hk
          · exact Or.inl ⟨m, Or.inr hm⟩
          · exact Or.inr hk
      · rintro (⟨n, ⟨h1, h2⟩ | h1⟩ | h1)
        · exact ⟨n, Or.inl ⟨h1, h2⟩⟩
        · obtain ⟨m, hm⟩ := ih.mpr (Or.inl ⟨n, h1⟩)
          exact ⟨m, Or.inr hm⟩
        · obtain ⟨m, hm⟩ := ih.mpr (Or.inr h1)
          exact ⟨m, Or.inr hm⟩

theorem mem_regWorkers_regAdd (r : Reg) (c0 w0 c v : Nat) :
    v ∈ regWorkers (regAdd r (c0, w0)) (some c) ↔ v ∈ regWorkers r (some c) ∨ (v = w0 ∧ c = c0) := by
  rw [mem_regWorkers_some, mem_regWorkers_some, exists_mem_regAdd]
  simp only [Prod.mk.injEq]
  constructor
  · rintro (h | ⟨h1, h2⟩)
    · exact Or.inl h
    · exact Or.inr ⟨h2, h1⟩
  · rintro (h | ⟨h1, h2⟩)
    · exact Or.inl h
    · exact Or.inr ⟨h2, h1⟩

theorem cr_setCr_cases (s : State) (c : Nat) (f : ClassRegs → ClassRegs) (c' : Nat) :
    (s.setCr c f).cr c' = s.cr c' ∨ (c' = c ∧ (s.setCr c f).cr c' = f (s.cr c')) := by
  unfold State.setCr State.cr
  simp only [List.getD_eq_getElem?_getD, List.getElem?_modify]
  by_cases h : c = c'
  · subst h
    cases h' : s.regs[c]? with
    | none => left; simp
    | some d => right; simp
  · left
    cases h' : s.regs[c']? with
    | none => simp
    | some d => simp [h]

theorem cr_setCr_eq (s : State) (c : Nat) (f : ClassRegs → ClassRegs) (h : c < s.regs.length) :
    (s.setCr c f).cr c = f (s.cr c) := by
  unfold State.setCr State.cr
  simp only [List.getD_eq_getElem?_getD, List.getElem?_modify]
  have : s.regs[c]? = some s.regs[c] := List.getElem?_eq_getElem h
  simp [this]

theorem dropped_of_regs (s s' : State) (h : s'.regs = s.regs) (w : Nat) (k : Key) : dropped s' w k = dropped s w k := by
  unfold dropped State.cr; rw [h]

/-- a change of the pick registers leaves the dropped edges alone -/
theorem dropped_setCr_picks (s : State) (c : Nat) (f : ClassRegs → ClassRegs)
    (hf : ∀ r, (f r).droppedSetup = r.droppedSetup ∧ (f r).droppedCleanup = r.droppedCleanup) (w : Nat) (k : Key) :
    dropped (s.setCr c f) w k = dropped s w k := by
  unfold dropped
  rcases cr_setCr_cases s c f k.2.1 with h | ⟨_, h⟩
  · rw [h]
  · rw [h, (hf _).1, (hf _).2]

theorem dropped_setCr_pickS (s : State) (c : Nat) (X : ClassRegs → Reg) (w : Nat) (k : Key) :
    dropped (s.setCr c (fun r => { r with pickedBySetup := X r })) w k = dropped s w k :=
  dropped_setCr_picks s c (fun r => { r with pickedBySetup := X r }) (fun _ => ⟨rfl, rfl⟩) w k

theorem dropped_setCr_pickC (s : State) (c : Nat) (X : ClassRegs → Reg) (w : Nat) (k : Key) :
    dropped (s.setCr c (fun r => { r with pickedByCleanup := X r })) w k = dropped s w k :=
  dropped_setCr_picks s c (fun r => { r with pickedByCleanup := X r }) (fun _ => ⟨rfl, rfl⟩) w k

/-- one more entry in a dropped register: nothing gets undropped -/
theorem dropped_setCr_mono (s : State) (c : Nat) (f : ClassRegs → ClassRegs)
    (hf : ∀ r, ((f r).droppedSetup = r.droppedSetup ∨ ∃ k, (f r).droppedSetup = regAdd r.droppedSetup k) ∧
      ((f r).droppedCleanup = r.droppedCleanup ∨ ∃ k, (f r).droppedCleanup = regAdd r.droppedCleanup k))
    (w : Nat) (k : Key) (h : dropped s w k = true) : dropped (s.setCr c f) w k = true := by
  unfold dropped at h ⊢
  rcases cr_setCr_cases s c f k.2.1 with h1 | ⟨_, h1⟩
  · rw [h1]; exact h
  · rw [h1]
    cases hk : k.1
    · simp only [hk, Bool.false_eq_true, if_false] at h ⊢
      rcases (hf (s.cr k.2.1)).2 with h2 | ⟨⟨c0, w0⟩, h2⟩
      · rw [h2]; exact h
      · rw [h2]
        simp only [List.contains_iff_mem] at h ⊢
        exact (mem_regWorkers_regAdd _ c0 w0 _ _).mpr (Or.inl h)
    · simp only [hk, if_true] at h ⊢
      rcases (hf (s.cr k.2.1)).1 with h2 | ⟨⟨c0, w0⟩, h2⟩
      · rw [h2]; exact h
      · rw [h2]
        simp only [List.contains_iff_mem] at h ⊢
        exact (mem_regWorkers_regAdd _ c0 w0 _ _).mpr (Or.inl h)

theorem dropped_dropParent_mono (g : Graph) (s : State) (child parent v w : Nat) (k : Key) (h : dropped s w k = true) :
    dropped (dropParent g s child parent v) w k = true := by
  unfold dropParent
  exact dropped_setCr_mono s (g.node child).cls
    (fun r => { r with droppedSetup := regAdd r.droppedSetup ((g.node parent).cls, v) })
    (fun r => ⟨Or.inr ⟨_, rfl⟩, Or.inl rfl⟩) w k h

theorem dropped_dropChild_mono (g : Graph) (s : State) (parent child v w : Nat) (k : Key) (h : dropped s w k = true) :
    dropped (dropChild g s parent child v) w k = true := by
  unfold dropChild
  exact dropped_setCr_mono s (g.node parent).cls
    (fun r => { r with droppedCleanup := regAdd r.droppedCleanup ((g.node child).cls, v) })
    (fun r => ⟨Or.inl rfl, Or.inr ⟨_, rfl⟩⟩) w k h

theorem dropped_dropParent_key (g : Graph) (s : State) (child parent w : Nat) (hc : (g.node child).cls < s.regs.length) :
    dropped (dropParent g s child parent w) w (true, (g.node child).cls, (g.node parent).cls) = true := by
  unfold dropParent dropped
  simp only [if_true]
  rw [cr_setCr_eq s _ _ hc]
  simp only [List.contains_iff_mem]
  exact (mem_regWorkers_regAdd _ _ _ _ _).mpr (Or.inr ⟨rfl, rfl⟩)

theorem dropped_dropChild_key (g : Graph) (s : State) (parent child w : Nat) (hc : (g.node parent).cls < s.regs.length) :
    dropped (dropChild g s parent child w) w (false, (g.node parent).cls, (g.node child).cls) = true := by
  unfold dropChild dropped
  simp only [Bool.false_eq_true, if_false]
  rw [cr_setCr_eq s _ _ hc]
  simp only [List.contains_iff_mem]
  exact (mem_regWorkers_regAdd _ _ _ _ _).mpr (Or.inr ⟨rfl, rfl⟩)

theorem regs_length_setCr (s : State) (c : Nat) (f : ClassRegs → ClassRegs) : (s.setCr c f).regs.length = s.regs.length := by
  simp [State.setCr]

theorem regs_length_dropChildren (g : Graph) (next w : Nat) (l : List (Nat × List String)) (s : State) :
    (l.foldl (fun s (p, _) => dropChild g s p next w) s).regs.length = s.regs.length := by
  induction l generalizing s with
  | nil => rfl
  | cons a r ih => simp only [List.foldl_cons]; rw [ih]; exact regs_length_setCr _ _ _

theorem dropped_dropChildren_mono (g : Graph) (next v w : Nat) (k : Key) (l : List (Nat × List String)) (s : State)
    (h : dropped s w k = true) : dropped (l.foldl (fun s (p, _) => dropChild g s p next v) s) w k = true := by
  induction l generalizing s with
  | nil => exact h
  | cons a r ih => simp only [List.foldl_cons]; exact ih _ (dropped_dropChild_mono g s a.1 next v w k h)

/-- after the drops of `reverse`, the child is dropped from every parent whose class has a register -/
theorem dropped_dropChildren_key (g : Graph) (next w p : Nat) (l : List (Nat × List String)) (s : State)
    (hp : p ∈ l.map (·.1)) (hc : (g.node p).cls < s.regs.length) :
    dropped (l.foldl (fun s (p, _) => dropChild g s p next w) s) w (false, (g.node p).cls, (g.node next).cls) = true := by
  induction l generalizing s with
  | nil => simp at hp
  | cons a r ih =>
    simp only [List.foldl_cons]
    simp only [List.map_cons, List.mem_cons] at hp
    rcases hp with h | h
    · apply dropped_dropChildren_mono
      rw [h]
      exact dropped_dropChild_key g s a.1 next w (by rw [← h]; exact hc)
    · exact ih _ h (by unfold dropChild; rw [regs_length_setCr]; exact hc)

/-- what a drop can newly drop -/
theorem dropped_dropParent_new (g : Graph) (s : State) (child parent v w : Nat) (k : Key)
    (h : dropped (dropParent g s child parent v) w k = true) :
    dropped s w k = true ∨ (k.1 = true ∧ k.2.2 = (g.node parent).cls) := by
  unfold dropParent at h
  unfold dropped at h ⊢
  rcases cr_setCr_cases s (g.node child).cls
    (fun r => { r with droppedSetup := regAdd r.droppedSetup ((g.node parent).cls, v) }) k.2.1 with h1 | ⟨_, h1⟩
  · rw [h1] at h; exact Or.inl h
  · rw [h1] at h
    cases hk : k.1
    · simp only [hk, Bool.false_eq_true, if_false] at h ⊢
      exact Or.inl h
    · simp only [hk, if_true] at h ⊢
      rw [List.contains_iff_mem, mem_regWorkers_regAdd] at h
      rcases h with h | ⟨_, h⟩
      · left; rw [List.contains_iff_mem]; exact h
      · right; exact ⟨trivial, h⟩

theorem dropped_dropChild_new (g : Graph) (s : State) (parent child v w : Nat) (k : Key)
    (h : dropped (dropChild g s parent child v) w k = true) :
    dropped s w k = true ∨ (k.1 = false ∧ k.2.2 = (g.node child).cls) := by
  unfold dropChild at h
  unfold dropped at h ⊢
  rcases cr_setCr_cases s (g.node parent).cls
    (fun r => { r with droppedCleanup := regAdd r.droppedCleanup ((g.node child).cls, v) }) k.2.1 with h1 | ⟨_, h1⟩
  · rw [h1] at h; exact Or.inl h
  · rw [h1] at h
    cases hk : k.1
    · simp only [hk, Bool.false_eq_true, if_false] at h ⊢
      rw [List.contains_iff_mem, mem_regWorkers_regAdd] at h
      rcases h with h | ⟨_, h⟩
      · left; rw [List.contains_iff_mem]; exact h
      · right; exact ⟨trivial, h⟩
    · simp only [hk, if_true] at h ⊢
      exact Or.inl h

theorem dropped_dropChildren_new (g : Graph) (next v w : Nat) (k : Key) (l : List (Nat × List String)) (s : State)
    (h : dropped (l.foldl (fun s (p, _) => dropChild g s p next v) s) w k = true) :
    dropped s w k = true ∨ (k.1 = false ∧ k.2.2 = (g.node next).cls) := by
  induction l generalizing s with
  | nil => exact Or.inl h
  | cons a r ih =>
    simp only [List.foldl_cons] at h
    rcases ih _ h with h1 | h1
    · exact dropped_dropChild_new g s a.1 next v w k h1
    · exact Or.inr h1

/-! ## frames -/

/-- a piece of a step that changes dynamic node records and the store only -/
structure Fr (s s' : State) : Prop where
  workers : s'.workers = s.workers
  regs : s'.regs = s.regs
  hidden : s'.hidden = s.hidden
  incompatible : s'.incompatible = s.incompatible
  nodesLen : s'.nodes.length = s.nodes.length

theorem Fr.refl (s : State) : Fr s s := ⟨rfl, rfl, rfl, rfl, rfl⟩

theorem Fr.trans {s s1 s2 : State} (a : Fr s s1) (b : Fr s1 s2) : Fr s s2 :=
  ⟨b.workers.trans a.workers, b.regs.trans a.regs, b.hidden.trans a.hidden, b.incompatible.trans a.incompatible,
   b.nodesLen.trans a.nodesLen⟩

theorem Fr.wd {s s' : State} (a : Fr s s') (v : Nat) : s'.wd v = s.wd v := by
  unfold State.wd; rw [a.workers]

theorem Fr.cr {s s' : State} (a : Fr s s') (c : Nat) : s'.cr c = s.cr c := by
  unfold State.cr; rw [a.regs]

theorem fr_setNd (s : State) (m : Nat) (f : NodeD → NodeD) : Fr s (s.setNd m f) :=
  ⟨rfl, rfl, rfl, rfl, nodes_length_setNd s m f⟩

theorem fr_foldl {β} (f : State → β → State) (h : ∀ s b, Fr s (f s b)) (l : List β) (s : State) : Fr s (l.foldl f s) := by
  induction l generalizing s with
  | nil => exact Fr.refl s
  | cons a r ih => simp only [List.foldl_cons]; exact (h s a).trans (ih _)

theorem fr_pullLocations (g : Graph) (s : State) (n : Nat) : Fr s (pullLocations g s n) := by
  unfold pullLocations
  split
  · exact Fr.refl s
  · apply fr_foldl
    rintro s ⟨p, vms⟩
    apply fr_foldl
    intro s loc
    apply fr_foldl
    intro s vm
    exact fr_setNd s n _

theorem fr_runDecision (g : Graph) (s : State) (n v : Nat) (b : Bool) (s1 : State) (e1 : List Event)
    (h : runDecision g s n v = .ok (b, s1, e1)) : Fr s s1 := by
  rcases runDecision_state g s n v b s1 e1 h with h | h
  · rw [h]; exact Fr.refl s
  · rw [h]; exact fr_setNd s n _

theorem fr_finishTraverse (s : State) (n v : Nat) : Fr s (finishTraverse s n v) := fr_setNd s n _

theorem fr_syncStates (g : Graph) (s : State) (n w : Nat) (r : Option (List String)) : Fr s (syncStates g s n w r).1 := by
  unfold syncStates
  dsimp only
  split
  · exact Fr.refl s
  · split <;> exact ⟨rfl, rfl, rfl, rfl, rfl⟩

theorem fr_reverseNode (g : Graph) (s : State) (n v : Nat) (s' : State) (evs : List Event)
    (h : reverseNode g s n v = .ok (s', evs)) : Fr s s' := by
  unfold reverseNode at h
  by_cases hocc : isOccupied g s n v = true
  · simp only [hocc, if_true, Except.ok.injEq, Prod.mk.injEq] at h
    rw [← h.1]; exact Fr.refl s
  · simp only [hocc, Bool.false_eq_true, if_false, ite_self] at h
    cases hd : cleanDecision g (s.setNd n (fun d => { d with started := some v })) n v with
    | error e => simp [hd] at h
    | ok clean =>
      simp only [hd, Except.ok.injEq, Prod.mk.injEq] at h
      rw [← h.1]
      generalize hsy : (if (clean && !(g.node n).sets.isEmpty) = true then
          syncStates g (s.setNd n (fun d => { d with started := some v })) n v none
        else (s.setNd n (fun d => { d with started := some v }), [])) = sy
      have h2 : Fr (s.setNd n (fun d => { d with started := some v })) sy.1 := by
        rw [← hsy]
        split
        · exact fr_syncStates g _ n v none
        · exact Fr.refl _
      exact (fr_setNd s n _).trans (h2.trans (fr_setNd _ n _))

/-- what stays as it is in every `.cont` iteration -/
structure Keep (s s' : State) : Prop where
  workersLen : s'.workers.length = s.workers.length
  regsLen : s'.regs.length = s.regs.length
  hidden : s'.hidden = s.hidden
  incompatible : s'.incompatible = s.incompatible
  nodesLen : s'.nodes.length = s.nodes.length

theorem Keep.refl (s : State) : Keep s s := ⟨rfl, rfl, rfl, rfl, rfl⟩

theorem Keep.trans {s s1 s2 : State} (a : Keep s s1) (b : Keep s1 s2) : Keep s s2 :=
  ⟨b.workersLen.trans a.workersLen, b.regsLen.trans a.regsLen, b.hidden.trans a.hidden,
   b.incompatible.trans a.incompatible, b.nodesLen.trans a.nodesLen⟩

theorem Fr.keep {s s' : State} (a : Fr s s') : Keep s s' :=
  ⟨by rw [a.workers], by rw [a.regs], a.hidden, a.incompatible, a.nodesLen⟩

theorem keep_setCr (s : State) (c : Nat) (f : ClassRegs → ClassRegs) : Keep s (s.setCr c f) :=
  ⟨rfl, regs_length_setCr s c f, rfl, rfl, rfl⟩

theorem keep_setWd (s : State) (w : Nat) (f : WorkerD → WorkerD) : Keep s (s.setWd w f) :=
  ⟨by simp [State.setWd], rfl, rfl, rfl, rfl⟩

theorem keep_dropChildren (g : Graph) (next w : Nat) (l : List (Nat × List String)) (s : State) :
    Keep s (l.foldl (fun s (p, _) => dropChild g s p next w) s) := by
  induction l generalizing s with
  | nil => exact Keep.refl s
  | cons a r ih => simp only [List.foldl_cons]; exact (keep_setCr s _ _).trans (ih _)

theorem wd_dropChildren (g : Graph) (next w v : Nat) (l : List (Nat × List String)) (s : State) :
    (l.foldl (fun s (p, _) => dropChild g s p next w) s).wd v = s.wd v := by
  induction l generalizing s with
  | nil => rfl
  | cons a r ih => simp only [List.foldl_cons]; rw [ih]; rfl

/-! ## the run decision taken twice (`traverse_node` decides, then the loop asks `should_run` again) -/

theorem mem_dedup (l : List Nat) (a : Nat) : a ∈ dedupNat l ↔ a ∈ l := by
  induction l with
  | nil => simp [dedupNat]
  | cons b r ih =>
    unfold dedupNat
    split
    · rename_i hc
      have hb : b ∈ r := by simpa using hc
      rw [ih]
      constructor
      · intro h; exact List.mem_cons_of_mem _ h
      · intro h
        rcases List.mem_cons.mp h with h | h
        · rw [h]; exact hb
        · exact h
    · simp only [List.mem_cons, ih]

/-- the worker `should_rerun` filters the results for -/
def effSt (o : Option Nat) (w : Nat) : Option Nat :=
  match o with
  | some v => some v
  | none => some w

theorem sharedFiltered_congr (g : Graph) (s s' : State) (n : Nat) (sw : Option Nat)
    (h : ∀ m, (s'.nd m).results = (s.nd m).results) : sharedFilteredResults g s' n sw = sharedFilteredResults g s n sw := by
  unfold sharedFilteredResults
  rw [sharedResults_congr g s s' n h]

theorem shouldRerun_congr (g : Graph) (s s' : State) (n w : Nat)
    (hd : (s'.nd n).rerunDisabled = (s.nd n).rerunDisabled)
    (hres : ∀ m, (s'.nd m).results = (s.nd m).results)
    (hst : effSt (s'.nd n).started w = effSt (s.nd n).started w) :
    shouldRerun g s' n w = shouldRerun g s n w := by
  unfold shouldRerun
  rw [sharedResults_congr g s s' n hres, hd]
  have hf : ∀ sw, sharedFilteredResults g s' n sw = sharedFilteredResults g s n sw :=
    fun sw => sharedFiltered_congr g s s' n sw hres
  cases h1 : (s'.nd n).started <;> cases h2 : (s.nd n).started <;> simp only [h1, h2, effSt] at hst ⊢ <;>
    simp only [hf]
  all_goals first
    | rfl
    | (cases hst; rfl)

theorem shouldRerun_disabled (g : Graph) (s : State) (n w : Nat) (h : (s.nd n).rerunDisabled = true) :
    shouldRerun g s n w = .ok false := by
  unfold shouldRerun
  simp only [h, if_true]

theorem isFinished_of_finished (g : Graph) (s : State) (n w : Nat) (hf : (s.nd n).finished = some w) :
    isFinished g s n w 1 = true := by
  unfold isFinished
  split
  · rfl
  · rename_i hflat
    have hmem : w ∈ sharedFinished g s n := by
      unfold sharedFinished
      rw [mem_dedup, List.mem_filterMap]
      refine ⟨n, ?_, hf⟩
      unfold Graph.copies
      simp only [hflat, Bool.false_eq_true, if_false]
      exact List.mem_cons_self
    unfold scopeCount
    cases (g.node n).shape with
    | own => simp only [List.contains_iff_mem]; exact hmem
    | swarm =>
      simp only
      have h1 : ((1 : Int) == -1) = false := by decide
      simp only [h1, Bool.false_eq_true, if_false, decide_eq_true_eq]
      have : w ∈ (sharedFinished g s n).filter (fun v => (g.worker v).swarm == (g.worker w).swarm) :=
        List.mem_filter.mpr ⟨hmem, by simp⟩
      have := List.length_pos_of_mem this
      omega
    | global =>
      simp only
      have h1 : ((1 : Int) == -1) = false := by decide
      simp only [h1, Bool.false_eq_true, if_false, decide_eq_true_eq]
      have := List.length_pos_of_mem hmem
      omega

theorem results_finishTraverse (s : State) (n w m : Nat) : ((finishTraverse s n w).nd m).results = (s.nd m).results :=
  nd_setNd_proj (·.results) s n (fun d => { d with finished := some w, started := none }) (fun _ => rfl) m

theorem disabled_finishTraverse (s : State) (n w m : Nat) :
    ((finishTraverse s n w).nd m).rerunDisabled = (s.nd m).rerunDisabled :=
  nd_setNd_proj (·.rerunDisabled) s n (fun d => { d with finished := some w, started := none }) (fun _ => rfl) m

theorem started_finishTraverse (s : State) (n w : Nat) (hn : n < s.nodes.length) :
    ((finishTraverse s n w).nd n).started = none ∧ ((finishTraverse s n w).nd n).finished = some w := by
  unfold finishTraverse
  rw [nd_setNd_eq s n _ hn]
  exact ⟨rfl, rfl⟩

/-- the second decision about a copy that was entered and not run is negative again -/
theorem runDecision_again (g : Graph) (sa : State) (n w : Nat) (hn : n < sa.nodes.length)
    (hst : (sa.nd n).started = some w) (s1 : State) (evs : List Event)
    (h : runDecision g sa n w = .ok (false, s1, evs)) :
    ∃ s2 evs2, runDecision g (finishTraverse s1 n w) n w = .ok (false, s2, evs2) := by
  have hfr := fr_runDecision g sa n w false s1 evs h
  have hn1 : n < s1.nodes.length := by rw [hfr.nodesLen]; exact hn
  obtain ⟨hsF, hfF⟩ := started_finishTraverse s1 n w hn1
  unfold runDecision at h ⊢
  dsimp only at h ⊢
  cases c1 : (g.node n).sharedRoot <;> cases c2 : (g.node n).dryRun <;> cases c3 : (g.node n).flat <;>
    cases c4 : (g.node n).cloneSource <;> cases c5 : g.idIn w n <;> cases c6 : (g.node n).sets.isEmpty
  all_goals simp only [c1, c2, c3, c4, c5, c6, Bool.false_eq_true, if_false, if_true, Bool.not_false, Bool.not_true,
    reduceCtorEq] at h ⊢
  all_goals first
    | exact ⟨_, _, rfl⟩
    | skip
  · -- stateful
    unfold runDecisionStateful runDecisionStatefulCore at h
    have hfin : isFinished g (finishTraverse s1 n w) n w 1 = true := isFinished_of_finished g _ n w hfF
    unfold runDecisionStateful runDecisionStatefulCore
    simp only [hfin, Bool.not_true, Bool.false_and, Bool.false_eq_true, if_false, Bool.not_false, Bool.and_true]
    -- the first decision
    by_cases hx : ((!isFinished g sa n w 1) && (if (!isFinished g sa n w 1) = true then scanStates g sa n w else (false, [])).1) = true
    · simp only [hx, if_true, Except.ok.injEq, Prod.mk.injEq, reduceCtorEq, false_and] at h
    · simp only [hx, Bool.false_eq_true, if_false] at h
      -- the second decision
      by_cases hD2 : (sharedFilteredResults g (finishTraverse s1 n w) n ((finishTraverse s1 n w).nd n).started).isEmpty = true
      · simp only [hD2, if_true]
        rw [shouldRerun_disabled]
        · exact ⟨_, _, rfl⟩
        · unfold disableRerun
          rw [nd_setNd_eq _ n _ (by unfold finishTraverse; rw [nodes_length_setNd]; exact hn1)]
      · simp only [hD2, Bool.false_eq_true, if_false]
        by_cases hD1 : ((sharedFilteredResults g sa n (sa.nd n).started).isEmpty &&
            !(if (!isFinished g sa n w 1) = true then scanStates g sa n w else (false, [])).1) = true
        · simp only [hD1, if_true] at h
          cases hr : shouldRerun g (disableRerun sa n) n w with
          | error e => simp [hr, Except.map] at h
          | ok r =>
            simp only [hr, Except.map, Except.ok.injEq, Prod.mk.injEq] at h
            rw [shouldRerun_disabled]
            · exact ⟨_, _, rfl⟩
            · rw [disabled_finishTraverse, ← h.2.1]
              unfold disableRerun
              rw [nd_setNd_eq _ n _ hn]
        · simp only [hD1, Bool.false_eq_true, if_false] at h
          cases hr : shouldRerun g sa n w with
          | error e => simp [hr, Except.map] at h
          | ok r =>
            simp only [hr, Except.map, Except.ok.injEq, Prod.mk.injEq] at h
            have hs1 : s1 = sa := h.2.1.symm
            have hcong : shouldRerun g (finishTraverse s1 n w) n w = shouldRerun g sa n w := by
              apply shouldRerun_congr
              · rw [disabled_finishTraverse, hs1]
              · intro m; rw [results_finishTraverse, hs1]
              · rw [hsF, hst]; rfl
            rw [hcong, hr, ← h.1]
            exact ⟨_, _, rfl⟩
  · -- stateless
    have hs1 : s1 = sa := runDecisionStateless_state g sa n w false s1 evs h
    unfold runDecisionStateless at h ⊢
    have hres : sharedResults g (finishTraverse s1 n w) n = sharedResults g sa n := by
      apply sharedResults_congr
      intro m; rw [results_finishTraverse, hs1]
    rw [hres]
    by_cases he : (sharedResults g sa n).isEmpty = true
    · simp only [he, if_true, Except.ok.injEq, Prod.mk.injEq, reduceCtorEq, false_and] at h
    · simp only [he, Bool.false_eq_true, if_false] at h ⊢
      have hcong : shouldRerun g (finishTraverse s1 n w) n w = shouldRerun g sa n w := by
        apply shouldRerun_congr
        · rw [disabled_finishTraverse, hs1]
        · intro m; rw [results_finishTraverse, hs1]
        · rw [hsF, hst]; rfl
      rw [hcong]
      cases hr : shouldRerun g sa n w with
      | error e => simp [hr, Except.map] at h
      | ok r =>
        simp only [hr, Except.map, Except.ok.injEq, Prod.mk.injEq] at h
        rw [← h.1]
        exact ⟨_, _, rfl⟩

/-! ## lazy expansion: no unexplored flat node -/

/-- every flat node has been unrolled for some worker (or found incompatible): the loop never postpones a cleanup -/
def Explored (g : Graph) (s : State) : Prop := unexploredNodes (vis g s) s = []

theorem vis_congr (g : Graph) (s s' : State) (h : s'.hidden = s.hidden) : vis g s' = vis g s := by
  unfold vis; rw [h]

theorem vis_cls (g : Graph) (s : State) (i : Nat) : ((vis g s).node i).cls = (g.node i).cls := (sameStatic_vis g s).cls i

theorem explored_iff (g : Graph) (s : State) :
    Explored g s ↔ ∀ n, n < g.nodes.length → (g.node n).flat = true → isUnrolled (vis g s) s n none = true := by
  unfold Explored unexploredNodes
  rw [List.filter_eq_nil_iff]
  simp only [List.mem_range, (sameStatic_vis g s).len, vis_flat, Bool.and_eq_true, Bool.not_eq_true', not_and,
    Bool.not_eq_false]

theorem isUnrolled_none_mono (g : Graph) (s s' : State) (hh : ∀ x, x ∈ s'.hidden → x ∈ s.hidden)
    (hi : ∀ x, x ∈ s.incompatible → x ∈ s'.incompatible) (f : Nat)
    (h : isUnrolled (vis g s) s f none = true) : isUnrolled (vis g s') s' f none = true := by
  obtain ⟨su, cl, hv⟩ := vis_node_eq g s f
  obtain ⟨su', cl', hv'⟩ := vis_node_eq g s' f
  have hid : ∀ c, (vis g s').nodeId c = (vis g s).nodeId c := by
    intro c
    obtain ⟨a, b, h1⟩ := vis_node_eq g s c
    obtain ⟨a', b', h2⟩ := vis_node_eq g s' c
    unfold Graph.nodeId; rw [h1, h2]
  have hsr : ((vis g s').node f).sharedRoot = ((vis g s).node f).sharedRoot := by rw [hv, hv']
  have hsl : ((vis g s').node f).setless = ((vis g s).node f).setless := by rw [hv, hv']
  unfold isUnrolled at h ⊢
  rw [hsr, hsl]
  by_cases hr : ((vis g s).node f).sharedRoot = true
  · simp only [hr, if_true]
  · simp only [hr, Bool.false_eq_true, if_false, Bool.or_eq_true, List.any_eq_true, Bool.not_eq_true',
      List.isEmpty_eq_false_iff_exists_mem] at h ⊢
    rcases h with ⟨x, hx, hxf⟩ | ⟨c, hc⟩
    · exact Or.inl ⟨x, hi x hx, hxf⟩
    · right
      refine ⟨c, ?_⟩
      rw [List.mem_filter] at hc ⊢
      refine ⟨?_, by rw [hid]; exact hc.2⟩
      obtain ⟨e, he, hec⟩ := List.mem_map.mp hc.1
      have h1 := ((mem_vis_edges g s f e).2).mp he
      exact List.mem_map.mpr ⟨e, ((mem_vis_edges g s' f e).2).mpr ⟨h1.1, not_hidden_mono hh _ h1.2.1,
        not_hidden_mono hh _ h1.2.2.1, not_hidden_mono hh _ h1.2.2.2⟩, hec⟩

theorem Explored.mono {g : Graph} {s s' : State} (h : Explored g s) (hh : ∀ x, x ∈ s'.hidden → x ∈ s.hidden)
    (hi : ∀ x, x ∈ s.incompatible → x ∈ s'.incompatible) : Explored g s' := by
  rw [explored_iff] at h ⊢
  intro n hn hf
  exact isUnrolled_none_mono g s s' hh hi n (h n hn hf)

theorem Explored.keep {g : Graph} {s s' : State} (h : Explored g s) (k : Keep s s') : Explored g s' :=
  h.mono (fun x hx => by rw [← k.hidden]; exact hx) (fun x hx => by rw [k.incompatible]; exact hx)

/-- the expansion step when nothing is unexplored: the flag read by the postponement test is off, registers, node
records and paths stay, the explored part only grows -/
theorem prepare_explored (g : Graph) (s : State) (w : Nat) (hexp : Explored g s) (hw : w < s.workers.length) :
    (prepare g s w).regs = s.regs ∧ (prepare g s w).nodes = s.nodes ∧
    (prepare g s w).workers.length = s.workers.length ∧
    (∀ v, ((prepare g s w).wd v).path = (s.wd v).path) ∧
    ((s.wd w).path ≠ [] → ((prepare g s w).wd w).unexplored = false) ∧
    Explored g (prepare g s w) := by
  unfold prepare
  dsimp only
  cases hl : (s.wd w).path.getLast? with
  | none =>
    refine ⟨rfl, rfl, rfl, fun _ => rfl, fun hne => ?_, hexp⟩
    rw [List.getLast?_eq_none_iff] at hl
    exact absurd hl hne
  | some next =>
    dsimp only
    have hu : (!(unexploredNodes (vis g s) s).isEmpty) = false := by
      unfold Explored at hexp; rw [hexp]; rfl
    rw [hu]
    have hpath : ∀ v, ((s.setWd w (fun d => { d with unexplored := false })).wd v).path = (s.wd v).path :=
      fun v => wd_setWd_proj (·.path) s w (fun d => { d with unexplored := false }) (fun _ => rfl) v
    have hun : ((s.setWd w (fun d => { d with unexplored := false })).wd w).unexplored = false := by
      rw [wd_setWd_eq s w _ hw]
    have hexpA : Explored g (s.setWd w (fun d => { d with unexplored := false })) := hexp.keep (keep_setWd s w _)
    split
    · unfold reveal
      dsimp only
      split
      · refine ⟨rfl, rfl, by simp [State.setWd], hpath, fun _ => hun, ?_⟩
        exact hexpA.mono (fun x hx => hx) (fun x hx => List.mem_append_left _ hx)
      · refine ⟨rfl, rfl, by simp [State.setWd], hpath, fun _ => hun, ?_⟩
        exact hexpA.mono (fun x hx => (List.mem_filter.mp hx).1) (fun x hx => hx)
    · exact ⟨rfl, rfl, by simp [State.setWd], hpath, fun _ => hun, hexpA⟩

/-! ## picks -/

theorem pickChild_spec (gv : Graph) (s : State) (n w c : Nat) (s' : State) (h : pickChild gv s n w = some (c, s')) :
    c ∈ (gv.node n).cleanup.map (·.1) ∧
    (regWorkers (s.cr (gv.node n).cls).droppedCleanup (some (gv.node c).cls)).contains w = false ∧
    s' = s.setCr (gv.node c).cls (fun r => { r with pickedBySetup := regAdd r.pickedBySetup ((gv.node n).cls, w) }) := by
  unfold pickChild at h
  dsimp only at h
  split at h
  · simp at h
  · rename_i d r hs
    simp only [Option.some.injEq, Prod.mk.injEq] at h
    have hd := pk_mem_stableSort _ d _ (by rw [hs]; exact List.mem_cons_self)
    rw [List.mem_filter] at hd
    have h2 := hd.2
    simp only [Bool.and_eq_true, Bool.not_eq_true'] at h2
    rw [← h.1]
    exact ⟨hd.1, h2.2, h.2.symm⟩

theorem pickParent_spec (gv : Graph) (s : State) (n w c : Nat) (s' : State) (h : pickParent gv s n w = some (c, s')) :
    c ∈ (gv.node n).setup.map (·.1) ∧
    (regWorkers (s.cr (gv.node n).cls).droppedSetup (some (gv.node c).cls)).contains w = false ∧
    s' = s.setCr (gv.node c).cls (fun r => { r with pickedByCleanup := regAdd r.pickedByCleanup ((gv.node n).cls, w) }) := by
  unfold pickParent at h
  dsimp only at h
  split at h
  · simp at h
  · rename_i d r hs
    simp only [Option.some.injEq, Prod.mk.injEq] at h
    have hd := pk_mem_stableSort _ d _ (by rw [hs]; exact List.mem_cons_self)
    rw [List.mem_filter] at hd
    have h2 := hd.2
    simp only [Bool.and_eq_true, Bool.not_eq_true'] at h2
    rw [← h.1]
    exact ⟨hd.1, h2.2, h.2.symm⟩

/-- edges of the visible graph are edges of the full graph -/
theorem vis_setup_sub (g : Graph) (s : State) (n p : Nat) (h : p ∈ ((vis g s).node n).setup.map (·.1)) :
    p ∈ (g.node n).setup.map (·.1) := by
  obtain ⟨e, he, rfl⟩ := List.mem_map.mp h
  exact List.mem_map.mpr ⟨e, (((mem_vis_edges g s n e).1).mp he).1, rfl⟩

theorem vis_cleanup_sub (g : Graph) (s : State) (n c : Nat) (h : c ∈ ((vis g s).node n).cleanup.map (·.1)) :
    c ∈ (g.node n).cleanup.map (·.1) := by
  obtain ⟨e, he, rfl⟩ := List.mem_map.mp h
  exact List.mem_map.mpr ⟨e, (((mem_vis_edges g s n e).2).mp he).1, rfl⟩

/-! ## the moves of a `.cont` iteration -/

/-- how often nodes of class `c` were picked as a child (the `picked_by_setup_nodes` counter of the class) -/
def picks (s : State) (c : Nat) : Nat := regTotal (s.cr c).pickedBySetup

theorem regTotal_regAdd (r : Reg) (k : Nat × Nat) : regTotal (regAdd r k) = regTotal r + 1 := by
  unfold regTotal
  induction r with
  | nil => simp [regAdd]
  | cons e r ih =>
    unfold regAdd
    split
    · simp only [List.map_cons, List.sum_cons]; omega
    · simp only [List.map_cons, List.sum_cons, ih]; omega

theorem picks_of_regs (s s' : State) (h : s'.regs = s.regs) (c : Nat) : picks s' c = picks s c := by
  unfold picks State.cr; rw [h]

theorem picks_setWd (s : State) (v : Nat) (f : WorkerD → WorkerD) (c : Nat) : picks (s.setWd v f) c = picks s c := rfl

theorem picks_setCr_keep (s : State) (c0 : Nat) (f : ClassRegs → ClassRegs)
    (hf : ∀ r, (f r).pickedBySetup = r.pickedBySetup) (c : Nat) : picks (s.setCr c0 f) c = picks s c := by
  unfold picks
  rcases cr_setCr_cases s c0 f c with h | ⟨_, h⟩
  · rw [h]
  · rw [h, hf]

theorem picks_setCr_dS (s : State) (c0 : Nat) (X : ClassRegs → Reg) (c : Nat) :
    picks (s.setCr c0 (fun r => { r with droppedSetup := X r })) c = picks s c :=
  picks_setCr_keep s c0 (fun r => { r with droppedSetup := X r }) (fun _ => rfl) c

theorem picks_setCr_dC (s : State) (c0 : Nat) (X : ClassRegs → Reg) (c : Nat) :
    picks (s.setCr c0 (fun r => { r with droppedCleanup := X r })) c = picks s c :=
  picks_setCr_keep s c0 (fun r => { r with droppedCleanup := X r }) (fun _ => rfl) c

theorem picks_setCr_pC (s : State) (c0 : Nat) (X : ClassRegs → Reg) (c : Nat) :
    picks (s.setCr c0 (fun r => { r with pickedByCleanup := X r })) c = picks s c :=
  picks_setCr_keep s c0 (fun r => { r with pickedByCleanup := X r }) (fun _ => rfl) c

theorem picks_setCr_pick (s : State) (c0 : Nat) (k : Nat × Nat) (h : c0 < s.regs.length) (c : Nat) :
    picks (s.setCr c0 (fun r => { r with pickedBySetup := regAdd r.pickedBySetup k })) c =
      picks s c + (if c = c0 then 1 else 0) := by
  unfold picks
  by_cases hc : c = c0
  · subst hc
    rw [cr_setCr_eq s c _ h]
    simp only [if_true]
    exact regTotal_regAdd _ _
  · simp only [hc, if_false, Nat.add_zero]
    rcases cr_setCr_cases s c0 (fun r => { r with pickedBySetup := regAdd r.pickedBySetup k }) c with h1 | ⟨h1, _⟩
    · rw [h1]
    · exact absurd h1 hc

theorem picks_dropChildren (g : Graph) (next w : Nat) (l : List (Nat × List String)) (s : State) (c : Nat) :
    picks (l.foldl (fun s (p, _) => dropChild g s p next w) s) c = picks s c := by
  induction l generalizing s with
  | nil => rfl
  | cons a r ih =>
    simp only [List.foldl_cons]
    rw [ih]
    unfold dropChild
    exact picks_setCr_dC s _ _ c

/-- what a `.cont` iteration of worker `w` does to its path, to the dropped edges and to the pick counters -/
inductive Move (g : Graph) (w : Nat) (s s' : State) : Prop
  | pushUp (last c : Nat) :
      (s.wd w).path.getLast? = some last → (s'.wd w).path = (s.wd w).path ++ [c] →
      c ∈ (g.node last).setup.map (·.1) → dropped s w (true, (g.node last).cls, (g.node c).cls) = false →
      (∀ k, dropped s' w k = dropped s w k) → relevant g w c = true →
      (∀ c', picks s' c' = picks s c') → Move g w s s'
  | pushDown (last c : Nat) :
      (s.wd w).path.getLast? = some last → (s'.wd w).path = (s.wd w).path ++ [c] →
      c ∈ (g.node last).cleanup.map (·.1) → dropped s w (false, (g.node last).cls, (g.node c).cls) = false →
      ((s.wd w).path.length = 1 ∨ isUp g ((s.wd w).path.getD ((s.wd w).path.length - 2) 0) last = false) →
      (∀ k, dropped s' w k = dropped s w k) → relevant g w c = true →
      (∀ c', picks s' c' = picks s c' + (if c' = (g.node c).cls then 1 else 0)) → Move g w s s'
  | pop (next : Nat) :
      (s.wd w).path.getLast? = some next → 2 ≤ (s.wd w).path.length → (s'.wd w).path = (s.wd w).path.dropLast →
      (∀ k, dropped s w k = true → dropped s' w k = true) →
      dropped s' w (posKey g ((s.wd w).path.getD ((s.wd w).path.length - 2) 0) next) = true →
      (∀ k, dropped s' w k = true → dropped s w k = true ∨
        (k.1 = isUp g ((s.wd w).path.getD ((s.wd w).path.length - 2) 0) next ∧ k.2.2 = (g.node next).cls)) →
      (∀ c', picks s' c' = picks s c') → Move g w s s'

/-- the "postpone the cleanup" iteration: back to the root, nothing dropped, nothing picked -/
structure Jump (g : Graph) (w : Nat) (s s' : State) : Prop where
  len : 2 ≤ (s.wd w).path.length
  flag : (s.wd w).unexplored = true
  path : (s'.wd w).path = [g.root]
  dropped : ∀ k, dropped s' w k = dropped s w k
  picks : ∀ c, picks s' c = picks s c

theorem isUp_parent (g : Graph) (hsym : EdgeSym g) (last c : Nat) (hc : c ∈ (g.node last).setup.map (·.1)) :
    isUp g last c = true := by
  unfold isUp; simp only [List.contains_iff_mem]; exact (hsym c last).mp hc

theorem isUp_child (g : Graph) (d : Nat → Nat) (hr : Ranked g d) (hsym : EdgeSym g) (last c : Nat)
    (hc : c ∈ (g.node last).cleanup.map (·.1)) : isUp g last c = false := by
  have hlt := hr.lt c last ((hsym last c).mpr hc)
  cases hu : isUp g last c
  · rfl
  · exfalso
    unfold isUp at hu
    simp only [List.contains_iff_mem] at hu
    have := hr.lt last c ((hsym c last).mpr hu)
    omega

/-- a move lowers the measure and keeps the shape of the path -/
theorem move_dec (g : Graph) (d : Nat → Nat) (hr : Ranked g d) (hsym : EdgeSym g) (w : Nat) (s s' : State)
    (hwalk : Walk g d (s.wd w).path) (m : Move g w s s') : phi g s' w < phi g s w ∧ Walk g d (s'.wd w).path := by
  cases m with
  | pushUp last c hl hp hc hnd hD _ _ =>
    have hk : posKey g last c = (true, (g.node last).cls, (g.node c).cls) := by
      unfold posKey; rw [isUp_parent g hsym last c hc]
    refine ⟨phi_push g d hr s s' w last c hwalk hl hp hD (by rw [hk]; exact key_setup_mem g last c hc) (by rw [hk]; exact hnd), ?_⟩
    rw [hp]; exact walk_pushUp g d hr hsym _ last c hwalk hl hc
  | pushDown last c hl hp hc hnd hmode hD _ _ =>
    have hk : posKey g last c = (false, (g.node last).cls, (g.node c).cls) := by
      unfold posKey; rw [isUp_child g d hr hsym last c hc]
    refine ⟨phi_push g d hr s s' w last c hwalk hl hp hD (by rw [hk]; exact key_cleanup_mem g last c hc) (by rw [hk]; exact hnd), ?_⟩
    rw [hp]; exact walk_pushDown g d hr hsym _ last c hwalk hl hc hmode
  | pop next hl hlen hp hD hk _ _ =>
    refine ⟨phi_pop g s s' w next hl hlen hp hD hk, ?_⟩
    rw [hp]; exact walk_pop g d _ hwalk

theorem Move.of_fr {g : Graph} {w : Nat} {s sF s' : State} (a : Fr s sF) (m : Move g w sF s') : Move g w s s' := by
  have hwd : sF.wd w = s.wd w := a.wd w
  have hdr : ∀ k, dropped sF w k = dropped s w k := fun k => dropped_of_regs s sF a.regs w k
  cases m with
  | pushUp last c hl hp hc hnd hD hrel hpk =>
    rw [hwd] at hl hp; rw [hdr] at hnd
    exact .pushUp last c hl hp hc hnd (fun k => by rw [hD, hdr]) hrel (fun c' => by rw [hpk, picks_of_regs s sF a.regs])
  | pushDown last c hl hp hc hnd hmode hD hrel hpk =>
    rw [hwd] at hl hp hmode; rw [hdr] at hnd
    exact .pushDown last c hl hp hc hnd hmode (fun k => by rw [hD, hdr]) hrel
      (fun c' => by rw [hpk, picks_of_regs s sF a.regs])
  | pop next hl hlen hp hD hk hnew hpk =>
    rw [hwd] at hl hp hlen hk hnew
    exact .pop next hl hlen hp (fun k hk' => hD k (by rw [hdr]; exact hk')) hk
      (fun k hk' => by rw [← hdr]; exact hnew k hk') (fun c' => by rw [hpk, picks_of_regs s sF a.regs])

theorem Jump.of_fr {g : Graph} {w : Nat} {s sF s' : State} (a : Fr s sF) (m : Jump g w sF s') : Jump g w s s' :=
  ⟨by rw [← a.wd w]; exact m.len, by rw [← a.wd w]; exact m.flag, m.path,
   fun k => by rw [m.dropped, dropped_of_regs s sF a.regs], fun c => by rw [m.picks, picks_of_regs s sF a.regs]⟩

/-- every class of the graph has its registers -/
def ClsOK (g : Graph) (s : State) : Prop := ∀ n, n < g.nodes.length → (g.node n).cls < s.regs.length

theorem lt_of_setup_mem (g : Graph) (n p : Nat) (h : p ∈ (g.node n).setup.map (·.1)) : n < g.nodes.length := by
  by_cases hn : n < g.nodes.length
  · exact hn
  · rw [(node_edges_nil g n hn).1] at h; simp at h

theorem lt_of_cleanup_mem (g : Graph) (n c : Nat) (h : c ∈ (g.node n).cleanup.map (·.1)) : n < g.nodes.length := by
  by_cases hn : n < g.nodes.length
  · exact hn
  · rw [(node_edges_nil g n hn).2] at h; simp at h

theorem afterTraverse_up_eq (gv : Graph) (s : State) (w next prev : Nat) (s1 : State) (evs : List Event)
    (h : runDecision gv s next w = .ok (false, s1, evs)) :
    afterTraverse gv s w next prev .up = (popPath (dropParent gv s1 prev next w) w, evs, .cont) := by
  unfold afterTraverse; rw [h]; rfl

theorem afterTraverse_down_eq (gv : Graph) (s : State) (w next prev : Nat) (s1 : State) (evs : List Event)
    (h : runDecision gv s next w = .ok (false, s1, evs)) :
    afterTraverse gv s w next prev .down =
      if isCleanupReady gv s1 next w then
        if !(gv.node next).flat && (s1.wd w).unexplored then (s1.setWd w (fun d => { d with path := [gv.root] }), evs, .cont) else
        match reverseNode gv ((gv.node next).setup.foldl (fun s (p, _) => dropChild gv s p next w) s1) next w with
        | .error e => ((gv.node next).setup.foldl (fun s (p, _) => dropChild gv s p next w) s1, evs, .raise e)
        | .ok (s, evs2) => (popPath s w, evs ++ evs2, .cont)
      else
        match pickChild gv s1 next w with
        | none => (s1, evs, .raise "RuntimeError")
        | some (c, s) => (pushPath s w c, evs, .cont) := by
  unfold afterTraverse; rw [h]; rfl


theorem path_popPath (s : State) (w : Nat) (hw : w < s.workers.length) : ((popPath s w).wd w).path = (s.wd w).path.dropLast := by
  unfold popPath; rw [wd_setWd_eq s w _ hw]

theorem path_pushPath (s : State) (w c : Nat) (hw : w < s.workers.length) : ((pushPath s w c).wd w).path = (s.wd w).path ++ [c] := by
  unfold pushPath; rw [wd_setWd_eq s w _ hw]

theorem dropped_setWd (s : State) (v : Nat) (f : WorkerD → WorkerD) (w : Nat) (k : Key) :
    dropped (s.setWd v f) w k = dropped s w k := dropped_of_regs s _ rfl w k

/-- the rest of the loop body after a node was entered and not run: a pop with the drop, or a push of a child -/
theorem afterTraverse_cont (g : Graph) (d : Nat → Nat) (hr : Ranked g d) (hsym : EdgeSym g) (sv sF : State)
    (w next prev : Nat) (dir : Dir)
    (hw : w < sF.workers.length)
    (hlast : (sF.wd w).path.getLast? = some next) (hlen : 2 ≤ (sF.wd w).path.length)
    (hprev : prev = (sF.wd w).path.getD ((sF.wd w).path.length - 2) 0)
    (hcls : ClsOK g sF)
    (hdir : (dir = .up ∧ prev ∈ ((vis g sv).node next).cleanup.map (·.1)) ∨
            (dir = .down ∧ prev ∈ ((vis g sv).node next).setup.map (·.1)))
    (s2 : State) (evs2 : List Event) (hrd : runDecision (vis g sv) sF next w = .ok (false, s2, evs2))
    (hc : (afterTraverse (vis g sv) sF w next prev dir).2.2 = .cont) :
    (Move g w sF (afterTraverse (vis g sv) sF w next prev dir).1 ∨ Jump g w sF (afterTraverse (vis g sv) sF w next prev dir).1) ∧
      Keep sF (afterTraverse (vis g sv) sF w next prev dir).1 := by
  have hp2 : ∀ c', picks s2 c' = picks sF c' := fun c' => picks_of_regs sF s2 (fr_runDecision _ sF next w false s2 evs2 hrd).regs c'
  have f2 : Fr sF s2 := fr_runDecision _ sF next w false s2 evs2 hrd
  have hw2 : w < s2.workers.length := by rw [f2.workers]; exact hw
  have hd2 : ∀ k, dropped s2 w k = dropped sF w k := fun k => dropped_of_regs sF s2 f2.regs w k
  rcases hdir with ⟨hdir, hmem⟩ | ⟨hdir, hmem⟩
  · -- upwards: the parent is dropped from the child
    subst hdir
    have hmem' := vis_cleanup_sub g sv next prev hmem
    have hup : isUp g prev next = true := by unfold isUp; simp only [List.contains_iff_mem]; exact hmem'
    have hpn : prev < g.nodes.length := lt_of_setup_mem g prev next ((hsym next prev).mpr hmem')
    rw [afterTraverse_up_eq _ sF w next prev s2 evs2 hrd]
    dsimp only
    have hwX : w < (dropParent (vis g sv) s2 prev next w).workers.length := hw2
    refine ⟨Or.inl (.pop next hlast hlen ?_ ?_ ?_ ?_ ?_), ?_⟩
    · rw [path_popPath _ w hwX]
      show (s2.wd w).path.dropLast = _
      rw [f2.wd w]
    · intro k hk
      unfold popPath
      rw [dropped_setWd]
      exact dropped_dropParent_mono _ s2 prev next w w k (by rw [hd2]; exact hk)
    · unfold popPath
      rw [dropped_setWd, ← hprev]
      unfold posKey
      rw [hup]
      have := dropped_dropParent_key (vis g sv) s2 prev next w (by rw [vis_cls, f2.regs]; exact hcls prev hpn)
      rw [vis_cls, vis_cls] at this
      exact this
    · intro k hk
      unfold popPath at hk
      rw [dropped_setWd] at hk
      rcases dropped_dropParent_new _ s2 prev next w w k hk with h | h
      · left; rw [← hd2]; exact h
      · right; rw [← hprev, hup, ← vis_cls g sv]; exact h
    · intro c'
      unfold popPath dropParent
      rw [picks_setWd, picks_setCr_dS, hp2]
    · unfold popPath dropParent
      exact f2.keep.trans ((keep_setCr s2 _ _).trans (keep_setWd _ w _))
  · subst hdir
    have hmem' := vis_setup_sub g sv next prev hmem
    have hdown : isUp g prev next = false := isUp_child g d hr hsym prev next ((hsym prev next).mp hmem')
    have hpn : prev < g.nodes.length := lt_of_cleanup_mem g prev next ((hsym prev next).mp hmem')
    rw [afterTraverse_down_eq _ sF w next prev s2 evs2 hrd] at hc ⊢
    by_cases hcr : isCleanupReady (vis g sv) s2 next w = true
    · simp only [hcr, if_true] at hc ⊢
      by_cases hpp : (!((vis g sv).node next).flat && (s2.wd w).unexplored) = true
      · -- the cleanup is postponed
        simp only [hpp, if_true]
        refine ⟨Or.inr ⟨hlen, ?_, ?_, fun k => ?_, fun c' => ?_⟩, f2.keep.trans (keep_setWd s2 w _)⟩
        · simp only [Bool.and_eq_true] at hpp
          rw [← f2.wd w]; exact hpp.2
        · rw [wd_setWd_eq s2 w _ hw2, vis_root]
        · rw [dropped_setWd, hd2]
        · rw [picks_setWd, hp2]
      simp only [hpp, Bool.false_eq_true, if_false] at hc ⊢
      generalize hsD : ((vis g sv).node next).setup.foldl (fun s (p, _) => dropChild (vis g sv) s p next w) s2 = sD at hc ⊢
      have kD : Keep s2 sD := by rw [← hsD]; exact keep_dropChildren _ next w _ s2
      have wdD : sD.wd w = s2.wd w := by rw [← hsD]; exact wd_dropChildren _ next w w _ s2
      cases hrev : reverseNode (vis g sv) sD next w with
      | error e => simp only [hrev] at hc; cases hc
      | ok r =>
        obtain ⟨s3, evs3⟩ := r
        simp only [hrev] at hc ⊢
        have f3 : Fr sD s3 := fr_reverseNode _ sD next w s3 evs3 hrev
        have hw3 : w < s3.workers.length := by rw [f3.workers, kD.workersLen]; exact hw2
        refine ⟨Or.inl (.pop next hlast hlen ?_ ?_ ?_ ?_ ?_), ?_⟩
        · rw [path_popPath _ w hw3, f3.wd w, wdD, f2.wd w]
        · intro k hk
          unfold popPath
          rw [dropped_setWd, dropped_of_regs sD s3 f3.regs, ← hsD]
          exact dropped_dropChildren_mono _ next w w k _ s2 (by rw [hd2]; exact hk)
        · unfold popPath
          rw [dropped_setWd, dropped_of_regs sD s3 f3.regs, ← hprev, ← hsD]
          unfold posKey
          rw [hdown]
          have := dropped_dropChildren_key (vis g sv) next w prev _ s2 hmem (by rw [vis_cls, f2.regs]; exact hcls prev hpn)
          rw [vis_cls, vis_cls] at this
          exact this
        · intro k hk
          unfold popPath at hk
          rw [dropped_setWd, dropped_of_regs sD s3 f3.regs, ← hsD] at hk
          rcases dropped_dropChildren_new _ next w w k _ s2 hk with h | h
          · left; rw [← hd2]; exact h
          · right; rw [← hprev, hdown, ← vis_cls g sv]; exact h
        · intro c'
          unfold popPath
          rw [picks_setWd, picks_of_regs sD s3 f3.regs, ← hsD, picks_dropChildren, hp2]
        · unfold popPath
          exact f2.keep.trans (kD.trans (f3.keep.trans (keep_setWd _ w _)))
    · simp only [hcr, Bool.false_eq_true, if_false] at hc ⊢
      cases hpk : pickChild (vis g sv) s2 next w with
      | none => simp only [hpk] at hc; cases hc
      | some r =>
        obtain ⟨c, s3⟩ := r
        simp only [hpk] at hc ⊢
        obtain ⟨hcm, hnd, hs3⟩ := pickChild_spec _ s2 next w c s3 hpk
        have hw3 : w < s3.workers.length := by rw [hs3]; exact hw2
        have hcN : c < g.nodes.length :=
          lt_of_setup_mem g c next ((hsym next c).mpr (vis_cleanup_sub g sv next c hcm))
        refine ⟨Or.inl (.pushDown next c hlast ?_ (vis_cleanup_sub g sv next c hcm) ?_ (Or.inr (by rw [← hprev]; exact hdown)) ?_
          (by rw [← vis_relevant g sv]; exact (pickChild_rel _ s2 next w c s3 hpk).1) ?_), ?_⟩
        · rw [path_pushPath _ w c hw3, hs3]
          show (s2.wd w).path ++ [c] = _
          rw [f2.wd w]
        · rw [vis_cls, vis_cls] at hnd
          rw [← hd2]; exact hnd
        · intro k
          unfold pushPath
          rw [dropped_setWd, hs3, dropped_setCr_pickS, hd2]
        · intro c'
          unfold pushPath
          rw [picks_setWd, hs3, picks_setCr_pick s2 _ _ (by rw [vis_cls, f2.regs]; exact hcls c hcN), hp2, vis_cls]
        · unfold pushPath
          rw [hs3]
          exact f2.keep.trans ((keep_setCr s2 _ _).trans (keep_setWd _ w _))


/-- `traverse_node` without suspension followed by the rest of the loop body -/
theorem traverseNode_cont (g : Graph) (d : Nat → Nat) (hr : Ranked g d) (hsym : EdgeSym g) (sv s : State)
    (w next prev : Nat) (dir : Dir)
    (hocc : isOccupied (vis g sv) s next w = false) (hn : next < s.nodes.length)
    (hw : w < s.workers.length)
    (hlast : (s.wd w).path.getLast? = some next) (hlen : 2 ≤ (s.wd w).path.length)
    (hprev : prev = (s.wd w).path.getD ((s.wd w).path.length - 2) 0)
    (hcls : ClsOK g s)
    (hdir : (dir = .up ∧ prev ∈ ((vis g sv).node next).cleanup.map (·.1)) ∨
            (dir = .down ∧ prev ∈ ((vis g sv).node next).setup.map (·.1)))
    (hc : (traverseNode (vis g sv) s w next prev dir).2.2 = .cont) :
    (Move g w s (traverseNode (vis g sv) s w next prev dir).1 ∨ Jump g w s (traverseNode (vis g sv) s w next prev dir).1) ∧
      Keep s (traverseNode (vis g sv) s w next prev dir).1 := by
  unfold traverseNode at hc ⊢
  simp only [hocc, Bool.false_eq_true, if_false] at hc ⊢
  have fE : Fr s (s.setNd next (fun d => { d with started := some w })) := fr_setNd s next _
  have fP : Fr s (pullLocations (vis g sv) (s.setNd next (fun d => { d with started := some w })) next) :=
    fE.trans (fr_pullLocations _ _ next)
  have hst : ((pullLocations (vis g sv) (s.setNd next (fun d => { d with started := some w })) next).nd next).started = some w := by
    rw [started_pullLocations, nd_setNd_eq s next _ hn]
  generalize pullLocations (vis g sv) (s.setNd next (fun d => { d with started := some w })) next = sa at hc fP hst ⊢
  cases hd : runDecision (vis g sv) sa next w with
  | error e => simp only [hd] at hc; cases hc
  | ok r =>
    obtain ⟨run, s1, evs⟩ := r
    simp only [hd] at hc ⊢
    cases run with
    | true =>
      simp only [if_true] at hc
      split at hc
      · simp only [startTest_flow] at hc; cases hc
      · simp only [startTest_flow] at hc; cases hc
    | false =>
      simp only [Bool.false_eq_true, if_false] at hc ⊢
      have f1 : Fr sa s1 := fr_runDecision _ sa next w false s1 evs hd
      have fF : Fr s (finishTraverse s1 next w) := fP.trans (f1.trans (fr_finishTraverse s1 next w))
      obtain ⟨s2, evs2, hrd2⟩ := runDecision_again (vis g sv) sa next w (by rw [fP.nodesLen]; exact hn) hst s1 evs hd
      have hwdF : (finishTraverse s1 next w).wd w = s.wd w := fF.wd w
      have := afterTraverse_cont g d hr hsym sv (finishTraverse s1 next w) w next prev dir
        (by rw [fF.workers]; exact hw) (by rw [hwdF]; exact hlast) (by rw [hwdF]; exact hlen) (by rw [hwdF]; exact hprev)
        (fun n hn' => by rw [fF.regs]; exact hcls n hn') hdir s2 evs2 hrd2 hc
      exact ⟨this.1.imp (Move.of_fr fF) (Jump.of_fr fF), fF.keep.trans this.2⟩


theorem walk_top_lt (g : Graph) (d : Nat → Nat) (p : List Nat) (next : Nat) (h : Walk g d p) (hl : p.getLast? = some next)
    (hlen : 2 ≤ p.length) : next < g.nodes.length := by
  obtain ⟨rest, hq⟩ := rev_two p next hl hlen
  unfold Walk at h
  rw [hq] at h
  rcases h.1 with h1 | h1
  · exact lt_of_setup_mem g next _ h1
  · exact lt_of_cleanup_mem g next _ h1

/-- one iteration that neither suspends nor ends the loop is a move or the postponement jump -/
theorem iter_cont2 (g : Graph) (d : Nat → Nat) (hr : Ranked g d) (hsym : EdgeSym g) (s : State) (w : Nat)
    (hnl : s.nodes.length = g.nodes.length) (hcls : ClsOK g s) (hwalk : Walk g d (s.wd w).path)
    (hc : (iter (vis g s) s w).2.2 = .cont) :
    (Move g w s (iter (vis g s) s w).1 ∨ Jump g w s (iter (vis g s) s w).1) ∧ Keep s (iter (vis g s) s w).1 := by
  unfold iter at hc ⊢
  dsimp only at hc ⊢
  by_cases hroot : isCleanupReady (vis g s) s (vis g s).root w = true
  · simp only [hroot, if_true] at hc
    split at hc <;> cases hc
  · simp only [hroot, Bool.false_eq_true, if_false] at hc ⊢
    cases hl : (s.wd w).path.getLast? with
    | none => simp only [hl] at hc; cases hc
    | some next =>
      simp only [hl] at hc ⊢
      have hne : (s.wd w).path ≠ [] := by intro h; rw [h] at hl; simp at hl
      have hw : w < s.workers.length := lt_of_path_ne_nil s w hne
      by_cases hlen1 : ((s.wd w).path.length == 1) = true
      · -- at the root: pick a child
        simp only [hlen1, if_true] at hc ⊢
        have hlen1' : (s.wd w).path.length = 1 := by simpa using hlen1
        cases hpk : pickChild (vis g s) s next w with
        | none => simp only [hpk] at hc; cases hc
        | some r =>
          obtain ⟨c, s3⟩ := r
          simp only [hpk] at hc ⊢
          obtain ⟨hcm, hnd, hs3⟩ := pickChild_spec _ s next w c s3 hpk
          have hw3 : w < s3.workers.length := by rw [hs3]; exact hw
          have hcN : c < g.nodes.length :=
            lt_of_setup_mem g c next ((hsym next c).mpr (vis_cleanup_sub g s next c hcm))
          refine ⟨Or.inl (.pushDown next c hl ?_ (vis_cleanup_sub g s next c hcm) ?_ (Or.inl hlen1') ?_
            (by rw [← vis_relevant g s]; exact (pickChild_rel _ s next w c s3 hpk).1) ?_), ?_⟩
          · rw [path_pushPath _ w c hw3, hs3]; rfl
          · rw [vis_cls, vis_cls] at hnd; exact hnd
          · intro k
            unfold pushPath
            rw [dropped_setWd, hs3, dropped_setCr_pickS]
          · intro c'
            unfold pushPath
            rw [picks_setWd, hs3, picks_setCr_pick s _ _ (by rw [vis_cls]; exact hcls c hcN), vis_cls]
          · unfold pushPath
            rw [hs3]
            exact (keep_setCr s _ _).trans (keep_setWd _ w _)
      · simp only [hlen1, Bool.false_eq_true, if_false] at hc ⊢
        have hlen : 2 ≤ (s.wd w).path.length := by
          have h0 : 0 < (s.wd w).path.length := List.length_pos_iff.mpr hne
          have h1 : (s.wd w).path.length ≠ 1 := by simpa using hlen1
          omega
        have hnx : next < s.nodes.length := by rw [hnl]; exact walk_top_lt g d _ next hwalk hl hlen
        by_cases hocc : isOccupied (vis g s) s next w = true
        · simp only [hocc, if_true] at hc; cases hc
        · simp only [hocc, Bool.false_eq_true, if_false] at hc ⊢
          have hocc' : isOccupied (vis g s) s next w = false := by simpa using hocc
          -- a push of a parent
          have pushParent : ∀ (hc : (match pickParent (vis g s) s next w with
                | none => ((s, [], Flow.raise "RuntimeError") : Step)
                | some (p, s') => (pushPath s' w p, [], Flow.cont)).2.2 = .cont),
              (Move g w s (match pickParent (vis g s) s next w with
                | none => ((s, [], Flow.raise "RuntimeError") : Step)
                | some (p, s') => (pushPath s' w p, [], Flow.cont)).1 ∨
               Jump g w s (match pickParent (vis g s) s next w with
                | none => ((s, [], Flow.raise "RuntimeError") : Step)
                | some (p, s') => (pushPath s' w p, [], Flow.cont)).1) ∧
              Keep s (match pickParent (vis g s) s next w with
                | none => ((s, [], Flow.raise "RuntimeError") : Step)
                | some (p, s') => (pushPath s' w p, [], Flow.cont)).1 := by
            intro hc
            cases hpk : pickParent (vis g s) s next w with
            | none => simp only [hpk] at hc; cases hc
            | some r =>
              obtain ⟨c, s3⟩ := r
              dsimp only
              obtain ⟨hcm, hnd, hs3⟩ := pickParent_spec _ s next w c s3 hpk
              have hw3 : w < s3.workers.length := by rw [hs3]; exact hw
              refine ⟨Or.inl (.pushUp next c hl ?_ (vis_setup_sub g s next c hcm) ?_ ?_
                (by rw [← vis_relevant g s]; exact (pickParent_rel _ s next w c s3 hpk).1) ?_), ?_⟩
              · rw [path_pushPath _ w c hw3, hs3]; rfl
              · rw [vis_cls, vis_cls] at hnd; exact hnd
              · intro k
                unfold pushPath
                rw [dropped_setWd, hs3, dropped_setCr_pickC]
              · intro c'
                unfold pushPath
                rw [picks_setWd, hs3, picks_setCr_pC]
              · unfold pushPath
                rw [hs3]
                exact (keep_setCr s _ _).trans (keep_setWd _ w _)
          by_cases hup : (((vis g s).node next).cleanup.map (·.1)).contains ((s.wd w).path.getD ((s.wd w).path.length - 2) 0) = true
          · simp only [hup, if_true] at hc ⊢
            by_cases hsr : isSetupReady (vis g s) s next w = true
            · simp only [hsr, if_true] at hc ⊢
              exact traverseNode_cont g d hr hsym s s w next _ .up hocc' hnx hw hl hlen rfl hcls
                (Or.inl ⟨rfl, by simpa using hup⟩) hc
            · simp only [hsr, Bool.false_eq_true, if_false] at hc ⊢
              exact pushParent hc
          · simp only [hup, Bool.false_eq_true, if_false] at hc ⊢
            by_cases hdn : (((vis g s).node next).setup.map (·.1)).contains ((s.wd w).path.getD ((s.wd w).path.length - 2) 0) = true
            · simp only [hdn, if_true] at hc ⊢
              by_cases hsr : isSetupReady (vis g s) s next w = true
              · simp only [hsr, Bool.not_true, Bool.false_eq_true, if_false] at hc ⊢
                exact traverseNode_cont g d hr hsym s s w next _ .down hocc' hnx hw hl hlen rfl hcls
                  (Or.inr ⟨rfl, by simpa using hdn⟩) hc
              · simp only [hsr, Bool.not_false, if_true] at hc ⊢
                exact pushParent hc
            · simp only [hdn, Bool.false_eq_true, if_false] at hc; cases hc


/-- when nothing is unexplored the iteration is a move -/
theorem iter_cont (g : Graph) (d : Nat → Nat) (hr : Ranked g d) (hsym : EdgeSym g) (s : State) (w : Nat)
    (hnl : s.nodes.length = g.nodes.length) (hcls : ClsOK g s) (hwalk : Walk g d (s.wd w).path)
    (hun : 2 ≤ (s.wd w).path.length → (s.wd w).unexplored = false)
    (hc : (iter (vis g s) s w).2.2 = .cont) :
    Move g w s (iter (vis g s) s w).1 ∧ Keep s (iter (vis g s) s w).1 := by
  obtain ⟨h1, h2⟩ := iter_cont2 g d hr hsym s w hnl hcls hwalk hc
  rcases h1 with h1 | h1
  · exact ⟨h1, h2⟩
  · have := hun h1.len
    rw [h1.flag] at this
    cases this

theorem iter_rootReady (gv : Graph) (s : State) (w : Nat) (h : isCleanupReady gv s gv.root w = true) :
    (iter gv s w).2.2 ≠ .cont := by
  unfold iter
  dsimp only
  simp only [h, if_true]
  split <;> simp

/-- the hypotheses about the state under which the measure argument works (for worker `w`) -/
structure Good (g : Graph) (d : Nat → Nat) (w : Nat) (s : State) : Prop where
  nodesLen : s.nodes.length = g.nodes.length
  cls : ClsOK g s
  explored : Explored g s
  walk : Walk g d (s.wd w).path

theorem Good.keep {g : Graph} {d : Nat → Nat} {w : Nat} {s s' : State} (h : Good g d w s) (k : Keep s s')
    (hwalk : Walk g d (s'.wd w).path) : Good g d w s' :=
  ⟨k.nodesLen.trans h.nodesLen, fun n hn => by rw [k.regsLen]; exact h.cls n hn, h.explored.keep k, hwalk⟩

theorem phi_congr (g : Graph) (s s' : State) (w : Nat) (hr : s'.regs = s.regs) (hp : (s'.wd w).path = (s.wd w).path) :
    phi g s' w = phi g s w := by
  unfold phi
  rw [hp, funext (dropped_of_regs s s' hr w)]

/-- a `.cont` iteration (with its expansion step) lowers the measure and keeps the hypotheses -/
theorem iterL_cont (g : Graph) (d : Nat → Nat) (hr : Ranked g d) (hsym : EdgeSym g) (s : State) (w : Nat)
    (hg : Good g d w s) (hc : (iterL g s w).2.2 = .cont) :
    phi g (iterL g s w).1 w < phi g s w ∧ Good g d w (iterL g s w).1 := by
  unfold iterL at hc ⊢
  split at hc
  · rename_i hcond
    simp only [hcond, if_true]
    have hun : 2 ≤ (s.wd w).path.length → (s.wd w).unexplored = false := by
      intro hlen
      exfalso
      have : isCleanupReady (vis g s) s (vis g s).root w = true := by
        rw [vis_root]
        simp only [Bool.or_eq_true, decide_eq_true_eq] at hcond
        rcases hcond with h | h
        · exact h
        · omega
      exact iter_rootReady _ s w this hc
    obtain ⟨m, k⟩ := iter_cont g d hr hsym s w hg.nodesLen hg.cls hg.walk hun hc
    obtain ⟨h1, h2⟩ := move_dec g d hr hsym w s _ hg.walk m
    exact ⟨h1, hg.keep k h2⟩
  · rename_i hcond
    simp only [hcond, Bool.false_eq_true, if_false]
    dsimp only at hc ⊢
    have hlen : 2 ≤ (s.wd w).path.length := by
      simp only [Bool.or_eq_true, decide_eq_true_eq, not_or] at hcond
      omega
    have hne : (s.wd w).path ≠ [] := by intro h; rw [h] at hlen; simp at hlen
    have hw : w < s.workers.length := lt_of_path_ne_nil s w hne
    obtain ⟨p1, p2, p3, p4, p5, p6⟩ := prepare_explored g s w hg.explored hw
    have hg1 : Good g d w (prepare g s w) :=
      ⟨by rw [p2]; exact hg.nodesLen, fun n hn => by rw [p1]; exact hg.cls n hn, p6, by rw [p4]; exact hg.walk⟩
    obtain ⟨m, k⟩ := iter_cont g d hr hsym (prepare g s w) w hg1.nodesLen hg1.cls hg1.walk (fun _ => p5 hne) hc
    obtain ⟨h1, h2⟩ := move_dec g d hr hsym w (prepare g s w) _ hg1.walk m
    rw [phi_congr g s (prepare g s w) w p1 (p4 w)] at h1
    exact ⟨h1, hg1.keep k h2⟩

/-! ## the loop -/

/-- `runLoop` with the exhaustion of the fuel made explicit (`none`) -/
def runLoopO (g : Graph) (w : Nat) : Nat → State → List Event → Option (State × List Event)
  | 0, _, _ => none
  | fuel + 1, s, evs =>
    let s := s.setWd w (fun d => { d with pc := .loop })
    match iterL g s w with
    | (s, e, .cont) => runLoopO g w fuel s (evs ++ e)
    | (s, e, .suspend) => some (s, evs ++ e)
    | (s, e, .exit) => some (s, evs ++ e)
    | (s, e, .raise what) =>
      some (s.setWd w (fun d => { d with pc := .failed }), evs ++ e ++ [Event.raise (g.worker w).id what])

/-- when the explicit version ends, `runLoop` yields the same result, with this and with any larger fuel -/
theorem runLoop_of_runLoopO (g : Graph) (w : Nat) (fuel : Nat) (s : State) (evs : List Event) (r : State × List Event)
    (h : runLoopO g w fuel s evs = some r) (fuel' : Nat) (hf : fuel ≤ fuel') : runLoop g w fuel' s evs = r := by
  induction fuel generalizing s evs fuel' with
  | zero => simp [runLoopO] at h
  | succ fuel ih =>
    obtain ⟨f', rfl⟩ : ∃ f', fuel' = f' + 1 := ⟨fuel' - 1, by omega⟩
    unfold runLoopO at h
    unfold runLoop
    dsimp only at h ⊢
    split at h
    · next s1 e heq => rw [heq]; exact ih s1 _ h f' (by omega)
    · next s1 e heq => rw [heq]; simpa using h
    · next s1 e heq => rw [heq]; simpa using h
    · next s1 e what heq => rw [heq]; simpa using h

theorem good_setLoop {g : Graph} {d : Nat → Nat} {w : Nat} {s : State} (hg : Good g d w s) :
    Good g d w (s.setWd w (fun d => { d with pc := .loop })) ∧
      phi g (s.setWd w (fun d => { d with pc := .loop })) w = phi g s w := by
  have hp : ((s.setWd w (fun d => { d with pc := .loop })).wd w).path = (s.wd w).path :=
    wd_setWd_proj (·.path) s w (fun d => { d with pc := .loop }) (fun _ => rfl) w
  exact ⟨hg.keep (keep_setWd s w _) (by rw [hp]; exact hg.walk), phi_congr g s _ w rfl hp⟩

/-- with more fuel than the measure the loop ends by itself -/
theorem runLoopO_isSome (g : Graph) (d : Nat → Nat) (hr : Ranked g d) (hsym : EdgeSym g) (w : Nat) (fuel : Nat) (s : State)
    (evs : List Event) (hg : Good g d w s) (hf : phi g s w < fuel) : (runLoopO g w fuel s evs).isSome = true := by
  induction fuel generalizing s evs with
  | zero => omega
  | succ fuel ih =>
    unfold runLoopO
    dsimp only
    obtain ⟨hg0, hp0⟩ := good_setLoop hg
    split
    · next s1 e heq =>
      have hc : (iterL g (s.setWd w (fun d => { d with pc := .loop })) w).2.2 = .cont := by rw [heq]
      obtain ⟨h1, h2⟩ := iterL_cont g d hr hsym _ w hg0 hc
      rw [heq] at h1 h2
      exact ih s1 _ h2 (by dsimp only at h1; omega)
    · rfl
    · rfl
    · rfl

/-- **Termination between two suspension points**: with fuel `≥ bound g` the loop of a worker in a good state ends by a
suspension, the exit or an exception of the traversal; its result is the one for any larger fuel -/
theorem runLoop_terminates (g : Graph) (d : Nat → Nat) (hr : Ranked g d) (hsym : EdgeSym g) (w : Nat) (s : State)
    (evs : List Event) (hg : Good g d w s) (fuel : Nat) (hf : bound g ≤ fuel) :
    ∃ r, runLoopO g w (bound g) s evs = some r ∧ runLoop g w fuel s evs = r := by
  have h := runLoopO_isSome g d hr hsym w (bound g) s evs hg (phi_lt_bound g d hr s w hg.walk)
  obtain ⟨r, hr'⟩ := Option.isSome_iff_exists.mp h
  exact ⟨r, hr', runLoop_of_runLoopO g w (bound g) s evs r hr' fuel hf⟩



/-! ## decidable forms of the static hypotheses -/

/-- length of the longest chain of parents above `n`, explored to depth `fuel` -/
def depthAux (g : Graph) : Nat → Nat → Nat
  | 0, _ => 0
  | fuel + 1, n => ((g.node n).setup.map (fun e => depthAux g fuel e.1 + 1)).foldl max 0

/-- exact on acyclic graphs -/
def depth (g : Graph) (n : Nat) : Nat := depthAux g g.nodes.length n

/-- acyclicity check: the depth strictly decreases along every setup edge -/
def rankedB (g : Graph) : Bool :=
  (List.range g.nodes.length).all (fun n => (g.node n).setup.all (fun e => decide (depth g e.1 < depth g n)))

theorem foldl_max_le (l : List Nat) (a k : Nat) (ha : a ≤ k) (h : ∀ x ∈ l, x ≤ k) : l.foldl max a ≤ k := by
  induction l generalizing a with
  | nil => exact ha
  | cons b r ih =>
    simp only [List.foldl_cons]
    exact ih _ (Nat.max_le.mpr ⟨ha, h b List.mem_cons_self⟩) (fun x hx => h x (List.mem_cons_of_mem _ hx))

theorem depthAux_le (g : Graph) (k n : Nat) : depthAux g k n ≤ k := by
  induction k generalizing n with
  | zero => simp [depthAux]
  | succ k ih =>
    unfold depthAux
    apply foldl_max_le _ _ _ (Nat.zero_le _)
    intro x hx
    obtain ⟨e, _, rfl⟩ := List.mem_map.mp hx
    have := ih e.1
    omega

theorem rankedB_sound {g : Graph} (h : rankedB g = true) : Ranked g (depth g) := by
  refine ⟨fun n p hp => ?_, fun n => depthAux_le g _ n⟩
  have hn : n < g.nodes.length := lt_of_setup_mem g n p hp
  unfold rankedB at h
  rw [List.all_eq_true] at h
  have h1 := h n (List.mem_range.mpr hn)
  rw [List.all_eq_true] at h1
  obtain ⟨e, he, rfl⟩ := List.mem_map.mp hp
  simpa using h1 e he

/-- pre-parsed graphs: the only flat node is the shared root -/
def noFlatB (g : Graph) : Bool := g.nodes.all (fun nd => !nd.flat || nd.sharedRoot)

theorem explored_of_noFlat {g : Graph} (h : noFlatB g = true) (s : State) : Explored g s := by
  rw [explored_iff]
  intro n hn hf
  unfold noFlatB at h
  rw [List.all_eq_true] at h
  have hnd : g.node n = g.nodes[n] := by
    unfold Graph.node
    rw [List.getD_eq_getElem?_getD, List.getElem?_eq_getElem hn]; rfl
  have h1 := h (g.node n) (by rw [hnd]; exact List.getElem_mem hn)
  rw [hf] at h1
  simp only [Bool.not_true, Bool.false_or] at h1
  obtain ⟨su, cl, hv⟩ := vis_node_eq g s n
  unfold isUnrolled
  rw [hv]
  simp only [h1, if_true]

theorem clsOK_init (g : Graph) (ncls : Nat) (store : List (String × List (String × String))) (hidden : List Nat)
    (h : ∀ n, n < g.nodes.length → (g.node n).cls < ncls) : ClsOK g (initState g ncls store hidden) := by
  intro n hn
  simp only [initState, List.length_map, List.length_range]
  exact h n hn

/-- a worker at the root is in a good state -/
theorem good_at_root (g : Graph) (d : Nat → Nat) (w : Nat) (s : State) (hn : s.nodes.length = g.nodes.length)
    (hc : ClsOK g s) (he : Explored g s) (hp : (s.wd w).path = [g.root]) : Good g d w s :=
  ⟨hn, hc, he, by rw [hp]; exact walk_root g d g.root⟩



/-! ## the shape of the paths in reachable states -/

/-- a piece of a step of worker `w`: the records of the other workers and the sizes of the tables stay, the parsed
part of the graph only grows, the other workers' drops stay and `w` newly drops keys in `D` only -/
structure Loc (w : Nat) (D : Key → Prop) (s s' : State) : Prop where
  nodesLen : s'.nodes.length = s.nodes.length
  regsLen : s'.regs.length = s.regs.length
  workersLen : s'.workers.length = s.workers.length
  others : ∀ v, v ≠ w → s'.wd v = s.wd v
  hiddenSub : ∀ x, x ∈ s'.hidden → x ∈ s.hidden
  incSub : ∀ x, x ∈ s.incompatible → x ∈ s'.incompatible
  drops : ∀ u k, dropped s' u k = true → dropped s u k = true ∨ (u = w ∧ D k)

theorem Loc.refl (w : Nat) {D : Key → Prop} (s : State) : Loc w D s s :=
  ⟨rfl, rfl, rfl, fun _ _ => rfl, fun _ h => h, fun _ h => h, fun _ _ h => Or.inl h⟩

theorem Loc.trans {w : Nat} {D : Key → Prop} {s s1 s2 : State} (a : Loc w D s s1) (b : Loc w D s1 s2) : Loc w D s s2 :=
  ⟨b.nodesLen.trans a.nodesLen, b.regsLen.trans a.regsLen, b.workersLen.trans a.workersLen,
   fun v hv => (b.others v hv).trans (a.others v hv), fun x hx => a.hiddenSub x (b.hiddenSub x hx),
   fun x hx => b.incSub x (a.incSub x hx), fun u k h => by
    rcases b.drops u k h with h1 | h1
    · exact a.drops u k h1
    · exact Or.inr h1⟩

theorem loc_setWd (w : Nat) {D : Key → Prop} (s : State) (f : WorkerD → WorkerD) : Loc w D s (s.setWd w f) :=
  ⟨rfl, rfl, by simp [State.setWd], fun v hv => wd_setWd_ne s w v f hv, fun _ h => h, fun _ h => h,
   fun u k h => Or.inl (by rw [dropped_setWd] at h; exact h)⟩

/-- ... and the own record stays as well -/
structure LW (w : Nat) (D : Key → Prop) (s s' : State) : Prop extends Loc w D s s' where
  own : s'.wd w = s.wd w

theorem LW.refl (w : Nat) {D : Key → Prop} (s : State) : LW w D s s := ⟨Loc.refl w s, rfl⟩

theorem LW.trans {w : Nat} {D : Key → Prop} {s s1 s2 : State} (a : LW w D s s1) (b : LW w D s1 s2) : LW w D s s2 :=
  ⟨a.toLoc.trans b.toLoc, b.own.trans a.own⟩

theorem Fr.lw {s s' : State} (a : Fr s s') (w : Nat) {D : Key → Prop} : LW w D s s' :=
  ⟨⟨a.nodesLen, by rw [a.regs], by rw [a.workers], fun v _ => a.wd v, fun x hx => by rw [← a.hidden]; exact hx,
    fun x hx => by rw [a.incompatible]; exact hx,
    fun u k h => Or.inl (by rw [dropped_of_regs s s' a.regs] at h; exact h)⟩, a.wd w⟩

theorem lw_pickS (w : Nat) {D : Key → Prop} (s : State) (c : Nat) (X : ClassRegs → Reg) :
    LW w D s (s.setCr c (fun r => { r with pickedBySetup := X r })) :=
  ⟨⟨rfl, regs_length_setCr s c _, rfl, fun _ _ => rfl, fun _ h => h, fun _ h => h,
    fun u k h => Or.inl (by rw [dropped_setCr_pickS] at h; exact h)⟩, rfl⟩

theorem lw_pickC (w : Nat) {D : Key → Prop} (s : State) (c : Nat) (X : ClassRegs → Reg) :
    LW w D s (s.setCr c (fun r => { r with pickedByCleanup := X r })) :=
  ⟨⟨rfl, regs_length_setCr s c _, rfl, fun _ _ => rfl, fun _ h => h, fun _ h => h,
    fun u k h => Or.inl (by rw [dropped_setCr_pickC] at h; exact h)⟩, rfl⟩

/-- a drop names its worker -/
theorem dropped_dropParent_who (g : Graph) (s : State) (child parent v u : Nat) (k : Key)
    (h : dropped (dropParent g s child parent v) u k = true) :
    dropped s u k = true ∨ (u = v ∧ k.2.2 = (g.node parent).cls) := by
  unfold dropParent at h
  unfold dropped at h ⊢
  rcases cr_setCr_cases s (g.node child).cls
    (fun r => { r with droppedSetup := regAdd r.droppedSetup ((g.node parent).cls, v) }) k.2.1 with h1 | ⟨_, h1⟩
  · rw [h1] at h; exact Or.inl h
  · rw [h1] at h
    cases hk : k.1
    · simp only [hk, Bool.false_eq_true, if_false] at h ⊢
      exact Or.inl h
    · simp only [hk, if_true] at h ⊢
      rw [List.contains_iff_mem, mem_regWorkers_regAdd] at h
      rcases h with h | h
      · left; rw [List.contains_iff_mem]; exact h
      · right; exact h

theorem dropped_dropChild_who (g : Graph) (s : State) (parent child v u : Nat) (k : Key)
    (h : dropped (dropChild g s parent child v) u k = true) :
    dropped s u k = true ∨ (u = v ∧ k.2.2 = (g.node child).cls) := by
  unfold dropChild at h
  unfold dropped at h ⊢
  rcases cr_setCr_cases s (g.node parent).cls
    (fun r => { r with droppedCleanup := regAdd r.droppedCleanup ((g.node child).cls, v) }) k.2.1 with h1 | ⟨_, h1⟩
  · rw [h1] at h; exact Or.inl h
  · rw [h1] at h
    cases hk : k.1
    · simp only [hk, Bool.false_eq_true, if_false] at h ⊢
      rw [List.contains_iff_mem, mem_regWorkers_regAdd] at h
      rcases h with h | h
      · left; rw [List.contains_iff_mem]; exact h
      · right; exact h
    · simp only [hk, if_true] at h ⊢
      exact Or.inl h

theorem lw_dropParent (g : Graph) (w : Nat) {D : Key → Prop} (s : State) (child parent : Nat)
    (hD : ∀ k : Key, k.2.2 = (g.node parent).cls → D k) : LW w D s (dropParent g s child parent w) :=
  ⟨⟨rfl, by unfold dropParent; exact regs_length_setCr s _ _, rfl, fun _ _ => rfl, fun _ h => h, fun _ h => h,
    fun u k h => by
      rcases dropped_dropParent_who g s child parent w u k h with h1 | ⟨h1, h2⟩
      · exact Or.inl h1
      · exact Or.inr ⟨h1, hD k h2⟩⟩, rfl⟩

theorem lw_dropChild (g : Graph) (w : Nat) {D : Key → Prop} (s : State) (parent child : Nat)
    (hD : ∀ k : Key, k.2.2 = (g.node child).cls → D k) : LW w D s (dropChild g s parent child w) :=
  ⟨⟨rfl, by unfold dropChild; exact regs_length_setCr s _ _, rfl, fun _ _ => rfl, fun _ h => h, fun _ h => h,
    fun u k h => by
      rcases dropped_dropChild_who g s parent child w u k h with h1 | ⟨h1, h2⟩
      · exact Or.inl h1
      · exact Or.inr ⟨h1, hD k h2⟩⟩, rfl⟩

theorem lw_dropChildren (g : Graph) (next w : Nat) {D : Key → Prop} (hD : ∀ k : Key, k.2.2 = (g.node next).cls → D k)
    (l : List (Nat × List String)) (s : State) :
    LW w D s (l.foldl (fun s (p, _) => dropChild g s p next w) s) := by
  induction l generalizing s with
  | nil => exact LW.refl w s
  | cons a r ih => simp only [List.foldl_cons]; exact (lw_dropChild g w s a.1 next hD).trans (ih _)

variable {D : Key → Prop}

/-- the direction recorded with a test execution matches the path: a node entered downwards was reached downwards -/
def DirOK (g : Graph) (d : WorkerD) : Prop :=
  (∀ n ph uid tag wt, d.pc = .test n ph .down uid tag wt → ∀ last, d.path.getLast? = some last →
    isUp g (d.path.getD (d.path.length - 2) 0) last = false) ∧
  (∀ n ph dir uid tag wt, d.pc = .test n ph dir uid tag wt → (g.node n).flat = false)

theorem dirOK_of_pc (g : Graph) (d : WorkerD) (h : ∀ n ph dir uid tag wt, d.pc ≠ .test n ph dir uid tag wt) : DirOK g d :=
  ⟨fun n ph uid tag wt hp => absurd hp (h n ph .down uid tag wt),
   fun n ph dir uid tag wt hp => absurd hp (h n ph dir uid tag wt)⟩

/-- the path effects that keep the walk -/
theorem own_pop {g : Graph} {d : Nat → Nat} {w : Nat} {s sX : State} (a : LW w D s sX) (hw : w < s.workers.length)
    (hwalk : Walk g d (s.wd w).path) :
    Loc w D s (popPath sX w) ∧ Walk g d ((popPath sX w).wd w).path ∧ ((popPath sX w).wd w).pc = (s.wd w).pc := by
  have hwX : w < sX.workers.length := by rw [a.workersLen]; exact hw
  unfold popPath
  rw [wd_setWd_eq sX w _ hwX, a.own]
  exact ⟨a.toLoc.trans (loc_setWd w sX _), walk_pop g d _ hwalk, rfl⟩

theorem own_push {g : Graph} {d : Nat → Nat} {w : Nat} {s sX : State} (a : LW w D s sX) (hw : w < s.workers.length) (c : Nat)
    (hwalk : Walk g d ((s.wd w).path ++ [c])) :
    Loc w D s (pushPath sX w c) ∧ Walk g d ((pushPath sX w c).wd w).path ∧ ((pushPath sX w c).wd w).pc = (s.wd w).pc := by
  have hwX : w < sX.workers.length := by rw [a.workersLen]; exact hw
  unfold pushPath
  rw [wd_setWd_eq sX w _ hwX, a.own]
  exact ⟨a.toLoc.trans (loc_setWd w sX _), hwalk, rfl⟩

theorem afterTraverse_any (g : Graph) (d : Nat → Nat) (hr : Ranked g d) (hsym : EdgeSym g) (sv sF : State)
    (w next prev : Nat) (dir : Dir) (hw : w < sF.workers.length)
    (hlast : (sF.wd w).path.getLast? = some next)
    (hprev : prev = (sF.wd w).path.getD ((sF.wd w).path.length - 2) 0)
    (hwalk : Walk g d (sF.wd w).path) (hdir : dir = .down → isUp g prev next = false)
    (hD : ∀ k : Key, k.2.2 = (g.node next).cls → D k) :
    Loc w D sF (afterTraverse (vis g sv) sF w next prev dir).1 ∧
    Walk g d ((afterTraverse (vis g sv) sF w next prev dir).1.wd w).path ∧
    ((afterTraverse (vis g sv) sF w next prev dir).1.wd w).pc = (sF.wd w).pc := by
  unfold afterTraverse
  cases hrd : runDecision (vis g sv) sF next w with
  | error e => exact ⟨Loc.refl _ _, hwalk, rfl⟩
  | ok r =>
    obtain ⟨run, s1, evs⟩ := r
    have a1 : LW w D sF s1 := (fr_runDecision _ sF next w run s1 evs hrd).lw w
    cases dir with
    | up =>
      dsimp only
      have aX : LW w D sF (if (!run) = true then dropParent (vis g sv) s1 prev next w else s1) := by
        split
        · exact a1.trans (lw_dropParent (vis g sv) w s1 prev next (fun k hk => hD k (by rw [hk, vis_cls])))
        · exact a1
      exact own_pop aX hw hwalk
    | down =>
      dsimp only
      by_cases hrun : run = true
      · simp only [hrun, if_true]
        exact own_pop a1 hw hwalk
      · simp only [hrun, Bool.false_eq_true, if_false]
        by_cases hcr : isCleanupReady (vis g sv) s1 next w = true
        · simp only [hcr, if_true]
          by_cases hpp : (!((vis g sv).node next).flat && (s1.wd w).unexplored) = true
          · simp only [hpp, if_true]
            have hw1 : w < s1.workers.length := by rw [a1.workersLen]; exact hw
            rw [wd_setWd_eq s1 w _ hw1, a1.own, vis_root]
            exact ⟨a1.toLoc.trans (loc_setWd w s1 _), walk_root g d g.root, rfl⟩
          · simp only [hpp, Bool.false_eq_true, if_false]
            have aD := a1.trans (lw_dropChildren (vis g sv) next w (fun k hk => hD k (by rw [hk, vis_cls]))
              ((vis g sv).node next).setup s1)
            cases hrev : reverseNode (vis g sv) (List.foldl (fun s x => dropChild (vis g sv) s x.1 next w) s1 ((vis g sv).node next).setup) next w with
            | error e =>
              dsimp only
              rw [aD.own]
              exact ⟨aD.toLoc, hwalk, rfl⟩
            | ok r =>
              obtain ⟨s3, evs3⟩ := r
              dsimp only
              exact own_pop (aD.trans ((fr_reverseNode _ _ next w s3 evs3 hrev).lw w)) hw hwalk
        · simp only [hcr, Bool.false_eq_true, if_false]
          cases hpk : pickChild (vis g sv) s1 next w with
          | none =>
            dsimp only
            rw [a1.own]
            exact ⟨a1.toLoc, hwalk, rfl⟩
          | some r =>
            obtain ⟨c, s3⟩ := r
            dsimp only
            obtain ⟨hcm, _, hs3⟩ := pickChild_spec _ s1 next w c s3 hpk
            have a3 : LW w D sF s3 := by rw [hs3]; exact a1.trans (lw_pickS w s1 _ _)
            exact own_push a3 hw c (walk_pushDown g d hr hsym _ next c hwalk hlast (vis_cleanup_sub g sv next c hcm)
              (Or.inr (by rw [← hprev]; exact hdir rfl)))


theorem startTest_regs (g : Graph) (s : State) (n w : Nat) (ph : Phase) (dir : Dir) :
    (startTest g s n w ph dir).1.regs = s.regs := by
  unfold startTest
  dsimp only
  split <;> rfl

theorem startTest_inc (g : Graph) (s : State) (n w : Nat) (ph : Phase) (dir : Dir) :
    (startTest g s n w ph dir).1.incompatible = s.incompatible := by
  unfold startTest
  dsimp only
  split <;> rfl

theorem startTest_own (g : Graph) (s : State) (n w : Nat) (ph : Phase) (dir : Dir) (hw : w < s.workers.length) :
    Loc w D s (startTest g s n w ph dir).1 ∧ ((startTest g s n w ph dir).1.wd w).path = (s.wd w).path ∧
    ∃ uid tag, ((startTest g s n w ph dir).1.wd w).pc = .test n ph dir uid tag 0 := by
  obtain ⟨a, b, c, _⟩ := startTest_ok g s n w ph dir hw
  exact ⟨⟨a.nodesLen, by rw [startTest_regs], a.workersLen, a.others, fun x hx => by rw [← a.hidden]; exact hx,
    fun x hx => by rw [startTest_inc]; exact hx,
    fun u k h => Or.inl (by rw [dropped_of_regs s _ (startTest_regs g s n w ph dir)] at h; exact h)⟩, b, c⟩

theorem dirOK_test (g : Graph) (wd : WorkerD) (n : Nat) (ph : Phase) (dir : Dir) (uid : String) (tag wt : Nat)
    (hpc : wd.pc = .test n ph dir uid tag wt) (next : Nat) (hl : wd.path.getLast? = some next)
    (hdir : dir = .down → isUp g (wd.path.getD (wd.path.length - 2) 0) next = false)
    (hflat : (g.node n).flat = false) : DirOK g wd := by
  refine ⟨?_, ?_⟩
  · intro n' ph' uid' tag' wt' hp last hlast
    rw [hpc] at hp
    injection hp with _ _ h3
    rw [hl] at hlast
    injection hlast with h4
    rw [← h4]
    exact hdir h3
  · intro n' ph' dir' uid' tag' wt' hp
    rw [hpc] at hp
    injection hp with h1
    rw [← h1]; exact hflat

theorem traverseNode_any (g : Graph) (d : Nat → Nat) (hr : Ranked g d) (hsym : EdgeSym g) (sv s : State)
    (w next prev : Nat) (dir : Dir) (hw : w < s.workers.length)
    (hlast : (s.wd w).path.getLast? = some next)
    (hprev : prev = (s.wd w).path.getD ((s.wd w).path.length - 2) 0)
    (hwalk : Walk g d (s.wd w).path) (hdir : dir = .down → isUp g prev next = false)
    (hpc : (s.wd w).pc = .loop) (hD : ∀ k : Key, k.2.2 = (g.node next).cls → D k) :
    Loc w D s (traverseNode (vis g sv) s w next prev dir).1 ∧
    Walk g d ((traverseNode (vis g sv) s w next prev dir).1.wd w).path ∧
    DirOK g ((traverseNode (vis g sv) s w next prev dir).1.wd w) := by
  have viaAfter : ∀ sF, LW w D s sF →
      Loc w D s (afterTraverse (vis g sv) sF w next prev dir).1 ∧
      Walk g d ((afterTraverse (vis g sv) sF w next prev dir).1.wd w).path ∧
      DirOK g ((afterTraverse (vis g sv) sF w next prev dir).1.wd w) := by
    intro sF aF
    obtain ⟨h1, h2, h3⟩ := afterTraverse_any g d hr hsym sv sF w next prev dir (by rw [aF.workersLen]; exact hw)
      (by rw [aF.own]; exact hlast) (by rw [aF.own]; exact hprev) (by rw [aF.own]; exact hwalk) hdir hD
    refine ⟨aF.toLoc.trans h1, h2, dirOK_of_pc g _ ?_⟩
    intro n ph dir uid tag wt hx
    rw [h3, aF.own, hpc] at hx
    cases hx
  unfold traverseNode
  by_cases hocc : isOccupied (vis g sv) s next w = true
  · simp only [hocc, if_true]
    exact viaAfter s (LW.refl w s)
  · simp only [hocc, Bool.false_eq_true, if_false]
    have aP : LW w D s (pullLocations (vis g sv) (s.setNd next (fun d => { d with started := some w })) next) :=
      ((fr_setNd s next _).trans (fr_pullLocations _ _ next)).lw w
    generalize pullLocations (vis g sv) (s.setNd next (fun d => { d with started := some w })) next = sa at aP ⊢
    cases hd : runDecision (vis g sv) sa next w with
    | error e =>
      dsimp only
      rw [aP.own]
      exact ⟨aP.toLoc, hwalk, dirOK_of_pc g _ (by intro n ph dir uid tag wt hx; rw [hpc] at hx; cases hx)⟩
    | ok r =>
      obtain ⟨run, s1, evs⟩ := r
      have a1 : LW w D s s1 := aP.trans ((fr_runDecision _ sa next w run s1 evs hd).lw w)
      have hw1 : w < s1.workers.length := by rw [a1.workersLen]; exact hw
      dsimp only
      -- a started test: the path stays, the recorded direction is the one of this iteration
      have started : (g.node next).flat = false → ∀ sT : State, Loc w D s sT → (sT.wd w).path = (s.wd w).path → ∀ ph,
          Loc w D s (startTest (vis g sv) sT next w ph dir).1 ∧
          Walk g d ((startTest (vis g sv) sT next w ph dir).1.wd w).path ∧
          DirOK g ((startTest (vis g sv) sT next w ph dir).1.wd w) := by
        intro hnf sT aT hpT ph
        obtain ⟨h1, h2, uid, tag, h3⟩ := startTest_own (vis g sv) sT next w ph dir (by rw [aT.workersLen]; exact hw)
        rw [hpT] at h2
        refine ⟨aT.trans h1, by rw [h2]; exact hwalk, ?_⟩
        refine dirOK_test g _ next ph dir uid tag 0 h3 next (by rw [h2]; exact hlast) ?_ hnf
        intro hdn
        rw [h2, ← hprev]
        exact hdir hdn
      by_cases hrun : run = true
      · have hnf : (g.node next).flat = false := by
          subst hrun
          have := (runDecision_true_own (vis g sv) sa next w s1 evs hd).2.1
          rw [vis_flat] at this; exact this
        simp only [hrun, if_true]
        by_cases hroot : ((vis g sv).node next).objectRoot = true
        · simp only [hroot, if_true]
          refine started hnf _ (a1.toLoc.trans (loc_setWd w s1 _)) ?_ .pre
          rw [wd_setWd_eq s1 w _ hw1, a1.own]
        · simp only [hroot, Bool.false_eq_true, if_false]
          exact started hnf s1 a1.toLoc (by rw [a1.own]) .plain
      · simp only [hrun, Bool.false_eq_true, if_false]
        exact viaAfter _ (a1.trans ((fr_finishTraverse s1 next w).lw w))


theorem pc_setWd_const (s : State) (w : Nat) (f : WorkerD → WorkerD) (hf : ∀ d, (f d).pc = .loop) (h : (s.wd w).pc = .loop) :
    ((s.setWd w f).wd w).pc = .loop := by
  by_cases hw : w < s.workers.length
  · rw [wd_setWd_eq s w f hw]; exact hf _
  · have : (s.setWd w f).wd w = s.wd w := by
      unfold State.setWd State.wd
      simp only [List.getD_eq_getElem?_getD, List.getElem?_modify]
      have : s.workers[w]? = none := by simp; omega
      simp [this]
    rw [this]; exact h

theorem iter_any (g : Graph) (d : Nat → Nat) (hr : Ranked g d) (hsym : EdgeSym g) (s : State) (w : Nat)
    (hwalk : Walk g d (s.wd w).path) (hpc : (s.wd w).pc = .loop)
    (hD : ∀ next, (s.wd w).path.getLast? = some next → ∀ k : Key, k.2.2 = (g.node next).cls → D k) :
    Loc w D s (iter (vis g s) s w).1 ∧ Walk g d ((iter (vis g s) s w).1.wd w).path ∧
    DirOK g ((iter (vis g s) s w).1.wd w) := by
  have hd0 : DirOK g (s.wd w) := dirOK_of_pc g _ (by intro n ph dir uid tag wt hx; rw [hpc] at hx; cases hx)
  have same : Loc w D s s ∧ Walk g d (s.wd w).path ∧ DirOK g (s.wd w) := ⟨Loc.refl w s, hwalk, hd0⟩
  -- a push keeps the pc
  have pushed : ∀ (sX : State) (c : Nat), LW w D s sX → w < s.workers.length → Walk g d ((s.wd w).path ++ [c]) →
      Loc w D s (pushPath sX w c) ∧ Walk g d ((pushPath sX w c).wd w).path ∧ DirOK g ((pushPath sX w c).wd w) := by
    intro sX c aX hw hwk
    obtain ⟨h1, h2, h3⟩ := own_push aX hw c hwk
    exact ⟨h1, h2, dirOK_of_pc g _ (by intro n ph dir uid tag wt hx; rw [h3, hpc] at hx; cases hx)⟩
  unfold iter
  dsimp only
  by_cases hroot : isCleanupReady (vis g s) s (vis g s).root w = true
  · simp only [hroot, if_true]
    split
    · next hp =>
      have hp' : (s.wd w).path = [(vis g s).root] := by simpa using hp
      have hw : w < s.workers.length := lt_of_path_ne_nil s w (by rw [hp']; simp)
      dsimp only
      rw [wd_setWd_eq s w _ hw]
      exact ⟨loc_setWd w s _, walk_nil g d, dirOK_of_pc g _ (by intro n ph dir uid tag wt hx; cases hx)⟩
    · exact same
  · simp only [hroot, Bool.false_eq_true, if_false]
    cases hl : (s.wd w).path.getLast? with
    | none => exact same
    | some next =>
      have hne : (s.wd w).path ≠ [] := by intro h; rw [h] at hl; simp at hl
      have hw : w < s.workers.length := lt_of_path_ne_nil s w hne
      dsimp only
      have pushParent : Loc w D s (match pickParent (vis g s) s next w with
            | none => ((s, [], Flow.raise "RuntimeError") : Step)
            | some (p, s') => (pushPath s' w p, [], Flow.cont)).1 ∧
          Walk g d ((match pickParent (vis g s) s next w with
            | none => ((s, [], Flow.raise "RuntimeError") : Step)
            | some (p, s') => (pushPath s' w p, [], Flow.cont)).1.wd w).path ∧
          DirOK g ((match pickParent (vis g s) s next w with
            | none => ((s, [], Flow.raise "RuntimeError") : Step)
            | some (p, s') => (pushPath s' w p, [], Flow.cont)).1.wd w) := by
        cases hpk : pickParent (vis g s) s next w with
        | none => exact same
        | some r =>
          obtain ⟨c, s3⟩ := r
          dsimp only
          obtain ⟨hcm, _, hs3⟩ := pickParent_spec _ s next w c s3 hpk
          exact pushed s3 c (by rw [hs3]; exact lw_pickC w s _ _) hw
            (walk_pushUp g d hr hsym _ next c hwalk hl (vis_setup_sub g s next c hcm))
      by_cases hlen1 : ((s.wd w).path.length == 1) = true
      · simp only [hlen1, if_true]
        have hlen1' : (s.wd w).path.length = 1 := by simpa using hlen1
        cases hpk : pickChild (vis g s) s next w with
        | none => exact same
        | some r =>
          obtain ⟨c, s3⟩ := r
          dsimp only
          obtain ⟨hcm, _, hs3⟩ := pickChild_spec _ s next w c s3 hpk
          exact pushed s3 c (by rw [hs3]; exact lw_pickS w s _ _) hw
            (walk_pushDown g d hr hsym _ next c hwalk hl (vis_cleanup_sub g s next c hcm) (Or.inl hlen1'))
      · simp only [hlen1, Bool.false_eq_true, if_false]
        by_cases hocc : isOccupied (vis g s) s next w = true
        · -- the back-off
          simp only [hocc, if_true]
          have key : ∀ (sX : State) (f : WorkerD → WorkerD), Loc w D s sX → (∀ x, (f x).path = [(vis g s).root]) →
              (∀ x, (f x).pc = .bounce) →
              Loc w D s (sX.setWd w f) ∧ Walk g d ((sX.setWd w f).wd w).path ∧ DirOK g ((sX.setWd w f).wd w) := by
            intro sX f aX h1 h2
            have hwX : w < sX.workers.length := by rw [aX.workersLen]; exact hw
            rw [wd_setWd_eq sX w f hwX]
            refine ⟨aX.trans (loc_setWd w sX f), by rw [h1, vis_root]; exact walk_root g d g.root, dirOK_of_pc g _ ?_⟩
            intro n ph dir uid tag wt hx
            rw [h2] at hx; cases hx
          refine key _ _ ?_ (fun _ => rfl) (fun _ => rfl)
          split
          · refine Loc.trans ?_ (loc_setWd w _ _)
            split
            · exact ((fr_setNd s next _).lw w).toLoc
            · exact Loc.refl w s
          · exact loc_setWd w s _
        · simp only [hocc, Bool.false_eq_true, if_false]
          by_cases hup : (((vis g s).node next).cleanup.map (·.1)).contains ((s.wd w).path.getD ((s.wd w).path.length - 2) 0) = true
          · simp only [hup, if_true]
            by_cases hsr : isSetupReady (vis g s) s next w = true
            · simp only [hsr, if_true]
              exact traverseNode_any g d hr hsym s s w next _ .up hw hl rfl hwalk (fun h => by cases h) hpc (hD next hl)
            · simp only [hsr, Bool.false_eq_true, if_false]
              exact pushParent
          · simp only [hup, Bool.false_eq_true, if_false]
            by_cases hdn : (((vis g s).node next).setup.map (·.1)).contains ((s.wd w).path.getD ((s.wd w).path.length - 2) 0) = true
            · simp only [hdn, if_true]
              by_cases hsr : isSetupReady (vis g s) s next w = true
              · simp only [hsr, Bool.not_true, Bool.false_eq_true, if_false]
                have hmem := vis_setup_sub g s next _ (by simpa using hdn)
                exact traverseNode_any g d hr hsym s s w next _ .down hw hl rfl hwalk
                  (fun _ => isUp_child g d hr hsym _ next ((hsym _ next).mp hmem)) hpc (hD next hl)
              · simp only [hsr, Bool.not_false, if_true]
                exact pushParent
            · simp only [hdn, Bool.false_eq_true, if_false]
              exact same


theorem prepare_loc (g : Graph) (s : State) (w : Nat) :
    Loc w D s (prepare g s w) ∧ ((prepare g s w).wd w).path = (s.wd w).path ∧ ((prepare g s w).wd w).pc = (s.wd w).pc := by
  obtain ⟨h1, h2, h3, h4⟩ := prepare_frame g s w
  have hregs : (prepare g s w).regs = s.regs := by
    unfold prepare
    dsimp only
    split
    · rfl
    · split
      · unfold reveal; dsimp only; split <;> rfl
      · rfl
  refine ⟨⟨by rw [h1], by rw [hregs], h2, ?_, h4, ?_,
    fun u k h => Or.inl (by rw [dropped_of_regs s _ hregs] at h; exact h)⟩, (h3 w).1, (h3 w).2⟩
  · intro v hv
    unfold prepare
    dsimp only
    split
    · rfl
    · split
      · have : ∀ (sx : State) (f : Nat), (reveal g sx f w).workers = sx.workers := fun sx f => (reveal_frame g sx f w).2.1
        unfold State.wd
        rw [this]
        exact wd_setWd_ne s w v _ hv
      · exact wd_setWd_ne s w v _ hv
  · intro x hx
    unfold prepare
    dsimp only
    split
    · exact hx
    · split
      · unfold reveal; dsimp only
        split
        · exact List.mem_append_left _ hx
        · exact hx
      · exact hx

theorem iterL_any (g : Graph) (d : Nat → Nat) (hr : Ranked g d) (hsym : EdgeSym g) (s : State) (w : Nat)
    (hwalk : Walk g d (s.wd w).path) (hpc : (s.wd w).pc = .loop)
    (hD : ∀ next, (s.wd w).path.getLast? = some next → ∀ k : Key, k.2.2 = (g.node next).cls → D k) :
    Loc w D s (iterL g s w).1 ∧ Walk g d ((iterL g s w).1.wd w).path ∧ DirOK g ((iterL g s w).1.wd w) := by
  unfold iterL
  split
  · exact iter_any g d hr hsym s w hwalk hpc hD
  · dsimp only
    obtain ⟨a, b, c⟩ := prepare_loc (D := D) g s w
    obtain ⟨h1, h2, h3⟩ := iter_any (D := D) g d hr hsym (prepare g s w) w (by rw [b]; exact hwalk) (by rw [c]; exact hpc)
      (by rw [b]; exact hD)
    exact ⟨a.trans h1, h2, h3⟩

theorem pc_setLoop (s : State) (w : Nat) : ((s.setWd w (fun d => { d with pc := .loop })).wd w).pc = .loop ∨
    ¬ w < s.workers.length := by
  by_cases hw : w < s.workers.length
  · left; rw [wd_setWd_eq s w _ hw]
  · exact Or.inr hw

theorem wd_of_ge (s : State) (w : Nat) (h : ¬ w < s.workers.length) : s.wd w = {} := by
  unfold State.wd
  rw [List.getD_eq_getElem?_getD, List.getElem?_eq_none (by omega)]; rfl

/-- no information about the own drops -/
abbrev DT : Key → Prop := fun _ => True

/-- a whole block: the own path keeps its shape, a recorded direction matches it -/
theorem runLoop_any (g : Graph) (d : Nat → Nat) (hr : Ranked g d) (hsym : EdgeSym g) (w : Nat) (fuel : Nat) (s : State)
    (evs : List Event) (hwalk : Walk g d (s.wd w).path) (hd : fuel = 0 → DirOK g (s.wd w)) :
    Loc w DT s (runLoop g w fuel s evs).1 ∧ Walk g d ((runLoop g w fuel s evs).1.wd w).path ∧
    DirOK g ((runLoop g w fuel s evs).1.wd w) := by
  induction fuel generalizing s evs with
  | zero => exact ⟨Loc.refl w s, hwalk, hd rfl⟩
  | succ fuel ih =>
    unfold runLoop
    dsimp only
    have a0 : Loc w DT s (s.setWd w (fun d => { d with pc := .loop })) := loc_setWd w s _
    have hp0 : ((s.setWd w (fun d => { d with pc := .loop })).wd w).path = (s.wd w).path :=
      wd_setWd_proj (·.path) s w (fun d => { d with pc := .loop }) (fun _ => rfl) w
    have hpc0 : ((s.setWd w (fun d => { d with pc := .loop })).wd w).pc = .loop := by
      rcases pc_setLoop s w with h | h
      · exact h
      · rw [wd_of_ge _ w (by rw [a0.workersLen]; exact h)]
    obtain ⟨h1, h2, h3⟩ := iterL_any (D := DT) g d hr hsym _ w (by rw [hp0]; exact hwalk) hpc0 (fun _ _ _ _ => trivial)
    split
    · next s1 e heq =>
      rw [heq] at h1 h2 h3
      obtain ⟨k1, k2, k3⟩ := ih s1 (evs ++ e) h2 (fun _ => h3)
      exact ⟨(a0.trans h1).trans k1, k2, k3⟩
    · next s1 e heq => rw [heq] at h1 h2 h3; exact ⟨a0.trans h1, h2, h3⟩
    · next s1 e heq => rw [heq] at h1 h2 h3; exact ⟨a0.trans h1, h2, h3⟩
    · next s1 e what heq =>
      rw [heq] at h1 h2 h3
      dsimp only at h1 h2 h3 ⊢
      refine ⟨(a0.trans h1).trans (loc_setWd w s1 _), ?_, ?_⟩
      · rw [wd_setWd_proj (·.path) s1 w (fun d => { d with pc := .failed }) (fun _ => rfl) w]; exact h2
      · by_cases hw : w < s1.workers.length
        · rw [wd_setWd_eq s1 w _ hw]
          exact dirOK_of_pc g _ (by intro n ph dir uid tag wt hx; cases hx)
        · rw [wd_of_ge _ w (by simp [State.setWd]; omega)]
          exact dirOK_of_pc g _ (by intro n ph dir uid tag wt hx; cases hx)


theorem lw_of_eq (w : Nat) {s s' : State} (hn : s'.nodes = s.nodes) (hr : s'.regs = s.regs) (hw : s'.workers = s.workers)
    (hh : s'.hidden = s.hidden) (hi : s'.incompatible = s.incompatible) : LW w D s s' :=
  ⟨⟨by rw [hn], by rw [hr], by rw [hw], fun v _ => by unfold State.wd; rw [hw], fun x hx => by rw [← hh]; exact hx,
    fun x hx => by rw [hi]; exact hx, fun u k h => Or.inl (by rw [dropped_of_regs s s' hr] at h; exact h)⟩,
   by unfold State.wd; rw [hw]⟩

theorem dirOK_failed (g : Graph) (s : State) (w : Nat) : DirOK g ((s.setWd w (fun d => { d with pc := .failed })).wd w) := by
  by_cases hw : w < s.workers.length
  · rw [wd_setWd_eq s w _ hw]
    exact dirOK_of_pc g _ (by intro n ph dir uid tag wt hx; cases hx)
  · rw [wd_of_ge _ w (by simp [State.setWd]; omega)]
    exact dirOK_of_pc g _ (by intro n ph dir uid tag wt hx; cases hx)

theorem continueAfter_any (g : Graph) (d : Nat → Nat) (hr : Ranked g d) (hsym : EdgeSym g) (w n : Nat) (phase : Phase)
    (dir : Dir) (fuel : Nat) (hf : 0 < fuel) (s : State) (ok : Bool) (evs : List Event)
    (hw : w < s.workers.length) (hlast : (s.wd w).path.getLast? = some n) (hwalk : Walk g d (s.wd w).path)
    (hdir : dir = .down → isUp g ((s.wd w).path.getD ((s.wd w).path.length - 2) 0) n = false)
    (hnf : (g.node n).flat = false) :
    Loc w DT s (resumeTest.continueAfter g w n phase dir fuel s ok evs).1 ∧
    Walk g d ((resumeTest.continueAfter g w n phase dir fuel s ok evs).1.wd w).path ∧
    DirOK g ((resumeTest.continueAfter g w n phase dir fuel s ok evs).1.wd w) := by
  unfold resumeTest.continueAfter
  dsimp only
  split
  · obtain ⟨h1, h2, uid, tag, h3⟩ := startTest_own g s n w .main dir hw
    refine ⟨h1, by rw [h2]; exact hwalk, dirOK_test g _ n .main dir uid tag 0 h3 n (by rw [h2]; exact hlast) ?_ hnf⟩
    rw [h2]; exact hdir
  · have a2 : LW w DT s (if (phase == Phase.pre) = true then
          s.setNd n (fun d => { d with results := d.results ++ (s.wd w).preResults.drop d.results.length })
        else s) := by
      split
      · exact (fr_setNd s n _).lw w
      · exact LW.refl w s
    have aF := a2.trans ((fr_finishTraverse _ n w).lw w)
    generalize finishTraverse (if (phase == Phase.pre) = true then
          s.setNd n (fun d => { d with results := d.results ++ (s.wd w).preResults.drop d.results.length })
        else s) n w = sF at aF
    obtain ⟨h1, h2, _⟩ := afterTraverse_any g d hr hsym sF sF w n ((s.wd w).path.getD ((s.wd w).path.length - 2) 0) dir
      (by rw [aF.workersLen]; exact hw) (by rw [aF.own]; exact hlast) (by rw [aF.own]) (by rw [aF.own]; exact hwalk) hdir
      (D := DT) (fun _ _ => trivial)
    generalize afterTraverse (vis g sF) sF w n ((s.wd w).path.getD ((s.wd w).path.length - 2) 0) dir = r at h1 h2
    obtain ⟨s1, e2, fl⟩ := r
    dsimp only at h1 h2
    have viaLoop : Loc w DT s (runLoop g w fuel s1 (evs ++ e2)).1 ∧ Walk g d ((runLoop g w fuel s1 (evs ++ e2)).1.wd w).path ∧
        DirOK g ((runLoop g w fuel s1 (evs ++ e2)).1.wd w) := by
      obtain ⟨k1, k2, k3⟩ := runLoop_any g d hr hsym w fuel s1 (evs ++ e2) h2 (fun h0 => by omega)
      exact ⟨(aF.toLoc.trans h1).trans k1, k2, k3⟩
    cases fl with
    | raise what =>
      dsimp only
      refine ⟨(aF.toLoc.trans h1).trans (loc_setWd w s1 _), ?_, dirOK_failed g s1 w⟩
      rw [wd_setWd_proj (·.path) s1 w (fun d => { d with pc := .failed }) (fun _ => rfl) w]; exact h2
    | cont => exact viaLoop
    | suspend => exact viaLoop
    | exit => exact viaLoop

theorem reportOutcome_lw (g : Graph) (s : State) (w n : Nat) (phase : Phase) (uid : String) (wait : Nat) (out : Outcome) :
    LW w D s (reportOutcome g s w n phase uid wait out).1 := by
  unfold reportOutcome
  dsimp only
  split
  · split
    · split
      · exact lw_of_eq w rfl rfl rfl rfl rfl
      · exact lw_of_eq w rfl rfl rfl rfl rfl
    · exact LW.refl w s
  · exact LW.refl w s

theorem recordResult_loc (s : State) (w n : Nat) (phase : Phase) (name uid : String) (tag : Nat) (st0 : String) (dur : Nat) :
    Loc w D s (recordResult s w n phase name uid tag st0 dur).1 ∧
    ((recordResult s w n phase name uid tag st0 dur).1.wd w).path = (s.wd w).path ∧
    ((recordResult s w n phase name uid tag st0 dur).1.wd w).pc = (s.wd w).pc := by
  obtain ⟨b1, _, b3, _⟩ := recordResult_frame s w n phase name uid tag st0 dur
  refine ⟨?_, (b3 w).1, (b3 w).2⟩
  unfold recordResult
  dsimp only
  have hX : ∀ (c : Bool) (jr : List (String × String × String × Nat)),
      LW w D s (if c = true then { s with jobResults := jr } else s) := by
    intro c jr; cases c
    · exact LW.refl w s
    · exact lw_of_eq w rfl rfl rfl rfl rfl
  split
  · exact (hX _ _).toLoc.trans (loc_setWd w _ _)
  · exact ((hX _ _).trans ((fr_setNd _ n _).lw w)).toLoc

theorem resumeTest_any (g : Graph) (d : Nat → Nat) (hr : Ranked g d) (hsym : EdgeSym g) (s : State) (w n : Nat)
    (phase : Phase) (dir : Dir) (uid : String) (tag wait : Nat) (out : Outcome) (fuel : Nat) (hf : 0 < fuel)
    (hw : w < s.workers.length) (hlast : (s.wd w).path.getLast? = some n) (hwalk : Walk g d (s.wd w).path)
    (hdir : dir = .down → isUp g ((s.wd w).path.getD ((s.wd w).path.length - 2) 0) n = false)
    (hnf : (g.node n).flat = false) :
    Loc w DT s (resumeTest g s w n phase dir uid tag wait out fuel).1 ∧
    Walk g d ((resumeTest g s w n phase dir uid tag wait out fuel).1.wd w).path ∧
    DirOK g ((resumeTest g s w n phase dir uid tag wait out fuel).1.wd w) := by
  rw [resumeTest_eq]
  have aA := reportOutcome_lw (D := DT) g s w n phase uid wait out
  generalize (reportOutcome g s w n phase uid wait out).1 = sa at aA
  have hwA : w < sa.workers.length := by rw [aA.workersLen]; exact hw
  have waitCase : ∀ k, Loc w DT s (sa.setWd w (fun d => { d with pc := .test n phase dir uid tag k })) ∧
      Walk g d ((sa.setWd w (fun d => { d with pc := .test n phase dir uid tag k })).wd w).path ∧
      DirOK g ((sa.setWd w (fun d => { d with pc := .test n phase dir uid tag k })).wd w) := by
    intro k
    rw [wd_setWd_eq sa w _ hwA, aA.own]
    refine ⟨aA.toLoc.trans (loc_setWd w sa _), hwalk, ?_⟩
    exact dirOK_test g _ n phase dir uid tag k rfl n hlast hdir hnf
  split
  · next st0 dur _ =>
    obtain ⟨b1, b2, b3⟩ := recordResult_loc (D := DT) sa w n phase (if (phase == Phase.pre) = true then (s.wd w).preName else (g.node n).name) uid tag st0 dur
    rw [aA.own] at b2 b3
    obtain ⟨k1, k2, k3⟩ := continueAfter_any g d hr hsym w n phase dir fuel hf _ (recordResult sa w n phase
        (if (phase == Phase.pre) = true then (s.wd w).preName else (g.node n).name) uid tag st0 dur).2
      (reportOutcome g s w n phase uid wait out).2 (by rw [b1.workersLen]; exact hwA)
      (by rw [b2]; exact hlast) (by rw [b2]; exact hwalk) (by rw [b2]; exact hdir) hnf
    exact ⟨(aA.toLoc.trans b1).trans k1, k2, k3⟩
  · split
    · exact waitCase _
    · split
      · exact waitCase _
      · obtain ⟨k1, k2, k3⟩ := continueAfter_any g d hr hsym w n phase dir fuel hf sa false
          (reportOutcome g s w n phase uid wait out).2 hwA
          (by rw [aA.own]; exact hlast) (by rw [aA.own]; exact hwalk) (by rw [aA.own]; exact hdir) hnf
        exact ⟨aA.toLoc.trans k1, k2, k3⟩

/-- the invariant: sizes of the tables, shape of every path, recorded directions -/
structure TInv (g : Graph) (d : Nat → Nat) (s : State) : Prop where
  nodesLen : s.nodes.length = g.nodes.length
  cls : ClsOK g s
  walk : ∀ v, Walk g d (s.wd v).path
  dir : ∀ v, DirOK g (s.wd v)

theorem TInv.step {g : Graph} {d : Nat → Nat} {s s' : State} {w : Nat} (h : TInv g d s) (a : Loc w DT s s')
    (hwalk : Walk g d (s'.wd w).path) (hdir : DirOK g (s'.wd w)) : TInv g d s' := by
  refine ⟨a.nodesLen.trans h.nodesLen, fun n hn => by rw [a.regsLen]; exact h.cls n hn, fun v => ?_, fun v => ?_⟩
  · by_cases hv : v = w
    · rw [hv]; exact hwalk
    · rw [a.others v hv]; exact h.walk v
  · by_cases hv : v = w
    · rw [hv]; exact hdir
    · rw [a.others v hv]; exact h.dir v

theorem resume_tinv (g : Graph) (d : Nat → Nat) (hr : Ranked g d) (hsym : EdgeSym g) (s : State) (w : Nat) (out : Outcome)
    (fuel : Nat) (hf : 0 < fuel) (hw : w < g.workers.length) (hp : PInv g s) (h : TInv g d s) :
    TInv g d (resume g s w out fuel).1 := by
  have hws : w < s.workers.length := by rw [hp.wlen]; exact hw
  have loopCase : TInv g d (runLoop g w fuel s []).1 := by
    obtain ⟨k1, k2, k3⟩ := runLoop_any g d hr hsym w fuel s [] (h.walk w) (fun h0 => by omega)
    exact h.step k1 k2 k3
  unfold resume
  split
  · exact loopCase
  · exact loopCase
  · next n phase dir uid tag wait heq =>
    obtain ⟨_, hlast, _⟩ := hp.testOwn w n (by rw [heq]; rfl)
    obtain ⟨k1, k2, k3⟩ := resumeTest_any g d hr hsym s w n phase dir uid tag wait out fuel hf hws hlast (h.walk w)
      (fun hdn => (h.dir w).1 n phase uid tag wait (by rw [heq, hdn]) n hlast)
      ((h.dir w).2 n phase dir uid tag wait heq)
    exact h.step k1 k2 k3
  · exact h
  · exact h

theorem tinv_init (g : Graph) (d : Nat → Nat) (ncls : Nat) (store : List (String × List (String × String)))
    (hidden : List Nat) (hcls : ∀ n, n < g.nodes.length → (g.node n).cls < ncls) :
    TInv g d (initState g ncls store hidden) := by
  have hwd : ∀ v, (initState g ncls store hidden).wd v = { path := [g.root] } ∨ (initState g ncls store hidden).wd v = {} := by
    intro v
    by_cases hv : v < g.workers.length
    · left
      unfold initState State.wd
      simp only [List.getD_eq_getElem?_getD, List.getElem?_map, List.getElem?_eq_getElem hv]
      rfl
    · right
      exact wd_of_ge _ v (by simp [initState]; omega)
  refine ⟨by simp [initState], clsOK_init g ncls store hidden hcls, fun v => ?_, fun v => ?_⟩
  · rcases hwd v with h | h <;> rw [h]
    · exact walk_root g d g.root
    · exact walk_nil g d
  · rcases hwd v with h | h <;> rw [h] <;>
      exact dirOK_of_pc g _ (by intro n ph dir uid tag wt hx; cases hx)

/-- every reachable state satisfies the invariant -/
theorem reachable_tinv {g : Graph} {d : Nat → Nat} (hr : Ranked g d) (hsym : EdgeSym g) {ncls : Nat}
    {store : List (String × List (String × String))} (hcls : ∀ n, n < g.nodes.length → (g.node n).cls < ncls)
    {s : State} (h : ReachableF g ncls store s) : TInv g d s := by
  induction h with
  | init hidden => exact tinv_init g d ncls store hidden hcls
  | step s w out fuel hs hw hf ih => exact resume_tinv g d hr hsym s w out fuel hf hw (hs.pinv hsym) ih

/-- in a reachable state without unexplored flat nodes every worker is in a good state -/
theorem reachable_good {g : Graph} {d : Nat → Nat} (hr : Ranked g d) (hsym : EdgeSym g) {ncls : Nat}
    {store : List (String × List (String × String))} (hcls : ∀ n, n < g.nodes.length → (g.node n).cls < ncls)
    {s : State} (h : ReachableF g ncls store s) (he : Explored g s) (w : Nat) : Good g d w s :=
  ⟨(reachable_tinv hr hsym hcls h).nodesLen, (reachable_tinv hr hsym hcls h).cls, he, (reachable_tinv hr hsym hcls h).walk w⟩



/-! ## the scheduler step does not depend on the fuel beyond `bound g` -/

theorem good_of_loc {g : Graph} {d : Nat → Nat} {w : Nat} {s s' : State} (a : Loc w DT s s')
    (hn : s.nodes.length = g.nodes.length) (hc : ClsOK g s) (he : Explored g s) (hwalk : Walk g d (s'.wd w).path) :
    Good g d w s' :=
  ⟨a.nodesLen.trans hn, fun n h => by rw [a.regsLen]; exact hc n h, he.mono a.hiddenSub a.incSub, hwalk⟩

theorem runLoop_fuel (g : Graph) (d : Nat → Nat) (hr : Ranked g d) (hsym : EdgeSym g) (w : Nat) (s : State)
    (evs : List Event) (hg : Good g d w s) (fuel : Nat) (hf : bound g ≤ fuel) :
    runLoop g w fuel s evs = runLoop g w (bound g) s evs := by
  obtain ⟨r, h1, h2⟩ := runLoop_terminates g d hr hsym w s evs hg fuel hf
  rw [h2, runLoop_of_runLoopO g w (bound g) s evs r h1 (bound g) (Nat.le_refl _)]

theorem continueAfter_fuel (g : Graph) (d : Nat → Nat) (hr : Ranked g d) (hsym : EdgeSym g) (w n : Nat) (phase : Phase)
    (dir : Dir) (s : State) (ok : Bool) (evs : List Event)
    (hw : w < s.workers.length) (hlast : (s.wd w).path.getLast? = some n) (hwalk : Walk g d (s.wd w).path)
    (hdir : dir = .down → isUp g ((s.wd w).path.getD ((s.wd w).path.length - 2) 0) n = false)
    (hn : s.nodes.length = g.nodes.length) (hc : ClsOK g s) (he : Explored g s) (fuel : Nat) (hf : bound g ≤ fuel) :
    resumeTest.continueAfter g w n phase dir fuel s ok evs = resumeTest.continueAfter g w n phase dir (bound g) s ok evs := by
  unfold resumeTest.continueAfter
  dsimp only
  by_cases hpre : (phase == Phase.pre && ok) = true
  · simp only [hpre, if_true]
  · simp only [hpre, Bool.false_eq_true, if_false]
    have a2 : LW w DT s (if (phase == Phase.pre) = true then
          s.setNd n (fun d => { d with results := d.results ++ (s.wd w).preResults.drop d.results.length })
        else s) := by
      split
      · exact (fr_setNd s n _).lw w
      · exact LW.refl w s
    have aF := a2.trans ((fr_finishTraverse _ n w).lw w)
    generalize finishTraverse (if (phase == Phase.pre) = true then
          s.setNd n (fun d => { d with results := d.results ++ (s.wd w).preResults.drop d.results.length })
        else s) n w = sF at aF
    obtain ⟨h1, h2, _⟩ := afterTraverse_any g d hr hsym sF sF w n ((s.wd w).path.getD ((s.wd w).path.length - 2) 0) dir
      (by rw [aF.workersLen]; exact hw) (by rw [aF.own]; exact hlast) (by rw [aF.own]) (by rw [aF.own]; exact hwalk) hdir
      (D := DT) (fun _ _ => trivial)
    generalize afterTraverse (vis g sF) sF w n ((s.wd w).path.getD ((s.wd w).path.length - 2) 0) dir = r at h1 h2
    obtain ⟨s1, e2, fl⟩ := r
    dsimp only at h1 h2
    have hg1 : Good g d w s1 := good_of_loc (aF.toLoc.trans h1) hn hc he h2
    cases fl with
    | raise what => rfl
    | cont => exact runLoop_fuel g d hr hsym w s1 _ hg1 fuel hf
    | suspend => exact runLoop_fuel g d hr hsym w s1 _ hg1 fuel hf
    | exit => exact runLoop_fuel g d hr hsym w s1 _ hg1 fuel hf

theorem resumeTest_fuel (g : Graph) (d : Nat → Nat) (hr : Ranked g d) (hsym : EdgeSym g) (s : State) (w n : Nat)
    (phase : Phase) (dir : Dir) (uid : String) (tag wait : Nat) (out : Outcome)
    (hw : w < s.workers.length) (hlast : (s.wd w).path.getLast? = some n) (hwalk : Walk g d (s.wd w).path)
    (hdir : dir = .down → isUp g ((s.wd w).path.getD ((s.wd w).path.length - 2) 0) n = false)
    (hn : s.nodes.length = g.nodes.length) (hc : ClsOK g s) (he : Explored g s) (fuel : Nat) (hf : bound g ≤ fuel) :
    resumeTest g s w n phase dir uid tag wait out fuel = resumeTest g s w n phase dir uid tag wait out (bound g) := by
  rw [resumeTest_eq, resumeTest_eq]
  have aA := reportOutcome_lw (D := DT) g s w n phase uid wait out
  generalize (reportOutcome g s w n phase uid wait out).1 = sa at aA
  have hwA : w < sa.workers.length := by rw [aA.workersLen]; exact hw
  have gA : Good g d w sa := good_of_loc aA.toLoc hn hc he (by rw [aA.own]; exact hwalk)
  split
  · next st0 dur _ =>
    obtain ⟨b1, b2, b3⟩ := recordResult_loc (D := DT) sa w n phase (if (phase == Phase.pre) = true then (s.wd w).preName else (g.node n).name) uid tag st0 dur
    rw [aA.own] at b2 b3
    have gB := good_of_loc (g := g) (d := d) b1 gA.nodesLen gA.cls gA.explored (by rw [b2]; exact hwalk)
    exact continueAfter_fuel g d hr hsym w n phase dir _ _ _ (by rw [b1.workersLen]; exact hwA)
      (by rw [b2]; exact hlast) (by rw [b2]; exact hwalk) (by rw [b2]; exact hdir) gB.nodesLen gB.cls gB.explored fuel hf
  · split
    · rfl
    · split
      · rfl
      · exact continueAfter_fuel g d hr hsym w n phase dir sa false _ hwA
          (by rw [aA.own]; exact hlast) (by rw [aA.own]; exact hwalk) (by rw [aA.own]; exact hdir)
          gA.nodesLen gA.cls gA.explored fuel hf

/-- **A resumed worker reaches its next suspension, the exit or an exception within `bound g` iterations**: in every
reachable state without unexplored flat nodes, for every worker and every outcome of the awaited test, the scheduler
step is the same for every `fuel ≥ bound g` -/
theorem resume_fuel (g : Graph) (d : Nat → Nat) (hr : Ranked g d) (hsym : EdgeSym g) (ncls : Nat)
    (store : List (String × List (String × String))) (hcls : ∀ n, n < g.nodes.length → (g.node n).cls < ncls)
    (s : State) (h : ReachableF g ncls store s) (he : Explored g s) (w : Nat) (out : Outcome) (fuel : Nat)
    (hf : bound g ≤ fuel) : resume g s w out fuel = resume g s w out (bound g) := by
  have ht := reachable_tinv (d := d) hr hsym hcls h
  have hg := reachable_good (d := d) hr hsym hcls h he w
  have hp := h.pinv hsym
  unfold resume
  split
  · exact runLoop_fuel g d hr hsym w s [] hg fuel hf
  · exact runLoop_fuel g d hr hsym w s [] hg fuel hf
  · next n phase dir uid tag wait heq =>
    obtain ⟨_, hlast, hlen⟩ := hp.testOwn w n (by rw [heq]; rfl)
    have hws : w < s.workers.length := lt_of_path_ne_nil s w (by intro h0; rw [h0] at hlen; simp at hlen)
    exact resumeTest_fuel g d hr hsym s w n phase dir uid tag wait out hws hlast (ht.walk w)
      (fun hdn => (ht.dir w).1 n phase uid tag wait (by rw [heq, hdn]) n hlast) ht.nodesLen ht.cls he fuel hf
  · rfl
  · rfl



/-! ## dry runs: one block from the start to the exit -/

theorem vis_of_nil (g : Graph) (s : State) (h : s.hidden = []) : vis g s = g := by
  unfold vis; simp [h]

theorem runDecision_dry (g : Graph) (s : State) (n w : Nat) (h : (g.node n).dryRun = true) :
    runDecision g s n w = .ok (false, s, []) := by
  unfold runDecision
  dsimp only
  cases (g.node n).sharedRoot <;> simp [h]

theorem reverseNode_dry (g : Graph) (s : State) (n w : Nat) (h : (g.node n).dryRun = true) :
    ∃ s3 e3, reverseNode g s n w = .ok (s3, e3) := by
  unfold reverseNode
  split
  · exact ⟨_, _, rfl⟩
  · have hc : ∀ sx, cleanDecision g sx n w = .ok false := by
      intro sx; unfold cleanDecision; simp [h]
    simp only [hc, ite_self]
    exact ⟨_, _, rfl⟩

theorem insertBy_length (le : Nat → Nat → Bool) (a : Nat) (l : List Nat) : (insertBy le a l).length = l.length + 1 := by
  induction l with
  | nil => rfl
  | cons b r ih =>
    unfold insertBy
    split
    · rfl
    · simp [ih]

theorem stableSort_length (le : Nat → Nat → Bool) (l : List Nat) : (stableSort le l).length = l.length := by
  induction l with
  | nil => rfl
  | cons a r ih =>
    unfold stableSort at ih ⊢
    simp only [List.foldr_cons]
    rw [insertBy_length, ih]; rfl

theorem pickChild_some (g : Graph) (s : State) (n w : Nat) (h : isCleanupReady g s n w = false) :
    ∃ c s', pickChild g s n w = some (c, s') := by
  unfold isCleanupReady at h
  rw [List.all_eq_false] at h
  obtain ⟨⟨c, vms⟩, hc, hnot⟩ := h
  simp only [Bool.or_eq_true, Bool.not_eq_true', not_or] at hnot
  unfold pickChild
  dsimp only
  split
  · rename_i hs
    exfalso
    have hlen := stableSort_length (fun a b => keyLe (pickKey g s false a) (pickKey g s false b))
      (((g.node n).cleanup.map (·.1)).filter (fun c =>
        relevant g w c && !(regWorkers (s.cr (g.node n).cls).droppedCleanup (some (g.node c).cls)).contains w))
    rw [hs] at hlen
    have hmem : c ∈ ((g.node n).cleanup.map (·.1)).filter (fun c =>
        relevant g w c && !(regWorkers (s.cr (g.node n).cls).droppedCleanup (some (g.node c).cls)).contains w) := by
      rw [List.mem_filter]
      refine ⟨List.mem_map.2 ⟨(c, vms), hc, rfl⟩, ?_⟩
      have h1 : relevant g w c = true := by simpa using hnot.1
      have h2 := hnot.2
      simp only [Bool.not_eq_true] at h2
      rw [h1, h2]; rfl
    have := List.length_pos_of_mem hmem
    rw [← hlen] at this
    simp at this
  · exact ⟨_, _, rfl⟩

theorem pickParent_some (g : Graph) (s : State) (n w : Nat) (h : isSetupReady g s n w = false) :
    ∃ c s', pickParent g s n w = some (c, s') := by
  unfold isSetupReady at h
  rw [List.all_eq_false] at h
  obtain ⟨⟨c, vms⟩, hc, hnot⟩ := h
  simp only [Bool.or_eq_true, Bool.not_eq_true', not_or] at hnot
  unfold pickParent
  dsimp only
  split
  · rename_i hs
    exfalso
    have hlen := stableSort_length (fun a b => keyLe (pickKey g s true a) (pickKey g s true b))
      (((g.node n).setup.map (·.1)).filter (fun p =>
        relevant g w p && !(regWorkers (s.cr (g.node n).cls).droppedSetup (some (g.node p).cls)).contains w))
    rw [hs] at hlen
    have hmem : c ∈ ((g.node n).setup.map (·.1)).filter (fun p =>
        relevant g w p && !(regWorkers (s.cr (g.node n).cls).droppedSetup (some (g.node p).cls)).contains w) := by
      rw [List.mem_filter]
      refine ⟨List.mem_map.2 ⟨(c, vms), hc, rfl⟩, ?_⟩
      have h1 : relevant g w c = true := by simpa using hnot.1
      have h2 := hnot.2
      simp only [Bool.not_eq_true] at h2
      rw [h1, h2]; rfl
    have := List.length_pos_of_mem hmem
    rw [← hlen] at this
    simp at this
  · exact ⟨_, _, rfl⟩

theorem isOccupied_noMarks (g : Graph) (s : State) (n w : Nat) (h : ∀ i, (s.nd i).started = none) :
    isOccupied g s n w = false := by
  unfold isOccupied isStarted
  split
  · rfl
  · have hs : sharedStarted g s n = [] := by
      unfold sharedStarted
      have : (g.copies n).filterMap (fun i => (s.nd i).started) = [] := by
        rw [List.filterMap_eq_nil_iff]; intro i _; exact h i
      rw [this]; rfl
    have hthr : (max (mctOf g s n) 1 == (-1 : Int)) = false := by
      have : (1 : Int) ≤ max (mctOf g s n) 1 := Int.le_max_right _ _
      simp only [beq_eq_false_iff_ne, ne_eq]
      omega
    have hge : ¬ ((0 : Int) ≥ max (mctOf g s n) 1) := by
      have : (1 : Int) ≤ max (mctOf g s n) 1 := Int.le_max_right _ _
      omega
    unfold scopeCount
    rw [hs]
    cases (g.node n).shape <;> simp [hthr, hge]

theorem afterTraverse_dry_flow (g : Graph) (sF : State) (w next prev : Nat) (dir : Dir)
    (hdry : (g.node next).dryRun = true) (hun : (sF.wd w).unexplored = false) :
    (afterTraverse g sF w next prev dir).2.2 = .cont := by
  have hrd := runDecision_dry g sF next w hdry
  cases dir with
  | up => rw [afterTraverse_up_eq g sF w next prev sF [] hrd]
  | down =>
    rw [afterTraverse_down_eq g sF w next prev sF [] hrd]
    by_cases hcr : isCleanupReady g sF next w = true
    · simp only [hcr, if_true, hun, Bool.and_false, Bool.false_eq_true, if_false]
      obtain ⟨s3, e3, h3⟩ := reverseNode_dry g ((g.node next).setup.foldl (fun s (p, _) => dropChild g s p next w) sF) next w hdry
      simp only [h3]
    · simp only [hcr, Bool.false_eq_true, if_false]
      obtain ⟨c, s3, h3⟩ := pickChild_some g sF next w (by simpa using hcr)
      simp only [h3]

theorem traverseNode_dry_flow (g : Graph) (s : State) (w next prev : Nat) (dir : Dir)
    (hdry : (g.node next).dryRun = true) (hun : (s.wd w).unexplored = false) (hocc : isOccupied g s next w = false) :
    (traverseNode g s w next prev dir).2.2 = .cont := by
  unfold traverseNode
  simp only [hocc, Bool.false_eq_true, if_false]
  rw [runDecision_dry g _ next w hdry]
  simp only [Bool.false_eq_true, if_false]
  apply afterTraverse_dry_flow g _ w next prev dir hdry
  have f1 : Fr s (finishTraverse (pullLocations g (s.setNd next (fun d => { d with started := some w })) next) next w) :=
    ((fr_setNd s next _).trans (fr_pullLocations g _ next)).trans (fr_finishTraverse _ next w)
  rw [f1.wd w]; exact hun


/-- an iteration of a dry run continues or is the exit -/
theorem iter_dry_flow (g : Graph) (d : Nat → Nat) (s : State) (w : Nat)
    (hdry : ∀ n, n < g.nodes.length → (g.node n).dryRun = true)
    (hnm : ∀ i, (s.nd i).started = none) (hwalk : Walk g d (s.wd w).path)
    (hhead : (s.wd w).path.head? = some g.root)
    (hun : 2 ≤ (s.wd w).path.length → (s.wd w).unexplored = false)
    (hnr : 2 ≤ (s.wd w).path.length → isCleanupReady g s g.root w = false) :
    (iter g s w).2.2 = .cont ∨
      ((iter g s w).2.2 = .exit ∧ (iter g s w).2.1 = [Event.exit (g.worker w).id] ∧ ((iter g s w).1.wd w).pc = .done) := by
  have hne : (s.wd w).path ≠ [] := by intro h; rw [h] at hhead; simp at hhead
  have hw : w < s.workers.length := lt_of_path_ne_nil s w hne
  unfold iter
  dsimp only
  by_cases hroot : isCleanupReady g s g.root w = true
  · right
    simp only [hroot, if_true]
    have hlen1 : (s.wd w).path.length = 1 := by
      have h0 : 0 < (s.wd w).path.length := List.length_pos_iff.mpr hne
      by_cases h2 : 2 ≤ (s.wd w).path.length
      · rw [hnr h2] at hroot; cases hroot
      · omega
    have hp : (s.wd w).path = [g.root] := by
      match hq : (s.wd w).path, hlen1 with
      | [x], _ => rw [hq] at hhead; simp at hhead; rw [hhead]
    have hb : ((s.wd w).path == [g.root]) = true := by rw [hp]; simp
    simp only [hb, if_true]
    refine ⟨trivial, trivial, ?_⟩
    rw [wd_setWd_eq s w _ hw]
  · left
    simp only [hroot, Bool.false_eq_true, if_false]
    cases hl : (s.wd w).path.getLast? with
    | none => rw [List.getLast?_eq_none_iff] at hl; exact absurd hl hne
    | some next =>
      dsimp only
      by_cases hlen1 : ((s.wd w).path.length == 1) = true
      · simp only [hlen1, if_true]
        have hlen1' : (s.wd w).path.length = 1 := by simpa using hlen1
        have hp := rev_one _ hlen1' next hl
        rw [hp] at hhead
        simp only [List.head?_cons, Option.some.injEq] at hhead
        obtain ⟨c, s3, h3⟩ := pickChild_some g s next w (by rw [hhead]; simpa using hroot)
        simp only [h3]
      · simp only [hlen1, Bool.false_eq_true, if_false]
        have hlen : 2 ≤ (s.wd w).path.length := by
          have h0 : 0 < (s.wd w).path.length := List.length_pos_iff.mpr hne
          have h1 : (s.wd w).path.length ≠ 1 := by simpa using hlen1
          omega
        have hocc : isOccupied g s next w = false := isOccupied_noMarks g s next w hnm
        simp only [hocc, Bool.false_eq_true, if_false]
        have hnx : next < g.nodes.length := walk_top_lt g d _ next hwalk hl hlen
        have hadj : Adj g ((s.wd w).path.getD ((s.wd w).path.length - 2) 0) next := by
          obtain ⟨rest, hq⟩ := rev_two _ next hl hlen
          unfold Walk at hwalk
          rw [hq] at hwalk
          exact hwalk.1
        have pushParent : isSetupReady g s next w = false →
            (match pickParent g s next w with
              | none => ((s, [], Flow.raise "RuntimeError") : Step)
              | some (p, s') => (pushPath s' w p, [], Flow.cont)).2.2 = .cont := by
          intro hsr
          obtain ⟨c, s3, h3⟩ := pickParent_some g s next w hsr
          simp only [h3]
        by_cases hup : (((g.node next).cleanup.map (·.1)).contains ((s.wd w).path.getD ((s.wd w).path.length - 2) 0)) = true
        · simp only [hup, if_true]
          by_cases hsr : isSetupReady g s next w = true
          · simp only [hsr, if_true]
            exact traverseNode_dry_flow g s w next _ .up (hdry next hnx) (hun hlen) hocc
          · simp only [hsr, Bool.false_eq_true, if_false]
            exact pushParent (by simpa using hsr)
        · simp only [hup, Bool.false_eq_true, if_false]
          have hdn : (((g.node next).setup.map (·.1)).contains ((s.wd w).path.getD ((s.wd w).path.length - 2) 0)) = true := by
            rcases hadj with h | h
            · simpa using h
            · exfalso; apply hup; simpa using h
          simp only [hdn, if_true]
          by_cases hsr : isSetupReady g s next w = true
          · simp only [hsr, Bool.not_true, Bool.false_eq_true, if_false]
            exact traverseNode_dry_flow g s w next _ .down (hdry next hnx) (hun hlen) hocc
          · simp only [hsr, Bool.not_false, if_true]
            exact pushParent (by simpa using hsr)


theorem mem_of_mem_dropLast' (p : List Nat) (x : Nat) (h : x ∈ p.dropLast) : x ∈ p := by
  rw [List.dropLast_eq_take] at h
  exact List.mem_of_mem_take h

theorem head?_dropLast' (p : List Nat) (h : 2 ≤ p.length) : p.dropLast.head? = p.head? := by
  match p, h with
  | a :: b :: t, _ => simp [List.dropLast]

theorem head?_push (p : List Nat) (c : Nat) (h : p ≠ []) : (p ++ [c]).head? = p.head? := by
  cases p with
  | nil => exact absurd rfl h
  | cons a t => rfl

/-- along a walk the rank of the last position is below the rank of the first one -/
theorem walkR_rank (g : Graph) (d : Nat → Nat) (q : List Nat) : ∀ (b a : Nat), WalkR g d (b :: a :: q) → q ≠ [] →
    ∀ r x tl, (b :: a :: q).reverse = r :: x :: tl → rk g d a b < rk g d r x := by
  induction q with
  | nil => intro b a _ h; exact absurd rfl h
  | cons y q' ih =>
    intro b a hw _ r x tl hrev
    obtain ⟨_, h2, h3⟩ := hw
    simp only at h2
    cases q' with
    | nil =>
      simp only [List.reverse_cons, List.reverse_nil, List.nil_append, List.cons_append, List.cons.injEq] at hrev
      rw [← hrev.1, ← hrev.2.1]; exact h2
    | cons z q'' =>
      have hrev' : (a :: y :: z :: q'').reverse = r :: x :: tl.dropLast := by
        have h0 : (b :: a :: y :: z :: q'').reverse = (a :: y :: z :: q'').reverse ++ [b] := by simp
        rw [h0] at hrev
        have hlen : 3 ≤ ((a :: y :: z :: q'').reverse).length := by simp
        match hm : (a :: y :: z :: q'').reverse, hlen with
        | r' :: x' :: t', _ =>
          rw [hm] at hrev
          simp only [List.cons_append, List.cons.injEq] at hrev
          rw [hrev.1, hrev.2.1, ← hrev.2.2]
          simp
      have := ih a y h3 (by simp) r x _ hrev'
      omega

/-- the node at position one does not come back as a node reached downwards -/
theorem walk_top_ne_pos1 (g : Graph) (d : Nat → Nat) (hr : Ranked g d) (hsym : EdgeSym g) (p : List Nat) (root next x : Nat)
    (hwalk : Walk g d p) (hlen : 3 ≤ p.length) (hl : p.getLast? = some next) (hh : p.head? = some root)
    (h1 : p[1]? = some x) (hx : x ∈ (g.node root).cleanup.map (·.1))
    (hmode : isUp g (p.getD (p.length - 2) 0) next = false) : next ≠ x := by
  intro hnx
  obtain ⟨rest, hq⟩ := rev_two p next hl (by omega)
  have hrest : rest ≠ [] := by
    intro h0
    have := congrArg List.length hq
    rw [h0] at this
    simp at this
    omega
  unfold Walk at hwalk
  rw [hq] at hwalk
  obtain ⟨tl, hp⟩ : ∃ tl, p = root :: x :: tl := by
    match p, hlen with
    | a :: b :: c :: t, _ =>
      simp only [List.head?_cons, Option.some.injEq] at hh
      simp only [List.getElem?_cons_succ, List.getElem?_cons_zero, Option.some.injEq] at h1
      exact ⟨c :: t, by rw [hh, h1]⟩
  have := walkR_rank g d rest next _ hwalk hrest root x tl (by rw [← hq, List.reverse_reverse]; exact hp)
  unfold rk at this
  rw [hmode, isUp_child g d hr hsym root x hx, hnx] at this
  simp at this

/-- a dry run of worker `w` in the middle of its only block -/
structure DryInv (g : Graph) (d : Nat → Nat) (w : Nat) (s : State) : Prop where
  good : Good g d w s
  vis : s.hidden = []
  noMarks : ∀ i, (s.nd i).started = none
  head : (s.wd w).path.head? = some g.root
  rel : ∀ x, x ∈ (s.wd w).path.tail → relevant g w x = true
  pos1 : ∀ x, (s.wd w).path[1]? = some x →
    x ∈ (g.node g.root).cleanup.map (·.1) ∧ dropped s w (false, (g.node g.root).cls, (g.node x).cls) = false

theorem DryInv.rootNotReady {g : Graph} {d : Nat → Nat} {w : Nat} {s : State} (h : DryInv g d w s)
    (hlen : 2 ≤ (s.wd w).path.length) : isCleanupReady g s g.root w = false := by
  obtain ⟨x, hx⟩ : ∃ x, (s.wd w).path[1]? = some x := ⟨(s.wd w).path[1], List.getElem?_eq_getElem (by omega)⟩
  obtain ⟨hmem, hnd⟩ := h.pos1 x hx
  have hrel : relevant g w x = true := by
    apply h.rel
    match hp : (s.wd w).path, hlen with
    | a :: b :: t, _ =>
      rw [hp] at hx
      simp only [List.getElem?_cons_succ, List.getElem?_cons_zero, Option.some.injEq] at hx
      rw [← hx]; simp
  unfold isCleanupReady
  rw [List.all_eq_false]
  obtain ⟨e, he, hex⟩ := List.mem_map.mp hmem
  refine ⟨e, he, ?_⟩
  obtain ⟨c, vms⟩ := e
  simp only at hex
  subst hex
  unfold dropped at hnd
  simp only [Bool.false_eq_true, if_false] at hnd
  dsimp only
  rw [hrel, hnd]; simp

/-- two nodes of one class that concern the worker are equal -/
def ClassInj (g : Graph) (w : Nat) : Prop :=
  ∀ a b, a < g.nodes.length → b < g.nodes.length → relevant g w a = true → relevant g w b = true →
    (g.node a).cls = (g.node b).cls → a = b

theorem move_dry (g : Graph) (d : Nat → Nat) (hr : Ranked g d) (hsym : EdgeSym g) (w : Nat) (hinj : ClassInj g w)
    (hroot : (g.node g.root).setup = []) (s s' : State) (h : DryInv g d w s) (m : Move g w s s') :
    (s'.wd w).path.head? = some g.root ∧ (∀ x, x ∈ (s'.wd w).path.tail → relevant g w x = true) ∧
    (∀ x, (s'.wd w).path[1]? = some x →
      x ∈ (g.node g.root).cleanup.map (·.1) ∧ dropped s' w (false, (g.node g.root).cls, (g.node x).cls) = false) := by
  have hne : (s.wd w).path ≠ [] := by intro h0; have := h.head; rw [h0] at this; simp at this
  have hlast1 : ∀ last, (s.wd w).path.length = 1 → (s.wd w).path.getLast? = some last → last = g.root := by
    intro last hl1 hl
    have hp := rev_one _ hl1 last hl
    have := h.head
    rw [hp] at this
    simpa using this
  -- a push
  have push : ∀ last c, (s.wd w).path.getLast? = some last → (s'.wd w).path = (s.wd w).path ++ [c] →
      relevant g w c = true → (∀ k, dropped s' w k = dropped s w k) →
      ((s.wd w).path.length = 1 → c ∈ (g.node g.root).cleanup.map (·.1) ∧
        dropped s w (false, (g.node g.root).cls, (g.node c).cls) = false) →
      (s'.wd w).path.head? = some g.root ∧ (∀ x, x ∈ (s'.wd w).path.tail → relevant g w x = true) ∧
      (∀ x, (s'.wd w).path[1]? = some x →
        x ∈ (g.node g.root).cleanup.map (·.1) ∧ dropped s' w (false, (g.node g.root).cls, (g.node x).cls) = false) := by
    intro last c hl hp hrel hD h1
    rw [hp]
    refine ⟨by rw [head?_push _ c hne]; exact h.head, ?_, ?_⟩
    · intro x hx
      rw [List.tail_append_of_ne_nil hne] at hx
      rcases List.mem_append.mp hx with hx | hx
      · exact h.rel x hx
      · rw [List.mem_singleton.mp hx]; exact hrel
    · intro x hx
      rw [hD]
      by_cases hl1 : (s.wd w).path.length = 1
      · have : ((s.wd w).path ++ [c])[1]? = some c := by
          rw [List.getElem?_append_right (by omega), hl1]; simp
        rw [this] at hx
        simp only [Option.some.injEq] at hx
        rw [← hx]; exact h1 hl1
      · have h0 : 0 < (s.wd w).path.length := List.length_pos_iff.mpr hne
        rw [List.getElem?_append_left (by omega)] at hx
        exact h.pos1 x hx
  cases m with
  | pushUp last c hl hp hc hnd hD hrel _ =>
    refine push last c hl hp hrel hD (fun hl1 => ?_)
    rw [hlast1 last hl1 hl, hroot] at hc
    simp at hc
  | pushDown last c hl hp hc hnd hmode hD hrel _ =>
    refine push last c hl hp hrel hD (fun hl1 => ?_)
    rw [hlast1 last hl1 hl] at hc hnd
    exact ⟨hc, hnd⟩
  | pop next hl hlen hp hD hk hnew _ =>
    rw [hp]
    refine ⟨by rw [head?_dropLast' _ hlen]; exact h.head, ?_, ?_⟩
    · intro x hx
      rw [List.tail_dropLast] at hx
      exact h.rel x (mem_of_mem_dropLast' _ x hx)
    · intro x hx
      rw [List.getElem?_dropLast] at hx
      split at hx
      · rename_i h1lt
        obtain ⟨hmem, hndx⟩ := h.pos1 x hx
        refine ⟨hmem, ?_⟩
        cases hdx : dropped s' w (false, (g.node g.root).cls, (g.node x).cls)
        · rfl
        · exfalso
          rcases hnew _ hdx with h0 | ⟨hmode, hcls⟩
          · rw [hndx] at h0; cases h0
          · simp only at hmode hcls
            have hrx : relevant g w x = true := by
              apply h.rel
              match hpq : (s.wd w).path, hlen with
              | a :: b :: t, _ =>
                rw [hpq] at hx
                simp only [List.getElem?_cons_succ, List.getElem?_cons_zero, Option.some.injEq] at hx
                rw [← hx]; simp
            have hrn : relevant g w next = true := by
              apply h.rel
              match hpq : (s.wd w).path, hlen with
              | a :: b :: t, _ =>
                rw [hpq] at hl
                have : next ∈ (a :: b :: t) := List.mem_of_getLast? hl
                have hb : (b :: t).getLast? = some next := by simpa [List.getLast?_cons_cons] using hl
                exact List.mem_of_getLast? hb
            have hxN : x < g.nodes.length := lt_of_setup_mem g x g.root ((hsym g.root x).mpr hmem)
            have hnN : next < g.nodes.length := walk_top_lt g d _ next h.good.walk hl hlen
            have hxn : x = next := hinj x next hxN hnN hrx hrn hcls
            exact walk_top_ne_pos1 g d hr hsym _ g.root next x h.good.walk (by omega) hl h.head hx hmem hmode.symm hxn.symm
      · cases hx


theorem iter_cont_marks (gv : Graph) (hsym : EdgeSym gv) (s : State) (w : Nat) (hc : (iter gv s w).2.2 = .cont) (i : Nat) :
    ((iter gv s w).1.nd i).started = (s.nd i).started ∨ ((iter gv s w).1.nd i).started = none := by
  obtain ⟨_, h⟩ := iter_ok gv hsym s w
  rcases h with ⟨he, _⟩ | ⟨next, _, _, _, _, hfl⟩
  · rcases he.marks i with h1 | h1 | h1
    · exact Or.inl h1
    · exact Or.inr h1
    · exact absurd h1.1 (by simp)
  · rcases hfl with ⟨what, h1, _⟩ | ⟨h1, _⟩ <;> rw [h1] at hc <;> cases hc

/-- one iteration of a dry run: it continues with a smaller measure, or it is the exit -/
theorem iterL_dry (g : Graph) (d : Nat → Nat) (hr : Ranked g d) (hsym : EdgeSym g) (w : Nat) (hinj : ClassInj g w)
    (hroot : (g.node g.root).setup = []) (hdry : ∀ n, n < g.nodes.length → (g.node n).dryRun = true)
    (s : State) (h : DryInv g d w s) :
    ((iterL g s w).2.2 = .cont ∧ phi g (iterL g s w).1 w < phi g s w ∧ DryInv g d w (iterL g s w).1) ∨
    ((iterL g s w).2.2 = .exit ∧ (iterL g s w).2.1 = [Event.exit (g.worker w).id] ∧ ((iterL g s w).1.wd w).pc = .done) := by
  -- the iteration proper, from a state with the invariant
  have core : ∀ s1 : State, DryInv g d w s1 → (2 ≤ (s1.wd w).path.length → (s1.wd w).unexplored = false) →
      ((iter g s1 w).2.2 = .cont ∧ phi g (iter g s1 w).1 w < phi g s1 w ∧ DryInv g d w (iter g s1 w).1) ∨
      ((iter g s1 w).2.2 = .exit ∧ (iter g s1 w).2.1 = [Event.exit (g.worker w).id] ∧ ((iter g s1 w).1.wd w).pc = .done) := by
    intro s1 h1 hun
    rcases iter_dry_flow g d s1 w hdry h1.noMarks h1.good.walk h1.head hun h1.rootNotReady with hc | hx
    · left
      have hv : vis g s1 = g := vis_of_nil g s1 h1.vis
      have hc' : (iter (vis g s1) s1 w).2.2 = .cont := by rw [hv]; exact hc
      obtain ⟨m, k⟩ := iter_cont g d hr hsym s1 w h1.good.nodesLen h1.good.cls h1.good.walk hun hc'
      rw [hv] at m k
      obtain ⟨p1, p2⟩ := move_dec g d hr hsym w s1 _ h1.good.walk m
      obtain ⟨q1, q2, q3⟩ := move_dry g d hr hsym w hinj hroot s1 _ h1 m
      refine ⟨hc, p1, ⟨h1.good.keep k p2, by rw [k.hidden]; exact h1.vis, fun i => ?_, q1, q2, q3⟩⟩
      rcases iter_cont_marks g hsym s1 w hc i with h2 | h2
      · rw [h2]; exact h1.noMarks i
      · exact h2
    · exact Or.inr hx
  unfold iterL
  split
  · rename_i hcond
    rw [vis_of_nil g s h.vis]
    refine core s h (fun hlen => ?_)
    exfalso
    rw [vis_of_nil g s h.vis] at hcond
    simp only [Bool.or_eq_true, decide_eq_true_eq] at hcond
    rcases hcond with h0 | h0
    · rw [h.rootNotReady hlen] at h0; cases h0
    · omega
  · rename_i hcond
    dsimp only
    have hlen : 2 ≤ (s.wd w).path.length := by
      simp only [Bool.or_eq_true, decide_eq_true_eq, not_or] at hcond
      omega
    have hne : (s.wd w).path ≠ [] := by intro h0; rw [h0] at hlen; simp at hlen
    have hw : w < s.workers.length := lt_of_path_ne_nil s w hne
    obtain ⟨p1, p2, p3, p4, p5, p6⟩ := prepare_explored g s w h.good.explored hw
    have hhid : (prepare g s w).hidden = [] := by
      have := (prepare_frame g s w).2.2.2
      rw [h.vis] at this
      exact List.eq_nil_iff_forall_not_mem.mpr (fun x hx => by simpa using this x hx)
    have hd1 : DryInv g d w (prepare g s w) := by
      refine ⟨⟨by rw [p2]; exact h.good.nodesLen, fun n hn => by rw [p1]; exact h.good.cls n hn, p6,
        by rw [p4]; exact h.good.walk⟩, hhid, fun i => ?_, by rw [p4]; exact h.head, by rw [p4]; exact h.rel, ?_⟩
      · rw [nd_of_nodes_eq p2]; exact h.noMarks i
      · intro x hx
        rw [p4] at hx
        rw [dropped_of_regs s _ p1]
        exact h.pos1 x hx
    rw [vis_of_nil g _ hhid]
    have := core (prepare g s w) hd1 (fun _ => p5 hne)
    rw [phi_congr g s (prepare g s w) w p1 (p4 w)] at this
    exact this

theorem dryInv_setLoop {g : Graph} {d : Nat → Nat} {w : Nat} {s : State} (h : DryInv g d w s) :
    DryInv g d w (s.setWd w (fun d => { d with pc := .loop })) := by
  have hp : ((s.setWd w (fun d => { d with pc := .loop })).wd w).path = (s.wd w).path :=
    wd_setWd_proj (·.path) s w (fun d => { d with pc := .loop }) (fun _ => rfl) w
  refine ⟨(good_setLoop h.good).1, h.vis, h.noMarks, by rw [hp]; exact h.head, by rw [hp]; exact h.rel, ?_⟩
  intro x hx
  rw [hp] at hx
  rw [dropped_setWd]
  exact h.pos1 x hx

/-- the whole block of a dry run: it ends with the exit event, the worker is done -/
theorem runLoop_dry (g : Graph) (d : Nat → Nat) (hr : Ranked g d) (hsym : EdgeSym g) (w : Nat) (hinj : ClassInj g w)
    (hroot : (g.node g.root).setup = []) (hdry : ∀ n, n < g.nodes.length → (g.node n).dryRun = true)
    (fuel : Nat) (s : State) (evs : List Event) (h : DryInv g d w s) (hf : phi g s w < fuel) :
    ∃ s' evs', runLoop g w fuel s evs = (s', evs' ++ [Event.exit (g.worker w).id]) ∧ (s'.wd w).pc = .done := by
  induction fuel generalizing s evs with
  | zero => omega
  | succ fuel ih =>
    unfold runLoop
    dsimp only
    have h0 := dryInv_setLoop h
    have hp0 := (good_setLoop h.good).2
    rcases iterL_dry g d hr hsym w hinj hroot hdry _ h0 with ⟨hc, hphi, hd1⟩ | ⟨hx, hev, hpc⟩
    · split
      · next s1 e heq =>
        rw [heq] at hphi hd1
        exact ih s1 _ hd1 (by dsimp only at hphi; omega)
      · next s1 e heq => rw [heq] at hc; cases hc
      · next s1 e heq => rw [heq] at hc; cases hc
      · next s1 e what heq => rw [heq] at hc; cases hc
    · split
      · next s1 e heq => rw [heq] at hx; cases hx
      · next s1 e heq => rw [heq] at hx; cases hx
      · next s1 e heq =>
        rw [heq] at hev hpc
        dsimp only at hev hpc
        exact ⟨s1, evs, by rw [hev], hpc⟩
      · next s1 e what heq => rw [heq] at hx; cases hx

/-- decidable form of `ClassInj` -/
def classInjB (g : Graph) (w : Nat) : Bool :=
  (List.range g.nodes.length).all (fun a => (List.range g.nodes.length).all (fun b =>
    !(relevant g w a && relevant g w b && (g.node a).cls == (g.node b).cls) || a == b))

theorem classInjB_sound {g : Graph} {w : Nat} (h : classInjB g w = true) : ClassInj g w := by
  intro a b ha hb hra hrb hcls
  unfold classInjB at h
  rw [List.all_eq_true] at h
  have h1 := h a (List.mem_range.mpr ha)
  rw [List.all_eq_true] at h1
  have h2 := h1 b (List.mem_range.mpr hb)
  simpa [hra, hrb, hcls] using h2

/-- **Dry runs terminate in one block**: on a pre-parsed acyclic graph all of whose nodes are dry-run nodes, the first
scheduler step of a worker (from the initial state, with fuel `≥ bound g`) is its whole traversal: it ends with the
exit event and the worker is `done`; nothing suspends, nothing raises -/
theorem dry_run_one_block (g : Graph) (d : Nat → Nat) (hr : Ranked g d) (hsym : EdgeSym g) (w : Nat)
    (hw : w < g.workers.length) (hinj : ClassInj g w) (hroot : (g.node g.root).setup = [])
    (hdry : ∀ n, n < g.nodes.length → (g.node n).dryRun = true) (hflat : noFlatB g = true)
    (ncls : Nat) (hcls : ∀ n, n < g.nodes.length → (g.node n).cls < ncls)
    (store : List (String × List (String × String))) (fuel : Nat) (hf : bound g ≤ fuel) :
    ∃ s' evs', resume g (initState g ncls store) w ⟨none, 0⟩ fuel = (s', evs' ++ [Event.exit (g.worker w).id]) ∧
      (s'.wd w).pc = .done := by
  have hwd : (initState g ncls store).wd w = { path := [g.root] } := by
    unfold initState State.wd
    simp only [List.getD_eq_getElem?_getD, List.getElem?_map, List.getElem?_eq_getElem hw]
    rfl
  have hgood : Good g d w (initState g ncls store) :=
    good_at_root g d w _ (by simp [initState]) (clsOK_init g ncls store [] hcls) (explored_of_noFlat hflat _) (by rw [hwd])
  have hnd : ∀ i, ((initState g ncls store).nd i).started = none := by
    intro i
    unfold initState State.nd
    simp only [List.getD_eq_getElem?_getD, List.getElem?_map]
    cases g.nodes[i]? <;> rfl
  have hdi : DryInv g d w (initState g ncls store) :=
    ⟨hgood, rfl, hnd, by rw [hwd]; rfl, by rw [hwd]; intro x hx; simp at hx, by rw [hwd]; intro x hx; simp at hx⟩
  have hres : resume g (initState g ncls store) w ⟨none, 0⟩ fuel = runLoop g w fuel (initState g ncls store) [] := by
    unfold resume
    rw [hwd]
  rw [hres]
  obtain ⟨s', evs', h1, h2⟩ := runLoop_dry g d hr hsym w hinj hroot hdry fuel _ [] hdi
    (Nat.lt_of_lt_of_le (phi_lt_bound g d hr _ w hgood.walk) hf)
  exact ⟨s', evs', h1, h2⟩



/-! ## lazily expanded graphs: the postponement phase -/

/-! ### the pick takes a least key -/

theorem keyLe_refl (a : Nat × Nat × Nat) : keyLe a a = true := by
  simp [keyLe]

theorem keyLe_total (a b : Nat × Nat × Nat) : keyLe a b = true ∨ keyLe b a = true := by
  simp only [keyLe, Bool.or_eq_true, Bool.and_eq_true, decide_eq_true_eq, beq_iff_eq]
  omega

theorem keyLe_trans (a b c : Nat × Nat × Nat) (h1 : keyLe a b = true) (h2 : keyLe b c = true) : keyLe a c = true := by
  simp only [keyLe, Bool.or_eq_true, Bool.and_eq_true, decide_eq_true_eq, beq_iff_eq] at *
  omega

theorem stableSort_head_min (le : Nat → Nat → Bool) (hrefl : ∀ a, le a a = true)
    (htot : ∀ a b, le a b = true ∨ le b a = true) (htr : ∀ a b c, le a b = true → le b c = true → le a c = true)
    (l : List Nat) : ∀ h t, stableSort le l = h :: t → ∀ x, x ∈ l → le h x = true := by
  induction l with
  | nil => intro h t hs; simp [stableSort] at hs
  | cons a r ih =>
    intro h t hs x hx
    unfold stableSort at hs ih
    simp only [List.foldr_cons] at hs
    generalize hsr : List.foldr (fun a acc => insertBy le a acc) [] r = sr at hs ih
    cases sr with
    | nil =>
      simp only [insertBy, List.cons.injEq] at hs
      have hr : r = [] := by
        have := stableSort_length le r
        unfold stableSort at this
        rw [hsr] at this
        exact List.length_eq_zero_iff.mp this.symm
      rw [hr] at hx
      simp only [List.mem_singleton] at hx
      rw [← hs.1, hx]; exact hrefl a
    | cons b t' =>
      have hb : ∀ y, y ∈ r → le b y = true := ih b t' rfl
      unfold insertBy at hs
      split at hs
      · rename_i hab
        simp only [List.cons.injEq] at hs
        rw [← hs.1]
        rcases List.mem_cons.mp hx with hx | hx
        · rw [hx]; exact hrefl a
        · exact htr a b x hab (hb x hx)
      · rename_i hab
        simp only [List.cons.injEq] at hs
        rw [← hs.1]
        rcases List.mem_cons.mp hx with hx | hx
        · rw [hx]
          rcases htot a b with h1 | h1
          · exact absurd h1 hab
          · exact h1
        · exact hb x hx

/-- the child picked has a least key among the available ones -/
theorem pickChild_min (gv : Graph) (s : State) (n w c : Nat) (s' : State) (h : pickChild gv s n w = some (c, s'))
    (f : Nat) (hf : f ∈ (gv.node n).cleanup.map (·.1)) (hrel : relevant gv w f = true)
    (hnd : (regWorkers (s.cr (gv.node n).cls).droppedCleanup (some (gv.node f).cls)).contains w = false) :
    keyLe (pickKey gv s false c) (pickKey gv s false f) = true := by
  unfold pickChild at h
  dsimp only at h
  split at h
  · simp at h
  · rename_i d r hs
    simp only [Option.some.injEq, Prod.mk.injEq] at h
    rw [← h.1]
    refine stableSort_head_min (fun a b => keyLe (pickKey gv s false a) (pickKey gv s false b))
      (fun a => keyLe_refl _) (fun a b => keyLe_total _ _) (fun a b c => keyLe_trans _ _ _) _ d r hs f ?_
    rw [List.mem_filter]
    exact ⟨hf, by rw [hrel, hnd]; rfl⟩

/-- among flat candidates: the picked child is flat and was picked no more often -/
theorem pickKey_flat_le (gv : Graph) (s : State) (c f : Nat) (hf : (gv.node f).flat = true)
    (h : keyLe (pickKey gv s false c) (pickKey gv s false f) = true) :
    (gv.node c).flat = true ∧ picks s (gv.node c).cls ≤ picks s (gv.node f).cls := by
  unfold pickKey at h
  simp only [hf, if_true, Bool.false_eq_true, if_false] at h
  unfold picks
  cases hc : (gv.node c).flat
  · simp [keyLe, hc] at h
  · simp only [keyLe, hc, if_true, Bool.or_eq_true, Bool.and_eq_true, decide_eq_true_eq, beq_iff_eq] at h
    refine ⟨rfl, ?_⟩
    omega


/-! ### the expansion step unrolls the node at hand -/

/-- the children of a flat node are the composite tests it stands for (`self.setless_form in node.id`) -/
def FlatKidsOK (g : Graph) : Prop :=
  ∀ f c, (g.node f).flat = true → c ∈ (g.node f).cleanup.map (·.1) → strIn (g.node f).setless (g.nodeId c) = true

theorem closeUp_sub (g : Graph) (fuel : Nat) (acc : List Nat) (x : Nat) (h : x ∈ acc) : x ∈ closeUp g fuel acc := by
  induction fuel generalizing acc with
  | zero => exact h
  | succ k ih =>
    unfold closeUp
    dsimp only
    split
    · exact h
    · exact ih _ (List.mem_append_left _ h)

theorem vis_nodeId (g : Graph) (s : State) (c : Nat) : (vis g s).nodeId c = g.nodeId c := by
  obtain ⟨a, b, h1⟩ := vis_node_eq g s c
  unfold Graph.nodeId; rw [h1]

theorem contains_filter_of_not_mem (l : List Nat) (P : Nat → Bool) (x : Nat) (h : l.contains x = false) :
    (l.filter P).contains x = false := by
  cases hx : (l.filter P).contains x
  · rfl
  · rw [List.contains_iff_mem, List.mem_filter] at hx
    have : l.contains x = true := List.contains_iff_mem.mpr hx.1
    rw [h] at this; cases this

theorem contains_filter_of_neg (l : List Nat) (P : Nat → Bool) (x : Nat) (h : P x = false) :
    (l.filter P).contains x = false := by
  cases hx : (l.filter P).contains x
  · rfl
  · rw [List.contains_iff_mem, List.mem_filter] at hx
    rw [h] at hx; cases hx.2

theorem reveal_explores (g : Graph) (hk : FlatKidsOK g) (s : State) (f w : Nat) (hf : (g.node f).flat = true)
    (hfh : s.hidden.contains f = false) :
    isUnrolled (vis g (reveal g s f w)) (reveal g s f w) f none = true := by
  obtain ⟨su, cl, hv⟩ := vis_node_eq g (reveal g s f w) f
  have hsl : ((vis g (reveal g s f w)).node f).setless = (g.node f).setless := by rw [hv]
  have hsr : ((vis g (reveal g s f w)).node f).sharedRoot = (g.node f).sharedRoot := by rw [hv]
  unfold isUnrolled
  rw [hsr, hsl]
  by_cases hr : (g.node f).sharedRoot = true
  · simp only [hr, if_true]
  · simp only [hr, Bool.false_eq_true, if_false, Bool.or_eq_true, List.any_eq_true, Bool.not_eq_true',
      List.isEmpty_eq_false_iff_exists_mem]
    by_cases hl : (((g.node f).cleanup.map (·.1)).filter (fun c => (g.node c).owner == some w)).isEmpty = true
    · left
      refine ⟨(f, w), ?_, by simp⟩
      unfold reveal
      simp only [hl, if_true]
      exact List.mem_append_right _ List.mem_cons_self
    · right
      obtain ⟨c, hc⟩ := List.isEmpty_eq_false_iff_exists_mem.mp (Bool.not_eq_true _ ▸ hl)
      have hcm : c ∈ (g.node f).cleanup.map (·.1) := (List.mem_filter.mp hc).1
      refine ⟨c, ?_⟩
      rw [List.mem_filter]
      refine ⟨?_, by rw [vis_nodeId]; exact hk f c hf hcm⟩
      obtain ⟨e, he, hec⟩ := List.mem_map.mp hcm
      refine List.mem_map.mpr ⟨e, ((mem_vis_edges g _ f e).2).mpr ⟨he, ?_, ?_, ?_⟩, hec⟩
      · unfold reveal
        simp only [hl, Bool.false_eq_true, if_false]
        exact contains_filter_of_not_mem _ _ f hfh
      · unfold reveal
        simp only [hl, Bool.false_eq_true, if_false]
        apply contains_filter_of_neg
        rw [hec]
        have h3 := closeUp_sub g g.nodes.length _ c hc
        have h4 : (closeUp g g.nodes.length
            (((g.node f).cleanup.map (·.1)).filter (fun c => (g.node c).owner == some w))).contains c = true :=
          List.contains_iff_mem.mpr h3
        simp only [h4, Bool.not_true, Bool.false_and]
      · -- the edge from the flat node to the leaf appears with the expansion
        unfold reveal
        simp only [hl, Bool.false_eq_true, if_false]
        apply contains_filter_of_neg
        rw [hec]
        have h4 : ((((g.node f).cleanup.map (·.1)).filter (fun c => (g.node c).owner == some w)).map
            (edgeCode g f)).contains (edgeCode g f c) = true :=
          List.contains_iff_mem.mpr (List.mem_map.mpr ⟨c, hc, rfl⟩)
        simp only [h4, Bool.not_true, Bool.and_false]


theorem isUnrolled_some_none (gv : Graph) (s : State) (f w : Nat) (h : isUnrolled gv s f (some w) = true) :
    isUnrolled gv s f none = true := by
  unfold isUnrolled at h ⊢
  split
  · rfl
  · rename_i hr
    simp only [hr, Bool.false_eq_true, if_false, Bool.or_eq_true, List.contains_iff_mem, List.any_eq_true] at h
    simp only [Bool.or_eq_true, List.any_eq_true, Bool.not_eq_true', List.isEmpty_eq_false_iff_exists_mem]
    rcases h with h | ⟨c, hc, _⟩
    · exact Or.inl ⟨(f, w), h, by simp⟩
    · exact Or.inr ⟨c, hc⟩

/-- is the flat node `f` unexplored (not unrolled for any worker, not known to be incompatible) -/
def unexpl (g : Graph) (s : State) (f : Nat) : Bool := (g.node f).flat && !isUnrolled (vis g s) s f none

theorem unexploredNodes_eq (g : Graph) (s : State) :
    unexploredNodes (vis g s) s = (List.range g.nodes.length).filter (unexpl g s) := by
  unfold unexploredNodes
  rw [(sameStatic_vis g s).len]
  congr 1
  funext n
  unfold unexpl
  rw [vis_flat]

/-- the number of unexplored flat nodes -/
def nU (g : Graph) (s : State) : Nat := (unexploredNodes (vis g s) s).length

theorem unexpl_mono (g : Graph) (s s' : State) (hh : ∀ x, x ∈ s'.hidden → x ∈ s.hidden)
    (hi : ∀ x, x ∈ s.incompatible → x ∈ s'.incompatible) (f : Nat) (h : unexpl g s' f = true) : unexpl g s f = true := by
  unfold unexpl at h ⊢
  simp only [Bool.and_eq_true, Bool.not_eq_true'] at h ⊢
  refine ⟨h.1, ?_⟩
  cases hu : isUnrolled (vis g s) s f none
  · rfl
  · rw [isUnrolled_none_mono g s s' hh hi f hu] at h
    cases h.2

theorem filter_length_le (l : List Nat) (p q : Nat → Bool) (h : ∀ x, x ∈ l → p x = true → q x = true) :
    (l.filter p).length ≤ (l.filter q).length := by
  induction l with
  | nil => simp
  | cons a r ih =>
    have ih' := ih (fun x hx => h x (List.mem_cons_of_mem _ hx))
    simp only [List.filter_cons]
    cases hp : p a
    · simp only [Bool.false_eq_true, if_false]
      cases hq : q a
      · simp only [Bool.false_eq_true, if_false]; exact ih'
      · simp only [if_true, List.length_cons]; omega
    · have := h a List.mem_cons_self hp
      simp only [this, if_true, List.length_cons]
      omega

theorem filter_length_lt (l : List Nat) (p q : Nat → Bool) (h : ∀ x, x ∈ l → p x = true → q x = true)
    (a : Nat) (ha : a ∈ l) (hq : q a = true) (hp : p a = false) : (l.filter p).length < (l.filter q).length := by
  induction l with
  | nil => simp at ha
  | cons b r ih =>
    simp only [List.filter_cons]
    rcases List.mem_cons.mp ha with hab | har
    · subst hab
      have := filter_length_le r p q (fun x hx => h x (List.mem_cons_of_mem _ hx))
      simp only [hp, hq, Bool.false_eq_true, if_false, if_true, List.length_cons]
      omega
    · have ih' := ih (fun x hx => h x (List.mem_cons_of_mem _ hx)) har
      cases hpb : p b
      · simp only [Bool.false_eq_true, if_false]
        cases hqb : q b
        · simp only [Bool.false_eq_true, if_false]; exact ih'
        · simp only [if_true, List.length_cons]; omega
      · have := h b List.mem_cons_self hpb
        simp only [this, if_true, List.length_cons]
        omega

theorem nU_mono (g : Graph) (s s' : State) (hh : ∀ x, x ∈ s'.hidden → x ∈ s.hidden)
    (hi : ∀ x, x ∈ s.incompatible → x ∈ s'.incompatible) : nU g s' ≤ nU g s := by
  unfold nU
  rw [unexploredNodes_eq, unexploredNodes_eq]
  exact filter_length_le _ _ _ (fun x _ => unexpl_mono g s s' hh hi x)

theorem nU_lt (g : Graph) (s s' : State) (hh : ∀ x, x ∈ s'.hidden → x ∈ s.hidden)
    (hi : ∀ x, x ∈ s.incompatible → x ∈ s'.incompatible) (f : Nat) (hf : f < g.nodes.length)
    (h1 : unexpl g s f = true) (h2 : unexpl g s' f = false) : nU g s' < nU g s := by
  unfold nU
  rw [unexploredNodes_eq, unexploredNodes_eq]
  exact filter_length_lt _ _ _ (fun x _ => unexpl_mono g s s' hh hi x) f (List.mem_range.mpr hf) h1 h2

theorem nU_pos_of (g : Graph) (s : State) (f : Nat) (hf : f < g.nodes.length) (h : unexpl g s f = true) : 0 < nU g s := by
  unfold nU
  rw [unexploredNodes_eq]
  exact List.length_pos_of_mem (List.mem_filter.mpr ⟨List.mem_range.mpr hf, h⟩)

theorem nU_congr (g : Graph) (s s' : State) (hh : s'.hidden = s.hidden) (hi : s'.incompatible = s.incompatible) :
    nU g s' = nU g s := by
  unfold nU unexploredNodes isUnrolled
  rw [vis_congr g s s' hh, hi]

theorem unexpl_congr (g : Graph) (s s' : State) (hh : s'.hidden = s.hidden) (hi : s'.incompatible = s.incompatible) (f : Nat) :
    unexpl g s' f = unexpl g s f := by
  unfold unexpl isUnrolled
  rw [vis_congr g s s' hh, hi]

/-- the expansion step in general -/
theorem prepare_lazy (g : Graph) (hk : FlatKidsOK g) (s : State) (w : Nat) (hw : w < s.workers.length)
    (hne : (s.wd w).path ≠ []) :
    (prepare g s w).regs = s.regs ∧ (prepare g s w).nodes = s.nodes ∧
    (prepare g s w).workers.length = s.workers.length ∧
    (∀ v, ((prepare g s w).wd v).path = (s.wd v).path) ∧
    ((prepare g s w).wd w).unexplored = !(unexploredNodes (vis g s) s).isEmpty ∧
    (∀ x, x ∈ (prepare g s w).hidden → x ∈ s.hidden) ∧
    (∀ x, x ∈ s.incompatible → x ∈ (prepare g s w).incompatible) ∧
    (∀ f, (s.wd w).path.getLast? = some f → f < g.nodes.length → unexpl g s f = true → s.hidden.contains f = false →
      unexpl g (prepare g s w) f = false) := by
  obtain ⟨a, b, _⟩ := prepare_loc (D := DT) g s w
  obtain ⟨_, f2, f3, _⟩ := prepare_frame g s w
  have hregs : (prepare g s w).regs = s.regs := by
    unfold prepare
    dsimp only
    split
    · rfl
    · split
      · unfold reveal; dsimp only; split <;> rfl
      · rfl
  refine ⟨hregs, (prepare_frame g s w).1, f2, fun v => (f3 v).1, ?_, a.hiddenSub, a.incSub, ?_⟩
  · unfold prepare
    dsimp only
    cases hl : (s.wd w).path.getLast? with
    | none => rw [List.getLast?_eq_none_iff] at hl; exact absurd hl hne
    | some next =>
      dsimp only
      split
      · have : ∀ (sx : State) (f : Nat), (reveal g sx f w).workers = sx.workers := fun sx f => (reveal_frame g sx f w).2.1
        unfold State.wd
        rw [this]
        exact congrArg (·.unexplored) (wd_setWd_eq s w _ hw)
      · exact congrArg (·.unexplored) (wd_setWd_eq s w _ hw)
  · intro f hl hfN hun hfh
    have hflat : (g.node f).flat = true := by
      unfold unexpl at hun; simp only [Bool.and_eq_true] at hun; exact hun.1
    have hnone : isUnrolled (vis g s) s f none = false := by
      unfold unexpl at hun; simp only [Bool.and_eq_true, Bool.not_eq_true'] at hun; exact hun.2
    have hunexp : (!(unexploredNodes (vis g s) s).isEmpty) = true := by
      have := nU_pos_of g s f hfN hun
      unfold nU at this
      cases hq : unexploredNodes (vis g s) s with
      | nil => rw [hq] at this; simp at this
      | cons _ _ => rfl
    unfold prepare
    dsimp only
    rw [hl]
    dsimp only
    have hsome : isUnrolled (vis g s) (s.setWd w (fun d => { d with unexplored := !(unexploredNodes (vis g s) s).isEmpty })) f (some w) = false := by
      cases hx : isUnrolled (vis g s) (s.setWd w (fun d => { d with unexplored := !(unexploredNodes (vis g s) s).isEmpty })) f (some w)
      · rfl
      · have := isUnrolled_some_none _ _ f w hx
        have h2 : isUnrolled (vis g s) (s.setWd w (fun d => { d with unexplored := !(unexploredNodes (vis g s) s).isEmpty })) f none =
            isUnrolled (vis g s) s f none := rfl
        rw [h2, hnone] at this; cases this
    rw [vis_flat, hflat, hsome, hunexp]
    simp only [Bool.not_false, Bool.and_self, Bool.true_or, if_true]
    unfold unexpl
    have := reveal_explores g hk (s.setWd w (fun d => { d with unexplored := true })) f w hflat hfh
    rw [this]
    simp


/-! ### the measure for lazily expanded graphs -/

/-- static well-formedness of a lazily expanded graph: the children of a flat node are its composite tests, every
flat node hangs below the shared root, no other node shares the class of a flat node -/
structure LazyOK (g : Graph) : Prop where
  kids : FlatKidsOK g
  underRoot : ∀ f, f < g.nodes.length → (g.node f).flat = true → (g.node f).sharedRoot = false →
    f ∈ (g.node g.root).cleanup.map (·.1)
  clsUniq : ∀ f m, f < g.nodes.length → m < g.nodes.length → (g.node f).flat = true →
    (g.node m).cls = (g.node f).cls → m = f

theorem unexpl_flat (g : Graph) (s : State) (f : Nat) (h : unexpl g s f = true) :
    (g.node f).flat = true ∧ (g.node f).sharedRoot = false := by
  unfold unexpl at h
  simp only [Bool.and_eq_true, Bool.not_eq_true'] at h
  refine ⟨h.1, ?_⟩
  cases hr : (g.node f).sharedRoot
  · rfl
  · have h2 := h.2
    unfold isUnrolled at h2
    obtain ⟨su, cl, hv⟩ := vis_node_eq g s f
    rw [hv] at h2
    simp [hr] at h2

/-- the last node of the path -/
def top (s : State) (w : Nat) : Nat := ((s.wd w).path.getLast?).getD 0

/-- the last node of the path is an unexplored flat node that the next expansion step will unroll -/
def pendB (g : Graph) (s : State) (w : Nat) : Bool :=
  decide (2 ≤ (s.wd w).path.length) && (decide (top s w < g.nodes.length) && unexpl g s (top s w))

def pend (g : Graph) (s : State) (w : Nat) : Nat := if pendB g s w then 1 else 0

def rootKids (g : Graph) : List Nat := (g.node g.root).cleanup.map (·.1)

/-- room left in the pick counters of the flat children of the root below the level `P` -/
def psi (g : Graph) (s : State) (P : Nat) : Nat :=
  ((rootKids g).map (fun c => if (g.node c).flat then P - picks s (g.node c).cls else 0)).sum

def chi (g : Graph) (s : State) (w : Nat) : Nat := if 0 < nU g s ∧ (s.wd w).path ≠ [g.root] then 1 else 0

/-- the measure: unexplored nodes (counted twice, minus one when the exploration is imminent), room in the pick
counters, "not at the root", and the measure `phi` of the eager case -/
def mu (g : Graph) (s : State) (w P : Nat) : Nat :=
  (((2 * nU g s - pend g s w) * ((rootKids g).length * P + 1) + psi g s P) * 2 + chi g s w) * bound g + phi g s w

theorem radix_lt (Q a a' b b' : Nat) (hb' : b' < Q) (h : a' < a ∨ (a' = a ∧ b' < b)) : a' * Q + b' < a * Q + b := by
  rcases h with h | ⟨h1, h2⟩
  · have h3 : (a' + 1) * Q ≤ a * Q := Nat.mul_le_mul_right Q (by omega)
    rw [Nat.add_mul, Nat.one_mul] at h3
    omega
  · subst h1; omega

/-- lexicographic decrease of the four components lowers the measure -/
theorem lex4_lt (Q B A A' p p' c c' f f' : Nat) (hp' : p' < Q) (hc' : c' < 2) (hf' : f' < B)
    (hA : A' ≤ A) (hp : A' = A → p' ≤ p) (hc : A' = A → p' = p → c' ≤ c) (hf : A' = A → p' = p → c' = c → f' < f) :
    ((A' * Q + p') * 2 + c') * B + f' < ((A * Q + p) * 2 + c) * B + f := by
  have lvl1 : A' * Q + p' < A * Q + p ∨ (A' * Q + p' = A * Q + p ∧ A' = A ∧ p' = p) := by
    by_cases h1 : A' < A
    · exact Or.inl (radix_lt Q A A' p p' hp' (Or.inl h1))
    · have h2 : A' = A := by omega
      by_cases h3 : p' < p
      · exact Or.inl (radix_lt Q A A' p p' hp' (Or.inr ⟨h2, h3⟩))
      · have := hp h2
        have h4 : p' = p := by omega
        right; rw [h2, h4]; exact ⟨rfl, rfl, rfl⟩
  have lvl2 : (A' * Q + p') * 2 + c' < (A * Q + p) * 2 + c ∨
      ((A' * Q + p') * 2 + c' = (A * Q + p) * 2 + c ∧ A' = A ∧ p' = p ∧ c' = c) := by
    rcases lvl1 with h | ⟨h, h2, h4⟩
    · exact Or.inl (radix_lt 2 _ _ c c' hc' (Or.inl h))
    · by_cases h5 : c' < c
      · exact Or.inl (radix_lt 2 _ _ c c' hc' (Or.inr ⟨h, h5⟩))
      · have := hc h2 h4
        have h6 : c' = c := by omega
        right; rw [h, h6]; exact ⟨rfl, h2, h4, rfl⟩
  rcases lvl2 with h | ⟨h, h2, h4, h6⟩
  · exact radix_lt B _ _ f f' hf' (Or.inl h)
  · exact radix_lt B _ _ f f' hf' (Or.inr ⟨h, hf h2 h4 h6⟩)

theorem sum_map_le (l : List Nat) (F G : Nat → Nat) (h : ∀ x, x ∈ l → F x ≤ G x) : (l.map F).sum ≤ (l.map G).sum := by
  induction l with
  | nil => simp
  | cons a r ih =>
    simp only [List.map_cons, List.sum_cons]
    have := h a List.mem_cons_self
    have := ih (fun x hx => h x (List.mem_cons_of_mem _ hx))
    omega

theorem sum_map_lt (l : List Nat) (F G : Nat → Nat) (h : ∀ x, x ∈ l → F x ≤ G x) (a : Nat) (ha : a ∈ l)
    (hlt : F a < G a) : (l.map F).sum < (l.map G).sum := by
  induction l with
  | nil => simp at ha
  | cons b r ih =>
    simp only [List.map_cons, List.sum_cons]
    rcases List.mem_cons.mp ha with hab | har
    · subst hab
      have := sum_map_le r F G (fun x hx => h x (List.mem_cons_of_mem _ hx))
      omega
    · have := h b List.mem_cons_self
      have := ih (fun x hx => h x (List.mem_cons_of_mem _ hx)) har
      omega

theorem psi_le (g : Graph) (s : State) (P : Nat) : psi g s P ≤ (rootKids g).length * P := by
  unfold psi
  induction rootKids g with
  | nil => simp
  | cons a r ih =>
    simp only [List.map_cons, List.sum_cons, List.length_cons, Nat.add_mul, Nat.one_mul]
    split <;> omega

/-- the pick counters only grow: the room shrinks -/
theorem psi_mono (g : Graph) (s s' : State) (P : Nat) (h : ∀ c, picks s c ≤ picks s' c) : psi g s' P ≤ psi g s P := by
  unfold psi
  apply sum_map_le
  intro x _
  split
  · have := h (g.node x).cls; omega
  · exact Nat.le_refl _

theorem psi_congr (g : Graph) (s s' : State) (P : Nat) (h : ∀ c, picks s' c = picks s c) : psi g s' P = psi g s P := by
  unfold psi
  congr 1
  apply List.map_congr_left
  intro x _
  rw [h]

/-- a pick of a flat child of the root below the level takes room away -/
theorem psi_pick (g : Graph) (s s' : State) (P c : Nat) (hc : c ∈ rootKids g) (hf : (g.node c).flat = true)
    (hlow : picks s (g.node c).cls < P)
    (h : ∀ c', picks s' c' = picks s c' + (if c' = (g.node c).cls then 1 else 0)) : psi g s' P < psi g s P := by
  unfold psi
  apply sum_map_lt _ _ _ _ c hc
  · simp only [hf, if_true]
    rw [h]; simp only [if_true]; omega
  · intro x _
    split
    · rw [h]; split <;> omega
    · exact Nat.le_refl _

theorem chi_le (g : Graph) (s : State) (w : Nat) : chi g s w < 2 := by
  unfold chi; split <;> omega


/-! ### the invariant of the postponement phase -/

/-- the state hypotheses for lazily expanded graphs; `P` is a level above the pick counters of all unexplored nodes
at the start of the block -/
structure LInv (g : Graph) (d : Nat → Nat) (w P : Nat) (s : State) : Prop where
  nodesLen : s.nodes.length = g.nodes.length
  cls : ClsOK g s
  walk : Walk g d (s.wd w).path
  head : (s.wd w).path.head? = some g.root
  vroot : s.hidden.contains g.root = false
  vflat : ∀ f, (g.node f).flat = true → s.hidden.contains f = false
  vedge : ∀ f, (g.node f).flat = true → s.hidden.contains (edgeCode g g.root f) = false
  avail : ∀ f, f < g.nodes.length → unexpl g s f = true →
    dropped s w (false, (g.node g.root).cls, (g.node f).cls) = false
  low : ∀ f, f < g.nodes.length → unexpl g s f = true →
    picks s (g.node f).cls < P ∨ (2 ≤ (s.wd w).path.length ∧ top s w = f)

theorem top_of_last (s : State) (w next : Nat) (hl : (s.wd w).path.getLast? = some next) : top s w = next := by
  unfold top; rw [hl]; rfl

theorem last_of_top (s : State) (w : Nat) (hne : (s.wd w).path ≠ []) : (s.wd w).path.getLast? = some (top s w) := by
  unfold top
  cases hl : (s.wd w).path.getLast? with
  | none => rw [List.getLast?_eq_none_iff] at hl; exact absurd hl hne
  | some x => rfl

theorem pendB_false_of_len (g : Graph) (s : State) (w : Nat) (h : (s.wd w).path.length < 2) : pendB g s w = false := by
  unfold pendB
  have : decide (2 ≤ (s.wd w).path.length) = false := by simp; omega
  rw [this]; rfl

theorem nU_pos_of_pend (g : Graph) (s : State) (w : Nat) (h : pendB g s w = true) : 0 < nU g s := by
  unfold pendB at h
  simp only [Bool.and_eq_true, decide_eq_true_eq] at h
  exact nU_pos_of g s _ h.2.1 h.2.2

/-- at the root the iteration is the pick of a child -/
theorem iter_rootpick (gv : Graph) (s : State) (w next : Nat) (hl : (s.wd w).path.getLast? = some next)
    (hlen : (s.wd w).path.length = 1) (hc : (iter gv s w).2.2 = .cont) :
    ∃ c s3, pickChild gv s next w = some (c, s3) ∧ (iter gv s w).1 = pushPath s3 w c := by
  unfold iter at hc ⊢
  dsimp only at hc ⊢
  by_cases hroot : isCleanupReady gv s gv.root w = true
  · simp only [hroot, if_true] at hc
    split at hc <;> cases hc
  · simp only [hroot, Bool.false_eq_true, if_false, hl] at hc ⊢
    have h1 : ((s.wd w).path.length == 1) = true := by simp [hlen]
    simp only [h1, if_true] at hc ⊢
    cases hpk : pickChild gv s next w with
    | none => simp only [hpk] at hc; cases hc
    | some r => exact ⟨r.1, r.2, rfl, rfl⟩

/-- an unexplored flat node is offered by the root -/
theorem unexpl_available (g : Graph) (d : Nat → Nat) (w P : Nat) (hz : LazyOK g) (s : State) (h : LInv g d w P s)
    (f : Nat) (hf : f < g.nodes.length) (hu : unexpl g s f = true) :
    f ∈ ((vis g s).node g.root).cleanup.map (·.1) ∧ relevant (vis g s) w f = true ∧
    (regWorkers (s.cr ((vis g s).node g.root).cls).droppedCleanup (some ((vis g s).node f).cls)).contains w = false := by
  obtain ⟨hflat, hsr⟩ := unexpl_flat g s f hu
  refine ⟨?_, ?_, ?_⟩
  · obtain ⟨e, he, hef⟩ := List.mem_map.mp (hz.underRoot f hf hflat hsr)
    exact List.mem_map.mpr ⟨e, ((mem_vis_edges g s g.root e).2).mpr ⟨he, h.vroot, by rw [hef]; exact h.vflat f hflat,
      by rw [hef]; exact h.vedge f hflat⟩, hef⟩
  · rw [vis_relevant]; unfold relevant; rw [hflat]; rfl
  · have := h.avail f hf hu
    unfold dropped at this
    simp only [Bool.false_eq_true, if_false] at this
    rw [vis_cls, vis_cls]; exact this


theorem nU_pos_exists (g : Graph) (s : State) (h : 0 < nU g s) : ∃ f, f < g.nodes.length ∧ unexpl g s f = true := by
  unfold nU at h
  rw [unexploredNodes_eq] at h
  obtain ⟨f, hf⟩ := List.exists_mem_of_length_pos h
  rw [List.mem_filter, List.mem_range] at hf
  exact ⟨f, hf⟩

/-- one iteration proper of the postponement phase, from a state in which no exploration is imminent -/
theorem iter_lazy (g : Graph) (d : Nat → Nat) (hr : Ranked g d) (hsym : EdgeSym g) (hz : LazyOK g) (w P : Nat)
    (s : State) (h : LInv g d w P s) (hpend : pendB g s w = false) (hc : (iter (vis g s) s w).2.2 = .cont) :
    Keep s (iter (vis g s) s w).1 ∧ LInv g d w P (iter (vis g s) s w).1 ∧
    psi g (iter (vis g s) s w).1 P ≤ psi g s P ∧
    (((s.wd w).unexplored = true ∧ 2 ≤ (s.wd w).path.length ∧ ((iter (vis g s) s w).1.wd w).path = [g.root] ∧
        psi g (iter (vis g s) s w).1 P = psi g s P) ∨
     (phi g (iter (vis g s) s w).1 w < phi g s w ∧
      ((s.wd w).path.length = 1 → 0 < nU g s → psi g (iter (vis g s) s w).1 P < psi g s P))) := by
  obtain ⟨mj, k⟩ := iter_cont2 g d hr hsym s w h.nodesLen h.cls h.walk hc
  have hne : (s.wd w).path ≠ [] := by intro h0; have := h.head; rw [h0] at this; simp at this
  have hw : w < s.workers.length := lt_of_path_ne_nil s w hne
  -- the root pick
  have rootpick : (s.wd w).path.length = 1 → 0 < nU g s → psi g (iter (vis g s) s w).1 P < psi g s P := by
    intro hlen1 hpos
    obtain ⟨f, hfN, hfu⟩ := nU_pos_exists g s hpos
    have hl := last_of_top s w hne
    have hp := rev_one _ hlen1 _ hl
    have hroot : top s w = g.root := by
      have := h.head; rw [hp] at this; simpa using this
    rw [hroot] at hl
    obtain ⟨c, s3, hpk, hs2⟩ := iter_rootpick (vis g s) s w g.root hl hlen1 hc
    obtain ⟨ha1, ha2, ha3⟩ := unexpl_available g d w P hz s h f hfN hfu
    have hmin := pickChild_min (vis g s) s g.root w c s3 hpk f ha1 ha2 ha3
    obtain ⟨hflat, _⟩ := unexpl_flat g s f hfu
    obtain ⟨hcf, hcp⟩ := pickKey_flat_le (vis g s) s c f (by rw [vis_flat]; exact hflat) hmin
    rw [vis_flat] at hcf
    rw [vis_cls, vis_cls] at hcp
    obtain ⟨hcm, _, hs3⟩ := pickChild_spec _ s g.root w c s3 hpk
    have hcg := vis_cleanup_sub g s g.root c hcm
    have hcN : c < g.nodes.length := lt_of_setup_mem g c g.root ((hsym g.root c).mpr hcg)
    have hlowf : picks s (g.node f).cls < P := by
      rcases h.low f hfN hfu with h1 | h1
      · exact h1
      · omega
    rw [hs2]
    apply psi_pick g s _ P c hcg hcf (by omega)
    intro c'
    unfold pushPath
    rw [picks_setWd, hs3, picks_setCr_pick s _ _ (by rw [vis_cls]; exact h.cls c hcN), vis_cls]
  have hun : ∀ f, unexpl g (iter (vis g s) s w).1 f = unexpl g s f := fun f => unexpl_congr g s _ k.hidden k.incompatible f
  have np : ∀ f, f < g.nodes.length → unexpl g s f = true → ¬ (2 ≤ (s.wd w).path.length ∧ top s w = f) := by
    intro f hfN hfu ⟨h1, h2⟩
    unfold pendB at hpend
    rw [h2] at hpend
    simp [h1, hfN, hfu] at hpend
  have base : ∀ (hwalk : Walk g d ((iter (vis g s) s w).1.wd w).path)
      (hhead : ((iter (vis g s) s w).1.wd w).path.head? = some g.root)
      (havail : ∀ f, f < g.nodes.length → unexpl g s f = true →
        dropped (iter (vis g s) s w).1 w (false, (g.node g.root).cls, (g.node f).cls) = false)
      (hlow : ∀ f, f < g.nodes.length → unexpl g s f = true →
        picks (iter (vis g s) s w).1 (g.node f).cls < P ∨
          (2 ≤ ((iter (vis g s) s w).1.wd w).path.length ∧ top (iter (vis g s) s w).1 w = f)),
      LInv g d w P (iter (vis g s) s w).1 := by
    intro hwalk hhead havail hlow
    exact ⟨k.nodesLen.trans h.nodesLen, fun n hn => by rw [k.regsLen]; exact h.cls n hn, hwalk, hhead,
      by rw [k.hidden]; exact h.vroot, fun f hf => by rw [k.hidden]; exact h.vflat f hf,
      fun f hf => by rw [k.hidden]; exact h.vedge f hf,
      fun f hfN hfu => havail f hfN (by rw [← hun]; exact hfu), fun f hfN hfu => hlow f hfN (by rw [← hun]; exact hfu)⟩
  rcases mj with m | j
  · -- a move
    obtain ⟨hphi, hwalk2⟩ := move_dec g d hr hsym w s _ h.walk m
    cases m with
    | pushUp last c hl hp hcm hnd hD hrel hpk =>
      refine ⟨k, base hwalk2 (by rw [hp, head?_push _ c hne]; exact h.head) (fun f hfN hfu => by rw [hD]; exact h.avail f hfN hfu) ?_,
        by rw [psi_congr g s _ P hpk]; exact Nat.le_refl _, Or.inr ⟨hphi, rootpick⟩⟩
      intro f hfN hfu
      rcases h.low f hfN hfu with h1 | h1
      · left; rw [hpk]; exact h1
      · exact absurd h1 (np f hfN hfu)
    | pushDown last c hl hp hcm hnd hmode hD hrel hpk =>
      have hcN : c < g.nodes.length := lt_of_setup_mem g c last ((hsym last c).mpr hcm)
      refine ⟨k, base hwalk2 (by rw [hp, head?_push _ c hne]; exact h.head) (fun f hfN hfu => by rw [hD]; exact h.avail f hfN hfu) ?_,
        psi_mono g s _ P (fun c' => by rw [hpk]; omega), Or.inr ⟨hphi, rootpick⟩⟩
      intro f hfN hfu
      by_cases hcf : (g.node f).cls = (g.node c).cls
      · right
        have hfl := (unexpl_flat g s f hfu).1
        have : c = f := hz.clsUniq f c hfN hcN hfl hcf.symm
        refine ⟨?_, ?_⟩
        · rw [hp]; simp only [List.length_append, List.length_singleton]
          have := List.length_pos_iff.mpr hne; omega
        · rw [← this]
          exact top_of_last _ w c (by rw [hp]; simp)
      · rcases h.low f hfN hfu with h1 | h1
        · left; rw [hpk]; simp only [hcf, if_false]; exact h1
        · exact absurd h1 (np f hfN hfu)
    | pop next hl hlen hp hD hk hnew hpk =>
      refine ⟨k, base hwalk2 (by rw [hp, head?_dropLast' _ hlen]; exact h.head) ?_ ?_,
        by rw [psi_congr g s _ P hpk]; exact Nat.le_refl _, Or.inr ⟨hphi, rootpick⟩⟩
      · intro f hfN hfu
        cases hdx : dropped (iter (vis g s) s w).1 w (false, (g.node g.root).cls, (g.node f).cls)
        · rfl
        · exfalso
          rcases hnew _ hdx with h0 | ⟨_, hcls⟩
          · rw [h.avail f hfN hfu] at h0; cases h0
          · simp only at hcls
            have hnN : next < g.nodes.length := walk_top_lt g d _ next h.walk hl hlen
            have hfl := (unexpl_flat g s f hfu).1
            have : next = f := hz.clsUniq f next hfN hnN hfl hcls.symm
            exact np f hfN hfu ⟨hlen, by rw [← this]; exact top_of_last s w next hl⟩
      · intro f hfN hfu
        rcases h.low f hfN hfu with h1 | h1
        · left; rw [hpk]; exact h1
        · exact absurd h1 (np f hfN hfu)
  · -- the postponement jump
    refine ⟨k, base (by rw [j.path]; exact walk_root g d g.root) (by rw [j.path]; rfl)
      (fun f hfN hfu => by rw [j.dropped]; exact h.avail f hfN hfu) ?_,
      by rw [psi_congr g s _ P j.picks]; exact Nat.le_refl _, Or.inl ⟨j.flag, j.len, j.path, psi_congr g s _ P j.picks⟩⟩
    intro f hfN hfu
    rcases h.low f hfN hfu with h1 | h1
    · left; rw [j.picks]; exact h1
    · exact absurd h1 (np f hfN hfu)


theorem chi_root (g : Graph) (s : State) (w : Nat) (h : (s.wd w).path = [g.root]) : chi g s w = 0 := by
  unfold chi; simp [h]

theorem chi_zero (g : Graph) (s : State) (w : Nat) (h : nU g s = 0) : chi g s w = 0 := by
  unfold chi; simp [h]

theorem chi_one (g : Graph) (s : State) (w : Nat) (h1 : 0 < nU g s) (h2 : (s.wd w).path ≠ [g.root]) : chi g s w = 1 := by
  unfold chi; simp [h1, h2]

/-- the expansion step followed by the iteration proper lowers the measure -/
theorem mu_step (g : Graph) (d : Nat → Nat) (hr : Ranked g d) (w P : Nat) (s0 s1 s2 : State)
    (hpath01 : (s1.wd w).path = (s0.wd w).path) (hregs01 : s1.regs = s0.regs)
    (hnU01 : nU g s1 ≤ nU g s0) (hpend0 : pendB g s0 w = true → nU g s1 < nU g s0)
    (hnU12 : nU g s2 = nU g s1) (hwalk2 : Walk g d (s2.wd w).path)
    (hpsi : psi g s2 P ≤ psi g s1 P)
    (hflag : (s1.wd w).unexplored = true → 2 ≤ (s1.wd w).path.length → 0 < nU g s0)
    (hout : ((s1.wd w).unexplored = true ∧ 2 ≤ (s1.wd w).path.length ∧ (s2.wd w).path = [g.root] ∧
        psi g s2 P = psi g s1 P) ∨
      (phi g s2 w < phi g s1 w ∧ ((s1.wd w).path.length = 1 → 0 < nU g s1 → psi g s2 P < psi g s1 P))) :
    mu g s2 w P < mu g s0 w P := by
  have hpsi01 : psi g s1 P = psi g s0 P := psi_congr g s0 s1 P (fun c => picks_of_regs s0 s1 hregs01 c)
  have hphi01 : phi g s1 w = phi g s0 w := phi_congr g s0 s1 w hregs01 hpath01
  have hp2 : pend g s2 w ≤ 1 := by unfold pend; split <;> omega
  have hp2' : pend g s2 w = 1 → 0 < nU g s2 := by
    intro hx; unfold pend at hx
    split at hx
    · rename_i hb; exact nU_pos_of_pend g s2 w hb
    · cases hx
  have hp0 : (pend g s0 w = 1 ∧ pendB g s0 w = true) ∨ (pend g s0 w = 0 ∧ pendB g s0 w = false) := by
    unfold pend; cases pendB g s0 w <;> simp
  -- what equality of the first components means
  have hAeq : 2 * nU g s2 - pend g s2 w = 2 * nU g s0 - pend g s0 w →
      pendB g s0 w = false ∧ nU g s2 = nU g s0 ∧ nU g s1 = nU g s0 := by
    intro he
    rcases hp0 with ⟨h1, h2⟩ | ⟨h1, h2⟩
    · have := hpend0 h2; omega
    · refine ⟨h2, ?_, ?_⟩
      · by_cases hx : pend g s2 w = 1
        · have := hp2' hx; omega
        · omega
      · by_cases hx : pend g s2 w = 1
        · have := hp2' hx; omega
        · omega
  unfold mu
  apply lex4_lt
  · have := psi_le g s2 P; omega
  · exact chi_le g s2 w
  · exact phi_lt_bound g d hr s2 w hwalk2
  · rcases hp0 with ⟨h1, h2⟩ | ⟨h1, h2⟩
    · have := hpend0 h2; omega
    · omega
  · intro _; omega
  · intro he hpe
    obtain ⟨_, hn20, hn10⟩ := hAeq he
    rcases hout with ⟨_, _, hp2r, _⟩ | ⟨_, hrp⟩
    · rw [chi_root g s2 w hp2r]; omega
    · by_cases hz0 : nU g s0 = 0
      · rw [chi_zero g s2 w (by omega)]; omega
      · by_cases hroot : (s0.wd w).path = [g.root]
        · have := hrp (by rw [hpath01, hroot]; rfl) (by omega)
          omega
        · rw [chi_one g s0 w (by omega) hroot]
          have := chi_le g s2 w
          omega
  · intro he hpe hce
    rcases hout with ⟨hfl, hlen, hp2r, _⟩ | ⟨hphi, _⟩
    · exfalso
      have h1 := hflag hfl hlen
      have hroot : (s0.wd w).path ≠ [g.root] := by
        intro hx; rw [hpath01, hx] at hlen; simp at hlen
      rw [chi_root g s2 w hp2r, chi_one g s0 w h1 hroot] at hce
      cases hce
    · omega

/-- the invariant after the expansion step -/
theorem linv_prepare (g : Graph) (d : Nat → Nat) (hz : LazyOK g) (w P : Nat) (s : State) (h : LInv g d w P s)
    (hw : w < s.workers.length) (hne : (s.wd w).path ≠ []) :
    LInv g d w P (prepare g s w) ∧ pendB g (prepare g s w) w = false ∧ nU g (prepare g s w) ≤ nU g s ∧
    (pendB g s w = true → nU g (prepare g s w) < nU g s) ∧
    (((prepare g s w).wd w).unexplored = true → 0 < nU g s) := by
  obtain ⟨p1, p2, p3, p4, p5, p6, p7, p8⟩ := prepare_lazy g hz.kids s w hw hne
  have htop : top (prepare g s w) w = top s w := by unfold top; rw [p4]
  have hsub : ∀ x, (prepare g s w).hidden.contains x = true → s.hidden.contains x = true := by
    intro x hx
    rw [List.contains_iff_mem] at hx ⊢
    exact p6 x hx
  have hnc : ∀ x, s.hidden.contains x = false → (prepare g s w).hidden.contains x = false := by
    intro x hx
    cases hc : (prepare g s w).hidden.contains x
    · rfl
    · rw [hsub x hc] at hx; cases hx
  have hmono : ∀ f, unexpl g (prepare g s w) f = true → unexpl g s f = true := unexpl_mono g s _ p6 p7
  have hlast := last_of_top s w hne
  have hexp : pendB g s w = true → unexpl g (prepare g s w) (top s w) = false := by
    intro hb
    unfold pendB at hb
    simp only [Bool.and_eq_true, decide_eq_true_eq] at hb
    exact p8 (top s w) hlast hb.2.1 hb.2.2 (h.vflat _ (unexpl_flat g s _ hb.2.2).1)
  refine ⟨⟨by rw [p2]; exact h.nodesLen, fun n hn => by rw [p1]; exact h.cls n hn, by rw [p4]; exact h.walk,
    by rw [p4]; exact h.head, hnc _ h.vroot, fun f hf => hnc _ (h.vflat f hf),
    fun f hf => hnc _ (h.vedge f hf), ?_, ?_⟩, ?_, nU_mono g s _ p6 p7, ?_, ?_⟩
  · intro f hfN hfu
    rw [dropped_of_regs s _ p1]
    exact h.avail f hfN (hmono f hfu)
  · intro f hfN hfu
    rw [picks_of_regs s _ p1, p4, htop]
    exact h.low f hfN (hmono f hfu)
  · -- nothing is pending after the step
    cases hb : pendB g (prepare g s w) w
    · rfl
    · exfalso
      unfold pendB at hb
      simp only [Bool.and_eq_true, decide_eq_true_eq] at hb
      rw [htop, p4] at hb
      have hb0 : pendB g s w = true := by
        unfold pendB
        simp only [Bool.and_eq_true, decide_eq_true_eq]
        exact ⟨hb.1, hb.2.1, hmono _ hb.2.2⟩
      rw [hexp hb0] at hb
      cases hb.2.2
  · intro hb
    have hb' := hb
    unfold pendB at hb'
    simp only [Bool.and_eq_true, decide_eq_true_eq] at hb'
    exact nU_lt g s _ p6 p7 (top s w) hb'.2.1 hb'.2.2 (hexp hb)
  · intro hfl
    rw [p5] at hfl
    unfold nU
    cases hq : unexploredNodes (vis g s) s with
    | nil => rw [hq] at hfl; simp at hfl
    | cons _ _ => simp

/-- **one `.cont` iteration on a lazily expanded graph** lowers the measure `mu` and keeps the invariant -/
theorem iterL_lazy (g : Graph) (d : Nat → Nat) (hr : Ranked g d) (hsym : EdgeSym g) (hz : LazyOK g) (w P : Nat)
    (s : State) (h : LInv g d w P s) (hc : (iterL g s w).2.2 = .cont) :
    mu g (iterL g s w).1 w P < mu g s w P ∧ LInv g d w P (iterL g s w).1 := by
  have hne : (s.wd w).path ≠ [] := by intro h0; have := h.head; rw [h0] at this; simp at this
  have hw : w < s.workers.length := lt_of_path_ne_nil s w hne
  unfold iterL at hc ⊢
  split at hc
  · rename_i hcond
    simp only [hcond, if_true]
    have hlen : (s.wd w).path.length < 2 := by
      by_cases h2 : 2 ≤ (s.wd w).path.length
      · exfalso
        have : isCleanupReady (vis g s) s (vis g s).root w = true := by
          rw [vis_root]
          simp only [Bool.or_eq_true, decide_eq_true_eq] at hcond
          rcases hcond with h0 | h0
          · exact h0
          · omega
        exact iter_rootReady _ s w this hc
      · omega
    obtain ⟨k, hl2, hpsi, hout⟩ := iter_lazy g d hr hsym hz w P s h (pendB_false_of_len g s w hlen) hc
    refine ⟨mu_step g d hr w P s s _ rfl rfl (Nat.le_refl _) (fun hb => ?_) (nU_congr g s _ k.hidden k.incompatible)
      hl2.walk hpsi (fun _ h2 => by omega) hout, hl2⟩
    rw [pendB_false_of_len g s w hlen] at hb; cases hb
  · rename_i hcond
    simp only [hcond, Bool.false_eq_true, if_false]
    dsimp only at hc ⊢
    obtain ⟨l1, q1, q2, q3, q4⟩ := linv_prepare g d hz w P s h hw hne
    obtain ⟨p1, _, _, p4, _⟩ := prepare_lazy g hz.kids s w hw hne
    obtain ⟨k, hl2, hpsi, hout⟩ := iter_lazy g d hr hsym hz w P (prepare g s w) l1 q1 hc
    exact ⟨mu_step g d hr w P s (prepare g s w) _ (p4 w) p1 q2 q3
      (nU_congr g (prepare g s w) _ k.hidden k.incompatible) hl2.walk hpsi (fun hfl _ => q4 hfl) hout, hl2⟩



/-! ### the loop on lazily expanded graphs -/

theorem linv_setLoop {g : Graph} {d : Nat → Nat} {w P : Nat} {s : State} (h : LInv g d w P s) :
    LInv g d w P (s.setWd w (fun d => { d with pc := .loop })) ∧
      mu g (s.setWd w (fun d => { d with pc := .loop })) w P = mu g s w P := by
  have hp : ((s.setWd w (fun d => { d with pc := .loop })).wd w).path = (s.wd w).path :=
    wd_setWd_proj (·.path) s w (fun d => { d with pc := .loop }) (fun _ => rfl) w
  have htop : top (s.setWd w (fun d => { d with pc := .loop })) w = top s w := by unfold top; rw [hp]
  have hun : ∀ f, unexpl g (s.setWd w (fun d => { d with pc := .loop })) f = unexpl g s f :=
    fun f => unexpl_congr g s _ rfl rfl f
  have hnU : nU g (s.setWd w (fun d => { d with pc := .loop })) = nU g s := nU_congr g s _ rfl rfl
  refine ⟨⟨h.nodesLen, h.cls, by rw [hp]; exact h.walk, by rw [hp]; exact h.head, h.vroot, h.vflat, h.vedge, ?_, ?_⟩, ?_⟩
  · intro f hfN hfu
    rw [dropped_setWd]; exact h.avail f hfN (by rw [← hun]; exact hfu)
  · intro f hfN hfu
    rw [picks_setWd, hp, htop]; exact h.low f hfN (by rw [← hun]; exact hfu)
  · have hpend : pend g (s.setWd w (fun d => { d with pc := .loop })) w = pend g s w := by
      unfold pend pendB; rw [hp, htop, hun]
    have hpsi : psi g (s.setWd w (fun d => { d with pc := .loop })) P = psi g s P := psi_congr g s _ P (fun _ => rfl)
    have hchi : chi g (s.setWd w (fun d => { d with pc := .loop })) w = chi g s w := by
      unfold chi; rw [hnU, hp]
    unfold mu
    rw [hnU, hpend, hpsi, hchi, phi_congr g s (s.setWd w (fun d => { d with pc := .loop })) w rfl hp]

/-- with more fuel than the measure the loop ends by itself, also while flat nodes are unexplored -/
theorem runLoopO_lazy (g : Graph) (d : Nat → Nat) (hr : Ranked g d) (hsym : EdgeSym g) (hz : LazyOK g) (w P : Nat)
    (fuel : Nat) (s : State) (evs : List Event) (h : LInv g d w P s) (hf : mu g s w P < fuel) :
    (runLoopO g w fuel s evs).isSome = true := by
  induction fuel generalizing s evs with
  | zero => omega
  | succ fuel ih =>
    unfold runLoopO
    dsimp only
    obtain ⟨h0, hm0⟩ := linv_setLoop h
    split
    · next s1 e heq =>
      have hc : (iterL g (s.setWd w (fun d => { d with pc := .loop })) w).2.2 = .cont := by rw [heq]
      obtain ⟨h1, h2⟩ := iterL_lazy g d hr hsym hz w P _ h0 hc
      rw [heq] at h1 h2
      exact ih s1 _ h2 (by dsimp only at h1; omega)
    · rfl
    · rfl
    · rfl

/-- explicit bound for a level `P` of the pick counters -/
def lazyBound (g : Graph) (P : Nat) : Nat :=
  ((2 * g.nodes.length * ((rootKids g).length * P + 1) + (rootKids g).length * P) * 2 + 2) * bound g

theorem nU_le (g : Graph) (s : State) : nU g s ≤ g.nodes.length := by
  unfold nU
  rw [unexploredNodes_eq]
  have := List.length_filter_le (unexpl g s) (List.range g.nodes.length)
  simpa using this

theorem mu_lt_lazyBound (g : Graph) (d : Nat → Nat) (hr : Ranked g d) (w P : Nat) (s : State)
    (hwalk : Walk g d (s.wd w).path) : mu g s w P < lazyBound g P := by
  unfold mu lazyBound
  have h1 := nU_le g s
  have h2 := psi_le g s P
  have h3 := chi_le g s w
  have h4 := phi_lt_bound g d hr s w hwalk
  have hA : (2 * nU g s - pend g s w) * ((rootKids g).length * P + 1) ≤
      2 * g.nodes.length * ((rootKids g).length * P + 1) := Nat.mul_le_mul_right _ (by omega)
  have hX : ((2 * nU g s - pend g s w) * ((rootKids g).length * P + 1) + psi g s P) * 2 + chi g s w + 1 ≤
      (2 * g.nodes.length * ((rootKids g).length * P + 1) + (rootKids g).length * P) * 2 + 2 := by omega
  have hB := Nat.mul_le_mul_right (bound g) hX
  rw [Nat.add_mul, Nat.one_mul] at hB
  omega

/-- a level above all pick counters -/
def pickLevel (g : Graph) (s : State) : Nat := 1 + ((List.range g.nodes.length).map (fun f => picks s (g.node f).cls)).sum

theorem le_sum_of_mem (l : List Nat) (F : Nat → Nat) (a : Nat) (ha : a ∈ l) : F a ≤ (l.map F).sum := by
  induction l with
  | nil => simp at ha
  | cons b r ih =>
    simp only [List.map_cons, List.sum_cons]
    rcases List.mem_cons.mp ha with h | h
    · subst h; omega
    · have := ih h; omega

/-- the state hypotheses for lazily expanded graphs (everything in `LInv` but the level, which can always be chosen) -/
structure LState (g : Graph) (d : Nat → Nat) (w : Nat) (s : State) : Prop where
  nodesLen : s.nodes.length = g.nodes.length
  cls : ClsOK g s
  walk : Walk g d (s.wd w).path
  head : (s.wd w).path.head? = some g.root
  vroot : s.hidden.contains g.root = false
  vflat : ∀ f, (g.node f).flat = true → s.hidden.contains f = false
  vedge : ∀ f, (g.node f).flat = true → s.hidden.contains (edgeCode g g.root f) = false
  avail : ∀ f, f < g.nodes.length → unexpl g s f = true →
    dropped s w (false, (g.node g.root).cls, (g.node f).cls) = false

theorem LState.linv {g : Graph} {d : Nat → Nat} {w : Nat} {s : State} (h : LState g d w s) :
    LInv g d w (pickLevel g s) s :=
  ⟨h.nodesLen, h.cls, h.walk, h.head, h.vroot, h.vflat, h.vedge, h.avail, fun f hfN _ => Or.inl (by
    unfold pickLevel
    have := le_sum_of_mem (List.range g.nodes.length) (fun f => picks s (g.node f).cls) f (List.mem_range.mpr hfN)
    omega)⟩

/-- **Termination between two suspension points on lazily expanded graphs** (no `Explored` hypothesis): the loop ends
by itself within `lazyBound g (pickLevel g s)` iterations -/
theorem runLoop_terminates_lazy (g : Graph) (d : Nat → Nat) (hr : Ranked g d) (hsym : EdgeSym g) (hz : LazyOK g) (w : Nat)
    (s : State) (evs : List Event) (h : LState g d w s) (fuel : Nat) (hf : lazyBound g (pickLevel g s) ≤ fuel) :
    ∃ r, runLoopO g w (lazyBound g (pickLevel g s)) s evs = some r ∧ runLoop g w fuel s evs = r := by
  have hs := runLoopO_lazy g d hr hsym hz w (pickLevel g s) (lazyBound g (pickLevel g s)) s evs h.linv
    (mu_lt_lazyBound g d hr w _ s h.walk)
  obtain ⟨r, hr'⟩ := Option.isSome_iff_exists.mp hs
  exact ⟨r, hr', runLoop_of_runLoopO g w _ s evs r hr' fuel hf⟩

/-- the initial state of a lazily expanded graph whose flat nodes and root are parsed -/
theorem lstate_init (g : Graph) (d : Nat → Nat) (ncls : Nat) (store : List (String × List (String × String)))
    (hidden : List Nat) (hcls : ∀ n, n < g.nodes.length → (g.node n).cls < ncls)
    (hroot : hidden.contains g.root = false) (hflat : ∀ f, (g.node f).flat = true → hidden.contains f = false)
    (hedge : ∀ f, (g.node f).flat = true → hidden.contains (edgeCode g g.root f) = false)
    (w : Nat) (hw : w < g.workers.length) : LState g d w (initState g ncls store hidden) := by
  have hwd : (initState g ncls store hidden).wd w = { path := [g.root] } := by
    unfold initState State.wd
    simp only [List.getD_eq_getElem?_getD, List.getElem?_map, List.getElem?_eq_getElem hw]
    rfl
  refine ⟨by simp [initState], clsOK_init g ncls store hidden hcls, by rw [hwd]; exact walk_root g d g.root,
    by rw [hwd]; rfl, hroot, hflat, hedge, ?_⟩
  intro f _ _
  unfold dropped State.cr initState
  simp only [Bool.false_eq_true, if_false, List.getD_eq_getElem?_getD, List.getElem?_map]
  cases (List.range ncls)[(g.node g.root).cls]? <;> rfl



/-- decidable form of `LazyOK` -/
def lazyOKB (g : Graph) : Bool :=
  (List.range g.nodes.length).all (fun f =>
    (!(g.node f).flat || (g.node f).cleanup.all (fun e => strIn (g.node f).setless (g.nodeId e.1))) &&
    (!((g.node f).flat && !(g.node f).sharedRoot) || (rootKids g).contains f) &&
    (!(g.node f).flat || (List.range g.nodes.length).all (fun m => !((g.node m).cls == (g.node f).cls) || m == f)))

theorem node_flat_of_ge (g : Graph) (f : Nat) (h : ¬ f < g.nodes.length) : (g.node f).flat = false := by
  unfold Graph.node
  rw [List.getD_eq_getElem?_getD, List.getElem?_eq_none (by omega)]
  rfl

theorem lazyOKB_sound {g : Graph} (h : lazyOKB g = true) : LazyOK g := by
  unfold lazyOKB at h
  rw [List.all_eq_true] at h
  refine ⟨?_, ?_, ?_⟩
  · intro f c hf hc
    have hfN : f < g.nodes.length := by
      by_cases hx : f < g.nodes.length
      · exact hx
      · rw [node_flat_of_ge g f hx] at hf; cases hf
    have h1 := h f (List.mem_range.mpr hfN)
    simp only [Bool.and_eq_true, Bool.or_eq_true, Bool.not_eq_true'] at h1
    rcases h1.1.1 with h2 | h2
    · rw [hf] at h2; cases h2
    · rw [List.all_eq_true] at h2
      obtain ⟨e, he, hec⟩ := List.mem_map.mp hc
      rw [← hec]; exact h2 e he
  · intro f hfN hf hsr
    have h1 := h f (List.mem_range.mpr hfN)
    simp only [Bool.and_eq_true, Bool.or_eq_true, Bool.not_eq_true'] at h1
    rcases h1.1.2 with h2 | h2
    · rw [hf, hsr] at h2; simp at h2
    · unfold rootKids at h2
      exact List.contains_iff_mem.mp h2
  · intro f m hfN hmN hf hcls
    have h1 := h f (List.mem_range.mpr hfN)
    simp only [Bool.and_eq_true, Bool.or_eq_true, Bool.not_eq_true'] at h1
    rcases h1.2 with h2 | h2
    · rw [hf] at h2; cases h2
    · rw [List.all_eq_true] at h2
      have h3 := h2 m (List.mem_range.mpr hmN)
      simp only [Bool.or_eq_true, Bool.not_eq_true', beq_eq_false_iff_ne, beq_iff_eq] at h3
      rcases h3 with h3 | h3
      · exact absurd hcls h3
      · exact h3

theorem picks_init (g : Graph) (ncls : Nat) (store : List (String × List (String × String))) (hidden : List Nat) (c : Nat) :
    picks (initState g ncls store hidden) c = 0 := by
  unfold picks State.cr initState
  simp only [List.getD_eq_getElem?_getD, List.getElem?_map]
  cases (List.range ncls)[c]? <;> rfl

theorem pickLevel_init (g : Graph) (ncls : Nat) (store : List (String × List (String × String))) (hidden : List Nat) :
    pickLevel g (initState g ncls store hidden) = 1 := by
  unfold pickLevel
  have : ∀ l : List Nat, (l.map (fun f => picks (initState g ncls store hidden) (g.node f).cls)).sum = 0 := by
    intro l
    induction l with
    | nil => rfl
    | cons a r ih => rw [List.map_cons, List.sum_cons, ih, picks_init]
  rw [this]



/-- the paths after each of the first `k` `.cont` iterations (for the examples) -/
def tracePaths (g : Graph) (w : Nat) : Nat → State → List (List Nat)
  | 0, _ => []
  | k + 1, s =>
    match iterL g (s.setWd w (fun d => { d with pc := .loop })) w with
    | (s1, _, .cont) => (s1.wd w).path :: tracePaths g w k s1
    | _ => []


/-! ## lazily expanded graphs: the state hypotheses hold in every reachable state -/

/-- worker `w` has not dropped an unexplored flat node from the root -/
def AvW (g : Graph) (w : Nat) (s : State) : Prop :=
  ∀ f, f < g.nodes.length → unexpl g s f = true → dropped s w (false, (g.node g.root).cls, (g.node f).cls) = false

/-- the root and the flat nodes are parsed, and the flat nodes hang below the root -/
def HidOK (g : Graph) (s : State) : Prop :=
  s.hidden.contains g.root = false ∧ (∀ f, (g.node f).flat = true → s.hidden.contains f = false) ∧
  ∀ f, (g.node f).flat = true → s.hidden.contains (edgeCode g g.root f) = false

theorem HidOK.mono {g : Graph} {s s' : State} (h : HidOK g s) (hh : ∀ x, x ∈ s'.hidden → x ∈ s.hidden) : HidOK g s' := by
  have key : ∀ x, s.hidden.contains x = false → s'.hidden.contains x = false := by
    intro x hx
    cases hc : s'.hidden.contains x
    · rfl
    · have := hh x (List.contains_iff_mem.mp hc)
      rw [List.contains_iff_mem.mpr this] at hx; cases hx
  exact ⟨key _ h.1, fun f hf => key _ (h.2.1 f hf), fun f hf => key _ (h.2.2 f hf)⟩

/-- a piece of a step whose new drops of `w` concern the class of a node that is not an unexplored flat node afterwards -/
theorem avW_of_loc {g : Graph} (hz : LazyOK g) {w : Nat} {s s' : State} (n : Nat) (hn : n < g.nodes.length)
    (a : Loc w (fun k => k.2.2 = (g.node n).cls) s s') (hav : AvW g w s) (hnot : unexpl g s' n = false) : AvW g w s' := by
  intro f hfN hfu
  cases hd : dropped s' w (false, (g.node g.root).cls, (g.node f).cls)
  · rfl
  · exfalso
    rcases a.drops w _ hd with h1 | ⟨_, h1⟩
    · rw [hav f hfN (unexpl_mono g s s' a.hiddenSub a.incSub f hfu)] at h1; cases h1
    · simp only at h1
      have := hz.clsUniq f n hfN hn (unexpl_flat g s' f hfu).1 h1.symm
      rw [this] at hnot
      rw [hnot] at hfu; cases hfu

/-- a piece of a step without new drops of `w` -/
theorem avW_of_same {g : Graph} {w : Nat} {s s' : State} (hh : ∀ x, x ∈ s'.hidden → x ∈ s.hidden)
    (hi : ∀ x, x ∈ s.incompatible → x ∈ s'.incompatible) (hd : ∀ k, dropped s' w k = dropped s w k)
    (hav : AvW g w s) : AvW g w s' := by
  intro f hfN hfu
  rw [hd]
  exact hav f hfN (unexpl_mono g s s' hh hi f hfu)

theorem iter_rootReady_dropped (gv : Graph) (s : State) (w : Nat) (h : isCleanupReady gv s gv.root w = true) (u : Nat) (k : Key) :
    dropped (iter gv s w).1 u k = dropped s u k := by
  unfold iter
  dsimp only
  simp only [h, if_true]
  split <;> rfl

theorem iter_short_dropped (gv : Graph) (s : State) (w : Nat) (h : (s.wd w).path.length ≤ 1) (u : Nat) (k : Key) :
    dropped (iter gv s w).1 u k = dropped s u k := by
  unfold iter
  dsimp only
  split
  · split <;> rfl
  · cases hl : (s.wd w).path.getLast? with
    | none => rfl
    | some next =>
      dsimp only
      split
      · cases hpk : pickChild gv s next w with
        | none => rfl
        | some r =>
          obtain ⟨c, s3⟩ := r
          dsimp only
          obtain ⟨_, _, hs3⟩ := pickChild_spec _ s next w c s3 hpk
          unfold pushPath
          rw [dropped_setWd, hs3, dropped_setCr_pickS]
      · rename_i hne1
        exfalso
        have : (s.wd w).path ≠ [] := by intro h0; rw [h0] at hl; simp at hl
        have h0 := List.length_pos_iff.mpr this
        simp at hne1
        omega

/-- one iteration keeps "no unexplored flat node dropped from the root" for the worker -/
theorem iterL_av (g : Graph) (d : Nat → Nat) (hr : Ranked g d) (hsym : EdgeSym g) (hz : LazyOK g) (s : State) (w : Nat)
    (hwalk : Walk g d (s.wd w).path) (hpc : (s.wd w).pc = .loop) (hhid : HidOK g s) (hav : AvW g w s) :
    AvW g w (iterL g s w).1 := by
  by_cases hlen : (s.wd w).path.length ≤ 1
  · -- at the root (or nowhere): nothing is dropped
    have hcond : (isCleanupReady (vis g s) s g.root w || decide ((s.wd w).path.length ≤ 1)) = true := by simp [hlen]
    obtain ⟨a, _, _⟩ := iter_any (D := DT) g d hr hsym s w hwalk hpc (fun _ _ _ _ => trivial)
    unfold iterL
    simp only [hcond, if_true]
    exact avW_of_same a.hiddenSub a.incSub (fun k => iter_short_dropped _ s w hlen w k) hav
  · have hlen2 : 2 ≤ (s.wd w).path.length := by omega
    have hne : (s.wd w).path ≠ [] := by intro h0; rw [h0] at hlen2; simp at hlen2
    have hw : w < s.workers.length := lt_of_path_ne_nil s w hne
    have hl := last_of_top s w hne
    have htN : top s w < g.nodes.length := walk_top_lt g d _ _ hwalk hl hlen2
    by_cases hcond : (isCleanupReady (vis g s) s g.root w || decide ((s.wd w).path.length ≤ 1)) = true
    · have hrr : isCleanupReady (vis g s) s (vis g s).root w = true := by
        rw [vis_root]
        simp only [Bool.or_eq_true, decide_eq_true_eq] at hcond
        rcases hcond with h0 | h0
        · exact h0
        · omega
      obtain ⟨a, _, _⟩ := iter_any (D := DT) g d hr hsym s w hwalk hpc (fun _ _ _ _ => trivial)
      unfold iterL
      simp only [hcond, if_true]
      exact avW_of_same a.hiddenSub a.incSub (fun k => iter_rootReady_dropped _ s w hrr w k) hav
    · unfold iterL
      simp only [hcond, Bool.false_eq_true, if_false]
      obtain ⟨p1, _, _, p4, _, p6, p7, p8⟩ := prepare_lazy g hz.kids s w hw hne
      -- after the expansion step the last node of the path is not unexplored
      have hnot1 : unexpl g (prepare g s w) (top s w) = false := by
        cases hu : unexpl g (prepare g s w) (top s w)
        · rfl
        · have hu0 := unexpl_mono g s _ p6 p7 _ hu
          rw [p8 (top s w) hl htN hu0 (hhid.2.1 _ (unexpl_flat g s _ hu0).1)] at hu
          cases hu
      have hav1 : AvW g w (prepare g s w) := avW_of_same p6 p7 (fun k => dropped_of_regs s _ p1 w k) hav
      obtain ⟨pa, pb, pc⟩ := prepare_loc (D := DT) g s w
      obtain ⟨a, _, _⟩ := iter_any (D := fun k => k.2.2 = (g.node (top s w)).cls) g d hr hsym (prepare g s w) w
        (by rw [pb]; exact hwalk) (by rw [pc]; exact hpc)
        (fun next hln k hk => by
          rw [pb, hl] at hln
          simp only [Option.some.injEq] at hln
          rw [hln]; exact hk)
      refine avW_of_loc hz (top s w) htN a hav1 ?_
      cases hu : unexpl g (iter (vis g (prepare g s w)) (prepare g s w) w).1 (top s w)
      · rfl
      · rw [unexpl_mono g _ _ a.hiddenSub a.incSub _ hu] at hnot1; cases hnot1


theorem avW_setWd {g : Graph} {w : Nat} {s : State} (f : WorkerD → WorkerD) (hav : AvW g w s) : AvW g w (s.setWd w f) :=
  avW_of_same (fun _ h => h) (fun _ h => h) (fun k => dropped_setWd s w f w k) hav

theorem hidOK_setWd {g : Graph} {s : State} (w : Nat) (f : WorkerD → WorkerD) (h : HidOK g s) : HidOK g (s.setWd w f) := h

theorem runLoop_av (g : Graph) (d : Nat → Nat) (hr : Ranked g d) (hsym : EdgeSym g) (hz : LazyOK g) (w : Nat) (fuel : Nat)
    (s : State) (evs : List Event) (hwalk : Walk g d (s.wd w).path) (hhid : HidOK g s) (hav : AvW g w s) :
    AvW g w (runLoop g w fuel s evs).1 := by
  induction fuel generalizing s evs with
  | zero => exact hav
  | succ fuel ih =>
    unfold runLoop
    dsimp only
    have hp0 : ((s.setWd w (fun d => { d with pc := .loop })).wd w).path = (s.wd w).path :=
      wd_setWd_proj (·.path) s w (fun d => { d with pc := .loop }) (fun _ => rfl) w
    have hpc0 : ((s.setWd w (fun d => { d with pc := .loop })).wd w).pc = .loop := by
      rcases pc_setLoop s w with h | h
      · exact h
      · rw [wd_of_ge _ w (by simp [State.setWd]; omega)]
    have hav0 : AvW g w (s.setWd w (fun d => { d with pc := .loop })) := avW_setWd _ hav
    have hw0 : Walk g d ((s.setWd w (fun d => { d with pc := .loop })).wd w).path := by rw [hp0]; exact hwalk
    have h1 := iterL_av g d hr hsym hz _ w hw0 hpc0 (hidOK_setWd w _ hhid) hav0
    obtain ⟨a, h2, _⟩ := iterL_any (D := DT) g d hr hsym _ w hw0 hpc0 (fun _ _ _ _ => trivial)
    split
    · next s1 e heq =>
      rw [heq] at h1 h2 a
      exact ih s1 _ h2 (HidOK.mono (hidOK_setWd w _ hhid) a.hiddenSub) h1
    · next s1 e heq => rw [heq] at h1; exact h1
    · next s1 e heq => rw [heq] at h1; exact h1
    · next s1 e what heq => rw [heq] at h1; exact avW_setWd _ h1

theorem avW_of_noDrops {g : Graph} {w : Nat} {s s' : State} (a : Loc w (fun _ => False) s s') (hav : AvW g w s) : AvW g w s' := by
  intro f hfN hfu
  cases hd : dropped s' w (false, (g.node g.root).cls, (g.node f).cls)
  · rfl
  · rcases a.drops w _ hd with h1 | ⟨_, h1⟩
    · rw [hav f hfN (unexpl_mono g s s' a.hiddenSub a.incSub f hfu)] at h1; cases h1
    · exact absurd h1 id

theorem unexpl_of_not_flat (g : Graph) (s : State) (n : Nat) (h : (g.node n).flat = false) : unexpl g s n = false := by
  unfold unexpl; rw [h]; rfl

theorem continueAfter_av (g : Graph) (d : Nat → Nat) (hr : Ranked g d) (hsym : EdgeSym g) (hz : LazyOK g) (w n : Nat)
    (phase : Phase) (dir : Dir) (fuel : Nat) (s : State) (ok : Bool) (evs : List Event)
    (hw : w < s.workers.length) (hlast : (s.wd w).path.getLast? = some n) (hlen : 2 ≤ (s.wd w).path.length)
    (hwalk : Walk g d (s.wd w).path)
    (hdir : dir = .down → isUp g ((s.wd w).path.getD ((s.wd w).path.length - 2) 0) n = false)
    (hnf : (g.node n).flat = false) (hhid : HidOK g s) (hav : AvW g w s) :
    AvW g w (resumeTest.continueAfter g w n phase dir fuel s ok evs).1 := by
  have hnN : n < g.nodes.length := walk_top_lt g d _ n hwalk hlast hlen
  unfold resumeTest.continueAfter
  dsimp only
  split
  · obtain ⟨h1, _, _⟩ := startTest_own (D := fun _ => False) g s n w .main dir hw
    exact avW_of_noDrops h1 hav
  · have a2 : LW w (fun k => k.2.2 = (g.node n).cls) s (if (phase == Phase.pre) = true then
          s.setNd n (fun d => { d with results := d.results ++ (s.wd w).preResults.drop d.results.length })
        else s) := by
      split
      · exact (fr_setNd s n _).lw w
      · exact LW.refl w s
    have aF := a2.trans ((fr_finishTraverse _ n w).lw w)
    generalize finishTraverse (if (phase == Phase.pre) = true then
          s.setNd n (fun d => { d with results := d.results ++ (s.wd w).preResults.drop d.results.length })
        else s) n w = sF at aF
    obtain ⟨h1, h2, _⟩ := afterTraverse_any g d hr hsym sF sF w n ((s.wd w).path.getD ((s.wd w).path.length - 2) 0) dir
      (by rw [aF.workersLen]; exact hw) (by rw [aF.own]; exact hlast) (by rw [aF.own]) (by rw [aF.own]; exact hwalk) hdir
      (D := fun k => k.2.2 = (g.node n).cls) (fun _ hk => hk)
    generalize afterTraverse (vis g sF) sF w n ((s.wd w).path.getD ((s.wd w).path.length - 2) 0) dir = r at h1 h2
    obtain ⟨s1, e2, fl⟩ := r
    dsimp only at h1 h2
    have hav1 : AvW g w s1 := avW_of_loc hz n hnN (aF.toLoc.trans h1) hav (unexpl_of_not_flat g s1 n hnf)
    have hhid1 : HidOK g s1 := HidOK.mono hhid (aF.toLoc.trans h1).hiddenSub
    cases fl with
    | raise what => exact avW_setWd _ hav1
    | cont => exact runLoop_av g d hr hsym hz w fuel s1 _ h2 hhid1 hav1
    | suspend => exact runLoop_av g d hr hsym hz w fuel s1 _ h2 hhid1 hav1
    | exit => exact runLoop_av g d hr hsym hz w fuel s1 _ h2 hhid1 hav1

theorem resumeTest_av (g : Graph) (d : Nat → Nat) (hr : Ranked g d) (hsym : EdgeSym g) (hz : LazyOK g) (s : State) (w n : Nat)
    (phase : Phase) (dir : Dir) (uid : String) (tag wait : Nat) (out : Outcome) (fuel : Nat)
    (hw : w < s.workers.length) (hlast : (s.wd w).path.getLast? = some n) (hlen : 2 ≤ (s.wd w).path.length)
    (hwalk : Walk g d (s.wd w).path)
    (hdir : dir = .down → isUp g ((s.wd w).path.getD ((s.wd w).path.length - 2) 0) n = false)
    (hnf : (g.node n).flat = false) (hhid : HidOK g s) (hav : AvW g w s) :
    AvW g w (resumeTest g s w n phase dir uid tag wait out fuel).1 := by
  rw [resumeTest_eq]
  have aA := reportOutcome_lw (D := fun _ => False) g s w n phase uid wait out
  have havA : AvW g w (reportOutcome g s w n phase uid wait out).1 := avW_of_noDrops aA.toLoc hav
  have hhidA : HidOK g (reportOutcome g s w n phase uid wait out).1 := HidOK.mono hhid aA.hiddenSub
  generalize (reportOutcome g s w n phase uid wait out).1 = sa at aA havA hhidA
  have hwA : w < sa.workers.length := by rw [aA.workersLen]; exact hw
  split
  · next st0 dur _ =>
    obtain ⟨b1, b2, b3⟩ := recordResult_loc (D := fun _ => False) sa w n phase
      (if (phase == Phase.pre) = true then (s.wd w).preName else (g.node n).name) uid tag st0 dur
    rw [aA.own] at b2 b3
    exact continueAfter_av g d hr hsym hz w n phase dir fuel _ _ _ (by rw [b1.workersLen]; exact hwA)
      (by rw [b2]; exact hlast) (by rw [b2]; exact hlen) (by rw [b2]; exact hwalk) (by rw [b2]; exact hdir) hnf
      (HidOK.mono hhidA b1.hiddenSub) (avW_of_noDrops b1 havA)
  · split
    · exact avW_setWd _ havA
    · split
      · exact avW_setWd _ havA
      · exact continueAfter_av g d hr hsym hz w n phase dir fuel sa false _ hwA
          (by rw [aA.own]; exact hlast) (by rw [aA.own]; exact hlen) (by rw [aA.own]; exact hwalk)
          (by rw [aA.own]; exact hdir) hnf hhidA havA

/-- the scheduler step as a whole: what it does outside the worker's own record -/
theorem resume_loc (g : Graph) (d : Nat → Nat) (hr : Ranked g d) (hsym : EdgeSym g) (s : State) (w : Nat) (out : Outcome)
    (fuel : Nat) (hf : 0 < fuel) (hw : w < g.workers.length) (hp : PInv g s) (h : TInv g d s) :
    Loc w DT s (resume g s w out fuel).1 := by
  have hws : w < s.workers.length := by rw [hp.wlen]; exact hw
  unfold resume
  split
  · exact (runLoop_any g d hr hsym w fuel s [] (h.walk w) (fun h0 => by omega)).1
  · exact (runLoop_any g d hr hsym w fuel s [] (h.walk w) (fun h0 => by omega)).1
  · next n phase dir uid tag wait heq =>
    obtain ⟨_, hlast, _⟩ := hp.testOwn w n (by rw [heq]; rfl)
    exact (resumeTest_any g d hr hsym s w n phase dir uid tag wait out fuel hf hws hlast (h.walk w)
      (fun hdn => (h.dir w).1 n phase uid tag wait (by rw [heq, hdn]) n hlast)
      ((h.dir w).2 n phase dir uid tag wait heq)).1
  · exact Loc.refl w s
  · exact Loc.refl w s

/-- the invariant of lazily expanded graphs -/
structure ZInv (g : Graph) (d : Nat → Nat) (s : State) : Prop where
  tinv : TInv g d s
  hid : HidOK g s
  av : ∀ u, AvW g u s

theorem resume_zinv (g : Graph) (d : Nat → Nat) (hr : Ranked g d) (hsym : EdgeSym g) (hz : LazyOK g) (s : State) (w : Nat)
    (out : Outcome) (fuel : Nat) (hf : 0 < fuel) (hw : w < g.workers.length) (hp : PInv g s) (h : ZInv g d s) :
    ZInv g d (resume g s w out fuel).1 := by
  have hws : w < s.workers.length := by rw [hp.wlen]; exact hw
  have a := resume_loc g d hr hsym s w out fuel hf hw hp h.tinv
  refine ⟨resume_tinv g d hr hsym s w out fuel hf hw hp h.tinv, HidOK.mono h.hid a.hiddenSub, fun u => ?_⟩
  by_cases hu : u = w
  · subst hu
    unfold resume
    split
    · exact runLoop_av g d hr hsym hz u fuel s [] (h.tinv.walk u) h.hid (h.av u)
    · exact runLoop_av g d hr hsym hz u fuel s [] (h.tinv.walk u) h.hid (h.av u)
    · next n phase dir uid tag wait heq =>
      obtain ⟨_, hlast, hlen⟩ := hp.testOwn u n (by rw [heq]; rfl)
      exact resumeTest_av g d hr hsym hz s u n phase dir uid tag wait out fuel hws hlast hlen (h.tinv.walk u)
        (fun hdn => (h.tinv.dir u).1 n phase uid tag wait (by rw [heq, hdn]) n hlast)
        ((h.tinv.dir u).2 n phase dir uid tag wait heq) h.hid (h.av u)
    · exact h.av u
    · exact h.av u
  · intro f hfN hfu
    cases hd : dropped (resume g s w out fuel).1 u (false, (g.node g.root).cls, (g.node f).cls)
    · rfl
    · rcases a.drops u _ hd with h1 | ⟨h1, _⟩
      · rw [h.av u f hfN (unexpl_mono g s _ a.hiddenSub a.incSub f hfu)] at h1; cases h1
      · exact absurd h1 hu

/-- the states reachable from the initial state with the given set of hidden nodes -/
inductive ReachableL (g : Graph) (ncls : Nat) (store : List (String × List (String × String))) (hidden : List Nat) : State → Prop
  | init : ReachableL g ncls store hidden (initState g ncls store hidden)
  | step (s : State) (w : Nat) (out : Outcome) (fuel : Nat) :
      ReachableL g ncls store hidden s → w < g.workers.length → 0 < fuel →
      ReachableL g ncls store hidden (resume g s w out fuel).1

theorem ReachableL.reachableF {g : Graph} {ncls : Nat} {store : List (String × List (String × String))} {hidden : List Nat}
    {s : State} (h : ReachableL g ncls store hidden s) : ReachableF g ncls store s := by
  induction h with
  | init => exact .init hidden
  | step s w out fuel _ hw hf ih => exact .step s w out fuel ih hw hf

theorem reachable_zinv {g : Graph} {d : Nat → Nat} (hr : Ranked g d) (hsym : EdgeSym g) (hz : LazyOK g) {ncls : Nat}
    {store : List (String × List (String × String))} {hidden : List Nat}
    (hcls : ∀ n, n < g.nodes.length → (g.node n).cls < ncls)
    (hroot : hidden.contains g.root = false) (hflat : ∀ f, (g.node f).flat = true → hidden.contains f = false)
    (hedge : ∀ f, (g.node f).flat = true → hidden.contains (edgeCode g g.root f) = false)
    {s : State} (h : ReachableL g ncls store hidden s) : ZInv g d s := by
  induction h with
  | init =>
    refine ⟨tinv_init g d ncls store hidden hcls, ⟨hroot, hflat, hedge⟩, fun u f _ _ => ?_⟩
    unfold dropped State.cr initState
    simp only [Bool.false_eq_true, if_false, List.getD_eq_getElem?_getD, List.getElem?_map]
    cases (List.range ncls)[(g.node g.root).cls]? <;> rfl
  | step s w out fuel hs hw hf ih =>
    exact resume_zinv g d hr hsym hz s w out fuel hf hw (hs.reachableF.pinv hsym) ih

/-- in every reachable state of a lazily expanded graph the state hypotheses of `runLoop_terminates_lazy` hold for
every worker that has not left the loop -/
theorem reachable_lstate {g : Graph} {d : Nat → Nat} (hr : Ranked g d) (hsym : EdgeSym g) (hz : LazyOK g) {ncls : Nat}
    {store : List (String × List (String × String))} {hidden : List Nat}
    (hcls : ∀ n, n < g.nodes.length → (g.node n).cls < ncls)
    (hroot : hidden.contains g.root = false) (hflat : ∀ f, (g.node f).flat = true → hidden.contains f = false)
    (hedge : ∀ f, (g.node f).flat = true → hidden.contains (edgeCode g g.root f) = false)
    {s : State} (h : ReachableL g ncls store hidden s) (w : Nat) (hw : w < g.workers.length)
    (hnd : (s.wd w).pc ≠ .done) : LState g d w s := by
  have hzi := reachable_zinv (d := d) hr hsym hz hcls hroot hflat hedge h
  have hp := h.reachableF.pinv hsym
  have hhead : (s.wd w).path.head? = some g.root := by
    rcases hp.path w (by rw [hp.wlen]; exact hw) with h1 | h1
    · exact absurd h1.2 hnd
    · exact h1.head
  exact ⟨hzi.tinv.nodesLen, hzi.tinv.cls, hzi.tinv.walk w, hhead, hzi.hid.1, hzi.hid.2.1, hzi.hid.2.2, hzi.av w⟩


end I2N.Trav.Term
