import I2N.Lemmas.Tunnel
/-! Inversion lemmas for the parts of `VMTunnel.__init__` (what a successful part looked up and assigned). -/
namespace I2N.Tunnel

/-- keys assigned by `__init__` are qualified by the tunnel name, or by the tunnel name and an end node -/
def Shape (name n1 n2 : String) (k : Key) : Prop :=
  k.quals = [name] ∨ k.quals = [name, n1] ∨ k.quals = [name, n2]

theorem mainPart_ok {name n1 n2 : String} {l1 r1 l2 r2 : SDict} {a : Assignments}
    (h : mainPart name n1 n2 l1 r1 l2 r2 = .ok a) :
    ∃ tl1 tl2 tr1 tr2, l1.get? "type" = some tl1 ∧ l2.get? "type" = some tl2 ∧ r1.get? "type" = some tr1 ∧
      r2.get? "type" = some tr2 ∧
      a = [(k2 "vpnconn" name n1, name), (k2 "vpnconn" name n2, name),
           (k2 "vpn_side" name n1, "left"), (k2 "vpn_side" name n2, "right"),
           (k2 "vpnconn_lan_type" name n1, upper tl1), (k2 "vpnconn_lan_type" name n2, upper tl2),
           (k2 "vpnconn_remote_type" name n1, upper tr1), (k2 "vpnconn_remote_type" name n2, upper tr2)] := by
  unfold mainPart at h
  simp only [bind_ok, pure_ok, SDict.getItem_ok] at h
  obtain ⟨tl1, h1, tl2, h2, tr1, h3, tr2, h4, h⟩ := h
  exact ⟨tl1, tl2, tr1, tr2, h1, h2, h3, h4, h.symm⟩

theorem localPart_ok {name : String} {node1 node2 : Node} {local1 : SDict} {a : Assignments}
    {nc : Option Netconfig} (h : localPart name node1 node2 local1 = .ok (a, nc)) :
    ∃ t, local1.get? "type" = some t ∧
      ((t = "nic" ∧ ∃ i, node1.iface (local1.getD "nic" "lan_nic") = .ok i ∧ nc = some i.netconfig ∧
          a = [(k2 "vpnconn_lan_net" name node1.name, i.netconfig.netIp),
               (k2 "vpnconn_lan_netmask" name node1.name, i.netconfig.netmask),
               (k2 "vpnconn_remote_net" name node2.name, i.netconfig.netIp),
               (k2 "vpnconn_remote_netmask" name node2.name, i.netconfig.netmask)]) ∨
       (t = "internetip" ∧ a = [] ∧ nc = none) ∨
       (t = "custom" ∧ ∃ lnet lmask, local1.get? "lnet" = some lnet ∧ local1.get? "lmask" = some lmask ∧
          nc = some ⟨lnet, lmask, []⟩ ∧
          a = [(k2 "vpnconn_lan_net" name node1.name, lnet), (k2 "vpnconn_lan_netmask" name node1.name, lmask)])) := by
  unfold localPart at h
  rw [bind_ok] at h
  obtain ⟨t, ht, h⟩ := h
  refine ⟨t, (SDict.getItem_ok ..).1 ht, ?_⟩
  split at h
  · next hn =>
    simp only [bind_ok, pure_ok, Prod.mk.injEq] at h
    obtain ⟨i, hi, ha, hnc⟩ := h
    exact Or.inl ⟨hn, i, hi, hnc.symm, ha.symm⟩
  · split at h
    · next hn =>
      simp only [pure_ok, Prod.mk.injEq] at h
      exact Or.inr (Or.inl ⟨hn, h.1.symm, h.2.symm⟩)
    · split at h
      · next hn =>
        simp only [bind_ok, pure_ok, Prod.mk.injEq, SDict.getItem_ok] at h
        obtain ⟨lnet, hl, lmask, hm, ha, hnc⟩ := h
        exact Or.inr (Or.inr ⟨hn, lnet, lmask, hl, hm, hnc.symm, ha.symm⟩)
      · simp [throw_ne_ok] at h

theorem remotePart_ok {name : String} {node1 node2 : Node} {local1 remote1 : SDict} {a : Assignments}
    {nc : Option Netconfig} (h : remotePart name node1 node2 local1 remote1 = .ok (a, nc)) :
    ∃ t, remote1.get? "type" = some t ∧
      ((t = "custom" ∧ ∃ lt, local1.get? "type" = some lt ∧
          ((lt = "custom" ∧ ∃ rnet rmask, local1.get? "rnet" = some rnet ∧ local1.get? "rmask" = some rmask ∧
              nc = some ⟨rnet, rmask, []⟩ ∧
              a = [(k2 "vpnconn_lan_net" name node2.name, rnet), (k2 "vpnconn_lan_netmask" name node2.name, rmask),
                   (k2 "vpnconn_remote_net" name node1.name, rnet),
                   (k2 "vpnconn_remote_netmask" name node1.name, rmask)]) ∨
           (lt ≠ "custom" ∧ ∃ i, node2.iface (remote1.getD "nic" "lan_nic") = .ok i ∧ nc = some i.netconfig ∧
              a = [(k2 "vpnconn_lan_net" name node2.name, i.netconfig.netIp),
                   (k2 "vpnconn_lan_netmask" name node2.name, i.netconfig.netmask),
                   (k2 "vpnconn_remote_net" name node1.name, i.netconfig.netIp),
                   (k2 "vpnconn_remote_netmask" name node1.name, i.netconfig.netmask)]))) ∨
       (t = "externalip" ∧ a = [] ∧ nc = none) ∨
       (t = "modeconfig" ∧ ∃ ip, remote1.get? "modeconfig_ip" = some ip ∧ nc = none ∧
          a = [(k2 "vpnconn_remote_modeconfig_ip" name node1.name, ip)])) := by
  unfold remotePart at h
  rw [bind_ok] at h
  obtain ⟨t, ht, h⟩ := h
  refine ⟨t, (SDict.getItem_ok ..).1 ht, ?_⟩
  split at h
  · next hn =>
    rw [bind_ok] at h
    obtain ⟨lt, hlt, h⟩ := h
    rw [bind_ok] at h
    obtain ⟨⟨a', nc'⟩, h1, h⟩ := h
    simp only [pure_ok, Prod.mk.injEq] at h
    refine Or.inl ⟨hn, lt, (SDict.getItem_ok ..).1 hlt, ?_⟩
    split at h1
    · next hc =>
      simp only [bind_ok, pure_ok, Prod.mk.injEq, SDict.getItem_ok] at h1
      obtain ⟨rnet, hr, rmask, hm, ha, hnc⟩ := h1
      subst ha hnc
      exact Or.inl ⟨hc, rnet, rmask, hr, hm, h.2.symm, by simpa using h.1.symm⟩
    · next hc =>
      simp only [bind_ok, pure_ok, Prod.mk.injEq] at h1
      obtain ⟨i, hi, ha, hnc⟩ := h1
      subst ha hnc
      exact Or.inr ⟨hc, i, hi, h.2.symm, by simpa using h.1.symm⟩
  · split at h
    · next hn =>
      simp only [pure_ok, Prod.mk.injEq] at h
      exact Or.inr (Or.inl ⟨hn, h.1.symm, h.2.symm⟩)
    · split at h
      · next hn =>
        simp only [bind_ok, pure_ok, Prod.mk.injEq, SDict.getItem_ok] at h
        obtain ⟨ip, hip, ha, hnc⟩ := h
        exact Or.inr (Or.inr ⟨hn, ip, hip, hnc.symm, ha.symm⟩)
      · simp [throw_ne_ok] at h

theorem peerPart_ok {name : String} {node1 node2 : Node} {peer1 peer2 : SDict} {a : Assignments}
    {i1 i2 : Iface} (h : peerPart name node1 node2 peer1 peer2 = .ok (a, i1, i2)) :
    ∃ t t2, peer1.get? "type" = some t ∧ peer2.get? "type" = some t2 ∧
      node2.iface (peer1.getD "nic" "internet_nic") = .ok i2 ∧
      node1.iface (peer2.getD "nic" "internet_nic") = .ok i1 ∧
      ((t = "ip" ∧
          a = [(k2 "vpnconn_peer_type" name node1.name, upper t), (k2 "vpnconn_peer_ip" name node1.name, i2.ip),
               (k2 "vpnconn_activation" name node1.name, "ALWAYS"),
               (k2 "vpnconn_peer_type" name node2.name, upper t2), (k2 "vpnconn_peer_ip" name node2.name, i1.ip),
               (k2 "vpnconn_activation" name node2.name, "ALWAYS")]) ∨
       (t = "dynip" ∧
          a = [(k2 "vpnconn_peer_type" name node1.name, upper t),
               (k2 "vpnconn_activation" name node1.name, "PASSIVE"),
               (k2 "vpnconn_peer_type" name node2.name, upper t2), (k2 "vpnconn_peer_ip" name node2.name, i1.ip),
               (k2 "vpnconn_activation" name node2.name, "ALWAYS")])) := by
  unfold peerPart at h
  rw [bind_ok] at h
  obtain ⟨t, ht, h⟩ := h
  rw [bind_ok] at h
  obtain ⟨⟨a', j2⟩, h1, h⟩ := h
  simp only [bind_ok, pure_ok, Prod.mk.injEq, SDict.getItem_ok] at h
  obtain ⟨t2, ht2, j1, hj1, ha, hi1, hi2⟩ := h
  subst hi1 hi2
  refine ⟨t, t2, (SDict.getItem_ok ..).1 ht, ht2, ?_⟩
  split at h1
  · next hn =>
    simp only [bind_ok, pure_ok, Prod.mk.injEq] at h1
    obtain ⟨i, hi, ha', hii⟩ := h1
    subst hii ha'
    exact ⟨hi, hj1, Or.inl ⟨hn, by simpa using ha.symm⟩⟩
  · split at h1
    · next hn =>
      simp only [bind_ok, pure_ok, Prod.mk.injEq] at h1
      obtain ⟨i, hi, ha', hii⟩ := h1
      subst hii ha'
      exact ⟨hi, hj1, Or.inr ⟨hn, by simpa using ha.symm⟩⟩
    · simp [throw_ne_ok] at h1

theorem authPart_ok {name n1 n2 : String} {auth : Option SDict} {a : Assignments}
    (h : authPart name n1 n2 auth = .ok a) :
    (auth = none ∧ a = [(k1 "vpnconn_key_type" name, "NONE")]) ∨
    (∃ d t, auth = some d ∧ d.get? "type" = some t ∧
      ((t = "pubkey" ∧ a = [(k1 "vpnconn_key_type" name, "PUBLIC")]) ∨
       (t = "psk" ∧ ∃ psk leftId rightId, d.get? "psk" = some psk ∧ d.get? "left_id" = some leftId ∧
          d.get? "right_id" = some rightId ∧
          a = [(k1 "vpnconn_key_type" name, "PSK"), (k1 "vpnconn_psk" name, psk),
               (k2 "vpnconn_psk_foreign_id" name n1, rightId),
               (k2 "vpnconn_psk_foreign_id_type" name n1, if rightId = "" then "IP" else "CUSTOM"),
               (k2 "vpnconn_psk_own_id" name n1, leftId),
               (k2 "vpnconn_psk_own_id_type" name n1, if leftId = "" then "IP" else "CUSTOM"),
               (k2 "vpnconn_psk_foreign_id" name n2, leftId),
               (k2 "vpnconn_psk_foreign_id_type" name n2, if leftId = "" then "IP" else "CUSTOM"),
               (k2 "vpnconn_psk_own_id" name n2, rightId),
               (k2 "vpnconn_psk_own_id_type" name n2, if rightId = "" then "IP" else "CUSTOM")]))) := by
  unfold authPart at h
  cases auth with
  | none => simp only [pure_ok] at h; exact Or.inl ⟨rfl, h.symm⟩
  | some d =>
    simp only at h
    rw [bind_ok] at h
    obtain ⟨t, ht, h⟩ := h
    refine Or.inr ⟨d, t, rfl, (SDict.getItem_ok ..).1 ht, ?_⟩
    split at h
    · next hn => simp only [pure_ok] at h; exact Or.inl ⟨hn, h.symm⟩
    · split at h
      · next hn =>
        simp only [bind_ok, pure_ok, SDict.getItem_ok] at h
        obtain ⟨psk, hp, l, hl, r, hr, ha⟩ := h
        exact Or.inr ⟨hn, psk, l, r, hp, hl, hr, ha.symm⟩
      · simp [throw_ne_ok] at h

end I2N.Tunnel
