/-
Python dictionaries with string keys as insertion-ordered association lists: the primitives the atom tables of the
generated files `I2N/Extracted/GenIndex.lean` (C16: `EdgeRegister`) refer to.  Import-free; part of the trusted atom
table of those uses (each primitive names the Python operation it stands for).

A Python `dict` never holds a key twice; on lists with repeated keys the primitives act on the FIRST occurrence (that
is what `get`/`[]`/`in` of a dict built by these primitives would see).  The theorems that use them carry the
well-formedness `PyReg.WF` (keys pairwise distinct) explicitly and prove that `register` preserves it.
-/
namespace I2N.PyDict

abbrev Dict (α : Type) := List (String × α)

/-- `d.keys()` / iteration over `d` / the right operand of `k in d` -/
def keys {α : Type} (d : Dict α) : List String := d.map (·.1)

/-- `d.get(k, dflt)` -/
def getD {α : Type} (d : Dict α) (k : String) (dflt : α) : α :=
  match d with
  | [] => dflt
  | (k', v) :: rest => if k' == k then v else getD rest k dflt

/-- `d[k]` as an optional value (`none` = `KeyError`) -/
def get? {α : Type} (d : Dict α) (k : String) : Option α :=
  match d with
  | [] => none
  | (k', v) :: rest => if k' == k then some v else get? rest k

/-- `d[k] = v`: replaces the value of an existing key in place, appends a new key at the end (insertion order) -/
def setItem {α : Type} (d : Dict α) (k : String) (v : α) : Dict α :=
  match d with
  | [] => [(k, v)]
  | (k', v') :: rest => if k' == k then (k', v) :: rest else (k', v') :: setItem rest k v

/-- the `_registry` of an `EdgeRegister`: node key ↦ worker key ↦ counter (Python `int`) -/
abbrev PyReg := Dict (Dict Int)

inductive PyErr where
  | keyError
deriving Repr, DecidableEq

/-- the monad of a method that reads and writes `self._registry` and may raise `KeyError` -/
abbrev RegM := StateT PyReg (Except PyErr)

/-- `self._registry` in `k in self._registry`: its keys -/
def regKeys : RegM (List String) := fun r => .ok (keys r, r)

/-- `self._registry[n]` in `k in self._registry[n]`: the keys of the inner dictionary; `KeyError` when `n` is missing -/
def innerKeys (n : String) : RegM (List String) := fun r =>
  match get? r n with
  | some inner => .ok (keys inner, r)
  | none => .error .keyError

/-- `self._registry[n] = {}` -/
def setInnerEmpty (n : String) : RegM Unit := fun r => .ok ((), setItem r n [])

/-- `self._registry[n][w] = c` (`KeyError` when `n` is missing) -/
def setCount (n w : String) (c : Int) : RegM Unit := fun r =>
  match get? r n with
  | some inner => .ok ((), setItem r n (setItem inner w c))
  | none => .error .keyError

/-- `self._registry[n][w] += c` (`KeyError` when `n` or `w` is missing) -/
def addCount (n w : String) (c : Int) : RegM Unit := fun r =>
  match get? r n with
  | some inner =>
    match get? inner w with
    | some old => .ok ((), setItem r n (setItem inner w (old + c)))
    | none => .error .keyError
  | none => .error .keyError

end I2N.PyDict
