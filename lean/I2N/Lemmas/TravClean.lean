import I2N.Lemmas.TravReady
/-!
The "dropped means done" invariant of the traversal model behind the run-level statement of C05
(`Props/C05.lean: unset_after_dependants`): on a pre-parsed graph, a node a worker has dropped as a cleanup child
is never on that worker's path again, hence never executed by it again; so at the moment a state is removed no
execution of a dependant is in flight on any worker the clean decision waited for.

Technique (as in `TravReady.lean`): one walk through `afterTraverse`, `traverseNode`, `iter`, `iterL`, `runLoop`,
`resumeTest`, `resume` with a frame relation (`Fr`: what a piece of a step of worker `w` may do to the
`droppedCleanup` registers and to the other workers) and two predicates on the acting worker (`Loc`: robust,
`Walk`: the shape of the path, valid unless the worker died with an exception).

Everything lives in the namespace `I2N.Trav.Clean` (no clash with the other lemma families).
-/
namespace I2N.Trav.Clean
open I2N.Trav

/-! ## hypotheses on the static graph (all decidable) -/

/-- the edges are recorded on both ends (`setup_nodes` of the child, `cleanup_nodes` of the parent) -/
def EdgeSym (g : Graph) : Prop :=
  ∀ a, a < g.nodes.length → ∀ b, b < g.nodes.length →
    (a ∈ (g.node b).setup.map (·.1) ↔ b ∈ (g.node a).cleanup.map (·.1))

instance (g : Graph) : Decidable (EdgeSym g) := by unfold EdgeSym; infer_instance

/-- a class has one flat node or one parsed copy per worker -/
def CopyUniq (g : Graph) : Prop :=
  ∀ x, x < g.nodes.length → ∀ y, y < g.nodes.length → (g.node x).cls = (g.node y).cls →
    ((g.node x).flat = true ∨ (g.node x).owner = (g.node y).owner) → x = y

instance (g : Graph) : Decidable (CopyUniq g) := by unfold CopyUniq; infer_instance

/-- the root is flat and has no parents -/
def RootTop (g : Graph) : Prop := (g.node g.root).flat = true ∧ (g.node g.root).setup = []

instance (g : Graph) : Decidable (RootTop g) := by unfold RootTop; infer_instance

/-- every class has its registers (`ncls` of `initState`) -/
def ClsOk (g : Graph) (ncls : Nat) : Prop := ∀ n, n < g.nodes.length → (g.node n).cls < ncls

instance (g : Graph) (ncls : Nat) : Decidable (ClsOk g ncls) := by unfold ClsOk; infer_instance

/-- a worker cares for at most one node of a class -/
def RelUniq (g : Graph) : Prop :=
  ∀ w x y, x < g.nodes.length → y < g.nodes.length → (g.node x).cls = (g.node y).cls →
    relevant g w x = true → relevant g w y = true → x = y

theorem relUniq_of {g : Graph} (hO : OwnerNames g) (hF : FlatClass g) (hC : CopyUniq g) : RelUniq g := by
  intro w x y hx hy hc rx ry
  have hfl := hF x hx y hy hc
  cases hf : (g.node x).flat with
  | true => exact hC x hx y hy hc (Or.inl hf)
  | false =>
    have hfy : (g.node y).flat = false := by rw [← hfl]; exact hf
    have ox := (hO w x hx hf).mp (relevant_nonflat rx hf)
    have oy := (hO w y hy hfy).mp (relevant_nonflat ry hfy)
    exact hC x hx y hy hc (Or.inr (by rw [ox, oy]))

structure Hyp (g : Graph) : Prop where
  wf : GraphWF g
  sym : EdgeSym g
  uniq : RelUniq g
  top : RootTop g

/-- the registers of every class exist in the state -/
def ClsIn (g : Graph) (s : State) : Prop := ∀ n, n < g.nodes.length → (g.node n).cls < s.regs.length

/-! ## access -/

theorem vis_of_nil (g : Graph) (s : State) (h : s.hidden = []) : vis g s = g := by
  unfold vis; rw [h]; rfl

theorem cr_setCr_eq (s : State) (c : Nat) (f : ClassRegs → ClassRegs) (h : c < s.regs.length) :
    (s.setCr c f).cr c = f (s.cr c) := by
  unfold State.setCr State.cr
  simp only [List.getD_eq_getElem?_getD, List.getElem?_modify]
  rw [List.getElem?_eq_getElem h]
  simp

theorem cr_setCr_ne (s : State) (c c' : Nat) (f : ClassRegs → ClassRegs) (h : c' ≠ c) :
    (s.setCr c f).cr c' = s.cr c' := by
  rcases cr_setCr_cases s c f c' with h' | ⟨h', _⟩
  · exact h'
  · exact absurd h' h

@[simp] theorem regs_length_setCr (s : State) (c : Nat) (f : ClassRegs → ClassRegs) :
    (s.setCr c f).regs.length = s.regs.length := by simp [State.setCr]

/-! ## vocabulary -/

/-- worker `w` has dropped class `c` as a cleanup child of some class -/
def Dr (s : State) (w c : Nat) : Prop := ∃ cp, w ∈ regWorkers (s.cr cp).droppedCleanup (some c)

/-- a registered drop is complete: the node of the class the worker cares for has parents, is dropped from all of
them, and is cleanup-ready for the worker -/
def DropOk (g : Graph) (s : State) (w c : Nat) : Prop :=
  ∃ x, x < g.nodes.length ∧ (g.node x).cls = c ∧ relevant g w x = true ∧ (g.node x).setup ≠ [] ∧
    (∀ q ∈ (g.node x).setup, w ∈ regWorkers (s.cr (g.node q.1).cls).droppedCleanup (some c)) ∧
    isCleanupReady g s x w = true

/-- the robust part of the invariant of worker `w` -/
structure Loc (g : Graph) (w : Nat) (s : State) : Prop where
  pathOk : ∀ x ∈ (s.wd w).path, x < g.nodes.length ∧ relevant g w x = true
  drop : ∀ c, Dr s w c → DropOk g s w c

/-- the shape of a path: it goes down from its first node (children picked) and then up (parents picked); the flag
says that it only goes down -/
inductive PShape (g : Graph) : List Nat → Bool → Prop
  | one (r : Nat) : PShape g [r] true
  | down (p : List Nat) (last c : Nat) : PShape g p true → p.getLast? = some last →
      last ∈ (g.node c).setup.map (·.1) → PShape g (p ++ [c]) true
  | up (p : List Nat) (d : Bool) (last c : Nat) : PShape g p d → p.getLast? = some last →
      last ∈ (g.node c).cleanup.map (·.1) → PShape g (p ++ [c]) false

/-- the part of the invariant of worker `w` that holds unless `w` died with an exception: no node on its path is
dropped -/
structure Walk (g : Graph) (w : Nat) (s : State) : Prop where
  sh : (s.wd w).path = [] ∨ ∃ d, PShape g (s.wd w).path d
  a : ∀ x ∈ (s.wd w).path, ¬ Dr s w (g.node x).cls

/-- a worker awaiting a test awaits it on the last node of its path, reached downwards if the direction says so -/
def PcC (g : Graph) (w : Nat) (s : State) : Prop :=
  ∀ n ph dir uid tag wait, (s.wd w).pc = .test n ph dir uid tag wait →
    (s.wd w).path.getLast? = some n ∧ (dir = .down → PShape g (s.wd w).path true)

/-! ## path shapes -/

theorem PShape.ne_nil {g : Graph} {p : List Nat} {d : Bool} (h : PShape g p d) : p ≠ [] := by
  cases h <;> simp

theorem PShape.dropLast {g : Graph} {p : List Nat} {d : Bool} (h : PShape g p d) :
    p.dropLast = [] ∨ ∃ d', PShape g p.dropLast d' := by
  cases h with
  | one r => left; rfl
  | down p last c hp _ _ => right; rw [List.dropLast_concat]; exact ⟨_, hp⟩
  | up p d last c hp _ _ => right; rw [List.dropLast_concat]; exact ⟨_, hp⟩

/-- on a path that only goes down every node but the last is followed by one of its children -/
theorem PShape.succ {g : Graph} {p : List Nat} {d : Bool} (h : PShape g p d) (hd : d = true) :
    ∀ x ∈ p.dropLast, ∃ y ∈ p, x ∈ (g.node y).setup.map (·.1) := by
  induction h with
  | one r => intro x hx; simp at hx
  | down p last c hp hl hs ih =>
    intro x hx
    rw [List.dropLast_concat] at hx
    have hne := hp.ne_nil
    have hsplit : p = p.dropLast ++ [last] := by
      have h2 := List.dropLast_concat_getLast hne
      have hl' := hl
      rw [List.getLast?_eq_some_getLast hne] at hl'
      rw [Option.some.inj hl'] at h2
      exact h2.symm
    rw [hsplit] at hx
    rcases List.mem_append.mp hx with hx | hx
    · obtain ⟨y, hy, hxy⟩ := ih rfl x hx
      exact ⟨y, List.mem_append_left _ hy, hxy⟩
    · rw [List.mem_singleton.mp hx]
      exact ⟨c, List.mem_append_right _ List.mem_cons_self, hs⟩
  | up p d last c _ _ _ _ => cases hd

theorem getD_pred_concat (p : List Nat) (last c : Nat) (hl : p.getLast? = some last) :
    (p ++ [c]).getD ((p ++ [c]).length - 2) 0 = last := by
  have hne : p ≠ [] := by intro h; rw [h] at hl; simp at hl
  have hlen : 0 < p.length := List.length_pos_iff.mpr hne
  rw [List.getD_eq_getElem?_getD]
  simp only [List.length_append, List.length_singleton]
  have h1 : p.length + 1 - 2 = p.length - 1 := by omega
  rw [h1, List.getElem?_append_left (by omega)]
  rw [List.getLast?_eq_getElem?] at hl
  rw [hl]; rfl

/-- a path whose last step is not an upward step only goes down -/
theorem PShape.allDown {g : Graph} {p : List Nat} {d : Bool} (h : PShape g p d) (next : Nat)
    (hn : p.getLast? = some next)
    (hnot : ¬ p.getD (p.length - 2) 0 ∈ (g.node next).cleanup.map (·.1)) : PShape g p true := by
  cases h with
  | one r => exact .one r
  | down p last c hp hl hs => exact .down p last c hp hl hs
  | up p d last c hp hl hs =>
    exfalso
    rw [List.getLast?_concat] at hn
    have hcn : c = next := Option.some.inj hn
    subst hcn
    rw [getD_pred_concat p last c hl] at hnot
    exact hnot hs

/-! ## the frame -/

/-- nothing the invariant reads changes (the pc of `w` aside) -/
structure Quiet (w : Nat) (s s' : State) : Prop where
  dc : ∀ c, (s'.cr c).droppedCleanup = (s.cr c).droppedCleanup
  path : (s'.wd w).path = (s.wd w).path
  others : ∀ v, v ≠ w → s'.wd v = s.wd v
  hid : s.hidden = [] → s'.hidden = []
  wl : s'.workers.length = s.workers.length
  rl : s'.regs.length = s.regs.length

theorem Quiet.refl (w : Nat) (s : State) : Quiet w s s := ⟨fun _ => rfl, rfl, fun _ _ => rfl, fun h => h, rfl, rfl⟩

theorem Quiet.trans {w : Nat} {s s1 s2 : State} (a : Quiet w s s1) (b : Quiet w s1 s2) : Quiet w s s2 :=
  ⟨fun c => (b.dc c).trans (a.dc c), b.path.trans a.path, fun v hv => (b.others v hv).trans (a.others v hv),
    fun h => b.hid (a.hid h), b.wl.trans a.wl, b.rl.trans a.rl⟩

/-- … and the pc of `w` stays -/
def Same (w : Nat) (s s' : State) : Prop := Quiet w s s' ∧ (s'.wd w).pc = (s.wd w).pc

theorem Same.refl (w : Nat) (s : State) : Same w s s := ⟨Quiet.refl w s, rfl⟩
theorem Same.trans {w : Nat} {s s1 s2 : State} (a : Same w s s1) (b : Same w s1 s2) : Same w s s2 :=
  ⟨a.1.trans b.1, b.2.trans a.2⟩

/-- what a piece of a step of worker `w` may do to the `droppedCleanup` registers and to the other workers -/
structure Fr (w : Nat) (s s' : State) : Prop where
  monoC : ∀ cp c u, u ∈ regWorkers (s.cr cp).droppedCleanup (some c) → u ∈ regWorkers (s'.cr cp).droppedCleanup (some c)
  newC : ∀ cp c u, u ∈ regWorkers (s'.cr cp).droppedCleanup (some c) →
    u ∈ regWorkers (s.cr cp).droppedCleanup (some c) ∨ u = w
  others : ∀ v, v ≠ w → s'.wd v = s.wd v
  hid : s.hidden = [] → s'.hidden = []
  wl : s'.workers.length = s.workers.length
  rl : s'.regs.length = s.regs.length

theorem Fr.refl (w : Nat) (s : State) : Fr w s s :=
  ⟨fun _ _ _ h => h, fun _ _ _ h => Or.inl h, fun _ _ => rfl, fun h => h, rfl, rfl⟩

theorem Fr.trans {w : Nat} {s s1 s2 : State} (a : Fr w s s1) (b : Fr w s1 s2) : Fr w s s2 where
  monoC := fun cp c u h => b.monoC cp c u (a.monoC cp c u h)
  newC := fun cp c u h => by
    rcases b.newC cp c u h with h | h
    · exact a.newC cp c u h
    · exact Or.inr h
  others := fun v hv => (b.others v hv).trans (a.others v hv)
  hid := fun h => b.hid (a.hid h)
  wl := b.wl.trans a.wl
  rl := b.rl.trans a.rl

theorem Quiet.fr {w : Nat} {s s' : State} (a : Quiet w s s') : Fr w s s' :=
  ⟨fun cp c u h => by rw [a.dc cp]; exact h, fun cp c u h => Or.inl (by rw [← a.dc cp]; exact h), a.others, a.hid, a.wl, a.rl⟩

theorem isCleanupReady_mono (g : Graph) (s s' : State) (n v : Nat)
    (hm : ∀ cp c, v ∈ regWorkers (s.cr cp).droppedCleanup (some c) → v ∈ regWorkers (s'.cr cp).droppedCleanup (some c))
    (h : isCleanupReady g s n v = true) : isCleanupReady g s' n v = true := by
  rw [cleanup_ready_iff] at h ⊢
  intro c hc hrel
  exact hm _ _ (h c hc hrel)

theorem DropOk.mono {g : Graph} {s s' : State} {v c : Nat} (h : DropOk g s v c)
    (hm : ∀ cp c, v ∈ regWorkers (s.cr cp).droppedCleanup (some c) → v ∈ regWorkers (s'.cr cp).droppedCleanup (some c)) :
    DropOk g s' v c := by
  obtain ⟨x, h1, h2, h3, h4, h5, h6⟩ := h
  exact ⟨x, h1, h2, h3, h4, fun q hq => hm _ _ (h5 q hq), isCleanupReady_mono g s s' x v hm h6⟩

theorem Quiet.dr {w : Nat} {s s' : State} (a : Quiet w s s') (v c : Nat) : Dr s' v c ↔ Dr s v c := by
  unfold Dr
  constructor
  · rintro ⟨cp, h⟩; exact ⟨cp, by rw [← a.dc cp]; exact h⟩
  · rintro ⟨cp, h⟩; exact ⟨cp, by rw [a.dc cp]; exact h⟩

theorem Quiet.loc {g : Graph} {w : Nat} {s s' : State} (a : Quiet w s s') (l : Loc g w s) : Loc g w s' where
  pathOk := by rw [a.path]; exact l.pathOk
  drop := fun c h => (l.drop c ((a.dr w c).mp h)).mono (fun cp c h => by rw [a.dc cp]; exact h)

theorem Quiet.walk {g : Graph} {w : Nat} {s s' : State} (a : Quiet w s s') (k : Walk g w s) : Walk g w s' where
  sh := by rw [a.path]; exact k.sh
  a := by
    rw [a.path]
    intro x hx h
    exact k.a x hx ((a.dr w _).mp h)

/-- the invariant of another worker survives a piece of a step of `w` -/
theorem Fr.loc_other {g : Graph} {w v : Nat} {s s' : State} (a : Fr w s s') (hv : v ≠ w) (l : Loc g v s) : Loc g v s' where
  pathOk := by rw [a.others v hv]; exact l.pathOk
  drop := fun c ⟨cp, h⟩ => by
    rcases a.newC cp c v h with h' | h'
    · exact (l.drop c ⟨cp, h'⟩).mono (fun cp c h => a.monoC cp c v h)
    · exact absurd h' hv

theorem Fr.walk_other {g : Graph} {w v : Nat} {s s' : State} (a : Fr w s s') (hv : v ≠ w) (k : Walk g v s) : Walk g v s' where
  sh := by rw [a.others v hv]; exact k.sh
  a := by
    rw [a.others v hv]
    rintro x hx ⟨cp, h⟩
    rcases a.newC cp _ v h with h' | h'
    · exact k.a x hx ⟨cp, h'⟩
    · exact hv h'

theorem Fr.pcC_other {g : Graph} {w v : Nat} {s s' : State} (a : Fr w s s') (hv : v ≠ w) (k : PcC g v s) : PcC g v s' := by
  unfold PcC; rw [a.others v hv]; exact k

/-! ### quiet primitives -/

theorem quiet_setNd (w : Nat) (s : State) (m : Nat) (f : NodeD → NodeD) : Same w s (s.setNd m f) :=
  ⟨⟨fun _ => rfl, rfl, fun _ _ => rfl, fun h => h, rfl, rfl⟩, rfl⟩

theorem quiet_store (w : Nat) (s : State) (st : List (String × List (String × String))) : Same w s { s with store := st } :=
  ⟨⟨fun _ => rfl, rfl, fun _ _ => rfl, fun h => h, rfl, rfl⟩, rfl⟩

theorem quiet_job (w : Nat) (s : State) (j : List (String × String × String × Nat)) : Same w s { s with jobResults := j } :=
  ⟨⟨fun _ => rfl, rfl, fun _ _ => rfl, fun h => h, rfl, rfl⟩, rfl⟩

theorem quiet_tag (w : Nat) (s : State) (t : Nat) : Same w s { s with nextTag := t } :=
  ⟨⟨fun _ => rfl, rfl, fun _ _ => rfl, fun h => h, rfl, rfl⟩, rfl⟩

theorem quiet_setCr (w : Nat) (s : State) (c : Nat) (f : ClassRegs → ClassRegs)
    (hc : ∀ r, (f r).droppedCleanup = r.droppedCleanup) : Same w s (s.setCr c f) := by
  refine ⟨⟨fun c' => ?_, rfl, fun _ _ => rfl, fun h => h, rfl, regs_length_setCr s c f⟩, rfl⟩
  rcases cr_setCr_cases s c f c' with h | ⟨_, h⟩
  · rw [h]
  · rw [h, hc]

theorem quiet_setWd (w : Nat) (s : State) (f : WorkerD → WorkerD) (hp : ∀ d, (f d).path = d.path) :
    Quiet w s (s.setWd w f) := by
  refine ⟨fun _ => rfl, ?_, fun v hv => wd_setWd_ne s w v f hv, fun h => h, workers_length_setWd s w f, rfl⟩
  rcases wd_setWd_cases s w f with ⟨h, _⟩ | ⟨_, h⟩
  · rw [h]
  · rw [h, hp]

theorem same_setWd (w : Nat) (s : State) (f : WorkerD → WorkerD) (hp : ∀ d, (f d).path = d.path)
    (hpc : ∀ d, (f d).pc = d.pc) : Same w s (s.setWd w f) := by
  refine ⟨quiet_setWd w s f hp, ?_⟩
  rcases wd_setWd_cases s w f with ⟨h, _⟩ | ⟨_, h⟩
  · rw [h]
  · rw [h, hpc]

theorem same_foldl {β} (w : Nat) (f : State → β → State) (h : ∀ s b, Same w s (f s b)) (l : List β) (s : State) :
    Same w s (l.foldl f s) := by
  induction l generalizing s with
  | nil => exact Same.refl w s
  | cons a r ih => simp only [List.foldl_cons]; exact (h s a).trans (ih _)

theorem same_runDecision (w : Nat) (g : Graph) (s : State) (n v : Nat) (b : Bool) (s1 : State) (e1 : List Event)
    (h : runDecision g s n v = .ok (b, s1, e1)) : Same w s s1 := by
  rcases runDecision_state g s n v b s1 e1 h with h | h
  · rw [h]; exact Same.refl w s
  · rw [h]; exact quiet_setNd w s n _

theorem same_pullLocations (w : Nat) (g : Graph) (s : State) (n : Nat) : Same w s (pullLocations g s n) := by
  unfold pullLocations
  split
  · exact Same.refl w s
  · apply same_foldl
    rintro s ⟨p, vms⟩
    apply same_foldl
    intro s loc
    apply same_foldl
    intro s vm
    exact quiet_setNd w s n _

theorem same_syncStates (w : Nat) (g : Graph) (s : State) (n v : Nat) (rv : Option (List String)) :
    Same w s (syncStates g s n v rv).1 := by
  unfold syncStates
  dsimp only
  split
  · exact Same.refl w s
  · split
    · exact quiet_store w s _
    · exact quiet_store w s _

theorem same_reverseNode (w : Nat) (g : Graph) (s : State) (n v : Nat) (s' : State) (evs : List Event)
    (h : reverseNode g s n v = .ok (s', evs)) : Same w s s' := by
  unfold reverseNode at h
  by_cases hocc : isOccupied g s n v = true
  · simp only [hocc, if_true, Except.ok.injEq, Prod.mk.injEq] at h
    rw [← h.1]; exact Same.refl w s
  · simp only [hocc, Bool.false_eq_true, if_false, ite_self] at h
    have h0 : Same w s (s.setNd n (fun d => { d with started := some v })) := quiet_setNd w s n _
    cases hd : cleanDecision g (s.setNd n (fun d => { d with started := some v })) n v with
    | error e => simp [hd] at h
    | ok clean =>
      simp only [hd, Except.ok.injEq, Prod.mk.injEq] at h
      rw [← h.1]
      refine h0.trans (Same.trans ?_ (quiet_setNd w _ n _))
      split
      · exact same_syncStates w g _ n v none
      · exact Same.refl w _

theorem same_finishTraverse (w : Nat) (s : State) (n v : Nat) : Same w s (finishTraverse s n v) := quiet_setNd w s n _

/-! ## the acting worker: path operations -/

theorem fr_setWd (w : Nat) (s : State) (f : WorkerD → WorkerD) : Fr w s (s.setWd w f) :=
  ⟨fun _ _ _ h => h, fun _ _ _ h => Or.inl h, fun v hv => wd_setWd_ne s w v f hv, fun h => h,
    workers_length_setWd s w f, rfl⟩

theorem loc_setWd {g : Graph} {w : Nat} {s : State} (f : WorkerD → WorkerD) (hw : w < s.workers.length) (l : Loc g w s)
    (hp : ∀ x ∈ (f (s.wd w)).path, x < g.nodes.length ∧ relevant g w x = true) : Loc g w (s.setWd w f) where
  pathOk := by rw [wd_setWd_eq s w f hw]; exact hp
  drop := fun c h => l.drop c h

theorem walk_setWd {g : Graph} {w : Nat} {s : State} (f : WorkerD → WorkerD) (hw : w < s.workers.length)
    (hsh : (f (s.wd w)).path = [] ∨ ∃ d, PShape g (f (s.wd w)).path d)
    (ha : ∀ x ∈ (f (s.wd w)).path, ¬ Dr s w (g.node x).cls) : Walk g w (s.setWd w f) where
  sh := by rw [wd_setWd_eq s w f hw]; exact hsh
  a := by rw [wd_setWd_eq s w f hw]; exact ha

def raises : Flow → Bool
  | .raise _ => true
  | _ => false

/-- what a piece of the loop body of worker `w` guarantees -/
def Post (g : Graph) (w : Nat) (s : State) (r : Step) : Prop :=
  Fr w s r.1 ∧ Loc g w r.1 ∧ (raises r.2.2 = false → Walk g w r.1) ∧ (PcC g w r.1 ∨ (r.1.wd w).pc = (s.wd w).pc)

theorem Post.of_same {g : Graph} {w : Nat} {s s1 : State} {r : Step} (a : Same w s s1) (p : Post g w s1 r) : Post g w s r :=
  ⟨a.1.fr.trans p.1, p.2.1, p.2.2.1, p.2.2.2.imp id (fun h => h.trans a.2)⟩

theorem Post.raise {g : Graph} {w : Nat} {s : State} (l : Loc g w s) (evs : List Event) (e : String) :
    Post g w s (s, evs, .raise e) :=
  ⟨Fr.refl w s, l, fun h => by simp [raises] at h, Or.inr rfl⟩

theorem pc_setWd_path (s : State) (w : Nat) (p : WorkerD → List Nat) :
    ((s.setWd w (fun d => { d with path := p d })).wd w).pc = (s.wd w).pc := by
  rcases wd_setWd_cases s w (fun d => { d with path := p d }) with ⟨h, _⟩ | ⟨_, h⟩
  · rw [h]
  · rw [h]

theorem post_pop {g : Graph} {w : Nat} {s : State} (hw : w < s.workers.length) (l : Loc g w s) (k : Walk g w s)
    (evs : List Event) : Post g w s (popPath s w, evs, .cont) := by
  refine ⟨fr_setWd w s _, loc_setWd _ hw l ?_, fun _ => walk_setWd _ hw ?_ ?_, Or.inr (pc_setWd_path s w _)⟩
  · intro x hx; exact l.pathOk x (List.dropLast_subset _ hx)
  · rcases k.sh with h | ⟨d, h⟩
    · left; show (s.wd w).path.dropLast = []; rw [h]; rfl
    · exact h.dropLast
  · intro x hx; exact k.a x (List.dropLast_subset _ hx)

/-- the root is never dropped -/
theorem root_not_dropped {g : Graph} (H : Hyp g) {w : Nat} {s : State} (l : Loc g w s) : ¬ Dr s w (g.node g.root).cls := by
  intro h
  obtain ⟨x, h1, h2, h3, h4, _, _⟩ := l.drop _ h
  have hr : relevant g w g.root = true := by unfold relevant; rw [H.top.1]; rfl
  have := H.uniq w x g.root h1 H.wf.root_lt h2 h3 hr
  rw [this] at h4
  exact h4 H.top.2

theorem post_root {g : Graph} (H : Hyp g) {w : Nat} {s : State} (hw : w < s.workers.length) (l : Loc g w s)
    (evs : List Event) : Post g w s (s.setWd w (fun d => { d with path := [g.root] }), evs, .cont) := by
  have hr : relevant g w g.root = true := by unfold relevant; rw [H.top.1]; rfl
  refine ⟨fr_setWd w s _, loc_setWd _ hw l ?_, fun _ => walk_setWd _ hw (Or.inr ⟨true, .one g.root⟩) ?_,
    Or.inr (pc_setWd_path s w _)⟩
  · intro x hx
    have : x = g.root := by simpa using hx
    rw [this]; exact ⟨H.wf.root_lt, hr⟩
  · intro x hx
    have : x = g.root := by simpa using hx
    rw [this]; exact root_not_dropped H l

/-- `pick_child` with the reason: the child is not dropped from this parent -/
theorem pickChild_rel' (g : Graph) (s : State) (n w c : Nat) (s' : State) (h : pickChild g s n w = some (c, s')) :
    c ∈ (g.node n).cleanup.map (·.1) ∧ relevant g w c = true ∧
      ¬ w ∈ regWorkers (s.cr (g.node n).cls).droppedCleanup (some (g.node c).cls) ∧
      s' = s.setCr (g.node c).cls (fun r => { r with pickedBySetup := regAdd r.pickedBySetup ((g.node n).cls, w) }) := by
  unfold pickChild at h
  dsimp only at h
  split at h
  · simp at h
  · rename_i c' rest heq
    simp only [Option.some.injEq, Prod.mk.injEq] at h
    have : c' ∈ stableSort (fun a b => keyLe (pickKey g s false a) (pickKey g s false b))
        (((g.node n).cleanup.map (·.1)).filter (fun c =>
          relevant g w c && !(regWorkers (s.cr (g.node n).cls).droppedCleanup (some (g.node c).cls)).contains w)) := by
      rw [heq]; exact List.mem_cons_self
    have := List.mem_filter.mp (mem_stableSort _ _ _ this)
    rw [Bool.and_eq_true] at this
    rw [← h.1]
    refine ⟨this.1, this.2.1, ?_, h.2.symm⟩
    have h3 := this.2.2
    simpa using h3

theorem post_pushChild {g : Graph} (H : Hyp g) {w : Nat} {s s2 : State} {next c : Nat} (hw : w < s.workers.length)
    (l : Loc g w s) (k : Walk g w s) (hlast : (s.wd w).path.getLast? = some next) (hdn : PShape g (s.wd w).path true)
    (hp : pickChild g s next w = some (c, s2)) (evs : List Event) : Post g w s (pushPath s2 w c, evs, .cont) := by
  obtain ⟨hc, hrel, hnd, hs2⟩ := pickChild_rel' g s next w c s2 hp
  obtain ⟨hnext, _⟩ := l.pathOk next (List.mem_of_getLast? hlast)
  obtain ⟨q, hq, hqc⟩ := List.mem_map.mp hc
  have hclt : c < g.nodes.length := by rw [← hqc]; exact H.wf.cleanup_lt next q hq
  have hsym : next ∈ (g.node c).setup.map (·.1) := (H.sym next hnext c hclt).mpr hc
  have h1 : Same w s s2 := by rw [hs2]; exact quiet_setCr w s _ _ (fun _ => rfl)
  have l2 := h1.1.loc l
  have k2 := h1.1.walk k
  have hw2 : w < s2.workers.length := by rw [h1.1.wl]; exact hw
  refine Post.of_same h1 ⟨fr_setWd w s2 _, loc_setWd _ hw2 l2 ?_, fun _ => walk_setWd _ hw2 ?_ ?_, Or.inr (pc_setWd_path s2 w _)⟩
  · intro x hx
    rcases List.mem_append.mp hx with hx | hx
    · exact l2.pathOk x hx
    · rw [List.mem_singleton.mp hx]; exact ⟨hclt, hrel⟩
  · right
    refine ⟨true, .down _ next c ?_ ?_ hsym⟩
    · rw [h1.1.path]; exact hdn
    · rw [h1.1.path]; exact hlast
  · intro x hx
    rcases List.mem_append.mp hx with hx | hx
    · exact k2.a x hx
    · rw [List.mem_singleton.mp hx]
      intro hdr
      obtain ⟨x', a1, a2, a3, _, a5, _⟩ := l.drop _ ((h1.1.dr w _).mp hdr)
      have hx' : x' = c := H.uniq w x' c a1 hclt a2 a3 hrel
      subst hx'
      obtain ⟨q', hq', hq'n⟩ := List.mem_map.mp hsym
      have := a5 q' hq'
      rw [hq'n] at this
      exact hnd this

theorem post_pushParent {g : Graph} (H : Hyp g) {w : Nat} {s s2 : State} {next p : Nat} (hw : w < s.workers.length)
    (l : Loc g w s) (k : Walk g w s) (hlast : (s.wd w).path.getLast? = some next)
    (hp : pickParent g s next w = some (p, s2)) (evs : List Event) : Post g w s (pushPath s2 w p, evs, .cont) := by
  obtain ⟨hc, hrel, hs2⟩ := pickParent_rel g s next w p s2 hp
  obtain ⟨hnext, hnrel⟩ := l.pathOk next (List.mem_of_getLast? hlast)
  obtain ⟨q, hq, hqc⟩ := List.mem_map.mp hc
  have hplt : p < g.nodes.length := by rw [← hqc]; exact H.wf.setup_lt next q hq
  have hsym : next ∈ (g.node p).cleanup.map (·.1) := (H.sym p hplt next hnext).mp hc
  have h1 : Same w s s2 := by rw [hs2]; exact quiet_setCr w s _ _ (fun _ => rfl)
  have l2 := h1.1.loc l
  have k2 := h1.1.walk k
  have hw2 : w < s2.workers.length := by rw [h1.1.wl]; exact hw
  obtain ⟨d, hd⟩ : ∃ d, PShape g (s.wd w).path d := by
    rcases k.sh with h | h
    · rw [h] at hlast; simp at hlast
    · exact h
  refine Post.of_same h1 ⟨fr_setWd w s2 _, loc_setWd _ hw2 l2 ?_, fun _ => walk_setWd _ hw2 ?_ ?_, Or.inr (pc_setWd_path s2 w _)⟩
  · intro x hx
    rcases List.mem_append.mp hx with hx | hx
    · exact l2.pathOk x hx
    · rw [List.mem_singleton.mp hx]; exact ⟨hplt, hrel⟩
  · right
    refine ⟨false, .up _ d next p ?_ ?_ hsym⟩
    · rw [h1.1.path]; exact hd
    · rw [h1.1.path]; exact hlast
  · intro x hx
    rcases List.mem_append.mp hx with hx | hx
    · exact k2.a x hx
    · rw [List.mem_singleton.mp hx]
      intro hdr
      obtain ⟨x', a1, a2, a3, _, _, a6⟩ := l.drop _ ((h1.1.dr w _).mp hdr)
      have hx' : x' = p := H.uniq w x' p a1 hplt a2 a3 hrel
      subst hx'
      obtain ⟨q', hq', hq'n⟩ := List.mem_map.mp hsym
      have := (cleanup_ready_iff g s x' w).mp a6 q' hq' (by rw [hq'n]; exact hnrel)
      rw [hq'n] at this
      exact k.a next (List.mem_of_getLast? hlast) ⟨_, this⟩

/-! ## dropping a node as a child of all its parents -/

theorem mem_dropAll (g : Graph) (next w : Nat) (l : List (Nat × List String)) (s : State)
    (hl : ∀ q ∈ l, (g.node q.1).cls < s.regs.length) (cp c u : Nat) :
    u ∈ regWorkers ((l.foldl (fun s x => dropChild g s x.1 next w) s).cr cp).droppedCleanup (some c) ↔
      u ∈ regWorkers (s.cr cp).droppedCleanup (some c) ∨
        (u = w ∧ c = (g.node next).cls ∧ ∃ q ∈ l, (g.node q.1).cls = cp) := by
  induction l generalizing s with
  | nil => simp
  | cons a r ih =>
    simp only [List.foldl_cons]
    have hl' : ∀ q ∈ r, (g.node q.1).cls < (dropChild g s a.1 next w).regs.length := by
      intro q hq
      unfold dropChild
      rw [regs_length_setCr]
      exact hl q (List.mem_cons_of_mem _ hq)
    rw [ih _ hl']
    have hstep : u ∈ regWorkers ((dropChild g s a.1 next w).cr cp).droppedCleanup (some c) ↔
        u ∈ regWorkers (s.cr cp).droppedCleanup (some c) ∨ (u = w ∧ c = (g.node next).cls ∧ (g.node a.1).cls = cp) := by
      unfold dropChild
      by_cases hcp : cp = (g.node a.1).cls
      · subst hcp
        rw [cr_setCr_eq s _ _ (hl a List.mem_cons_self)]
        rw [mem_regWorkers_regAdd]
        constructor
        · rintro (h | ⟨h1, h2⟩)
          · exact Or.inl h
          · exact Or.inr ⟨h1, h2, rfl⟩
        · rintro (h | ⟨h1, h2, _⟩)
          · exact Or.inl h
          · exact Or.inr ⟨h1, h2⟩
      · rw [cr_setCr_ne s _ _ _ hcp]
        constructor
        · intro h; exact Or.inl h
        · rintro (h | ⟨_, _, h3⟩)
          · exact h
          · exact absurd h3.symm hcp
    rw [hstep]
    constructor
    · rintro ((h | ⟨h1, h2, h3⟩) | ⟨h1, h2, q, hq, h3⟩)
      · exact Or.inl h
      · exact Or.inr ⟨h1, h2, a, List.mem_cons_self, h3⟩
      · exact Or.inr ⟨h1, h2, q, List.mem_cons_of_mem _ hq, h3⟩
    · rintro (h | ⟨h1, h2, q, hq, h3⟩)
      · exact Or.inl (Or.inl h)
      · rcases List.mem_cons.mp hq with hq | hq
        · subst hq; exact Or.inl (Or.inr ⟨h1, h2, h3⟩)
        · exact Or.inr ⟨h1, h2, q, hq, h3⟩

theorem dropAll_frame (g : Graph) (next w : Nat) (l : List (Nat × List String)) (s : State) :
    (∀ v, (l.foldl (fun s x => dropChild g s x.1 next w) s).wd v = s.wd v) ∧
    (l.foldl (fun s x => dropChild g s x.1 next w) s).hidden = s.hidden ∧
    (l.foldl (fun s x => dropChild g s x.1 next w) s).workers.length = s.workers.length ∧
    (l.foldl (fun s x => dropChild g s x.1 next w) s).regs.length = s.regs.length := by
  refine ⟨fun v => ?_, ?_, ?_, ?_⟩
  · exact foldl_preserves (fun s => s.wd v) (fun s x => dropChild g s x.1 next w) (fun _ _ => rfl) l s
  · exact foldl_preserves (fun s => s.hidden) (fun s x => dropChild g s x.1 next w) (fun _ _ => rfl) l s
  · exact foldl_preserves (fun s => s.workers.length) (fun s x => dropChild g s x.1 next w) (fun _ _ => rfl) l s
  · exact foldl_preserves (fun s => s.regs.length) (fun s x => dropChild g s x.1 next w) (fun s b => by unfold dropChild; exact regs_length_setCr _ _ _) l s

/-- the effect of `for p in next.setup_nodes: p.drop_child(next, w)` on a cleanup-ready node at the end of a path -/
theorem drop_step {g : Graph} (H : Hyp g) {w : Nat} {s : State} {next : Nat} (hcls : ClsIn g s) (l : Loc g w s)
    (hlast : (s.wd w).path.getLast? = some next) (hc : isCleanupReady g s next w = true) :
    Fr w s ((g.node next).setup.foldl (fun s x => dropChild g s x.1 next w) s) ∧
    Loc g w ((g.node next).setup.foldl (fun s x => dropChild g s x.1 next w) s) ∧
    (∀ c, Dr ((g.node next).setup.foldl (fun s x => dropChild g s x.1 next w) s) w c → Dr s w c ∨ c = (g.node next).cls) := by
  obtain ⟨hnext, hnrel⟩ := l.pathOk next (List.mem_of_getLast? hlast)
  have hl : ∀ q ∈ (g.node next).setup, (g.node q.1).cls < s.regs.length :=
    fun q hq => hcls _ (H.wf.setup_lt next q hq)
  have hm := mem_dropAll g next w (g.node next).setup s hl
  obtain ⟨f1, f2, f3, f4⟩ := dropAll_frame g next w (g.node next).setup s
  have hmono : ∀ cp c u, u ∈ regWorkers (s.cr cp).droppedCleanup (some c) →
      u ∈ regWorkers (((g.node next).setup.foldl (fun s x => dropChild g s x.1 next w) s).cr cp).droppedCleanup (some c) :=
    fun cp c u h => (hm cp c u).mpr (Or.inl h)
  refine ⟨⟨hmono, fun cp c u h => ?_, fun v _ => f1 v, fun h => by rw [f2]; exact h, f3, f4⟩, ⟨?_, fun c hdr => ?_⟩,
    fun c hdr => ?_⟩
  · rcases (hm cp c u).mp h with h | ⟨h, _⟩
    · exact Or.inl h
    · exact Or.inr h
  · rw [f1 w]; exact l.pathOk
  · obtain ⟨cp, h⟩ := hdr
    rcases (hm cp c w).mp h with h | ⟨_, h2, q, hq, _⟩
    · exact (l.drop c ⟨cp, h⟩).mono (fun cp c h => hmono cp c w h)
    · refine ⟨next, hnext, h2.symm, hnrel, ?_, fun q' hq' => ?_, isCleanupReady_mono g s _ next w (fun cp c h => hmono cp c w h) hc⟩
      · intro he; rw [he] at hq; simp at hq
      · exact (hm _ c w).mpr (Or.inr ⟨rfl, h2, q', hq', rfl⟩)
  · obtain ⟨cp, h⟩ := hdr
    rcases (hm cp c w).mp h with h | ⟨_, h2, _⟩
    · exact Or.inl ⟨cp, h⟩
    · exact Or.inr h2

/-- … after which the node is popped: nothing left on the path is dropped -/
theorem walk_pop_after_drop {g : Graph} (H : Hyp g) {w : Nat} {s s3 : State} {next : Nat} (hw : w < s3.workers.length)
    (l : Loc g w s) (k : Walk g w s) (hlast : (s.wd w).path.getLast? = some next) (hdn : PShape g (s.wd w).path true)
    (hc : isCleanupReady g s next w = true) (hpath : (s3.wd w).path = (s.wd w).path)
    (hdr : ∀ c, Dr s3 w c → Dr s w c ∨ c = (g.node next).cls) : Walk g w (popPath s3 w) := by
  obtain ⟨hnext, hnrel⟩ := l.pathOk next (List.mem_of_getLast? hlast)
  refine walk_setWd _ hw ?_ ?_
  · show (s3.wd w).path.dropLast = [] ∨ ∃ d, PShape g (s3.wd w).path.dropLast d
    rw [hpath]; exact hdn.dropLast
  · show ∀ x ∈ (s3.wd w).path.dropLast, ¬ Dr s3 w (g.node x).cls
    rw [hpath]
    intro x hx hd
    have hxp : x ∈ (s.wd w).path := List.dropLast_subset _ hx
    rcases hdr _ hd with h | h
    · exact k.a x hxp h
    · obtain ⟨hxl, hxr⟩ := l.pathOk x hxp
      have hxn : x = next := H.uniq w x next hxl hnext h hxr hnrel
      rw [hxn] at hx
      obtain ⟨y, hy, hny⟩ := hdn.succ rfl next hx
      obtain ⟨hyl, hyr⟩ := l.pathOk y hy
      have hyc : y ∈ (g.node next).cleanup.map (·.1) := (H.sym next hnext y hyl).mp hny
      obtain ⟨q, hq, hqy⟩ := List.mem_map.mp hyc
      have := (cleanup_ready_iff g s next w).mp hc q hq (by rw [hqy]; exact hyr)
      rw [hqy] at this
      exact k.a y hy ⟨_, this⟩

/-! ## the functions of the loop -/

theorem post_reset {g : Graph} (H : Hyp g) {w : Nat} {s s0 : State} (f : WorkerD → WorkerD) (hw : w < s0.workers.length)
    (q : Quiet w s s0) (l : Loc g w s) (hp : ∀ d, (f d).path = [g.root])
    (hpc : ∀ d, (f d).pc = d.pc ∨ (f d).pc.isTest = false) (hs0 : (s0.wd w).pc = (s.wd w).pc)
    (evs : List Event) (fl : Flow) : Post g w s (s0.setWd w f, evs, fl) := by
  have hr : relevant g w g.root = true := by unfold relevant; rw [H.top.1]; rfl
  have l0 := q.loc l
  refine ⟨q.fr.trans (fr_setWd w s0 _), loc_setWd _ hw l0 ?_, fun _ => walk_setWd _ hw ?_ ?_, ?_⟩
  · intro x hx
    rw [hp] at hx
    have : x = g.root := by simpa using hx
    rw [this]; exact ⟨H.wf.root_lt, hr⟩
  · rw [hp]; exact Or.inr ⟨true, .one g.root⟩
  · intro x hx
    rw [hp] at hx
    have : x = g.root := by simpa using hx
    rw [this]; exact root_not_dropped H l0
  · rcases hpc (s0.wd w) with h | h
    · right; show ((s0.setWd w f).wd w).pc = _; rw [wd_setWd_eq s0 w f hw, h, hs0]
    · left
      intro n ph dir uid tag wait hh
      have h' : ((s0.setWd w f).wd w).pc = .test n ph dir uid tag wait := hh
      rw [wd_setWd_eq s0 w f hw] at h'
      rw [h'] at h; simp [Pc.isTest] at h

/-- the strong form of `Post`: the walk part and the pc part hold -/
def Strong (g : Graph) (w : Nat) (s s' : State) : Prop := Fr w s s' ∧ Loc g w s' ∧ Walk g w s' ∧ PcC g w s'

theorem Strong.post {g : Graph} {w : Nat} {s : State} {r : Step} (h : Strong g w s r.1) : Post g w s r :=
  ⟨h.1, h.2.1, fun _ => h.2.2.1, Or.inl h.2.2.2⟩

theorem post_test {g : Graph} {w : Nat} {s s0 : State} (f : WorkerD → WorkerD) (n : Nat) (ph : Phase) (dir : Dir)
    (uid : String) (tag wt : Nat) (hw : w < s0.workers.length) (q : Quiet w s s0) (l : Loc g w s) (k : Walk g w s)
    (hlast : (s.wd w).path.getLast? = some n) (hdown : dir = .down → PShape g (s.wd w).path true)
    (hp : ∀ d, (f d).path = d.path) (hpc : ∀ d, (f d).pc = .test n ph dir uid tag wt) : Strong g w s (s0.setWd w f) := by
  have q2 : Quiet w s (s0.setWd w f) := q.trans (quiet_setWd w s0 f hp)
  refine ⟨q2.fr, q2.loc l, q2.walk k, ?_⟩
  intro n' ph' dir' uid' tag' wait' hh
  have h' : ((s0.setWd w f).wd w).pc = .test n' ph' dir' uid' tag' wait' := hh
  rw [wd_setWd_eq s0 w f hw, hpc] at h'
  cases h'
  show ((s0.setWd w f).wd w).path.getLast? = some n ∧ (dir = .down → PShape g ((s0.setWd w f).wd w).path true)
  rw [q2.path]; exact ⟨hlast, hdown⟩

theorem afterTraverse_cl {g : Graph} (H : Hyp g) (w : Nat) (s : State) (next prev : Nat) (dir : Dir)
    (hw : w < s.workers.length) (hcls : ClsIn g s) (l : Loc g w s) (k : Walk g w s)
    (hlast : (s.wd w).path.getLast? = some next) (hdown : dir = .down → PShape g (s.wd w).path true) :
    Post g w s (afterTraverse g s w next prev dir) := by
  unfold afterTraverse
  cases hd : runDecision g s next w with
  | error e => exact Post.raise l [] e
  | ok r =>
    obtain ⟨run, s1, evs⟩ := r
    have h1 : Same w s s1 := same_runDecision w g s next w run s1 evs hd
    have l1 := h1.1.loc l
    have k1 := h1.1.walk k
    have hw1 : w < s1.workers.length := by rw [h1.1.wl]; exact hw
    have hcls1 : ClsIn g s1 := fun n hn => by rw [h1.1.rl]; exact hcls n hn
    have hlast1 : (s1.wd w).path.getLast? = some next := by rw [h1.1.path]; exact hlast
    refine Post.of_same h1 ?_
    cases dir with
    | up =>
      dsimp only
      cases run with
      | true =>
        simp only [Bool.not_true, Bool.false_eq_true, if_false]
        exact post_pop hw1 l1 k1 evs
      | false =>
        simp only [Bool.not_false, if_true]
        have h2 : Same w s1 (dropParent g s1 prev next w) := quiet_setCr w s1 _ _ (fun _ => rfl)
        exact Post.of_same h2 (post_pop (by rw [h2.1.wl]; exact hw1) (h2.1.loc l1) (h2.1.walk k1) evs)
    | down =>
      have hdn1 : PShape g (s1.wd w).path true := by rw [h1.1.path]; exact hdown rfl
      dsimp only
      cases run with
      | true =>
        simp only [if_true]
        exact post_pop hw1 l1 k1 evs
      | false =>
        simp only [Bool.false_eq_true, if_false]
        by_cases hc : isCleanupReady g s1 next w = true
        · simp only [hc, if_true]
          by_cases hpp : (!(g.node next).flat && (s1.wd w).unexplored) = true
          · simp only [hpp, if_true]
            exact post_reset H _ hw1 (Quiet.refl w s1) l1 (by intro _; rfl) (by intro _; exact Or.inl rfl) rfl evs .cont
          simp only [hpp, Bool.false_eq_true, if_false]
          obtain ⟨f1, f2, f3⟩ := drop_step H hcls1 l1 hlast1 hc
          obtain ⟨g1, _, g3, _⟩ := dropAll_frame g next w (g.node next).setup s1
          generalize List.foldl (fun s x => dropChild g s x.1 next w) s1 (g.node next).setup = sF at f1 f2 f3 g1 g3 ⊢
          cases hr : reverseNode g sF next w with
          | error e => exact ⟨f1, f2, fun h => by simp [raises] at h, Or.inr (by show (sF.wd w).pc = _; rw [g1 w])⟩
          | ok r =>
            obtain ⟨s3, evs2⟩ := r
            have h3 : Same w sF s3 := same_reverseNode w g sF next w s3 evs2 hr
            have hw3 : w < s3.workers.length := by rw [h3.1.wl, g3]; exact hw1
            have l3 := h3.1.loc f2
            have hpath : (s3.wd w).path = (s1.wd w).path := by rw [h3.1.path, g1 w]
            refine ⟨f1.trans (h3.1.fr.trans (fr_setWd w s3 _)), loc_setWd _ hw3 l3 ?_, fun _ => ?_, Or.inr ?_⟩
            · intro x hx; exact l3.pathOk x (List.dropLast_subset _ hx)
            · exact walk_pop_after_drop H hw3 l1 k1 hlast1 hdn1 hc hpath
                (fun c hdr => f3 c ((h3.1.dr w c).mp hdr))
            · show ((popPath s3 w).wd w).pc = _
              unfold popPath
              rw [pc_setWd_path, h3.2, g1 w]
        · simp only [hc, Bool.false_eq_true, if_false]
          cases hp : pickChild g s1 next w with
          | none => exact Post.raise l1 evs _
          | some r =>
            obtain ⟨c, s2⟩ := r
            exact post_pushChild H hw1 l1 k1 hlast1 hdn1 hp evs

theorem startTest_cl {g : Graph} (w : Nat) (s : State) (n : Nat) (ph : Phase) (dir : Dir)
    (hw : w < s.workers.length) (l : Loc g w s) (k : Walk g w s)
    (hlast : (s.wd w).path.getLast? = some n) (hdown : dir = .down → PShape g (s.wd w).path true) :
    Strong g w s (startTest g s n w ph dir).1 := by
  unfold startTest
  dsimp only
  split
  · refine post_test _ n ph dir ?uid ?tag 0 ?hw ?q l k hlast hdown ?hp ?hpc
    case hpc => intro _; rfl
    case hw => exact hw
    case q => exact (quiet_tag w s _).1
    case hp => intro _; rfl
  · have q : Quiet w s (({ s with nextTag := s.nextTag + 1 } : State).setNd n
        (fun d => { d with results := d.results ++ [{ name := (g.node n).name, status := "UNKNOWN", uid := "", tag := s.nextTag }] })) :=
      (quiet_tag w s _).1.trans (quiet_setNd w _ n _).1
    refine post_test _ n ph dir ?uid2 ?tag2 0 ?hw ?q l k hlast hdown ?hp ?hpc
    case hpc => intro _; rfl
    case hw => exact hw
    case q => exact q
    case hp => intro _; rfl

theorem Post.evs {g : Graph} {w : Nat} {s a : State} {e : List Event} {f : Flow} (p : Post g w s (a, e, f)) (e' : List Event) :
    Post g w s (a, e', f) := p

theorem traverseNode_cl {g : Graph} (H : Hyp g) (w : Nat) (s : State) (next prev : Nat) (dir : Dir)
    (hw : w < s.workers.length) (hcls : ClsIn g s) (l : Loc g w s) (k : Walk g w s)
    (hlast : (s.wd w).path.getLast? = some next) (hdown : dir = .down → PShape g (s.wd w).path true) :
    Post g w s (traverseNode g s w next prev dir) := by
  unfold traverseNode
  by_cases hocc : isOccupied g s next w = true
  · simp only [hocc, if_true]
    exact afterTraverse_cl H w s next prev dir hw hcls l k hlast hdown
  · simp only [hocc, Bool.false_eq_true, if_false]
    have hA : Same w s (pullLocations g (s.setNd next (fun d => { d with started := some w })) next) :=
      (quiet_setNd w s next _).trans (same_pullLocations w g _ next)
    cases hd : runDecision g (pullLocations g (s.setNd next (fun d => { d with started := some w })) next) next w with
    | error e => exact Post.of_same hA (Post.raise (hA.1.loc l) [] e)
    | ok r =>
      obtain ⟨run, s1, evs⟩ := r
      have h1 : Same w s s1 := hA.trans (same_runDecision w g _ next w run s1 evs hd)
      have l1 := h1.1.loc l
      have k1 := h1.1.walk k
      have hw1 : w < s1.workers.length := by rw [h1.1.wl]; exact hw
      have hcls1 : ClsIn g s1 := fun n hn => by rw [h1.1.rl]; exact hcls n hn
      have hlast1 : (s1.wd w).path.getLast? = some next := by rw [h1.1.path]; exact hlast
      have hdown1 : dir = .down → PShape g (s1.wd w).path true := by rw [h1.1.path]; exact hdown
      refine Post.of_same h1 ?_
      dsimp only
      by_cases hrun : run = true
      · subst hrun
        simp only [if_true]
        by_cases hroot : (g.node next).objectRoot = true
        · simp only [hroot, if_true]
          generalize hF : (fun (d : WorkerD) => { d with
              preResults := (s1.nd next).results,
              preName := "all.internal.stateless.noop.vms." ++ " ".intercalate (g.node next).objs ++ ".nets." ++
                (g.worker w).swarm ++ "." ++ ((g.worker w).id.splitOn ".").getLast! }) = F
          have h2 : Same w s1 (s1.setWd w F) := same_setWd w s1 F (fun d => by rw [← hF]) (fun d => by rw [← hF])
          have h3 := startTest_cl (g := g) w (s1.setWd w F) next .pre dir (by rw [h2.1.wl]; exact hw1) (h2.1.loc l1) (h2.1.walk k1)
            (by rw [h2.1.path]; exact hlast1) (by rw [h2.1.path]; exact hdown1)
          rcases hst : startTest g (s1.setWd w F) next w .pre dir with ⟨s2, evs2, f⟩
          rw [hst] at h3
          exact Post.of_same h2 (Strong.post (r := (s2, evs ++ evs2, f)) h3)
        · simp only [hroot, Bool.false_eq_true, if_false]
          have h3 := startTest_cl (g := g) w s1 next .plain dir hw1 l1 k1 hlast1 hdown1
          rcases hst : startTest g s1 next w .plain dir with ⟨s2, evs2, f⟩
          rw [hst] at h3
          exact Strong.post (r := (s2, evs ++ evs2, f)) h3
      · simp only [hrun, Bool.false_eq_true, if_false]
        have h2 : Same w s1 (finishTraverse s1 next w) := same_finishTraverse w s1 next w
        have h3 := afterTraverse_cl H w (finishTraverse s1 next w) next prev dir (by rw [h2.1.wl]; exact hw1)
          (fun n hn => by rw [h2.1.rl]; exact hcls1 n hn) (h2.1.loc l1) (h2.1.walk k1)
          (by rw [h2.1.path]; exact hlast1) (by rw [h2.1.path]; exact hdown1)
        rcases hat : afterTraverse g (finishTraverse s1 next w) w next prev dir with ⟨s2, evs2, f⟩
        rw [hat] at h3
        exact Post.of_same h2 (h3.evs _)

def pcFailed : Pc → Bool
  | .failed => true
  | _ => false

theorem pcC_of_nonTest {g : Graph} {w : Nat} {s : State} (h : (s.wd w).pc.isTest = false) : PcC g w s := by
  intro n ph dir uid tag wait hh
  rw [hh] at h; simp [Pc.isTest] at h

theorem iter_cl {g : Graph} (H : Hyp g) (w : Nat) (s : State) (hw : w < s.workers.length) (hcls : ClsIn g s)
    (l : Loc g w s) (k : Walk g w s) : Post g w s (iter g s w) := by
  unfold iter
  dsimp only
  split
  · split
    · -- the worker leaves
      refine ⟨fr_setWd w s _, loc_setWd _ hw l ?_, fun _ => walk_setWd _ hw (Or.inl rfl) ?_, Or.inl ?_⟩
      · intro x hx; simp at hx
      · intro x hx; simp at hx
      · apply pcC_of_nonTest
        show ((s.setWd w _).wd w).pc.isTest = false
        rw [wd_setWd_eq s w _ hw]; rfl
    · exact Post.raise l [] _
  · cases hl : (s.wd w).path.getLast? with
    | none => exact Post.raise l [] _
    | some next =>
      dsimp only
      split
      · rename_i hlen
        have hlen' : (s.wd w).path.length = 1 := by simpa using hlen
        obtain ⟨a, ha⟩ := List.length_eq_one_iff.mp hlen'
        have hdn : PShape g (s.wd w).path true := by rw [ha]; exact .one a
        cases hp : pickChild g s next w with
        | none => exact Post.raise l [] _
        | some r => obtain ⟨c, s2⟩ := r; exact post_pushChild H hw l k hl hdn hp []
      · by_cases hocc : isOccupied g s next w = true
        · -- bounce
          simp only [hocc, if_true]
          refine post_reset H _ ?hw0 ?q l (by intro _; rfl) (by intro _; exact Or.inr rfl) ?hpc _ _
          case q =>
            split
            · refine Quiet.trans ?_ (quiet_setWd w _ _ (by intro _; rfl))
              split
              · exact (quiet_setNd w s next _).1
              · exact Quiet.refl w s
            · exact quiet_setWd w s _ (by intro _; rfl)
          case hw0 =>
            split
            · split
              · rw [workers_length_setWd]; exact hw
              · rw [workers_length_setWd]; exact hw
            · rw [workers_length_setWd]; exact hw
          case hpc =>
            split
            · split
              · exact (same_setWd w _ _ (by intro _; rfl) (by intro _; rfl)).2.trans (quiet_setNd w s next _).2
              · exact (same_setWd w _ _ (by intro _; rfl) (by intro _; rfl)).2
            · exact (same_setWd w _ _ (by intro _; rfl) (by intro _; rfl)).2
        · have hocc' : isOccupied g s next w = false := by simpa using hocc
          simp only [hocc', Bool.false_eq_true, if_false]
          by_cases hready : isSetupReady g s next w = true
          · simp only [hready, if_true, Bool.not_true, Bool.false_eq_true, if_false]
            split
            · exact traverseNode_cl H w s next _ .up hw hcls l k hl (fun h => by cases h)
            · rename_i hnc
              split
              · refine traverseNode_cl H w s next _ .down hw hcls l k hl (fun _ => ?_)
                obtain ⟨d, hd⟩ : ∃ d, PShape g (s.wd w).path d := by
                  rcases k.sh with h | h
                  · rw [h] at hl; simp at hl
                  · exact h
                exact hd.allDown next hl (by simpa using hnc)
              · exact Post.raise l [] _
          · have hready' : isSetupReady g s next w = false := by simpa using hready
            simp only [hready', Bool.false_eq_true, if_false, Bool.not_false, if_true]
            split
            · cases hp : pickParent g s next w with
              | none => exact Post.raise l [] _
              | some r => obtain ⟨c, s2⟩ := r; exact post_pushParent H hw l k hl hp []
            · split
              · cases hp : pickParent g s next w with
                | none => exact Post.raise l [] _
                | some r => obtain ⟨c, s2⟩ := r; exact post_pushParent H hw l k hl hp []
              · exact Post.raise l [] _

theorem same_reveal (w : Nat) (g : Graph) (s : State) (f v : Nat) : Same w s (reveal g s f v) := by
  unfold reveal
  dsimp only
  split
  · exact ⟨⟨fun _ => rfl, rfl, fun _ _ => rfl, fun h => h, rfl, rfl⟩, rfl⟩
  · refine ⟨⟨fun _ => rfl, rfl, fun _ _ => rfl, fun h => ?_, rfl, rfl⟩, rfl⟩
    show s.hidden.filter _ = []
    rw [h]; rfl

theorem same_prepare (w : Nat) (g : Graph) (s : State) : Same w s (prepare g s w) := by
  unfold prepare
  dsimp only
  cases (s.wd w).path.getLast? with
  | none => exact Same.refl w s
  | some next =>
    dsimp only
    have h0 : Same w s (s.setWd w (fun d => { d with unexplored := !(unexploredNodes (vis g s) s).isEmpty })) :=
      same_setWd w s _ (fun _ => rfl) (fun _ => rfl)
    split
    · exact h0.trans (same_reveal w g _ next w)
    · exact h0

/-- one iteration on a pre-parsed graph -/
theorem iterL_cl {g : Graph} (H : Hyp g) (w : Nat) (s : State) (hw : w < s.workers.length) (hcls : ClsIn g s)
    (hh : s.hidden = []) (l : Loc g w s) (k : Walk g w s) : Post g w s (iterL g s w) := by
  unfold iterL
  split
  · rw [vis_of_nil g s hh]
    exact iter_cl H w s hw hcls l k
  · dsimp only
    have h0 := same_prepare w g s
    rw [vis_of_nil g _ (h0.1.hid hh)]
    exact Post.of_same h0 (iter_cl H w _ (by rw [h0.1.wl]; exact hw) (fun n hn => by rw [h0.1.rl]; exact hcls n hn)
      (h0.1.loc l) (h0.1.walk k))

theorem pc_setWd_pc (s : State) (w : Nat) (pc : Pc) (hw : w < s.workers.length) :
    ((s.setWd w (fun d => { d with pc := pc })).wd w).pc = pc := by
  rw [wd_setWd_eq s w _ hw]

/-- the loop up to the next suspension -/
theorem runLoop_cl {g : Graph} (H : Hyp g) (w : Nat) (fuel : Nat) (s : State) (evs : List Event)
    (hw : w < s.workers.length) (hcls : ClsIn g s) (hh : s.hidden = []) (l : Loc g w s) (k : Walk g w s)
    (hpc : PcC g w s ∨ 0 < fuel) :
    Fr w s (runLoop g w fuel s evs).1 ∧ Loc g w (runLoop g w fuel s evs).1 ∧
      (Walk g w (runLoop g w fuel s evs).1 ∨ pcFailed ((runLoop g w fuel s evs).1.wd w).pc = true) ∧
      PcC g w (runLoop g w fuel s evs).1 := by
  induction fuel generalizing s evs with
  | zero =>
    unfold runLoop
    exact ⟨Fr.refl w s, l, Or.inl k, hpc.resolve_right (by omega)⟩
  | succ fuel ih =>
    unfold runLoop
    dsimp only
    have h0 : Quiet w s (s.setWd w (fun d => { d with pc := .loop })) := quiet_setWd w s _ (fun _ => rfl)
    have hp0 : ((s.setWd w (fun d => { d with pc := .loop })).wd w).pc = .loop := pc_setWd_pc s w .loop hw
    have hw0 : w < (s.setWd w (fun d => { d with pc := .loop })).workers.length := by rw [h0.wl]; exact hw
    have hp := iterL_cl H w _ hw0 (fun n hn => by rw [h0.rl]; exact hcls n hn) (h0.hid hh) (h0.loc l) (h0.walk k)
    rcases hi : iterL g (s.setWd w (fun d => { d with pc := .loop })) w with ⟨s1, e, f⟩
    rw [hi] at hp
    obtain ⟨p1, p2, p3, p4⟩ := hp
    have hpc1 : PcC g w s1 := by
      rcases p4 with h | h
      · exact h
      · apply pcC_of_nonTest
        have h' : (s1.wd w).pc = .loop := h.trans hp0
        rw [h']; rfl
    have hfr : Fr w s s1 := h0.fr.trans p1
    have hw1 : w < s1.workers.length := by rw [hfr.wl]; exact hw
    cases f with
    | cont =>
      dsimp only
      obtain ⟨q1, q2, q3, q4⟩ := ih s1 (evs ++ e) hw1 (fun n hn => by rw [hfr.rl]; exact hcls n hn) (hfr.hid hh) p2 (p3 rfl)
        (Or.inl hpc1)
      exact ⟨hfr.trans q1, q2, q3, q4⟩
    | suspend => exact ⟨hfr, p2, Or.inl (p3 rfl), hpc1⟩
    | exit => exact ⟨hfr, p2, Or.inl (p3 rfl), hpc1⟩
    | raise what =>
      dsimp only
      have h2 : Quiet w s1 (s1.setWd w (fun d => { d with pc := .failed })) := quiet_setWd w s1 _ (fun _ => rfl)
      have hpf := pc_setWd_pc s1 w .failed hw1
      refine ⟨hfr.trans h2.fr, h2.loc p2, Or.inr (by rw [hpf]; rfl), pcC_of_nonTest (by rw [hpf]; rfl)⟩

/-! ## the resumption part of a step -/

/-- what a whole step (or its tail) of worker `w` guarantees -/
def Done (g : Graph) (w : Nat) (s s' : State) : Prop :=
  Fr w s s' ∧ Loc g w s' ∧ (Walk g w s' ∨ pcFailed (s'.wd w).pc = true) ∧ PcC g w s'

theorem Strong.done {g : Graph} {w : Nat} {s s' : State} (h : Strong g w s s') : Done g w s s' :=
  ⟨h.1, h.2.1, Or.inl h.2.2.1, h.2.2.2⟩

theorem Done.of_quiet {g : Graph} {w : Nat} {s s1 s2 : State} (a : Quiet w s s1) (h : Done g w s1 s2) : Done g w s s2 :=
  ⟨a.fr.trans h.1, h.2.1, h.2.2.1, h.2.2.2⟩

theorem same_reportOutcomeR (g : Graph) (s : State) (w n : Nat) (phase : Phase) (uid : String) (wait : Nat) (out : Outcome) :
    Same w s (reportOutcomeR g s w n phase uid wait out).1 := by
  unfold reportOutcomeR
  dsimp only
  split
  · split
    · split
      · exact (quiet_job w s _).trans (quiet_store w _ _)
      · exact quiet_job w s _
    · exact Same.refl w s
  · exact Same.refl w s

theorem same_recordResultR (s : State) (w n : Nat) (phase : Phase) (name uid : String) (tag : Nat) (st0 : String) (dur : Nat) :
    Same w s (recordResultR s w n phase name uid tag st0 dur).1 := by
  unfold recordResultR
  dsimp only
  have hX : ∀ (c : Bool) (jr : List (String × String × String × Nat)),
      Same w s (if c = true then { s with jobResults := jr } else s) := by
    intro c jr
    cases c
    · exact Same.refl w s
    · exact quiet_job w s jr
  by_cases hp : (phase == Phase.pre) = true
  · simp only [hp, if_true]
    exact (hX _ _).trans (same_setWd w _ _ (fun _ => rfl) (fun _ => rfl))
  · simp only [hp, Bool.false_eq_true, if_false]
    exact (hX _ _).trans (quiet_setNd w _ n _)

theorem continueAfter_cl {g : Graph} (H : Hyp g) (w n : Nat) (ph : Phase) (dir : Dir) (fuel : Nat) (hf : 0 < fuel)
    (s : State) (ok : Bool) (evs : List Event) (hw : w < s.workers.length) (hcls : ClsIn g s) (hh : s.hidden = [])
    (l : Loc g w s) (k : Walk g w s) (hlast : (s.wd w).path.getLast? = some n)
    (hdown : dir = .down → PShape g (s.wd w).path true) :
    Done g w s (resumeTest.continueAfter g w n ph dir fuel s ok evs).1 := by
  unfold resumeTest.continueAfter
  dsimp only
  by_cases hc : (ph == Phase.pre && ok) = true
  · simp only [hc, if_true]
    have h3 := startTest_cl (g := g) w s n .main dir hw l k hlast hdown
    rcases hst : startTest g s n w .main dir with ⟨s2, e2, f⟩
    rw [hst] at h3
    exact h3.done
  · simp only [hc, Bool.false_eq_true, if_false]
    have hsd : Same w s (if (ph == Phase.pre) = true then
          s.setNd n (fun d => { d with results := d.results ++ List.drop d.results.length (s.wd w).preResults })
        else s) := by
      split
      · exact quiet_setNd w s n _
      · exact Same.refl w s
    generalize (if (ph == Phase.pre) = true then
          s.setNd n (fun d => { d with results := d.results ++ List.drop d.results.length (s.wd w).preResults })
        else s) = sd at hsd ⊢
    have hF : Same w s (finishTraverse sd n w) := hsd.trans (same_finishTraverse w sd n w)
    have hwF : w < (finishTraverse sd n w).workers.length := by rw [hF.1.wl]; exact hw
    have hclsF : ClsIn g (finishTraverse sd n w) := fun m hm => by rw [hF.1.rl]; exact hcls m hm
    have hhF : (finishTraverse sd n w).hidden = [] := hF.1.hid hh
    rw [vis_of_nil g _ hhF]
    have h3 := afterTraverse_cl H w (finishTraverse sd n w) n ((s.wd w).path.getD ((s.wd w).path.length - 2) 0) dir
      hwF hclsF (hF.1.loc l) (hF.1.walk k) (by rw [hF.1.path]; exact hlast) (by rw [hF.1.path]; exact hdown)
    rcases hat : afterTraverse g (finishTraverse sd n w) w n ((s.wd w).path.getD ((s.wd w).path.length - 2) 0) dir
      with ⟨s2, e2, f⟩
    rw [hat] at h3
    obtain ⟨p1, p2, p3, _⟩ := h3
    have hfr : Fr w s s2 := hF.1.fr.trans p1
    have hw2 : w < s2.workers.length := by rw [hfr.wl]; exact hw
    have hloop : raises f = false → Done g w s (runLoop g w fuel s2 (evs ++ e2)).1 := by
      intro hnr
      obtain ⟨q1, q2, q3, q4⟩ := runLoop_cl H w fuel s2 (evs ++ e2) hw2 (fun m hm => by rw [hfr.rl]; exact hcls m hm)
        (hfr.hid hh) p2 (p3 hnr) (Or.inr hf)
      exact ⟨hfr.trans q1, q2, q3, q4⟩
    cases f with
    | raise what =>
      dsimp only
      have h2 : Quiet w s2 (s2.setWd w (fun d => { d with pc := .failed })) := quiet_setWd w s2 _ (fun _ => rfl)
      have hpf := pc_setWd_pc s2 w .failed hw2
      exact ⟨hfr.trans h2.fr, h2.loc p2, Or.inr (by rw [hpf]; rfl), pcC_of_nonTest (by rw [hpf]; rfl)⟩
    | cont => exact hloop rfl
    | suspend => exact hloop rfl
    | exit => exact hloop rfl

theorem resumeTest_cl {g : Graph} (H : Hyp g) (s : State) (w n : Nat) (ph : Phase) (dir : Dir) (uid : String)
    (tag wait : Nat) (out : Outcome) (fuel : Nat) (hf : 0 < fuel) (hw : w < s.workers.length) (hcls : ClsIn g s)
    (hh : s.hidden = []) (l : Loc g w s) (k : Walk g w s) (hlast : (s.wd w).path.getLast? = some n)
    (hdown : dir = .down → PShape g (s.wd w).path true) :
    Done g w s (resumeTest g s w n ph dir uid tag wait out fuel).1 := by
  rw [resumeTest_eqR]
  have ha := same_reportOutcomeR g s w n ph uid wait out
  have hwa : w < (reportOutcomeR g s w n ph uid wait out).1.workers.length := by rw [ha.1.wl]; exact hw
  have hwait : Done g w s
      ((reportOutcomeR g s w n ph uid wait out).1.setWd w (fun d => { d with pc := .test n ph dir uid tag (wait + 1) })) :=
    (post_test (fun d => { d with pc := .test n ph dir uid tag (wait + 1) }) n ph dir uid tag (wait + 1) hwa ha.1 l k hlast hdown
      (fun _ => rfl) (fun _ => rfl)).done
  have hcont : ∀ sb ok, Same w (reportOutcomeR g s w n ph uid wait out).1 sb →
      Done g w s (resumeTest.continueAfter g w n ph dir fuel sb ok (reportOutcomeR g s w n ph uid wait out).2).1 := by
    intro sb ok hb
    have hab := ha.trans hb
    exact Done.of_quiet hab.1 (continueAfter_cl H w n ph dir fuel hf sb ok _ (by rw [hab.1.wl]; exact hw)
      (fun m hm => by rw [hab.1.rl]; exact hcls m hm) (hab.1.hid hh) (hab.1.loc l) (hab.1.walk k)
      (by rw [hab.1.path]; exact hlast) (by rw [hab.1.path]; exact hdown))
  split
  · next st0 dur _ => exact hcont _ _ (same_recordResultR _ w n ph _ uid tag st0 dur)
  · split
    · exact hwait
    · split
      · exact hwait
      · exact hcont _ _ (Same.refl w _)

/-- one scheduler step of a real worker with fuel on a pre-parsed graph -/
theorem resume_cl {g : Graph} (H : Hyp g) (s : State) (w : Nat) (out : Outcome) (fuel : Nat) (hf : 0 < fuel)
    (hw : w < s.workers.length) (hcls : ClsIn g s) (hh : s.hidden = []) (l : Loc g w s)
    (k : Walk g w s ∨ pcFailed (s.wd w).pc = true) (c : PcC g w s) :
    Done g w s (resume g s w out fuel).1 := by
  have hloop : pcFailed (s.wd w).pc = false → Done g w s (runLoop g w fuel s []).1 := by
    intro hnf
    have k' : Walk g w s := k.resolve_right (by rw [hnf]; simp)
    exact runLoop_cl H w fuel s [] hw hcls hh l k' (Or.inr hf)
  unfold resume
  split
  · next hpc => exact hloop (by rw [hpc]; rfl)
  · next hpc => exact hloop (by rw [hpc]; rfl)
  · next n ph dir uid tag wait hpc =>
    have k' : Walk g w s := k.resolve_right (by rw [hpc]; simp [pcFailed])
    obtain ⟨c1, c2⟩ := c n ph dir uid tag wait hpc
    exact resumeTest_cl H s w n ph dir uid tag wait out fuel hf hw hcls hh l k' c1 c2
  · exact ⟨Fr.refl w s, l, k, c⟩
  · exact ⟨Fr.refl w s, l, k, c⟩

/-! ## the invariant over the reachable states -/

structure CInv (g : Graph) (s : State) : Prop where
  hid : s.hidden = []
  wl : s.workers.length = g.workers.length
  cls : ClsIn g s
  loc : ∀ v, Loc g v s
  walk : ∀ v, Walk g v s ∨ pcFailed (s.wd v).pc = true
  pc : ∀ v, PcC g v s

theorem CInv.step {g : Graph} (H : Hyp g) {s : State} (ci : CInv g s) (w : Nat) (out : Outcome) (fuel : Nat)
    (hw : w < g.workers.length) (hf : 0 < fuel) : CInv g (resume g s w out fuel).1 := by
  obtain ⟨d1, d2, d3, d4⟩ := resume_cl H s w out fuel hf (by rw [ci.wl]; exact hw) ci.cls ci.hid (ci.loc w) (ci.walk w) (ci.pc w)
  refine ⟨d1.hid ci.hid, d1.wl.trans ci.wl, fun n hn => by rw [d1.rl]; exact ci.cls n hn, fun v => ?_, fun v => ?_, fun v => ?_⟩
  · by_cases hv : v = w
    · subst hv; exact d2
    · exact d1.loc_other hv (ci.loc v)
  · by_cases hv : v = w
    · subst hv; exact d3
    · rcases ci.walk v with h | h
      · exact Or.inl (d1.walk_other hv h)
      · right; rw [d1.others v hv]; exact h
  · by_cases hv : v = w
    · subst hv; exact d4
    · exact d1.pcC_other hv (ci.pc v)

theorem CInv.init (g : Graph) (H : Hyp g) (ncls : Nat) (hK : ClsOk g ncls) (store : List (String × List (String × String))) :
    CInv g (initState g ncls store []) := by
  have hcr : ∀ c, (initState g ncls store []).cr c = {} := by
    intro c
    unfold initState State.cr
    simp only [List.getD_eq_getElem?_getD, List.getElem?_map]
    cases (List.range ncls)[c]? <;> rfl
  have hwd : ∀ v, ((initState g ncls store []).wd v) = { path := [g.root] } ∨ ((initState g ncls store []).wd v) = {} := by
    intro v
    unfold initState State.wd
    simp only [List.getD_eq_getElem?_getD, List.getElem?_map]
    cases g.workers[v]?
    · right; rfl
    · left; rfl
  have hnd : ∀ v c, ¬ Dr (initState g ncls store []) v c := by
    rintro v c ⟨cp, h⟩
    rw [hcr] at h; simp [regWorkers] at h
  refine ⟨rfl, by simp [initState], fun n hn => by simp only [initState, List.length_map, List.length_range]; exact hK n hn,
    fun v => ⟨?_, fun c h => absurd h (hnd v c)⟩, fun v => Or.inl ⟨?_, ?_⟩, fun v => ?_⟩
  · intro x hx
    rcases hwd v with h | h
    · rw [h] at hx
      have : x = g.root := by simpa using hx
      rw [this]
      exact ⟨H.wf.root_lt, by unfold relevant; rw [H.top.1]; rfl⟩
    · rw [h] at hx; simp at hx
  · rcases hwd v with h | h
    · rw [h]; exact Or.inr ⟨true, .one g.root⟩
    · rw [h]; exact Or.inl rfl
  · intro x _; exact hnd v _
  · apply pcC_of_nonTest
    rcases hwd v with h | h <;> rw [h] <;> rfl

/-- the states the scheduler can produce on a pre-parsed graph: any finite sequence of `resume` steps of real workers
with any outcomes and any positive fuel (the fuel only bounds the number of loop iterations of one step in the driver; with
fuel 0 a step may stop before the pc is reset) -/
inductive ReachC (g : Graph) (ncls : Nat) (store : List (String × List (String × String))) : State → Prop
  | init : ReachC g ncls store (initState g ncls store [])
  | step (s : State) (w : Nat) (out : Outcome) (fuel : Nat) :
      ReachC g ncls store s → w < g.workers.length → 0 < fuel → ReachC g ncls store (resume g s w out fuel).1

theorem ReachC.reachH {g : Graph} {ncls : Nat} {store : List (String × List (String × String))} {s : State}
    (h : ReachC g ncls store s) : ReachH g ncls store [] s := by
  induction h with
  | init => exact .init
  | step s w out fuel _ _ _ ih => exact .step s w out fuel ih

theorem ReachC.cinv {g : Graph} (H : Hyp g) {ncls : Nat} (hK : ClsOk g ncls) {store : List (String × List (String × String))}
    {s : State} (h : ReachC g ncls store s) : CInv g s := by
  induction h with
  | init => exact CInv.init g H ncls hK store
  | step s w out fuel _ hw hf ih => exact ih.step H w out fuel hw hf

theorem reachC_runSched (g : Graph) (ncls : Nat) (store : List (String × List (String × String))) (fuel : Nat) (hf : 0 < fuel)
    (l : List (Nat × Outcome)) (hl : ∀ p ∈ l, p.1 < g.workers.length) (s : State) (h : ReachC g ncls store s) :
    ReachC g ncls store (runSched g fuel s l) := by
  induction l generalizing s with
  | nil => exact h
  | cons p l ih =>
    exact ih (fun q hq => hl q (List.mem_cons_of_mem _ hq)) _ (ReachC.step s p.1 p.2 fuel h (hl p List.mem_cons_self) hf)

/-- "dropped means done": a worker awaiting a test awaits it on a node it has not dropped as a cleanup child -/
theorem CInv.not_dropped_in_flight {g : Graph} {s : State} (ci : CInv g s) (v n : Nat) (ph : Phase) (dir : Dir) (uid : String)
    (tag wait : Nat) (hpc : (s.wd v).pc = .test n ph dir uid tag wait) : ¬ Dr s v (g.node n).cls := by
  have hk : Walk g v s := (ci.walk v).resolve_right (by rw [hpc]; simp [pcFailed])
  exact hk.a n (List.mem_of_getLast? (ci.pc v n ph dir uid tag wait hpc).1)

/-! ## what the run-level statement of C05 needs besides the invariant -/

/-- worker `v` lies within the scope the clean decision of worker `w` waits for (`default_clean_decision`: the
cleaning worker's swarm id occurs in the id of the involved worker, or the cleaning worker is a `localhost` one) -/
def InScope (g : Graph) (w v : Nat) : Bool :=
  (g.worker w).swarm == "localhost" || strIn (g.worker w).swarm (g.worker v).id

/-- all workers wait for each other: one swarm (or `localhost` workers) -/
def OneScope (g : Graph) : Prop :=
  ∀ w, w < g.workers.length → ∀ v, v < g.workers.length → InScope g w v = true

instance (g : Graph) : Decidable (OneScope g) := by unfold OneScope; infer_instance

/-- a node sets states of its own objects only -/
def SetsInObjs (g : Graph) : Prop :=
  ∀ n, n < g.nodes.length → ∀ vs ∈ (g.node n).sets, vs.1 ∈ (g.node n).objs

instance (g : Graph) : Decidable (SetsInObjs g) := by unfold SetsInObjs; infer_instance

/-- the (decidable) well-formedness of the static description that the run-level theorems assume -/
def WellFormed (g : Graph) (ncls : Nat) : Prop :=
  graphWF g = true ∧ ownerNamesB g = true ∧ FlatClass g ∧ EdgeSym g ∧ CopyUniq g ∧ RootTop g ∧ ClsOk g ncls ∧ SetsInObjs g

instance (g : Graph) (ncls : Nat) : Decidable (WellFormed g ncls) := by unfold WellFormed; infer_instance

theorem WellFormed.hyp {g : Graph} {ncls : Nat} (h : WellFormed g ncls) : Hyp g :=
  ⟨GraphWF.of_bool h.1, h.2.2.2.1, relUniq_of (ownerNamesB_sound h.2.1) h.2.2.1 h.2.2.2.2.1, h.2.2.2.2.2.1⟩

/-- the node a worker is executing -/
def pcNode : Pc → Option Nat
  | .test n .. => some n
  | _ => none

/-- an `unset` request of `sync_states` is restricted to the acting worker's own pool -/
theorem syncStates_unset_own (g : Graph) (s : State) (n v : Nat) (rv : Option (List String)) (wid : String)
    (reqs : List (String × String)) (sc : List String) (ok : Bool)
    (h : Event.door wid "unset" reqs sc ok ∈ (syncStates g s n v rv).2) : sc = ["own"] ∧ ok = true := by
  unfold syncStates at h
  dsimp only at h
  by_cases hc : (syncAcc (g.node n) rv).1 = true
  · simp only [hc, Bool.not_true, Bool.false_eq_true, if_false] at h
    by_cases ha : (syncAcc (g.node n) rv).2.1 = "unset"
    · simp only [ha, beq_self_eq_true, if_true, List.mem_singleton, Event.door.injEq] at h
      exact ⟨h.2.2.2.1, h.2.2.2.2⟩
    · have hne : ((syncAcc (g.node n) rv).2.1 == "unset") = false := by simpa using ha
      simp only [hne, Bool.false_eq_true, if_false, List.mem_singleton, Event.door.injEq] at h
      simp at h
  · have : (syncAcc (g.node n) rv).1 = false := by simpa using hc
    simp [this] at h

/-- a positive clean decision is about the worker's own parsed copy, not a clone source, not a dry run -/
theorem cleanDecision_true (g : Graph) (s : State) (n w : Nat) (h : cleanDecision g s n w = .ok true) :
    (g.node n).flat = false ∧ (g.node n).cloneSource = false ∧ (g.node n).dryRun = false ∧ g.idIn w n = true := by
  unfold cleanDecision at h
  dsimp only at h
  cases h1 : (g.node n).dryRun <;> cases h2 : (g.node n).flat <;> cases h3 : (g.node n).cloneSource <;>
    cases h4 : g.idIn w n <;> simp [h1, h2, h3, h4] at h ⊢

theorem sameNodes_cloneSource {gv g : Graph} (h : SameNodes gv g) (n : Nat) : (gv.node n).cloneSource = (g.node n).cloneSource := by
  have := congrArg Node.cloneSource (h.node n); exact this

theorem sameNodes_dryRun {gv g : Graph} (h : SameNodes gv g) (n : Nat) : (gv.node n).dryRun = (g.node n).dryRun := by
  have := congrArg Node.dryRun (h.node n); exact this

theorem mem_dedup (l : List Nat) (a : Nat) : a ∈ dedupNat l ↔ a ∈ l := by
  induction l with
  | nil => simp [dedupNat]
  | cons b l ih =>
    unfold dedupNat
    by_cases h : l.contains b = true
    · simp only [h, if_true, ih, List.mem_cons]
      constructor
      · exact Or.inr
      · rintro (rfl | h')
        · simpa using h
        · exact h'
    · simp only [h, Bool.false_eq_true, if_false, List.mem_cons, ih]

/-- the default reuse scope: results and `finished` marks of all copies of a class count for every worker (all four
pool scopes enabled) -/
def GlobalShape (g : Graph) : Prop := ∀ n, n < g.nodes.length → (g.node n).shape = .global

instance (g : Graph) : Decidable (GlobalShape g) := by unfold GlobalShape; infer_instance

/-- `is_finished(worker, -1)` with the global shape: whoever left a `finished` mark on a copy is involved -/
theorem involved_of_finished (g : Graph) (s : State) (p w m u : Nat) (hp : p < g.nodes.length)
    (hpf : (g.node p).flat = false) (hsh : (g.node p).shape = .global) (hfin : isFinished g s p w (-1) = true)
    (hm : m < g.nodes.length) (hmc : (g.node m).cls = (g.node p).cls) (hmf : (s.nd m).finished = some u) :
    u ∈ involved g s p := by
  unfold isFinished scopeCount at hfin
  simp only [hpf, hsh, Bool.false_eq_true, if_false, beq_self_eq_true, if_true] at hfin
  unfold sameList at hfin
  rw [Bool.and_eq_true, List.all_eq_true] at hfin
  have hu : u ∈ sharedFinished g s p := by
    unfold sharedFinished
    rw [mem_dedup, List.mem_filterMap]
    exact ⟨m, (mem_copies g p m hp hpf).mpr ⟨hm, hmc⟩, hmf⟩
  have := hfin.1 u hu
  simpa using this

/-- the copy of `p` the clean decision looks at for worker `v` -/
theorem pickedOf_spec (g : Graph) (p v m : Nat) (hp : p < g.nodes.length) (hpf : (g.node p).flat = false)
    (h : (if g.idIn v p then some p else (g.copies p).tail.find? (fun m => g.idIn v m)) = some m) :
    m < g.nodes.length ∧ (g.node m).cls = (g.node p).cls ∧ g.idIn v m = true := by
  split at h
  · next hi => cases h; exact ⟨hp, rfl, hi⟩
  · have hpred := List.find?_some h
    have hmem := List.mem_of_mem_tail (List.mem_of_find?_eq_some h)
    have := (mem_copies g p m hp hpf).mp hmem
    exact ⟨this.1, this.2, hpred⟩

/-- "dropped means done" across a piece of a step of `w`: a node that worker `u ≠ w` is registered to have dropped is
not being executed by anybody but (possibly) `w` -/
theorem not_in_flight_of_dropped {g : Graph} {s sd : State} (ci : CInv g s) (t : Trv g [] s) (hO : OwnerNames g) {w : Nat}
    (a : Upd g [] w s sd) {v cp c : Nat} (hfc : (g.node c).flat = false) (hrel : relevant g v c = true)
    (hd : v ∈ regWorkers (sd.cr cp).droppedCleanup (some (g.node c).cls))
    (u : Nat) (hu : u ≠ w) (ph : Phase) (dir : Dir) (uid : String) (tag wait : Nat)
    (hpc : (s.wd u).pc = .test c ph dir uid tag wait) : False := by
  obtain ⟨hcl, hidu, _, _⟩ := t.pc u c ph dir uid tag wait hpc
  have huv : u = v := hO.uniq c hcl hfc u v hidu (relevant_nonflat hrel hfc)
  subst huv
  have hnd := ci.not_dropped_in_flight u c ph dir uid tag wait hpc
  rcases a.dropC _ _ u hd with h | ⟨h, _⟩
  · exact hnd ⟨_, h⟩
  · exact hu h

/-! ## instances for the witnesses of `Props/C05.lean` -/

/-- two workers of DIFFERENT swarms; `p` (nodes 0, 1) sets the removable state `vm1/p` (`unset_mode=fi`); its dependants
`c` (nodes 2, 3) and `d` (nodes 4, 5; two concurrent tries allowed); node 6 is the shared root -/
def exCross : Graph :=
  { workers := [{ id := "c1.net1", swarm := "c1" }, { id := "c2.net2", swarm := "c2" }],
    nodes := [
      { cls := 0, owner := some 0, name := "p.c1.net1", pfx := "1a1", objs := ["vm1"],
        sets := [("vm1", "p")], unsetMode := [("vm1", "fi")], setup := [(6, ["vm1"])], cleanup := [(2, ["vm1"]), (4, ["vm1"])] },
      { cls := 0, owner := some 1, name := "p.c2.net2", pfx := "1a1", objs := ["vm1"],
        sets := [("vm1", "p")], unsetMode := [("vm1", "fi")], setup := [(6, ["vm1"])], cleanup := [(3, ["vm1"]), (5, ["vm1"])] },
      { cls := 1, owner := some 0, name := "c.c1.net1", pfx := "2a1", objs := ["vm1"],
        gets := [("vm1", "p")], setup := [(0, ["vm1"])] },
      { cls := 1, owner := some 1, name := "c.c2.net2", pfx := "2a1", objs := ["vm1"],
        gets := [("vm1", "p")], setup := [(1, ["vm1"])] },
      { cls := 2, owner := some 0, name := "d.c1.net1", pfx := "3a1", objs := ["vm1"], mct := some 2,
        gets := [("vm1", "p")], setup := [(0, ["vm1"])] },
      { cls := 2, owner := some 1, name := "d.c2.net2", pfx := "3a1", objs := ["vm1"], mct := some 2,
        gets := [("vm1", "p")], setup := [(1, ["vm1"])] },
      { cls := 3, owner := none, name := "noop", pfx := "1", flat := true, sharedRoot := true,
        cleanup := [(0, ["vm1"]), (1, ["vm1"])] }],
    root := 6 }

/-- `c1.net1` produced `p` and runs `c`; `c2.net2` reused `p` (told to fetch it from `c1.net1`'s pool) and runs `d` -/
def exX3 : State := runSched exCross 100 (initState exCross 4 [] []) [(0, exNoOut), (0, exPass), (1, exNoOut)]

/-- `c1.net1` alone: `p` passed, the result of `c` (node 2) was never reported (ten result waits, default ERROR, the
placeholder stays), `d` is running -/
def exX13 : State :=
  runSched exCross 100 (initState exCross 4 [] []) ([(0, exNoOut), (0, exPass)] ++ List.replicate 11 (0, exNoOut))

/-- the same two tests `p` (removable state; nodes 0, 1; the composite of the flat test 7) and `e` (nodes 2, 3; needs `p`
and the plain setup `q`, nodes 4, 5; the composite of the flat test 8) expanded lazily: initially only the shared root
(6) and the two flat tests exist -/
def exLazyB : Graph :=
  { workers := [{ id := "net1", swarm := "localhost" }, { id := "net2", swarm := "localhost" }],
    nodes := [
      { cls := 0, owner := some 0, name := "p.net1", pfx := "1a1", objs := ["vm1"],
        sets := [("vm1", "p")], unsetMode := [("vm1", "fi")], setup := [(6, ["vm1"]), (7, [])], cleanup := [(2, ["vm1"])] },
      { cls := 0, owner := some 1, name := "p.net2", pfx := "1a1", objs := ["vm1"],
        sets := [("vm1", "p")], unsetMode := [("vm1", "fi")], setup := [(6, ["vm1"]), (7, [])], cleanup := [(3, ["vm1"])] },
      { cls := 1, owner := some 0, name := "e.net1", pfx := "2a1", objs := ["vm1"],
        gets := [("vm1", "p")], setup := [(4, ["vm1"]), (0, ["vm1"]), (8, [])] },
      { cls := 1, owner := some 1, name := "e.net2", pfx := "2a1", objs := ["vm1"],
        gets := [("vm1", "p")], setup := [(5, ["vm1"]), (1, ["vm1"]), (8, [])] },
      { cls := 2, owner := some 0, name := "q.net1", pfx := "3a1", objs := ["vm1"],
        setup := [(6, ["vm1"])], cleanup := [(2, ["vm1"])] },
      { cls := 2, owner := some 1, name := "q.net2", pfx := "3a1", objs := ["vm1"],
        setup := [(6, ["vm1"])], cleanup := [(3, ["vm1"])] },
      { cls := 3, owner := none, name := "noop", pfx := "1", flat := true, sharedRoot := true,
        cleanup := [(7, []), (8, []), (0, ["vm1"]), (1, ["vm1"]), (4, ["vm1"]), (5, ["vm1"])] },
      { cls := 4, owner := none, name := "p", pfx := "1a", flat := true, setless := "p",
        setup := [(6, [])], cleanup := [(0, []), (1, [])] },
      { cls := 5, owner := none, name := "e", pfx := "2a", flat := true, setless := "e",
        setup := [(6, [])], cleanup := [(2, []), (3, [])] }],
    root := 6 }

/-- net1 expanded the flat test `p` for itself and runs its copy of `p`; net2 expanded the flat test `e` for itself
(its copies of `e`, `p`, `q` exist now) and runs `q` first: it has not picked its copy of `p` yet -/
def exB2 : State := runSched exLazyB 100 (initState exLazyB 6 [] [0, 1, 2, 3, 4, 5]) [(0, exNoOut), (1, exNoOut)]
/-- … `p` passed on net1 -/
def exB3 : State := (resume exLazyB exB2 0 exPass 100).1

end I2N.Trav.Clean
