import I2N.Model.Tools
/-!
Lemmas about `flag_children` / `flag_intersection` (C15): what one flagging pass does to the policy tables.
-/
namespace I2N.Tools

theorem set_get_same (fl : Flags) (ty : FlagType) (p : Pol) (n m : Nat) :
    (fl.set ty p n).get ty m = if m = n then p else fl.get ty m := by
  cases ty <;> simp [Flags.set, Flags.get, upd]

theorem set_get_other (fl : Flags) (ty ty' : FlagType) (p : Pol) (n m : Nat) (h : ty ≠ ty') :
    (fl.set ty p n).get ty' m = fl.get ty' m := by
  cases ty <;> cases ty' <;> simp_all [Flags.set, Flags.get]

theorem foldl_set_get (ty : FlagType) (p : Pol) : ∀ (l : List Nat) (fl : Flags) (m : Nat),
    (l.foldl (fun f n => f.set ty p n) fl).get ty m = if m ∈ l then p else fl.get ty m
  | [], fl, m => by simp
  | a :: l, fl, m => by
    simp only [List.foldl_cons, List.mem_cons]
    rw [foldl_set_get ty p l _ m, set_get_same]
    by_cases h1 : m ∈ l <;> by_cases h2 : m = a <;> simp [h1, h2]

theorem foldl_set_get_other (ty ty' : FlagType) (p : Pol) (h : ty ≠ ty') : ∀ (l : List Nat) (fl : Flags) (m : Nat),
    (l.foldl (fun f n => f.set ty p n) fl).get ty' m = fl.get ty' m
  | [], fl, m => by simp
  | a :: l, fl, m => by
    simp only [List.foldl_cons]
    rw [foldl_set_get_other ty ty' p h l _ m, set_get_other _ _ _ _ _ _ h]

/-- `k`-step reachability along the cleanup edges -/
inductive Steps (g : UGraph) : Nat → Nat → Nat → Prop
  | zero (a : Nat) : Steps g 0 a a
  | succ {k a b c : Nat} : b ∈ (g.node a).children → Steps g k b c → Steps g (k + 1) a c

theorem mem_reachWithin (g : UGraph) : ∀ (k : Nat) (cur : List Nat) (m : Nat),
    m ∈ reachWithin g k cur ↔ ∃ c ∈ cur, ∃ j, j ≤ k ∧ Steps g j c m
  | 0, cur, m => by
    simp only [reachWithin]
    constructor
    · intro h; exact ⟨m, h, 0, Nat.le_refl 0, Steps.zero m⟩
    · rintro ⟨c, hc, j, hj, hs⟩
      have : j = 0 := by omega
      subst this
      cases hs
      exact hc
  | k + 1, cur, m => by
    simp only [reachWithin, List.mem_append]
    rw [mem_reachWithin g k _ m]
    constructor
    · rintro (h | ⟨b, hb, j, hj, hs⟩)
      · exact ⟨m, h, 0, by omega, Steps.zero m⟩
      · obtain ⟨a, ha, hba⟩ := List.mem_flatMap.mp hb
        exact ⟨a, ha, j + 1, by omega, Steps.succ hba hs⟩
    · rintro ⟨c, hc, j, hj, hs⟩
      cases hs with
      | zero => exact Or.inl hc
      | succ hb hs' => exact Or.inr ⟨_, List.mem_flatMap.mpr ⟨c, hc, hb⟩, _, by omega, hs'⟩

/-- the nodes `flag_children` flags, given its unique root -/
def flaggedBy (g : UGraph) (r : Nat) (skipParents skipChildren : Bool) : List Nat :=
  let start := if skipParents then (g.node r).children else [r]
  if skipChildren then start else reachWithin g g.nodes.length start

theorem flagChildren_ok {g : UGraph} {fl fl' : Flags} {nodeName : List String} {objectName : String}
    {sel : Option (String × String)} {ty : FlagType} {p : Pol} {sp sc : Bool}
    (h : flagChildren g fl nodeName objectName sel ty p sp sc = .ok fl') :
    ∃ r, selectRoots g nodeName objectName sel = [r] ∧
      (∀ m, fl'.get ty m = if m ∈ flaggedBy g r sp sc then p else fl.get ty m) ∧
      (∀ ty' m, ty ≠ ty' → fl'.get ty' m = fl.get ty' m) := by
  unfold flagChildren at h
  split at h
  · rename_i r hr
    simp only [Except.ok.injEq] at h
    subst h
    exact ⟨r, hr, fun m => foldl_set_get ty p _ fl m, fun ty' m hne => foldl_set_get_other ty ty' p hne _ fl m⟩
  · simp at h

theorem flagChildren_error {g : UGraph} {fl : Flags} {nodeName : List String} {objectName : String}
    {sel : Option (String × String)} {ty : FlagType} {p : Pol} {sp sc : Bool}
    (h : (selectRoots g nodeName objectName sel).length ≠ 1) :
    flagChildren g fl nodeName objectName sel ty p sp sc = .error .assertionError := by
  unfold flagChildren
  split
  · rename_i r hr; rw [hr] at h; simp at h
  · rfl

/-- the matches of a node in the other graph -/
def matchesOf (g : UGraph) (otherNames : List String) (i : Nat) : List String :=
  otherNames.filter (fun nm => endsWithStr nm (g.node i).setless)

/-- whether `flag_intersection` assigns the policy to node `i` -/
def hit (g : UGraph) (otherNames : List String) (so ss : Bool) (i : Nat) : Bool :=
  (matchesOf g otherNames i).length == 1 &&
    !(((g.node i).sharedRoot && ss) || (!(g.node i).objectRoot.isEmpty && so))

theorem flagIntersection_loop (g : UGraph) (otherNames : List String) (ty : FlagType) (p : Pol) (so ss : Bool) :
    ∀ (l : List Nat) (fl fl' : Flags),
      l.foldlM (fun f i =>
        let nd := g.node i
        match otherNames.filter (fun nm => endsWithStr nm nd.setless) with
        | [] => (.ok f : Except Err Flags)
        | [_] => if (nd.sharedRoot && ss) || (!nd.objectRoot.isEmpty && so) then .ok f else .ok (f.set ty p i)
        | _ :: _ :: _ => .error .valueError) fl = .ok fl' →
      (∀ m, fl'.get ty m = if m ∈ l ∧ hit g otherNames so ss m = true then p else fl.get ty m) ∧
      (∀ ty' m, ty ≠ ty' → fl'.get ty' m = fl.get ty' m) ∧
      (∀ i ∈ l, (matchesOf g otherNames i).length ≤ 1)
  | [], fl, fl', h => by
    simp only [List.foldlM_nil, pure, Except.pure, Except.ok.injEq] at h
    subst h
    simp
  | a :: l, fl, fl', h => by
    simp only [List.foldlM_cons, bind, Except.bind] at h
    split at h
    · simp at h
    · rename_i f1 hf1
      have ih := flagIntersection_loop g otherNames ty p so ss l f1 fl' h
      -- what the first iteration did
      have hfirst : (∀ m, f1.get ty m = if m = a ∧ hit g otherNames so ss a = true then p else fl.get ty m) ∧
          (∀ ty' m, ty ≠ ty' → f1.get ty' m = fl.get ty' m) ∧ (matchesOf g otherNames a).length ≤ 1 := by
        simp only [hit, matchesOf]
        split at hf1
        · rename_i hm
          simp only [Except.ok.injEq] at hf1; subst hf1
          simp [hm]
        · rename_i x hm
          split at hf1
          · rename_i hs
            simp only [Except.ok.injEq] at hf1; subst hf1
            simp [hm, hs]
          · rename_i hs
            simp only [Except.ok.injEq] at hf1; subst hf1
            refine ⟨fun m => ?_, fun ty' m hne => set_get_other _ _ _ _ _ _ hne, by simp [hm]⟩
            rw [set_get_same]
            simp [hm, hs]
        · simp at hf1
      refine ⟨fun m => ?_, fun ty' m hne => ?_, ?_⟩
      · rw [ih.1 m, hfirst.1 m]
        simp only [List.mem_cons]
        by_cases h1 : m ∈ l <;> by_cases h2 : m = a <;> by_cases h3 : hit g otherNames so ss m = true <;>
          simp_all
      · rw [ih.2.1 ty' m hne, hfirst.2.1 ty' m hne]
      · intro i hi
        simp only [List.mem_cons] at hi
        rcases hi with rfl | hi
        · exact hfirst.2.2
        · exact ih.2.2 i hi

/-- **what `flag_intersection` does**: it succeeds only if no node has several matches; then exactly the nodes with one
match (minus the skipped roots) get the policy, everything else keeps what it had -/
theorem flagIntersection_ok {g : UGraph} {fl fl' : Flags} {otherNames : List String} {ty : FlagType} {p : Pol}
    {so ss : Bool} (h : flagIntersection g fl otherNames ty p so ss = .ok fl') :
    (∀ m, m < g.nodes.length → fl'.get ty m = if hit g otherNames so ss m = true then p else fl.get ty m) ∧
    (∀ m, g.nodes.length ≤ m → fl'.get ty m = fl.get ty m) ∧
    (∀ ty' m, ty ≠ ty' → fl'.get ty' m = fl.get ty' m) := by
  have := flagIntersection_loop g otherNames ty p so ss (List.range g.nodes.length) fl fl' h
  refine ⟨fun m hm => ?_, fun m hm => ?_, this.2.1⟩
  · rw [this.1 m]; simp [List.mem_range, hm]
  · rw [this.1 m]
    have : ¬ m < g.nodes.length := by omega
    simp [List.mem_range, this]

theorem bind_ok {α β : Type} {x : Except Err α} {f : α → Except Err β} {y : β} (h : (x >>= f) = .ok y) :
    ∃ a, x = .ok a ∧ f a = .ok y := by
  cases x with
  | error e => simp [bind, Except.bind] at h
  | ok a => exact ⟨a, rfl, h⟩

theorem mapAssertion_ok {r : Except Err Flags} {fl : Flags} (h : mapAssertion r = .ok fl) : r = .ok fl := by
  unfold mapAssertion at h
  split at h
  · simp at h
  · exact h


end I2N.Tools
