import I2N.Model.Tools
/-!
Lemmas about the setup chain loop of `Manu.run`, the dictionaries of the steps and the node creation loops (C20).
-/
namespace I2N.Tools

deriving instance DecidableEq for Except

/-! ## dictionaries -/

theorem dget_append (u d : Dict) (k : String) :
    dget (u ++ d) k = if dhas u k then dget u k else dget d k := by
  induction u with
  | nil => simp [dget, dhas]
  | cons a u ih =>
    by_cases h : a.1 == k
    · simp [dget, dhas, List.find?, h]
    · have h' : (a.1 == k) = false := by simpa using h
      simp only [dget, dhas, List.cons_append, List.find?, h', List.any_cons, Bool.false_or] at ih ⊢
      exact ih

theorem dget_cons_ne (a : String × String) (d : Dict) (k : String) (h : (a.1 == k) = false) :
    dget (a :: d) k = dget d k := by
  simp [dget, List.find?, h]

theorem dget_cons_eq (k v : String) (d : Dict) : dget ((k, v) :: d) k = some v := by
  simp [dget, List.find?]

theorem dhas_of_dget {d : Dict} {k v : String} (h : dget d k = some v) : dhas d k = true := by
  simp only [dget, Option.map_eq_some_iff] at h
  obtain ⟨a, ha, _⟩ := h
  simp only [dhas, List.any_eq_true]
  exact ⟨a, List.mem_of_find?_eq_some ha, by simpa using List.find?_some ha⟩

/-! ## `Params.objects` -/

theorem objects_of_nodup : ∀ (l : List String), l.Nodup → objects l = l
  | [], _ => rfl
  | x :: xs, h => by
    have hx : x ∉ xs := (List.nodup_cons.mp h).1
    have hxs := (List.nodup_cons.mp h).2
    simp only [objects, objects_of_nodup xs hxs]
    congr 1
    apply List.filter_eq_self.mpr
    intro a ha
    simp only [bne_iff_ne, ne_eq]
    intro hax; subst hax; exact hx ha

/-! ## the chain loop -/

theorem runChainFrom_executed {σ : Type} (known : String → Bool) (f : σ → String → Nat → Outcome × σ) :
    ∀ (chain : List String) (env : σ) (i rc : Nat), (∀ st ∈ chain, known st = true) →
      (runChainFrom known f env i rc chain).executed = chain.zipIdx i
  | [], _, _, _, _ => rfl
  | st :: rest, env, i, rc, hk => by
    have h1 : known st = true := hk st (List.mem_cons_self)
    simp only [runChainFrom, h1, Bool.not_true, Bool.false_eq_true, if_false, List.zipIdx_cons]
    rw [runChainFrom_executed known f rest _ _ _ (fun s hs => hk s (List.mem_cons_of_mem _ hs))]

theorem runChainFrom_outcomes_length {σ : Type} (known : String → Bool) (f : σ → String → Nat → Outcome × σ) :
    ∀ (chain : List String) (env : σ) (i rc : Nat), (∀ st ∈ chain, known st = true) →
      (runChainFrom known f env i rc chain).outcomes.length = chain.length
  | [], _, _, _, _ => rfl
  | st :: rest, env, i, rc, hk => by
    have h1 : known st = true := hk st (List.mem_cons_self)
    simp only [runChainFrom, h1, Bool.not_true, Bool.false_eq_true, if_false, List.length_cons]
    rw [runChainFrom_outcomes_length known f rest _ _ _ (fun s hs => hk s (List.mem_cons_of_mem _ hs))]

/-- the return code: 1 as soon as one step failed (or it was 1 already), never reset -/
theorem runChainFrom_ret {σ : Type} (known : String → Bool) (f : σ → String → Nat → Outcome × σ) :
    ∀ (chain : List String) (env : σ) (i rc : Nat), (∀ st ∈ chain, known st = true) →
      (runChainFrom known f env i rc chain).ret =
        .ok (if (runChainFrom known f env i rc chain).outcomes.any Outcome.fails then 1 else rc)
  | [], _, _, _, _ => by simp [runChainFrom]
  | st :: rest, env, i, rc, hk => by
    have h1 : known st = true := hk st (List.mem_cons_self)
    simp only [runChainFrom, h1, Bool.not_true, Bool.false_eq_true, if_false, List.any_cons]
    rw [runChainFrom_ret known f rest _ _ _ (fun s hs => hk s (List.mem_cons_of_mem _ hs))]
    cases hf : (f env st i).1.fails <;> simp

/-- an unknown step aborts the loop with `AttributeError`; the steps before it were executed -/
theorem runChainFrom_unknown {σ : Type} (known : String → Bool) (f : σ → String → Nat → Outcome × σ) :
    ∀ (pre : List String) (bad : String) (post : List String) (env : σ) (i rc : Nat),
      (∀ st ∈ pre, known st = true) → known bad = false →
      (runChainFrom known f env i rc (pre ++ bad :: post)).ret = .error .attributeError ∧
      (runChainFrom known f env i rc (pre ++ bad :: post)).executed = pre.zipIdx i
  | [], bad, post, env, i, rc, _, hb => by simp [runChainFrom, hb]
  | st :: rest, bad, post, env, i, rc, hk, hb => by
    have h1 : known st = true := hk st (List.mem_cons_self)
    have ih := runChainFrom_unknown known f rest bad post (f env st i).2 (i + 1)
      (if (f env st i).1.fails then 1 else rc) (fun s hs => hk s (List.mem_cons_of_mem _ hs)) hb
    simp only [List.cons_append, runChainFrom, h1, Bool.not_true, Bool.false_eq_true, if_false, List.zipIdx_cons]
    exact ⟨ih.1, by rw [ih.2]⟩

theorem envTrace_const {σ : Type} (known : String → Bool) (f : σ → String → Nat → Outcome × σ) (env : σ) :
    ∀ (chain : List String) (i : Nat), (∀ st j, (f env st j).2 = env) →
      ∀ e ∈ envTrace known f env i chain, e = env
  | [], _, _, e, he => by simp [envTrace] at he
  | st :: rest, i, hf, e, he => by
    simp only [envTrace] at he
    split at he
    · simp at he
    · simp only [List.mem_cons] at he
      rcases he with he | he
      · exact he
      · rw [hf st i] at he
        exact envTrace_const known f env rest (i + 1) hf e he

/-! ## node creation -/

theorem mem_buildPerVm {nw : Nat} {vmObjs : List String} {parse : Parser} {pd step : Dict} {nd : SNode} :
    nd ∈ buildPerVm nw vmObjs parse pd step ↔
      ∃ w, w < nw ∧ ∃ vm ∈ vmObjs, ∃ p ∈ parse w [vm],
        nd = { owner := w, vms := [vm], name := p.name, key := p.key, rank := p.rank,
               params := ("object_suffix", vm) :: perVmDict pd step vm } := by
  simp only [buildPerVm, List.mem_flatMap, List.mem_range, List.mem_map]
  constructor
  · rintro ⟨w, hw, vm, hvm, p, hp, rfl⟩; exact ⟨w, hw, vm, hvm, p, hp, rfl⟩
  · rintro ⟨w, hw, vm, hvm, p, hp, rfl⟩; exact ⟨w, hw, vm, hvm, p, hp, rfl⟩

theorem mem_oneNodeLoop {vms : List String} {parse : Parser} {d : Dict} :
    ∀ {ws : List Nat} {nodes : List SNode}, oneNodeLoop vms parse d ws = .ok nodes →
      ∀ nd, nd ∈ nodes ↔ ∃ w ∈ ws, ∃ p, parse w vms = [p] ∧
        nd = { owner := w, vms := vms, name := p.name, key := p.key, rank := p.rank, params := d }
  | [], nodes, h, nd => by simp [oneNodeLoop] at h; subst h; simp
  | w :: ws, nodes, h, nd => by
    unfold oneNodeLoop at h
    split at h
    · rename_i hp
      rw [mem_oneNodeLoop h nd]
      constructor
      · rintro ⟨w', hw', p, hp', rfl⟩; exact ⟨w', List.mem_cons_of_mem _ hw', p, hp', rfl⟩
      · rintro ⟨w', hw', p, hp', rfl⟩
        simp only [List.mem_cons] at hw'
        rcases hw' with rfl | hw'
        · rw [hp] at hp'; simp at hp'
        · exact ⟨w', hw', p, hp', rfl⟩
    · rename_i nm hp
      cases hr : oneNodeLoop vms parse d ws with
      | error e => rw [hr] at h; simp [Except.map] at h
      | ok rest =>
        rw [hr] at h
        simp only [Except.map, Except.ok.injEq] at h
        subst h
        simp only [List.mem_cons]
        rw [mem_oneNodeLoop hr nd]
        constructor
        · rintro (rfl | ⟨w', hw', p, hp', rfl⟩)
          · exact ⟨w, Or.inl rfl, nm, hp, rfl⟩
          · exact ⟨w', Or.inr hw', p, hp', rfl⟩
        · rintro ⟨w', hw', p, hp', rfl⟩
          rcases hw' with rfl | hw'
          · rw [hp] at hp'; simp only [List.cons.injEq, and_true] at hp'; subst hp'; exact Or.inl rfl
          · exact Or.inr ⟨w', hw', p, hp', rfl⟩
    · simp at h

theorem oneNodeLoop_error {vms : List String} {parse : Parser} {d : Dict} :
    ∀ {ws : List Nat} {e : Err}, oneNodeLoop vms parse d ws = .error e →
      e = .runtimeError ∧ ∃ w ∈ ws, 2 ≤ (parse w vms).length
  | [], e, h => by simp [oneNodeLoop] at h
  | w :: ws, e, h => by
    unfold oneNodeLoop at h
    split at h
    · obtain ⟨h1, w', hw', h2⟩ := oneNodeLoop_error h
      exact ⟨h1, w', List.mem_cons_of_mem _ hw', h2⟩
    · cases hr : oneNodeLoop vms parse d ws with
      | error e' =>
        rw [hr] at h
        simp only [Except.map, Except.error.injEq] at h
        subst h
        obtain ⟨h1, w', hw', h2⟩ := oneNodeLoop_error hr
        exact ⟨h1, w', List.mem_cons_of_mem _ hw', h2⟩
      | ok rest => rw [hr] at h; simp [Except.map] at h
    · rename_i a b rest hp
      simp only [Except.error.injEq] at h
      exact ⟨h.symm, w, List.mem_cons_self, by rw [hp]; simp⟩

end I2N.Tools
