import I2N.Lemmas.TravTerm
import I2N.Lemmas.TravPatient
/-!
Termination ACROSS suspensions for a single worker (property C02).

`Lemmas/TravTerm.lean` bounds the number of loop iterations of ONE block (`runLoop`, between two suspension points)
by `bound g`.  This file bounds the number of blocks — `resume` steps — of a whole run of a graph with one worker.

1. With one worker nobody else can hold a `started` mark (`PInvO.markPc`: the holder of a mark is inside a test or dead,
   and it is not the stepping worker), so `is_occupied` is false in every iteration (`isOccupied_noMarks`) and the
   back-off branch of `iter` is dead: a block ends inside a test, at the exit, or with an exception — never in `bounce`,
   and with `fuel ≥ bound g` never in `loop` (`runLoopO_single`, `resume_single`).
2. Hence every `resume` step of the worker that does not end the traversal either is a tick of the result wait
   (`wait + 1 ≤ 10`), or settles an execution and starts the next test, which appends a result (the UNKNOWN placeholder)
   to a node.  The counter `23·(number of results) + pcTerm` strictly grows with every such step (`Cnt`).
3. The number of results is bounded by the retry budgets of C03 (`ReachableR.budget` for stateless classes,
   `ReachableR.binv` for setup classes; no bump happens as nobody bounces).

Everything lives in the namespace `I2N.Trav.Global`.
-/
namespace I2N.Trav.Global
open I2N.Trav

/-! ## flows: where an iteration can suspend -/

def isSuspend : Flow → Bool
  | .suspend => true
  | _ => false

theorem afterTraverse_not_suspend (g : Graph) (s : State) (w next prev : Nat) (dir : Dir) :
    isSuspend (afterTraverse g s w next prev dir).2.2 = false := by
  unfold afterTraverse
  cases runDecision g s next w with
  | error e => rfl
  | ok r =>
    obtain ⟨run, s1, evs⟩ := r
    cases dir with
    | up => rfl
    | down =>
      dsimp only
      by_cases hrun : run = true
      · simp [hrun]; rfl
      · simp only [hrun, Bool.false_eq_true, if_false]
        by_cases hc : isCleanupReady g s1 next w = true
        · simp only [hc, if_true]
          by_cases hpost : (!(g.node next).flat && (s1.wd w).unexplored) = true
          · simp only [hpost, if_true]; rfl
          · simp only [hpost, Bool.false_eq_true, if_false]
            cases reverseNode g (List.foldl (fun s x => dropChild g s x.1 next w) s1 (g.node next).setup) next w with
            | error e => rfl
            | ok r => rfl
        · simp only [hc, Bool.false_eq_true, if_false]
          cases pickChild g s1 next w with
          | none => rfl
          | some r => rfl

/-- `traverse_node` suspends only inside a test it has just started -/
theorem traverseNode_suspend (g : Graph) (s : State) (w next prev : Nat) (dir : Dir)
    (hs : isSuspend (traverseNode g s w next prev dir).2.2 = true) :
    ∃ s1 ph, (traverseNode g s w next prev dir).1 = (startTest g s1 next w ph dir).1 ∧ s1.workers.length = s.workers.length := by
  unfold traverseNode at hs ⊢
  by_cases hocc : isOccupied g s next w = true
  · simp only [hocc, if_true] at hs
    rw [afterTraverse_not_suspend] at hs; cases hs
  · simp only [hocc, Bool.false_eq_true, if_false] at hs ⊢
    cases hd : runDecision g (pullLocations g (s.setNd next (fun d => { d with started := some w })) next) next w with
    | error e => rw [hd] at hs; cases hs
    | ok r =>
      obtain ⟨run, s1, evs⟩ := r
      have hlen : s1.workers.length = s.workers.length := by
        have a := (silent_pullLocations g w (s.setNd next (fun d => { d with started := some w })) next).workersLen
        have b := (silent_runDecision g w _ next w run s1 evs hd).workersLen
        rw [b, a]; rfl
      rw [hd] at hs
      dsimp only at hs ⊢
      by_cases hrun : run = true
      · subst hrun
        simp only [if_true] at hs ⊢
        by_cases hroot : (g.node next).objectRoot = true
        · simp only [hroot, if_true]
          exact ⟨_, .pre, rfl, by simp [State.setWd, hlen]⟩
        · simp only [hroot, Bool.false_eq_true, if_false]
          exact ⟨s1, .plain, rfl, hlen⟩
      · simp only [hrun, Bool.false_eq_true, if_false] at hs
        rw [afterTraverse_not_suspend] at hs; cases hs

theorem isOccupied_noMarks' (g : Graph) (s : State) (n w : Nat) (h : ∀ i, (s.nd i).started = none) :
    isOccupied g s n w = false := Term.isOccupied_noMarks g s n w h

/-- outcome of a piece of an iteration of worker `w` without back-off -/
structure IterOK (w : Nat) (s : State) (r : Step) : Prop where
  calm : Calm w s r.1
  susp : isSuspend r.2.2 = true → (r.1.wd w).pc.isTest = true
  exit : r.2.2.isExit = true → (r.1.wd w).pc = .done

theorem IterOK.quiet {w : Nat} {s s' : State} (hc : Calm w s s') (e : List Event) (f : Flow)
    (h1 : isSuspend f = false) (h2 : f.isExit = false) : IterOK w s (s', e, f) :=
  ⟨hc, fun hs => (by rw [h1] at hs; cases hs), fun he => (by rw [h2] at he; cases he)⟩

/-- one iteration in a state without `started` marks: the back-off branch is dead — the iteration bumps nothing and
leaves the back-off record alone, suspends only inside a test and exits with pc `done` -/
theorem iter_noMarks (gv : Graph) (s : State) (w : Nat) (hw : w < s.workers.length)
    (hm : ∀ i, (s.nd i).started = none) : IterOK w s (iter gv s w) := by
  have htrav : ∀ next prev dir, IterOK w s (traverseNode gv s w next prev dir) := by
    intro next prev dir
    refine ⟨calm_traverseNode w gv s w _ prev dir, fun hs => ?_, fun he => ?_⟩
    · obtain ⟨s1, ph, h1, h2⟩ := traverseNode_suspend gv s w _ prev dir hs
      rw [h1, startTest_pc gv s1 _ w ph dir (by rw [h2]; exact hw)]; rfl
    · rw [traverseNode_not_exit] at he; cases he
  unfold iter
  dsimp only
  split
  · split
    · refine ⟨calm_setWd w s w _ (fun _ => rfl) (fun _ => rfl), fun hs => (by cases hs), fun _ => ?_⟩
      show ((s.setWd w _).wd w).pc = .done
      rw [wd_setWd_eq s w _ hw]
    · exact IterOK.quiet (Calm.refl w s) _ _ rfl rfl
  · cases hl : (s.wd w).path.getLast? with
    | none => exact IterOK.quiet (Calm.refl w s) _ _ rfl rfl
    | some next =>
      dsimp only
      split
      · cases hp : pickChild gv s next w with
        | none => exact IterOK.quiet (Calm.refl w s) _ _ rfl rfl
        | some r =>
          obtain ⟨c, s2⟩ := r
          exact IterOK.quiet (calm_pickChild w gv s next w c s2 hp) _ _ rfl rfl
      · rw [isOccupied_noMarks' gv s next w hm]
        simp only [Bool.false_eq_true, if_false]
        split
        · split
          · exact htrav _ _ .up
          · cases hp : pickParent gv s next w with
            | none => exact IterOK.quiet (Calm.refl w s) _ _ rfl rfl
            | some r =>
              obtain ⟨c, s2⟩ := r
              exact IterOK.quiet (calm_pickParent w gv s next w c s2 hp) _ _ rfl rfl
        · split
          · split
            · cases hp : pickParent gv s next w with
              | none => exact IterOK.quiet (Calm.refl w s) _ _ rfl rfl
              | some r =>
                obtain ⟨c, s2⟩ := r
                exact IterOK.quiet (calm_pickParent w gv s next w c s2 hp) _ _ rfl rfl
            · exact htrav _ _ .down
          · exact IterOK.quiet (Calm.refl w s) _ _ rfl rfl

theorem iterL_noMarks (g : Graph) (s : State) (w : Nat) (hw : w < s.workers.length)
    (hm : ∀ i, (s.nd i).started = none) : IterOK w s (iterL g s w) := by
  unfold iterL
  split
  · exact iter_noMarks (vis g s) s w hw hm
  · dsimp only
    obtain ⟨h1, h2, _, _⟩ := prepare_frame g s w
    have h0 := calm_prepare w g s w
    have := iter_noMarks (vis g (prepare g s w)) (prepare g s w) w (by rw [h2]; exact hw)
      (fun i => by rw [nd_of_nodes_eq h1]; exact hm i)
    exact ⟨h0.trans this.calm, this.susp, this.exit⟩

/-! ## one worker: no marks while it is in the loop -/

/-- the program counters a block can end with when nobody bounces and the fuel suffices -/
def pcFinal : Pc → Bool
  | .test .. => true
  | .done => true
  | .failed => true
  | _ => false

theorem pcFinal_of_isTest {pc : Pc} (h : pc.isTest = true) : pcFinal pc = true := by
  cases pc <;> first | rfl | cases h

theorem noMarks_of_pinvO {g : Graph} {s : State} (h1 : g.workers.length = 1) (ho : PInvO g s 0) :
    ∀ i, (s.nd i).started = none := by
  intro i
  cases h : (s.nd i).started with
  | none => rfl
  | some v =>
    exfalso
    obtain ⟨hv, hpc⟩ := ho.markPc i v h
    by_cases hl : v < s.workers.length
    · rw [ho.wlen, h1] at hl; omega
    · rw [wd_default_of_ge s v hl] at hpc
      rcases hpc with h' | h' <;> cases h'

/-- the loop of the only worker, as long as it ends by itself: it ends inside a test, at the exit or dead — never in
`bounce` — and neither bumps a threshold nor touches the back-off record -/
theorem runLoopO_single (g : Graph) (hsym : EdgeSym g) (h1 : g.workers.length = 1) (fuel : Nat) (s : State)
    (evs : List Event) (r : State × List Event) (ho : PInvO g s 0)
    (hp : PathOK (Adj (vis g s)) (fun x => relevant g 0 x = true) g.root (s.wd 0).path)
    (hw : 0 < s.workers.length) (h : Term.runLoopO g 0 fuel s evs = some r) :
    pcFinal (r.1.wd 0).pc = true ∧ Calm 0 s r.1 := by
  induction fuel generalizing s evs with
  | zero => simp [Term.runLoopO] at h
  | succ fuel ih =>
    unfold Term.runLoopO at h
    dsimp only at h
    have e0 : Eff 0 none s (s.setWd 0 (fun d => { d with pc := .loop })) := eff_setWd 0 none s _
    have c0 : Calm 0 s (s.setWd 0 (fun d => { d with pc := .loop })) := calm_setWd 0 s 0 _ (fun _ => rfl) (fun _ => rfl)
    have hwd := wd_setWd_eq s 0 (fun d => { d with pc := .loop }) hw
    have ho0 : PInvO g (s.setWd 0 (fun d => { d with pc := .loop })) 0 :=
      ho.transfer e0.workersLen (fun x hx => by rw [← e0.hidden]; exact hx)
        (fun v hv => by rw [e0.others v hv]; exact ⟨rfl, rfl⟩) (fun i => Or.inl rfl)
    have hp0 : PathOK (Adj (vis g (s.setWd 0 (fun d => { d with pc := .loop })))) (fun x => relevant g 0 x = true) g.root
        ((s.setWd 0 (fun d => { d with pc := .loop })).wd 0).path := by
      rw [hwd]
      exact hp.mono (fun a b => adj_vis_mono g s _ (fun x hx => by rw [← e0.hidden]; exact hx) a b)
    have hw0 : 0 < (s.setWd 0 (fun d => { d with pc := .loop })).workers.length := by rw [e0.workersLen]; exact hw
    obtain ⟨hl, hcont, _, _⟩ := iterL_inv g hsym _ 0 ho0 hp0 (by rw [hwd]; rfl)
    have hit := iterL_noMarks g _ 0 hw0 (noMarks_of_pinvO h1 ho0)
    split at h
    · next s1 e heq =>
      rw [heq] at hcont hl hit
      obtain ⟨a, b, _⟩ := hcont rfl
      obtain ⟨q1, q2⟩ := ih s1 _ a b (by rw [hl]; exact hw0) h
      exact ⟨q1, (c0.trans hit.calm).trans q2⟩
    · next s1 e heq =>
      rw [heq] at hit
      simp only [Option.some.injEq] at h
      subst h
      exact ⟨pcFinal_of_isTest (hit.susp rfl), c0.trans hit.calm⟩
    · next s1 e heq =>
      rw [heq] at hit
      simp only [Option.some.injEq] at h
      subst h
      refine ⟨?_, c0.trans hit.calm⟩
      show pcFinal (s1.wd 0).pc = true
      rw [show (s1.wd 0).pc = .done from hit.exit rfl]; rfl
    · next s1 e what heq =>
      rw [heq] at hit hl
      simp only [Option.some.injEq] at h
      subst h
      refine ⟨?_, (c0.trans hit.calm).trans (calm_setWd 0 s1 0 _ (fun _ => rfl) (fun _ => rfl))⟩
      show pcFinal ((s1.setWd 0 _).wd 0).pc = true
      rw [wd_setWd_eq s1 0 _ (by rw [hl]; exact hw0)]; rfl

/-- … and with `fuel ≥ bound g` it does end by itself -/
theorem runLoop_single (g : Graph) (d : Nat → Nat) (hr : Term.Ranked g d) (hsym : EdgeSym g) (h1 : g.workers.length = 1)
    (s : State) (evs : List Event) (ho : PInvO g s 0)
    (hp : PathOK (Adj (vis g s)) (fun x => relevant g 0 x = true) g.root (s.wd 0).path)
    (hw : 0 < s.workers.length) (hg : Term.Good g d 0 s) (fuel : Nat) (hf : Term.bound g ≤ fuel) :
    pcFinal ((runLoop g 0 fuel s evs).1.wd 0).pc = true ∧ Calm 0 s (runLoop g 0 fuel s evs).1 := by
  obtain ⟨r, h2, h3⟩ := Term.runLoop_terminates g d hr hsym 0 s evs hg fuel hf
  rw [h3]
  exact runLoopO_single g hsym h1 (Term.bound g) s evs r ho hp hw h2

/-! ## the whole step of the only worker -/

theorem continueAfter_single (g : Graph) (d : Nat → Nat) (hr : Term.Ranked g d) (hsym : EdgeSym g) (h1 : g.workers.length = 1)
    (n : Nat) (phase : Phase) (dir : Dir) (fuel : Nat) (hf : Term.bound g ≤ fuel) (s : State) (ok : Bool) (evs : List Event)
    (h : PInv g s) (hpcw : (s.wd 0).pc.node? = some n) (hwalk : Term.Walk g d (s.wd 0).path)
    (hdir : dir = .down → Term.isUp g ((s.wd 0).path.getD ((s.wd 0).path.length - 2) 0) n = false)
    (hn : s.nodes.length = g.nodes.length) (hc : Term.ClsOK g s) (he : Term.Explored g s) :
    pcFinal ((resumeTest.continueAfter g 0 n phase dir fuel s ok evs).1.wd 0).pc = true ∧
      Calm 0 s (resumeTest.continueAfter g 0 n phase dir fuel s ok evs).1 := by
  obtain ⟨hid, hlast, hlen⟩ := h.testOwn 0 n hpcw
  have hw : 0 < s.workers.length := lt_of_path_ne_nil s 0 (by intro h0; rw [h0] at hlen; simp at hlen)
  unfold resumeTest.continueAfter
  dsimp only
  split
  · refine ⟨?_, calm_startTest 0 g s n 0 .main dir⟩
    show pcFinal ((startTest g s n 0 .main dir).1.wd 0).pc = true
    rw [startTest_pc g s n 0 .main dir hw]; rfl
  · have q2 : Qt 0 none s (if (phase == Phase.pre) = true then
          s.setNd n (fun d => { d with results := d.results ++ (s.wd 0).preResults.drop d.results.length })
        else s) := by
      split
      · refine qt_setNd 0 none s n _ ?_
        intro d; exact Or.inl rfl
      · exact Qt.refl _ _ _
    have l2 : Term.LW 0 Term.DT s (if (phase == Phase.pre) = true then
          s.setNd n (fun d => { d with results := d.results ++ (s.wd 0).preResults.drop d.results.length })
        else s) := by
      split
      · exact (Term.fr_setNd s n _).lw 0
      · exact Term.LW.refl 0 s
    have c2 : Calm 0 s (if (phase == Phase.pre) = true then
          s.setNd n (fun d => { d with results := d.results ++ (s.wd 0).preResults.drop d.results.length })
        else s) := by
      split
      · exact calm_setNd 0 s n _ (fun _ => rfl)
      · exact Calm.refl 0 s
    obtain ⟨hoF, hpF, hlF, hnF, hwF, _⟩ := h.finish hpcw q2
    have lF := l2.trans ((Term.fr_finishTraverse _ n 0).lw 0)
    have cF := c2.trans (calm_finishTraverse 0 _ n 0)
    generalize hsF : finishTraverse (if (phase == Phase.pre) = true then
          s.setNd n (fun d => { d with results := d.results ++ (s.wd 0).preResults.drop d.results.length })
        else s) n 0 = sF at hoF hpF hlF hnF hwF lF cF
    obtain ⟨a, b, c, _⟩ := afterTraverse_ok (vis g sF) (edgeSym_vis g sF hsym) sF 0 n
      ((s.wd 0).path.getD ((s.wd 0).path.length - 2) 0) dir hwF hlF hnF
    obtain ⟨k1, k2, _⟩ := Term.afterTraverse_any g d hr hsym sF sF 0 n ((s.wd 0).path.getD ((s.wd 0).path.length - 2) 0) dir
      hwF hlF (by rw [lF.own]) (by rw [lF.own]; exact hwalk) hdir (D := Term.DT) (fun _ _ => trivial)
    have cA := cF.trans (calm_afterTraverse 0 (vis g sF) sF 0 n ((s.wd 0).path.getD ((s.wd 0).path.length - 2) 0) dir)
    generalize afterTraverse (vis g sF) sF 0 n ((s.wd 0).path.getD ((s.wd 0).path.length - 2) 0) dir = r at a b c k1 k2 cA
    have hhid : ∀ x, x ∈ r.1.hidden → x ∈ sF.hidden := by intro x hx; rw [← a.hidden]; exact hx
    have ho' : PInvO g r.1 0 := hoF.transfer a.workersLen hhid (fun v hv => by rw [a.others v hv]; exact ⟨rfl, rfl⟩)
      (fun i => by
        rcases a.marks i with h' | h' | h'
        · exact Or.inl h'
        · exact Or.inr h'
        · exact absurd h'.1 (by simp))
    have hp' := pathOK_eff g sF r.1 0 _ _ hhid hpF c
    have hw' : 0 < r.1.workers.length := by rw [a.workersLen]; exact hwF
    have hg1 : Term.Good g d 0 r.1 := Term.good_of_loc (lF.toLoc.trans k1) hn hc he k2
    obtain ⟨s1, e2, fl⟩ := r
    have loopCase : ∀ evs', pcFinal ((runLoop g 0 fuel s1 evs').1.wd 0).pc = true ∧ Calm 0 s (runLoop g 0 fuel s1 evs').1 := by
      intro evs'
      obtain ⟨x1, x2⟩ := runLoop_single g d hr hsym h1 s1 evs' ho' hp' hw' hg1 fuel hf
      exact ⟨x1, cA.trans x2⟩
    cases fl with
    | raise what =>
      dsimp only
      refine ⟨?_, cA.trans (calm_setWd 0 s1 0 _ (fun _ => rfl) (fun _ => rfl))⟩
      rw [wd_setWd_eq s1 0 _ hw']; rfl
    | cont => exact loopCase _
    | suspend => exact loopCase _
    | exit => exact loopCase _

theorem resumeTest_single (g : Graph) (d : Nat → Nat) (hr : Term.Ranked g d) (hsym : EdgeSym g) (h1 : g.workers.length = 1)
    (s : State) (n : Nat) (phase : Phase) (dir : Dir) (uid : String) (tag wait : Nat) (out : Outcome)
    (fuel : Nat) (hf : Term.bound g ≤ fuel)
    (h : PInv g s) (hpcw : (s.wd 0).pc.node? = some n) (hwalk : Term.Walk g d (s.wd 0).path)
    (hdir : dir = .down → Term.isUp g ((s.wd 0).path.getD ((s.wd 0).path.length - 2) 0) n = false)
    (hn : s.nodes.length = g.nodes.length) (hc : Term.ClsOK g s) (he : Term.Explored g s) :
    pcFinal ((resumeTest g s 0 n phase dir uid tag wait out fuel).1.wd 0).pc = true ∧
      Calm 0 s (resumeTest g s 0 n phase dir uid tag wait out fuel).1 := by
  rw [resumeTest_eq]
  obtain ⟨r1, r2, r3⟩ := reportOutcome_frame g s 0 n phase uid wait out
  have bA : BookOnly s (reportOutcome g s 0 n phase uid wait out).1 :=
    ⟨by rw [r2], r3, fun v => by unfold State.wd; rw [r2]; exact ⟨rfl, rfl⟩, fun i => by unfold State.nd; rw [r1]⟩
  have hA := h.bookOnly bA
  have lA := Term.reportOutcome_lw (D := Term.DT) g s 0 n phase uid wait out
  have cA : Calm 0 s (reportOutcome g s 0 n phase uid wait out).1 := Calm.quiet r1 r2
  have hpcA : ((reportOutcome g s 0 n phase uid wait out).1.wd 0).pc.node? = some n := by rw [(bA.wd 0).2]; exact hpcw
  generalize (reportOutcome g s 0 n phase uid wait out).1 = sa at hA hpcA bA lA cA
  have gA : Term.Good g d 0 sa := Term.good_of_loc lA.toLoc hn hc he (by rw [lA.own]; exact hwalk)
  have hwA : 0 < sa.workers.length := by
    obtain ⟨_, _, hlen⟩ := hA.testOwn 0 n hpcA
    exact lt_of_path_ne_nil sa 0 (by intro h0; rw [h0] at hlen; simp at hlen)
  have waitCase : ∀ k, pcFinal ((sa.setWd 0 (fun d => { d with pc := .test n phase dir uid tag k })).wd 0).pc = true ∧
      Calm 0 s (sa.setWd 0 (fun d => { d with pc := .test n phase dir uid tag k })) := by
    intro k
    refine ⟨?_, cA.trans (calm_setWd 0 sa 0 _ (fun _ => rfl) (fun _ => rfl))⟩
    rw [wd_setWd_eq sa 0 _ hwA]; rfl
  split
  · next st0 dur _ =>
    have bB := recordResult_frame sa 0 n phase (if (phase == Phase.pre) = true then (s.wd 0).preName else (g.node n).name) uid tag st0 dur
    obtain ⟨b1, b2, _⟩ := Term.recordResult_loc (D := Term.DT) sa 0 n phase (if (phase == Phase.pre) = true then (s.wd 0).preName else (g.node n).name) uid tag st0 dur
    have cB := calm_recordResult 0 sa 0 n phase (if (phase == Phase.pre) = true then (s.wd 0).preName else (g.node n).name) uid tag st0 dur
    rw [lA.own] at b2
    have gB := Term.good_of_loc (g := g) (d := d) b1 gA.nodesLen gA.cls gA.explored (by rw [b2]; exact hwalk)
    obtain ⟨x1, x2⟩ := continueAfter_single g d hr hsym h1 n phase dir fuel hf _
      (recordResult sa 0 n phase (if (phase == Phase.pre) = true then (s.wd 0).preName else (g.node n).name) uid tag st0 dur).2
      (reportOutcome g s 0 n phase uid wait out).2
      (hA.bookOnly bB) (by rw [(bB.wd 0).2]; exact hpcA) (by rw [b2]; exact hwalk) (by rw [b2]; exact hdir)
      gB.nodesLen gB.cls gB.explored
    exact ⟨x1, (cA.trans cB).trans x2⟩
  · split
    · exact waitCase _
    · split
      · exact waitCase _
      · obtain ⟨x1, x2⟩ := continueAfter_single g d hr hsym h1 n phase dir fuel hf sa false
          (reportOutcome g s 0 n phase uid wait out).2 hA hpcA
          (by rw [lA.own]; exact hwalk) (by rw [lA.own]; exact hdir) gA.nodesLen gA.cls gA.explored
        exact ⟨x1, cA.trans x2⟩

/-- **The step of the only worker**: from a reachable state (invariants `PInv`, `TInv`; nothing unexplored) a `resume`
with `fuel ≥ bound g` ends inside a test, at the exit or dead — never in `bounce` or `loop` — unless it was over
before; no threshold is bumped and the back-off record of the worker stays as it is. -/
theorem resume_single (g : Graph) (d : Nat → Nat) (hr : Term.Ranked g d) (hsym : EdgeSym g) (h1 : g.workers.length = 1)
    (s : State) (out : Outcome) (fuel : Nat) (hf : Term.bound g ≤ fuel)
    (h : PInv g s) (ht : Term.TInv g d s) (he : Term.Explored g s) :
    pcFinal ((resume g s 0 out fuel).1.wd 0).pc = true ∧ Calm 0 s (resume g s 0 out fuel).1 := by
  have hws : 0 < s.workers.length := by rw [h.wlen, h1]; exact Nat.one_pos
  have hg : Term.Good g d 0 s := ⟨ht.nodesLen, ht.cls, he, ht.walk 0⟩
  have loopCase : (s.wd 0).pc.node? = none → (s.wd 0).pc ≠ .failed → (s.wd 0).pc ≠ .done →
      pcFinal ((runLoop g 0 fuel s []).1.wd 0).pc = true ∧ Calm 0 s (runLoop g 0 fuel s []).1 := by
    intro h2 h3 h4
    refine runLoop_single g d hr hsym h1 s [] (h.toO h2 h3) ?_ hws hg fuel hf
    rcases h.path 0 hws with h' | h'
    · exact absurd h'.2 h4
    · exact h'
  unfold resume
  split
  · next heq => exact loopCase (by rw [heq]; rfl) (by rw [heq]; simp) (by rw [heq]; simp)
  · next heq => exact loopCase (by rw [heq]; rfl) (by rw [heq]; simp) (by rw [heq]; simp)
  · next n phase dir uid tag wait heq =>
    obtain ⟨_, hlast, _⟩ := h.testOwn 0 n (by rw [heq]; rfl)
    exact resumeTest_single g d hr hsym h1 s n phase dir uid tag wait out fuel hf h (by rw [heq]; rfl) (ht.walk 0)
      (fun hdn => (ht.dir 0).1 n phase uid tag wait (by rw [heq, hdn]) n hlast) ht.nodesLen ht.cls he
  · next heq => exact ⟨by rw [heq]; rfl, Calm.refl 0 s⟩
  · next heq => exact ⟨by rw [heq]; rfl, Calm.refl 0 s⟩

end I2N.Trav.Global
