import I2N.Lemmas.TravTerm
import I2N.Lemmas.TravPatient
/-!
Termination ACROSS suspensions for a single worker (property C02).

`Lemmas/TravTerm.lean` bounds the number of loop iterations of ONE block (`runLoop`, between two suspension points)
by `bound g`.  This file bounds the number of blocks — `resume` steps — of a whole run of a graph with one worker.

1. With one worker nobody else can hold a `started` mark (`PInvO.markPc`: the holder of a mark is inside a test or dead,
   and it is not the stepping worker), so `is_occupied` is false in every iteration (`isOccupied_noMarks`) and the
   back-off branch of `iter` is dead: a block ends inside a test, at the exit, or with an exception — never in `bounce`,
   and with `fuel ≥ bound g` never in `loop` (`runLoopO_single`, `resume_single`).
2. Hence every `resume` step of the worker that does not end the traversal either is a tick of the result wait
   (`wait + 1 ≤ 10`), or settles an execution and starts the next test, which appends a result (the UNKNOWN placeholder)
   to a node.  The counter `23·(number of results) + pcTerm` strictly grows with every such step (`Cnt`).
3. The number of results is bounded by the retry budgets of C03 (`ReachableR.budget` for stateless classes,
   `ReachableR.binv` for setup classes; no bump happens as nobody bounces).

Everything lives in the namespace `I2N.Trav.Global`.
-/
namespace I2N.Trav.Global
open I2N.Trav

/-! ## flows: where an iteration can suspend -/

def isSuspend : Flow → Bool
  | .suspend => true
  | _ => false

theorem afterTraverse_not_suspend (g : Graph) (s : State) (w next prev : Nat) (dir : Dir) :
    isSuspend (afterTraverse g s w next prev dir).2.2 = false := by
  unfold afterTraverse
  cases runDecision g s next w with
  | error e => rfl
  | ok r =>
    obtain ⟨run, s1, evs⟩ := r
    cases dir with
    | up => rfl
    | down =>
      dsimp only
      by_cases hrun : run = true
      · simp [hrun]; rfl
      · simp only [hrun, Bool.false_eq_true, if_false]
        by_cases hc : isCleanupReady g s1 next w = true
        · simp only [hc, if_true]
          by_cases hpost : (!(g.node next).flat && (s1.wd w).unexplored) = true
          · simp only [hpost, if_true]; rfl
          · simp only [hpost, Bool.false_eq_true, if_false]
            cases reverseNode g (List.foldl (fun s x => dropChild g s x.1 next w) s1 (g.node next).setup) next w with
            | error e => rfl
            | ok r => rfl
        · simp only [hc, Bool.false_eq_true, if_false]
          cases pickChild g s1 next w with
          | none => rfl
          | some r => rfl

/-- `traverse_node` suspends only inside a test it has just started -/
theorem traverseNode_suspend (g : Graph) (s : State) (w next prev : Nat) (dir : Dir)
    (hs : isSuspend (traverseNode g s w next prev dir).2.2 = true) :
    ∃ s1 ph, (traverseNode g s w next prev dir).1 = (startTest g s1 next w ph dir).1 ∧ s1.workers.length = s.workers.length := by
  unfold traverseNode at hs ⊢
  by_cases hocc : isOccupied g s next w = true
  · simp only [hocc, if_true] at hs
    rw [afterTraverse_not_suspend] at hs; cases hs
  · simp only [hocc, Bool.false_eq_true, if_false] at hs ⊢
    cases hd : runDecision g (pullLocations g (s.setNd next (fun d => { d with started := some w })) next) next w with
    | error e => rw [hd] at hs; cases hs
    | ok r =>
      obtain ⟨run, s1, evs⟩ := r
      have hlen : s1.workers.length = s.workers.length := by
        have a := (silent_pullLocations g w (s.setNd next (fun d => { d with started := some w })) next).workersLen
        have b := (silent_runDecision g w _ next w run s1 evs hd).workersLen
        rw [b, a]; rfl
      rw [hd] at hs
      dsimp only at hs ⊢
      by_cases hrun : run = true
      · subst hrun
        simp only [if_true] at hs ⊢
        by_cases hroot : (g.node next).objectRoot = true
        · simp only [hroot, if_true]
          exact ⟨_, .pre, rfl, by simp [State.setWd, hlen]⟩
        · simp only [hroot, Bool.false_eq_true, if_false]
          exact ⟨s1, .plain, rfl, hlen⟩
      · simp only [hrun, Bool.false_eq_true, if_false] at hs
        rw [afterTraverse_not_suspend] at hs; cases hs

theorem isOccupied_noMarks' (g : Graph) (s : State) (n w : Nat) (h : ∀ i, (s.nd i).started = none) :
    isOccupied g s n w = false := Term.isOccupied_noMarks g s n w h

/-- outcome of a piece of an iteration of worker `w` without back-off -/
structure IterOK (w : Nat) (s : State) (r : Step) : Prop where
  calm : Calm w s r.1
  susp : isSuspend r.2.2 = true → (r.1.wd w).pc.isTest = true
  exit : r.2.2.isExit = true → (r.1.wd w).pc = .done

theorem IterOK.quiet {w : Nat} {s s' : State} (hc : Calm w s s') (e : List Event) (f : Flow)
    (h1 : isSuspend f = false) (h2 : f.isExit = false) : IterOK w s (s', e, f) :=
  ⟨hc, fun hs => (by rw [h1] at hs; cases hs), fun he => (by rw [h2] at he; cases he)⟩

/-- one iteration in a state without `started` marks: the back-off branch is dead — the iteration bumps nothing and
leaves the back-off record alone, suspends only inside a test and exits with pc `done` -/
theorem iter_noMarks (gv : Graph) (s : State) (w : Nat) (hw : w < s.workers.length)
    (hm : ∀ i, (s.nd i).started = none) : IterOK w s (iter gv s w) := by
  have htrav : ∀ next prev dir, IterOK w s (traverseNode gv s w next prev dir) := by
    intro next prev dir
    refine ⟨calm_traverseNode w gv s w _ prev dir, fun hs => ?_, fun he => ?_⟩
    · obtain ⟨s1, ph, h1, h2⟩ := traverseNode_suspend gv s w _ prev dir hs
      rw [h1, startTest_pc gv s1 _ w ph dir (by rw [h2]; exact hw)]; rfl
    · rw [traverseNode_not_exit] at he; cases he
  unfold iter
  dsimp only
  split
  · split
    · refine ⟨calm_setWd w s w _ (fun _ => rfl) (fun _ => rfl), fun hs => (by cases hs), fun _ => ?_⟩
      show ((s.setWd w _).wd w).pc = .done
      rw [wd_setWd_eq s w _ hw]
    · exact IterOK.quiet (Calm.refl w s) _ _ rfl rfl
  · cases hl : (s.wd w).path.getLast? with
    | none => exact IterOK.quiet (Calm.refl w s) _ _ rfl rfl
    | some next =>
      dsimp only
      split
      · cases hp : pickChild gv s next w with
        | none => exact IterOK.quiet (Calm.refl w s) _ _ rfl rfl
        | some r =>
          obtain ⟨c, s2⟩ := r
          exact IterOK.quiet (calm_pickChild w gv s next w c s2 hp) _ _ rfl rfl
      · rw [isOccupied_noMarks' gv s next w hm]
        simp only [Bool.false_eq_true, if_false]
        split
        · split
          · exact htrav _ _ .up
          · cases hp : pickParent gv s next w with
            | none => exact IterOK.quiet (Calm.refl w s) _ _ rfl rfl
            | some r =>
              obtain ⟨c, s2⟩ := r
              exact IterOK.quiet (calm_pickParent w gv s next w c s2 hp) _ _ rfl rfl
        · split
          · split
            · cases hp : pickParent gv s next w with
              | none => exact IterOK.quiet (Calm.refl w s) _ _ rfl rfl
              | some r =>
                obtain ⟨c, s2⟩ := r
                exact IterOK.quiet (calm_pickParent w gv s next w c s2 hp) _ _ rfl rfl
            · exact htrav _ _ .down
          · exact IterOK.quiet (Calm.refl w s) _ _ rfl rfl

theorem iterL_noMarks (g : Graph) (s : State) (w : Nat) (hw : w < s.workers.length)
    (hm : ∀ i, (s.nd i).started = none) : IterOK w s (iterL g s w) := by
  unfold iterL
  split
  · exact iter_noMarks (vis g s) s w hw hm
  · dsimp only
    obtain ⟨h1, h2, _, _⟩ := prepare_frame g s w
    have h0 := calm_prepare w g s w
    have := iter_noMarks (vis g (prepare g s w)) (prepare g s w) w (by rw [h2]; exact hw)
      (fun i => by rw [nd_of_nodes_eq h1]; exact hm i)
    exact ⟨h0.trans this.calm, this.susp, this.exit⟩

/-! ## one worker: no marks while it is in the loop -/

/-- the program counters a block can end with when nobody bounces and the fuel suffices -/
def pcFinal : Pc → Bool
  | .test .. => true
  | .done => true
  | .failed => true
  | _ => false

theorem pcFinal_of_isTest {pc : Pc} (h : pc.isTest = true) : pcFinal pc = true := by
  cases pc <;> first | rfl | cases h

theorem noMarks_of_pinvO {g : Graph} {s : State} (h1 : g.workers.length = 1) (ho : PInvO g s 0) :
    ∀ i, (s.nd i).started = none := by
  intro i
  cases h : (s.nd i).started with
  | none => rfl
  | some v =>
    exfalso
    obtain ⟨hv, hpc⟩ := ho.markPc i v h
    by_cases hl : v < s.workers.length
    · rw [ho.wlen, h1] at hl; omega
    · rw [wd_default_of_ge s v hl] at hpc
      rcases hpc with h' | h' <;> cases h'

/-- the loop of the only worker, as long as it ends by itself: it ends inside a test, at the exit or dead — never in
`bounce` — and neither bumps a threshold nor touches the back-off record -/
theorem runLoopO_single (g : Graph) (hsym : EdgeSym g) (h1 : g.workers.length = 1) (fuel : Nat) (s : State)
    (evs : List Event) (r : State × List Event) (ho : PInvO g s 0)
    (hp : PathOK (Adj (vis g s)) (fun x => relevant g 0 x = true) g.root (s.wd 0).path)
    (hw : 0 < s.workers.length) (h : Term.runLoopO g 0 fuel s evs = some r) :
    pcFinal (r.1.wd 0).pc = true ∧ Calm 0 s r.1 := by
  induction fuel generalizing s evs with
  | zero => simp [Term.runLoopO] at h
  | succ fuel ih =>
    unfold Term.runLoopO at h
    dsimp only at h
    have e0 : Eff 0 none s (s.setWd 0 (fun d => { d with pc := .loop })) := eff_setWd 0 none s _
    have c0 : Calm 0 s (s.setWd 0 (fun d => { d with pc := .loop })) := calm_setWd 0 s 0 _ (fun _ => rfl) (fun _ => rfl)
    have hwd := wd_setWd_eq s 0 (fun d => { d with pc := .loop }) hw
    have ho0 : PInvO g (s.setWd 0 (fun d => { d with pc := .loop })) 0 :=
      ho.transfer e0.workersLen (fun x hx => by rw [← e0.hidden]; exact hx)
        (fun v hv => by rw [e0.others v hv]; exact ⟨rfl, rfl⟩) (fun i => Or.inl rfl)
    have hp0 : PathOK (Adj (vis g (s.setWd 0 (fun d => { d with pc := .loop })))) (fun x => relevant g 0 x = true) g.root
        ((s.setWd 0 (fun d => { d with pc := .loop })).wd 0).path := by
      rw [hwd]
      exact hp.mono (fun a b => adj_vis_mono g s _ (fun x hx => by rw [← e0.hidden]; exact hx) a b)
    have hw0 : 0 < (s.setWd 0 (fun d => { d with pc := .loop })).workers.length := by rw [e0.workersLen]; exact hw
    obtain ⟨hl, hcont, _, _⟩ := iterL_inv g hsym _ 0 ho0 hp0 (by rw [hwd]; rfl)
    have hit := iterL_noMarks g _ 0 hw0 (noMarks_of_pinvO h1 ho0)
    split at h
    · next s1 e heq =>
      rw [heq] at hcont hl hit
      obtain ⟨a, b, _⟩ := hcont rfl
      obtain ⟨q1, q2⟩ := ih s1 _ a b (by rw [hl]; exact hw0) h
      exact ⟨q1, (c0.trans hit.calm).trans q2⟩
    · next s1 e heq =>
      rw [heq] at hit
      simp only [Option.some.injEq] at h
      subst h
      exact ⟨pcFinal_of_isTest (hit.susp rfl), c0.trans hit.calm⟩
    · next s1 e heq =>
      rw [heq] at hit
      simp only [Option.some.injEq] at h
      subst h
      refine ⟨?_, c0.trans hit.calm⟩
      show pcFinal (s1.wd 0).pc = true
      rw [show (s1.wd 0).pc = .done from hit.exit rfl]; rfl
    · next s1 e what heq =>
      rw [heq] at hit hl
      simp only [Option.some.injEq] at h
      subst h
      refine ⟨?_, (c0.trans hit.calm).trans (calm_setWd 0 s1 0 _ (fun _ => rfl) (fun _ => rfl))⟩
      show pcFinal ((s1.setWd 0 _).wd 0).pc = true
      rw [wd_setWd_eq s1 0 _ (by rw [hl]; exact hw0)]; rfl

/-- … and with `fuel ≥ bound g` it does end by itself -/
theorem runLoop_single (g : Graph) (d : Nat → Nat) (hr : Term.Ranked g d) (hsym : EdgeSym g) (h1 : g.workers.length = 1)
    (s : State) (evs : List Event) (ho : PInvO g s 0)
    (hp : PathOK (Adj (vis g s)) (fun x => relevant g 0 x = true) g.root (s.wd 0).path)
    (hw : 0 < s.workers.length) (hg : Term.Good g d 0 s) (fuel : Nat) (hf : Term.bound g ≤ fuel) :
    pcFinal ((runLoop g 0 fuel s evs).1.wd 0).pc = true ∧ Calm 0 s (runLoop g 0 fuel s evs).1 := by
  obtain ⟨r, h2, h3⟩ := Term.runLoop_terminates g d hr hsym 0 s evs hg fuel hf
  rw [h3]
  exact runLoopO_single g hsym h1 (Term.bound g) s evs r ho hp hw h2

/-! ## the whole step of the only worker -/

theorem continueAfter_single (g : Graph) (d : Nat → Nat) (hr : Term.Ranked g d) (hsym : EdgeSym g) (h1 : g.workers.length = 1)
    (n : Nat) (phase : Phase) (dir : Dir) (fuel : Nat) (hf : Term.bound g ≤ fuel) (s : State) (ok : Bool) (evs : List Event)
    (h : PInv g s) (hpcw : (s.wd 0).pc.node? = some n) (hwalk : Term.Walk g d (s.wd 0).path)
    (hdir : dir = .down → Term.isUp g ((s.wd 0).path.getD ((s.wd 0).path.length - 2) 0) n = false)
    (hn : s.nodes.length = g.nodes.length) (hc : Term.ClsOK g s) (he : Term.Explored g s) :
    pcFinal ((resumeTest.continueAfter g 0 n phase dir fuel s ok evs).1.wd 0).pc = true ∧
      Calm 0 s (resumeTest.continueAfter g 0 n phase dir fuel s ok evs).1 := by
  obtain ⟨hid, hlast, hlen⟩ := h.testOwn 0 n hpcw
  have hw : 0 < s.workers.length := lt_of_path_ne_nil s 0 (by intro h0; rw [h0] at hlen; simp at hlen)
  unfold resumeTest.continueAfter
  dsimp only
  split
  · refine ⟨?_, calm_startTest 0 g s n 0 .main dir⟩
    show pcFinal ((startTest g s n 0 .main dir).1.wd 0).pc = true
    rw [startTest_pc g s n 0 .main dir hw]; rfl
  · have q2 : Qt 0 none s (if (phase == Phase.pre) = true then
          s.setNd n (fun d => { d with results := d.results ++ (s.wd 0).preResults.drop d.results.length })
        else s) := by
      split
      · refine qt_setNd 0 none s n _ ?_
        intro d; exact Or.inl rfl
      · exact Qt.refl _ _ _
    have l2 : Term.LW 0 Term.DT s (if (phase == Phase.pre) = true then
          s.setNd n (fun d => { d with results := d.results ++ (s.wd 0).preResults.drop d.results.length })
        else s) := by
      split
      · exact (Term.fr_setNd s n _).lw 0
      · exact Term.LW.refl 0 s
    have c2 : Calm 0 s (if (phase == Phase.pre) = true then
          s.setNd n (fun d => { d with results := d.results ++ (s.wd 0).preResults.drop d.results.length })
        else s) := by
      split
      · exact calm_setNd 0 s n _ (fun _ => rfl)
      · exact Calm.refl 0 s
    obtain ⟨hoF, hpF, hlF, hnF, hwF, _⟩ := h.finish hpcw q2
    have lF := l2.trans ((Term.fr_finishTraverse _ n 0).lw 0)
    have cF := c2.trans (calm_finishTraverse 0 _ n 0)
    generalize hsF : finishTraverse (if (phase == Phase.pre) = true then
          s.setNd n (fun d => { d with results := d.results ++ (s.wd 0).preResults.drop d.results.length })
        else s) n 0 = sF at hoF hpF hlF hnF hwF lF cF
    obtain ⟨a, b, c, _⟩ := afterTraverse_ok (vis g sF) (edgeSym_vis g sF hsym) sF 0 n
      ((s.wd 0).path.getD ((s.wd 0).path.length - 2) 0) dir hwF hlF hnF
    obtain ⟨k1, k2, _⟩ := Term.afterTraverse_any g d hr hsym sF sF 0 n ((s.wd 0).path.getD ((s.wd 0).path.length - 2) 0) dir
      hwF hlF (by rw [lF.own]) (by rw [lF.own]; exact hwalk) hdir (D := Term.DT) (fun _ _ => trivial)
    have cA := cF.trans (calm_afterTraverse 0 (vis g sF) sF 0 n ((s.wd 0).path.getD ((s.wd 0).path.length - 2) 0) dir)
    generalize afterTraverse (vis g sF) sF 0 n ((s.wd 0).path.getD ((s.wd 0).path.length - 2) 0) dir = r at a b c k1 k2 cA
    have hhid : ∀ x, x ∈ r.1.hidden → x ∈ sF.hidden := by intro x hx; rw [← a.hidden]; exact hx
    have ho' : PInvO g r.1 0 := hoF.transfer a.workersLen hhid (fun v hv => by rw [a.others v hv]; exact ⟨rfl, rfl⟩)
      (fun i => by
        rcases a.marks i with h' | h' | h'
        · exact Or.inl h'
        · exact Or.inr h'
        · exact absurd h'.1 (by simp))
    have hp' := pathOK_eff g sF r.1 0 _ _ hhid hpF c
    have hw' : 0 < r.1.workers.length := by rw [a.workersLen]; exact hwF
    have hg1 : Term.Good g d 0 r.1 := Term.good_of_loc (lF.toLoc.trans k1) hn hc he k2
    obtain ⟨s1, e2, fl⟩ := r
    have loopCase : ∀ evs', pcFinal ((runLoop g 0 fuel s1 evs').1.wd 0).pc = true ∧ Calm 0 s (runLoop g 0 fuel s1 evs').1 := by
      intro evs'
      obtain ⟨x1, x2⟩ := runLoop_single g d hr hsym h1 s1 evs' ho' hp' hw' hg1 fuel hf
      exact ⟨x1, cA.trans x2⟩
    cases fl with
    | raise what =>
      dsimp only
      refine ⟨?_, cA.trans (calm_setWd 0 s1 0 _ (fun _ => rfl) (fun _ => rfl))⟩
      rw [wd_setWd_eq s1 0 _ hw']; rfl
    | cont => exact loopCase _
    | suspend => exact loopCase _
    | exit => exact loopCase _

theorem resumeTest_single (g : Graph) (d : Nat → Nat) (hr : Term.Ranked g d) (hsym : EdgeSym g) (h1 : g.workers.length = 1)
    (s : State) (n : Nat) (phase : Phase) (dir : Dir) (uid : String) (tag wait : Nat) (out : Outcome)
    (fuel : Nat) (hf : Term.bound g ≤ fuel)
    (h : PInv g s) (hpcw : (s.wd 0).pc.node? = some n) (hwalk : Term.Walk g d (s.wd 0).path)
    (hdir : dir = .down → Term.isUp g ((s.wd 0).path.getD ((s.wd 0).path.length - 2) 0) n = false)
    (hn : s.nodes.length = g.nodes.length) (hc : Term.ClsOK g s) (he : Term.Explored g s) :
    pcFinal ((resumeTest g s 0 n phase dir uid tag wait out fuel).1.wd 0).pc = true ∧
      Calm 0 s (resumeTest g s 0 n phase dir uid tag wait out fuel).1 := by
  rw [resumeTest_eq]
  obtain ⟨r1, r2, r3⟩ := reportOutcome_frame g s 0 n phase uid wait out
  have bA : BookOnly s (reportOutcome g s 0 n phase uid wait out).1 :=
    ⟨by rw [r2], r3, fun v => by unfold State.wd; rw [r2]; exact ⟨rfl, rfl⟩, fun i => by unfold State.nd; rw [r1]⟩
  have hA := h.bookOnly bA
  have lA := Term.reportOutcome_lw (D := Term.DT) g s 0 n phase uid wait out
  have cA : Calm 0 s (reportOutcome g s 0 n phase uid wait out).1 := Calm.quiet r1 r2
  have hpcA : ((reportOutcome g s 0 n phase uid wait out).1.wd 0).pc.node? = some n := by rw [(bA.wd 0).2]; exact hpcw
  generalize (reportOutcome g s 0 n phase uid wait out).1 = sa at hA hpcA bA lA cA
  have gA : Term.Good g d 0 sa := Term.good_of_loc lA.toLoc hn hc he (by rw [lA.own]; exact hwalk)
  have hwA : 0 < sa.workers.length := by
    obtain ⟨_, _, hlen⟩ := hA.testOwn 0 n hpcA
    exact lt_of_path_ne_nil sa 0 (by intro h0; rw [h0] at hlen; simp at hlen)
  have waitCase : ∀ k, pcFinal ((sa.setWd 0 (fun d => { d with pc := .test n phase dir uid tag k })).wd 0).pc = true ∧
      Calm 0 s (sa.setWd 0 (fun d => { d with pc := .test n phase dir uid tag k })) := by
    intro k
    refine ⟨?_, cA.trans (calm_setWd 0 sa 0 _ (fun _ => rfl) (fun _ => rfl))⟩
    rw [wd_setWd_eq sa 0 _ hwA]; rfl
  split
  · next st0 dur _ =>
    have bB := recordResult_frame sa 0 n phase (if (phase == Phase.pre) = true then (s.wd 0).preName else (g.node n).name) uid tag st0 dur
    obtain ⟨b1, b2, _⟩ := Term.recordResult_loc (D := Term.DT) sa 0 n phase (if (phase == Phase.pre) = true then (s.wd 0).preName else (g.node n).name) uid tag st0 dur
    have cB := calm_recordResult 0 sa 0 n phase (if (phase == Phase.pre) = true then (s.wd 0).preName else (g.node n).name) uid tag st0 dur
    rw [lA.own] at b2
    have gB := Term.good_of_loc (g := g) (d := d) b1 gA.nodesLen gA.cls gA.explored (by rw [b2]; exact hwalk)
    obtain ⟨x1, x2⟩ := continueAfter_single g d hr hsym h1 n phase dir fuel hf _
      (recordResult sa 0 n phase (if (phase == Phase.pre) = true then (s.wd 0).preName else (g.node n).name) uid tag st0 dur).2
      (reportOutcome g s 0 n phase uid wait out).2
      (hA.bookOnly bB) (by rw [(bB.wd 0).2]; exact hpcA) (by rw [b2]; exact hwalk) (by rw [b2]; exact hdir)
      gB.nodesLen gB.cls gB.explored
    exact ⟨x1, (cA.trans cB).trans x2⟩
  · split
    · exact waitCase _
    · split
      · exact waitCase _
      · obtain ⟨x1, x2⟩ := continueAfter_single g d hr hsym h1 n phase dir fuel hf sa false
          (reportOutcome g s 0 n phase uid wait out).2 hA hpcA
          (by rw [lA.own]; exact hwalk) (by rw [lA.own]; exact hdir) gA.nodesLen gA.cls gA.explored
        exact ⟨x1, cA.trans x2⟩

/-- **The step of the only worker**: from a reachable state (invariants `PInv`, `TInv`; nothing unexplored) a `resume`
with `fuel ≥ bound g` ends inside a test, at the exit or dead — never in `bounce` or `loop` — unless it was over
before; no threshold is bumped and the back-off record of the worker stays as it is. -/
theorem resume_single (g : Graph) (d : Nat → Nat) (hr : Term.Ranked g d) (hsym : EdgeSym g) (h1 : g.workers.length = 1)
    (s : State) (out : Outcome) (fuel : Nat) (hf : Term.bound g ≤ fuel)
    (h : PInv g s) (ht : Term.TInv g d s) (he : Term.Explored g s) :
    pcFinal ((resume g s 0 out fuel).1.wd 0).pc = true ∧ Calm 0 s (resume g s 0 out fuel).1 := by
  have hws : 0 < s.workers.length := by rw [h.wlen, h1]; exact Nat.one_pos
  have hg : Term.Good g d 0 s := ⟨ht.nodesLen, ht.cls, he, ht.walk 0⟩
  have loopCase : (s.wd 0).pc.node? = none → (s.wd 0).pc ≠ .failed → (s.wd 0).pc ≠ .done →
      pcFinal ((runLoop g 0 fuel s []).1.wd 0).pc = true ∧ Calm 0 s (runLoop g 0 fuel s []).1 := by
    intro h2 h3 h4
    refine runLoop_single g d hr hsym h1 s [] (h.toO h2 h3) ?_ hws hg fuel hf
    rcases h.path 0 hws with h' | h'
    · exact absurd h'.2 h4
    · exact h'
  unfold resume
  split
  · next heq => exact loopCase (by rw [heq]; rfl) (by rw [heq]; simp) (by rw [heq]; simp)
  · next heq => exact loopCase (by rw [heq]; rfl) (by rw [heq]; simp) (by rw [heq]; simp)
  · next n phase dir uid tag wait heq =>
    obtain ⟨_, hlast, _⟩ := h.testOwn 0 n (by rw [heq]; rfl)
    exact resumeTest_single g d hr hsym h1 s n phase dir uid tag wait out fuel hf h (by rw [heq]; rfl) (ht.walk 0)
      (fun hdn => (ht.dir 0).1 n phase uid tag wait (by rw [heq, hdn]) n hlast) ht.nodesLen ht.cls he
  · next heq => exact ⟨by rw [heq]; rfl, Calm.refl 0 s⟩
  · next heq => exact ⟨by rw [heq]; rfl, Calm.refl 0 s⟩

/-! ## the result wait is bounded: `wait ≤ 10` -/

theorem startFrom_pc {g : Graph} {w : Nat} {s1 s' : State} (h : StartFrom g w s1 s') (hw : w < s1.workers.length) :
    ∃ n ph dir uid tag, (s'.wd w).pc = .test n ph dir uid tag 0 := by
  cases h with
  | plain n dir s0 evs gv hgv hn hroot hdec e =>
    rw [e, startTest_pc g s1 n w .plain dir hw]; exact ⟨_, _, _, _, _, rfl⟩
  | pre n dir hn hroot e =>
    rw [e, startTest_pc g _ n w .pre dir (by simp [State.setWd]; exact hw)]; exact ⟨_, _, _, _, _, rfl⟩

theorem appendPre_workers (s : State) (n w : Nat) (ph : Phase) :
    (if ph = .pre then appendPre s n w else s).workers.length = s.workers.length := by
  split <;> rfl

theorem contEff_pc {g : Graph} {w n : Nat} {ph : Phase} {dir : Dir} {sc s' : State} {ok : Bool}
    (h : ContEff g w n ph dir sc ok s') (hw : w < sc.workers.length) :
    (s'.wd w).pc.isTest = false ∨ ∃ n' ph' dir' uid' tag', (s'.wd w).pc = .test n' ph' dir' uid' tag' 0 := by
  rcases h with ⟨_, _, e⟩ | ⟨_, ⟨_, hp⟩ | ⟨s1, a, hs⟩⟩
  · right; rw [e, startTest_pc g sc n w .main dir hw]; exact ⟨_, _, _, _, _, rfl⟩
  · exact Or.inl hp
  · right; exact startFrom_pc hs (by rw [a.workersLen, appendPre_workers]; exact hw)

theorem wait_of_pc {pc : Pc} (h : pc.isTest = false ∨ ∃ n' ph' dir' uid' tag', pc = .test n' ph' dir' uid' tag' 0)
    {n : Nat} {ph : Phase} {dir : Dir} {uid : String} {tag wait : Nat} (e : pc = .test n ph dir uid tag wait) : wait ≤ 10 := by
  subst e
  rcases h with h | ⟨_, _, _, _, _, h⟩
  · cases h
  · cases h; exact Nat.zero_le _

/-- the wait counter of the program counter after a step is at most 10 -/
theorem resume_wait (g : Graph) (hwf : GraphWF g) (s : State) (w : Nat) (out : Outcome) (fuel : Nat) (hf : 0 < fuel)
    (hw : w < s.workers.length) (hpath : ∀ x ∈ (s.wd w).path, x < g.nodes.length)
    (h : ∀ n ph dir uid tag wait, (s.wd w).pc = .test n ph dir uid tag wait → wait ≤ 10) :
    ∀ n ph dir uid tag wait, ((resume g s w out fuel).1.wd w).pc = .test n ph dir uid tag wait → wait ≤ 10 := by
  have loopCase : ∀ n ph dir uid tag wait, ((runLoop g w fuel s []).1.wd w).pc = .test n ph dir uid tag wait → wait ≤ 10 := by
    intro n ph dir uid tag wait e
    rcases runLoop_eff_pos g hwf w fuel hf s [] hw hpath with ⟨_, hp⟩ | ⟨s1, a, hs⟩
    · exact wait_of_pc (Or.inl hp) e
    · exact wait_of_pc (Or.inr (startFrom_pc hs (by rw [a.workersLen]; exact hw))) e
  unfold resume
  split
  · exact loopCase
  · exact loopCase
  · next n0 ph0 dir0 uid0 tag0 wait0 heq =>
    rw [resumeTest_eq]
    obtain ⟨r1, r2, _⟩ := reportOutcome_frame g s w n0 ph0 uid0 wait0 out
    have hwA : w < (reportOutcome g s w n0 ph0 uid0 wait0 out).1.workers.length := by rw [r2]; exact hw
    have hpA : ∀ x ∈ ((reportOutcome g s w n0 ph0 uid0 wait0 out).1.wd w).path, x < g.nodes.length := by
      unfold State.wd; rw [r2]; exact hpath
    generalize (reportOutcome g s w n0 ph0 uid0 wait0 out).1 = sa at hwA hpA
    have tick : ∀ k, k ≤ 10 → ∀ n ph dir uid tag wait,
        ((sa.setWd w (fun d => { d with pc := .test n0 ph0 dir0 uid0 tag0 k })).wd w).pc = .test n ph dir uid tag wait → wait ≤ 10 := by
      intro k hk n ph dir uid tag wait e
      rw [wd_setWd_eq sa w _ hwA] at e
      cases e; exact hk
    split
    · next st0 dur _ =>
      have bB := recordResult_frame sa w n0 ph0 (if (ph0 == Phase.pre) = true then (s.wd w).preName else (g.node n0).name) uid0 tag0 st0 dur
      intro n ph dir uid tag wait e
      exact wait_of_pc (contEff_pc (continueAfter_eff g hwf w n0 ph0 dir0 fuel hf _ _ _ (by rw [bB.workersLen]; exact hwA)
        (by rw [(bB.wd w).1]; exact hpA)) (by rw [bB.workersLen]; exact hwA)) e
    · split
      · next hlt => exact tick _ (by omega)
      · split
        · next _ heq10 => exact tick _ (by simp at heq10; omega)
        · intro n ph dir uid tag wait e
          exact wait_of_pc (contEff_pc (continueAfter_eff g hwf w n0 ph0 dir0 fuel hf _ _ _ hwA hpA) hwA) e
  · exact h
  · exact h

/-! ## counting the steps

`cnt = 23 · (number of results, placeholders included) + pcTerm`: a tick of the result wait raises `pcTerm` by one
(`wait ≤ 10`), the end of an execution followed by the start of the next test appends a placeholder. -/

/-- number of results of all nodes, UNKNOWN placeholders included -/
def total (g : Graph) (s : State) : Nat := ((List.range g.nodes.length).map (fun n => (s.nd n).results.length)).sum

theorem total_congr {g : Graph} {s s' : State} (h : ∀ m, (s'.nd m).results = (s.nd m).results) : total g s' = total g s :=
  sum_map_congr _ _ _ (fun j _ => by rw [h j])

theorem total_succ {g : Graph} {s s' : State} {n : Nat} (hn : n < g.nodes.length)
    (h1 : (s'.nd n).results.length = (s.nd n).results.length + 1)
    (h2 : ∀ j, j ≠ n → (s'.nd j).results.length = (s.nd j).results.length) : total g s' = total g s + 1 :=
  sum_map_succ _ List.nodup_range n (List.mem_range.mpr hn) _ _ h1 (fun j _ hj => h2 j hj)

/-- no node is an object root (no two-step creations) -/
def noRootsB (g : Graph) : Bool := g.nodes.all (fun nd => !nd.objectRoot)

theorem noRoots_spec {g : Graph} (h : noRootsB g = true) (n : Nat) : (g.node n).objectRoot = false := by
  rcases node_mem_or_default g n with hm | hm
  · unfold noRootsB at h
    rw [List.all_eq_true] at h
    simpa using h _ hm
  · rw [hm]

def pcTerm : Pc → Nat
  | .test _ .pre _ _ _ wait => 12 + wait
  | .test _ _ _ _ _ wait => 1 + wait
  | _ => 0

/-- the step counter -/
def cnt (g : Graph) (s : State) : Nat := 23 * total g s + pcTerm (s.wd 0).pc

/-- the traversal of the worker is over -/
def isOver : Pc → Bool
  | .done => true
  | .failed => true
  | _ => false

theorem pcTerm_nonTest {pc : Pc} (h : pc.isTest = false) : pcTerm pc = 0 := by
  cases pc <;> first | rfl | cases h

theorem isTest_of_final {pc : Pc} (h1 : pcFinal pc = true) (h2 : isOver pc = false) : pc.isTest = true := by
  cases pc <;> first | rfl | (cases h1; done) | cases h2

theorem startFrom_total {g : Graph} (hnr : ∀ n, (g.node n).objectRoot = false) {w : Nat} {s1 s' : State}
    (h : StartFrom g w s1 s') (hlen : s1.nodes.length = g.nodes.length) : total g s' = total g s1 + 1 := by
  cases h with
  | plain n dir s0 evs gv hgv hn hroot hdec e =>
    obtain ⟨a1, a2⟩ := startTest_nonpre_len g s1 n w .plain dir (by decide) (by rw [hlen]; exact hn)
    rw [e]
    exact total_succ hn a1 a2
  | pre n dir hn hroot e => rw [hnr n] at hroot; cases hroot

theorem contEff_total {g : Graph} (hnr : ∀ n, (g.node n).objectRoot = false) {w n : Nat} {dir : Dir} {sc s' : State}
    {ok : Bool} (h : ContEff g w n .plain dir sc ok s') (hT : (s'.wd w).pc.isTest = true)
    (hlen : sc.nodes.length = g.nodes.length) : total g s' = total g sc + 1 := by
  rcases h with ⟨h, _⟩ | ⟨_, ⟨_, hp⟩ | ⟨s1, a, hs⟩⟩
  · cases h
  · rw [hT] at hp; cases hp
  · simp only [reduceCtorEq, if_false] at a
    rw [startFrom_total hnr hs (by rw [a.nodesLen]; exact hlen)]
    rw [total_congr a.results]

theorem total_settle {g : Graph} {s : State} {w n : Nat} {ph : Phase} {dir : Dir} {uid : String} {tag wait : Nat}
    (b : Basic g s All) (hpc : (s.wd w).pc = .test n ph dir uid tag wait) (hph : ph ≠ .pre)
    (hroot : (g.node n).objectRoot = false) (res : Result) (hres : res.tag = 0) :
    total g (settleNd s n res tag) = total g s := by
  refine sum_map_congr _ _ _ (fun j _ => ?_)
  rcases settleNd_results s n res tag j with h | ⟨hj, h⟩
  · rw [h]
  · subst hj
    rw [h]
    have ht := (b.pcOK w j ph dir uid tag wait trivial hpc).2.1
    have hl := settle_len (s.nd j).results res tag (isPh_res_false res tag hres ht)
    have h1 := b.tagsOnce j tag hroot ht
    have h2 : 0 < ((s.nd j).results.filter (isPh tag)).length := by
      apply List.length_pos_of_mem (a := phOf (g.node j).name tag)
      refine List.mem_filter.mpr ⟨(b.placeholder w j ph dir uid tag wait trivial hpc).1 hph, ?_⟩
      rw [isPh_phOf]; simp
    omega

/-- **every step that does not end the traversal raises the counter** (graphs without object roots) -/
theorem resume_cnt (g : Graph) (hwf : GraphWF g) (hnr : ∀ n, (g.node n).objectRoot = false) (s : State) (b : Basic g s All)
    (out : Outcome) (fuel : Nat) (hf : 0 < fuel) (hw0 : 0 < g.workers.length)
    (hwait : ∀ n ph dir uid tag wait, (s.wd 0).pc = .test n ph dir uid tag wait → wait ≤ 10)
    (hT : ((resume g s 0 out fuel).1.wd 0).pc.isTest = true) : cnt g s < cnt g (resume g s 0 out fuel).1 := by
  have hws : 0 < s.workers.length := by rw [b.workersLen]; exact hw0
  unfold cnt
  rcases resume_eff g hwf s 0 out fuel hf hws (b.paths 0) with ⟨hnt, h⟩ | ⟨n, ph, dir, uid, tag, wait, hpc, sa, hrep, h⟩
  · rw [pcTerm_nonTest hnt]
    rcases h with ⟨_, hp⟩ | ⟨s1, a, hs⟩
    · rw [hT] at hp; cases hp
    · rw [startFrom_total hnr hs (by rw [a.nodesLen]; exact b.nodesLen), total_congr a.results]
      omega
  · have hok := b.pcOK 0 n ph dir uid tag wait trivial hpc
    have hph : ph = .plain := hok.2.2.2.1.mp (hnr n)
    subst hph
    have hw10 := hwait n .plain dir uid tag wait hpc
    have hterm : pcTerm (s.wd 0).pc = 1 + wait := by rw [hpc]; rfl
    rw [hterm]
    have hsb : SameBook s sa := by
      rcases hrep with ⟨h, _⟩ | ⟨_, _, _, h, _⟩
      · rw [h]; exact ⟨rfl, rfl, rfl⟩
      · exact h
    have ba : Basic g sa All := b.sameBook hsb
    have hpca : (sa.wd 0).pc = .test n .plain dir uid tag wait := by rw [hsb.wd]; exact hpc
    have hta : total g sa = total g s := total_congr (fun m => by rw [hsb.nd])
    rcases h with ⟨e, _, sb, res, ok, hsab, _, ⟨hres, _⟩, hc⟩ | ⟨_, h | hc⟩
    · have bb : Basic g sb All := ba.sameBook hsab
      have hpcb : (sb.wd 0).pc = .test n .plain dir uid tag wait := by rw [hsab.wd]; exact hpca
      have htb : total g sb = total g sa := total_congr (fun m => by rw [hsab.nd])
      simp only [reduceCtorEq, if_false] at hc
      have h1 := contEff_total hnr hc hT (by unfold settleNd; rw [nodes_length_setNd]; exact bb.nodesLen)
      rw [total_settle bb hpcb (by decide) (hnr n) res hres] at h1
      omega
    · rw [h, wd_setWd_eq sa 0 _ (by rw [ba.workersLen]; exact hw0)]
      have : total g (sa.setWd 0 (fun d => { d with pc := .test n .plain dir uid tag (wait + 1) })) = total g sa :=
        total_congr (fun m => rfl)
      rw [this, hta]
      show 23 * total g s + (1 + wait) < 23 * total g s + (1 + (wait + 1))
      omega
    · have h1 := contEff_total hnr hc hT ba.nodesLen
      omega

/-! ## runs of the only worker -/

/-- static hypotheses: one worker, a pre-parsed (`noFlatB`: no flat node but the shared root) acyclic graph with edges
recorded at both ends and within range, registers for every class -/
structure Static (g : Graph) (ncls : Nat) : Prop where
  one : g.workers.length = 1
  ranked : Term.rankedB g = true
  sym : edgeSymB g = true
  flat : Term.noFlatB g = true
  wf : graphWF g = true
  cls : ∀ n, n < g.nodes.length → (g.node n).cls < ncls

/-- the run of the only worker: one `resume` per entry (outcome of the awaited test, fuel of the block) -/
def runSteps (g : Graph) (s : State) (steps : List (Outcome × Nat)) : State :=
  steps.foldl (fun s st => (resume g s 0 st.1 st.2).1) s

/-- the invariant of such runs -/
structure GInv (g : Graph) (ncls : Nat) (store : List (String × List (String × String))) (s : State) : Prop where
  reachP : ReachableP g ncls store s
  reachF : ReachableF g ncls store s
  occ : (s.wd 0).occAt = []
  wait : ∀ n ph dir uid tag wait, (s.wd 0).pc = .test n ph dir uid tag wait → wait ≤ 10

theorem bound_pos (g : Graph) : 0 < Term.bound g := by unfold Term.bound; omega

theorem ginv_init {g : Graph} {ncls : Nat} (st : Static g ncls) (store : List (String × List (String × String))) :
    GInv g ncls store (initState g ncls store []) := by
  have hwd : (initState g ncls store []).wd 0 = { path := [g.root] } := by
    have hv : 0 < g.workers.length := by rw [st.one]; exact Nat.one_pos
    unfold initState State.wd
    simp only [List.getD_eq_getElem?_getD, List.getElem?_map, List.getElem?_eq_getElem hv]
    rfl
  refine ⟨.init [], .init [], by rw [hwd], fun n ph dir uid tag wait e => ?_⟩
  rw [hwd] at e; cases e

theorem ginv_step {g : Graph} {ncls : Nat} (st : Static g ncls) {store : List (String × List (String × String))} {s : State}
    (h : GInv g ncls store s) (out : Outcome) (fuel : Nat) (hf : Term.bound g ≤ fuel) :
    GInv g ncls store (resume g s 0 out fuel).1 ∧ pcFinal ((resume g s 0 out fuel).1.wd 0).pc = true := by
  have hf0 : 0 < fuel := Nat.lt_of_lt_of_le (bound_pos g) hf
  have hw : 0 < g.workers.length := by rw [st.one]; exact Nat.one_pos
  have hsym := edgeSymB_sound st.sym
  have hr := Term.rankedB_sound st.ranked
  have b := h.reachP.reachableR.basic st.wf
  obtain ⟨x1, x2⟩ := resume_single g (Term.depth g) hr hsym st.one s out fuel hf (h.reachF.pinv hsym)
    (Term.reachable_tinv hr hsym st.cls h.reachF) (Term.explored_of_noFlat st.flat s)
  refine ⟨⟨.step 0 out fuel h.reachP hw hf0 (not_overWaited_of_nil h.occ), .step s 0 out fuel h.reachF hw hf0, ?_, ?_⟩, x1⟩
  · rw [x2.occAt]; exact h.occ
  · exact resume_wait g (GraphWF.of_bool st.wf) s 0 out fuel hf0 (by rw [b.workersLen]; exact hw) (b.paths 0) h.wait

theorem resume_over (g : Graph) (s : State) (out : Outcome) (fuel : Nat) (h : isOver (s.wd 0).pc = true) :
    (resume g s 0 out fuel).1 = s := by
  unfold resume
  split
  · next heq => rw [heq] at h; cases h
  · next heq => rw [heq] at h; cases h
  · next heq => rw [heq] at h; cases h
  · rfl
  · rfl

theorem runSteps_over (g : Graph) (steps : List (Outcome × Nat)) (s : State) (h : isOver (s.wd 0).pc = true) :
    runSteps g s steps = s := by
  induction steps with
  | nil => rfl
  | cons a r ih =>
    unfold runSteps at ih ⊢
    rw [List.foldl_cons, resume_over g s a.1 a.2 h]
    exact ih

/-- along every run: the invariant holds, and after at least one step the worker is inside a test, done or dead -/
theorem run_ginv {g : Graph} {ncls : Nat} (st : Static g ncls) {store : List (String × List (String × String))}
    (steps : List (Outcome × Nat)) (s : State) (h : GInv g ncls store s) (hfuel : ∀ x ∈ steps, Term.bound g ≤ x.2) :
    GInv g ncls store (runSteps g s steps) ∧ (steps ≠ [] → pcFinal ((runSteps g s steps).wd 0).pc = true) := by
  induction steps generalizing s with
  | nil => exact ⟨h, fun h0 => absurd rfl h0⟩
  | cons a r ih =>
    obtain ⟨x1, x2⟩ := ginv_step st h a.1 a.2 (hfuel a List.mem_cons_self)
    obtain ⟨y1, y2⟩ := ih _ x1 (fun x hx => hfuel x (List.mem_cons_of_mem _ hx))
    refine ⟨y1, fun _ => ?_⟩
    cases r with
    | nil => exact x2
    | cons b r' => exact y2 (by simp)

/-- along every run that is not over: the counter has grown by at least the number of steps -/
theorem run_cnt {g : Graph} {ncls : Nat} (st : Static g ncls) (hnr : noRootsB g = true)
    {store : List (String × List (String × String))} (steps : List (Outcome × Nat)) (s : State)
    (h : GInv g ncls store s) (hfuel : ∀ x ∈ steps, Term.bound g ≤ x.2)
    (hno : isOver ((runSteps g s steps).wd 0).pc = false) : cnt g s + steps.length ≤ cnt g (runSteps g s steps) := by
  induction steps generalizing s with
  | nil => exact Nat.le_refl _
  | cons a r ih =>
    have hfa := hfuel a List.mem_cons_self
    obtain ⟨x1, x2⟩ := ginv_step st h a.1 a.2 hfa
    have hrun : runSteps g s (a :: r) = runSteps g (resume g s 0 a.1 a.2).1 r := rfl
    rw [hrun] at hno ⊢
    by_cases hov : isOver ((resume g s 0 a.1 a.2).1.wd 0).pc = true
    · rw [runSteps_over g r _ hov] at hno
      rw [hov] at hno; cases hno
    · have hT := isTest_of_final x2 (by simpa using hov)
      have hw : 0 < g.workers.length := by rw [st.one]; exact Nat.one_pos
      have c1 := resume_cnt g (GraphWF.of_bool st.wf) (noRoots_spec hnr) s (h.reachP.reachableR.basic st.wf) a.1 a.2
        (Nat.lt_of_lt_of_le (bound_pos g) hfa) hw h.wait hT
      have c2 := ih _ x1 (fun x hx => hfuel x (List.mem_cons_of_mem _ hx)) hno
      simp only [List.length_cons]
      omega

theorem pcTerm_le {pc : Pc} (h : ∀ n ph dir uid tag wait, pc = .test n ph dir uid tag wait → wait ≤ 10) : pcTerm pc ≤ 22 := by
  cases pc with
  | test n ph dir uid tag wait =>
    have := h n ph dir uid tag wait rfl
    cases ph <;> simp only [pcTerm] <;> omega
  | _ => simp [pcTerm]

/-- **Termination across suspensions, given a bound on the number of results**: when no reachable state has more than
`R` results, the worker is done or dead after any `23·R + 23` steps. -/
theorem run_over {g : Graph} {ncls : Nat} (st : Static g ncls) (hnr : noRootsB g = true)
    (store : List (String × List (String × String))) (R : Nat)
    (hR : ∀ s, ReachableP g ncls store s → total g s ≤ R)
    (steps : List (Outcome × Nat)) (hfuel : ∀ x ∈ steps, Term.bound g ≤ x.2) (hlen : 23 * R + 23 ≤ steps.length) :
    isOver ((runSteps g (initState g ncls store []) steps).wd 0).pc = true := by
  cases hov : isOver ((runSteps g (initState g ncls store []) steps).wd 0).pc with
  | true => rfl
  | false =>
    exfalso
    have c := run_cnt st hnr steps _ (ginv_init st store) hfuel hov
    obtain ⟨y, _⟩ := run_ginv st steps _ (ginv_init st store) hfuel
    have h1 := hR _ y.reachP
    have h2 := pcTerm_le y.wait
    unfold cnt at c
    omega

/-! ## the number of results is bounded by the retry budgets (C03) -/

/-- every node lies in a class the budget theorems of C03 cover without further conditions on the state: a class of
stateless tests (no set states) without object roots whose copies agree on `max_tries`, or a class of setup tests
(`statefulClass`: set states, no object roots, agreement on `max_tries` and the scope shape, the result-name filter agrees
with the scope) whose `max_concurrent_tries` is unset or within `max(max_tries, 1)` -/
def classesOKB (g : Graph) : Bool :=
  (List.range g.nodes.length).all (fun n =>
    statelessClass g (g.node n).cls (g.node n).maxTries ||
    (statefulClass g (g.node n).cls (g.node n).maxTries (g.node n).shape &&
      mctWithin g (g.node n).cls (g.node n).maxTries))

/-- `Σ_n max(max_tries n, 1)` -/
def resultBound (g : Graph) : Nat :=
  ((List.range g.nodes.length).map (fun n => (max ((g.node n).maxTries.getD 1) 1).toNat)).sum

/-- the explicit bound on the number of `resume` steps of the only worker -/
def stepBound (g : Graph) : Nat := 23 * resultBound g + 23

theorem inScopeOf_self (sh : Shape) (g : Graph) (v : Nat) : inScopeOf sh g v v = true := by
  cases sh <;> simp [inScopeOf]

/-- one worker: what the only observer counts of a setup class is all the class has -/
theorem classLen_le_scopedLen {g : Graph} (h1 : g.workers.length = 1) {c : Nat} {M : Option Int} {sh : Shape}
    (hC : BClass g c M sh) {s : State} (b : BInv g c M sh s All) : classLen g s c ≤ scopedLen g s c sh 0 := by
  have h0 : 0 < g.workers.length := by rw [h1]; exact Nat.one_pos
  refine sum_map_le _ _ _ (fun j hj => ?_)
  obtain ⟨hj1, hj2⟩ := (mem_classNodes g c j).mp hj
  by_cases hne : (s.nd j).results = []
  · rw [hne]; exact Nat.zero_le _
  · have hid : g.idIn 0 j = true := by
      rcases b.p1 j hj1 hj2 hne with ⟨u, tag, _, ⟨ph, dir, uid, wait, hpc, _⟩, _⟩ | ⟨u, hu, hid, _⟩
      · obtain ⟨_, _, hid, _⟩ := b.infl u trivial j ph dir uid tag wait hpc hj2
        have hu : u < s.workers.length := lt_of_isTest s u (by rw [hpc]; rfl)
        rw [b.workersLen, h1] at hu
        have : u = 0 := by omega
        rw [this] at hid; exact hid
      · rw [h1] at hu
        have : u = 0 := by omega
        rw [this] at hid; exact hid
    have hseen : seen g sh 0 j = true := by
      rw [hC.scope j hj1 hj2 0 0 h0 h0 hid]; exact inScopeOf_self sh g 0
    simp only [hseen, if_true]
    exact Nat.le_refl _

theorem total_le_resultBound {g : Graph} {ncls : Nat} (st : Static g ncls) (hcl : classesOKB g = true)
    {store : List (String × List (String × String))} {s : State} (hP : ReachableP g ncls store s) :
    total g s ≤ resultBound g := by
  have hR := hP.reachableR
  refine sum_map_le _ _ _ (fun n hn => ?_)
  have hn' : n < g.nodes.length := List.mem_range.mp hn
  have hle : (s.nd n).results.length ≤ classLen g s (g.node n).cls :=
    Term.le_sum_of_mem (g.classNodes (g.node n).cls) (fun j => (s.nd j).results.length) n
      ((mem_classNodes g _ n).mpr ⟨hn', rfl⟩)
  unfold classesOKB at hcl
  rw [List.all_eq_true] at hcl
  have hc := hcl n hn
  rw [Bool.or_eq_true, Bool.and_eq_true] at hc
  rcases hc with hc | ⟨hc, hm⟩
  · have := hR.budget st.wf (g.node n).cls (g.node n).maxTries hc
    omega
  · have hC := statefulClass_spec hc
    have b := hR.binv st.wf hC
    have h0 : 0 < g.workers.length := by rw [st.one]; exact Nat.one_pos
    have h1 := classLen_le_scopedLen st.one hC b
    have h2 := b.budget 0 h0 [] List.nodup_nil (fun u hu => by cases hu)
    have h3 := classLimit_le_of_mctWithin hC hm s hP.noBump
    simp only [List.length_nil, Nat.add_zero] at h2
    omega

end I2N.Trav.Global
