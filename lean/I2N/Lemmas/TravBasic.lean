import I2N.Lemmas.Trav
/-!
Helpers shared by the two families of invariant files of the traversal model
(`TravExcl → TravLoc → TravProgress` and `TravResults → TravReady`), so that files of both families can be
imported together (`TravBudget.lean` needs the exclusion vocabulary and the result bookkeeping at once).
-/
namespace I2N.Trav

/-! ## access -/

theorem nd_setNd_cases (s : State) (m : Nat) (f : NodeD → NodeD) (n : Nat) :
    (s.setNd m f).nd n = s.nd n ∨ (n = m ∧ m < s.nodes.length ∧ (s.setNd m f).nd n = f (s.nd n)) := by
  by_cases h : n = m
  · subst h
    by_cases hl : n < s.nodes.length
    · right; exact ⟨rfl, hl, nd_setNd_eq s n f hl⟩
    · left
      unfold State.setNd State.nd
      simp only [List.getD_eq_getElem?_getD, List.getElem?_modify]
      rw [List.getElem?_eq_none (by omega)]; rfl
  · left; exact nd_setNd_ne s m n f h

/-! ## the visible graph -/

/-- a node of the visible graph is the node of the full graph with some of its edges removed -/
theorem vis_node (g : Graph) (s : State) (n : Nat) :
    ∃ su cl, (vis g s).node n = { g.node n with setup := su, cleanup := cl } ∧
      (∀ p ∈ su, p ∈ (g.node n).setup) ∧ (∀ p ∈ cl, p ∈ (g.node n).cleanup) := by
  unfold vis
  by_cases he : s.hidden.isEmpty = true
  · simp only [he, if_true]
    exact ⟨_, _, rfl, fun _ h => h, fun _ h => h⟩
  · simp only [he, Bool.false_eq_true, if_false]
    unfold Graph.node
    simp only [List.getD_eq_getElem?_getD, List.getElem?_map, List.getElem?_zipIdx]
    cases hn : g.nodes[n]? with
    | none => exact ⟨[], [], rfl, fun _ h => by simp at h, fun _ h => by simp at h⟩
    | some nd =>
      simp only [Option.map_some, Option.getD_some, Nat.zero_add]
      split
      · exact ⟨[], [], rfl, fun _ h => by simp at h, fun _ h => by simp at h⟩
      · exact ⟨_, _, rfl, fun _ h => (List.mem_filter.mp h).1, fun _ h => (List.mem_filter.mp h).1⟩

/-! ## classes and copies -/

theorem mem_classNodes (g : Graph) (c n : Nat) : n ∈ g.classNodes c ↔ n < g.nodes.length ∧ (g.node n).cls = c := by
  unfold Graph.classNodes
  simp [List.mem_filter, List.mem_range]

theorem mem_copies (g : Graph) (n i : Nat) (hn : n < g.nodes.length) (hf : (g.node n).flat = false) :
    i ∈ g.copies n ↔ i < g.nodes.length ∧ (g.node i).cls = (g.node n).cls := by
  unfold Graph.copies
  simp only [hf, Bool.false_eq_true, if_false, List.mem_cons, List.mem_filter, mem_classNodes, bne_iff_ne, ne_eq]
  constructor
  · rintro (rfl | h)
    · exact ⟨hn, rfl⟩
    · exact h.1
  · intro h
    by_cases hi : i = n
    · exact Or.inl hi
    · exact Or.inr ⟨h, hi⟩

end I2N.Trav
