import I2N.Lemmas.TunnelProj
/-! What the two end points see (`left_params[s]`, `right_params[s]`) in terms of the assignments of the parts. -/
namespace I2N.Tunnel

/-- `tunnel.left_params.get(s)` -/
def Tunnel.L (t : Tunnel) (s : String) : Option String := t.leftParams.get? ⟨s, []⟩
/-- `tunnel.right_params.get(s)` -/
def Tunnel.R (t : Tunnel) (s : String) : Option String := t.rightParams.get? ⟨s, []⟩

/-- the names are well formed (tunnel and end nodes pairwise distinct) and the end nodes do not overwrite
generated parameters -/
structure WF (name : String) (node1 node2 : Node) : Prop where
  h1 : name ≠ node1.name
  h2 : name ≠ node2.name
  h12 : node1.name ≠ node2.name
  c1 : Clean node1
  c2 : Clean node2

variable {name : String} {node1 node2 : Node} {local1 remote1 peer1 : SDict} {auth : Option SDict} {t : Tunnel}

def Built.all (b : Built name node1 node2 local1 remote1 peer1 auth t) : Assignments :=
  b.a0 ++ b.a1 ++ b.a2 ++ b.a3 ++ b.a4

theorem Built.lastVal_all (b : Built name node1 node2 local1 remote1 peer1 auth t) (k : Key) :
    lastVal b.all k =
      (lastVal b.a4 k).or ((lastVal b.a3 k).or ((lastVal b.a2 k).or ((lastVal b.a1 k).or (lastVal b.a0 k)))) := by
  simp [Built.all, lastVal_append, Option.or_assoc]

theorem Built.shape_all (b : Built name node1 node2 local1 remote1 peer1 auth t) :
    ∀ p ∈ b.all, Shape name node1.name node2.name p.1 := by
  intro p hp
  simp only [Built.all, List.mem_append] at hp
  rcases hp with (((hp | hp) | hp) | hp) | hp
  · exact (mainPart_good b.h0 p hp).2
  · exact (localPart_good b.h1 p hp).2
  · exact (remotePart_good b.h2 p hp).2
  · exact (peerPart_good b.h3 p hp).2
  · exact (authPart_good b.h4 p hp).2

theorem Built.params_get? (b : Built name node1 node2 local1 remote1 peer1 auth t) (k : Key) :
    t.params.get? k = lastVal b.all k := by
  rw [b.hparams, get?_assign_nil]; rfl

theorem Built.params_none (b : Built name node1 node2 local1 remote1 peer1 auth t) (k : Key)
    (hk : ¬ Shape name node1.name node2.name k) : t.params.get? k = none := by
  rw [b.params_get?, lastVal_eq_none]
  intro p hp he
  exact hk (by have := b.shape_all p hp; rw [he] at this; exact this)

theorem Built.L_eq (b : Built name node1 node2 local1 remote1 peer1 auth t) (wf : WF name node1 node2)
    (s : String) (hs : s ∈ genStems) :
    t.L s = (lastVal b.all ⟨s, [name, node1.name]⟩).or (lastVal b.all ⟨s, [name]⟩) := by
  unfold Tunnel.L Tunnel.leftParams
  rw [b.hleft, b.hname]
  simp only
  rw [proj_get? t.params node1.params name node1.name node2.name node1.name s b.params_none wf.h1 wf.h2 wf.h1
    (fun p hp he => wf.c1 p hp (by rw [he]; exact hs))]
  rw [b.params_get?, b.params_get?]

theorem Built.R_eq (b : Built name node1 node2 local1 remote1 peer1 auth t) (wf : WF name node1 node2)
    (s : String) (hs : s ∈ genStems) :
    t.R s = (lastVal b.all ⟨s, [name, node2.name]⟩).or (lastVal b.all ⟨s, [name]⟩) := by
  unfold Tunnel.R Tunnel.rightParams
  rw [b.hright, b.hname]
  simp only
  rw [proj_get? t.params node2.params name node1.name node2.name node2.name s b.params_none wf.h1 wf.h2 wf.h2
    (fun p hp he => wf.c2 p hp (by rw [he]; exact hs))]
  rw [b.params_get?, b.params_get?]

/-! ### the network parameters in terms of the kept netconfigs -/

def lanOf (name n : String) (nc : Option Netconfig) : Assignments :=
  match nc with
  | none => []
  | some nc => [(k2 "vpnconn_lan_net" name n, nc.netIp), (k2 "vpnconn_lan_netmask" name n, nc.netmask)]

def remoteOf (name n : String) (nc : Option Netconfig) : Assignments :=
  match nc with
  | none => []
  | some nc => [(k2 "vpnconn_remote_net" name n, nc.netIp), (k2 "vpnconn_remote_netmask" name n, nc.netmask)]

theorem localPart_assign {a : Assignments} {nc : Option Netconfig}
    (h : localPart name node1 node2 local1 = .ok (a, nc)) :
    (local1.get? "type" = some "custom" ∧ a = lanOf name node1.name nc) ∨
    (local1.get? "type" ≠ some "custom" ∧ a = lanOf name node1.name nc ++ remoteOf name node2.name nc) := by
  obtain ⟨t, ht, h⟩ := localPart_ok h
  rcases h with ⟨rfl, i, _, rfl, rfl⟩ | ⟨rfl, rfl, rfl⟩ | ⟨rfl, lnet, lmask, _, _, rfl, rfl⟩
  · right; simp [ht, lanOf, remoteOf]
  · right; simp [ht, lanOf, remoteOf]
  · left; simp [ht, lanOf]

theorem remotePart_assign {a : Assignments} {nc : Option Netconfig}
    (h : remotePart name node1 node2 local1 remote1 = .ok (a, nc)) :
    ∃ extra, a = lanOf name node2.name nc ++ remoteOf name node1.name nc ++ extra ∧
      ∀ p ∈ extra, p.1.stem = "vpnconn_remote_modeconfig_ip" := by
  obtain ⟨t, _, h⟩ := remotePart_ok h
  rcases h with ⟨_, lt, _, h⟩ | ⟨_, rfl, rfl⟩ | ⟨_, ip, _, rfl, rfl⟩
  · rcases h with ⟨_, _, _, _, _, rfl, rfl⟩ | ⟨_, i, _, rfl, rfl⟩ <;> exact ⟨[], by simp [lanOf, remoteOf], by simp⟩
  · exact ⟨[], by simp [lanOf, remoteOf], by simp⟩
  · exact ⟨_, by simp [lanOf, remoteOf]; rfl, by simp [k2]⟩

theorem mem_gen (s : String) (h : s ∈ mainStems ∨ s ∈ netStems ∨ s ∈ peerStems ∨ s ∈ authStems) :
    s ∈ genStems := by
  simp only [genStems, List.mem_append]
  rcases h with h | h | h | h <;> simp [h]

/-- only the local and the remote part assign network parameters -/
theorem net_all (b : Built name node1 node2 local1 remote1 peer1 auth t) (s : String) (q : List String)
    (hs : s ∈ netStems) :
    lastVal b.all ⟨s, q⟩ = (lastVal b.a2 ⟨s, q⟩).or (lastVal b.a1 ⟨s, q⟩) := by
  have hm : s ∉ mainStems := by
    simp only [netStems, List.mem_cons, List.not_mem_nil, or_false] at hs
    rcases hs with rfl | rfl | rfl | rfl | rfl <;> simp [mainStems]
  have hp : s ∉ peerStems := by
    simp only [netStems, List.mem_cons, List.not_mem_nil, or_false] at hs
    rcases hs with rfl | rfl | rfl | rfl | rfl <;> simp [peerStems]
  have ha : s ∉ authStems := by
    simp only [netStems, List.mem_cons, List.not_mem_nil, or_false] at hs
    rcases hs with rfl | rfl | rfl | rfl | rfl <;> simp [authStems]
  rw [b.lastVal_all, lastVal_none_of_stem (mainPart_good b.h0) s q hm,
    lastVal_none_of_stem (peerPart_good b.h3) s q hp, lastVal_none_of_stem (authPart_good b.h4) s q ha]
  simp

theorem extra_none {extra : Assignments} (h : ∀ p ∈ extra, p.1.stem = "vpnconn_remote_modeconfig_ip")
    (s : String) (q : List String) (hs : s ≠ "vpnconn_remote_modeconfig_ip") : lastVal extra ⟨s, q⟩ = none := by
  rw [lastVal_eq_none]
  intro p hp he
  exact hs (by rw [← h p hp, he])


theorem stems_disjoint :
    (∀ s ∈ mainStems, s ∉ netStems ∧ s ∉ peerStems ∧ s ∉ authStems) ∧
    (∀ s ∈ peerStems, s ∉ mainStems ∧ s ∉ netStems ∧ s ∉ authStems) ∧
    (∀ s ∈ authStems, s ∉ mainStems ∧ s ∉ netStems ∧ s ∉ peerStems) := by
  simp [mainStems, netStems, peerStems, authStems]

/-- only the main part assigns the type / side / name parameters -/
theorem main_all (b : Built name node1 node2 local1 remote1 peer1 auth t) (s : String) (q : List String)
    (hs : s ∈ mainStems) : lastVal b.all ⟨s, q⟩ = lastVal b.a0 ⟨s, q⟩ := by
  obtain ⟨h1, h2, h3⟩ := stems_disjoint.1 s hs
  rw [b.lastVal_all, lastVal_none_of_stem (localPart_good b.h1) s q h1,
    lastVal_none_of_stem (remotePart_good b.h2) s q h1,
    lastVal_none_of_stem (peerPart_good b.h3) s q h2, lastVal_none_of_stem (authPart_good b.h4) s q h3]
  simp

/-- only the peer part assigns the peer parameters -/
theorem peer_all (b : Built name node1 node2 local1 remote1 peer1 auth t) (s : String) (q : List String)
    (hs : s ∈ peerStems) : lastVal b.all ⟨s, q⟩ = lastVal b.a3 ⟨s, q⟩ := by
  obtain ⟨h1, h2, h3⟩ := stems_disjoint.2.1 s hs
  rw [b.lastVal_all, lastVal_none_of_stem (localPart_good b.h1) s q h2,
    lastVal_none_of_stem (remotePart_good b.h2) s q h2,
    lastVal_none_of_stem (mainPart_good b.h0) s q h1, lastVal_none_of_stem (authPart_good b.h4) s q h3]
  simp

/-- only the authentication part assigns the key parameters -/
theorem auth_all (b : Built name node1 node2 local1 remote1 peer1 auth t) (s : String) (q : List String)
    (hs : s ∈ authStems) : lastVal b.all ⟨s, q⟩ = lastVal b.a4 ⟨s, q⟩ := by
  obtain ⟨h1, h2, h3⟩ := stems_disjoint.2.2 s hs
  rw [b.lastVal_all, lastVal_none_of_stem (localPart_good b.h1) s q h2,
    lastVal_none_of_stem (remotePart_good b.h2) s q h2,
    lastVal_none_of_stem (mainPart_good b.h0) s q h1, lastVal_none_of_stem (peerPart_good b.h3) s q h3]
  simp

/-! ### the documented counterpart table (docstring of `__init__`: nic/custom = site, internetip/externalip = point) -/

/-- the right side's remote type describes the left side's local type -/
def counterRemote (lt : String) : String :=
  if lt = "nic" then "custom" else if lt = "internetip" then "externalip" else "custom"

/-- the right side's local type describes the left side's remote type (`modeconfig` falls back to `nic`) -/
def counterLocal (lt rt : String) : String :=
  if rt = "custom" then (if lt = "custom" then "custom" else "nic")
  else if rt = "externalip" then "internetip" else "nic"

theorem variant_types {ll lr lp rl rr rp : SDict} (hv : peerVariant ll lr lp = .ok (rl, rr, rp)) :
    ∃ lt rt pt, ll.get? "type" = some lt ∧ lr.get? "type" = some rt ∧ lp.get? "type" = some pt ∧
      rl.get? "type" = some (counterLocal lt rt) ∧ rr.get? "type" = some (counterRemote lt) ∧
      rp.get? "type" = some "ip" := by
  obtain ⟨lt, rt, pt, h1, h2, h3, hr, hl, hp⟩ := peerVariant_ok hv
  refine ⟨lt, rt, pt, h1, h2, h3, ?_, ?_, ?_⟩
  · rcases hl with ⟨rfl, rfl, rfl⟩ | ⟨rfl, hc, _, _, rfl⟩ | ⟨rfl, rfl⟩ | ⟨hn1, hn2, rfl⟩ <;>
      simp_all [SDict.get?, counterLocal]
  · rcases hr with ⟨rfl, _, _, rfl⟩ | ⟨rfl, rfl⟩ | ⟨hn1, hn2, rfl⟩ <;> simp_all [SDict.get?, counterRemote]
  · rcases hp with ⟨_, _, _, rfl⟩ | ⟨_, _, rfl⟩ <;> simp [SDict.get?]

theorem mainPart_total {name n1 n2 : String} {l1 r1 l2 r2 : SDict} {a b c d : String}
    (h1 : l1.get? "type" = some a) (h2 : l2.get? "type" = some b) (h3 : r1.get? "type" = some c)
    (h4 : r2.get? "type" = some d) : ∃ x, mainPart name n1 n2 l1 r1 l2 r2 = .ok x := by
  simp [mainPart, SDict.getItem, h1, h2, h3, h4, bind, Except.bind, pure, Except.pure]

theorem localPart_unsupported {lt : String} (h : local1.get? "type" = some lt)
    (hbad : lt ∉ ["nic", "internetip", "custom"]) : localPart name node1 node2 local1 = .error .valueError := by
  simp only [List.mem_cons, List.not_mem_nil, or_false, not_or] at hbad
  simp [localPart, SDict.getItem, h, hbad, bind, Except.bind, throw, throwThe, MonadExceptOf.throw]

theorem remotePart_unsupported {rt : String} (h : remote1.get? "type" = some rt)
    (hbad : rt ∉ ["custom", "externalip", "modeconfig"]) :
    remotePart name node1 node2 local1 remote1 = .error .valueError := by
  simp only [List.mem_cons, List.not_mem_nil, or_false, not_or] at hbad
  simp [remotePart, SDict.getItem, h, hbad, bind, Except.bind, throw, throwThe, MonadExceptOf.throw]

theorem peerPart_unsupported {peer2 : SDict} {pt : String} (h : peer1.get? "type" = some pt)
    (hbad : pt ∉ ["ip", "dynip"]) : peerPart name node1 node2 peer1 peer2 = .error .valueError := by
  simp only [List.mem_cons, List.not_mem_nil, or_false, not_or] at hbad
  simp [peerPart, SDict.getItem, h, hbad, bind, Except.bind, throw, throwThe, MonadExceptOf.throw]

theorem authPart_unsupported {n1 n2 : String} {a : SDict} {ty : String} (h : a.get? "type" = some ty)
    (hbad : ty ∉ ["pubkey", "psk"]) : authPart name n1 n2 (some a) = .error .valueError := by
  simp only [List.mem_cons, List.not_mem_nil, or_false, not_or] at hbad
  simp [authPart, SDict.getItem, h, hbad, bind, Except.bind, throw, throwThe, MonadExceptOf.throw]

/-! ### `connects_nodes` -/

def isOk {α : Type} : Except Err α → Bool
  | .ok _ => true
  | .error _ => false

/-- a side test on a non-`CUSTOM` side never raises -/
theorem onSide_ok_of_not_custom (endNode : Node) (net : Option Netconfig) (sp : Dict) (node : Node) (x : String)
    (h : sp.get? ⟨"vpnconn_lan_type", []⟩ = some x) (hx : x ≠ "CUSTOM") :
    isOk (onSide endNode net sp node) = true := by
  unfold onSide
  by_cases h1 : node.id = endNode.id
  · simp [h1, isOk, pure, Except.pure]
  · cases net with
    | none => simp [h1, Dict.getItem, h, hx, isOk, bind, Except.bind, pure, Except.pure]
    | some nc =>
      by_cases h2 : (node.ifaces.any fun p => nc.hasInterface p.2) = true
      · simp [h1, h2, isOk, bind, Except.bind, pure, Except.pure]
      · simp [h1, h2, Dict.getItem, h, hx, isOk, bind, Except.bind, pure, Except.pure]

end I2N.Tunnel
