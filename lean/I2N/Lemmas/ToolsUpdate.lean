import I2N.Model.Tools
import I2N.Model.Index
/-!
C15, translator tie: the part of `intertest_setup.update` AROUND the flagging passes of one (vm, worker) iteration.

`I2N.Tools.updateFlags` (Model/Tools.lean) is ONE iteration of the worker loop, with what the Cartesian parser
answered as inputs (`UpdateIn`).  The regenerated definitions of `I2N/Extracted/GenUpdate.lean` mirror the Python
function, which has the two loops (vms with their index, workers), reads `from_state` / `to_state` / `remove_set` of
each vm, composes the remove-set restriction, calls the parser and bridges all pairs of nodes afterwards.  This file
defines that surrounding structure ONCE by hand (`UEnv`, `updateIn`, `updateAll`, `bridgeAll`) — the *adapter* the
`…_matches_source` theorems of Props/C15.lean compare the regenerated definitions with.  Nothing here changes the
model; no Mathlib.
-/
namespace I2N.Tools
open I2N.Trav (strIn)

/-- what `update` reads from its configuration and what the Cartesian parser answers (an oracle, as in `UpdateIn`) -/
structure UEnv where
  /-- `config["available_restrictions"]` -/
  restrictions : List String
  /-- `config["vms_params"].object_params(vm).get(key)`: the per-vm view (`key_<vm>` wins over `key`) -/
  vmParam : String → String → Option String
  /-- component forms of `graph.get_objects(param_val=vm)` (one per selected variant of the vm) -/
  compForms : String → List String
  /-- `l.parse_object_trees(worker, restriction, prefix=f"{tag}m{i+1}", …, with_shared_root=False)` for the remove set:
  restriction, index `i` of the vm, vm, worker id ↦ the graph, `none` = `EmptyCartesianProduct` -/
  parseClean : String → Nat → String → String → Option UGraph
  /-- names of the nodes of `l.parse_object_trees(worker, restriction, prefix=tag, object_restrs={vm: …})`:
  restriction, vm, worker id -/
  parseNames : String → String → String → List String
  /-- names of the `all.original` nodes of the graph parsed for `all..customize` (`to_state == "install"`) -/
  installNames : String → String → List String

/-- `state.split(".")` as `flag_children` / the prefix tree see it (`""` = no node name) -/
def dotSplit (s : String) : List String := if s == "" then [] else s.splitOn "."

/-- the restriction the remove-set graph is parsed with: `remove_set` OF THE VM (default `leaves`), prefixed with
`all..` unless it mentions one of the available (primary) restrictions -/
def removeSetStr (env : UEnv) (vm : String) : String :=
  let s := (env.vmParam vm "remove_set").getD "leaves"
  if env.restrictions.any (fun r => strIn r s) then s else "all.." ++ s

/-- the input of the hand model for the iteration (`i`-th vm `vm`, worker `w`) -/
def updateIn (env : UEnv) (i : Nat) (vm w : String) : UpdateIn :=
  let frm := (env.vmParam vm "from_state").getD "install"
  let to := (env.vmParam vm "to_state").getD "customize"
  { vm := vm, worker := w, compForms := env.compForms vm, fromState := frm, toState := to,
    fromVars := dotSplit frm, toVars := dotSplit to,
    clean := env.parseClean (removeSetStr env vm) i vm w,
    runNames := if to == "install" then env.installNames vm w else env.parseNames ("all.." ++ to) vm w,
    skipNames := env.parseNames ("all.." ++ frm) vm w }

/-- what `update` has flagged when it reaches the bridging loop: the policy table of every (vm, worker) graph, in
program order (`graph.new_nodes(clean_graph.nodes)`); a worker without remove-set graph is skipped -/
abbrev Flagged := List (String × String × Flags)

/-- one iteration of the worker loop on top of the hand model -/
def updateOne (env : UEnv) (i : Nat) (vm : String) (acc : Flagged) (w : String) : Except Err Flagged :=
  match updateFlags (updateIn env i vm w) with
  | .error e => .error e
  | .ok none => .ok acc
  | .ok (some f) => .ok (acc ++ [(vm, w, f)])

/-- `enumerate(l)` -/
def enumFrom : Nat → List String → List (Nat × String)
  | _, [] => []
  | i, x :: xs => (i, x) :: enumFrom (i + 1) xs

/-- **the adapter**: `for i, vm_name in enumerate(selected_vms): for worker in graph.workers.values(): <one iteration>`,
the first error ends everything -/
def updateAll (env : UEnv) (vms workers : List String) : Except Err Flagged :=
  (enumFrom 0 vms).foldlM (fun acc iv => workers.foldlM (updateOne env iv.1 iv.2) acc) []

/-! ### the bridging loop behind the two loops -/

/-- a node as the bridging loop sees it: `bridged_form` and `id` -/
structure BNode where
  form : String
  id : String
deriving Repr, DecidableEq

def BNode.formOf (ns : List BNode) (i : Nat) : String := (ns.getD i ⟨"", ""⟩).form
def BNode.idOf (ns : List BNode) (i : Nat) : String := (ns.getD i ⟨"", ""⟩).id

/-- the body of the inner loop for the pair (`i`, `j`) of node indices -/
def bridgePair (ns : List BNode) (b : I2N.Index.Bridging) (i j : Nat) : Except Err I2N.Index.Bridging :=
  if i == j then .ok b
  else if BNode.formOf ns i == BNode.formOf ns j then
    (if BNode.idOf ns i == BNode.idOf ns j then .error .valueError else .ok (b.bridge i j))
  else .ok b

/-- `for node1 in graph.nodes: for node2 in graph.nodes: …` — ALL ordered pairs -/
def bridgeAll (ns : List BNode) (b : I2N.Index.Bridging) : Except Err I2N.Index.Bridging :=
  (List.range ns.length).foldlM (fun b i => (List.range ns.length).foldlM (fun b j => bridgePair ns b i j) b) b

/-! ### `StateT σ (Except Err)` actions the regenerated definitions are written with -/

/-- a step `σ → Except Err σ` as an action -/
def stepM {σ : Type} (f : σ → Except Err σ) : StateT σ (Except Err) Unit := fun s => (f s).map (fun s' => ((), s'))

/-- `l.forM` of steps is `foldlM` -/
theorem forM_stepM {σ α : Type} (f : σ → α → Except Err σ) (l : List α) (s : σ) :
    (l.forM (fun a => stepM (fun s => f s a))) s = (l.foldlM f s).map (fun s' => ((), s')) := by
  induction l generalizing s with
  | nil => rfl
  | cons a r ih =>
    simp only [List.forM, List.foldlM, bind, StateT.bind, stepM]
    cases f s a with
    | error e => rfl
    | ok s' => simp only [Except.map, Except.bind]; exact ih s'

end I2N.Tools
