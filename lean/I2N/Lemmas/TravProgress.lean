import I2N.Lemmas.TravExcl
import I2N.Lemmas.TravLoc
/-!
Progress-related reachable-state invariants of the traversal model (properties C02 and C08):
the shape of the workers' paths (start at the root, consecutive entries adjacent in the visible graph, every entry
after the root relevant to the worker), the meaning of the `started` mark (its holder is inside a test execution
of that copy, or died with an exception), ownership of what a worker executes.

One walk through `afterTraverse`, `traverseNode`, `iter`, `iterL`, `runLoop`, `resumeTest`, `resume` establishes an
effect description (`StepOK`), from which the invariant `PInv` is lifted to `Reachable`.
-/
namespace I2N.Trav

/-! ## vocabulary -/

def Pc.inTest : Pc → Bool
  | .test .. => true
  | _ => false

/-- the copy a worker is executing (suspended inside the test or its result wait) -/
def Pc.node? : Pc → Option Nat
  | .test n .. => some n
  | _ => none

def Pc.isFailed : Pc → Bool
  | .failed => true
  | _ => false

/-- `prev` and `next` are joined by an edge of `gv` as the walk requires it (`prev` is a parent or a child of `next`) -/
def Adj (gv : Graph) (prev next : Nat) : Prop :=
  prev ∈ (gv.node next).setup.map (·.1) ∨ prev ∈ (gv.node next).cleanup.map (·.1)

/-- the edges are recorded on both ends (`setup_nodes` of the child, `cleanup_nodes` of the parent) -/
def EdgeSym (g : Graph) : Prop :=
  ∀ a b, a ∈ (g.node b).setup.map (·.1) ↔ b ∈ (g.node a).cleanup.map (·.1)

/-- a path built by the operations of the walk: it starts at the root and grows by adjacent, relevant nodes -/
inductive PathOK (R : Nat → Nat → Prop) (P : Nat → Prop) (root : Nat) : List Nat → Prop
  | root : PathOK R P root [root]
  | push (p : List Nat) (last c : Nat) : PathOK R P root p → p.getLast? = some last → R last c → P c →
      PathOK R P root (p ++ [c])

namespace PathOK
variable {R R' : Nat → Nat → Prop} {P : Nat → Prop} {root : Nat}

theorem mono (h : ∀ a b, R a b → R' a b) {p : List Nat} (hp : PathOK R P root p) : PathOK R' P root p := by
  induction hp with
  | root => exact .root
  | push p last c _ hl hr hc ih => exact .push p last c ih hl (h _ _ hr) hc

theorem ne_nil {p : List Nat} (hp : PathOK R P root p) : p ≠ [] := by
  cases hp <;> simp

theorem head {p : List Nat} (hp : PathOK R P root p) : p.head? = some root := by
  induction hp with
  | root => rfl
  | push p last c hp' _ _ _ ih =>
    rw [List.head?_append, ih]; rfl

theorem dropLast {p : List Nat} (hp : PathOK R P root p) : p.dropLast = [] ∨ PathOK R P root p.dropLast := by
  cases hp with
  | root => left; rfl
  | push p last c hp' _ _ _ => right; rw [List.dropLast_concat]; exact hp'

theorem tail {p : List Nat} (hp : PathOK R P root p) : ∀ x ∈ p.tail, P x := by
  induction hp with
  | root => intro x hx; simp at hx
  | push p last c hp' _ _ hc ih =>
    intro x hx
    rw [List.tail_append_of_ne_nil hp'.ne_nil] at hx
    rcases List.mem_append.mp hx with hx | hx
    · exact ih x hx
    · rw [List.mem_singleton.mp hx]; exact hc

theorem length_one {p : List Nat} (hp : PathOK R P root p) (h : p.length = 1) : p = [root] := by
  cases hp with
  | root => rfl
  | push p last c hp' _ _ _ =>
    have := hp'.ne_nil
    cases p with
    | nil => exact absurd rfl this
    | cons a r => simp at h

/-- the last two entries are adjacent and the last one is relevant -/
theorem last_two {p : List Nat} (hp : PathOK R P root p) (h : p.length ≠ 1) (next : Nat) (hn : p.getLast? = some next) :
    R (p.getD (p.length - 2) 0) next ∧ P next := by
  cases hp with
  | root => simp at h
  | push p last c hp' hl hr hc =>
    rw [List.getLast?_concat] at hn
    have hcn : c = next := Option.some.inj hn
    subst hcn
    refine ⟨?_, hc⟩
    have hne := hp'.ne_nil
    have hlen : 0 < p.length := List.length_pos_iff.mpr hne
    have : (p ++ [c]).getD ((p ++ [c]).length - 2) 0 = last := by
      rw [List.getD_eq_getElem?_getD]
      simp only [List.length_append, List.length_singleton]
      have h1 : p.length + 1 - 2 = p.length - 1 := by omega
      rw [h1, List.getElem?_append_left (by omega)]
      rw [List.getLast?_eq_getElem?] at hl
      rw [hl]; rfl
    rw [this]; exact hr

/-- all consecutive entries are adjacent -/
theorem consecutive {p : List Nat} (hp : PathOK R P root p) :
    ∀ i a b, p[i]? = some a → p[i + 1]? = some b → R a b := by
  induction hp with
  | root => intro i a b _ h2; simp at h2
  | push p last c hp' hl hr hc ih =>
    intro i a b h1 h2
    by_cases hi : i + 1 < p.length
    · rw [List.getElem?_append_left (by omega)] at h1
      rw [List.getElem?_append_left hi] at h2
      exact ih i a b h1 h2
    · have hlen : (p ++ [c]).length = p.length + 1 := by simp
      have hi2 : i + 1 < p.length + 1 := by
        have := (List.getElem?_eq_some_iff.mp h2).1
        omega
      have hi' : i + 1 = p.length := by omega
      have hb : b = c := by
        rw [hi', List.getElem?_append_right (Nat.le_refl _)] at h2
        simpa using h2.symm
      have ha : a = last := by
        rw [List.getElem?_append_left (by omega)] at h1
        rw [List.getLast?_eq_getElem?] at hl
        have : p.length - 1 = i := by omega
        rw [this, h1] at hl
        exact Option.some.inj hl
      rw [ha, hb]; exact hr

end PathOK

/-! ## the visible graph: static data and edges -/

theorem vis_worker (g : Graph) (s : State) (w : Nat) : (vis g s).worker w = g.worker w := by
  unfold Graph.worker; rw [(sameStatic_vis g s).workers]

theorem vis_name (g : Graph) (s : State) (i : Nat) : ((vis g s).node i).name = (g.node i).name := by
  obtain ⟨su, cl, h, _⟩ := vis_node g s i; rw [h]

theorem vis_flat (g : Graph) (s : State) (i : Nat) : ((vis g s).node i).flat = (g.node i).flat :=
  (sameStatic_vis g s).flat i

theorem vis_root (g : Graph) (s : State) : (vis g s).root = g.root := by
  unfold vis; split <;> rfl

theorem vis_idIn (g : Graph) (s : State) (w n : Nat) : (vis g s).idIn w n = g.idIn w n := by
  unfold Graph.idIn; rw [vis_worker, vis_name]

theorem vis_relevant (g : Graph) (s : State) (w n : Nat) : relevant (vis g s) w n = relevant g w n := by
  unfold relevant; rw [vis_flat, vis_idIn]

theorem vis_clsName (g : Graph) (s : State) (n : Nat) (ph : Phase) : clsName (vis g s) n ph = clsName g n ph := by
  unfold clsName; rw [(sameStatic_vis g s).cls]

theorem vis_dryRun (g : Graph) (s : State) (i : Nat) : ((vis g s).node i).dryRun = (g.node i).dryRun := by
  obtain ⟨su, cl, h, _⟩ := vis_node g s i; rw [h]

/-- the edges of the visible graph: those of the full graph between two parsed nodes that are not hidden themselves
(`edgeCode`: the edge below a flat node appears when that flat node is expanded) -/
theorem mem_vis_edges (g : Graph) (s : State) (b : Nat) (e : Nat × List String) :
    (e ∈ ((vis g s).node b).setup ↔ e ∈ (g.node b).setup ∧ s.hidden.contains b = false ∧ s.hidden.contains e.1 = false ∧
      s.hidden.contains (edgeCode g e.1 b) = false) ∧
    (e ∈ ((vis g s).node b).cleanup ↔ e ∈ (g.node b).cleanup ∧ s.hidden.contains b = false ∧ s.hidden.contains e.1 = false ∧
      s.hidden.contains (edgeCode g b e.1) = false) := by
  unfold vis
  by_cases he : s.hidden.isEmpty = true
  · have : s.hidden = [] := List.isEmpty_iff.mp he
    simp [he, this]
  · simp only [he, Bool.false_eq_true, if_false]
    unfold Graph.node
    simp only [List.getD_eq_getElem?_getD, List.getElem?_map, List.getElem?_zipIdx]
    cases hn : g.nodes[b]? with
    | none => simp
    | some nd =>
      simp only [Option.map_some, Option.getD_some, Nat.zero_add]
      by_cases hb : b ∈ s.hidden
      · simp [hb]
      · simp [hb, List.mem_filter]

/-- adjacency in the direction it is recorded: `a` is a parent of `b` through an edge that is not hidden, or a child -/
def AdjE (g : Graph) (s : State) (a b : Nat) : Prop :=
  (a ∈ (g.node b).setup.map (·.1) ∧ s.hidden.contains (edgeCode g a b) = false) ∨
  (a ∈ (g.node b).cleanup.map (·.1) ∧ s.hidden.contains (edgeCode g b a) = false)

theorem adj_vis_iff (g : Graph) (s : State) (a b : Nat) :
    Adj (vis g s) a b ↔ AdjE g s a b ∧ s.hidden.contains b = false ∧ s.hidden.contains a = false := by
  unfold Adj AdjE
  simp only [List.mem_map]
  constructor
  · rintro (⟨e, he, rfl⟩ | ⟨e, he, rfl⟩)
    · have := ((mem_vis_edges g s b e).1).mp he
      exact ⟨Or.inl ⟨⟨e, this.1, rfl⟩, this.2.2.2⟩, this.2.1, this.2.2.1⟩
    · have := ((mem_vis_edges g s b e).2).mp he
      exact ⟨Or.inr ⟨⟨e, this.1, rfl⟩, this.2.2.2⟩, this.2.1, this.2.2.1⟩
  · rintro ⟨⟨⟨e, he, rfl⟩, hc⟩ | ⟨⟨e, he, rfl⟩, hc⟩, h⟩
    · exact Or.inl ⟨e, ((mem_vis_edges g s b e).1).mpr ⟨he, h.1, h.2, hc⟩, rfl⟩
    · exact Or.inr ⟨e, ((mem_vis_edges g s b e).2).mpr ⟨he, h.1, h.2, hc⟩, rfl⟩

theorem not_hidden_mono {s s' : State} (h : ∀ x, x ∈ s'.hidden → x ∈ s.hidden) (x : Nat)
    (hx : s.hidden.contains x = false) : s'.hidden.contains x = false := by
  cases hc : s'.hidden.contains x
  · rfl
  · have := h x (by simpa using hc)
    simp at hx
    exact absurd this hx

/-- parsing more nodes only adds edges -/
theorem adj_vis_mono (g : Graph) (s s' : State) (h : ∀ x, x ∈ s'.hidden → x ∈ s.hidden) (a b : Nat)
    (hab : Adj (vis g s) a b) : Adj (vis g s') a b := by
  rw [adj_vis_iff] at hab ⊢
  refine ⟨?_, not_hidden_mono h _ hab.2.1, not_hidden_mono h _ hab.2.2⟩
  rcases hab.1 with ⟨h1, h2⟩ | ⟨h1, h2⟩
  · exact Or.inl ⟨h1, not_hidden_mono h _ h2⟩
  · exact Or.inr ⟨h1, not_hidden_mono h _ h2⟩

theorem edgeSym_vis (g : Graph) (s : State) (h : EdgeSym g) : EdgeSym (vis g s) := by
  intro a b
  simp only [List.mem_map]
  constructor
  · rintro ⟨e, he, rfl⟩
    have h1 := ((mem_vis_edges g s b e).1).mp he
    have h2 := (h e.1 b).mp (List.mem_map.mpr ⟨e, h1.1, rfl⟩)
    obtain ⟨e', he', hb⟩ := List.mem_map.mp h2
    exact ⟨e', ((mem_vis_edges g s e.1 e').2).mpr ⟨he', h1.2.2.1, by rw [hb]; exact h1.2.1, by rw [hb]; exact h1.2.2.2⟩, hb⟩
  · rintro ⟨e, he, rfl⟩
    have h1 := ((mem_vis_edges g s a e).2).mp he
    have h2 := (h a e.1).mpr (List.mem_map.mpr ⟨e, h1.1, rfl⟩)
    obtain ⟨e', he', hb⟩ := List.mem_map.mp h2
    exact ⟨e', ((mem_vis_edges g s e.1 e').1).mpr ⟨he', h1.2.2.1, by rw [hb]; exact h1.2.1, by rw [hb]; exact h1.2.2.2⟩, hb⟩

/-! ## events -/

def Event.isDoor : Event → Bool
  | .door .. => true
  | _ => false

def Event.isStart : Event → Bool
  | .start .. => true
  | _ => false

def DoorsOnly (evs : List Event) : Prop := ∀ e ∈ evs, e.isDoor = true

/-- what a start event of worker `w` must look like: it carries `w`'s id and the class of a copy parsed for `w` -/
def startOK (g : Graph) (w : Nat) : Event → Prop
  | .start wid cls _ _ _ => wid = (g.worker w).id ∧ ∃ n ph, cls = clsName g n ph ∧ g.idIn w n = true
  | _ => True

def StartsOK (g : Graph) (w : Nat) (evs : List Event) : Prop := ∀ e ∈ evs, startOK g w e

theorem startOK_of_not_start (g : Graph) (w : Nat) (e : Event) (h : e.isStart = false) : startOK g w e := by
  cases e <;> first | trivial | simp [Event.isStart] at h

theorem DoorsOnly.nil : DoorsOnly [] := fun _ h => by simp at h

theorem DoorsOnly.append {a b : List Event} (ha : DoorsOnly a) (hb : DoorsOnly b) : DoorsOnly (a ++ b) := by
  intro e he
  rcases List.mem_append.mp he with h | h
  · exact ha e h
  · exact hb e h

theorem DoorsOnly.startsOK {evs : List Event} (h : DoorsOnly evs) (g : Graph) (w : Nat) : StartsOK g w evs := by
  intro e he
  have := h e he
  cases e <;> first | trivial | simp [Event.isDoor] at this

theorem StartsOK.nil (g : Graph) (w : Nat) : StartsOK g w [] := fun _ h => by simp at h

theorem StartsOK.append {g : Graph} {w : Nat} {a b : List Event} (ha : StartsOK g w a) (hb : StartsOK g w b) :
    StartsOK g w (a ++ b) := by
  intro e he
  rcases List.mem_append.mp he with h | h
  · exact ha e h
  · exact hb e h

theorem scanStates_doors (g : Graph) (s : State) (n w : Nat) : DoorsOnly (scanStates g s n w).2 := by
  unfold scanStates
  dsimp only
  split
  · exact DoorsOnly.nil
  · intro e he
    simp only [List.mem_singleton] at he
    rw [he]; rfl

theorem runDecisionStatefulCore_evs (g : Graph) (s : State) (n w : Nat) (scan : Bool) (sc : Bool × List Event)
    (b : Bool) (s1 : State) (e1 : List Event)
    (h : runDecisionStatefulCore g s n w scan sc = .ok (b, s1, e1)) : e1 = sc.2 := by
  unfold runDecisionStatefulCore at h
  by_cases hx : (scan && sc.1) = true
  · simp only [hx, if_true, Except.ok.injEq, Prod.mk.injEq] at h; exact h.2.2.symm
  · simp only [hx, Bool.false_eq_true, if_false] at h
    generalize (if ((sharedFilteredResults g s n (s.nd n).started).isEmpty && !sc.1) = true then disableRerun s n else s) = sx at h
    cases hr : shouldRerun g sx n w with
    | error e => simp [hr, Except.map] at h
    | ok r => simp only [hr, Except.map, Except.ok.injEq, Prod.mk.injEq] at h; exact h.2.2.symm

theorem runDecisionStateless_evs (g : Graph) (s : State) (n w : Nat) (b : Bool) (s1 : State) (e1 : List Event)
    (h : runDecisionStateless g s n w = .ok (b, s1, e1)) : e1 = [] := by
  unfold runDecisionStateless at h
  cases hc : (sharedResults g s n).isEmpty
  all_goals simp only [hc, Bool.false_eq_true, if_false, if_true] at h
  · cases hr : shouldRerun g s n w with
    | error e => simp [hr, Except.map] at h
    | ok r => simp only [hr, Except.map, Except.ok.injEq, Prod.mk.injEq] at h; exact h.2.2.symm
  · simp only [Except.ok.injEq, Prod.mk.injEq] at h; exact h.2.2.symm

/-- the run decision talks to the state control only (`check` requests) -/
theorem runDecision_doors (g : Graph) (s : State) (n w : Nat) (b : Bool) (s1 : State) (e1 : List Event)
    (h : runDecision g s n w = .ok (b, s1, e1)) : DoorsOnly e1 := by
  unfold runDecision at h
  dsimp only at h
  cases c1 : (g.node n).sharedRoot <;> cases c2 : (g.node n).dryRun <;> cases c3 : (g.node n).flat <;>
    cases c4 : (g.node n).cloneSource <;> cases c5 : g.idIn w n <;> cases c6 : (g.node n).sets.isEmpty
  all_goals simp only [c1, c2, c3, c4, c5, c6, Bool.false_eq_true, if_false, if_true, Bool.not_false, Bool.not_true,
    Except.ok.injEq, Prod.mk.injEq, reduceCtorEq] at h
  all_goals first
    | (rw [← h.2.2]; exact DoorsOnly.nil)
    | (rw [runDecisionStateless_evs g s n w b s1 e1 h]; exact DoorsOnly.nil)
    | (unfold runDecisionStateful at h
       rw [runDecisionStatefulCore_evs g s n w _ _ b s1 e1 h]
       split
       · exact scanStates_doors g s n w
       · exact DoorsOnly.nil)

/-- a positive run decision is only taken for a copy parsed for the deciding worker -/
theorem runDecision_true_own (g : Graph) (s : State) (n w : Nat) (s1 : State) (e1 : List Event)
    (h : runDecision g s n w = .ok (true, s1, e1)) : g.idIn w n = true ∧ (g.node n).flat = false ∧ (g.node n).dryRun = false := by
  unfold runDecision at h
  dsimp only at h
  cases c1 : (g.node n).sharedRoot <;> cases c2 : (g.node n).dryRun <;> cases c3 : (g.node n).flat <;>
    cases c4 : (g.node n).cloneSource <;> cases c5 : g.idIn w n
  all_goals simp only [c1, c2, c3, c4, c5, Bool.false_eq_true, if_false, if_true, Bool.not_false, Bool.not_true,
    Except.ok.injEq, Prod.mk.injEq, reduceCtorEq, false_and] at h
  exact ⟨rfl, rfl, rfl⟩

theorem syncStates_frame (g : Graph) (s : State) (n w : Nat) (r : Option (List String)) :
    (syncStates g s n w r).1.nodes = s.nodes ∧ (syncStates g s n w r).1.workers = s.workers ∧
      (syncStates g s n w r).1.hidden = s.hidden := by
  unfold syncStates
  dsimp only
  split
  · exact ⟨rfl, rfl, rfl⟩
  · split <;> exact ⟨rfl, rfl, rfl⟩

theorem syncStates_doors (g : Graph) (s : State) (n w : Nat) (r : Option (List String)) :
    DoorsOnly (syncStates g s n w r).2 := by
  unfold syncStates
  dsimp only
  split
  · exact DoorsOnly.nil
  · split
    all_goals
      intro e he
      simp only [List.mem_singleton] at he
      rw [he]; rfl

/-! ## pieces of a step that leave the worker records alone -/

/-- a piece of worker `w`'s step that changes no worker record and not the set of parsed nodes; `started` marks are
only removed, except that the copy `X` may get marked for `w` -/
structure Qt (w : Nat) (X : Option Nat) (s s' : State) : Prop where
  workers : s'.workers = s.workers
  hidden : s'.hidden = s.hidden
  nodesLen : s'.nodes.length = s.nodes.length
  marks : ∀ i, (s'.nd i).started = (s.nd i).started ∨ (s'.nd i).started = none ∨
    (X = some i ∧ (s'.nd i).started = some w)

theorem Qt.refl (w : Nat) (X : Option Nat) (s : State) : Qt w X s s := ⟨rfl, rfl, rfl, fun _ => Or.inl rfl⟩

theorem Qt.trans {w : Nat} {X : Option Nat} {s s1 s2 : State} (a : Qt w X s s1) (b : Qt w X s1 s2) : Qt w X s s2 := by
  refine ⟨b.workers.trans a.workers, b.hidden.trans a.hidden, b.nodesLen.trans a.nodesLen, fun i => ?_⟩
  rcases b.marks i with h | h | h
  · rw [h]; exact a.marks i
  · exact Or.inr (Or.inl h)
  · exact Or.inr (Or.inr h)

theorem Qt.weaken {w : Nat} {X : Option Nat} {s s' : State} (a : Qt w none s s') : Qt w X s s' := by
  refine ⟨a.workers, a.hidden, a.nodesLen, fun i => ?_⟩
  rcases a.marks i with h | h | h
  · exact Or.inl h
  · exact Or.inr (Or.inl h)
  · exact absurd h.1 (by simp)

theorem Qt.of_le {w : Nat} {X : Option Nat} {s s' : State} (hw : s'.workers = s.workers) (hh : s'.hidden = s.hidden)
    (hn : s'.nodes.length = s.nodes.length) (h : Le s s') : Qt w X s s' :=
  ⟨hw, hh, hn, fun i => by
    rcases (h i).1 with h | h
    · exact Or.inl h
    · exact Or.inr (Or.inl h)⟩

theorem Qt.wd {w : Nat} {X : Option Nat} {s s' : State} (a : Qt w X s s') (v : Nat) : s'.wd v = s.wd v := by
  unfold State.wd; rw [a.workers]

theorem qt_setNd (w : Nat) (X : Option Nat) (s : State) (m : Nat) (f : NodeD → NodeD)
    (hf : ∀ d, (f d).started = d.started ∨ (f d).started = none) : Qt w X s (s.setNd m f) := by
  refine ⟨rfl, rfl, nodes_length_setNd s m f, fun i => ?_⟩
  rcases nd_setNd_cases s m f i with h | ⟨_, _, h⟩
  · rw [h]; exact Or.inl rfl
  · rw [h]
    rcases hf (s.nd i) with h' | h'
    · exact Or.inl h'
    · exact Or.inr (Or.inl h')

theorem qt_enter (w : Nat) (s : State) (n : Nat) : Qt w (some n) s (s.setNd n (fun d => { d with started := some w })) := by
  refine ⟨rfl, rfl, nodes_length_setNd s n _, fun i => ?_⟩
  rcases nd_setNd_cases s n (fun d => { d with started := some w }) i with h | ⟨h1, _, h⟩
  · rw [h]; exact Or.inl rfl
  · rw [h]; exact Or.inr (Or.inr ⟨by rw [h1], rfl⟩)

theorem qt_setCr (w : Nat) (X : Option Nat) (s : State) (c : Nat) (f : ClassRegs → ClassRegs) : Qt w X s (s.setCr c f) :=
  ⟨rfl, rfl, rfl, fun _ => Or.inl rfl⟩

theorem qt_foldl {β} (w : Nat) (X : Option Nat) (f : State → β → State) (h : ∀ s b, Qt w X s (f s b)) (l : List β) (s : State) :
    Qt w X s (l.foldl f s) := by
  induction l generalizing s with
  | nil => exact Qt.refl w X s
  | cons a r ih => simp only [List.foldl_cons]; exact (h s a).trans (ih _)

theorem qt_disableRerun (w : Nat) (X : Option Nat) (s : State) (n : Nat) : Qt w X s (disableRerun s n) :=
  qt_setNd w X s n _ (fun _ => Or.inl rfl)

theorem qt_runDecision (w : Nat) (X : Option Nat) (g : Graph) (s : State) (n v : Nat) (b : Bool) (s1 : State) (e1 : List Event)
    (h : runDecision g s n v = .ok (b, s1, e1)) : Qt w X s s1 := by
  rcases runDecision_state g s n v b s1 e1 h with h | h
  · rw [h]; exact Qt.refl w X s
  · rw [h]; exact qt_disableRerun w X s n

theorem qt_pullLocations (w : Nat) (X : Option Nat) (g : Graph) (s : State) (n : Nat) : Qt w X s (pullLocations g s n) := by
  unfold pullLocations
  split
  · exact Qt.refl w X s
  · apply qt_foldl
    rintro s ⟨p, vms⟩
    apply qt_foldl
    intro s loc
    apply qt_foldl
    intro s vm
    exact qt_setNd w X s n _ (fun _ => Or.inl rfl)

theorem qt_syncStates (w : Nat) (X : Option Nat) (g : Graph) (s : State) (n v : Nat) (r : Option (List String)) :
    Qt w X s (syncStates g s n v r).1 := by
  obtain ⟨h1, h2, h3⟩ := syncStates_frame g s n v r
  exact Qt.of_le h2 h3 (by rw [h1]) (le_syncStates g s n v r)

theorem qt_finishTraverse (w : Nat) (X : Option Nat) (s : State) (n v : Nat) : Qt w X s (finishTraverse s n v) :=
  qt_setNd w X s n _ (fun _ => Or.inr rfl)

theorem qt_dropChildren (w : Nat) (X : Option Nat) (g : Graph) (s : State) (next v : Nat) (l : List (Nat × List String)) :
    Qt w X s (l.foldl (fun s (p, _) => dropChild g s p next v) s) := by
  apply qt_foldl
  rintro s ⟨p, _⟩
  exact qt_setCr w X s _ _

theorem nd_setNd_of_ge (s : State) (m : Nat) (f : NodeD → NodeD) (h : ¬ m < s.nodes.length) (i : Nat) :
    (s.setNd m f).nd i = s.nd i := by
  by_cases hi : i = m
  · subst hi
    unfold State.setNd State.nd
    simp only [List.getD_eq_getElem?_getD, List.getElem?_modify]
    have : s.nodes[i]? = none := by simp; omega
    simp [this]
  · exact nd_setNd_ne s m i f hi

/-- `reverse_node` sets the mark and takes it back -/
theorem reverseNode_qt (w : Nat) (g : Graph) (s : State) (n v : Nat) (s' : State) (evs : List Event)
    (h : reverseNode g s n v = .ok (s', evs)) : Qt w none s s' ∧ DoorsOnly evs := by
  unfold reverseNode at h
  by_cases hocc : isOccupied g s n v = true
  · simp only [hocc, if_true, Except.ok.injEq, Prod.mk.injEq] at h
    rw [← h.1, ← h.2]; exact ⟨Qt.refl w none s, DoorsOnly.nil⟩
  · simp only [hocc, Bool.false_eq_true, if_false, ite_self] at h
    cases hd : cleanDecision g (s.setNd n (fun d => { d with started := some v })) n v with
    | error e => simp [hd] at h
    | ok clean =>
      simp only [hd, Except.ok.injEq, Prod.mk.injEq] at h
      rw [← h.1, ← h.2]
      generalize hsy : (if (clean && !(g.node n).sets.isEmpty) = true then
          syncStates g (s.setNd n (fun d => { d with started := some v })) n v none
        else (s.setNd n (fun d => { d with started := some v }), [])) = sy
      have hfr : sy.1.nodes = (s.setNd n (fun d => { d with started := some v })).nodes ∧
          sy.1.workers = s.workers ∧ sy.1.hidden = s.hidden ∧ DoorsOnly sy.2 := by
        rw [← hsy]
        split
        · obtain ⟨h1, h2, h3⟩ := syncStates_frame g (s.setNd n (fun d => { d with started := some v })) n v none
          exact ⟨h1, h2, h3, syncStates_doors _ _ _ _ _⟩
        · exact ⟨rfl, rfl, rfl, DoorsOnly.nil⟩
      obtain ⟨hn, hw, hh, hdo⟩ := hfr
      refine ⟨⟨hw, hh, ?_, fun i => ?_⟩, hdo⟩
      · rw [nodes_length_setNd, hn, nodes_length_setNd]
      · have hnd : ∀ j, sy.1.nd j = (s.setNd n (fun d => { d with started := some v })).nd j := by
          intro j; unfold State.nd; rw [hn]
        by_cases hi : i = n
        · subst hi
          by_cases hl : i < s.nodes.length
          · right; left
            rw [nd_setNd_eq _ i _ (by rw [hn, nodes_length_setNd]; exact hl)]
          · left
            rw [nd_setNd_of_ge _ i _ (by rw [hn, nodes_length_setNd]; exact hl), hnd, nd_setNd_of_ge s i _ hl]
        · left
          rw [nd_setNd_ne _ n i _ hi, hnd, nd_setNd_ne s n i _ hi]

theorem pickChild_qt (w : Nat) (X : Option Nat) (g : Graph) (s : State) (n v c : Nat) (s' : State)
    (h : pickChild g s n v = some (c, s')) : Qt w X s s' := by
  unfold pickChild at h
  dsimp only at h
  split at h
  · simp at h
  · simp only [Option.some.injEq, Prod.mk.injEq] at h
    rw [← h.2]; exact qt_setCr w X s _ _

theorem pickParent_qt (w : Nat) (X : Option Nat) (g : Graph) (s : State) (n v c : Nat) (s' : State)
    (h : pickParent g s n v = some (c, s')) : Qt w X s s' := by
  unfold pickParent at h
  dsimp only at h
  split at h
  · simp at h
  · simp only [Option.some.injEq, Prod.mk.injEq] at h
    rw [← h.2]; exact qt_setCr w X s _ _

/-! ## picks -/

theorem pk_mem_insertBy (le : Nat → Nat → Bool) (a x : Nat) (l : List Nat) (h : x ∈ insertBy le a l) : x = a ∨ x ∈ l := by
  induction l with
  | nil => simp [insertBy] at h; exact Or.inl h
  | cons b r ih =>
    unfold insertBy at h
    split at h
    · simpa using h
    · rcases List.mem_cons.mp h with h | h
      · right; rw [h]; exact List.mem_cons_self
      · rcases ih h with h | h
        · exact Or.inl h
        · right; exact List.mem_cons_of_mem _ h

theorem pk_mem_stableSort (le : Nat → Nat → Bool) (x : Nat) (l : List Nat) (h : x ∈ stableSort le l) : x ∈ l := by
  induction l with
  | nil => simp [stableSort] at h
  | cons a r ih =>
    unfold stableSort at h
    simp only [List.foldr_cons] at h
    rcases pk_mem_insertBy le a x _ h with h | h
    · rw [h]; exact List.mem_cons_self
    · exact List.mem_cons_of_mem _ (ih h)

theorem pickChild_rel (g : Graph) (s : State) (n w c : Nat) (s' : State) (h : pickChild g s n w = some (c, s')) :
    relevant g w c = true ∧ c ∈ (g.node n).cleanup.map (·.1) := by
  unfold pickChild at h
  dsimp only at h
  split at h
  · simp at h
  · rename_i d r hs
    simp only [Option.some.injEq, Prod.mk.injEq] at h
    have hd := pk_mem_stableSort _ d _ (by rw [hs]; exact List.mem_cons_self)
    rw [List.mem_filter] at hd
    have h2 := hd.2
    simp only [Bool.and_eq_true] at h2
    rw [← h.1]; exact ⟨h2.1, hd.1⟩

theorem pickParent_rel (g : Graph) (s : State) (n w c : Nat) (s' : State) (h : pickParent g s n w = some (c, s')) :
    relevant g w c = true ∧ c ∈ (g.node n).setup.map (·.1) := by
  unfold pickParent at h
  dsimp only at h
  split at h
  · simp at h
  · rename_i d r hs
    simp only [Option.some.injEq, Prod.mk.injEq] at h
    have hd := pk_mem_stableSort _ d _ (by rw [hs]; exact List.mem_cons_self)
    rw [List.mem_filter] at hd
    have h2 := hd.2
    simp only [Bool.and_eq_true] at h2
    rw [← h.1]; exact ⟨h2.1, hd.1⟩

/-! ## the effect of a piece of worker `w`'s step -/

/-- what a piece of `w`'s step does outside `w`'s own record -/
structure Eff (w : Nat) (X : Option Nat) (s s' : State) : Prop where
  workersLen : s'.workers.length = s.workers.length
  nodesLen : s'.nodes.length = s.nodes.length
  hidden : s'.hidden = s.hidden
  others : ∀ v, v ≠ w → s'.wd v = s.wd v
  marks : ∀ i, (s'.nd i).started = (s.nd i).started ∨ (s'.nd i).started = none ∨
    (X = some i ∧ (s'.nd i).started = some w)

theorem Eff.refl (w : Nat) (X : Option Nat) (s : State) : Eff w X s s := ⟨rfl, rfl, rfl, fun _ _ => rfl, fun _ => Or.inl rfl⟩

theorem Eff.trans {w : Nat} {X : Option Nat} {s s1 s2 : State} (a : Eff w X s s1) (b : Eff w X s1 s2) : Eff w X s s2 := by
  refine ⟨b.workersLen.trans a.workersLen, b.nodesLen.trans a.nodesLen, b.hidden.trans a.hidden,
    fun v hv => (b.others v hv).trans (a.others v hv), fun i => ?_⟩
  rcases b.marks i with h | h | h
  · rw [h]; exact a.marks i
  · exact Or.inr (Or.inl h)
  · exact Or.inr (Or.inr h)

theorem Eff.weaken {w : Nat} {X : Option Nat} {s s' : State} (a : Eff w none s s') : Eff w X s s' := by
  refine ⟨a.workersLen, a.nodesLen, a.hidden, a.others, fun i => ?_⟩
  rcases a.marks i with h | h | h
  · exact Or.inl h
  · exact Or.inr (Or.inl h)
  · exact absurd h.1 (by simp)

theorem Qt.eff {w : Nat} {X : Option Nat} {s s' : State} (a : Qt w X s s') : Eff w X s s' :=
  ⟨by rw [a.workers], a.nodesLen, a.hidden, fun v _ => a.wd v, a.marks⟩

theorem eff_setWd (w : Nat) (X : Option Nat) (s : State) (f : WorkerD → WorkerD) : Eff w X s (s.setWd w f) :=
  ⟨by simp [State.setWd], rfl, rfl, fun v hv => wd_setWd_ne s w v f hv, fun _ => Or.inl rfl⟩

theorem Eff.setWd {w : Nat} {X : Option Nat} {s s1 : State} (a : Eff w X s s1) (f : WorkerD → WorkerD) :
    Eff w X s (s1.setWd w f) := a.trans (eff_setWd w X s1 f)

theorem Eff.wd_setWd {w : Nat} {X : Option Nat} {s s1 : State} (a : Eff w X s s1) (hw : w < s.workers.length)
    (f : WorkerD → WorkerD) : (s1.setWd w f).wd w = f (s1.wd w) :=
  wd_setWd_eq s1 w f (by rw [a.workersLen]; exact hw)

/-- how a piece of the walk may change the path -/
def PathEff (gv : Graph) (w : Nat) (p p' : List Nat) : Prop :=
  p' = p ∨ (p' = p.dropLast ∧ 2 ≤ p.length) ∨ p' = [gv.root] ∨
    ∃ last c, p.getLast? = some last ∧ p' = p ++ [c] ∧ relevant gv w c = true ∧ Adj gv last c

theorem afterTraverse_ok (gv : Graph) (hsym : EdgeSym gv) (s : State) (w next prev : Nat) (dir : Dir)
    (hw : w < s.workers.length) (hlast : (s.wd w).path.getLast? = some next) (hlen : 2 ≤ (s.wd w).path.length) :
    Eff w none s (afterTraverse gv s w next prev dir).1 ∧
    ((afterTraverse gv s w next prev dir).1.wd w).pc = (s.wd w).pc ∧
    PathEff gv w (s.wd w).path ((afterTraverse gv s w next prev dir).1.wd w).path ∧
    DoorsOnly (afterTraverse gv s w next prev dir).2.1 := by
  unfold afterTraverse
  cases hrd : runDecision gv s next w with
  | error e => exact ⟨Eff.refl _ _ _, rfl, Or.inl rfl, DoorsOnly.nil⟩
  | ok r =>
    obtain ⟨run, s1, evs⟩ := r
    have q1 : Qt w none s s1 := qt_runDecision w none gv s next w run s1 evs hrd
    have hd1 : DoorsOnly evs := runDecision_doors gv s next w run s1 evs hrd
    have hw1 : w < s1.workers.length := by rw [q1.workers]; exact hw
    -- the leaf "pop"
    have pop : ∀ s2, Qt w none s s2 →
        Eff w none s (popPath s2 w) ∧ ((popPath s2 w).wd w).pc = (s.wd w).pc ∧
          PathEff gv w (s.wd w).path ((popPath s2 w).wd w).path := by
      intro s2 q2
      unfold popPath
      rw [q2.eff.wd_setWd hw, q2.wd w]
      exact ⟨q2.eff.setWd _, rfl, Or.inr (Or.inl ⟨rfl, hlen⟩)⟩
    cases dir with
    | up =>
      dsimp only
      have q2 : Qt w none s (if (!run) = true then dropParent gv s1 prev next w else s1) := by
        split
        · exact q1.trans (qt_setCr w none s1 _ _)
        · exact q1
      obtain ⟨a, b, c⟩ := pop _ q2
      exact ⟨a, b, c, hd1⟩
    | down =>
      dsimp only
      by_cases hrun : run = true
      · simp only [hrun, if_true]
        obtain ⟨a, b, c⟩ := pop _ q1
        exact ⟨a, b, c, hd1⟩
      · simp only [hrun, Bool.false_eq_true, if_false]
        by_cases hc : isCleanupReady gv s1 next w = true
        · simp only [hc, if_true]
          by_cases hpp : (!(gv.node next).flat && (s1.wd w).unexplored) = true
          · simp only [hpp, if_true]
            rw [q1.eff.wd_setWd hw, q1.wd w]
            exact ⟨q1.eff.setWd _, rfl, Or.inr (Or.inr (Or.inl rfl)), hd1⟩
          · simp only [hpp, Bool.false_eq_true, if_false]
            have q2 : Qt w none s ((gv.node next).setup.foldl (fun s x => dropChild gv s x.1 next w) s1) :=
              q1.trans (qt_dropChildren w none gv s1 next w _)
            cases hr : reverseNode gv (List.foldl (fun s x => dropChild gv s x.1 next w) s1 (gv.node next).setup) next w with
            | error e =>
              dsimp only
              exact ⟨q2.eff, by rw [q2.wd w], by rw [q2.wd w]; exact Or.inl rfl, hd1⟩
            | ok r =>
              obtain ⟨s3, evs3⟩ := r
              dsimp only
              obtain ⟨q3, hd3⟩ := reverseNode_qt w gv _ next w s3 evs3 hr
              obtain ⟨a, b, c⟩ := pop _ (q2.trans q3)
              exact ⟨a, b, c, hd1.append hd3⟩
        · simp only [hc, Bool.false_eq_true, if_false]
          cases hp : pickChild gv s1 next w with
          | none =>
            dsimp only
            exact ⟨q1.eff, by rw [q1.wd w], by rw [q1.wd w]; exact Or.inl rfl, hd1⟩
          | some r =>
            obtain ⟨c, s3⟩ := r
            dsimp only
            have q3 : Qt w none s s3 := q1.trans (pickChild_qt w none gv s1 next w c s3 hp)
            obtain ⟨hrel, hmem⟩ := pickChild_rel gv s1 next w c s3 hp
            unfold pushPath
            rw [q3.eff.wd_setWd hw, q3.wd w]
            refine ⟨q3.eff.setWd _, rfl, Or.inr (Or.inr (Or.inr ⟨next, c, hlast, rfl, hrel, Or.inl ((hsym next c).mpr hmem)⟩)), hd1⟩

/-! ## `startTest` -/

theorem eff_nextTag (w : Nat) (X : Option Nat) (s : State) (t : Nat) : Eff w X s { s with nextTag := t } :=
  ⟨rfl, rfl, rfl, fun _ _ => rfl, fun _ => Or.inl rfl⟩

theorem startTest_ok (g : Graph) (s : State) (n w : Nat) (ph : Phase) (dir : Dir) (hw : w < s.workers.length) :
    Eff w none s (startTest g s n w ph dir).1 ∧
    ((startTest g s n w ph dir).1.wd w).path = (s.wd w).path ∧
    (∃ uid tag, ((startTest g s n w ph dir).1.wd w).pc = .test n ph dir uid tag 0) ∧
    (g.idIn w n = true → StartsOK g w (startTest g s n w ph dir).2.1) := by
  unfold startTest
  dsimp only
  split
  · have e1 : Eff w none s { s with nextTag := s.nextTag + 1 } := eff_nextTag w none s _
    refine ⟨e1.setWd _, ?_, ?_, ?_⟩
    · rw [e1.wd_setWd hw]; rfl
    · rw [e1.wd_setWd hw]; exact ⟨_, _, rfl⟩
    · intro hid e he
      simp only [List.mem_singleton] at he
      rw [he]
      exact ⟨rfl, n, ph, rfl, hid⟩
  · have e1 : Eff w none s { s with nextTag := s.nextTag + 1 } := eff_nextTag w none s _
    have e2 : Eff w none s (State.setNd { s with nextTag := s.nextTag + 1 } n (fun d => { d with results := d.results ++
        [{ name := (g.node n).name, status := "UNKNOWN", uid := "", tag := s.nextTag }] })) :=
      e1.trans (Qt.eff (qt_setNd w none { s with nextTag := s.nextTag + 1 } n (fun d => { d with results := d.results ++
        [{ name := (g.node n).name, status := "UNKNOWN", uid := "", tag := s.nextTag }] }) (fun _ => Or.inl rfl)))
    refine ⟨e2.setWd _, ?_, ?_, ?_⟩
    · rw [e2.wd_setWd hw]; rfl
    · rw [e2.wd_setWd hw]; exact ⟨_, _, rfl⟩
    · intro hid e he
      simp only [List.mem_singleton] at he
      rw [he]
      exact ⟨rfl, n, ph, rfl, hid⟩

theorem startPre_ok (g : Graph) (s1 : State) (w next : Nat) (dir : Dir) (R : List Result) (N : String)
    (hw : w < s1.workers.length) :
    Eff w none s1 (startTest g (s1.setWd w (fun d => { d with preResults := R, preName := N })) next w .pre dir).1 ∧
    ((startTest g (s1.setWd w (fun d => { d with preResults := R, preName := N })) next w .pre dir).1.wd w).path =
      (s1.wd w).path ∧
    (∃ uid tag, ((startTest g (s1.setWd w (fun d => { d with preResults := R, preName := N })) next w .pre dir).1.wd w).pc =
      .test next .pre dir uid tag 0) ∧
    (g.idIn w next = true →
      StartsOK g w (startTest g (s1.setWd w (fun d => { d with preResults := R, preName := N })) next w .pre dir).2.1) := by
  have hw2 : w < (s1.setWd w (fun d => { d with preResults := R, preName := N })).workers.length := by
    simp [State.setWd]; exact hw
  obtain ⟨a, b, c, d⟩ := startTest_ok g (s1.setWd w (fun d => { d with preResults := R, preName := N })) next w .pre dir hw2
  refine ⟨(eff_setWd w none s1 _).trans a, ?_, c, d⟩
  rw [b, wd_setWd_eq s1 w _ hw]

/-! ## `traverseNode`, `iter` -/

/-- what one iteration of worker `w` (or the first part of it) does: either nothing is entered — marks only disappear,
the path changes by one of the four moves (or the worker exits), the pc stays or becomes `bounce`/`done` — or the last
node `next` of the path is entered and the piece ends inside its execution or with an exception -/
def StepOK (gv : Graph) (w : Nat) (s : State) (r : Step) : Prop :=
  StartsOK gv w r.2.1 ∧
  ((Eff w none s r.1 ∧
      ((PathEff gv w (s.wd w).path (r.1.wd w).path ∧ ((r.1.wd w).pc = (s.wd w).pc ∨ (r.1.wd w).pc = .bounce)) ∨
       ((r.1.wd w).path = [] ∧ (r.1.wd w).pc = .done ∧ r.2.2 = .exit))) ∨
   (∃ next, (s.wd w).path.getLast? = some next ∧ 2 ≤ (s.wd w).path.length ∧ Eff w (some next) s r.1 ∧
      (r.1.wd w).path = (s.wd w).path ∧
      ((∃ what, r.2.2 = .raise what ∧ (r.1.wd w).pc = (s.wd w).pc) ∨
       (r.2.2 = .suspend ∧ gv.idIn w next = true ∧ ∃ ph dir uid tag, (r.1.wd w).pc = .test next ph dir uid tag 0))))

theorem StepOK.unchanged (gv : Graph) (w : Nat) (s : State) (f : Flow) : StepOK gv w s (s, [], f) :=
  ⟨StartsOK.nil gv w, Or.inl ⟨Eff.refl _ _ _, Or.inl ⟨Or.inl rfl, Or.inl rfl⟩⟩⟩

/-- entering a copy, some quiet pieces, leaving it again: the net effect is quiet -/
theorem enter_finish_qt (w : Nat) (s s1 : State) (next : Nat)
    (q : Qt w none (s.setNd next (fun d => { d with started := some w })) s1) :
    Qt w none s (finishTraverse s1 next w) := by
  have hlen : s1.nodes.length = s.nodes.length := by rw [q.nodesLen, nodes_length_setNd]
  refine ⟨q.workers, q.hidden, by unfold finishTraverse; rw [nodes_length_setNd, hlen], fun i => ?_⟩
  unfold finishTraverse
  by_cases hi : i = next
  · subst hi
    by_cases hl : i < s.nodes.length
    · right; left
      rw [nd_setNd_eq s1 i _ (by rw [hlen]; exact hl)]
    · rw [nd_setNd_of_ge s1 i _ (by rw [hlen]; exact hl)]
      rcases q.marks i with h | h | h
      · left; rw [h, nd_setNd_of_ge s i _ hl]
      · exact Or.inr (Or.inl h)
      · exact absurd h.1 (by simp)
  · rw [nd_setNd_ne s1 next i _ hi]
    rcases q.marks i with h | h | h
    · left; rw [h, nd_setNd_ne s next i _ hi]
    · exact Or.inr (Or.inl h)
    · exact absurd h.1 (by simp)

theorem traverseNode_ok (gv : Graph) (hsym : EdgeSym gv) (s : State) (w next prev : Nat) (dir : Dir)
    (hw : w < s.workers.length) (hlast : (s.wd w).path.getLast? = some next) (hlen : 2 ≤ (s.wd w).path.length) :
    StepOK gv w s (traverseNode gv s w next prev dir) := by
  unfold traverseNode
  by_cases hocc : isOccupied gv s next w = true
  · simp only [hocc, if_true]
    obtain ⟨a, b, c, d⟩ := afterTraverse_ok gv hsym s w next prev dir hw hlast hlen
    exact ⟨d.startsOK gv w, Or.inl ⟨a, Or.inl ⟨c, Or.inl b⟩⟩⟩
  · simp only [hocc, Bool.false_eq_true, if_false]
    have qE : Qt w (some next) s (s.setNd next (fun d => { d with started := some w })) := qt_enter w s next
    have qP0 : Qt w none (s.setNd next (fun d => { d with started := some w }))
        (pullLocations gv (s.setNd next (fun d => { d with started := some w })) next) := qt_pullLocations w none gv _ next
    have qP := qE.trans qP0.weaken
    cases hd : runDecision gv (pullLocations gv (s.setNd next (fun d => { d with started := some w })) next) next w with
    | error e =>
      exact ⟨StartsOK.nil gv w, Or.inr ⟨next, hlast, hlen, qP.eff, by rw [qP.wd w], Or.inl ⟨e, rfl, by rw [qP.wd w]⟩⟩⟩
    | ok r =>
      obtain ⟨run, s1, evs⟩ := r
      have q10 : Qt w none (s.setNd next (fun d => { d with started := some w })) s1 :=
        qP0.trans (qt_runDecision w none gv _ next w run s1 evs hd)
      have q1 : Qt w (some next) s s1 := qE.trans q10.weaken
      have hd1 : DoorsOnly evs := runDecision_doors gv _ next w run s1 evs hd
      have hw1 : w < s1.workers.length := by rw [q1.workers]; exact hw
      dsimp only
      by_cases hrun : run = true
      · subst hrun
        have hid := (runDecision_true_own gv _ next w s1 evs hd).1
        simp only [if_true]
        by_cases hroot : (gv.node next).objectRoot = true
        · simp only [hroot, if_true]
          obtain ⟨a, b, ⟨uid, tag, c⟩, d⟩ := startPre_ok gv s1 w next dir (s1.nd next).results
            ("all.internal.stateless.noop.vms." ++ " ".intercalate (gv.node next).objs ++ ".nets." ++
                (gv.worker w).swarm ++ "." ++ ((gv.worker w).id.splitOn ".").getLast!) hw1
          refine ⟨hd1.startsOK gv w |>.append (d hid), Or.inr ⟨next, hlast, hlen, q1.eff.trans a.weaken, ?_,
            Or.inr ⟨by simp only [startTest_flow], hid, _, _, uid, tag, c⟩⟩⟩
          rw [b, q1.wd w]
        · simp only [hroot, Bool.false_eq_true, if_false]
          obtain ⟨a, b, ⟨uid, tag, c⟩, d⟩ := startTest_ok gv s1 next w .plain dir hw1
          refine ⟨hd1.startsOK gv w |>.append (d hid), Or.inr ⟨next, hlast, hlen, q1.eff.trans a.weaken, ?_,
            Or.inr ⟨by simp only [startTest_flow], hid, _, _, uid, tag, c⟩⟩⟩
          rw [b, q1.wd w]
      · simp only [hrun, Bool.false_eq_true, if_false]
        have qF : Qt w none s (finishTraverse s1 next w) := enter_finish_qt w s s1 next q10
        have hwF : w < (finishTraverse s1 next w).workers.length := by rw [qF.workers]; exact hw
        obtain ⟨a, b, c, d⟩ := afterTraverse_ok gv hsym (finishTraverse s1 next w) w next prev dir hwF
          (by rw [qF.wd w]; exact hlast) (by rw [qF.wd w]; exact hlen)
        rw [qF.wd w] at b c
        exact ⟨(hd1.append d).startsOK gv w, Or.inl ⟨qF.eff.trans a, Or.inl ⟨c, Or.inl b⟩⟩⟩

theorem lt_of_path_ne_nil (s : State) (w : Nat) (h : (s.wd w).path ≠ []) : w < s.workers.length := by
  by_cases hl : w < s.workers.length
  · exact hl
  · exfalso; apply h
    unfold State.wd
    rw [List.getD_eq_getElem?_getD, List.getElem?_eq_none (by omega)]; rfl

theorem iter_ok (gv : Graph) (hsym : EdgeSym gv) (s : State) (w : Nat) : StepOK gv w s (iter gv s w) := by
  unfold iter
  dsimp only
  split
  · split
    · next hp =>
      have hp' : (s.wd w).path = [gv.root] := by simpa using hp
      have hw : w < s.workers.length := lt_of_path_ne_nil s w (by rw [hp']; simp)
      refine ⟨fun e he => ?_, Or.inl ⟨eff_setWd w none s _, Or.inr ?_⟩⟩
      · simp only [List.mem_singleton] at he; rw [he]; trivial
      · rw [(Eff.refl w none s).wd_setWd hw]; exact ⟨rfl, rfl, rfl⟩
    · exact StepOK.unchanged gv w s _
  · cases hl : (s.wd w).path.getLast? with
    | none => exact StepOK.unchanged gv w s _
    | some next =>
      have hne : (s.wd w).path ≠ [] := by intro h; rw [h] at hl; simp at hl
      have hw : w < s.workers.length := lt_of_path_ne_nil s w hne
      dsimp only
      split
      · cases hp : pickChild gv s next w with
        | none => exact StepOK.unchanged gv w s _
        | some r =>
          obtain ⟨c, s1⟩ := r
          dsimp only
          have q1 : Qt w none s s1 := pickChild_qt w none gv s next w c s1 hp
          obtain ⟨hrel, hmem⟩ := pickChild_rel gv s next w c s1 hp
          unfold pushPath
          refine ⟨StartsOK.nil gv w, Or.inl ⟨q1.eff.setWd _, Or.inl ⟨?_, ?_⟩⟩⟩
          · rw [q1.eff.wd_setWd hw, q1.wd w]
            exact Or.inr (Or.inr (Or.inr ⟨next, c, hl, rfl, hrel, Or.inl ((hsym next c).mpr hmem)⟩))
          · rw [q1.eff.wd_setWd hw, q1.wd w]; exact Or.inl rfl
      · next hlen1 =>
        have hlen : 2 ≤ (s.wd w).path.length := by
          have h0 : 0 < (s.wd w).path.length := List.length_pos_iff.mpr hne
          have h1 : (s.wd w).path.length ≠ 1 := by simpa using hlen1
          omega
        split
        · -- bounce
          refine ⟨fun e he => ?_, ?_⟩
          · simp only [List.mem_singleton] at he; rw [he]; trivial
          · left
            have key : ∀ (sx : State) (f : WorkerD → WorkerD), Eff w none s sx → (∀ d, (f d).path = [gv.root]) →
                (∀ d, (f d).pc = .bounce) →
                Eff w none s (sx.setWd w f) ∧
                  ((PathEff gv w (s.wd w).path ((sx.setWd w f).wd w).path ∧
                    (((sx.setWd w f).wd w).pc = (s.wd w).pc ∨ ((sx.setWd w f).wd w).pc = .bounce)) ∨
                  (((sx.setWd w f).wd w).path = [] ∧ ((sx.setWd w f).wd w).pc = .done ∧ Flow.suspend = .exit)) := by
              intro sx f ex h1 h2
              refine ⟨ex.setWd _, Or.inl ⟨?_, ?_⟩⟩
              · rw [ex.wd_setWd hw, h1]; exact Or.inr (Or.inr (Or.inl rfl))
              · rw [ex.wd_setWd hw, h2]; exact Or.inr rfl
            refine key _ _ ?_ (fun _ => rfl) (fun _ => rfl)
            split
            · refine Eff.setWd ?_ _
              split
              · refine (qt_setNd w none s next _ ?_).eff
                intro d; exact Or.inl rfl
              · exact Eff.refl _ _ _
            · exact eff_setWd w none s _
        · split
          · split
            · exact traverseNode_ok gv hsym s w next _ .up hw hl hlen
            · cases hp : pickParent gv s next w with
              | none => exact StepOK.unchanged gv w s _
              | some r =>
                obtain ⟨c, s1⟩ := r
                dsimp only
                have q1 : Qt w none s s1 := pickParent_qt w none gv s next w c s1 hp
                obtain ⟨hrel, hmem⟩ := pickParent_rel gv s next w c s1 hp
                unfold pushPath
                refine ⟨StartsOK.nil gv w, Or.inl ⟨q1.eff.setWd _, Or.inl ⟨?_, ?_⟩⟩⟩
                · rw [q1.eff.wd_setWd hw, q1.wd w]
                  exact Or.inr (Or.inr (Or.inr ⟨next, c, hl, rfl, hrel, Or.inr ((hsym c next).mp hmem)⟩))
                · rw [q1.eff.wd_setWd hw, q1.wd w]; exact Or.inl rfl
          · split
            · split
              · cases hp : pickParent gv s next w with
                | none => exact StepOK.unchanged gv w s _
                | some r =>
                  obtain ⟨c, s1⟩ := r
                  dsimp only
                  have q1 : Qt w none s s1 := pickParent_qt w none gv s next w c s1 hp
                  obtain ⟨hrel, hmem⟩ := pickParent_rel gv s next w c s1 hp
                  unfold pushPath
                  refine ⟨StartsOK.nil gv w, Or.inl ⟨q1.eff.setWd _, Or.inl ⟨?_, ?_⟩⟩⟩
                  · rw [q1.eff.wd_setWd hw, q1.wd w]
                    exact Or.inr (Or.inr (Or.inr ⟨next, c, hl, rfl, hrel, Or.inr ((hsym c next).mp hmem)⟩))
                  · rw [q1.eff.wd_setWd hw, q1.wd w]; exact Or.inl rfl
              · exact traverseNode_ok gv hsym s w next _ .down hw hl hlen
            · exact StepOK.unchanged gv w s _

/-! ## the invariant -/

/-- the path of a real worker: empty once it has left the loop, otherwise a walk from the root through the visible
graph whose entries after the root are relevant to the worker -/
def PathInv (g : Graph) (s : State) (v : Nat) : Prop :=
  ((s.wd v).path = [] ∧ (s.wd v).pc = .done) ∨
    PathOK (Adj (vis g s)) (fun x => relevant g v x = true) g.root (s.wd v).path

/-- the part of the invariant that does not concern worker `w` itself (`w` is in the middle of a step and holds
no mark) -/
structure PInvO (g : Graph) (s : State) (w : Nat) : Prop where
  wlen : s.workers.length = g.workers.length
  path : ∀ v, v ≠ w → v < s.workers.length → PathInv g s v
  markRel : ∀ n v, (s.nd n).started = some v → relevant g v n = true
  markPc : ∀ n v, (s.nd n).started = some v → v ≠ w ∧ ((s.wd v).pc.node? = some n ∨ (s.wd v).pc = .failed)
  testOwn : ∀ v, v ≠ w → ∀ n, (s.wd v).pc.node? = some n →
    g.idIn v n = true ∧ (s.wd v).path.getLast? = some n ∧ 2 ≤ (s.wd v).path.length

/-- the invariant between steps -/
structure PInv (g : Graph) (s : State) : Prop where
  wlen : s.workers.length = g.workers.length
  path : ∀ v, v < s.workers.length → PathInv g s v
  markRel : ∀ n v, (s.nd n).started = some v → relevant g v n = true
  markPc : ∀ n v, (s.nd n).started = some v → (s.wd v).pc.node? = some n ∨ (s.wd v).pc = .failed
  testOwn : ∀ v n, (s.wd v).pc.node? = some n →
    g.idIn v n = true ∧ (s.wd v).path.getLast? = some n ∧ 2 ≤ (s.wd v).path.length

theorem wd_setWd_proj {α} (P : WorkerD → α) (s : State) (w : Nat) (f : WorkerD → WorkerD) (hf : ∀ d, P (f d) = P d) (v : Nat) :
    P ((s.setWd w f).wd v) = P (s.wd v) := by
  unfold State.setWd State.wd
  simp only [List.getD_eq_getElem?_getD, List.getElem?_modify]
  cases h : s.workers[v]? with
  | none => simp
  | some d =>
    by_cases hm : w = v
    · simp [hm, hf]
    · simp [hm]

theorem PInvO.transfer {g : Graph} {s s' : State} {w : Nat} (h : PInvO g s w)
    (hlen : s'.workers.length = s.workers.length)
    (hhid : ∀ x, x ∈ s'.hidden → x ∈ s.hidden)
    (hoth : ∀ v, v ≠ w → (s'.wd v).path = (s.wd v).path ∧ (s'.wd v).pc = (s.wd v).pc)
    (hmarks : ∀ i, (s'.nd i).started = (s.nd i).started ∨ (s'.nd i).started = none) : PInvO g s' w := by
  have back : ∀ n v, (s'.nd n).started = some v → (s.nd n).started = some v := by
    intro n v hs
    rcases hmarks n with h' | h'
    · rw [← h']; exact hs
    · rw [h'] at hs; cases hs
  refine ⟨hlen.trans h.wlen, fun v hv hvl => ?_, fun n v hs => h.markRel n v (back n v hs), fun n v hs => ?_, fun v hv n hn => ?_⟩
  · obtain ⟨hp, hpc⟩ := hoth v hv
    unfold PathInv
    rw [hp, hpc]
    rcases h.path v hv (by rw [← hlen]; exact hvl) with h' | h'
    · exact Or.inl h'
    · exact Or.inr (h'.mono (fun a b => adj_vis_mono g s s' hhid a b))
  · obtain ⟨hv, hpc⟩ := h.markPc n v (back n v hs)
    rw [(hoth v hv).2]
    exact ⟨hv, hpc⟩
  · obtain ⟨hp, hpc⟩ := hoth v hv
    rw [hp]; rw [hpc] at hn
    exact h.testOwn v hv n hn

theorem PInv.ofO {g : Graph} {s : State} {w : Nat} (h : PInvO g s w) (hp : w < s.workers.length → PathInv g s w)
    (hpc : (s.wd w).pc.node? = none) : PInv g s := by
  refine ⟨h.wlen, fun v hv => ?_, h.markRel, fun n v hs => (h.markPc n v hs).2, fun v n hn => ?_⟩
  · by_cases hvw : v = w
    · subst hvw; exact hp hv
    · exact h.path v hvw hv
  · by_cases hvw : v = w
    · subst hvw; rw [hpc] at hn; cases hn
    · exact h.testOwn v hvw n hn

theorem PInv.toO {g : Graph} {s : State} {w : Nat} (h : PInv g s) (hpc : (s.wd w).pc.node? = none)
    (hnf : (s.wd w).pc ≠ .failed) : PInvO g s w := by
  refine ⟨h.wlen, fun v _ hv => h.path v hv, h.markRel, fun n v hs => ⟨?_, h.markPc n v hs⟩, fun v _ n hn => h.testOwn v n hn⟩
  intro hvw
  subst hvw
  rcases h.markPc n v hs with h' | h'
  · rw [hpc] at h'; cases h'
  · exact hnf h'

/-- the four moves keep the path a walk from the root -/
theorem pathOK_eff (g : Graph) (s1 s' : State) (w : Nat) (p p' : List Nat)
    (hhid : ∀ x, x ∈ s'.hidden → x ∈ s1.hidden)
    (hp : PathOK (Adj (vis g s1)) (fun x => relevant g w x = true) g.root p)
    (he : PathEff (vis g s1) w p p') :
    PathOK (Adj (vis g s')) (fun x => relevant g w x = true) g.root p' := by
  have hp' := hp.mono (fun a b => adj_vis_mono g s1 s' hhid a b)
  rcases he with h | ⟨h, hl⟩ | h | ⟨last, c, hl, h, hrel, hadj⟩
  · rw [h]; exact hp'
  · rw [h]
    rcases hp'.dropLast with h0 | h0
    · exfalso
      have := congrArg List.length h0
      simp at this
      omega
    · exact h0
  · rw [h, vis_root]; exact .root
  · rw [h]
    exact .push p last c hp' hl (adj_vis_mono g s1 s' hhid _ _ hadj) (by rw [← vis_relevant g s1]; exact hrel)

/-- worker `w` has entered the last node of its path and ends its step inside the execution or dead -/
theorem PInvO.enter {g : Graph} {s s' : State} {w next : Nat} (h : PInvO g s w)
    (hp : PathOK (Adj (vis g s)) (fun x => relevant g w x = true) g.root (s.wd w).path)
    (he : Eff w (some next) s s') (hpath : (s'.wd w).path = (s.wd w).path)
    (hlast : (s.wd w).path.getLast? = some next) (hlen : 2 ≤ (s.wd w).path.length)
    (hpc : (s'.wd w).pc = .failed ∨ ((s'.wd w).pc.node? = some next ∧ g.idIn w next = true)) : PInv g s' := by
  have hrel : relevant g w next = true := (hp.last_two (by omega) next hlast).2
  have hhid : ∀ x, x ∈ s'.hidden → x ∈ s.hidden := by intro x hx; rw [← he.hidden]; exact hx
  refine ⟨he.workersLen.trans h.wlen, fun v hv => ?_, fun n v hs => ?_, fun n v hs => ?_, fun v n hn => ?_⟩
  · by_cases hvw : v = w
    · subst hvw
      right
      rw [hpath]
      exact hp.mono (fun a b => adj_vis_mono g s s' hhid a b)
    · unfold PathInv
      rw [he.others v hvw]
      rcases h.path v hvw (by rw [← he.workersLen]; exact hv) with h' | h'
      · exact Or.inl h'
      · exact Or.inr (h'.mono (fun a b => adj_vis_mono g s s' hhid a b))
  · rcases he.marks n with h' | h' | ⟨h1, h2⟩
    · rw [h'] at hs; exact h.markRel n v hs
    · rw [h'] at hs; cases hs
    · rw [h2] at hs
      have h3 : next = n := Option.some.inj h1
      have h4 : w = v := Option.some.inj hs
      rw [← h3, ← h4]; exact hrel
  · rcases he.marks n with h' | h' | ⟨h1, h2⟩
    · rw [h'] at hs
      obtain ⟨hv, hpc'⟩ := h.markPc n v hs
      rw [he.others v hv]; exact hpc'
    · rw [h'] at hs; cases hs
    · rw [h2] at hs
      have h3 : next = n := Option.some.inj h1
      have h4 : w = v := Option.some.inj hs
      rw [← h3, ← h4]
      rcases hpc with h5 | h5
      · exact Or.inr h5
      · exact Or.inl h5.1
  · by_cases hvw : v = w
    · subst hvw
      rcases hpc with h5 | h5
      · rw [h5] at hn; cases hn
      · rw [h5.1] at hn
        have : next = n := Option.some.inj hn
        rw [← this, hpath]
        exact ⟨h5.2, hlast, hlen⟩
    · rw [he.others v hvw] at hn ⊢
      exact h.testOwn v hvw n hn

/-! ## the lazy expansion step -/

theorem reveal_frame (g : Graph) (s : State) (f w : Nat) :
    (reveal g s f w).nodes = s.nodes ∧ (reveal g s f w).workers = s.workers ∧
      ∀ x, x ∈ (reveal g s f w).hidden → x ∈ s.hidden := by
  unfold reveal
  dsimp only
  split
  · exact ⟨rfl, rfl, fun _ h => h⟩
  · exact ⟨rfl, rfl, fun _ h => (List.mem_filter.mp h).1⟩

theorem prepare_frame (g : Graph) (s : State) (w : Nat) :
    (prepare g s w).nodes = s.nodes ∧ (prepare g s w).workers.length = s.workers.length ∧
      (∀ v, ((prepare g s w).wd v).path = (s.wd v).path ∧ ((prepare g s w).wd v).pc = (s.wd v).pc) ∧
      ∀ x, x ∈ (prepare g s w).hidden → x ∈ s.hidden := by
  unfold prepare
  dsimp only
  cases (s.wd w).path.getLast? with
  | none => exact ⟨rfl, rfl, fun _ => ⟨rfl, rfl⟩, fun _ h => h⟩
  | some next =>
    dsimp only
    have hwd : ∀ (u : Bool) v, ((s.setWd w (fun d => { d with unexplored := u })).wd v).path = (s.wd v).path ∧
        ((s.setWd w (fun d => { d with unexplored := u })).wd v).pc = (s.wd v).pc := fun u v =>
      ⟨wd_setWd_proj (·.path) s w (fun d => { d with unexplored := u }) (fun _ => rfl) v,
       wd_setWd_proj (·.pc) s w (fun d => { d with unexplored := u }) (fun _ => rfl) v⟩
    split
    · obtain ⟨h1, h2, h3⟩ := reveal_frame g (s.setWd w (fun d => { d with unexplored := !(unexploredNodes (vis g s) s).isEmpty })) next w
      refine ⟨h1, by rw [h2]; simp [State.setWd], fun v => ?_, h3⟩
      have : ∀ v, (reveal g (s.setWd w (fun d => { d with unexplored := !(unexploredNodes (vis g s) s).isEmpty })) next w).wd v =
          (s.setWd w (fun d => { d with unexplored := !(unexploredNodes (vis g s) s).isEmpty })).wd v := by
        intro v; unfold State.wd; rw [h2]
      rw [this]; exact hwd _ v
    · exact ⟨rfl, by simp [State.setWd], fun v => hwd _ v, fun _ h => h⟩

theorem iterL_ok (g : Graph) (hsym : EdgeSym g) (s : State) (w : Nat) :
    ∃ s1, (s1 = s ∨ s1 = prepare g s w) ∧ StepOK (vis g s1) w s1 (iterL g s w) := by
  unfold iterL
  split
  · exact ⟨s, Or.inl rfl, iter_ok (vis g s) (edgeSym_vis g s hsym) s w⟩
  · exact ⟨prepare g s w, Or.inr rfl, iter_ok (vis g (prepare g s w)) (edgeSym_vis g _ hsym) (prepare g s w) w⟩

theorem nd_of_nodes_eq {s s' : State} (h : s'.nodes = s.nodes) (i : Nat) : s'.nd i = s.nd i := by
  unfold State.nd; rw [h]

/-- the invariant across one iteration of worker `w` -/
theorem iterL_inv (g : Graph) (hsym : EdgeSym g) (s : State) (w : Nat) (ho : PInvO g s w)
    (hp : PathOK (Adj (vis g s)) (fun x => relevant g w x = true) g.root (s.wd w).path)
    (hpc : (s.wd w).pc.node? = none) :
    (iterL g s w).1.workers.length = s.workers.length ∧
    ((iterL g s w).2.2 = .cont → PInvO g (iterL g s w).1 w ∧
      PathOK (Adj (vis g (iterL g s w).1)) (fun x => relevant g w x = true) g.root ((iterL g s w).1.wd w).path ∧
      ((iterL g s w).1.wd w).pc.node? = none) ∧
    ((iterL g s w).2.2 = .suspend ∨ (iterL g s w).2.2 = .exit → PInv g (iterL g s w).1) ∧
    (∀ what, (iterL g s w).2.2 = .raise what → PInv g ((iterL g s w).1.setWd w (fun d => { d with pc := .failed }))) := by
  obtain ⟨s1, hs1, _, hok⟩ := iterL_ok g hsym s w
  -- the state after the expansion step
  have pre : s1.workers.length = s.workers.length ∧ PInvO g s1 w ∧
      PathOK (Adj (vis g s1)) (fun x => relevant g w x = true) g.root (s1.wd w).path ∧ (s1.wd w).pc.node? = none := by
    rcases hs1 with h | h
    · rw [h]; exact ⟨rfl, ho, hp, hpc⟩
    · obtain ⟨h1, h2, h3, h4⟩ := prepare_frame g s w
      rw [h]
      refine ⟨h2, ho.transfer h2 h4 (fun v _ => h3 v) (fun i => Or.inl (by rw [nd_of_nodes_eq h1])), ?_, ?_⟩
      · rw [(h3 w).1]; exact hp.mono (fun a b => adj_vis_mono g s _ h4 a b)
      · rw [(h3 w).2]; exact hpc
  obtain ⟨hl1, ho1, hp1, hpc1⟩ := pre
  refine ⟨?_, ?_⟩
  · rcases hok with ⟨he, _⟩ | ⟨_, _, _, he, _⟩
    · rw [he.workersLen, hl1]
    · rw [he.workersLen, hl1]
  generalize iterL g s w = r at hok
  -- marking a worker as failed keeps the others' part of the invariant
  have failSet : ∀ sx : State, Eff w none sx (sx.setWd w (fun d => { d with pc := .failed })) := fun sx => eff_setWd w none sx _
  have failPc : ∀ sx : State, w < sx.workers.length → ((sx.setWd w (fun d => { d with pc := .failed })).wd w).pc = .failed ∧
      ((sx.setWd w (fun d => { d with pc := .failed })).wd w).path = (sx.wd w).path := by
    intro sx hwl
    rw [wd_setWd_eq sx w _ hwl]; exact ⟨rfl, rfl⟩
  rcases hok with ⟨he, hq⟩ | ⟨next, hlast, hlen, he, hpath, hfl⟩
  · -- nothing entered
    have hhid : ∀ x, x ∈ r.1.hidden → x ∈ s1.hidden := by intro x hx; rw [← he.hidden]; exact hx
    have ho' : PInvO g r.1 w := ho1.transfer he.workersLen hhid (fun v hv => by rw [he.others v hv]; exact ⟨rfl, rfl⟩)
      (fun i => by
        rcases he.marks i with h | h | h
        · exact Or.inl h
        · exact Or.inr h
        · exact absurd h.1 (by simp))
    rcases hq with ⟨hpe, hpc'⟩ | ⟨hnil, hdone, hexit⟩
    · have hp' := pathOK_eff g s1 r.1 w _ _ hhid hp1 hpe
      have hpcn : (r.1.wd w).pc.node? = none := by
        rcases hpc' with h | h
        · rw [h]; exact hpc1
        · rw [h]; rfl
      refine ⟨fun _ => ⟨ho', hp', hpcn⟩, fun _ => PInv.ofO ho' (fun _ => Or.inr hp') hpcn, fun what _ => ?_⟩
      have e2 := failSet r.1
      have ho2 : PInvO g (r.1.setWd w (fun d => { d with pc := .failed })) w :=
        ho'.transfer e2.workersLen (fun x hx => by rw [← e2.hidden]; exact hx)
          (fun v hv => by rw [e2.others v hv]; exact ⟨rfl, rfl⟩) (fun i => Or.inl rfl)
      by_cases hwl : w < r.1.workers.length
      · obtain ⟨f1, f2⟩ := failPc r.1 hwl
        refine PInv.ofO ho2 (fun _ => Or.inr ?_) (by rw [f1]; rfl)
        rw [f2]
        exact hp'.mono (fun a b => adj_vis_mono g r.1 _ (fun x hx => by rw [← e2.hidden]; exact hx) a b)
      · refine PInv.ofO ho2 (fun hwl2 => absurd (by rw [← e2.workersLen]; exact hwl2) hwl) ?_
        have : (r.1.setWd w (fun d => { d with pc := .failed })).wd w = {} := by
          unfold State.wd
          rw [List.getD_eq_getElem?_getD, List.getElem?_eq_none (by rw [e2.workersLen]; omega)]; rfl
        rw [this]; rfl
    · refine ⟨fun h => ?_, fun _ => PInv.ofO ho' (fun _ => Or.inl ⟨hnil, hdone⟩) (by rw [hdone]; rfl), fun what h => ?_⟩
      · rw [hexit] at h; cases h
      · rw [hexit] at h; cases h
  · -- the last node of the path entered
    have hw1 : w < s1.workers.length := lt_of_path_ne_nil s1 w (by intro h; rw [h] at hlen; simp at hlen)
    refine ⟨fun h => ?_, fun h => ?_, fun what h => ?_⟩
    · rcases hfl with ⟨_, h', _⟩ | ⟨h', _⟩ <;> rw [h'] at h <;> cases h
    · rcases hfl with ⟨_, h', _⟩ | ⟨_, hid, ph, dir, uid, tag, hpcx⟩
      · rcases h with h | h <;> rw [h'] at h <;> cases h
      · refine ho1.enter hp1 he hpath hlast hlen (Or.inr ⟨by rw [hpcx]; rfl, ?_⟩)
        rw [← vis_idIn g s1]; exact hid
    · have e2 := failSet r.1
      obtain ⟨f1, f2⟩ := failPc r.1 (by rw [he.workersLen]; exact hw1)
      exact ho1.enter hp1 (he.trans e2.weaken) (by rw [f2]; exact hpath) hlast hlen (Or.inl f1)

theorem PInvO.fail {g : Graph} {sx : State} {w : Nat} (ho : PInvO g sx w)
    (hp : PathOK (Adj (vis g sx)) (fun x => relevant g w x = true) g.root (sx.wd w).path) (hw : w < sx.workers.length) :
    PInv g (sx.setWd w (fun d => { d with pc := .failed })) := by
  have e2 : Eff w none sx (sx.setWd w (fun d => { d with pc := .failed })) := eff_setWd w none sx _
  have ho2 : PInvO g (sx.setWd w (fun d => { d with pc := .failed })) w :=
    ho.transfer e2.workersLen (fun x hx => by rw [← e2.hidden]; exact hx)
      (fun v hv => by rw [e2.others v hv]; exact ⟨rfl, rfl⟩) (fun i => Or.inl rfl)
  have hwd := wd_setWd_eq sx w (fun d => { d with pc := .failed }) hw
  refine PInv.ofO ho2 (fun _ => Or.inr ?_) (by rw [hwd]; rfl)
  rw [hwd]
  exact hp.mono (fun a b => adj_vis_mono g sx _ (fun x hx => by rw [← e2.hidden]; exact hx) a b)

theorem runLoop_inv (g : Graph) (hsym : EdgeSym g) (w : Nat) (fuel : Nat) (s : State) (evs : List Event)
    (ho : PInvO g s w) (hp : PathOK (Adj (vis g s)) (fun x => relevant g w x = true) g.root (s.wd w).path)
    (hw : w < s.workers.length) (hpc : fuel = 0 → (s.wd w).pc.node? = none) : PInv g (runLoop g w fuel s evs).1 := by
  induction fuel generalizing s evs with
  | zero => exact PInv.ofO ho (fun _ => Or.inr hp) (hpc rfl)
  | succ fuel ih =>
    unfold runLoop
    dsimp only
    have e0 : Eff w none s (s.setWd w (fun d => { d with pc := .loop })) := eff_setWd w none s _
    have hwd := wd_setWd_eq s w (fun d => { d with pc := .loop }) hw
    have ho0 : PInvO g (s.setWd w (fun d => { d with pc := .loop })) w :=
      ho.transfer e0.workersLen (fun x hx => by rw [← e0.hidden]; exact hx)
        (fun v hv => by rw [e0.others v hv]; exact ⟨rfl, rfl⟩) (fun i => Or.inl rfl)
    have hp0 : PathOK (Adj (vis g (s.setWd w (fun d => { d with pc := .loop })))) (fun x => relevant g w x = true) g.root
        ((s.setWd w (fun d => { d with pc := .loop })).wd w).path := by
      rw [hwd]
      exact hp.mono (fun a b => adj_vis_mono g s _ (fun x hx => by rw [← e0.hidden]; exact hx) a b)
    obtain ⟨hl, hcont, hsusp, hraise⟩ := iterL_inv g hsym _ w ho0 hp0 (by rw [hwd]; rfl)
    split
    · next s1 e heq =>
      rw [heq] at hcont hl
      obtain ⟨a, b, c⟩ := hcont rfl
      exact ih s1 _ a b (by rw [hl, e0.workersLen]; exact hw) (fun _ => c)
    · next s1 e heq => rw [heq] at hsusp; exact hsusp (Or.inl rfl)
    · next s1 e heq => rw [heq] at hsusp; exact hsusp (Or.inr rfl)
    · next s1 e what heq => rw [heq] at hraise; exact hraise what rfl

/-- a change that keeps every path, every pc up to the phase and wait counter, and removes marks at most -/
theorem PInv.transfer {g : Graph} {s s' : State} (h : PInv g s)
    (hlen : s'.workers.length = s.workers.length)
    (hhid : ∀ x, x ∈ s'.hidden → x ∈ s.hidden)
    (hwd : ∀ v, (s'.wd v).path = (s.wd v).path ∧ (s'.wd v).pc.node? = (s.wd v).pc.node? ∧
      ((s.wd v).pc = .failed → (s'.wd v).pc = .failed) ∧ ((s.wd v).pc = .done → (s'.wd v).pc = .done))
    (hmarks : ∀ i, (s'.nd i).started = (s.nd i).started ∨ (s'.nd i).started = none) : PInv g s' := by
  have back : ∀ n v, (s'.nd n).started = some v → (s.nd n).started = some v := by
    intro n v hs
    rcases hmarks n with h' | h'
    · rw [← h']; exact hs
    · rw [h'] at hs; cases hs
  refine ⟨hlen.trans h.wlen, fun v hvl => ?_, fun n v hs => h.markRel n v (back n v hs), fun n v hs => ?_, fun v n hn => ?_⟩
  · obtain ⟨hp, _, _, hd⟩ := hwd v
    unfold PathInv
    rw [hp]
    rcases h.path v (by rw [← hlen]; exact hvl) with h' | h'
    · exact Or.inl ⟨h'.1, hd h'.2⟩
    · exact Or.inr (h'.mono (fun a b => adj_vis_mono g s s' hhid a b))
  · obtain ⟨_, hn, hf, _⟩ := hwd v
    rcases h.markPc n v (back n v hs) with h' | h'
    · left; rw [hn]; exact h'
    · right; exact hf h'
  · obtain ⟨hp, hn', _, _⟩ := hwd v
    rw [hp]; rw [hn'] at hn
    exact h.testOwn v n hn

/-- leaving the copy `n` the worker was executing: afterwards it holds no mark -/
theorem PInv.finish {g : Graph} {s s2 : State} {w n : Nat} (h : PInv g s) (hpcw : (s.wd w).pc.node? = some n)
    (q : Qt w none s s2) :
    PInvO g (finishTraverse s2 n w) w ∧
    PathOK (Adj (vis g (finishTraverse s2 n w))) (fun x => relevant g w x = true) g.root ((finishTraverse s2 n w).wd w).path ∧
    ((finishTraverse s2 n w).wd w).path.getLast? = some n ∧ 2 ≤ ((finishTraverse s2 n w).wd w).path.length ∧
    w < (finishTraverse s2 n w).workers.length ∧ g.idIn w n = true := by
  have qF : Qt w none s (finishTraverse s2 n w) := q.trans (qt_finishTraverse w none s2 n w)
  obtain ⟨hid, hlast, hlen⟩ := h.testOwn w n hpcw
  have hw : w < s.workers.length := lt_of_path_ne_nil s w (by intro h0; rw [h0] at hlen; simp at hlen)
  have hhid : ∀ x, x ∈ (finishTraverse s2 n w).hidden → x ∈ s.hidden := by intro x hx; rw [← qF.hidden]; exact hx
  have back : ∀ i v, ((finishTraverse s2 n w).nd i).started = some v → (s.nd i).started = some v := by
    intro i v hs
    rcases qF.marks i with h' | h' | h'
    · rw [← h']; exact hs
    · rw [h'] at hs; cases hs
    · exact absurd h'.1 (by simp)
  refine ⟨⟨by rw [qF.workers]; exact h.wlen, fun v hv hvl => ?_, fun i v hs => h.markRel i v (back i v hs), fun i v hs => ?_,
    fun v hv i hn => ?_⟩, ?_, by rw [qF.wd w]; exact hlast, by rw [qF.wd w]; exact hlen, by rw [qF.workers]; exact hw, hid⟩
  · unfold PathInv
    rw [qF.wd v]
    rcases h.path v (by rw [← qF.workers]; exact hvl) with h' | h'
    · exact Or.inl h'
    · exact Or.inr (h'.mono (fun a b => adj_vis_mono g s _ hhid a b))
  · have hs0 := back i v hs
    rw [qF.wd v]
    refine ⟨?_, h.markPc i v hs0⟩
    intro hvw
    subst hvw
    rcases h.markPc i v hs0 with h' | h'
    · rw [hpcw] at h'
      have hin : n = i := Option.some.inj h'
      subst hin
      -- the mark of `n` itself is gone
      unfold finishTraverse at hs
      by_cases hl : n < s2.nodes.length
      · rw [nd_setNd_eq s2 n _ hl] at hs; cases hs
      · have hd : s2.nd n = {} := by
          unfold State.nd
          rw [List.getD_eq_getElem?_getD, List.getElem?_eq_none (by omega)]; rfl
        rw [nd_setNd_of_ge s2 n _ hl, hd] at hs; cases hs
    · rw [h'] at hpcw; cases hpcw
  · rw [qF.wd v] at hn ⊢
    exact h.testOwn v i hn
  · rw [qF.wd w]
    rcases h.path w hw with h' | h'
    · rw [h'.1] at hlen; simp at hlen
    · exact h'.mono (fun a b => adj_vis_mono g s _ hhid a b)

theorem continueAfter_inv (g : Graph) (hsym : EdgeSym g) (w n : Nat) (phase : Phase) (dir : Dir) (fuel : Nat) (hf : 0 < fuel)
    (s : State) (ok : Bool) (evs : List Event) (h : PInv g s) (hpcw : (s.wd w).pc.node? = some n) :
    PInv g (resumeTest.continueAfter g w n phase dir fuel s ok evs).1 := by
  obtain ⟨hid, hlast, hlen⟩ := h.testOwn w n hpcw
  have hw : w < s.workers.length := lt_of_path_ne_nil s w (by intro h0; rw [h0] at hlen; simp at hlen)
  unfold resumeTest.continueAfter
  dsimp only
  split
  · -- the test proper follows its creation pre-step
    obtain ⟨a, b, ⟨uid, tag, c⟩, _⟩ := startTest_ok g s n w .main dir hw
    refine h.transfer a.workersLen (fun x hx => by rw [← a.hidden]; exact hx) (fun v => ?_) (fun i => ?_)
    · by_cases hvw : v = w
      · subst hvw
        refine ⟨b, by rw [c, hpcw]; rfl, fun hx => ?_, fun hx => ?_⟩
        · rw [hx] at hpcw; cases hpcw
        · rw [hx] at hpcw; cases hpcw
      · rw [a.others v hvw]; exact ⟨rfl, rfl, fun hx => hx, fun hx => hx⟩
    · rcases a.marks i with h' | h' | h'
      · exact Or.inl h'
      · exact Or.inr h'
      · exact absurd h'.1 (by simp)
  · have q2 : Qt w none s (if (phase == Phase.pre) = true then
          s.setNd n (fun d => { d with results := d.results ++ (s.wd w).preResults.drop d.results.length })
        else s) := by
      split
      · refine qt_setNd w none s n _ ?_
        intro d; exact Or.inl rfl
      · exact Qt.refl _ _ _
    obtain ⟨hoF, hpF, hlF, hnF, hwF, _⟩ := h.finish hpcw q2
    generalize hsF : finishTraverse (if (phase == Phase.pre) = true then
          s.setNd n (fun d => { d with results := d.results ++ (s.wd w).preResults.drop d.results.length })
        else s) n w = sF at hoF hpF hlF hnF hwF
    obtain ⟨a, b, c, _⟩ := afterTraverse_ok (vis g sF) (edgeSym_vis g sF hsym) sF w n
      ((s.wd w).path.getD ((s.wd w).path.length - 2) 0) dir hwF hlF hnF
    generalize afterTraverse (vis g sF) sF w n ((s.wd w).path.getD ((s.wd w).path.length - 2) 0) dir = r at a b c
    have hhid : ∀ x, x ∈ r.1.hidden → x ∈ sF.hidden := by intro x hx; rw [← a.hidden]; exact hx
    have ho' : PInvO g r.1 w := hoF.transfer a.workersLen hhid (fun v hv => by rw [a.others v hv]; exact ⟨rfl, rfl⟩)
      (fun i => by
        rcases a.marks i with h' | h' | h'
        · exact Or.inl h'
        · exact Or.inr h'
        · exact absurd h'.1 (by simp))
    have hp' := pathOK_eff g sF r.1 w _ _ hhid hpF c
    have hw' : w < r.1.workers.length := by rw [a.workersLen]; exact hwF
    obtain ⟨s1, e2, fl⟩ := r
    cases fl with
    | raise what => exact ho'.fail hp' hw'
    | cont => exact runLoop_inv g hsym w fuel s1 _ ho' hp' hw' (fun h0 => by omega)
    | suspend => exact runLoop_inv g hsym w fuel s1 _ ho' hp' hw' (fun h0 => by omega)
    | exit => exact runLoop_inv g hsym w fuel s1 _ ho' hp' hw' (fun h0 => by omega)

/-! ## the second half of `run_test_node`, the scheduler step, reachability -/

theorem reportOutcome_frame (g : Graph) (s : State) (w n : Nat) (phase : Phase) (uid : String) (wait : Nat) (out : Outcome) :
    (reportOutcome g s w n phase uid wait out).1.nodes = s.nodes ∧
    (reportOutcome g s w n phase uid wait out).1.workers = s.workers ∧
    (reportOutcome g s w n phase uid wait out).1.hidden = s.hidden := by
  unfold reportOutcome
  dsimp only
  split
  · split
    · split <;> exact ⟨rfl, rfl, rfl⟩
    · exact ⟨rfl, rfl, rfl⟩
  · exact ⟨rfl, rfl, rfl⟩

/-- a change of book-keeping fields only -/
structure BookOnly (s s' : State) : Prop where
  workersLen : s'.workers.length = s.workers.length
  hidden : s'.hidden = s.hidden
  wd : ∀ v, (s'.wd v).path = (s.wd v).path ∧ (s'.wd v).pc = (s.wd v).pc
  started : ∀ i, (s'.nd i).started = (s.nd i).started

theorem bookOnly_tail (s sj : State) (hn : sj.nodes = s.nodes) (hw : sj.workers = s.workers) (hh : sj.hidden = s.hidden)
    (w n : Nat) (fW : WorkerD → WorkerD) (hfW : ∀ d, (fW d).path = d.path ∧ (fW d).pc = d.pc)
    (fN : NodeD → NodeD) (hfN : ∀ d, (fN d).started = d.started) (c : Bool) :
    BookOnly s (if c = true then sj.setWd w fW else sj.setNd n fN) := by
  have hwd : ∀ v, sj.wd v = s.wd v := by intro v; unfold State.wd; rw [hw]
  have hnd : ∀ i, sj.nd i = s.nd i := by intro i; unfold State.nd; rw [hn]
  cases c
  · simp only [Bool.false_eq_true, if_false]
    refine ⟨by show sj.workers.length = _; rw [hw], hh, fun v => by rw [wd_setNd, hwd]; exact ⟨rfl, rfl⟩,
      fun i => ?_⟩
    rw [nd_setNd_proj (·.started) sj n fN hfN i, hnd]
  · simp only [if_true]
    refine ⟨by simp [State.setWd, hw], hh, fun v => ?_, fun i => by show (sj.nd i).started = _; rw [hnd]⟩
    rw [wd_setWd_proj (·.path) sj w fW (fun d => (hfW d).1) v, wd_setWd_proj (·.pc) sj w fW (fun d => (hfW d).2) v, hwd]
    exact ⟨rfl, rfl⟩

theorem recordResult_frame (s : State) (w n : Nat) (phase : Phase) (name uid : String) (tag : Nat) (st0 : String) (dur : Nat) :
    BookOnly s (recordResult s w n phase name uid tag st0 dur).1 := by
  unfold recordResult
  dsimp only
  have hX : ∀ (c : Bool) (jr : List (String × String × String × Nat)),
      (if c = true then { s with jobResults := jr } else s).nodes = s.nodes ∧
      (if c = true then { s with jobResults := jr } else s).workers = s.workers ∧
      (if c = true then { s with jobResults := jr } else s).hidden = s.hidden := by
    intro c jr; cases c <;> exact ⟨rfl, rfl, rfl⟩
  refine bookOnly_tail s _ ?_ ?_ ?_ w n _ ?_ _ ?_ _
  · exact (hX _ _).1
  · exact (hX _ _).2.1
  · exact (hX _ _).2.2
  · intro d; exact ⟨rfl, rfl⟩
  · intro d; rfl

theorem PInv.bookOnly {g : Graph} {s s' : State} (h : PInv g s) (b : BookOnly s s') : PInv g s' :=
  h.transfer b.workersLen (fun x hx => by rw [← b.hidden]; exact hx)
    (fun v => ⟨(b.wd v).1, by rw [(b.wd v).2], fun hx => by rw [(b.wd v).2]; exact hx, fun hx => by rw [(b.wd v).2]; exact hx⟩)
    (fun i => Or.inl (b.started i))

theorem resumeTest_inv (g : Graph) (hsym : EdgeSym g) (s : State) (w n : Nat) (phase : Phase) (dir : Dir) (uid : String)
    (tag wait : Nat) (out : Outcome) (fuel : Nat) (hf : 0 < fuel) (h : PInv g s) (hpcw : (s.wd w).pc.node? = some n) :
    PInv g (resumeTest g s w n phase dir uid tag wait out fuel).1 := by
  rw [resumeTest_eq]
  obtain ⟨r1, r2, r3⟩ := reportOutcome_frame g s w n phase uid wait out
  have bA : BookOnly s (reportOutcome g s w n phase uid wait out).1 :=
    ⟨by rw [r2], r3, fun v => by unfold State.wd; rw [r2]; exact ⟨rfl, rfl⟩, fun i => by unfold State.nd; rw [r1]⟩
  have hA := h.bookOnly bA
  have hpcA : ((reportOutcome g s w n phase uid wait out).1.wd w).pc.node? = some n := by rw [(bA.wd w).2]; exact hpcw
  generalize (reportOutcome g s w n phase uid wait out).1 = sa at hA hpcA bA
  have waitCase : ∀ k, PInv g (sa.setWd w (fun d => { d with pc := .test n phase dir uid tag k })) := by
    intro k
    obtain ⟨_, _, hlen⟩ := hA.testOwn w n hpcA
    have hw : w < sa.workers.length := lt_of_path_ne_nil sa w (by intro h0; rw [h0] at hlen; simp at hlen)
    have e : Eff w none sa (sa.setWd w (fun d => { d with pc := .test n phase dir uid tag k })) := eff_setWd w none sa _
    refine hA.transfer e.workersLen (fun x hx => by rw [← e.hidden]; exact hx) (fun v => ?_) (fun i => Or.inl rfl)
    by_cases hvw : v = w
    · subst hvw
      rw [wd_setWd_eq sa v _ hw]
      refine ⟨rfl, by rw [hpcA]; rfl, fun hx => ?_, fun hx => ?_⟩
      · rw [hx] at hpcA; cases hpcA
      · rw [hx] at hpcA; cases hpcA
    · rw [e.others v hvw]; exact ⟨rfl, rfl, fun hx => hx, fun hx => hx⟩
  split
  · next st0 dur _ =>
    have bB := recordResult_frame sa w n phase (if (phase == Phase.pre) = true then (s.wd w).preName else (g.node n).name) uid tag st0 dur
    exact continueAfter_inv g hsym w n phase dir fuel hf _ _ _ (hA.bookOnly bB) (by rw [(bB.wd w).2]; exact hpcA)
  · split
    · exact waitCase _
    · split
      · exact waitCase _
      · exact continueAfter_inv g hsym w n phase dir fuel hf _ _ _ hA hpcA

/-- one scheduler step of a real worker with fuel keeps the invariant -/
theorem resume_inv (g : Graph) (hsym : EdgeSym g) (s : State) (w : Nat) (out : Outcome) (fuel : Nat) (hf : 0 < fuel)
    (hw : w < g.workers.length) (h : PInv g s) : PInv g (resume g s w out fuel).1 := by
  have hws : w < s.workers.length := by rw [h.wlen]; exact hw
  have loopCase : (s.wd w).pc.node? = none → (s.wd w).pc ≠ .failed → (s.wd w).pc ≠ .done → PInv g (runLoop g w fuel s []).1 := by
    intro h1 h2 h3
    refine runLoop_inv g hsym w fuel s [] (h.toO h1 h2) ?_ hws (fun h0 => by omega)
    rcases h.path w hws with h' | h'
    · exact absurd h'.2 h3
    · exact h'
  unfold resume
  split
  · next heq => exact loopCase (by rw [heq]; rfl) (by rw [heq]; simp) (by rw [heq]; simp)
  · next heq => exact loopCase (by rw [heq]; rfl) (by rw [heq]; simp) (by rw [heq]; simp)
  · next n phase dir uid tag wait heq =>
    exact resumeTest_inv g hsym s w n phase dir uid tag wait out fuel hf h (by rw [heq]; rfl)
  · exact h
  · exact h

theorem PInv.init (g : Graph) (ncls : Nat) (store : List (String × List (String × String))) (hidden : List Nat) :
    PInv g (initState g ncls store hidden) := by
  have hnd : ∀ i, ((initState g ncls store hidden).nd i).started = none := by
    intro i
    unfold initState State.nd
    simp only [List.getD_eq_getElem?_getD, List.getElem?_map]
    cases g.nodes[i]? <;> rfl
  have hwd : ∀ v, v < (initState g ncls store hidden).workers.length →
      (initState g ncls store hidden).wd v = { path := [g.root] } := by
    intro v hv
    unfold initState at hv
    unfold initState State.wd
    simp only [List.length_map] at hv
    simp only [List.getD_eq_getElem?_getD, List.getElem?_map, List.getElem?_eq_getElem hv]
    rfl
  have hpc : ∀ v, ((initState g ncls store hidden).wd v).pc.node? = none := by
    intro v
    by_cases hv : v < (initState g ncls store hidden).workers.length
    · rw [hwd v hv]; rfl
    · unfold State.wd
      rw [List.getD_eq_getElem?_getD, List.getElem?_eq_none (by omega)]; rfl
  refine ⟨by simp [initState], fun v hv => ?_, fun n v hs => ?_, fun n v hs => ?_, fun v n hn => ?_⟩
  · right; rw [hwd v hv]; exact .root
  · rw [hnd] at hs; cases hs
  · rw [hnd] at hs; cases hs
  · rw [hpc] at hn; cases hn

/-- the states the scheduler can produce by steps of real workers with fuel (with fuel `0` a step of the model stops
before the loop resets the pc: an artefact of the driver's bound, excluded here) -/
inductive ReachableF (g : Graph) (ncls : Nat) (store : List (String × List (String × String))) : State → Prop
  | init (hidden : List Nat) : ReachableF g ncls store (initState g ncls store hidden)
  | step (s : State) (w : Nat) (out : Outcome) (fuel : Nat) :
      ReachableF g ncls store s → w < g.workers.length → 0 < fuel → ReachableF g ncls store (resume g s w out fuel).1

theorem ReachableF.reachable {g : Graph} {ncls : Nat} {store : List (String × List (String × String))} {s : State}
    (h : ReachableF g ncls store s) : Reachable g ncls store s := by
  induction h with
  | init hidden => exact .init hidden
  | step s w out fuel _ _ _ ih => exact .step s w out fuel ih

theorem ReachableF.pinv {g : Graph} (hsym : EdgeSym g) {ncls : Nat} {store : List (String × List (String × String))} {s : State}
    (h : ReachableF g ncls store s) : PInv g s := by
  induction h with
  | init hidden => exact PInv.init g ncls store hidden
  | step s w out fuel _ hw hf ih => exact resume_inv g hsym s w out fuel hf hw ih

/-! ## the start events of a step -/

theorem startOK_vis (g : Graph) (s : State) (w : Nat) (e : Event) (h : startOK (vis g s) w e) : startOK g w e := by
  cases e with
  | start wid cls uid locs unk =>
    obtain ⟨h1, n, ph, h2, h3⟩ := h
    exact ⟨by rw [h1, vis_worker], n, ph, by rw [h2, vis_clsName], by rw [← vis_idIn g s]; exact h3⟩
  | _ => trivial

theorem StartsOK.of_vis {g : Graph} {s : State} {w : Nat} {evs : List Event} (h : StartsOK (vis g s) w evs) : StartsOK g w evs :=
  fun e he => startOK_vis g s w e (h e he)

theorem StartsOK.raise {g : Graph} {w : Nat} {evs : List Event} (h : StartsOK g w evs) (wid what : String) :
    StartsOK g w (evs ++ [Event.raise wid what]) :=
  h.append (fun e he => by simp only [List.mem_singleton] at he; rw [he]; trivial)

theorem runLoop_starts (g : Graph) (hsym : EdgeSym g) (w : Nat) (fuel : Nat) (s : State) (evs : List Event)
    (h : StartsOK g w evs) : StartsOK g w (runLoop g w fuel s evs).2 := by
  induction fuel generalizing s evs with
  | zero => exact h.raise _ _
  | succ fuel ih =>
    unfold runLoop
    dsimp only
    obtain ⟨s1, _, hst, _⟩ := iterL_ok g hsym (s.setWd w (fun d => { d with pc := .loop })) w
    have hst' := hst.of_vis
    split
    · next s2 e heq => rw [heq] at hst'; exact ih s2 _ (h.append hst')
    · next s2 e heq => rw [heq] at hst'; exact h.append hst'
    · next s2 e heq => rw [heq] at hst'; exact h.append hst'
    · next s2 e what heq => rw [heq] at hst'; exact (h.append hst').raise _ _

theorem startTest_starts (g : Graph) (s : State) (n w : Nat) (ph : Phase) (dir : Dir) (hid : g.idIn w n = true) :
    StartsOK g w (startTest g s n w ph dir).2.1 := by
  unfold startTest
  dsimp only
  split
  all_goals
    intro e he
    simp only [List.mem_singleton] at he
    rw [he]
    exact ⟨rfl, n, ph, rfl, hid⟩

theorem continueAfter_starts (g : Graph) (hsym : EdgeSym g) (w n : Nat) (phase : Phase) (dir : Dir) (fuel : Nat)
    (s : State) (ok : Bool) (evs : List Event) (hid : g.idIn w n = true) (h : StartsOK g w evs) :
    StartsOK g w (resumeTest.continueAfter g w n phase dir fuel s ok evs).2 := by
  unfold resumeTest.continueAfter
  dsimp only
  split
  · exact h.append (startTest_starts g s n w .main dir hid)
  · generalize hsF : finishTraverse (if (phase == Phase.pre) = true then
          s.setNd n (fun d => { d with results := d.results ++ (s.wd w).preResults.drop d.results.length })
        else s) n w = sF
    have hd : DoorsOnly (afterTraverse (vis g sF) sF w n ((s.wd w).path.getD ((s.wd w).path.length - 2) 0) dir).2.1 := by
      -- the events of `afterTraverse` are those of the run decision and of `reverse_node`
      unfold afterTraverse
      cases hrd : runDecision (vis g sF) sF n w with
      | error e => exact DoorsOnly.nil
      | ok r =>
        obtain ⟨run, s1, evs1⟩ := r
        have hd1 := runDecision_doors (vis g sF) sF n w run s1 evs1 hrd
        cases dir with
        | up => exact hd1
        | down =>
          dsimp only
          split
          · exact hd1
          · split
            · split
              · exact hd1
              · split
                · exact hd1
                · next s3 evs3 hr => exact hd1.append (reverseNode_qt w (vis g sF) _ n w s3 evs3 hr).2
            · split <;> exact hd1
    generalize afterTraverse (vis g sF) sF w n ((s.wd w).path.getD ((s.wd w).path.length - 2) 0) dir = r at hd
    obtain ⟨s1, e2, fl⟩ := r
    have h2 : StartsOK g w (evs ++ e2) := h.append (hd.startsOK g w)
    cases fl with
    | raise what => exact h2.raise _ _
    | cont => exact runLoop_starts g hsym w fuel s1 _ h2
    | suspend => exact runLoop_starts g hsym w fuel s1 _ h2
    | exit => exact runLoop_starts g hsym w fuel s1 _ h2

theorem reportOutcome_starts (g : Graph) (s : State) (w n : Nat) (phase : Phase) (uid : String) (wait : Nat) (out : Outcome) :
    StartsOK g w (reportOutcome g s w n phase uid wait out).2 := by
  unfold reportOutcome
  dsimp only
  split
  · split
    all_goals
      intro e he
      simp only [List.mem_singleton] at he
      rw [he]; trivial
  · exact StartsOK.nil g w

/-- every start event of a step of worker `w` carries `w`'s id and the class of a copy whose name contains `w`'s id -/
theorem resume_starts (g : Graph) (hsym : EdgeSym g) (s : State) (w : Nat) (out : Outcome) (fuel : Nat) (h : PInv g s) :
    StartsOK g w (resume g s w out fuel).2 := by
  unfold resume
  split
  · exact runLoop_starts g hsym w fuel s [] (StartsOK.nil g w)
  · exact runLoop_starts g hsym w fuel s [] (StartsOK.nil g w)
  · next n phase dir uid tag wait heq =>
    have hid : g.idIn w n = true := (h.testOwn w n (by rw [heq]; rfl)).1
    rw [resumeTest_eq]
    have h0 := reportOutcome_starts g s w n phase uid wait out
    have hs : ∀ wid q, StartsOK g w ((reportOutcome g s w n phase uid wait out).2 ++ [Event.sleep wid q]) := fun wid q =>
      h0.append (fun e he => by simp only [List.mem_singleton] at he; rw [he]; trivial)
    split
    · exact continueAfter_starts g hsym w n phase dir fuel _ _ _ hid h0
    · split
      · exact hs _ _
      · split
        · exact hs _ _
        · exact continueAfter_starts g hsym w n phase dir fuel _ _ _ hid h0
  · exact StartsOK.nil g w
  · exact StartsOK.nil g w

/-! ## an occupied node has a holder -/

theorem occupied_has_holder (g gv : Graph) (hs : SameStatic g gv) (s : State) (n w : Nat)
    (hocc : isOccupied gv s n w = true) : ∃ v m, m ∈ g.copies n ∧ (s.nd m).started = some v := by
  rw [isOccupied_iff] at hocc
  obtain ⟨_, hm⟩ := hocc
  have key : ∀ v, v ∈ sharedStarted gv s n → ∃ v m, m ∈ g.copies n ∧ (s.nd m).started = some v := by
    intro v hv
    rw [hs.sharedStarted_eq, mem_sharedStarted] at hv
    obtain ⟨i, hi, hst⟩ := hv
    exact ⟨v, i, hi, hst⟩
  have cnt : limit gv s n ≤ scopedCount gv s n w → ∃ v m, m ∈ g.copies n ∧ (s.nd m).started = some v := by
    intro hle
    have h1 := one_le_limit gv s n
    unfold scopedCount at hle
    have hpos : 0 < ((sharedStarted gv s n).filter (inScopeOf (gv.node n).shape gv w)).length := by omega
    obtain ⟨x, hx⟩ := List.exists_mem_of_length_pos hpos
    exact key x (List.mem_filter.mp hx).1
  cases hsh : (gv.node n).shape
  · simp only [hsh] at hm; exact key w hm
  · simp only [hsh] at hm; exact cnt hm
  · simp only [hsh] at hm; exact cnt hm

theorem SameStatic.refl (g : Graph) : SameStatic g g :=
  ⟨rfl, rfl, fun _ => rfl, fun _ => rfl, fun _ => rfl, fun _ => rfl, fun _ => rfl⟩

/-! ## a decidable form of `EdgeSym` -/

def edgeSymB (g : Graph) : Bool :=
  (List.range g.nodes.length).all (fun b =>
    (g.node b).setup.all (fun e => decide (e.1 < g.nodes.length) && ((g.node e.1).cleanup.map (·.1)).contains b) &&
    (g.node b).cleanup.all (fun e => decide (e.1 < g.nodes.length) && ((g.node e.1).setup.map (·.1)).contains b))

theorem node_edges_of_ge (g : Graph) (b : Nat) (h : ¬ b < g.nodes.length) : (g.node b).setup = [] ∧ (g.node b).cleanup = [] := by
  unfold Graph.node
  rw [List.getD_eq_getElem?_getD, List.getElem?_eq_none (by omega)]
  exact ⟨rfl, rfl⟩

theorem edgeSymB_sound {g : Graph} (h : edgeSymB g = true) : EdgeSym g := by
  unfold edgeSymB at h
  simp only [List.all_eq_true, List.mem_range, Bool.and_eq_true, decide_eq_true_eq, List.contains_iff_mem] at h
  intro a b
  simp only [List.mem_map]
  constructor
  · rintro ⟨e, he, rfl⟩
    by_cases hb : b < g.nodes.length
    · have := ((h b hb).1 e he).2
      simpa [List.mem_map] using this
    · rw [(node_edges_of_ge g b hb).1] at he; simp at he
  · rintro ⟨e, he, rfl⟩
    by_cases ha : a < g.nodes.length
    · have := ((h a ha).2 e he).2
      simpa [List.mem_map] using this
    · rw [(node_edges_of_ge g a ha).2] at he; simp at he

end I2N.Trav
