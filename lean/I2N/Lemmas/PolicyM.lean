import I2N.Model.Policy
/-!
# The monad and the atom table of the translator tie for `avocado_i2n/states/setup.py` (C12)

`harness/pygen_pxpolicy.py` regenerates `I2N/Extracted/GenPolicy.lean` from the current source of
`check_states`, `get_states`, `set_states`, `unset_states`, `push_states`, `pop_states`: the body of the loop
over `_parametric_object_iteration(run_params)` is translated statement by statement into a `do` block of the
monad `M` below.  This file is the *meaning of the atoms* of that translation (hand written, no Mathlib): what
a read of the mutable dictionary `state_params`, a store into it, a backend call, the nested
`_state_check_chain` call … are, in terms of the definitions of `I2N/Model/Policy.lean`.  The policy logic (the
guards, the `if/elif` chains over the mode letters, the order of the look-ups, the defaults) is NOT here: it is
in the generated file and `Props/C12.lean` proves it equal to the hand model.
-/
namespace I2N.PolicyM
open I2N.Policy I2N.Extracted.Policy

/-- what one iteration of the loops of `states/setup.py` can read and change: the dictionary the generator
yielded (`state_params`, mutated in place by the code), its copy `root_params` (`check_states` only) and the
backend world (store + log of backend calls) -/
structure PS where
  sp : Params
  rp : Params := []
  st : St

/-- a Python statement sequence: may raise (the state reached so far is kept: the backend calls made before
the `raise` have happened) -/
def M (α : Type) : Type := PS → Except Err α × PS

def M.bindF {α β : Type} (r : Except Err α × PS) (f : α → M β) : Except Err β × PS :=
  match r with
  | (.ok a, s') => f a s'
  | (.error e, s') => (.error e, s')

instance : Monad M where
  pure a := fun s => (.ok a, s)
  bind x f := fun s => M.bindF (x s) f

instance : MonadExceptOf Err M where
  throw e := fun s => (.error e, s)
  tryCatch x h := fun s =>
    match x s with
    | (.error e, s') => h e s'
    | r => r

def M.run {α : Type} (x : M α) (s : PS) : Except Err α × PS := x s

/-- what the hand model returns: the result and the backend world (the dictionaries are local to the iteration) -/
def outOf {α : Type} (r : Except Err α × PS) : Except Err α × St := (r.1, r.2.st)

theorem outOf_mk {α : Type} (r : Except Err α) (s : PS) : outOf (r, s) = (r, s.st) := rfl
theorem outOf_ite {α : Type} (c : Prop) [Decidable c] (a b : Except Err α × PS) :
    outOf (if c then a else b) = if c then outOf a else outOf b := by split <;> rfl

@[simp] theorem M.bindF_ok {α β : Type} (a : α) (s : PS) (f : α → M β) :
    M.bindF (.ok a, s) f = f a s := rfl
@[simp] theorem M.bindF_error {α β : Type} (e : Err) (s : PS) (f : α → M β) :
    M.bindF (.error e, s) f = (.error e, s) := rfl
theorem M.pure_ap {α : Type} (a : α) (s : PS) : (pure a : M α) s = (.ok a, s) := rfl
theorem M.bind_ap {α β : Type} (x : M α) (f : α → M β) (s : PS) : (x >>= f) s = M.bindF (x s) f := rfl
theorem M.throw_ap {α : Type} (e : Err) (s : PS) : (throw e : M α) s = (.error e, s) := rfl
theorem M.ite_ap {α : Type} (c : Prop) [Decidable c] (x y : M α) (s : PS) :
    (if c then x else y) s = if c then x s else y s := by split <;> rfl

/-! ### reads and stores of `state_params` / `root_params` -/

/-- an expression that only reads `state_params` -/
def rd {α : Type} (f : Params → α) : M α := fun s => (.ok (f s.sp), s)
/-- `state_params[k] = v` -/
def setP (k v : String) : M Unit := fun s => (.ok (), { s with sp := s.sp.set k v })
/-- `root_params = state_params.copy()` -/
def copyRootM : M Unit := fun s => (.ok (), { s with rp := s.sp })
/-- `root_params[k] = v` -/
def setRP (k v : String) : M Unit := fun s => (.ok (), { s with rp := s.rp.set k v })
/-- `state_params.get_boolean(k, False)` -/
def getBoolM (k : String) : M Bool := fun s => (boolParam (s.sp.get? k), s)
/-- `state_params.get(k)` used as a truth value -/
def truthyP (k : String) (sp : Params) : Bool := (sp.truthy k).isSome
/-- `state_params[k][i]`: a one character string, IndexError when the value is too short -/
def letterM (k : String) (i : Nat) : M String := fun s =>
  match (s.sp.getD k "").toList[i]? with
  | some c => (.ok (String.ofList [c]), s)
  | none => (.error .indexError, s)
/-- Python `s.split("c")` on the model's splitter -/
def pySplitChar (c : Char) (s : String) : List String := splitCharAux c s.toList []

/-! ### look-ups -/

/-- `state_backend = BACKENDS[state_params["states"]]` -/
def backendM (B : Backends) : M (String × Bool) := fun s => (backendOf B s.sp, s)
/-- `vm = env.get_vm(state_params["vms"]) if env is not None else None` with the harness' stub env (never `None`):
only the dictionary read can fail -/
def vmM : M Unit := fun s =>
  match s.sp.get? "vms" with
  | none => (.error .paramNotFound, s)
  | some _ => (.ok (), s)

/-! ### backend calls (`state_backend.<op>(state_params, state_object)`) -/

def onSt (f : Params → St → St) : M Unit := fun s => (.ok (), { s with st := f s.sp s.st })
def bGetM (b : String × Bool) : M Unit := onSt (bGet b.1)
def bSetM (b : String × Bool) : M Unit := onSt (bSet b.1)
def bUnsetM (b : String × Bool) : M Unit := onSt (bUnset b.1)
def bGetRootM (b : String × Bool) : M Unit := onSt (bGetRoot b.1)
def bSetRootM (b : String × Bool) : M Unit := onSt (bSetRoot b.1)
def bUnsetRootM (b : String × Bool) : M Unit := onSt (bUnsetRoot b.1)
def bCheckRootM (b : String × Bool) : M Bool := fun s =>
  (.ok (bCheckRoot b.1 s.sp s.st).1, { s with st := (bCheckRoot b.1 s.sp s.st).2 })
def bShowM (b : String × Bool) : M (List String) := fun s =>
  (.ok (bShow b.1 s.sp s.st).1, { s with st := (bShow b.1 s.sp s.st).2 })
/-- the same on `root_params` (`check_states`) -/
def onRSt (f : Params → St → St) : M Unit := fun s => (.ok (), { s with st := f s.rp s.st })
def bGetRootRM (b : String × Bool) : M Unit := onRSt (bGetRoot b.1)
def bSetRootRM (b : String × Bool) : M Unit := onRSt (bSetRoot b.1)
def bUnsetRootRM (b : String × Bool) : M Unit := onRSt (bUnsetRoot b.1)
/-- `vm.destroy(gracefully=root_params.get_dict("check_opts").get("soft_boot", "yes") == "yes")` -/
def destroyRM : M Unit := onRSt (fun rp => bDestroy rp (softBoot rp))

/-! ### the nested calls -/

/-- "restrict inner call parametric object types and names" with the type and the name the caller passes -/
def restrictWith (ty name : String) (sp : Params) : Params :=
  let tys := splitSlash ty
  let ns := splitSlash name
  ((tys.zip ns).foldl (fun acc tn => acc.set tn.1 tn.2) sp).set "states_chain" (tys.getLast?.getD "")

/-- the parameter rewriting of `_state_check_chain` in front of the restriction -/
def midP (d : Do) (sp : Params) : Params :=
  let sp := sp.set "check_state" (sp.getD d.stateKey "")
  let sp := match sp.truthy d.locKey with
    | some l => sp.set "show_location" l
    | none => sp
  if d = .set then (sp.set "check_opts" "soft_boot=yes").set "soft_boot" "yes"
  else (sp.set "check_opts" "soft_boot=no").set "soft_boot" "no"

/-- the parameter rewriting of `_state_check_chain(do, env, params_obj_type, params_obj_name, state_params)` -/
def chainParamsWith (d : Do) (ty name : String) (sp : Params) : Params :=
  restrictWith ty name (midP d sp)

/-- `_state_check_chain(do, env, ty, name, state_params)`: rewrites `state_params` in place, then the nested
`check_states(state_params, env)` (which works on copies) -/
def chainM (B : Backends) (d : Do) (ty name : String) : M Bool := fun s =>
  let cp := chainParamsWith d ty name s.sp
  ((checkStates B cp s.st).1, { s with sp := cp, st := (checkStates B cp s.st).2 })

/-- `check_states(state_params, env)` as `_state_check_chain` calls it (the callee iterates over copies: the caller's
dictionary is not changed) -/
def checkStatesM (B : Backends) : M Bool := fun s =>
  ((checkStates B s.sp s.st).1, { s with st := (checkStates B s.sp s.st).2 })

/-- `get_states(state_params, env)` … called by push / pop (the callee iterates over copies) -/
def doStatesM (B : Backends) (d : Do) : M Unit := fun s =>
  ((doStates B d s.sp s.st).1, { s with st := (doStates B d s.sp s.st).2 })

/-- `for composite_type, composite_name in zip(composite_types, composite_names):
      state_params[composite_type] = composite_name` -/
def zipSetM (tys ns : List String) : M Unit := fun s =>
  (.ok (), { s with sp := (tys.zip ns).foldl (fun acc tn => acc.set tn.1 tn.2) s.sp })

end I2N.PolicyM
