import I2N.Lemmas.TravGlobalN
/-!
Termination ACROSS suspensions for ANY number of workers under a FAIR scheduler (property C02).

`Lemmas/TravGlobalN.lean` shows that the number of *productive* steps of a run is bounded by the static graph
(`productive_le`) and that a step which ends in the back-off sleep needs another worker that is inside a test or dead
(`resume_quiet`).  Here the two are composed:

* `window_productive`: a stretch of consecutive steps in which every worker that is not over is resumed at least once, taken
  from a state where nobody is dead and somebody is not over, contains a productive step.  (If some worker is inside a
  test, its first step of the stretch is productive; otherwise the steps of finished workers change nothing and the first
  step of a worker that is not over finds no `started` mark, hence does not end asleep.)
* `fair_productive`: a run that is fair with window `K` (`FairW`: every `K` consecutive steps resume every worker that is not
  over) and ends in a state where somebody is not over and nobody is dead has at least `⌊length / K⌋` productive steps.
* `fair_run_over`: hence after `(24·resultBound g + |workers| + 1)·K` steps everybody is done, or somebody is dead.
* `Lively`/`lively_run_over`: the composition, for any run in which every `K` consecutive steps that end alive contain a
  productive step.
* the same with a virtual clock instead of windows (`Timed`, `timed_lively`, `timed_run_over`): at most
  `|workers|·(T/q + 1)` consecutive back-off steps.
* `resume_sleep`: a step that ends in the back-off sleep announces a sleep of at least 0.1 s as its last event.

Everything lives in the namespace `I2N.Trav.Fair`.
-/
namespace I2N.Trav.Fair
open I2N.Trav I2N.Trav.Global I2N.Trav.GlobalN

/-! ## runs whose steps are admissible -/

/-- every step of the run is a step of a real worker with `fuel ≥ bound g`, and raises no `max_concurrent_tries` -/
def RunOK (g : Graph) : State → List StepN → Prop
  | _, [] => True
  | s, a :: r =>
    (a.1 < g.workers.length ∧ Term.bound g ≤ a.2.2 ∧ ∀ i, ((stepN g s a).nd i).bump = (s.nd i).bump) ∧
      RunOK g (stepN g s a) r

/-- no step of the run raises a `max_concurrent_tries` (weaker than `Patient`, and observable) -/
def BumpFree (g : Graph) : State → List StepN → Prop
  | _, [] => True
  | s, a :: r => (∀ i, ((stepN g s a).nd i).bump = (s.nd i).bump) ∧ BumpFree g (stepN g s a) r

theorem bumpFree_of_patient (g : Graph) (steps : List StepN) (s : State) (h : Patient g s steps) : BumpFree g s steps := by
  induction steps generalizing s with
  | nil => trivial
  | cons a r ih => exact ⟨resume_bump_eq g s a.1 a.2.1 a.2.2 h.1, ih _ h.2⟩

theorem runOK_of (g : Graph) (steps : List StepN) (s : State) (hreal : ∀ x ∈ steps, x.1 < g.workers.length)
    (hfuel : ∀ x ∈ steps, Term.bound g ≤ x.2.2) (hb : BumpFree g s steps) : RunOK g s steps := by
  induction steps generalizing s with
  | nil => trivial
  | cons a r ih =>
    exact ⟨⟨hreal a List.mem_cons_self, hfuel a List.mem_cons_self, hb.1⟩,
      ih _ (fun x hx => hreal x (List.mem_cons_of_mem _ hx)) (fun x hx => hfuel x (List.mem_cons_of_mem _ hx)) hb.2⟩

theorem runStepsN_append (g : Graph) (s : State) (a b : List StepN) :
    runStepsN g s (a ++ b) = runStepsN g (runStepsN g s a) b := by
  unfold runStepsN; rw [List.foldl_append]

theorem runOK_take (g : Graph) (k : Nat) (steps : List StepN) (s : State) (h : RunOK g s steps) :
    RunOK g s (steps.take k) := by
  induction k generalizing s steps with
  | zero => rw [List.take_zero]; trivial
  | succ k ih =>
    cases steps with
    | nil => trivial
    | cons a r => rw [List.take_succ_cons]; exact ⟨h.1, ih r _ h.2⟩

theorem runOK_drop (g : Graph) (k : Nat) (steps : List StepN) (s : State) (h : RunOK g s steps) :
    RunOK g (runStepsN g s (steps.take k)) (steps.drop k) := by
  induction k generalizing s steps with
  | zero => rw [List.take_zero, List.drop_zero]; exact h
  | succ k ih =>
    cases steps with
    | nil => trivial
    | cons a r => rw [List.take_succ_cons, List.drop_succ_cons, runStepsN_cons]; exact ih r _ h.2

/-- the invariant of `TravGlobalN` is kept along admissible runs -/
theorem ginvN_run {g : Graph} {ncls : Nat} (st : StaticN g ncls) {store : List (String × List (String × String))}
    (steps : List StepN) (s : State) (h : GInvN g ncls store s) (ok : RunOK g s steps) :
    GInvN g ncls store (runStepsN g s steps) := by
  induction steps generalizing s with
  | nil => exact h
  | cons a r ih =>
    obtain ⟨⟨hw, hf, hb⟩, ok'⟩ := ok
    rw [runStepsN_cons]
    exact ih _ (ginvN_step st h a.1 hw a.2.1 a.2.2 (Nat.lt_of_lt_of_le (bound_pos g) hf) hb) ok'

theorem ginvN_stepN {g : Graph} {ncls : Nat} (st : StaticN g ncls) {store : List (String × List (String × String))}
    {s : State} (h : GInvN g ncls store s) (a : StepN) (r : List StepN) (ok : RunOK g s (a :: r)) :
    GInvN g ncls store (stepN g s a) :=
  ginvN_step st h a.1 ok.1.1 a.2.1 a.2.2 (Nat.lt_of_lt_of_le (bound_pos g) ok.1.2.1) ok.1.2.2

/-! ## counting productive steps -/

theorem productiveSteps_cons (g : Graph) (s : State) (a : StepN) (r : List StepN) :
    productiveSteps g s (a :: r) =
      (if productive (s.wd a.1).pc ((stepN g s a).wd a.1).pc then 1 else 0) + productiveSteps g (stepN g s a) r := rfl

theorem productiveSteps_append (g : Graph) (a b : List StepN) (s : State) :
    productiveSteps g s (a ++ b) = productiveSteps g s a + productiveSteps g (runStepsN g s a) b := by
  induction a generalizing s with
  | nil => simp [productiveSteps, runStepsN]
  | cons x r ih =>
    rw [List.cons_append, productiveSteps_cons, productiveSteps_cons, runStepsN_cons, ih]
    omega

/-- the counter of `TravGlobalN` grows by at least the number of productive steps along an admissible run -/
theorem run_cnt {g : Graph} {ncls : Nat} (st : StaticN g ncls) (hnr : noRootsB g = true)
    {store : List (String × List (String × String))} (steps : List StepN) (s : State) (h : GInvN g ncls store s)
    (ok : RunOK g s steps) : cntN g s + productiveSteps g s steps ≤ cntN g (runStepsN g s steps) := by
  induction steps generalizing s with
  | nil => exact Nat.le_refl _
  | cons a r ih =>
    have c1 := step_cntN st hnr h a.1 ok.1.1 a.2.1 a.2.2 ok.1.2.1
    have c2 := ih _ (ginvN_stepN st h a r ok) ok.2
    rw [runStepsN_cons, productiveSteps_cons]
    unfold stepN at c2 ⊢
    omega

/-- the number of productive steps of an admissible run from the initial state is at most
`24·resultBound g + |workers|` -/
theorem productive_le_run {g : Graph} {ncls : Nat} (st : StaticN g ncls) (hnr : noRootsB g = true)
    (hcl : classesOKB g = true) (store : List (String × List (String × String))) (steps : List StepN)
    (ok : RunOK g (initState g ncls store []) steps) :
    productiveSteps g (initState g ncls store []) steps ≤ 24 * resultBound g + g.workers.length := by
  have c := run_cnt st hnr steps _ (ginvN_init g ncls store) ok
  have y := ginvN_run st steps _ (ginvN_init g ncls store) ok
  have h1 := total_le_resultBoundN st.wf hcl y.reachR y.noBump
  have h2 := qsum_le (g := g) y.wait
  have h3 : 12 * g.workers.length ≤ qsum g (initState g ncls store []) := by
    have := sum_map_const_ge (List.range g.workers.length) (fun v => q ((initState g ncls store []).wd v).pc) 12
      (fun v _ => by rw [init_pc]; exact Nat.le_refl _)
    rwa [List.length_range] at this
  unfold cntN at c
  omega

/-! ## what the steps of the others do to a worker -/

/-- a step of another worker leaves the record of `v` alone -/
theorem stepN_other {g : Graph} {ncls : Nat} (st : StaticN g ncls) {store : List (String × List (String × String))}
    {s : State} (h : GInvN g ncls store s) (a : StepN) (r : List StepN) (ok : RunOK g s (a :: r)) (v : Nat) (hv : v ≠ a.1) :
    (stepN g s a).wd v = s.wd v :=
  resume_others st h.reachF a.1 ok.1.1 a.2.1 a.2.2 (Nat.lt_of_lt_of_le (bound_pos g) ok.1.2.1) v hv

/-- a worker whose traversal is over keeps its record for ever -/
theorem over_run {g : Graph} {ncls : Nat} (st : StaticN g ncls) {store : List (String × List (String × String))}
    (steps : List StepN) (s : State) (h : GInvN g ncls store s) (ok : RunOK g s steps) (v : Nat)
    (hov : isOver (s.wd v).pc = true) : (runStepsN g s steps).wd v = s.wd v := by
  induction steps generalizing s with
  | nil => rfl
  | cons a r ih =>
    have e : (stepN g s a).wd v = s.wd v := by
      by_cases hv : v = a.1
      · subst hv
        unfold stepN
        rw [resume_overN g s a.1 a.2.1 a.2.2 hov]
      · exact stepN_other st h a r ok v hv
    rw [runStepsN_cons, ih _ (ginvN_stepN st h a r ok) ok.2 (by rw [e]; exact hov), e]

/-- somebody real is not over, and nobody real is dead -/
def Alive (g : Graph) (s : State) : Prop :=
  (∃ u, u < g.workers.length ∧ isOver (s.wd u).pc = false) ∧ (∀ v, v < g.workers.length → (s.wd v).pc ≠ .failed)

/-- if a run ends alive it started alive -/
theorem alive_of_run {g : Graph} {ncls : Nat} (st : StaticN g ncls) {store : List (String × List (String × String))}
    (steps : List StepN) (s : State) (h : GInvN g ncls store s) (ok : RunOK g s steps)
    (ha : Alive g (runStepsN g s steps)) : Alive g s := by
  obtain ⟨⟨u, hu, hno⟩, hnf⟩ := ha
  refine ⟨⟨u, hu, ?_⟩, fun v hv hf => ?_⟩
  · cases hov : isOver (s.wd u).pc with
    | false => rfl
    | true => rw [over_run st steps s h ok u hov, hov] at hno; cases hno
  · have hov : isOver (s.wd v).pc = true := by rw [hf]; rfl
    exact hnf v hv (by rw [over_run st steps s h ok v hov]; exact hf)

/-! ## a window that resumes everybody contains a productive step -/

theorem productive_of_isTest {pc pc' : Pc} (h : pc.isTest = true) : productive pc pc' = true := by
  cases pc <;> first | rfl | cases h

theorem isOver_of_isTest {pc : Pc} (h : pc.isTest = true) : isOver pc = false := by
  cases pc <;> first | rfl | cases h

/-- a worker that is inside a test and is resumed in the run makes a productive step -/
theorem test_worker_productive {g : Graph} {ncls : Nat} (st : StaticN g ncls)
    {store : List (String × List (String × String))} (steps : List StepN) (s : State) (h : GInvN g ncls store s)
    (ok : RunOK g s steps) (v : Nat) (ht : (s.wd v).pc.isTest = true) (hin : v ∈ steps.map (·.1)) :
    1 ≤ productiveSteps g s steps := by
  induction steps generalizing s with
  | nil => cases hin
  | cons a r ih =>
    rw [productiveSteps_cons]
    by_cases hv : v = a.1
    · subst hv
      rw [productive_of_isTest ht]
      simp
    · have e := stepN_other st h a r ok v hv
      have hin' : v ∈ r.map (·.1) := by
        rw [List.map_cons, List.mem_cons] at hin
        rcases hin with hin | hin
        · exact absurd hin hv
        · exact hin
      have := ih _ (ginvN_stepN st h a r ok) ok.2 (by rw [e]; exact ht) hin'
      omega

/-- **a window that resumes every worker which is not over contains a productive step**, provided nobody is dead and
somebody is not over at its beginning -/
theorem window_productive {g : Graph} {ncls : Nat} (st : StaticN g ncls)
    {store : List (String × List (String × String))} (s : State) (h : GInvN g ncls store s) (win : List StepN)
    (ok : RunOK g s win)
    (hcov : ∀ v, v < g.workers.length → isOver (s.wd v).pc = false → v ∈ win.map (·.1))
    (ha : Alive g s) : 1 ≤ productiveSteps g s win := by
  induction win with
  | nil =>
    obtain ⟨⟨u, hu, hno⟩, _⟩ := ha
    cases hcov u hu hno
  | cons a r ih =>
    by_cases hov : isOver (s.wd a.1).pc = true
    · -- a step of a finished worker changes nothing
      have e : stepN g s a = s := resume_overN g s a.1 a.2.1 a.2.2 hov
      have ok' : RunOK g s r := by have := ok.2; rwa [e] at this
      have := ih ok' (fun v hv hno => by
        have hin := hcov v hv hno
        rw [List.map_cons, List.mem_cons] at hin
        rcases hin with hin | hin
        · rw [hin, hov] at hno; cases hno
        · exact hin)
      rw [productiveSteps_cons, e]
      omega
    · have hov' : isOver (s.wd a.1).pc = false := by simpa using hov
      by_cases ht : ∃ v, v < g.workers.length ∧ (s.wd v).pc.isTest = true
      · obtain ⟨v, hv, htv⟩ := ht
        exact test_worker_productive st (a :: r) s h ok v htv (hcov v hv (isOver_of_isTest htv))
      · -- nobody is inside a test, nobody is dead: the step of `a.1` finds no mark
        have hsym := edgeSymB_sound st.sym
        have hp := h.reachF.pinv hsym
        have hq : Quiet a.1 s := by
          intro v _
          by_cases hvl : v < g.workers.length
          · refine ⟨?_, ha.2 v hvl⟩
            cases hpc : (s.wd v).pc with
            | test n ph dir uid tag wait => exact absurd ⟨v, hvl, by rw [hpc]; rfl⟩ ht
            | _ => rfl
          · rw [wd_default_of_ge s v (by rw [hp.wlen]; exact hvl)]
            exact ⟨rfl, by simp⟩
        have hf0 : 0 < a.2.2 := Nat.lt_of_lt_of_le (bound_pos g) ok.1.2.1
        obtain ⟨x1, _⟩ := resume_quiet g hsym s a.1 a.2.1 a.2.2 hf0 ok.1.1 hp hq
        rw [productiveSteps_cons]
        have : productive (s.wd a.1).pc ((stepN g s a).wd a.1).pc = true := productive_of_not_bounce hov' x1
        rw [this]
        simp

/-! ## lively runs: every stretch of `K` steps that ends alive contains a productive step -/

/-- every `K` consecutive steps of the run that end in a state where somebody is not over and nobody is dead contain a
productive step (at most `K - 1` consecutive back-off steps) -/
def Lively (g : Graph) (K : Nat) : State → List StepN → Prop
  | _, [] => True
  | s, a :: r =>
    (K ≤ (a :: r).length → Alive g (runStepsN g s ((a :: r).take K)) → 1 ≤ productiveSteps g s ((a :: r).take K)) ∧
      Lively g K (stepN g s a) r

theorem lively_drop (g : Graph) (K k : Nat) (steps : List StepN) (s : State) (h : Lively g K s steps) :
    Lively g K (runStepsN g s (steps.take k)) (steps.drop k) := by
  induction k generalizing s steps with
  | zero => rw [List.take_zero, List.drop_zero]; exact h
  | succ k ih =>
    cases steps with
    | nil => trivial
    | cons a r => rw [List.take_succ_cons, List.drop_succ_cons, runStepsN_cons]; exact ih r _ h.2

/-- a lively run that ends alive has made at least `j` productive steps if it has `j·K` steps -/
theorem lively_productive {g : Graph} {ncls : Nat} (st : StaticN g ncls) {store : List (String × List (String × String))}
    (K : Nat) (hK : 0 < K) (j : Nat) (steps : List StepN) (s : State) (h : GInvN g ncls store s) (ok : RunOK g s steps)
    (hl : Lively g K s steps) (hlen : j * K ≤ steps.length) (ha : Alive g (runStepsN g s steps)) :
    j ≤ productiveSteps g s steps := by
  induction j generalizing s steps with
  | zero => exact Nat.zero_le _
  | succ j ih =>
    have hKl : K ≤ steps.length := by
      have : K ≤ (j + 1) * K := Nat.le_mul_of_pos_left K (Nat.succ_pos j)
      omega
    have hsplit : steps.take K ++ steps.drop K = steps := List.take_append_drop K steps
    have hfin : runStepsN g (runStepsN g s (steps.take K)) (steps.drop K) = runStepsN g s steps := by
      rw [← runStepsN_append, hsplit]
    have h1 := ginvN_run st _ s h (runOK_take g K steps s ok)
    have ok1 := runOK_drop g K steps s ok
    have ha1 : Alive g (runStepsN g s (steps.take K)) :=
      alive_of_run st (steps.drop K) _ h1 ok1 (by rw [hfin]; exact ha)
    have w : 1 ≤ productiveSteps g s (steps.take K) := by
      cases steps with
      | nil => simp at hKl; omega
      | cons a r => exact hl.1 hKl ha1
    have hl' : j * K ≤ (steps.drop K).length := by
      rw [List.length_drop]
      have : (j + 1) * K = j * K + K := Nat.succ_mul j K
      omega
    have r := ih (steps.drop K) (runStepsN g s (steps.take K)) h1 ok1 (lively_drop g K K steps s hl) hl'
      (by rw [hfin]; exact ha)
    have := productiveSteps_append g (steps.take K) (steps.drop K) s
    rw [hsplit] at this
    omega

/-- **a lively run is over after `(24·resultBound g + |workers| + 1)·K` steps**: it does not end alive -/
theorem lively_run_over {g : Graph} {ncls : Nat} (st : StaticN g ncls) (hnr : noRootsB g = true)
    (hcl : classesOKB g = true) (store : List (String × List (String × String))) (K : Nat) (hK : 0 < K)
    (steps : List StepN) (ok : RunOK g (initState g ncls store []) steps)
    (hl : Lively g K (initState g ncls store []) steps)
    (hlen : (24 * resultBound g + g.workers.length + 1) * K ≤ steps.length) :
    ¬ Alive g (runStepsN g (initState g ncls store []) steps) := by
  intro ha
  have h1 := lively_productive st K hK _ steps _ (ginvN_init g ncls store) ok hl hlen ha
  have h2 := productive_le_run st hnr hcl store steps ok
  omega

/-! ## fair runs (windows) -/

/-- **fairness with window `K`**: every `K` consecutive steps of the run resume every real worker whose traversal is not
over at the beginning of those steps (steps of finished workers are allowed and change nothing) -/
def FairW (g : Graph) (K : Nat) : State → List StepN → Prop
  | _, [] => True
  | s, a :: r =>
    (K ≤ (a :: r).length → ∀ v, v < g.workers.length → isOver (s.wd v).pc = false → v ∈ ((a :: r).take K).map (·.1)) ∧
      FairW g K (stepN g s a) r

/-- a fair run is lively -/
theorem fair_lively {g : Graph} {ncls : Nat} (st : StaticN g ncls) {store : List (String × List (String × String))}
    (K : Nat) (steps : List StepN) (s : State) (h : GInvN g ncls store s) (ok : RunOK g s steps)
    (hfair : FairW g K s steps) : Lively g K s steps := by
  induction steps generalizing s with
  | nil => trivial
  | cons a r ih =>
    refine ⟨fun hKl ha => ?_, ih _ (ginvN_stepN st h a r ok) ok.2 hfair.2⟩
    have okw := runOK_take g K (a :: r) s ok
    exact window_productive st s h _ okw (hfair.1 hKl) (alive_of_run st _ s h okw ha)

/-- **a fair run is over after `(24·resultBound g + |workers| + 1)·K` steps**: it does not end alive -/
theorem fair_run_over {g : Graph} {ncls : Nat} (st : StaticN g ncls) (hnr : noRootsB g = true) (hcl : classesOKB g = true)
    (store : List (String × List (String × String))) (K : Nat) (hK : 0 < K) (steps : List StepN)
    (ok : RunOK g (initState g ncls store []) steps) (hfair : FairW g K (initState g ncls store []) steps)
    (hlen : (24 * resultBound g + g.workers.length + 1) * K ≤ steps.length) :
    ¬ Alive g (runStepsN g (initState g ncls store []) steps) :=
  lively_run_over st hnr hcl store K hK steps ok
    (fair_lively st K steps _ (ginvN_init g ncls store) ok hfair) hlen

/-! ## decidable forms for concrete runs -/

/-- `FairW` is decidable -/
def decFairW (g : Graph) (K : Nat) : (s : State) → (steps : List StepN) → Decidable (FairW g K s steps)
  | _, [] => isTrue trivial
  | s, a :: r =>
    haveI := decFairW g K (stepN g s a) r
    (inferInstance : Decidable ((K ≤ (a :: r).length → ∀ v, v < g.workers.length → isOver (s.wd v).pc = false →
      v ∈ ((a :: r).take K).map (·.1)) ∧ FairW g K (stepN g s a) r))

instance (g : Graph) (K : Nat) (s : State) (steps : List StepN) : Decidable (FairW g K s steps) := decFairW g K s steps

/-- all `max_concurrent_tries` counters are untouched in every state of the run -/
def bumpFreeB (g : Graph) : State → List StepN → Bool
  | s, [] => s.nodes.all (fun d => d.bump == 0)
  | s, a :: r => s.nodes.all (fun d => d.bump == 0) && bumpFreeB g (stepN g s a) r

theorem nd_bump_zero (s : State) (h : s.nodes.all (fun d => d.bump == 0) = true) (i : Nat) : (s.nd i).bump = 0 := by
  unfold State.nd
  rw [List.getD_eq_getElem?_getD]
  cases hi : s.nodes[i]? with
  | none => rfl
  | some d =>
    rw [List.all_eq_true] at h
    simpa using h d (List.mem_of_getElem? hi)

theorem bumpFreeB_head (g : Graph) (s : State) (steps : List StepN) (h : bumpFreeB g s steps = true) :
    s.nodes.all (fun d => d.bump == 0) = true := by
  cases steps with
  | nil => exact h
  | cons a r => unfold bumpFreeB at h; rw [Bool.and_eq_true] at h; exact h.1

theorem bumpFree_of_B (g : Graph) (steps : List StepN) (s : State) (h : bumpFreeB g s steps = true) : BumpFree g s steps := by
  induction steps generalizing s with
  | nil => trivial
  | cons a r ih =>
    have h0 := bumpFreeB_head g s _ h
    unfold bumpFreeB at h
    rw [Bool.and_eq_true] at h
    refine ⟨fun i => ?_, ih _ h.2⟩
    rw [nd_bump_zero s h0 i, nd_bump_zero _ (bumpFreeB_head g _ r h.2) i]

theorem runOK_append (g : Graph) (a b : List StepN) (s : State) (h : RunOK g s (a ++ b)) :
    RunOK g s a ∧ RunOK g (runStepsN g s a) b := by
  induction a generalizing s with
  | nil => exact ⟨trivial, h⟩
  | cons x r ih =>
    obtain ⟨y1, y2⟩ := ih _ h.2
    exact ⟨⟨h.1, y1⟩, y2⟩

/-- not alive: everybody is done, or somebody is dead -/
theorem not_alive {g : Graph} {s : State} (h : ¬ Alive g s) :
    (∀ v, v < g.workers.length → (s.wd v).pc = .done) ∨ (∃ v, v < g.workers.length ∧ (s.wd v).pc = .failed) := by
  by_cases hf : ∃ v, v < g.workers.length ∧ (s.wd v).pc = .failed
  · exact Or.inr hf
  · left
    intro v hv
    have hnf : ∀ u, u < g.workers.length → (s.wd u).pc ≠ .failed := fun u hu e => hf ⟨u, hu, e⟩
    cases hov : isOver (s.wd v).pc with
    | false => exact absurd ⟨⟨v, hv, hov⟩, hnf⟩ h
    | true =>
      cases hpc : (s.wd v).pc with
      | done => rfl
      | failed => exact absurd hpc (hnf v hv)
      | loop => rw [hpc] at hov; cases hov
      | bounce => rw [hpc] at hov; cases hov
      | test n ph dir uid tag wait => rw [hpc] at hov; cases hov

/-! ## runs with a virtual clock

The scheduler of the code is the `asyncio` event loop: a suspended worker is resumed when its sleep (back-off sleep, test
execution, result-wait sleep) has elapsed.  `Timed g q T wake s steps`: `wake v` is the virtual time at which worker `v`
is due; each entry of the run carries the duration `d` of the suspension the step ENDS in; the worker that is resumed is
not over and is due first among the workers that are not over; a step that ends in the back-off sleep sleeps at least `q`;
a step that ends inside a test (start of a test, tick of the result wait) is resumed at most `T` later. -/

abbrev TStepN := StepN × Nat

def isBounce : Pc → Bool
  | .bounce => true
  | _ => false

/-- the due times after worker `w` went to sleep for `d` -/
def wakeAfter (wake : Nat → Nat) (w d : Nat) : Nat → Nat := fun v => if v = w then wake w + d else wake v

/-- **a run with a virtual clock** (event-driven scheduler) -/
def Timed (g : Graph) (q T : Nat) : (Nat → Nat) → State → List TStepN → Prop
  | _, _, [] => True
  | wake, s, x :: r =>
    (isOver (s.wd x.1.1).pc = false ∧
      (∀ v, v < g.workers.length → isOver (s.wd v).pc = false → wake x.1.1 ≤ wake v) ∧
      (isBounce ((stepN g s x.1).wd x.1.1).pc = true → q ≤ x.2) ∧
      (((stepN g s x.1).wd x.1.1).pc.isTest = true → x.2 ≤ T)) ∧
    Timed g q T (wakeAfter wake x.1.1 x.2) (stepN g s x.1) r

def decTimed (g : Graph) (q T : Nat) : (wake : Nat → Nat) → (s : State) → (steps : List TStepN) →
    Decidable (Timed g q T wake s steps)
  | _, _, [] => isTrue trivial
  | wake, s, x :: r =>
    haveI := decTimed g q T (wakeAfter wake x.1.1 x.2) (stepN g s x.1) r
    (inferInstance : Decidable ((isOver (s.wd x.1.1).pc = false ∧
      (∀ v, v < g.workers.length → isOver (s.wd v).pc = false → wake x.1.1 ≤ wake v) ∧
      (isBounce ((stepN g s x.1).wd x.1.1).pc = true → q ≤ x.2) ∧
      (((stepN g s x.1).wd x.1.1).pc.isTest = true → x.2 ≤ T)) ∧
      Timed g q T (wakeAfter wake x.1.1 x.2) (stepN g s x.1) r))

instance (g : Graph) (q T : Nat) (wake : Nat → Nat) (s : State) (steps : List TStepN) :
    Decidable (Timed g q T wake s steps) := decTimed g q T wake s steps

theorem timed_take (g : Graph) (q T k : Nat) (steps : List TStepN) (wake : Nat → Nat) (s : State)
    (h : Timed g q T wake s steps) : Timed g q T wake s (steps.take k) := by
  induction k generalizing wake s steps with
  | zero => rw [List.take_zero]; trivial
  | succ k ih =>
    cases steps with
    | nil => trivial
    | cons x r => rw [List.take_succ_cons]; exact ⟨h.1, ih r _ _ h.2⟩

/-- every worker inside a test is due at most `T` after every worker that is not over -/
def Due (g : Graph) (T : Nat) (wake : Nat → Nat) (s : State) : Prop :=
  ∀ v u, v < g.workers.length → u < g.workers.length → (s.wd v).pc.isTest = true → isOver (s.wd u).pc = false →
    wake v ≤ wake u + T

theorem due_step {g : Graph} {ncls : Nat} (st : StaticN g ncls) {store : List (String × List (String × String))}
    (q T : Nat) (wake : Nat → Nat) {s : State} (h : GInvN g ncls store s) (x : TStepN) (r : List TStepN)
    (ok : RunOK g s ((x :: r).map (·.1))) (ht : Timed g q T wake s (x :: r)) (hd : Due g T wake s) :
    Due g T (wakeAfter wake x.1.1 x.2) (stepN g s x.1) := by
  obtain ⟨⟨hno, hmin, _, hT⟩, _⟩ := ht
  rw [List.map_cons] at ok
  intro v u hv hu htv hnu
  unfold wakeAfter
  by_cases e1 : v = x.1.1
  · subst e1
    simp only [if_true]
    have hd' := hT htv
    by_cases e2 : u = x.1.1
    · rw [if_pos e2]; omega
    · rw [if_neg e2]
      rw [stepN_other st h x.1 _ ok u e2] at hnu
      have := hmin u hu hnu
      omega
  · rw [if_neg e1]
    rw [stepN_other st h x.1 _ ok v e1] at htv
    by_cases e2 : u = x.1.1
    · rw [if_pos e2]
      have := hd v x.1.1 hv ok.1.1 htv hno
      omega
    · rw [if_neg e2]
      rw [stepN_other st h x.1 _ ok u e2] at hnu
      exact hd v u hv hu htv hnu

/-- how many more back-off sleeps of at least `q` worker `w` can take before the worker `v` is due first -/
def cap (q : Nat) (wake : Nat → Nat) (s : State) (v w : Nat) : Nat :=
  if isOver (s.wd w).pc then 0 else (wake v + q - wake w) / q

def phiT (g : Graph) (q : Nat) (wake : Nat → Nat) (s : State) (v : Nat) : Nat :=
  ((List.range g.workers.length).map (cap q wake s v)).sum

theorem sum_map_lt_of (l : List Nat) (hl : l.Nodup) (n : Nat) (hn : n ∈ l) (f f' : Nat → Nat) (h1 : f' n + 1 ≤ f n)
    (h2 : ∀ j ∈ l, j ≠ n → f' j ≤ f j) : (l.map f').sum + 1 ≤ (l.map f).sum := by
  induction l with
  | nil => cases hn
  | cons a r ih =>
    rw [List.nodup_cons] at hl
    simp only [List.map_cons, List.sum_cons]
    by_cases ha : a = n
    · subst ha
      have := sum_map_le r f' f (fun j hj => h2 j (List.mem_cons_of_mem _ hj) (fun e => hl.1 (e ▸ hj)))
      omega
    · have hn' : n ∈ r := by
        rcases List.mem_cons.mp hn with e | e
        · exact absurd e.symm ha
        · exact e
      have := ih hl.2 hn' (fun j hj => h2 j (List.mem_cons_of_mem _ hj))
      have := h2 a List.mem_cons_self ha
      omega

theorem cap_le {g : Graph} {q T : Nat} (hq : 0 < q) {wake : Nat → Nat} {s : State} (hd : Due g T wake s) (v w : Nat)
    (hv : v < g.workers.length) (hw : w < g.workers.length) (htv : (s.wd v).pc.isTest = true) :
    cap q wake s v w ≤ T / q + 1 := by
  unfold cap
  cases hov : isOver (s.wd w).pc with
  | true => simp
  | false =>
    simp only [Bool.false_eq_true, if_false]
    have := hd v w hv hw htv hov
    rw [← Nat.add_div_right T hq]
    exact Nat.div_le_div_right (by omega)

theorem phiT_le {g : Graph} {q T : Nat} (hq : 0 < q) {wake : Nat → Nat} {s : State} (hd : Due g T wake s) (v : Nat)
    (hv : v < g.workers.length) (htv : (s.wd v).pc.isTest = true) :
    phiT g q wake s v ≤ g.workers.length * (T / q + 1) := by
  have := sum_map_const_le (List.range g.workers.length) (cap q wake s v) (T / q + 1)
    (fun w hw => cap_le hq hd v w hv (List.mem_range.mp hw) htv)
  rw [List.length_range] at this
  unfold phiT
  rw [Nat.mul_comm]
  exact this

/-- **a stretch of back-off steps is at most as long as the sleeps that fit before a running test is due**: while worker
`v` is inside a test, every unproductive step is a back-off sleep of a worker that is due before `v`, and lowers `phiT` -/
theorem backoff_stretch_le {g : Graph} {ncls : Nat} (st : StaticN g ncls)
    {store : List (String × List (String × String))} (q T : Nat) (hq : 0 < q) (steps : List TStepN) (wake : Nat → Nat)
    (s : State) (h : GInvN g ncls store s) (ok : RunOK g s (steps.map (·.1))) (ht : Timed g q T wake s steps) (v : Nat)
    (hv : v < g.workers.length) (htv : (s.wd v).pc.isTest = true)
    (hun : productiveSteps g s (steps.map (·.1)) = 0) : steps.length ≤ phiT g q wake s v := by
  induction steps generalizing wake s with
  | nil => exact Nat.zero_le _
  | cons x r ih =>
    rw [List.map_cons] at ok hun
    rw [productiveSteps_cons] at hun
    obtain ⟨⟨hno, hmin, hB, _⟩, ht'⟩ := ht
    have hvw : v ≠ x.1.1 := by
      intro e
      subst e
      rw [productive_of_isTest htv] at hun
      simp at hun
    have hp : productive (s.wd x.1.1).pc ((stepN g s x.1).wd x.1.1).pc = false := by
      cases hpp : productive (s.wd x.1.1).pc ((stepN g s x.1).wd x.1.1).pc with
      | false => rfl
      | true => rw [hpp] at hun; simp at hun
    have hb : ((stepN g s x.1).wd x.1.1).pc = .bounce := by
      rcases unproductive_step g s x.1.1 x.1.2.1 x.1.2.2 hp with ⟨h1, _⟩ | ⟨_, h2⟩
      · rw [h1] at hno; cases hno
      · exact h2
    have hqd : q ≤ x.2 := hB (by rw [hb]; rfl)
    have ev := stepN_other st h x.1 _ ok v hvw
    have h1 := ginvN_stepN st h x.1 _ ok
    have r1 := ih _ _ h1 ok.2 ht' (by rw [ev]; exact htv) (by omega)
    have hdec : phiT g q (wakeAfter wake x.1.1 x.2) (stepN g s x.1) v + 1 ≤ phiT g q wake s v := by
      unfold phiT
      refine sum_map_lt_of _ List.nodup_range x.1.1 (List.mem_range.mpr ok.1.1) _ _ ?_ ?_
      · -- the summand of the sleeping worker
        have hle := hmin v hv (isOver_of_isTest htv)
        unfold cap
        rw [hno, hb]
        simp only [isOver, Bool.false_eq_true, if_false]
        unfold wakeAfter
        rw [if_neg hvw, if_pos rfl]
        have e : wake v + q - wake x.1.1 = (wake v - wake x.1.1) + q := by omega
        rw [e, Nat.add_div_right _ hq]
        have : (wake v + q - (wake x.1.1 + x.2)) / q ≤ (wake v - wake x.1.1) / q := Nat.div_le_div_right (by omega)
        omega
      · intro u _ hu
        unfold cap
        rw [stepN_other st h x.1 _ ok u hu]
        unfold wakeAfter
        rw [if_neg hvw, if_neg hu]
        exact Nat.le_refl _
    simp only [List.length_cons]
    omega

/-- a step of a worker that is not over, while nobody is inside a test and nobody is dead, is productive -/
theorem quiet_step_productive {g : Graph} {ncls : Nat} (st : StaticN g ncls)
    {store : List (String × List (String × String))} {s : State} (h : GInvN g ncls store s) (a : StepN) (r : List StepN)
    (ok : RunOK g s (a :: r)) (hno : isOver (s.wd a.1).pc = false)
    (hnt : ¬ ∃ v, v < g.workers.length ∧ (s.wd v).pc.isTest = true)
    (hnf : ∀ v, v < g.workers.length → (s.wd v).pc ≠ .failed) :
    productive (s.wd a.1).pc ((stepN g s a).wd a.1).pc = true := by
  have hsym := edgeSymB_sound st.sym
  have hp := h.reachF.pinv hsym
  have hq : Quiet a.1 s := by
    intro v _
    by_cases hvl : v < g.workers.length
    · refine ⟨?_, hnf v hvl⟩
      cases hpc : (s.wd v).pc with
      | test n ph dir uid tag wait => exact absurd ⟨v, hvl, by rw [hpc]; rfl⟩ hnt
      | _ => rfl
    · rw [wd_default_of_ge s v (by rw [hp.wlen]; exact hvl)]
      exact ⟨rfl, by simp⟩
  have hf0 : 0 < a.2.2 := Nat.lt_of_lt_of_le (bound_pos g) ok.1.2.1
  obtain ⟨x1, _⟩ := resume_quiet g hsym s a.1 a.2.1 a.2.2 hf0 ok.1.1 hp hq
  exact productive_of_not_bounce hno x1

/-- **at most `|workers|·(T/q + 1)` consecutive back-off steps**: a longer stretch of a timed run, taken from a state where
nobody is dead, contains a productive step -/
theorem timed_window_productive {g : Graph} {ncls : Nat} (st : StaticN g ncls)
    {store : List (String × List (String × String))} (q T : Nat) (hq : 0 < q) (win : List TStepN) (wake : Nat → Nat)
    (s : State) (h : GInvN g ncls store s) (ok : RunOK g s (win.map (·.1))) (ht : Timed g q T wake s win)
    (hd : Due g T wake s) (hnf : ∀ v, v < g.workers.length → (s.wd v).pc ≠ .failed)
    (hlen : g.workers.length * (T / q + 1) + 1 ≤ win.length) : 1 ≤ productiveSteps g s (win.map (·.1)) := by
  cases hz : productiveSteps g s (win.map (·.1)) with
  | succ k => omega
  | zero =>
    exfalso
    by_cases hnt : ∃ v, v < g.workers.length ∧ (s.wd v).pc.isTest = true
    · obtain ⟨v, hv, htv⟩ := hnt
      have a := backoff_stretch_le st q T hq win wake s h ok ht v hv htv hz
      have b := phiT_le hq hd v hv htv
      omega
    · cases win with
      | nil => simp at hlen
      | cons x r =>
        rw [List.map_cons] at ok hz
        rw [productiveSteps_cons, quiet_step_productive st h x.1 _ ok ht.1.1 hnt hnf] at hz
        simp at hz

/-- a timed run is lively with `K = |workers|·(T/q + 1) + 1` -/
theorem timed_lively {g : Graph} {ncls : Nat} (st : StaticN g ncls) {store : List (String × List (String × String))}
    (q T : Nat) (hq : 0 < q) (steps : List TStepN) (wake : Nat → Nat) (s : State) (h : GInvN g ncls store s)
    (ok : RunOK g s (steps.map (·.1))) (ht : Timed g q T wake s steps) (hd : Due g T wake s) :
    Lively g (g.workers.length * (T / q + 1) + 1) s (steps.map (·.1)) := by
  induction steps generalizing wake s with
  | nil => trivial
  | cons x r ih =>
    have hd' := due_step st q T wake h x r ok ht hd
    rw [List.map_cons] at ok ⊢
    refine ⟨fun hKl ha => ?_, ih _ _ (ginvN_stepN st h x.1 _ ok) ok.2 ht.2 hd'⟩
    rw [← List.map_cons (f := fun y : TStepN => y.1), ← List.map_take] at ha ⊢
    have okw : RunOK g s (((x :: r).take (g.workers.length * (T / q + 1) + 1)).map (·.1)) := by
      rw [List.map_take]; exact runOK_take g _ _ s ok
    have ha0 := alive_of_run st _ s h okw ha
    refine timed_window_productive st q T hq _ wake s h okw (timed_take g q T _ (x :: r) wake s ht) hd ha0.2 ?_
    rw [List.length_take]
    simp only [List.length_cons, List.length_map] at hKl ⊢
    omega

/-- **a timed run is over after `(24·resultBound g + |workers| + 1)·(|workers|·(T/q + 1) + 1)` steps** -/
theorem timed_run_over {g : Graph} {ncls : Nat} (st : StaticN g ncls) (hnr : noRootsB g = true) (hcl : classesOKB g = true)
    (store : List (String × List (String × String))) (q T : Nat) (hq : 0 < q) (wake : Nat → Nat) (steps : List TStepN)
    (ok : RunOK g (initState g ncls store []) (steps.map (·.1)))
    (ht : Timed g q T wake (initState g ncls store []) steps)
    (hlen : (24 * resultBound g + g.workers.length + 1) * (g.workers.length * (T / q + 1) + 1) ≤ steps.length) :
    ¬ Alive g (runStepsN g (initState g ncls store []) (steps.map (·.1))) := by
  have hd : Due g T wake (initState g ncls store []) := by
    intro v u _ _ htv _
    rw [init_pc] at htv; cases htv
  exact lively_run_over st hnr hcl store _ (Nat.succ_pos _) _ ok
    (timed_lively st q T hq steps wake _ (ginvN_init g ncls store) ok ht hd) (by rw [List.length_map]; exact hlen)

/-! ## the sleep of a back-off step: the model's own duration

A step that ends in the back-off sleep emits, as its LAST event, `Event.sleep wid k` with `k ≥ 10` hundredths of a second
(`round(max(timeout·max_tries/1000, 0.1), 2)` in the code): the hypothesis `q ≤ d` of `Timed` with `q = 10` is met when `d`
is the duration the model announces. -/

/-- an iteration that suspends in the back-off sleep emits exactly the sleep event, of at least 0.1 s -/
def SleepOK (wid : String) (w : Nat) (r : Step) : Prop :=
  isSuspend r.2.2 = true → (r.1.wd w).pc = .bounce → ∃ k, 10 ≤ k ∧ r.2.1 = [Event.sleep wid k]

theorem SleepOK.quiet (wid : String) (w : Nat) (s' : State) (e : List Event) (f : Flow) (h1 : isSuspend f = false) :
    SleepOK wid w (s', e, f) := fun hs => by rw [h1] at hs; cases hs

theorem iter_sleep (gv : Graph) (s : State) (w : Nat) (hw : w < s.workers.length) :
    SleepOK (gv.worker w).id w (iter gv s w) := by
  have htrav : ∀ next prev dir, SleepOK (gv.worker w).id w (traverseNode gv s w next prev dir) := by
    intro next prev dir hs hb
    obtain ⟨s1, ph, h1, h2⟩ := traverseNode_suspend gv s w _ prev dir hs
    rw [h1, startTest_pc gv s1 _ w ph dir (by rw [h2]; exact hw)] at hb
    cases hb
  unfold iter
  dsimp only
  split
  · split
    · exact SleepOK.quiet _ w _ _ _ rfl
    · exact SleepOK.quiet _ w _ _ _ rfl
  · cases hl : (s.wd w).path.getLast? with
    | none => exact SleepOK.quiet _ w _ _ _ rfl
    | some next =>
      dsimp only
      split
      · cases hp : pickChild gv s next w with
        | none => exact SleepOK.quiet _ w _ _ _ rfl
        | some r =>
          obtain ⟨c, s2⟩ := r
          exact SleepOK.quiet _ w _ _ _ rfl
      · split
        · -- the back-off branch
          intro _ _
          exact ⟨_, Nat.le_max_right _ _, rfl⟩
        · split
          · split
            · exact htrav _ _ .up
            · cases hp : pickParent gv s next w with
              | none => exact SleepOK.quiet _ w _ _ _ rfl
              | some r =>
                obtain ⟨c, s2⟩ := r
                exact SleepOK.quiet _ w _ _ _ rfl
          · split
            · split
              · cases hp : pickParent gv s next w with
                | none => exact SleepOK.quiet _ w _ _ _ rfl
                | some r =>
                  obtain ⟨c, s2⟩ := r
                  exact SleepOK.quiet _ w _ _ _ rfl
              · exact htrav _ _ .down
            · exact SleepOK.quiet _ w _ _ _ rfl

theorem iterL_sleep (g : Graph) (s : State) (w : Nat) (hw : w < s.workers.length) :
    SleepOK (g.worker w).id w (iterL g s w) := by
  unfold iterL
  split
  · rw [← vis_worker g s w]
    exact iter_sleep (vis g s) s w hw
  · dsimp only
    obtain ⟨_, h2, _, _⟩ := prepare_frame g s w
    rw [← vis_worker g (prepare g s w) w]
    exact iter_sleep (vis g (prepare g s w)) (prepare g s w) w (by rw [h2]; exact hw)

theorem iterL_workersLen (g : Graph) (hsym : EdgeSym g) (s : State) (w : Nat) :
    (iterL g s w).1.workers.length = s.workers.length := by
  obtain ⟨s1, hs1, _, hok⟩ := iterL_ok g hsym s w
  have h1 : s1.workers.length = s.workers.length := by
    rcases hs1 with h | h
    · rw [h]
    · rw [h]; exact (prepare_frame g s w).2.1
  rcases hok with ⟨he, _⟩ | ⟨_, _, _, he, _⟩
  · rw [he.workersLen, h1]
  · rw [he.workersLen, h1]

theorem getLast?_append_singleton (l : List Event) (x : Event) : (l ++ [x]).getLast? = some x := by simp

/-- the loop: if it ends in the back-off sleep, its last event is the sleep, of at least 0.1 s -/
theorem runLoop_sleep (g : Graph) (hsym : EdgeSym g) (w fuel : Nat) (s : State) (evs : List Event)
    (hw : w < s.workers.length) (hpc : fuel = 0 → (s.wd w).pc ≠ .bounce) :
    ((runLoop g w fuel s evs).1.wd w).pc = .bounce →
      ∃ k, 10 ≤ k ∧ (runLoop g w fuel s evs).2.getLast? = some (Event.sleep (g.worker w).id k) := by
  induction fuel generalizing s evs with
  | zero => intro hb; exact absurd hb (hpc rfl)
  | succ fuel ih =>
    unfold runLoop
    dsimp only
    have hwd := wd_setWd_eq s w (fun d => { d with pc := .loop }) hw
    have hw0 : w < (s.setWd w (fun d => { d with pc := .loop })).workers.length := by
      rw [workers_length_setWd]; exact hw
    have hlen := iterL_workersLen g hsym (s.setWd w (fun d => { d with pc := .loop })) w
    have hcp := iterL_contPc g hsym (s.setWd w (fun d => { d with pc := .loop })) w
    have hsl := iterL_sleep g (s.setWd w (fun d => { d with pc := .loop })) w hw0
    have hend := iterL_end g (s.setWd w (fun d => { d with pc := .loop })) w hw0
    split
    · next s1 e heq =>
      rw [heq] at hlen hcp
      refine ih s1 _ (by rw [hlen]; exact hw0) (fun _ => ?_)
      have := hcp rfl
      dsimp only at this
      rw [this, hwd]; simp
    · next s1 e heq =>
      rw [heq] at hsl
      intro hb
      obtain ⟨k, hk, he⟩ := hsl rfl hb
      dsimp only at he
      exact ⟨k, hk, by rw [he]; exact getLast?_append_singleton _ _⟩
    · next s1 e heq =>
      rw [heq] at hend
      intro hb
      have := hend.exit rfl
      dsimp only at this hb
      rw [this] at hb; cases hb
    · next s1 e what heq =>
      rw [heq] at hlen
      intro hb
      dsimp only at hb
      rw [wd_setWd_eq s1 w _ (by rw [hlen]; exact hw0)] at hb
      cases hb

theorem continueAfter_sleep (g : Graph) (hsym : EdgeSym g) (w n : Nat) (phase : Phase) (dir : Dir) (fuel : Nat)
    (hf : 0 < fuel) (s : State) (ok : Bool) (evs : List Event) (h : PInv g s) (hpcw : (s.wd w).pc.node? = some n) :
    ((resumeTest.continueAfter g w n phase dir fuel s ok evs).1.wd w).pc = .bounce →
      ∃ k, 10 ≤ k ∧ (resumeTest.continueAfter g w n phase dir fuel s ok evs).2.getLast? =
        some (Event.sleep (g.worker w).id k) := by
  obtain ⟨hid, hlast, hlen⟩ := h.testOwn w n hpcw
  have hw : w < s.workers.length := lt_of_path_ne_nil s w (by intro h0; rw [h0] at hlen; simp at hlen)
  unfold resumeTest.continueAfter
  dsimp only
  split
  · intro hb
    exfalso
    have : ((startTest g s n w .main dir).1.wd w).pc = .bounce := hb
    rw [startTest_pc g s n w .main dir hw] at this
    cases this
  · have q2 : Qt w none s (if (phase == Phase.pre) = true then
          s.setNd n (fun d => { d with results := d.results ++ (s.wd w).preResults.drop d.results.length })
        else s) := by
      split
      · refine qt_setNd w none s n _ ?_
        intro d; exact Or.inl rfl
      · exact Qt.refl _ _ _
    obtain ⟨_, _, hlF, hnF, hwF, _⟩ := h.finish hpcw q2
    generalize finishTraverse (if (phase == Phase.pre) = true then
          s.setNd n (fun d => { d with results := d.results ++ (s.wd w).preResults.drop d.results.length })
        else s) n w = sF at hlF hnF hwF
    obtain ⟨a, _, _, _⟩ := afterTraverse_ok (vis g sF) (edgeSym_vis g sF hsym) sF w n
      ((s.wd w).path.getD ((s.wd w).path.length - 2) 0) dir hwF hlF hnF
    generalize afterTraverse (vis g sF) sF w n ((s.wd w).path.getD ((s.wd w).path.length - 2) 0) dir = r at a
    have hw' : w < r.1.workers.length := by rw [a.workersLen]; exact hwF
    obtain ⟨s1, e2, fl⟩ := r
    have loopCase : ∀ evs', ((runLoop g w fuel s1 evs').1.wd w).pc = .bounce →
        ∃ k, 10 ≤ k ∧ (runLoop g w fuel s1 evs').2.getLast? = some (Event.sleep (g.worker w).id k) :=
      fun evs' => runLoop_sleep g hsym w fuel s1 evs' hw' (fun h0 => by omega)
    cases fl with
    | raise what =>
      dsimp only
      intro hb
      rw [wd_setWd_eq s1 w _ hw'] at hb
      cases hb
    | cont => exact loopCase _
    | suspend => exact loopCase _
    | exit => exact loopCase _

theorem resumeTest_sleep (g : Graph) (hsym : EdgeSym g) (s : State) (w n : Nat) (phase : Phase) (dir : Dir) (uid : String)
    (tag wait : Nat) (out : Outcome) (fuel : Nat) (hf : 0 < fuel) (h : PInv g s) (hpcw : (s.wd w).pc.node? = some n) :
    ((resumeTest g s w n phase dir uid tag wait out fuel).1.wd w).pc = .bounce →
      ∃ k, 10 ≤ k ∧ (resumeTest g s w n phase dir uid tag wait out fuel).2.getLast? =
        some (Event.sleep (g.worker w).id k) := by
  rw [resumeTest_eq]
  obtain ⟨r1, r2, r3⟩ := reportOutcome_frame g s w n phase uid wait out
  have bA : BookOnly s (reportOutcome g s w n phase uid wait out).1 :=
    ⟨by rw [r2], r3, fun v => by unfold State.wd; rw [r2]; exact ⟨rfl, rfl⟩, fun i => by unfold State.nd; rw [r1]⟩
  have hA := h.bookOnly bA
  have hpcA : ((reportOutcome g s w n phase uid wait out).1.wd w).pc.node? = some n := by rw [(bA.wd w).2]; exact hpcw
  generalize (reportOutcome g s w n phase uid wait out).1 = sa at hA hpcA bA
  have hwA : w < sa.workers.length := by
    obtain ⟨_, _, hlen⟩ := hA.testOwn w n hpcA
    exact lt_of_path_ne_nil sa w (by intro h0; rw [h0] at hlen; simp at hlen)
  have waitCase : ∀ k (evs' : List Event),
      ((sa.setWd w (fun d => { d with pc := .test n phase dir uid tag k })).wd w).pc = .bounce →
        ∃ k', 10 ≤ k' ∧ evs'.getLast? = some (Event.sleep (g.worker w).id k') := by
    intro k evs' hb
    rw [wd_setWd_eq sa w _ hwA] at hb
    cases hb
  split
  · next st0 dur _ =>
    have bB := recordResult_frame sa w n phase (if (phase == Phase.pre) = true then (s.wd w).preName else (g.node n).name) uid tag st0 dur
    exact continueAfter_sleep g hsym w n phase dir fuel hf _
      (recordResult sa w n phase (if (phase == Phase.pre) = true then (s.wd w).preName else (g.node n).name) uid tag st0 dur).2
      (reportOutcome g s w n phase uid wait out).2
      (hA.bookOnly bB) (by rw [(bB.wd w).2]; exact hpcA)
  · split
    · exact waitCase _ _
    · split
      · exact waitCase _ _
      · exact continueAfter_sleep g hsym w n phase dir fuel hf sa false
          (reportOutcome g s w n phase uid wait out).2 hA hpcA

/-- **a step that ends in the back-off sleep announces a sleep of at least 0.1 s as its last event** -/
theorem resume_sleep (g : Graph) (hsym : EdgeSym g) (s : State) (w : Nat) (out : Outcome) (fuel : Nat) (hf : 0 < fuel)
    (hw : w < g.workers.length) (h : PInv g s) (hb : ((resume g s w out fuel).1.wd w).pc = .bounce) :
    ∃ k, 10 ≤ k ∧ (resume g s w out fuel).2.getLast? = some (Event.sleep (g.worker w).id k) := by
  have hws : w < s.workers.length := by rw [h.wlen]; exact hw
  revert hb
  unfold resume
  split
  · exact runLoop_sleep g hsym w fuel s [] hws (fun h0 => by omega)
  · exact runLoop_sleep g hsym w fuel s [] hws (fun h0 => by omega)
  · next n phase dir uid tag wait heq =>
    exact resumeTest_sleep g hsym s w n phase dir uid tag wait out fuel hf h (by rw [heq]; rfl)
  · next heq => intro hb; rw [heq] at hb; cases hb
  · next heq => intro hb; rw [heq] at hb; cases hb

end I2N.Trav.Fair
