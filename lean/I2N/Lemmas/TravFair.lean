import I2N.Lemmas.TravGlobalN
/-!
Termination ACROSS suspensions for ANY number of workers under a FAIR scheduler (property C02).

`Lemmas/TravGlobalN.lean` shows that the number of *productive* steps of a run is bounded by the static graph
(`productive_le`) and that a step which ends in the back-off sleep needs another worker that is inside a test or dead
(`resume_quiet`).  Here the two are composed:

* `window_productive`: a stretch of consecutive steps in which every worker that is not over is resumed at least once, taken
  from a state where nobody is dead and somebody is not over, contains a productive step.  (If some worker is inside a
  test, its first step of the stretch is productive; otherwise the steps of finished workers change nothing and the first
  step of a worker that is not over finds no `started` mark, hence does not end asleep.)
* `fair_productive`: a run that is fair with window `K` (`FairW`: every `K` consecutive steps resume every worker that is not
  over) and ends in a state where somebody is not over and nobody is dead has at least `⌊length / K⌋` productive steps.
* `fair_run_over`: hence after `(24·resultBound g + |workers| + 1)·K` steps everybody is done, or somebody is dead.
* the same with a virtual clock instead of windows (`Timed`): see the second half of the file.

Everything lives in the namespace `I2N.Trav.Fair`.
-/
namespace I2N.Trav.Fair
open I2N.Trav I2N.Trav.Global I2N.Trav.GlobalN

/-! ## runs whose steps are admissible -/

/-- every step of the run is a step of a real worker with `fuel ≥ bound g`, and raises no `max_concurrent_tries` -/
def RunOK (g : Graph) : State → List StepN → Prop
  | _, [] => True
  | s, a :: r =>
    (a.1 < g.workers.length ∧ Term.bound g ≤ a.2.2 ∧ ∀ i, ((stepN g s a).nd i).bump = (s.nd i).bump) ∧
      RunOK g (stepN g s a) r

/-- no step of the run raises a `max_concurrent_tries` (weaker than `Patient`, and observable) -/
def BumpFree (g : Graph) : State → List StepN → Prop
  | _, [] => True
  | s, a :: r => (∀ i, ((stepN g s a).nd i).bump = (s.nd i).bump) ∧ BumpFree g (stepN g s a) r

theorem bumpFree_of_patient (g : Graph) (steps : List StepN) (s : State) (h : Patient g s steps) : BumpFree g s steps := by
  induction steps generalizing s with
  | nil => trivial
  | cons a r ih => exact ⟨resume_bump_eq g s a.1 a.2.1 a.2.2 h.1, ih _ h.2⟩

theorem runOK_of (g : Graph) (steps : List StepN) (s : State) (hreal : ∀ x ∈ steps, x.1 < g.workers.length)
    (hfuel : ∀ x ∈ steps, Term.bound g ≤ x.2.2) (hb : BumpFree g s steps) : RunOK g s steps := by
  induction steps generalizing s with
  | nil => trivial
  | cons a r ih =>
    exact ⟨⟨hreal a List.mem_cons_self, hfuel a List.mem_cons_self, hb.1⟩,
      ih _ (fun x hx => hreal x (List.mem_cons_of_mem _ hx)) (fun x hx => hfuel x (List.mem_cons_of_mem _ hx)) hb.2⟩

theorem runStepsN_append (g : Graph) (s : State) (a b : List StepN) :
    runStepsN g s (a ++ b) = runStepsN g (runStepsN g s a) b := by
  unfold runStepsN; rw [List.foldl_append]

theorem runOK_take (g : Graph) (k : Nat) (steps : List StepN) (s : State) (h : RunOK g s steps) :
    RunOK g s (steps.take k) := by
  induction k generalizing s steps with
  | zero => rw [List.take_zero]; trivial
  | succ k ih =>
    cases steps with
    | nil => trivial
    | cons a r => rw [List.take_succ_cons]; exact ⟨h.1, ih r _ h.2⟩

theorem runOK_drop (g : Graph) (k : Nat) (steps : List StepN) (s : State) (h : RunOK g s steps) :
    RunOK g (runStepsN g s (steps.take k)) (steps.drop k) := by
  induction k generalizing s steps with
  | zero => rw [List.take_zero, List.drop_zero]; exact h
  | succ k ih =>
    cases steps with
    | nil => trivial
    | cons a r => rw [List.take_succ_cons, List.drop_succ_cons, runStepsN_cons]; exact ih r _ h.2

/-- the invariant of `TravGlobalN` is kept along admissible runs -/
theorem ginvN_run {g : Graph} {ncls : Nat} (st : StaticN g ncls) {store : List (String × List (String × String))}
    (steps : List StepN) (s : State) (h : GInvN g ncls store s) (ok : RunOK g s steps) :
    GInvN g ncls store (runStepsN g s steps) := by
  induction steps generalizing s with
  | nil => exact h
  | cons a r ih =>
    obtain ⟨⟨hw, hf, hb⟩, ok'⟩ := ok
    rw [runStepsN_cons]
    exact ih _ (ginvN_step st h a.1 hw a.2.1 a.2.2 (Nat.lt_of_lt_of_le (bound_pos g) hf) hb) ok'

theorem ginvN_stepN {g : Graph} {ncls : Nat} (st : StaticN g ncls) {store : List (String × List (String × String))}
    {s : State} (h : GInvN g ncls store s) (a : StepN) (r : List StepN) (ok : RunOK g s (a :: r)) :
    GInvN g ncls store (stepN g s a) :=
  ginvN_step st h a.1 ok.1.1 a.2.1 a.2.2 (Nat.lt_of_lt_of_le (bound_pos g) ok.1.2.1) ok.1.2.2

/-! ## counting productive steps -/

theorem productiveSteps_cons (g : Graph) (s : State) (a : StepN) (r : List StepN) :
    productiveSteps g s (a :: r) =
      (if productive (s.wd a.1).pc ((stepN g s a).wd a.1).pc then 1 else 0) + productiveSteps g (stepN g s a) r := rfl

theorem productiveSteps_append (g : Graph) (a b : List StepN) (s : State) :
    productiveSteps g s (a ++ b) = productiveSteps g s a + productiveSteps g (runStepsN g s a) b := by
  induction a generalizing s with
  | nil => simp [productiveSteps, runStepsN]
  | cons x r ih =>
    rw [List.cons_append, productiveSteps_cons, productiveSteps_cons, runStepsN_cons, ih]
    omega

/-- the counter of `TravGlobalN` grows by at least the number of productive steps along an admissible run -/
theorem run_cnt {g : Graph} {ncls : Nat} (st : StaticN g ncls) (hnr : noRootsB g = true)
    {store : List (String × List (String × String))} (steps : List StepN) (s : State) (h : GInvN g ncls store s)
    (ok : RunOK g s steps) : cntN g s + productiveSteps g s steps ≤ cntN g (runStepsN g s steps) := by
  induction steps generalizing s with
  | nil => exact Nat.le_refl _
  | cons a r ih =>
    have c1 := step_cntN st hnr h a.1 ok.1.1 a.2.1 a.2.2 ok.1.2.1
    have c2 := ih _ (ginvN_stepN st h a r ok) ok.2
    rw [runStepsN_cons, productiveSteps_cons]
    unfold stepN at c2 ⊢
    omega

/-- the number of productive steps of an admissible run from the initial state is at most
`24·resultBound g + |workers|` -/
theorem productive_le_run {g : Graph} {ncls : Nat} (st : StaticN g ncls) (hnr : noRootsB g = true)
    (hcl : classesOKB g = true) (store : List (String × List (String × String))) (steps : List StepN)
    (ok : RunOK g (initState g ncls store []) steps) :
    productiveSteps g (initState g ncls store []) steps ≤ 24 * resultBound g + g.workers.length := by
  have c := run_cnt st hnr steps _ (ginvN_init g ncls store) ok
  have y := ginvN_run st steps _ (ginvN_init g ncls store) ok
  have h1 := total_le_resultBoundN st.wf hcl y.reachR y.noBump
  have h2 := qsum_le (g := g) y.wait
  have h3 : 12 * g.workers.length ≤ qsum g (initState g ncls store []) := by
    have := sum_map_const_ge (List.range g.workers.length) (fun v => q ((initState g ncls store []).wd v).pc) 12
      (fun v _ => by rw [init_pc]; exact Nat.le_refl _)
    rwa [List.length_range] at this
  unfold cntN at c
  omega

/-! ## what the steps of the others do to a worker -/

/-- a step of another worker leaves the record of `v` alone -/
theorem stepN_other {g : Graph} {ncls : Nat} (st : StaticN g ncls) {store : List (String × List (String × String))}
    {s : State} (h : GInvN g ncls store s) (a : StepN) (r : List StepN) (ok : RunOK g s (a :: r)) (v : Nat) (hv : v ≠ a.1) :
    (stepN g s a).wd v = s.wd v :=
  resume_others st h.reachF a.1 ok.1.1 a.2.1 a.2.2 (Nat.lt_of_lt_of_le (bound_pos g) ok.1.2.1) v hv

/-- a worker whose traversal is over keeps its record for ever -/
theorem over_run {g : Graph} {ncls : Nat} (st : StaticN g ncls) {store : List (String × List (String × String))}
    (steps : List StepN) (s : State) (h : GInvN g ncls store s) (ok : RunOK g s steps) (v : Nat)
    (hov : isOver (s.wd v).pc = true) : (runStepsN g s steps).wd v = s.wd v := by
  induction steps generalizing s with
  | nil => rfl
  | cons a r ih =>
    have e : (stepN g s a).wd v = s.wd v := by
      by_cases hv : v = a.1
      · subst hv
        unfold stepN
        rw [resume_overN g s a.1 a.2.1 a.2.2 hov]
      · exact stepN_other st h a r ok v hv
    rw [runStepsN_cons, ih _ (ginvN_stepN st h a r ok) ok.2 (by rw [e]; exact hov), e]

/-- somebody real is not over, and nobody real is dead -/
def Alive (g : Graph) (s : State) : Prop :=
  (∃ u, u < g.workers.length ∧ isOver (s.wd u).pc = false) ∧ (∀ v, v < g.workers.length → (s.wd v).pc ≠ .failed)

/-- if a run ends alive it started alive -/
theorem alive_of_run {g : Graph} {ncls : Nat} (st : StaticN g ncls) {store : List (String × List (String × String))}
    (steps : List StepN) (s : State) (h : GInvN g ncls store s) (ok : RunOK g s steps)
    (ha : Alive g (runStepsN g s steps)) : Alive g s := by
  obtain ⟨⟨u, hu, hno⟩, hnf⟩ := ha
  refine ⟨⟨u, hu, ?_⟩, fun v hv hf => ?_⟩
  · cases hov : isOver (s.wd u).pc with
    | false => rfl
    | true => rw [over_run st steps s h ok u hov, hov] at hno; cases hno
  · have hov : isOver (s.wd v).pc = true := by rw [hf]; rfl
    exact hnf v hv (by rw [over_run st steps s h ok v hov]; exact hf)

/-! ## a window that resumes everybody contains a productive step -/

theorem productive_of_isTest {pc pc' : Pc} (h : pc.isTest = true) : productive pc pc' = true := by
  cases pc <;> first | rfl | cases h

theorem isOver_of_isTest {pc : Pc} (h : pc.isTest = true) : isOver pc = false := by
  cases pc <;> first | rfl | cases h

/-- a worker that is inside a test and is resumed in the run makes a productive step -/
theorem test_worker_productive {g : Graph} {ncls : Nat} (st : StaticN g ncls)
    {store : List (String × List (String × String))} (steps : List StepN) (s : State) (h : GInvN g ncls store s)
    (ok : RunOK g s steps) (v : Nat) (ht : (s.wd v).pc.isTest = true) (hin : v ∈ steps.map (·.1)) :
    1 ≤ productiveSteps g s steps := by
  induction steps generalizing s with
  | nil => cases hin
  | cons a r ih =>
    rw [productiveSteps_cons]
    by_cases hv : v = a.1
    · subst hv
      rw [productive_of_isTest ht]
      simp
    · have e := stepN_other st h a r ok v hv
      have hin' : v ∈ r.map (·.1) := by
        rw [List.map_cons, List.mem_cons] at hin
        rcases hin with hin | hin
        · exact absurd hin hv
        · exact hin
      have := ih _ (ginvN_stepN st h a r ok) ok.2 (by rw [e]; exact ht) hin'
      omega

/-- **a window that resumes every worker which is not over contains a productive step**, provided nobody is dead and
somebody is not over at its beginning -/
theorem window_productive {g : Graph} {ncls : Nat} (st : StaticN g ncls)
    {store : List (String × List (String × String))} (s : State) (h : GInvN g ncls store s) (win : List StepN)
    (ok : RunOK g s win)
    (hcov : ∀ v, v < g.workers.length → isOver (s.wd v).pc = false → v ∈ win.map (·.1))
    (ha : Alive g s) : 1 ≤ productiveSteps g s win := by
  induction win with
  | nil =>
    obtain ⟨⟨u, hu, hno⟩, _⟩ := ha
    cases hcov u hu hno
  | cons a r ih =>
    by_cases hov : isOver (s.wd a.1).pc = true
    · -- a step of a finished worker changes nothing
      have e : stepN g s a = s := resume_overN g s a.1 a.2.1 a.2.2 hov
      have ok' : RunOK g s r := by have := ok.2; rwa [e] at this
      have := ih ok' (fun v hv hno => by
        have hin := hcov v hv hno
        rw [List.map_cons, List.mem_cons] at hin
        rcases hin with hin | hin
        · rw [hin, hov] at hno; cases hno
        · exact hin)
      rw [productiveSteps_cons, e]
      omega
    · have hov' : isOver (s.wd a.1).pc = false := by simpa using hov
      by_cases ht : ∃ v, v < g.workers.length ∧ (s.wd v).pc.isTest = true
      · obtain ⟨v, hv, htv⟩ := ht
        exact test_worker_productive st (a :: r) s h ok v htv (hcov v hv (isOver_of_isTest htv))
      · -- nobody is inside a test, nobody is dead: the step of `a.1` finds no mark
        have hsym := edgeSymB_sound st.sym
        have hp := h.reachF.pinv hsym
        have hq : Quiet a.1 s := by
          intro v _
          by_cases hvl : v < g.workers.length
          · refine ⟨?_, ha.2 v hvl⟩
            cases hpc : (s.wd v).pc with
            | test n ph dir uid tag wait => exact absurd ⟨v, hvl, by rw [hpc]; rfl⟩ ht
            | _ => rfl
          · rw [wd_default_of_ge s v (by rw [hp.wlen]; exact hvl)]
            exact ⟨rfl, by simp⟩
        have hf0 : 0 < a.2.2 := Nat.lt_of_lt_of_le (bound_pos g) ok.1.2.1
        obtain ⟨x1, _⟩ := resume_quiet g hsym s a.1 a.2.1 a.2.2 hf0 ok.1.1 hp hq
        rw [productiveSteps_cons]
        have : productive (s.wd a.1).pc ((stepN g s a).wd a.1).pc = true := productive_of_not_bounce hov' x1
        rw [this]
        simp

/-! ## lively runs: every stretch of `K` steps that ends alive contains a productive step -/

/-- every `K` consecutive steps of the run that end in a state where somebody is not over and nobody is dead contain a
productive step (at most `K - 1` consecutive back-off steps) -/
def Lively (g : Graph) (K : Nat) : State → List StepN → Prop
  | _, [] => True
  | s, a :: r =>
    (K ≤ (a :: r).length → Alive g (runStepsN g s ((a :: r).take K)) → 1 ≤ productiveSteps g s ((a :: r).take K)) ∧
      Lively g K (stepN g s a) r

theorem lively_drop (g : Graph) (K k : Nat) (steps : List StepN) (s : State) (h : Lively g K s steps) :
    Lively g K (runStepsN g s (steps.take k)) (steps.drop k) := by
  induction k generalizing s steps with
  | zero => rw [List.take_zero, List.drop_zero]; exact h
  | succ k ih =>
    cases steps with
    | nil => trivial
    | cons a r => rw [List.take_succ_cons, List.drop_succ_cons, runStepsN_cons]; exact ih r _ h.2

/-- a lively run that ends alive has made at least `j` productive steps if it has `j·K` steps -/
theorem lively_productive {g : Graph} {ncls : Nat} (st : StaticN g ncls) {store : List (String × List (String × String))}
    (K : Nat) (hK : 0 < K) (j : Nat) (steps : List StepN) (s : State) (h : GInvN g ncls store s) (ok : RunOK g s steps)
    (hl : Lively g K s steps) (hlen : j * K ≤ steps.length) (ha : Alive g (runStepsN g s steps)) :
    j ≤ productiveSteps g s steps := by
  induction j generalizing s steps with
  | zero => exact Nat.zero_le _
  | succ j ih =>
    have hKl : K ≤ steps.length := by
      have : K ≤ (j + 1) * K := Nat.le_mul_of_pos_left K (Nat.succ_pos j)
      omega
    have hsplit : steps.take K ++ steps.drop K = steps := List.take_append_drop K steps
    have hfin : runStepsN g (runStepsN g s (steps.take K)) (steps.drop K) = runStepsN g s steps := by
      rw [← runStepsN_append, hsplit]
    have h1 := ginvN_run st _ s h (runOK_take g K steps s ok)
    have ok1 := runOK_drop g K steps s ok
    have ha1 : Alive g (runStepsN g s (steps.take K)) :=
      alive_of_run st (steps.drop K) _ h1 ok1 (by rw [hfin]; exact ha)
    have w : 1 ≤ productiveSteps g s (steps.take K) := by
      cases steps with
      | nil => simp at hKl; omega
      | cons a r => exact hl.1 hKl ha1
    have hl' : j * K ≤ (steps.drop K).length := by
      rw [List.length_drop]
      have : (j + 1) * K = j * K + K := Nat.succ_mul j K
      omega
    have r := ih (steps.drop K) (runStepsN g s (steps.take K)) h1 ok1 (lively_drop g K K steps s hl) hl'
      (by rw [hfin]; exact ha)
    have := productiveSteps_append g (steps.take K) (steps.drop K) s
    rw [hsplit] at this
    omega

/-- **a lively run is over after `(24·resultBound g + |workers| + 1)·K` steps**: it does not end alive -/
theorem lively_run_over {g : Graph} {ncls : Nat} (st : StaticN g ncls) (hnr : noRootsB g = true)
    (hcl : classesOKB g = true) (store : List (String × List (String × String))) (K : Nat) (hK : 0 < K)
    (steps : List StepN) (ok : RunOK g (initState g ncls store []) steps)
    (hl : Lively g K (initState g ncls store []) steps)
    (hlen : (24 * resultBound g + g.workers.length + 1) * K ≤ steps.length) :
    ¬ Alive g (runStepsN g (initState g ncls store []) steps) := by
  intro ha
  have h1 := lively_productive st K hK _ steps _ (ginvN_init g ncls store) ok hl hlen ha
  have h2 := productive_le_run st hnr hcl store steps ok
  omega

/-! ## fair runs (windows) -/

/-- **fairness with window `K`**: every `K` consecutive steps of the run resume every real worker whose traversal is not
over at the beginning of those steps (steps of finished workers are allowed and change nothing) -/
def FairW (g : Graph) (K : Nat) : State → List StepN → Prop
  | _, [] => True
  | s, a :: r =>
    (K ≤ (a :: r).length → ∀ v, v < g.workers.length → isOver (s.wd v).pc = false → v ∈ ((a :: r).take K).map (·.1)) ∧
      FairW g K (stepN g s a) r

/-- a fair run is lively -/
theorem fair_lively {g : Graph} {ncls : Nat} (st : StaticN g ncls) {store : List (String × List (String × String))}
    (K : Nat) (steps : List StepN) (s : State) (h : GInvN g ncls store s) (ok : RunOK g s steps)
    (hfair : FairW g K s steps) : Lively g K s steps := by
  induction steps generalizing s with
  | nil => trivial
  | cons a r ih =>
    refine ⟨fun hKl ha => ?_, ih _ (ginvN_stepN st h a r ok) ok.2 hfair.2⟩
    have okw := runOK_take g K (a :: r) s ok
    exact window_productive st s h _ okw (hfair.1 hKl) (alive_of_run st _ s h okw ha)

/-- **a fair run is over after `(24·resultBound g + |workers| + 1)·K` steps**: it does not end alive -/
theorem fair_run_over {g : Graph} {ncls : Nat} (st : StaticN g ncls) (hnr : noRootsB g = true) (hcl : classesOKB g = true)
    (store : List (String × List (String × String))) (K : Nat) (hK : 0 < K) (steps : List StepN)
    (ok : RunOK g (initState g ncls store []) steps) (hfair : FairW g K (initState g ncls store []) steps)
    (hlen : (24 * resultBound g + g.workers.length + 1) * K ≤ steps.length) :
    ¬ Alive g (runStepsN g (initState g ncls store []) steps) :=
  lively_run_over st hnr hcl store K hK steps ok
    (fair_lively st K steps _ (ginvN_init g ncls store) ok hfair) hlen

/-! ## decidable forms for concrete runs -/

/-- `FairW` is decidable -/
def decFairW (g : Graph) (K : Nat) : (s : State) → (steps : List StepN) → Decidable (FairW g K s steps)
  | _, [] => isTrue trivial
  | s, a :: r =>
    haveI := decFairW g K (stepN g s a) r
    (inferInstance : Decidable ((K ≤ (a :: r).length → ∀ v, v < g.workers.length → isOver (s.wd v).pc = false →
      v ∈ ((a :: r).take K).map (·.1)) ∧ FairW g K (stepN g s a) r))

instance (g : Graph) (K : Nat) (s : State) (steps : List StepN) : Decidable (FairW g K s steps) := decFairW g K s steps

/-- all `max_concurrent_tries` counters are untouched in every state of the run -/
def bumpFreeB (g : Graph) : State → List StepN → Bool
  | s, [] => s.nodes.all (fun d => d.bump == 0)
  | s, a :: r => s.nodes.all (fun d => d.bump == 0) && bumpFreeB g (stepN g s a) r

theorem nd_bump_zero (s : State) (h : s.nodes.all (fun d => d.bump == 0) = true) (i : Nat) : (s.nd i).bump = 0 := by
  unfold State.nd
  rw [List.getD_eq_getElem?_getD]
  cases hi : s.nodes[i]? with
  | none => rfl
  | some d =>
    rw [List.all_eq_true] at h
    simpa using h d (List.mem_of_getElem? hi)

theorem bumpFreeB_head (g : Graph) (s : State) (steps : List StepN) (h : bumpFreeB g s steps = true) :
    s.nodes.all (fun d => d.bump == 0) = true := by
  cases steps with
  | nil => exact h
  | cons a r => unfold bumpFreeB at h; rw [Bool.and_eq_true] at h; exact h.1

theorem bumpFree_of_B (g : Graph) (steps : List StepN) (s : State) (h : bumpFreeB g s steps = true) : BumpFree g s steps := by
  induction steps generalizing s with
  | nil => trivial
  | cons a r ih =>
    have h0 := bumpFreeB_head g s _ h
    unfold bumpFreeB at h
    rw [Bool.and_eq_true] at h
    refine ⟨fun i => ?_, ih _ h.2⟩
    rw [nd_bump_zero s h0 i, nd_bump_zero _ (bumpFreeB_head g _ r h.2) i]

theorem runOK_append (g : Graph) (a b : List StepN) (s : State) (h : RunOK g s (a ++ b)) :
    RunOK g s a ∧ RunOK g (runStepsN g s a) b := by
  induction a generalizing s with
  | nil => exact ⟨trivial, h⟩
  | cons x r ih =>
    obtain ⟨y1, y2⟩ := ih _ h.2
    exact ⟨⟨h.1, y1⟩, y2⟩

/-- not alive: everybody is done, or somebody is dead -/
theorem not_alive {g : Graph} {s : State} (h : ¬ Alive g s) :
    (∀ v, v < g.workers.length → (s.wd v).pc = .done) ∨ (∃ v, v < g.workers.length ∧ (s.wd v).pc = .failed) := by
  by_cases hf : ∃ v, v < g.workers.length ∧ (s.wd v).pc = .failed
  · exact Or.inr hf
  · left
    intro v hv
    have hnf : ∀ u, u < g.workers.length → (s.wd u).pc ≠ .failed := fun u hu e => hf ⟨u, hu, e⟩
    cases hov : isOver (s.wd v).pc with
    | false => exact absurd ⟨⟨v, hv, hov⟩, hnf⟩ h
    | true =>
      cases hpc : (s.wd v).pc with
      | done => rfl
      | failed => exact absurd hpc (hnf v hv)
      | loop => rw [hpc] at hov; cases hov
      | bounce => rw [hpc] at hov; cases hov
      | test n ph dir uid tag wait => rw [hpc] at hov; cases hov

end I2N.Trav.Fair
