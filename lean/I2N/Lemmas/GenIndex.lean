import I2N.Extracted.GenIndex
import I2N.Lemmas.Register
/-!
Helper lemmas for the translator tie of C16 (`EdgeRegister`): the adapter `flat` from the Python shaped registry
(dict of dicts, `I2N.PyDict.PyReg`) to the hand model's flat association list (`I2N.Index.Register`), the
well-formedness of a registry (what a Python dict guarantees: no key twice; counters are not negative), and the
lemmas relating the dictionary primitives to the model's `register` / `getCounters` / `getWorkers`.
-/
namespace I2N.Index
open I2N.PyDict I2N.Extracted.GenIndex

/-! ## the adapter -/

/-- the entries of one inner dictionary under the node key `n` -/
def flatInner (n : String) (inner : Dict Int) : Register := inner.map (fun e => ((n, e.1), e.2.toNat))

/-- ADAPTER: the dict of dicts as the flat association list of the hand model, in dictionary order -/
def flat (r : PyReg) : Register := r.flatMap (fun e => flatInner e.1 e.2)

/-- an inner dictionary: no worker key twice, no negative counter -/
def InnerWF (inner : Dict Int) : Prop := (keys inner).Nodup ∧ ∀ e ∈ inner, 0 ≤ e.2

instance (inner : Dict Int) : Decidable (InnerWF inner) := by unfold InnerWF; infer_instance

/-- a registry: no node key twice, every inner dictionary well formed -/
def RegWF (r : PyReg) : Prop := (keys r).Nodup ∧ ∀ e ∈ r, InnerWF e.2

instance (r : PyReg) : Decidable (RegWF r) := by unfold RegWF; infer_instance

@[simp] theorem flat_nil : flat [] = [] := rfl
theorem flat_cons (e : String × Dict Int) (r : PyReg) : flat (e :: r) = flatInner e.1 e.2 ++ flat r := by
  simp [flat]

theorem regWF_cons {e : String × Dict Int} {r : PyReg} (h : RegWF (e :: r)) :
    e.1 ∉ keys r ∧ InnerWF e.2 ∧ RegWF r := by
  obtain ⟨h1, h2⟩ := h
  simp only [keys, List.map_cons, List.nodup_cons] at h1
  exact ⟨h1.1, h2 e (by simp), h1.2, fun x hx => h2 x (by simp [hx])⟩

theorem innerWF_nil : InnerWF [] := by simp [InnerWF, keys]

/-! ## dictionary primitives -/

theorem getD_eq_get? {α : Type} (d : Dict α) (k : String) (dflt : α) : getD d k dflt = (get? d k).getD dflt := by
  induction d with
  | nil => rfl
  | cons e rest ih => obtain ⟨k', v⟩ := e; simp only [getD, get?]; split <;> simp [ih]

theorem contains_keys_eq {α : Type} (d : Dict α) (k : String) : (keys d).contains k = (get? d k).isSome := by
  induction d with
  | nil => rfl
  | cons e rest ih =>
    obtain ⟨k', v⟩ := e
    simp only [keys, List.map_cons, List.contains_cons, get?]
    by_cases h : k' = k
    · subst h; simp
    · have h' : (k == k') = false := by simpa using fun h'' : k = k' => h h''.symm
      have h2 : (k' == k) = false := by simpa using h
      simp only [h', h2, Bool.false_or]
      simpa [keys] using ih

theorem get?_none_iff {α : Type} (d : Dict α) (k : String) : get? d k = none ↔ k ∉ keys d := by
  have := contains_keys_eq d k
  cases h : get? d k <;> simp_all

theorem get?_set_self {α : Type} (d : Dict α) (k : String) (v : α) : get? (setItem d k v) k = some v := by
  induction d with
  | nil => simp [setItem, get?]
  | cons e rest ih =>
    obtain ⟨k', v'⟩ := e
    simp only [setItem]
    by_cases h : (k' == k) = true
    · simp [h, get?]
    · simp [h, get?, ih]

theorem set_set {α : Type} (d : Dict α) (k : String) (v v' : α) : setItem (setItem d k v) k v' = setItem d k v' := by
  induction d with
  | nil => simp [setItem]
  | cons e rest ih =>
    obtain ⟨k', v''⟩ := e
    simp only [setItem]
    by_cases h : (k' == k) = true
    · simp [h, setItem]
    · simp [h, setItem, ih]

theorem set_of_get? {α : Type} (d : Dict α) (k : String) (v : α) (h : get? d k = some v) : setItem d k v = d := by
  induction d with
  | nil => simp [get?] at h
  | cons e rest ih =>
    obtain ⟨k', v'⟩ := e
    simp only [get?] at h
    simp only [setItem]
    by_cases hk : (k' == k) = true
    · simp only [hk, if_true] at h ⊢; simp_all
    · simp only [hk] at h ⊢; simp [ih h]

theorem keys_set {α : Type} (d : Dict α) (k : String) (v : α) :
    keys (setItem d k v) = if k ∈ keys d then keys d else keys d ++ [k] := by
  induction d with
  | nil => simp [setItem, keys]
  | cons e rest ih =>
    obtain ⟨k', v'⟩ := e
    simp only [setItem]
    by_cases hk : k' = k
    · subst hk; simp [keys]
    · have : (k' == k) = false := by simpa using hk
      simp only [this, Bool.false_eq_true, if_false]
      have hk' : ¬ k = k' := fun h => hk h.symm
      simp only [keys, List.map_cons, List.mem_cons, hk', false_or] at ih ⊢
      rw [ih]; split <;> simp_all

theorem nodup_keys_set {α : Type} (d : Dict α) (k : String) (v : α) (h : (keys d).Nodup) : (keys (setItem d k v)).Nodup := by
  rw [keys_set]
  split
  · exact h
  · rename_i hk
    rw [List.nodup_append]
    exact ⟨h, by simp, by intro a ha b hb; simp at hb; subst hb; intro hab; subst hab; exact hk ha⟩

theorem mem_set {α : Type} (d : Dict α) (k : String) (v : α) (e : String × α) (h : e ∈ setItem d k v) :
    e ∈ d ∨ e = (k, v) := by
  induction d with
  | nil => simp [setItem] at h; exact Or.inr h
  | cons x rest ih =>
    obtain ⟨k', v'⟩ := x
    simp only [setItem] at h
    by_cases hk : k' = k
    · subst hk
      simp only [beq_self_eq_true, if_true, List.mem_cons] at h
      rcases h with h | h
      · exact Or.inr h
      · exact Or.inl (by simp [h])
    · have : (k' == k) = false := by simpa using hk
      simp only [this, Bool.false_eq_true, if_false, List.mem_cons] at h
      rcases h with h | h
      · exact Or.inl (by simp [h])
      · rcases ih h with h' | h'
        · exact Or.inl (by simp [h'])
        · exact Or.inr h'

theorem getD_of_mem {α : Type} (d : Dict α) (h : (keys d).Nodup) (e : String × α) (he : e ∈ d) (dflt : α) :
    getD d e.1 dflt = e.2 := by
  induction d with
  | nil => simp at he
  | cons x rest ih =>
    obtain ⟨k', v'⟩ := x
    simp only [keys, List.map_cons, List.nodup_cons] at h
    simp only [List.mem_cons] at he
    simp only [getD]
    rcases he with rfl | he
    · simp
    · have : k' ≠ e.1 := by
        intro hk; apply h.1; rw [hk]; exact List.mem_map_of_mem (f := (·.1)) he
      have : (k' == e.1) = false := by simpa using this
      simp only [this, Bool.false_eq_true, if_false]
      exact ih h.2 he

theorem getD_nonneg (inner : Dict Int) (h : InnerWF inner) (w : String) : 0 ≤ getD inner w 0 := by
  have h2 := h.2
  clear h
  induction inner with
  | nil => simp [getD]
  | cons x rest ih =>
    obtain ⟨k', v'⟩ := x
    simp only [getD]
    split
    · exact h2 (k', v') (by simp)
    · exact ih (fun e he => h2 e (by simp [he]))

theorem innerWF_getD (r : PyReg) (h : RegWF r) (n : String) : InnerWF (getD r n []) := by
  induction r with
  | nil => exact innerWF_nil
  | cons x rest ih =>
    obtain ⟨hk, hi, hr⟩ := regWF_cons h
    obtain ⟨k', v'⟩ := x
    simp only [getD]
    split
    · exact hi
    · exact ih hr

theorem innerWF_set (inner : Dict Int) (h : InnerWF inner) (w : String) (c : Int) (hc : 0 ≤ c) : InnerWF (setItem inner w c) := by
  refine ⟨nodup_keys_set _ _ _ h.1, ?_⟩
  intro e he
  rcases mem_set _ _ _ _ he with he | he
  · exact h.2 e he
  · subst he; exact hc

/-! ## `register` of the hand model on appended lists -/

theorem register_append_of_mem (A B : Register) (n w : String) (h : (n, w) ∈ A.map (·.1)) :
    register (A ++ B) n w = register A n w ++ B := by
  induction A with
  | nil => simp at h
  | cons e rest ih =>
    obtain ⟨k, c⟩ := e
    simp only [List.cons_append, register]
    by_cases hk : (k == (n, w)) = true
    · simp [hk]
    · simp only [hk, Bool.false_eq_true, if_false, List.cons_append, List.cons.injEq, true_and]
      apply ih
      simp only [List.map_cons, List.mem_cons] at h
      rcases h with h | h
      · exact absurd (by simp [h]) hk
      · exact h

theorem register_append_of_not_mem (A B : Register) (n w : String) (h : (n, w) ∉ A.map (·.1)) :
    register (A ++ B) n w = A ++ register B n w := by
  induction A with
  | nil => simp
  | cons e rest ih =>
    obtain ⟨k, c⟩ := e
    simp only [List.map_cons, List.mem_cons, not_or] at h
    have hk : (k == (n, w)) = false := by simpa using fun h' : k = (n, w) => h.1 h'.symm
    simp only [List.cons_append, register, hk, Bool.false_eq_true, if_false, ih h.2]

theorem register_of_not_mem (B : Register) (n w : String) (h : (n, w) ∉ B.map (·.1)) :
    register B n w = B ++ [((n, w), 1)] := by
  have := register_append_of_not_mem B [] n w h
  simpa [register] using this

theorem keys_flatInner (n : String) (inner : Dict Int) : (flatInner n inner).map (·.1) = (keys inner).map (fun w => (n, w)) := by
  simp [flatInner, keys]

theorem mem_keys_flat (r : PyReg) (k : String × String) (h : k ∈ (flat r).map (·.1)) : k.1 ∈ keys r := by
  induction r with
  | nil => simp at h
  | cons e rest ih =>
    rw [flat_cons, List.map_append, List.mem_append, keys_flatInner] at h
    simp only [keys, List.map_cons, List.mem_cons]
    rcases h with h | h
    · simp only [List.mem_map] at h
      obtain ⟨w, _, rfl⟩ := h
      exact Or.inl rfl
    · exact Or.inr (ih h)

/-- one inner dictionary: the model's `register` is the Python `inner[w] = inner.get(w, 0) + 1` -/
theorem register_flatInner (n w : String) (inner : Dict Int) (h : ∀ e ∈ inner, 0 ≤ e.2) :
    register (flatInner n inner) n w = flatInner n (setItem inner w (getD inner w 0 + 1)) := by
  induction inner with
  | nil => simp [flatInner, register, setItem, getD]
  | cons e rest ih =>
    obtain ⟨k, c⟩ := e
    have hc : 0 ≤ c := h (k, c) (by simp)
    by_cases hk : k = w
    · subst hk
      simp only [flatInner, List.map_cons, register, beq_self_eq_true, if_true, setItem, getD]
      congr 2
      omega
    · have h1 : (((n, k) : String × String) == (n, w)) = false := by simpa using hk
      have h2 : (k == w) = false := by simpa using hk
      have ih' := ih (fun e he => h e (by simp [he]))
      simp only [flatInner, List.map_cons, register, h1, Bool.false_eq_true, if_false, setItem, getD, h2] at ih' ⊢
      rw [ih']

/-! ## the Python `register` in closed form -/

/-- `register` of the source as a function: `reg[n] = reg.get(n, {}) with [w] = old + 1` -/
def regStep (r : PyReg) (n w : String) : PyReg :=
  let inner := getD r n []
  setItem r n (setItem inner w (getD inner w 0 + 1))

theorem regStep_cons (k : String) (i : Dict Int) (rest : PyReg) (n w : String) :
    regStep ((k, i) :: rest) n w =
      if (k == n) = true then (k, setItem i w (getD i w 0 + 1)) :: rest else (k, i) :: regStep rest n w := by
  simp only [regStep, getD, setItem]
  split <;> rfl

theorem regWF_regStep (r : PyReg) (h : RegWF r) (n w : String) : RegWF (regStep r n w) := by
  have hi := innerWF_getD r h n
  refine ⟨nodup_keys_set _ _ _ h.1, ?_⟩
  intro e he
  rcases mem_set _ _ _ _ he with he | he
  · exact h.2 e he
  · subst he
    exact innerWF_set _ hi _ _ (by have := getD_nonneg _ hi w; omega)

/-- the effect of the source's `register` on the adapter's image is the model's `register`, up to the order of the
entries (a new worker of a known node is filed inside the node's dictionary, the model appends it at the end) -/
theorem flat_regStep_perm (r : PyReg) (h : RegWF r) (n w : String) :
    (flat (regStep r n w)).Perm (register (flat r) n w) := by
  induction r with
  | nil => simp [regStep, getD, setItem, flat, flatInner, register]
  | cons e rest ih =>
    obtain ⟨k, i⟩ := e
    obtain ⟨hk, hi, hr⟩ := regWF_cons h
    rw [regStep_cons]
    by_cases hkn : k = n
    · subst hkn
      simp only [beq_self_eq_true, if_true, flat_cons]
      rw [← register_flatInner k w i hi.2]
      by_cases hm : (k, w) ∈ (flatInner k i).map (·.1)
      · rw [register_append_of_mem _ _ _ _ hm]
      · rw [register_append_of_not_mem _ _ _ _ hm, register_of_not_mem _ _ _ hm]
        have hnot : (k, w) ∉ (flat rest).map (·.1) := fun hh => hk (mem_keys_flat rest (k, w) hh)
        rw [register_of_not_mem _ _ _ hnot, List.append_assoc]
        exact List.Perm.append_left _ List.perm_append_comm
    · have hb : (k == n) = false := by simpa using hkn
      simp only [hb, Bool.false_eq_true, if_false, flat_cons]
      have hm : (n, w) ∉ (flatInner k i).map (·.1) := by
        rw [keys_flatInner]; simp only [List.mem_map, not_exists, not_and]
        intro x _ hx; exact hkn (by simpa using (congrArg Prod.fst hx))
      rw [register_append_of_not_mem _ _ _ _ hm]
      exact List.Perm.append_left _ (ih hr)

/-! ## reading: selection of the node, then of the worker -/

/-- the entries `get_counters` / `get_workers` look at: the one of the given node (an absent node reads as `{}`) or all -/
def nodeSel (r : PyReg) : Option String → PyReg
  | some n => [(n, getD r n [])]
  | none => r

theorem filter_flatInner_node (k n : String) (i : Dict Int) :
    (flatInner k i).filter (fun e => e.1.1 == n) = if (k == n) = true then flatInner k i else [] := by
  unfold flatInner
  rw [List.filter_map]
  by_cases h : (k == n) = true
  · simp only [h, if_true]
    congr 1
    apply List.filter_eq_self.2
    intro a _; simpa using h
  · simp only [h, Bool.false_eq_true, if_false, List.map_eq_nil_iff, List.filter_eq_nil_iff]
    intro a _; simpa using h

theorem filter_flat_some (r : PyReg) (h : (keys r).Nodup) (n : String) :
    (flat r).filter (fun e => e.1.1 == n) = flatInner n (getD r n []) := by
  induction r with
  | nil => simp [getD, flatInner]
  | cons e rest ih =>
    obtain ⟨k, i⟩ := e
    simp only [keys, List.map_cons, List.nodup_cons] at h
    rw [flat_cons, List.filter_append, filter_flatInner_node]
    simp only [getD]
    by_cases hk : k = n
    · subst hk
      simp only [beq_self_eq_true, if_true]
      have : (flat rest).filter (fun e => e.1.1 == k) = [] := by
        rw [List.filter_eq_nil_iff]
        intro a ha hak
        apply h.1
        have := mem_keys_flat rest a.1 (List.mem_map_of_mem (f := (·.1)) ha)
        have hak' : a.1.1 = k := by simpa using hak
        rw [hak'] at this; simpa [keys] using this
      rw [this, List.append_nil]
    · have hb : (k == n) = false := by simpa using hk
      simp only [hb, Bool.false_eq_true, if_false, List.nil_append]
      exact ih h.2

theorem filter_flat_node (r : PyReg) (h : (keys r).Nodup) (node : Option String) :
    (flat r).filter (fun e => match node with | some n => e.1.1 == n | none => true) = flat (nodeSel r node) := by
  cases node with
  | none => simp [nodeSel]
  | some n => simp only [nodeSel]; rw [filter_flat_some r h n]; simp [flat]

theorem nodeSel_inner (r : PyReg) (h : RegWF r) (node : Option String) : ∀ e ∈ nodeSel r node, InnerWF e.2 := by
  cases node with
  | none => exact h.2
  | some n => intro e he; simp only [nodeSel, List.mem_singleton] at he; subst he; exact innerWF_getD r h n

theorem nodeSel_getD (r : PyReg) (h : (keys r).Nodup) (node : Option String) :
    ∀ e ∈ nodeSel r node, getD r e.1 [] = e.2 := by
  cases node with
  | none => intro e he; exact getD_of_mem r h e he []
  | some n => intro e he; simp only [nodeSel, List.mem_singleton] at he; subst he; rfl

theorem keys_nodeSel (r : PyReg) (node : Option String) :
    keys (nodeSel r node) = if node.isSome then [node.getD ""] else keys r := by
  cases node <;> simp [nodeSel, keys]

/-! ## sums -/

theorem foldl_add_eq {α : Type} (l : List α) (f : α → Int) (c : Int) :
    l.foldl (fun c x => c + f x) c = c + (l.map f).sum := by
  induction l generalizing c with
  | nil => simp
  | cons a rest ih => simp only [List.foldl_cons, List.map_cons, List.sum_cons, ih]; omega

theorem foldl_foldl_add_eq {α β : Type} (l : List α) (g : α → List β) (f : α → β → Int) (c : Int) :
    l.foldl (fun c x => (g x).foldl (fun c y => c + f x y) c) c = c + (l.map (fun x => ((g x).map (f x)).sum)).sum := by
  induction l generalizing c with
  | nil => simp
  | cons a rest ih => simp only [List.foldl_cons, List.map_cons, List.sum_cons, foldl_add_eq]; omega

theorem sumCounts_append (A B : Register) : sumCounts (A ++ B) = sumCounts A + sumCounts B := by
  simp [sumCounts]

/-- the worker keys `get_counters` runs over inside one node -/
def workerSel (inner : Dict Int) : Option String → List String
  | some w => [w]
  | none => keys inner

/-- one inner dictionary: the model's filtered sum is the source's sum of lookups -/
theorem sum_inner (n : String) (inner : Dict Int) (h : InnerWF inner) (worker : Option String) :
    (sumCounts ((flatInner n inner).filter (fun e => match worker with | some w => e.1.2 == w | none => true)) : Int)
      = ((workerSel inner worker).map (fun wk => getD inner wk 0)).sum := by
  cases worker with
  | none =>
    simp only [workerSel]
    rw [List.filter_eq_self.2 (by intros; rfl)]
    have : (keys inner).map (fun wk => getD inner wk 0) = inner.map (fun e => e.2) := by
      simp only [keys, List.map_map]
      apply List.map_congr_left
      intro e he; exact getD_of_mem inner h.1 e he 0
    rw [this]
    have h2 := h.2
    clear this h
    induction inner with
    | nil => simp [flatInner, sumCounts]
    | cons e rest ih =>
      have h0 := h2 e (by simp)
      have := ih (fun x hx => h2 x (by simp [hx]))
      simp only [flatInner, sumCounts, List.map_map, List.map_cons, List.sum_cons] at this ⊢
      rw [← this]; omega
  | some w =>
    simp only [workerSel, List.map_cons, List.map_nil, List.sum_cons, List.sum_nil, Int.add_zero]
    obtain ⟨h1, h2⟩ := h
    induction inner with
    | nil => simp [flatInner, sumCounts, getD]
    | cons e rest ih =>
      obtain ⟨k, c⟩ := e
      have h0 : 0 ≤ c := h2 (k, c) (by simp)
      simp only [keys, List.map_cons, List.nodup_cons] at h1
      have ih' := ih h1.2 (fun x hx => h2 x (by simp [hx]))
      simp only [flatInner, List.map_cons, List.filter_cons, getD] at ih' ⊢
      by_cases hk : k = w
      · subst hk
        simp only [beq_self_eq_true, if_true]
        have : (List.map (fun e : String × Int => ((n, e.1), e.2.toNat)) rest).filter (fun e => e.1.2 == k) = [] := by
          rw [List.filter_eq_nil_iff]
          intro a ha hak
          simp only [List.mem_map] at ha
          obtain ⟨x, hx, rfl⟩ := ha
          apply h1.1
          have : x.1 = k := by simpa using hak
          rw [← this]; exact List.mem_map_of_mem (f := (·.1)) hx
        rw [this]; simp [sumCounts]; omega
      · have hb : (k == w) = false := by simpa using hk
        simp only [hb, Bool.false_eq_true, if_false]
        exact ih'

theorem keyMatches_split (node worker : Option String) (k : String × String) :
    keyMatches node worker k =
      ((match node with | some n => k.1 == n | none => true) && (match worker with | some w => k.2 == w | none => true)) := rfl

/-- the model's `getCounters` on the adapter's image, as the double sum the source computes -/
theorem getCounters_flat (r : PyReg) (h : RegWF r) (node worker : Option String) :
    (getCounters (flat r) node worker : Int)
      = ((nodeSel r node).map (fun e => ((workerSel e.2 worker).map (fun wk => getD e.2 wk 0)).sum)).sum := by
  unfold getCounters
  have : (flat r).filter (fun e => keyMatches node worker e.1)
      = ((flat r).filter (fun e => match node with | some n => e.1.1 == n | none => true)).filter
          (fun e => match worker with | some w => e.1.2 == w | none => true) := by
    rw [List.filter_filter]
    apply List.filter_congr
    intro e _; rw [keyMatches_split, Bool.and_comm]
  rw [this, filter_flat_node r h.1 node]
  have hin := nodeSel_inner r h node
  generalize nodeSel r node = sel at hin
  induction sel with
  | nil => simp [sumCounts]
  | cons e rest ih =>
    rw [flat_cons, List.filter_append, sumCounts_append]
    simp only [List.map_cons, List.sum_cons]
    rw [← ih (fun x hx => hin x (by simp [hx])), ← sum_inner e.1 e.2 (hin e (by simp)) worker]
    omega

theorem mem_foldl_append {α : Type} (l : List α) (f : α → List String) (init : List String) (w : String) :
    w ∈ l.foldl (fun acc x => acc ++ f x) init ↔ w ∈ init ∨ ∃ x ∈ l, w ∈ f x := by
  induction l generalizing init with
  | nil => simp
  | cons a rest ih =>
    simp only [List.foldl_cons, ih, List.mem_append, List.mem_cons, exists_eq_or_imp]
    constructor
    · rintro ((h | h) | h)
      · exact Or.inl h
      · exact Or.inr (Or.inl h)
      · exact Or.inr (Or.inr h)
    · rintro (h | h | h)
      · exact Or.inl (Or.inl h)
      · exact Or.inl (Or.inr h)
      · exact Or.inr h

theorem mem_workers_flat (sel : PyReg) (w : String) :
    w ∈ (flat sel).map (·.1.2) ↔ ∃ e ∈ sel, w ∈ keys e.2 := by
  induction sel with
  | nil => simp
  | cons e rest ih =>
    rw [flat_cons, List.map_append, List.mem_append, ih]
    simp only [flatInner, List.map_map, List.mem_cons, exists_eq_or_imp, keys]
    apply or_congr _ Iff.rfl
    simp [Function.comp]

theorem getWorkers_flat (r : PyReg) (h : (keys r).Nodup) (node : Option String) :
    getWorkers (flat r) node = dedup ((flat (nodeSel r node)).map (·.1.2)) := by
  unfold getWorkers
  cases node with
  | none => simp only [nodeSel]; rw [List.filter_eq_self.2 (by intros; rfl)]
  | some n => simp only [nodeSel]; rw [filter_flat_some r h n]; simp [flat]

/-! ## running the generated `register` -/

theorem regKeys_run (r : PyReg) : regKeys.run r = .ok (keys r, r) := rfl
theorem innerKeys_run (r : PyReg) (n : String) :
    (innerKeys n).run r = match get? r n with | some i => .ok (keys i, r) | none => .error .keyError := rfl
theorem setInnerEmpty_run (r : PyReg) (n : String) : (setInnerEmpty n).run r = .ok ((), setItem r n []) := rfl
theorem setCount_run (r : PyReg) (n w : String) (c : Int) :
    (setCount n w c).run r = match get? r n with | some i => .ok ((), setItem r n (setItem i w c)) | none => .error .keyError := rfl
theorem addCount_run (r : PyReg) (n w : String) (c : Int) :
    (addCount n w c).run r = match get? r n with
      | some i => (match get? i w with | some old => .ok ((), setItem r n (setItem i w (old + c))) | none => .error .keyError)
      | none => .error .keyError := rfl

theorem ok_bind {ε α β : Type} (a : α) (f : α → Except ε β) : (Except.ok a >>= f) = f a := rfl

theorem mem_keys_of_get? {α : Type} (d : Dict α) (k : String) (v : α) (h : get? d k = some v) : k ∈ keys d := by
  have := contains_keys_eq d k
  rw [h] at this; simpa using this

theorem genRegister_run (r : PyReg) (n w : String) :
    (genRegister n w).run r = .ok ((), regStep r n w) := by
  simp only [genRegister, regStep, getD_eq_get?]
  cases hn : get? r n with
  | none =>
    have hc : n ∉ keys r := (get?_none_iff r n).1 hn
    have hw : w ∉ keys ([] : Dict Int) := by simp [keys]
    simp [StateT.run_bind, regKeys_run, ok_bind, hc, hw, setInnerEmpty_run, innerKeys_run, get?_set_self, setCount_run, addCount_run, set_set, get?, setItem]
  | some inner =>
    have hc : n ∈ keys r := mem_keys_of_get? _ _ _ hn
    cases hw : get? inner w with
    | none =>
      have hc2 : w ∉ keys inner := (get?_none_iff inner w).1 hw
      simp [StateT.run_bind, regKeys_run, ok_bind, hc, innerKeys_run, hn, hc2, hw, setCount_run, addCount_run, get?_set_self, set_set]
    | some c =>
      have hc2 : w ∈ keys inner := mem_keys_of_get? _ _ _ hw
      simp [StateT.run_bind, regKeys_run, ok_bind, hc, innerKeys_run, hn, hc2, addCount_run, hw]

/-! ## what the model's readers observe -/

theorem getCounters_perm (a b : Register) (h : a.Perm b) (node worker : Option String) :
    getCounters a node worker = getCounters b node worker := by
  unfold getCounters sumCounts
  exact ((h.filter _).map _).sum_nat

theorem getWorkers_perm (a b : Register) (h : a.Perm b) (node : Option String) (w : String) :
    w ∈ getWorkers a node ↔ w ∈ getWorkers b node := by
  unfold getWorkers
  rw [mem_dedup, mem_dedup]
  exact ((h.filter _).map _).mem_iff

theorem mem_getWorkers_register (m : Register) (n w : String) (node : Option String) (w' : String) :
    w' ∈ getWorkers (register m n w) node ↔ w' ∈ getWorkers m node ∨ (keyMatches node none (n, w) = true ∧ w = w') := by
  rw [mem_getWorkers, mem_getWorkers]
  constructor
  · rintro ⟨k, hk, hm, hw⟩
    rcases (mem_keys_register m n w k).1 hk with hk | hk
    · exact Or.inl ⟨k, hk, hm, hw⟩
    · subst hk; exact Or.inr ⟨hm, hw⟩
  · rintro (⟨k, hk, hm, hw⟩ | ⟨hm, hw⟩)
    · exact ⟨k, (mem_keys_register m n w k).2 (Or.inl hk), hm, hw⟩
    · exact ⟨(n, w), (mem_keys_register m n w (n, w)).2 (Or.inr rfl), hm, hw⟩

/-- the adapter's image of `r` and the model register `m` cannot be told apart by the model's readers -/
def SameObs (r : PyReg) (m : Register) : Prop :=
  (∀ node worker, getCounters (flat r) node worker = getCounters m node worker) ∧
  (∀ node w, w ∈ getWorkers (flat r) node ↔ w ∈ getWorkers m node)

theorem sameObs_register (r r' : PyReg) (m : Register) (n w : String) (h : SameObs r m)
    (hp : (flat r').Perm (register (flat r) n w)) : SameObs r' (register m n w) := by
  constructor
  · intro node worker
    rw [getCounters_perm _ _ hp, getCounters_register, getCounters_register, h.1]
  · intro node w'
    rw [getWorkers_perm _ _ hp, mem_getWorkers_register, mem_getWorkers_register, h.2]

end I2N.Index
