import I2N.Model.Show
/-! Helper lemmas for C17 (engine `show`). Part A: combination of per-image lists. -/
namespace I2N.Show

/-! ## Part A -/

theorem foldl_vtStep_some (rest : List (List Name)) (st : List Name) :
    rest.foldl vtStep (some st) = some (st.filter (fun s => rest.all (fun img => img.contains s))) := by
  induction rest generalizing st with
  | nil => simp only [List.foldl_nil, List.all_nil]; congr 1; exact (List.filter_eq_self.mpr (fun _ _ => rfl)).symm
  | cons img rest ih =>
    simp only [List.foldl_cons, vtStep, ih, List.filter_filter, List.all_cons]
    congr 1
    apply List.filter_congr
    intro x _
    exact Bool.and_comm _ _

theorem vtShow_nil : vtShow [] = [] := rfl

theorem vtShow_cons (first : List Name) (rest : List (List Name)) :
    vtShow (first :: rest) = first.filter (fun s => rest.all (fun img => img.contains s)) := by
  simp only [vtShow, List.foldl_cons, vtStep, foldl_vtStep_some]

theorem mem_vtShow_cons (first : List Name) (rest : List (List Name)) (x : Name) :
    x ∈ vtShow (first :: rest) ↔ ∀ l ∈ first :: rest, x ∈ l := by
  simp [vtShow_cons, List.mem_filter, List.all_eq_true]

theorem ramImagesStates_eq_vtShow (imgs : List (List Name)) : ramImagesStates imgs = vtShow imgs := rfl

theorem stripSuffix_eq_some (suf f x : List Char) : stripSuffix suf f = some x ↔ f = x ++ suf := by
  unfold stripSuffix
  constructor
  · intro h
    split at h
    · rename_i hs
      have hs' : suf <:+ f := by simpa using hs
      have := List.suffix_iff_eq_append.mp hs'
      simp only [Option.some.injEq] at h
      rw [h] at this
      exact this.symm
    · cases h
  · intro h
    subst h
    simp

/-! ## Part B — characters -/

section chars
variable {c : Char}

theorem digit_not_space (h : isDigit c = true) : isSpace c = false := by
  simp [isDigit, isSpace] at *; omega
theorem digit_tag (h : isDigit c = true) : isTagCh c = true := by
  simp [isTagCh, isWord, h]
theorem digit_frac (h : isDigit c = true) : isFracCh c = true := by
  simp [isFracCh, h]
theorem digit_word (h : isDigit c = true) : isWord c = true := by
  simp [isWord, h]
theorem tag_not_space (h : isTagCh c = true) : isSpace c = false := by
  simp [isTagCh, isWord, isDigit, isSpace] at *; omega
theorem tag_not_32 (h : isTagCh c = true) : c.toNat ≠ 32 := by
  simp [isTagCh, isWord, isDigit] at *; omega
theorem word_tag (h : isWord c = true) : isTagCh c = true := by
  simp [isTagCh, h]
theorem word_not_space (h : isWord c = true) : isSpace c = false := tag_not_space (word_tag h)
theorem digit_not_nl (h : isDigit c = true) : isNl c = false := by
  simp [isDigit, isNl] at *; omega
theorem tag_not_nl (h : isTagCh c = true) : isNl c = false := by
  simp [isTagCh, isWord, isDigit, isNl] at *; omega
theorem frac_not_nl (h : isFracCh c = true) : isNl c = false := by
  simp [isFracCh, isDigit, isNl] at *; omega
theorem frac_not_32 (h : isFracCh c = true) : c.toNat ≠ 32 := by
  simp [isFracCh, isDigit] at *; omega
theorem frac_not_e (h : isFracCh c = true) : isE c = false := by
  simp [isFracCh, isDigit, isE] at *; omega
theorem frac_not_sign (h : isFracCh c = true) : isSign c = false := by
  simp [isFracCh, isDigit, isSign] at *; omega
theorem digit_not_32 (h : isDigit c = true) : c.toNat ≠ 32 := frac_not_32 (digit_frac h)
theorem e_not_32 (h : isE c = true) : c.toNat ≠ 32 := by
  simp [isE] at *; omega
theorem sign_not_32 (h : isSign c = true) : c.toNat ≠ 32 := by
  simp [isSign] at *; omega
theorem nl_space (h : isNl c = true) : isSpace c = true := by
  simp [isNl, isSpace] at *; omega

theorem isSpace_sp : isSpace ' ' = true := by decide
theorem isDigit_sp : isDigit ' ' = false := by decide
theorem isTagCh_sp : isTagCh ' ' = false := by decide
theorem isWord_sp : isWord ' ' = false := by decide
theorem isFracCh_sp : isFracCh ' ' = false := by decide
theorem isNl_sp : isNl ' ' = false := by decide
end chars

/-! ## Part B — runs -/

/-- `r` does not start with a `p` character -/
def Stops (p : Char → Bool) (r : List Char) : Prop := ∀ c ∈ r.head?, p c = false

theorem stops_nil (p : Char → Bool) : Stops p [] := by simp [Stops]
theorem stops_cons {p : Char → Bool} {c : Char} {r : List Char} (h : p c = false) : Stops p (c :: r) := by
  simp [Stops, h]
theorem stops_append {p : Char → Bool} {a b : List Char} (ha : a ≠ []) (h : Stops p a) : Stops p (a ++ b) := by
  cases a with
  | nil => exact absurd rfl ha
  | cons x a => simpa [Stops] using h

theorem takeWhile_run {p : Char → Bool} {l r : List Char} (hl : ∀ a ∈ l, p a = true) (hr : Stops p r) :
    (l ++ r).takeWhile p = l := by
  rw [List.takeWhile_append_of_pos hl]
  cases r with
  | nil => simp
  | cons c r => simp [Stops] at hr; simp [hr]

theorem dropWhile_run {p : Char → Bool} {l r : List Char} (hl : ∀ a ∈ l, p a = true) (hr : Stops p r) :
    (l ++ r).dropWhile p = r := by
  rw [List.dropWhile_append_of_pos hl]
  cases r with
  | nil => simp
  | cons c r => simp [Stops] at hr; simp [hr]

theorem spaces_ok (n : Nat) : ∀ a ∈ ' ' :: spaces n, isSpace a = true := by
  intro a ha
  simp [spaces] at ha
  rcases ha with rfl | ⟨_, rfl⟩ <;> decide

theorem lit_append (p s : List Char) : lit p (p ++ s) = some s := by
  induction p with
  | nil => rfl
  | cons c p ih => simp [lit, ih]

theorem lit_eq_some {p s r : List Char} : lit p s = some r ↔ s = p ++ r := by
  induction p generalizing s with
  | nil => simp [lit, eq_comm]
  | cons c p ih =>
    cases s with
    | nil => simp [lit]
    | cons d s =>
      simp only [lit]
      split
      · rename_i h; subst h; simp [ih]
      · rename_i h; simp; intro h'; exact absurd h'.symm h

theorem lit_eq_none {p s : List Char} : lit p s = none ↔ ¬ p <+: s := by
  constructor
  · intro h ⟨r, hr⟩
    rw [← hr, lit_append] at h
    cases h
  · intro h
    cases hl : lit p s with
    | none => rfl
    | some r => exact absurd ⟨r, (lit_eq_some.mp hl).symm⟩ h

/-! ## Part B — the pieces of the patterns on printed records -/

theorem dateAt_print (r : Rec) (h : r.WF) (X : List Char) : dateAt (printDate r ++ X) = some X := by
  obtain ⟨h1, h2, h3, h4, h5, h6, h7, h8⟩ := h.date_ok
  simp [dateAt, printDate, one, h1, h2, h3, h4, h5, h6, h7, h8, isDash]

theorem dateAt_nondigit {c : Char} (s : List Char) (h : isDigit c = false) : dateAt (c :: s) = none := by
  simp [dateAt, one, h]

theorem dateAt_nil : dateAt [] = none := by simp [dateAt, one]

theorem printDate_stops (r : Rec) (h : r.WF) (X : List Char) : Stops isSpace (printDate r ++ X) := by
  simp [Stops, printDate, digit_not_space h.date_ok.1]

theorem dateAfterWs_print (r : Rec) (h : r.WF) (n : Nat) (X : List Char) :
    dateAfterWs (' ' :: spaces n ++ (printDate r ++ X)) = some X := by
  unfold dateAfterWs
  rw [takeWhile_run (spaces_ok n) (printDate_stops r h X), dropWhile_run (spaces_ok n) (printDate_stops r h X)]
  simp [dateAt_print r h]

theorem optCh_neg {p : Char → Bool} {c : Char} (s : List Char) (h : p c = false) : optCh p (c :: s) = c :: s := by
  simp [optCh, h]
theorem optCh_pos {p : Char → Bool} {c : Char} (s : List Char) (h : p c = true) : optCh p (c :: s) = s := by
  simp [optCh, h]

/-- the `[\.\d]*` part when neither `e` nor a sign is printed: the digits of `frac` are eaten by `\d+` -/
theorem numEnd_frac (l U : List Char) (hl : ∀ c ∈ l, isFracCh c = true) :
    (optCh isSign (optCh isE ((l ++ ' ' :: U).dropWhile isDigit))).dropWhile isFracCh = ' ' :: U := by
  induction l with
  | nil =>
    rw [List.nil_append, List.dropWhile_cons, isDigit_sp]
    simp only [Bool.false_eq_true, if_false]
    rw [optCh_neg _ (by decide), optCh_neg _ (by decide), List.dropWhile_cons, isFracCh_sp]
    simp
  | cons c l ih =>
    have hc := hl c (by simp)
    have hl' : ∀ c ∈ l, isFracCh c = true := fun x hx => hl x (by simp [hx])
    by_cases hd : isDigit c = true
    · simp only [List.cons_append, List.dropWhile_cons, hd, if_true]
      exact ih hl'
    · simp only [List.cons_append, List.dropWhile_cons, hd]
      simp only [Bool.false_eq_true, if_false]
      rw [optCh_neg _ (frac_not_e hc), optCh_neg _ (frac_not_sign hc)]
      exact dropWhile_run (p := isFracCh) (l := c :: l) (r := ' ' :: U) hl (stops_cons isFracCh_sp)

theorem optCh_frac_run (p : Char → Bool) (hp : ∀ c, isFracCh c = true → p c = false) (hsp : p ' ' = false)
    (l U : List Char) (hl : ∀ c ∈ l, isFracCh c = true) : optCh p (l ++ ' ' :: U) = l ++ ' ' :: U := by
  cases l with
  | nil => exact optCh_neg _ hsp
  | cons c l => exact optCh_neg _ (hp c (hl c (by simp)))

theorem printSize_append (z : Size) (W : List Char) :
    printSize z ++ W = z.digits ++ (eChars z.e ++ (signChars z.sign ++ (z.frac ++ ' ' :: (z.unit ++ W)))) := by
  simp [printSize, List.append_assoc]

theorem numEnd_print (z : Size) (h : z.WF) (W : List Char) :
    numEnd (printSize z ++ W) = ' ' :: (z.unit ++ W) := by
  rw [printSize_append]
  unfold numEnd
  rw [List.dropWhile_append_of_pos h.digits_ok]
  have hfr := dropWhile_run (p := isFracCh) (l := z.frac) (r := ' ' :: (z.unit ++ W)) h.frac_ok (stops_cons isFracCh_sp)
  have hsg := optCh_frac_run isSign (fun c => frac_not_sign) (by decide) z.frac (z.unit ++ W) h.frac_ok
  cases z.e <;> cases z.sign with
  | none =>
    first
    | (simp only [eChars, signChars, List.nil_append]; exact numEnd_frac _ _ h.frac_ok)
    | (simp only [eChars, signChars, List.nil_append, List.cons_append, List.dropWhile_cons]
       rw [if_neg (by decide), optCh_pos _ (by decide), hsg, hfr])
  | some b =>
    cases b <;>
    first
    | (simp only [eChars, signChars, List.nil_append, List.cons_append, List.dropWhile_cons]
       rw [if_neg (by decide), optCh_neg _ (by decide), optCh_pos _ (by decide), hfr])
    | (simp only [eChars, signChars, List.nil_append, List.cons_append, List.dropWhile_cons]
       rw [if_neg (by decide), optCh_pos _ (by decide), optCh_pos _ (by decide), hfr])

theorem printSize_head_digit (z : Size) (h : z.WF) (W : List Char) :
    ∃ d rest, printSize z ++ W = d :: rest ∧ isDigit d = true := by
  rw [printSize_append]
  cases hd : z.digits with
  | nil => exact absurd hd h.digits_ne
  | cons d ds => exact ⟨d, _, rfl, h.digits_ok d (by simp [hd])⟩

theorem sizeTok_print (z : Size) (h : z.WF) (W : List Char) (hW : Stops isWord W) :
    sizeTok (printSize z ++ W) = some W := by
  unfold sizeTok
  rw [numEnd_print z h W]
  obtain ⟨d, rest, hd, hdd⟩ := printSize_head_digit z h W
  have hne : (z.unit ++ W).takeWhile isWord = z.unit := takeWhile_run h.unit_ok hW
  have hdr : (z.unit ++ W).dropWhile isWord = W := dropWhile_run h.unit_ok hW
  have hun : z.unit.isEmpty = false := by
    cases hu : z.unit with
    | nil => exact absurd hu h.unit_ne
    | cons _ _ => rfl
  simp [hd, hdd, wordThen, hne, hdr, hun]

/-! ## Part B — one match attempt on a printed record -/

theorem stops_of_all {p q : Char → Bool} {l : List Char} (hq : ∀ c ∈ l, q c = true)
    (hpq : ∀ c, q c = true → p c = false) : Stops p l := by
  intro c hc
  exact hpq c (hq c (List.mem_of_mem_head? hc))

/-- what follows the date column -/
def afterDate (r : Rec) (R : List Char) : List Char := r.tail ++ R
/-- what follows the size column -/
def afterSize (r : Rec) (R : List Char) : List Char := (' ' :: spaces r.pad3) ++ (printDate r ++ afterDate r R)
/-- what follows the tag column -/
def afterTag (r : Rec) (R : List Char) : List Char := (' ' :: spaces r.pad2) ++ (printSize r.size ++ afterSize r R)

theorem printRec_append (r : Rec) (R : List Char) :
    printRec r ++ R = r.id ++ ((' ' :: spaces r.pad1) ++ (r.tag ++ afterTag r R)) := by
  simp only [printRec, afterTag, afterSize, afterDate, List.append_assoc]

theorem afterSize_stops_word (r : Rec) (R : List Char) : Stops isWord (afterSize r R) := by
  simp [afterSize, Stops, isWord_sp]

theorem printSize_stops_space (z : Size) (h : z.WF) (W : List Char) : Stops isSpace (printSize z ++ W) := by
  obtain ⟨d, rest, hd, hdd⟩ := printSize_head_digit z h W
  rw [hd]
  exact stops_cons (digit_not_space hdd)

theorem matchAt_print (body : List Char → Option (List Char)) (r : Rec) (h : r.WF) (R : List Char) :
    matchAt body (printRec r ++ R) =
      (tagAlts r.tag (afterTag r R)).findSome? (fun a => (body a.2).map (fun x => (a.1, x))) := by
  have hsp : Stops isDigit ((' ' :: spaces r.pad1) ++ (r.tag ++ afterTag r R)) := by
    simp [Stops, isDigit_sp]
  have htg : Stops isSpace (r.tag ++ afterTag r R) :=
    stops_append h.tag_ne (stops_of_all h.tag_ok (fun c => tag_not_space))
  have hat : Stops isTagCh (afterTag r R) := by simp [afterTag, Stops, isTagCh_sp]
  have t1 := takeWhile_run h.id_ok hsp
  have d1 := dropWhile_run h.id_ok hsp
  have t2 := takeWhile_run (spaces_ok r.pad1) htg
  have d2 := dropWhile_run (spaces_ok r.pad1) htg
  have t3 := takeWhile_run h.tag_ok hat
  have d3 := dropWhile_run h.tag_ok hat
  have e1 : r.id.isEmpty = false := List.isEmpty_eq_false_iff.mpr h.id_ne
  have e3 : r.tag.isEmpty = false := List.isEmpty_eq_false_iff.mpr h.tag_ne
  rw [printRec_append]
  unfold matchAt
  simp only [t1, d1, t2, d2, t3, d3, e1, e3]
  simp

theorem afterTag_dropWhile (r : Rec) (h : r.WF) (R : List Char) :
    (afterTag r R).dropWhile isSpace = printSize r.size ++ afterSize r R :=
  dropWhile_run (spaces_ok r.pad2) (printSize_stops_space _ h.size_ok _)

theorem dateAfterWs_afterSize (r : Rec) (h : r.WF) (R : List Char) :
    dateAfterWs (afterSize r R) = some (afterDate r R) := dateAfterWs_print r h r.pad3 _

/-! ### the two bodies on the size column -/

theorem printSize_zero {z : Size} (h : z.isZero = true) : printSize z = zeroB := by
  simp [Size.isZero] at h
  obtain ⟨⟨⟨⟨h1, h2⟩, h3⟩, h4⟩, h5⟩ := h
  simp [printSize, h1, h2, h3, h4, h5, eChars, signChars, zeroB]

theorem printSize_length (z : Size) (h : z.WF) : 3 ≤ (printSize z).length := by
  have h1 : 0 < z.digits.length := List.length_pos_iff.mpr h.digits_ne
  have h2 : 0 < z.unit.length := List.length_pos_iff.mpr h.unit_ne
  simp [printSize]
  omega

theorem lit_zeroB_nonzero (z : Size) (h : z.WF) (hz : z.isZero = false) (W : List Char) :
    lit zeroB (printSize z ++ W) = none := by
  rw [lit_eq_none]
  intro hp
  have := List.prefix_of_prefix_length_le hp (List.prefix_append (printSize z) W)
    (by have := printSize_length z h; simp [zeroB]; omega)
  exact h.zero_only hz this

theorem offBody_size (r : Rec) (h : r.WF) (R : List Char) :
    offBody (printSize r.size ++ afterSize r R) = if r.size.isZero then some (afterDate r R) else none := by
  unfold offBody
  cases hz : r.size.isZero with
  | true => simp [printSize_zero hz, lit_append, dateAfterWs_afterSize r h R]
  | false => simp [lit_zeroB_nonzero _ h.size_ok hz]

theorem onBody_size (r : Rec) (h : r.WF) (R : List Char) :
    onBody (printSize r.size ++ afterSize r R) = if r.size.isZero then none else some (afterDate r R) := by
  unfold onBody
  cases hz : r.size.isZero with
  | true => simp [printSize_zero hz, lit_append]
  | false =>
    simp [lit_zeroB_nonzero _ h.size_ok hz, sizeTok_print _ h.size_ok _ (afterSize_stops_word r R),
      dateAfterWs_afterSize r h R]

/-! ### giving characters of the tag back never helps on a printed record -/

theorem lit_B_after_pad (r : Rec) (h : r.WF) (R : List Char) :
    lit ['B'] (spaces r.pad2 ++ (printSize r.size ++ afterSize r R)) = none := by
  cases hp : r.pad2 with
  | zero =>
    obtain ⟨d, rest, hd, hdd⟩ := printSize_head_digit r.size h.size_ok (afterSize r R)
    simp only [spaces, List.replicate_zero, List.nil_append, hd, lit]
    have : 'B' ≠ d := by
      intro e; subst e; exact absurd hdd (by decide)
    simp [this]
  | succ n => simp [spaces, List.replicate_succ, lit]

theorem offBody_alt (r : Rec) (h : r.WF) (R : List Char) (b : List Char) (hb : b ≠ [])
    (hbt : ∀ c ∈ b, isTagCh c = true) : offBody (b ++ afterTag r R) = none := by
  unfold offBody
  suffices hl : lit zeroB (b ++ afterTag r R) = none by simp [hl]
  cases b with
  | nil => exact absurd rfl hb
  | cons b0 b' =>
    simp only [zeroB, List.cons_append, lit]
    split
    · cases b' with
      | nil =>
        simp only [List.nil_append, afterTag, List.cons_append, lit, if_true]
        exact lit_B_after_pad r h R
      | cons c b'' =>
        have hc : isTagCh c = true := hbt c (by simp)
        have : ' ' ≠ c := by
          intro e; subst e; exact absurd hc (by decide)
        simp [lit, this]
    · rfl

def no32 (l : List Char) : Prop := ∀ c ∈ l, c.toNat ≠ 32

theorem first_space_unique {pre b : List Char} {c d : Char} {s X : List Char}
    (hpre : no32 pre) (hb : no32 b) (hc : c.toNat = 32) (hd : d.toNat = 32)
    (h : pre ++ c :: s = b ++ d :: X) : pre = b ∧ s = X := by
  induction pre generalizing b with
  | nil =>
    cases b with
    | nil => simp at h; exact ⟨rfl, h.2⟩
    | cons y b =>
      simp at h
      exact absurd (h.1 ▸ hc) (hb y (by simp))
  | cons x pre ih =>
    cases b with
    | nil =>
      simp at h
      exact absurd (h.1 ▸ hd) (hpre x (by simp))
    | cons y b =>
      simp at h
      obtain ⟨hxy, h⟩ := h
      have := ih (fun c hc => hpre c (by simp [hc])) (fun c hc => hb c (by simp [hc])) h
      exact ⟨by rw [hxy, this.1], this.2⟩

theorem mem_takeWhile_pos {p : Char → Bool} {c : Char} {s : List Char} (h : c ∈ s.takeWhile p) : p c = true := by
  induction s with
  | nil => simp at h
  | cons x s ih =>
    rw [List.takeWhile_cons] at h
    split at h
    · rename_i hx
      rcases List.mem_cons.mp h with rfl | h'
      · exact hx
      · exact ih h'
    · simp at h

theorem dropWhile_prefix (p : Char → Bool) (hp : ∀ c, p c = true → c.toNat ≠ 32) (s : List Char) :
    ∃ pre, s = pre ++ s.dropWhile p ∧ no32 pre :=
  ⟨s.takeWhile p, (List.takeWhile_append_dropWhile).symm, fun c hc => hp c (mem_takeWhile_pos hc)⟩

theorem optCh_prefix (p : Char → Bool) (hp : ∀ c, p c = true → c.toNat ≠ 32) (s : List Char) :
    ∃ pre, s = pre ++ optCh p s ∧ no32 pre := by
  cases s with
  | nil => exact ⟨[], rfl, by simp [no32]⟩
  | cons c s =>
    by_cases hc : p c = true
    · exact ⟨[c], by simp [optCh, hc], by simpa [no32] using hp c hc⟩
    · exact ⟨[], by simp [optCh, hc], by simp [no32]⟩

theorem numEnd_prefix (s : List Char) : ∃ pre, s = pre ++ numEnd s ∧ no32 pre := by
  obtain ⟨p1, e1, h1⟩ := dropWhile_prefix isDigit (fun c => digit_not_32) s
  obtain ⟨p2, e2, h2⟩ := optCh_prefix isE (fun c => e_not_32) (s.dropWhile isDigit)
  obtain ⟨p3, e3, h3⟩ := optCh_prefix isSign (fun c => sign_not_32) (optCh isE (s.dropWhile isDigit))
  obtain ⟨p4, e4, h4⟩ := dropWhile_prefix isFracCh (fun c => frac_not_32) (optCh isSign (optCh isE (s.dropWhile isDigit)))
  refine ⟨p1 ++ (p2 ++ (p3 ++ p4)), ?_, ?_⟩
  · unfold numEnd
    rw [List.append_assoc, List.append_assoc, List.append_assoc, ← e4, ← e3, ← e2, ← e1]
  · intro c hc
    simp only [List.mem_append] at hc
    rcases hc with hc | hc | hc | hc
    · exact h1 c hc
    · exact h2 c hc
    · exact h3 c hc
    · exact h4 c hc

theorem onBody_alt (r : Rec) (_h : r.WF) (hz : r.size.isZero = true) (R : List Char) (b : List Char)
    (hbt : ∀ c ∈ b, isTagCh c = true) : onBody (b ++ afterTag r R) = none := by
  unfold onBody
  split
  · rfl
  · suffices hs : ∀ x, sizeTok (b ++ afterTag r R) = some x → dateAfterWs x = none by
      cases hx : sizeTok (b ++ afterTag r R) with
      | none => rfl
      | some x => simpa using hs x hx
    intro x hx
    unfold sizeTok at hx
    split at hx
    · cases hx
    · obtain ⟨pre, epre, hpre⟩ := numEnd_prefix (b ++ afterTag r R)
      split at hx
      · rename_i sp s5 hne
        split at hx
        · rename_i hsp
          rw [hne] at epre
          have hb32 : no32 b := fun c hc => tag_not_32 (hbt c hc)
          have key : pre = b ∧ s5 = spaces r.pad2 ++ (printSize r.size ++ afterSize r R) := by
            apply first_space_unique hpre hb32 hsp (d := ' ') (by decide)
            rw [← epre]
            simp [afterTag]
          rw [key.2, printSize_zero hz] at hx
          cases hp : r.pad2 with
          | zero =>
            rw [hp] at hx
            simp [spaces, zeroB, wordThen, List.takeWhile_cons, List.dropWhile_cons] at hx
            have e1 : isWord '0' = true := by decide
            have e2 : isWord ' ' = false := by decide
            simp [e1, e2] at hx
            subst hx
            unfold dateAfterWs
            have e3 : isSpace ' ' = true := by decide
            have e4 : isSpace 'B' = false := by decide
            simp [e3, e4]
            exact dateAt_nondigit _ (by decide)
          | succ n =>
            rw [hp] at hx
            simp [spaces, List.replicate_succ, wordThen, isWord_sp] at hx
        · cases hx
      · cases hx

theorem properSplits_mem {t a b : List Char} (h : (a, b) ∈ properSplits t) :
    a ≠ [] ∧ b ≠ [] ∧ a ++ b = t := by
  induction t generalizing a b with
  | nil => simp [properSplits] at h
  | cons c cs ih =>
    simp only [properSplits, List.mem_append, List.mem_map] at h
    rcases h with ⟨⟨a', b'⟩, hm, he⟩ | h
    · simp only [Prod.mk.injEq] at he
      obtain ⟨rfl, rfl⟩ := he
      obtain ⟨_, h2, h3⟩ := ih hm
      exact ⟨by simp, h2, by simp [h3]⟩
    · split at h
      · simp at h
      · rename_i hne
        simp only [List.mem_singleton, Prod.mk.injEq] at h
        obtain ⟨rfl, rfl⟩ := h
        exact ⟨by simp, by simpa using hne, rfl⟩

/-- the off pattern at the start of a printed record -/
theorem matchAt_off_print (r : Rec) (h : r.WF) (R : List Char) :
    matchAt offBody (printRec r ++ R) = if r.size.isZero then some (r.tag, afterDate r R) else none := by
  rw [matchAt_print offBody r h R]
  unfold tagAlts
  rw [List.findSome?_cons, afterTag_dropWhile r h R, offBody_size r h R]
  cases hz : r.size.isZero with
  | true => simp
  | false =>
    simp only [Bool.false_eq_true, if_false, Option.map_none]
    rw [List.findSome?_eq_none_iff]
    intro x hx
    simp only [List.mem_map] at hx
    obtain ⟨⟨a, b⟩, hm, rfl⟩ := hx
    obtain ⟨_, hb, hab⟩ := properSplits_mem hm
    have : offBody (b ++ afterTag r R) = none :=
      offBody_alt r h R b hb (fun c hc => h.tag_ok c (by rw [← hab]; simp [hc]))
    simp [this]

/-- the on pattern at the start of a printed record -/
theorem matchAt_on_print (r : Rec) (h : r.WF) (R : List Char) :
    matchAt onBody (printRec r ++ R) = if r.size.isZero then none else some (r.tag, afterDate r R) := by
  rw [matchAt_print onBody r h R]
  unfold tagAlts
  rw [List.findSome?_cons, afterTag_dropWhile r h R, onBody_size r h R]
  cases hz : r.size.isZero with
  | false => simp
  | true =>
    simp only [if_true, Option.map_none]
    rw [List.findSome?_eq_none_iff]
    intro x hx
    simp only [List.mem_map] at hx
    obtain ⟨⟨a, b⟩, hm, rfl⟩ := hx
    obtain ⟨_, _, hab⟩ := properSplits_mem hm
    have : onBody (b ++ afterTag r R) = none :=
      onBody_alt r h hz R b (fun c hc => h.tag_ok c (by rw [← hab]; simp [hc]))
    simp [this]

/-- no match attempt succeeds where the text does not start with a digit -/
theorem matchAt_nondigit (body : List Char → Option (List Char)) (s : List Char) (h : Stops isDigit s) :
    matchAt body s = none := by
  unfold matchAt
  cases s with
  | nil => simp
  | cons c s =>
    have : isDigit c = false := h c (by simp)
    simp [this]

/-! ## Part B — scanning a listing line by line -/

theorem noNl_append {a b : List Char} (ha : noNl a) (hb : noNl b) : noNl (a ++ b) := by
  intro c hc
  rcases List.mem_append.mp hc with h | h
  · exact ha c h
  · exact hb c h

theorem noNl_of_all {q : Char → Bool} {l : List Char} (hq : ∀ c ∈ l, q c = true)
    (hqn : ∀ c, q c = true → isNl c = false) : noNl l := fun c hc => hqn c (hq c hc)

theorem noNl_sp (n : Nat) : noNl (' ' :: spaces n) := by
  intro c hc
  simp [spaces] at hc
  rcases hc with rfl | ⟨_, rfl⟩ <;> decide

theorem printSize_noNl (z : Size) (h : z.WF) : noNl (printSize z) := by
  unfold printSize
  refine noNl_append (noNl_of_all h.digits_ok (fun c => digit_not_nl)) (noNl_append ?_ (noNl_append ?_
    (noNl_append (noNl_of_all h.frac_ok (fun c => frac_not_nl)) ?_)))
  · cases z.e <;> simp [eChars, noNl] <;> decide
  · cases z.sign with
    | none => simp [signChars, noNl]
    | some b => cases b <;> simp [signChars, noNl] <;> decide
  · intro c hc
    rcases List.mem_cons.mp hc with rfl | hc
    · decide
    · exact tag_not_nl (word_tag (h.unit_ok c hc))

theorem printDate_noNl (r : Rec) (h : r.WF) : noNl (printDate r) := by
  obtain ⟨h1, h2, h3, h4, h5, h6, h7, h8⟩ := h.date_ok
  intro c hc
  simp only [printDate, List.mem_cons, List.not_mem_nil, or_false] at hc
  rcases hc with rfl | rfl | rfl | rfl | rfl | rfl | rfl | rfl | rfl | rfl
  all_goals first | exact digit_not_nl ‹_› | decide

theorem printRec_noNl (r : Rec) (h : r.WF) : noNl (printRec r) := by
  unfold printRec
  exact noNl_append (noNl_of_all h.id_ok (fun c => digit_not_nl)) (noNl_append (noNl_sp _)
    (noNl_append (noNl_of_all h.tag_ok (fun c => tag_not_nl)) (noNl_append (noNl_sp _)
      (noNl_append (printSize_noNl _ h.size_ok) (noNl_append (noNl_sp _)
        (noNl_append (printDate_noNl r h) h.tail_ok))))))

theorem printLine_noNl (l : Line) (h : l.WF) : noNl (printLine l) := by
  cases l with
  | snap r => exact printRec_noNl r h
  | other t => exact h.1

theorem scan_rest_of_line (m : List Char → Option (Name × List Char)) (a b : List Char) (ha : noNl a)
    (k : Nat) (hk : k ≤ a.length) : scan m (a ++ b) k false = scan m b 0 false := by
  induction a generalizing k with
  | nil =>
    have : k = 0 := by simpa using hk
    subst this
    rfl
  | cons x a ih =>
    have hx : isNl x = false := ha x (by simp)
    have ha' : noNl a := fun c hc => ha c (by simp [hc])
    cases k with
    | zero =>
      rw [List.cons_append, scan, hx]
      exact ih ha' 0 (Nat.zero_le _)
    | succ k =>
      rw [List.cons_append, scan, hx]
      exact ih ha' k (by simpa using hk)

/-- what the scan yields after the current line: nothing at the end of the text, the scan of the next
lines after a newline -/
def contAfter (m : List Char → Option (Name × List Char)) : List Char → List Name
  | [] => []
  | _ :: more => scan m more 0 true

def RestOK (R : List Char) : Prop := R = [] ∨ ∃ more, R = '\n' :: more

theorem scan_false_rest (m : List Char → Option (Name × List Char)) (R : List Char) (h : RestOK R) :
    scan m R 0 false = contAfter m R := by
  rcases h with rfl | ⟨more, rfl⟩
  · rfl
  · rw [scan]
    rfl

theorem scan_line_none (m : List Char → Option (Name × List Char)) (t R : List Char) (ht : noNl t)
    (hR : RestOK R) (hm : m (t ++ R) = none) : scan m (t ++ R) 0 true = contAfter m R := by
  cases t with
  | nil =>
    rcases hR with rfl | ⟨more, rfl⟩
    · rfl
    · rw [List.nil_append] at hm ⊢
      rw [scan, hm]
      rfl
  | cons c t =>
    have hc : isNl c = false := ht c (by simp)
    rw [List.cons_append] at hm ⊢
    rw [scan, hm]
    simp only [hc]
    rw [scan_rest_of_line m t R (fun c hc => ht c (by simp [hc])) 0 (Nat.zero_le _)]
    exact scan_false_rest m R hR

theorem scan_line_some (m : List Char → Option (Name × List Char)) (c : Char) (t R : List Char)
    (ht : noNl (c :: t)) (hR : RestOK R) (tag : Name) (rest : List Char)
    (hm : m (c :: t ++ R) = some (tag, rest)) (hlen : R.length ≤ rest.length) :
    scan m (c :: t ++ R) 0 true = tag :: contAfter m R := by
  have hc : isNl c = false := ht c (by simp)
  rw [List.cons_append] at hm ⊢
  rw [scan, hm]
  simp only [hc]
  rw [scan_rest_of_line m t R (fun c hc => ht c (by simp [hc])) _ (by simp; omega)]
  rw [scan_false_rest m R hR]

def offTags : Line → List Name
  | .snap r => if r.size.isZero then [r.tag] else []
  | .other _ => []

def onTags : Line → List Name
  | .snap r => if r.size.isZero then [] else [r.tag]
  | .other _ => []

theorem printRec_cons (r : Rec) (h : r.WF) : ∃ c t, printRec r = c :: t := by
  cases hid : r.id with
  | nil => exact absurd hid h.id_ne
  | cons c t => exact ⟨c, t ++ _, by rw [printRec, hid]; rfl⟩

theorem restOK_stops_digit (t R : List Char) (ht : ∀ c ∈ t.head?, isDigit c = false) (hR : RestOK R) :
    Stops isDigit (t ++ R) := by
  cases t with
  | nil =>
    rcases hR with rfl | ⟨more, rfl⟩
    · exact stops_nil _
    · exact stops_cons (by decide)
  | cons c t => exact stops_cons (ht c (by simp))

theorem scan_off_line (l : Line) (h : l.WF) (R : List Char) (hR : RestOK R) :
    scan (matchAt offBody) (printLine l ++ R) 0 true = offTags l ++ contAfter (matchAt offBody) R := by
  cases l with
  | other t =>
    simp only [printLine, offTags, List.nil_append]
    exact scan_line_none _ t R h.1 hR (matchAt_nondigit _ _ (restOK_stops_digit t R h.2 hR))
  | snap r =>
    have hr : r.WF := h
    have hm := matchAt_off_print r hr R
    have hn := printRec_noNl r hr
    simp only [printLine, offTags]
    cases hz : r.size.isZero with
    | false =>
      rw [hz] at hm
      simp only [Bool.false_eq_true, if_false, List.nil_append]
      exact scan_line_none _ _ R hn hR hm
    | true =>
      rw [hz] at hm
      obtain ⟨c, t, hct⟩ := printRec_cons r hr
      rw [hct] at hm hn ⊢
      simp only [if_true, List.singleton_append]
      exact scan_line_some _ c t R hn hR r.tag _ hm (by simp [afterDate])

theorem scan_on_line (l : Line) (h : l.WF) (R : List Char) (hR : RestOK R) :
    scan (matchAt onBody) (printLine l ++ R) 0 true = onTags l ++ contAfter (matchAt onBody) R := by
  cases l with
  | other t =>
    simp only [printLine, onTags, List.nil_append]
    exact scan_line_none _ t R h.1 hR (matchAt_nondigit _ _ (restOK_stops_digit t R h.2 hR))
  | snap r =>
    have hr : r.WF := h
    have hm := matchAt_on_print r hr R
    have hn := printRec_noNl r hr
    simp only [printLine, onTags]
    cases hz : r.size.isZero with
    | true =>
      rw [hz] at hm
      simp only [if_true, List.nil_append]
      exact scan_line_none _ _ R hn hR hm
    | false =>
      rw [hz] at hm
      obtain ⟨c, t, hct⟩ := printRec_cons r hr
      rw [hct] at hm hn ⊢
      simp only [Bool.false_eq_true, if_false, List.singleton_append]
      exact scan_line_some _ c t R hn hR r.tag _ hm (by simp [afterDate])

theorem scan_listing (m : List Char → Option (Name × List Char)) (tags : Line → List Name)
    (hline : ∀ l, l.WF → ∀ R, RestOK R → scan m (printLine l ++ R) 0 true = tags l ++ contAfter m R)
    (hnl : m ['\n'] = none) (ls : List Line) (hls : ∀ l ∈ ls, l.WF) (trailer : List Char)
    (htr : trailer = [] ∨ trailer = ['\n']) :
    scan m (printListing ls ++ trailer) 0 true = ls.flatMap tags := by
  have hcont : contAfter m trailer = [] := by
    rcases htr with rfl | rfl <;> rfl
  have hrest : RestOK trailer := by
    rcases htr with rfl | rfl
    · exact Or.inl rfl
    · exact Or.inr ⟨[], rfl⟩
  induction ls with
  | nil =>
    rcases htr with rfl | rfl
    · rfl
    · simp only [printListing, List.nil_append, List.flatMap_nil]
      rw [scan, hnl]
      rfl
  | cons l ls ih =>
    have hl : l.WF := hls l (by simp)
    cases ls with
    | nil =>
      simp only [printListing, List.flatMap_cons, List.flatMap_nil, List.append_nil]
      rw [hline l hl trailer hrest, hcont, List.append_nil]
    | cons l' ls' =>
      have ih' := ih (fun x hx => hls x (by simp [hx]))
      simp only [printListing, List.append_assoc, List.cons_append, List.flatMap_cons] at ih' ⊢
      rw [hline l hl _ (Or.inr ⟨_, rfl⟩)]
      simp only [contAfter]
      rw [ih']

theorem flatMap_offTags (ls : List Line) :
    ls.flatMap offTags = ((recsOf ls).filter (fun r => r.size.isZero)).map (·.tag) := by
  induction ls with
  | nil => rfl
  | cons l ls ih =>
    cases l with
    | other t => simp [offTags, recsOf, ih]
    | snap r => cases hz : r.size.isZero <;> simp [offTags, recsOf, ih, hz]

theorem flatMap_onTags (ls : List Line) :
    ls.flatMap onTags = ((recsOf ls).filter (fun r => !r.size.isZero)).map (·.tag) := by
  induction ls with
  | nil => rfl
  | cons l ls ih =>
    cases l with
    | other t => simp [onTags, recsOf, ih]
    | snap r => cases hz : r.size.isZero <;> simp [onTags, recsOf, ih, hz]

/-! ## demo data for the non-vacuity examples of `I2N.Props.C17` -/

def demoZero : Size := { digits := ['0'], e := false, sign := none, frac := [], unit := ['B'] }
def demoSci : Size := { digits := ['2'], e := true, sign := some true, frac := ['0', '3'], unit := ['M', 'i', 'B'] }
def demoGiB : Size := { digits := ['1'], e := false, sign := none, frac := ['.', '5'], unit := ['G', 'i', 'B'] }

def demoRec (id : Char) (tag : List Char) (z : Size) (pad : Nat) : Rec :=
  { id := [id], pad1 := pad, tag := tag, pad2 := pad, size := z, pad3 := 0,
    y1 := '2', y2 := '0', y3 := '2', y4 := '6', m1 := '0', m2 := '9', d1 := '2', d2 := '9',
    tail := " 07:02:17 00:00:00.000".toList }

/-- `Snapshot list:` header, an off snapshot `snap1`, two vm states `launch_2-0` and `boot3.0` -/
def demoListing : List Line :=
  [.other "Snapshot list:".toList, .other "ID  TAG  VM_SIZE  DATE  VM_CLOCK".toList,
   .snap (demoRec '1' "snap1".toList demoZero 3), .snap (demoRec '2' "launch_2-0".toList demoSci 0),
   .snap (demoRec '3' "boot3.0".toList demoGiB 1)]

/-- a second image: only `boot3.0` is a vm state there, `launch_2-0` is an off snapshot -/
def demoListing2 : List Line :=
  [.snap (demoRec '1' "launch_2-0".toList demoZero 1), .snap (demoRec '2' "boot3.0".toList demoSci 2)]

theorem demoSize_wf (z : Size) (hz : z = demoZero ∨ z = demoSci ∨ z = demoGiB) : z.WF := by
  rcases hz with rfl | rfl | rfl <;>
  exact ⟨by decide, by decide, by decide, by decide, by decide, by decide⟩

theorem demoRec_wf (id : Char) (hid : isDigit id = true) (tag : List Char) (htn : tag ≠ [])
    (ht : ∀ c ∈ tag, isTagCh c = true) (z : Size) (hz : z = demoZero ∨ z = demoSci ∨ z = demoGiB) (pad : Nat) :
    (demoRec id tag z pad).WF :=
  ⟨by simp [demoRec], by simpa [demoRec] using hid, htn, ht, demoSize_wf z hz,
   by simp only [demoRec]; decide, by simp only [demoRec]; unfold noNl; decide⟩

theorem demoListing_wf : ∀ l ∈ demoListing, l.WF := by
  intro l hl
  simp only [demoListing, List.mem_cons, List.not_mem_nil, or_false] at hl
  rcases hl with rfl | rfl | rfl | rfl | rfl
  · exact ⟨by unfold noNl; decide, by decide⟩
  · exact ⟨by unfold noNl; decide, by decide⟩
  · exact demoRec_wf _ (by decide) _ (by decide) (by decide) _ (Or.inl rfl) _
  · exact demoRec_wf _ (by decide) _ (by decide) (by decide) _ (Or.inr (Or.inl rfl)) _
  · exact demoRec_wf _ (by decide) _ (by decide) (by decide) _ (Or.inr (Or.inr rfl)) _

theorem demoListing2_wf : ∀ l ∈ demoListing2, l.WF := by
  intro l hl
  simp only [demoListing2, List.mem_cons, List.not_mem_nil, or_false] at hl
  rcases hl with rfl | rfl
  · exact demoRec_wf _ (by decide) _ (by decide) (by decide) _ (Or.inl rfl) _
  · exact demoRec_wf _ (by decide) _ (by decide) (by decide) _ (Or.inr (Or.inl rfl)) _

end I2N.Show
